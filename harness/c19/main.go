// C19 — FakeTLS carries any write sizes intact and checks the server digest: correspondence of
// faketls.{FakeTLS.Write, FakeTLS.Read, readRecord, readServerHello} with the Lean model TdModel.C19,
// plus the property monitor on the implementation.
package main

import (
	"bytes"
	"crypto/hmac"
	"crypto/sha256"
	"encoding/binary"
	"errors"
	"fmt"
	"go/ast"
	"go/parser"
	"go/token"
	"hash/crc32"
	"io"
	"os"
	"path/filepath"
	"strconv"
	"strings"
	"time"

	"github.com/gotd/td/mtproxy"
	"github.com/gotd/td/mtproxy/faketls"

	"verif/harness/hc"
)

func main() {
	hc.Main(hc.Spec{Prop: "C19", Facts: facts, Run: run})
}

const dir = "mtproxy/faketls"

// pkgDecls parses the package's non-test, non-hook files.
func pkgDecls(f *hc.Facts) []ast.Decl {
	var out []ast.Decl
	ents, _ := os.ReadDir(filepath.Join(f.Repo, dir))
	fset := token.NewFileSet()
	for _, e := range ents {
		n := e.Name()
		if e.IsDir() || !strings.HasSuffix(n, ".go") || strings.HasSuffix(n, "_test.go") || strings.HasPrefix(n, "verif_") {
			continue
		}
		if af, err := parser.ParseFile(fset, filepath.Join(f.Repo, dir, n), nil, 0); err == nil {
			out = append(out, af.Decls...)
		}
	}
	return out
}

// byteArrayFact emits a package-level `var goName = [N]byte{…}` as a Lean byte list.
func byteArrayFact(f *hc.Facts, lean, goName string) {
	found := false
	var vals []string
	for _, d := range pkgDecls(f) {
		gd, ok := d.(*ast.GenDecl)
		if !ok || gd.Tok != token.VAR {
			continue
		}
		for _, s := range gd.Specs {
			vs := s.(*ast.ValueSpec)
			for i, id := range vs.Names {
				if id.Name != goName || i >= len(vs.Values) {
					continue
				}
				cl, ok := vs.Values[i].(*ast.CompositeLit)
				if !ok {
					continue
				}
				found = true
				for _, e := range cl.Elts {
					bl, ok := e.(*ast.BasicLit)
					if !ok {
						found = false
						break
					}
					v, err := strconv.ParseInt(bl.Value, 0, 64)
					if err != nil || v < 0 || v > 255 {
						found = false
						break
					}
					vals = append(vals, fmt.Sprintf("0x%02x", v))
				}
			}
		}
	}
	if !found {
		f.Missing(lean, dir+"."+goName+" byte array literal not found")
		return
	}
	f.Raw(fmt.Sprintf("def %s : List UInt8 := [%s] -- %s.%s", lean, strings.Join(vals, ", "), dir, goName))
}

// evalInt evaluates a constant integer expression over literals, package constants, local constants
// (through local) and + - *.
func evalInt(f *hc.Facts, x ast.Expr, local func(string) (int, bool)) (int, bool) {
	switch x := x.(type) {
	case *ast.BasicLit:
		v, err := strconv.ParseInt(x.Value, 0, 64)
		return int(v), err == nil
	case *ast.ParenExpr:
		return evalInt(f, x.X, local)
	case *ast.Ident:
		if local != nil {
			if v, ok := local(x.Name); ok {
				return v, true
			}
		}
		if sv, ok := f.ConstInt(dir, x.Name); ok {
			v, err := strconv.Atoi(sv)
			return v, err == nil
		}
	case *ast.BinaryExpr:
		a, ok1 := evalInt(f, x.X, local)
		b, ok2 := evalInt(f, x.Y, local)
		if ok1 && ok2 {
			switch x.Op {
			case token.ADD:
				return a + b, true
			case token.SUB:
				return a - b, true
			case token.MUL:
				return a * b, true
			}
		}
	}
	return 0, false
}

func facts(f *hc.Facts) {
	f.Const("maxRecord", dir, "maxTLSRecordDataLength")
	f.Const("typeChangeCipherSpec", dir, "RecordTypeChangeCipherSpec")
	f.Const("typeHandshake", dir, "RecordTypeHandshake")
	f.Const("typeApplication", dir, "RecordTypeApplication")
	f.Const("maxHandshakeRecords", dir, "maxHandshakeRecords")
	f.Const("clientRandomOffset", dir, "clientRandomOffset")
	f.Const("clientRandomLength", dir, "clientRandomLength")
	byteArrayFact(f, "version10", "Version10Bytes")
	byteArrayFact(f, "version11", "Version11Bytes")
	byteArrayFact(f, "version12", "Version12Bytes")
	byteArrayFact(f, "version13", "Version13Bytes")
	// local constant of readServerHello
	off := -1
	if fd := f.FuncDecl(dir, "readServerHello"); fd != nil {
		ast.Inspect(fd, func(n ast.Node) bool {
			vs, ok := n.(*ast.ValueSpec)
			if ok && len(vs.Names) == 1 && vs.Names[0].Name == "serverRandomOffset" && len(vs.Values) == 1 {
				if bl, ok := vs.Values[0].(*ast.BasicLit); ok {
					if v, err := strconv.Atoi(bl.Value); err == nil {
						off = v
					}
				}
			}
			return true
		})
	}
	if off < 0 {
		f.Missing("serverRandomOffset", "const serverRandomOffset in readServerHello not found")
	} else {
		f.Nat("serverRandomOffset", off, "readServerHello: const serverRandomOffset")
	}
	// FakeTLS writes with Version12Bytes
	if !strings.Contains(strings.Join(strings.Fields(f.FuncSrc(dir, "NewFakeTLS")), ""), "version:Version12Bytes") {
		f.Missing("writesVersion12", "NewFakeTLS no longer sets version: Version12Bytes")
	} else {
		f.Bool("writesVersion12", true, "NewFakeTLS: version: Version12Bytes")
	}
	// readServerHello: how many digest bytes the final comparison covers (interpreted by the model)
	cmpLen := -1
	if fd := f.FuncDecl(dir, "readServerHello"); fd != nil {
		localConst := func(name string) (int, bool) {
			v, ok := -1, false
			ast.Inspect(fd, func(n ast.Node) bool {
				vs, is := n.(*ast.ValueSpec)
				if is && len(vs.Names) == 1 && vs.Names[0].Name == name && len(vs.Values) == 1 {
					if x, okx := evalInt(f, vs.Values[0], nil); okx {
						v, ok = x, true
					}
				}
				return true
			})
			return v, ok
		}
		ast.Inspect(fd, func(n ast.Node) bool {
			call, ok := n.(*ast.CallExpr)
			if !ok || len(call.Args) != 2 {
				return true
			}
			if fn := hc.Squash(f.Src(call.Fun)); fn != "bytes.Equal" && fn != "hmac.Equal" {
				return true
			}
			l := 32
			for _, a := range call.Args {
				if se, ok := a.(*ast.SliceExpr); ok && se.High != nil {
					if v, ok := evalInt(f, se.High, localConst); ok {
						lo := 0
						if se.Low != nil {
							lo, _ = evalInt(f, se.Low, localConst)
						}
						if v-lo < l {
							l = v - lo
						}
					} else {
						l = -1
					}
				}
			}
			cmpLen = l
			return true
		})
	}
	if cmpLen < 0 {
		f.Missing("digestCmpLen", "readServerHello: bytes.Equal/hmac.Equal on the digest not found or bounds not constant")
	} else {
		f.Nat("digestCmpLen", cmpLen, "readServerHello: number of digest bytes the final comparison covers")
	}

	// FakeTLS.Read: the switch over the record type, as a table the model interprets
	// (0 = skip the record, 1 = deliver its data, 2 = error "handshake", 3 = error "unsupported")
	var table []string
	deflt := -1
	if fd := f.FuncDecl(dir, "FakeTLS.Read"); fd != nil {
		ast.Inspect(fd, func(n ast.Node) bool {
			sw, ok := n.(*ast.SwitchStmt)
			if !ok || sw.Tag == nil || hc.Squash(f.Src(sw.Tag)) != "rec.Type" {
				return true
			}
			for _, cl := range sw.Body.List {
				cc := cl.(*ast.CaseClause)
				act := -1
				switch {
				case len(cc.Body) == 0:
					act = 1
				case len(cc.Body) == 1 && hc.Squash(f.Src(cc.Body[0])) == "continue":
					act = 0
				default:
					if _, isRet := cc.Body[len(cc.Body)-1].(*ast.ReturnStmt); isRet {
						act = 3
						if strings.Contains(f.Src(cc.Body[len(cc.Body)-1]), "handshake") {
							act = 2
						}
					}
				}
				if cc.List == nil {
					deflt = act
					continue
				}
				for _, e := range cc.List {
					if id, ok := e.(*ast.Ident); ok {
						if v, ok := f.ConstInt(dir, id.Name); ok && act >= 0 {
							table = append(table, fmt.Sprintf("(%s, %d)", v, act))
							continue
						}
					}
					table = append(table, "(missing_case, 0)")
				}
			}
			return false
		})
	}
	if len(table) == 0 || deflt < 0 {
		f.Missing("readSwitch", "FakeTLS.Read: switch rec.Type with a default not found")
		f.Missing("readDefault", "FakeTLS.Read: switch rec.Type with a default not found")
	} else {
		f.Raw("def readSwitch : List (Nat × Nat) := [" + strings.Join(table, ", ") + "] -- FakeTLS.Read: switch rec.Type (type, action) in source order")
		f.Nat("readDefault", deflt, "FakeTLS.Read: action of the default case")
	}

	// FakeTLS.Write: the loop that cuts the data into records.  The cut condition and the cut position
	// are translated (semantic facts); without a loop the model falls back to one record per call.
	var cond, cut ast.Expr
	advances := false
	if fd := f.FuncDecl(dir, "FakeTLS.Write"); fd != nil {
		ast.Inspect(fd, func(n ast.Node) bool {
			fs, ok := n.(*ast.ForStmt)
			if !ok || !strings.Contains(f.Src(fs), "writeRecord(") {
				return true
			}
			ast.Inspect(fs, func(m ast.Node) bool {
				switch m := m.(type) {
				case *ast.IfStmt:
					if cond == nil && strings.Contains(hc.Squash(f.Src(m.Cond)), "len(chunk)") {
						cond = m.Cond
						ast.Inspect(m.Body, func(k ast.Node) bool {
							if se, ok := k.(*ast.SliceExpr); ok && cut == nil && se.Low == nil && se.High != nil && f.Src(se.X) == "chunk" {
								cut = se.High
							}
							return true
						})
					}
				case *ast.AssignStmt:
					if hc.Squash(f.Src(m)) == "b=b[len(chunk):]" {
						advances = true
					}
				}
				return true
			})
			return false
		})
	}
	splits := cond != nil && cut != nil && advances
	f.Bool("writeSplits", splits, "FakeTLS.Write: a loop writing one record per chunk and advancing by len(chunk)")
	if splits {
		f.TranslateExpr("splitNeeded", dir, cond, "Bool", []string{"n"}, map[string]string{"len(chunk)": "n"}, "FakeTLS.Write: the remaining data does not fit one record")
		f.TranslateExpr("splitAt", dir, cut, "Int", nil, nil, "FakeTLS.Write: length of a full record's data")
	} else {
		f.ConstFn("splitNeeded", []string{"n"}, "Bool", "false", "FakeTLS.Write does not split")
		f.ConstFn("splitAt", nil, "Int", "0", "FakeTLS.Write does not split")
	}
}

// pattern is the payload generator shared with the driver: byte i = seed + i + i/256 (mod 256).
func pattern(n, seed int) []byte {
	b := make([]byte, n)
	for i := range b {
		b[i] = byte(seed + i + i/256)
	}
	return b
}

type rw struct {
	out bytes.Buffer
	in  io.Reader
}

func (c *rw) Write(p []byte) (int, error) { return c.out.Write(p) }
func (c *rw) Read(p []byte) (int, error)  { return c.in.Read(p) }

// chunked reader for the connection side
type chunked struct {
	data []byte
	pos  int
	rng  *hc.RNG
	mode int // 0: random chunks, 1: one byte, 2: as much as asked; +4: the last bytes come together with io.EOF
}

func (c *chunked) Read(p []byte) (int, error) {
	if len(p) == 0 {
		return 0, nil
	}
	if c.pos >= len(c.data) {
		return 0, io.EOF
	}
	n := len(p)
	switch c.mode & 3 {
	case 0:
		n = 1 + c.rng.Intn(hc.Pick(c.rng, 1, 3, 5, 64, 4096, 70000))
	case 1:
		n = 1
	}
	n = min(n, len(p), len(c.data)-c.pos)
	copy(p, c.data[c.pos:c.pos+n])
	c.pos += n
	if c.mode&4 != 0 && c.pos == len(c.data) {
		return n, io.EOF // allowed by the io.Reader contract
	}
	return n, nil
}

func errClass(err error) string {
	switch {
	case err == nil:
		return "nil"
	case errors.Is(err, io.ErrUnexpectedEOF):
		return "ueof"
	case errors.Is(err, io.EOF):
		return "eof"
	case strings.Contains(err.Error(), "unknown protocol version"):
		return "version"
	case strings.Contains(err.Error(), "unexpected record type handshake"):
		return "handshake"
	case strings.Contains(err.Error(), "unsupported record type"):
		s := err.Error()
		return "unsupported:" + s[strings.LastIndex(s, " ")+1:]
	case strings.Contains(err.Error(), "hmac digest mismatch"):
		return "digest"
	case strings.Contains(err.Error(), "too short"):
		return "short"
	case strings.Contains(err.Error(), "unexpected record type"):
		return "type"
	}
	return "other:" + err.Error()
}

var failSeen = map[string]int{}

func fail(c *hc.Ctx, key, input, detail string) {
	failSeen[key]++
	c.Count("monitor." + key)
	if failSeen[key] <= 2 {
		c.Fail(key, input, detail)
	}
}

// recordLens parses a wire produced by Write and returns the record data lengths; ok=false if the
// byte stream is not a sequence of well-formed records that exactly covers the wire.
func recordLens(wire []byte) (lens []int, ok bool) {
	for len(wire) > 0 {
		if len(wire) < 5 {
			return lens, false
		}
		if wire[1] != 3 || wire[2] < 1 || wire[2] > 4 {
			return lens, false
		}
		l := int(binary.BigEndian.Uint16(wire[3:5]))
		if len(wire) < 5+l {
			return lens, false
		}
		lens = append(lens, l)
		wire = wire[5+l:]
	}
	return lens, true
}

func lenBucket(l int) string {
	switch {
	case l == 0:
		return "0"
	case l < 65535:
		return "<65535"
	case l == 65535:
		return "=65535"
	case l <= 65537:
		return "65536..65537"
	case l < 1<<20:
		return "<1M"
	default:
		return ">=1M"
	}
}

func genWriteLen(r *hc.RNG, big bool) int {
	switch r.Intn(12) {
	case 0:
		return 0
	case 1:
		return 1
	case 2:
		return hc.Pick(r, 65534, 65535, 65536, 65537)
	case 3:
		if big {
			return hc.Pick(r, 131069, 131070, 131071, 131072, 196605, 196606, 70000)
		}
		return r.Range(1, 300)
	case 4:
		if big {
			return r.Range(65536, 400000)
		}
		return r.Range(1, 3000)
	default:
		return r.Range(1, 2000)
	}
}

func run(c *hc.Ctx) error {
	r := c.Rng
	var lines, impls []string
	add := func(line, impl string) {
		lines = append(lines, line)
		impls = append(impls, impl)
	}

	// ---- 1. sequences of writes → wire → peer reads with random buffer sizes
	streamCase := func(lens []int, bucket string) {
		var desc []string
		var want []byte
		conn := &rw{}
		w := faketls.NewFakeTLS(r, conn)
		nontrivial := false
		for _, l := range lens {
			seed := r.Intn(256)
			p := pattern(l, seed)
			desc = append(desc, fmt.Sprintf("%d:%d", l, seed))
			c.Count("write.len" + lenBucket(l))
			if l > 65535 {
				nontrivial = true
			}
			n, err := w.Write(p)
			if err != nil || n != l {
				c.Eval("wire "+strings.Join(desc, " "), true)
				fail(c, "write-result", "wire "+strings.Join(desc, " "), fmt.Sprintf("Write of %d bytes returned n=%d err=%v", l, n, err))
				return
			}
			want = append(want, p...)
		}
		c.Count("stream." + bucket)
		line := "wire " + strings.Join(desc, " ")
		c.Eval(line, nontrivial || len(lens) > 1)
		wire := append([]byte{}, conn.out.Bytes()...)
		recLens, okw := recordLens(wire)
		// monitor a: the wire is a sequence of whole records carrying exactly the written bytes
		total := 0
		for _, l := range recLens {
			total += l
		}
		if !okw || total != len(want)+1 { // +1: the first-packet ChangeCipherSpec payload
			fail(c, "wire-malformed", line, fmt.Sprintf("the bytes written are not a sequence of whole TLS records carrying the %d written bytes (records carry %d, well-formed=%v)", len(want), total-1, okw))
		}
		// monitor b: a FakeTLS peer reads back exactly the written bytes, for any read sizes
		peer := faketls.NewFakeTLS(r, &rw{in: &chunked{data: wire, rng: r.Fork(), mode: r.Intn(3) + 4*r.Intn(2)}})
		var got []byte
		var rerr error
		for len(got) <= len(want)+16 {
			buf := make([]byte, hc.Pick(r, 1, 2, 7, 100, 4096, 65536, 1<<20, r.Range(1, 5000)))
			n, err := peer.Read(buf)
			got = append(got, buf[:n]...)
			if err != nil {
				rerr = err
				break
			}
		}
		if !bytes.Equal(got, want) || errClass(rerr) != "eof" {
			k := 0
			for k < len(got) && k < len(want) && got[k] == want[k] {
				k++
			}
			fail(c, "stream-roundtrip", line, fmt.Sprintf("peer read %d bytes (first difference at offset %d) then %q; %d bytes were written", len(got), k, errClass(rerr), len(want)))
		}
		var ls []string
		for _, l := range recLens {
			ls = append(ls, strconv.Itoa(l))
		}
		add(line, fmt.Sprintf("%d %d %s | %d %d %s", len(wire), crc32.ChecksumIEEE(wire), strings.Join(ls, ","), len(got), crc32.ChecksumIEEE(got), errClass(rerr)))
		if len(wire) <= 1500 {
			add("wirehex "+strings.Join(desc, " "), hc.Hex(wire))
		}
	}
	nseq := c.N(500, 6000)
	for i := 0; i < nseq; i++ {
		nw := r.Range(1, 5)
		big := r.Chance(12)
		var lens []int
		for j := 0; j < nw; j++ {
			l := genWriteLen(r, big)
			if i == 0 && j == 0 {
				l = 3 << 20 // one multi-MiB write per run
			}
			if c.Thorough() && i < 40 && j == 0 {
				l = hc.Pick(r, 1<<20, 3<<20, 5<<20+r.Intn(70000))
			}
			lens = append(lens, l)
		}
		streamCase(lens, "random")
	}
	// every write length 0..2100, three writes per connection (a lost or added byte desynchronises what follows)
	const dense = 2100
	for l := 0; l <= dense; l += 3 {
		streamCase([]int{l, l + 1, l + 2}, "dense-0..2100")
	}
	// lengths whose last record carries 0..2100 bytes (length mod 65535 sweeps the same range): all of
	// them in thorough; in quick the residues around every power of two up to 2048 and every third residue
	var residues []int
	if c.Thorough() {
		for res := 0; res <= dense; res++ {
			residues = append(residues, res)
		}
	} else {
		for p := 1; p <= 2048; p *= 2 {
			for d := -6; d <= 6; d++ {
				if p+d >= 0 {
					residues = append(residues, p+d)
				}
			}
		}
		// one third of all residues per run (which third depends on the seed)
		for res := int(c.Seed % 3); res <= dense; res += 3 {
			residues = append(residues, res)
		}
	}
	for _, res := range residues {
		streamCase([]int{65535*hc.Pick(r, 1, 1, 2) + res, r.Range(1, 40), r.Range(1, 40)}, "tail-residue")
	}

	// ---- 2. Read calls on arbitrary / mutated wires
	for i := 0; i < c.N(1500, 60000); i++ {
		var wire []byte
		nrec := r.Range(0, 4)
		for j := 0; j < nrec; j++ {
			typ := hc.Pick[byte](r, 0x17, 0x17, 0x17, 0x14, 0x14, 0x16, 0x15, 0x18, byte(r.Intn(256)))
			ver := hc.Pick(r, [2]byte{3, 3}, [2]byte{3, 3}, [2]byte{3, 1}, [2]byte{3, 2}, [2]byte{3, 4}, [2]byte{3, 5}, [2]byte{3, 0}, [2]byte{byte(r.Intn(4)), byte(r.Intn(6))})
			data := r.Bytes(hc.Pick(r, 0, 0, 1, 2, 5, r.Range(0, 40)))
			var b bytes.Buffer
			faketls.VerifC19WriteRecord(&b, typ, ver, data)
			wire = append(wire, b.Bytes()...)
		}
		switch r.Intn(5) {
		case 0:
			if len(wire) > 0 {
				wire = wire[:r.Intn(len(wire))]
			}
		case 1:
			if len(wire) > 0 {
				wire[r.Intn(len(wire))] ^= byte(1 << r.Intn(8))
			}
		case 2:
			wire = append(wire, r.Bytes(r.Range(1, 6))...)
		}
		var ks []string
		var outs []string
		peer := faketls.NewFakeTLS(r, &rw{in: &chunked{data: wire, rng: r.Fork(), mode: r.Intn(3) + 4*r.Intn(2)}})
		for j := 0; j < 8; j++ {
			k := hc.Pick(r, 0, 1, 2, 3, 8, 64)
			ks = append(ks, strconv.Itoa(k))
			buf := make([]byte, k)
			n, err := peer.Read(buf)
			if err != nil {
				outs = append(outs, "err:"+errClass(err))
				c.Count("read.err." + strings.SplitN(errClass(err), ":", 2)[0])
				break
			}
			outs = append(outs, hc.Hex(buf[:n]))
		}
		line := fmt.Sprintf("readcalls %s %s", hc.Hex(wire), strings.Join(ks, ","))
		c.Eval(line, len(wire) > 0)
		add(line, strings.Join(outs, " "))
	}

	// ---- 3. server hello
	for i := 0; i < c.N(1200, 60000); i++ {
		secret := r.Bytes(16)
		var random [32]byte
		r.Read(random[:])
		var b bytes.Buffer
		hsLen := hc.Pick(r, 38, 38, 39, 60, 122, r.Range(38, 200))
		kind := "good"
		switch r.Intn(12) {
		case 0:
			hsLen = r.Range(0, 37)
			kind = "short"
		}
		hsType := byte(0x16)
		if r.Chance(4) {
			hsType = hc.Pick[byte](r, 0x17, 0x14, 0x15)
			kind = "first-type"
		}
		faketls.VerifC19WriteRecord(&b, hsType, hc.Pick(r, [2]byte{3, 3}, [2]byte{3, 1}), r.Bytes(hsLen))
		extra := hc.Pick(r, 0, 0, 0, 1, 2, 14, 15, 16, 17)
		for j := 0; j < extra; j++ {
			faketls.VerifC19WriteRecord(&b, 0x16, [2]byte{3, 3}, r.Bytes(r.Range(0, 8)))
		}
		if extra >= 16 && kind == "good" {
			kind = "too-many-handshake"
		}
		mid := byte(0x14)
		if r.Chance(5) {
			mid = hc.Pick[byte](r, 0x17, 0x15, 0x18)
			if kind == "good" {
				kind = "no-ccs"
			}
		}
		faketls.VerifC19WriteRecord(&b, mid, [2]byte{3, 3}, []byte{1})
		certType := byte(0x17)
		if r.Chance(5) {
			certType = hc.Pick[byte](r, 0x16, 0x14)
			if kind == "good" {
				kind = "cert-type"
			}
		}
		faketls.VerifC19WriteRecord(&b, certType, [2]byte{3, 3}, r.Bytes(r.Range(0, 64)))
		raw := b.Bytes()
		// digest
		macSecret, macRandom := secret, random
		dk := "right"
		switch r.Intn(6) {
		case 0:
			macSecret = r.Bytes(16)
			dk = "wrong-secret"
		case 1:
			macRandom[r.Intn(32)] ^= byte(1 << r.Intn(8))
			dk = "wrong-random"
		}
		if len(raw) >= 43 {
			for k := 11; k < 43; k++ {
				raw[k] = 0
			}
			mac := hmac.New(sha256.New, macSecret)
			mac.Write(macRandom[:])
			mac.Write(raw)
			copy(raw[11:43], mac.Sum(nil))
			if dk == "right" && r.Chance(8) {
				raw[r.Range(11, len(raw)-1)] ^= byte(1 << r.Intn(8)) // tamper after signing
				dk = "tampered"
			}
		}
		trailing := r.Bytes(hc.Pick(r, 0, 0, 3))
		stream := append(append([]byte{}, raw...), trailing...)
		if r.Chance(5) && len(stream) > 0 {
			stream = stream[:r.Intn(len(stream))]
			kind = "truncated"
		}
		rd := &chunked{data: stream, rng: r.Fork(), mode: r.Intn(3) + 4*r.Intn(2)}
		err := faketls.VerifC19ReadServerHello(rd, random, secret)
		line := fmt.Sprintf("shello %s %s %s", hc.Hex(random[:]), hc.Hex(secret), hc.Hex(stream))
		c.Eval(line, true)
		c.Count("shello." + kind + "." + dk + "." + strings.SplitN(errClass(err), ":", 2)[0])
		out := "err " + errClass(err)
		if err == nil {
			out = fmt.Sprintf("ok %d", len(stream)-rd.pos)
			// monitor: an accepted hello carries HMAC(secret, clientRandom ‖ hello with the digest zeroed)
			used := append([]byte{}, stream[:rd.pos]...)
			var dg [32]byte
			copy(dg[:], used[11:43])
			for k := 11; k < 43; k++ {
				used[k] = 0
			}
			mac := hmac.New(sha256.New, secret)
			mac.Write(random[:])
			mac.Write(used)
			if !hmac.Equal(mac.Sum(nil), dg[:]) {
				fail(c, "hello-accepted-without-digest", line, "readServerHello accepted a hello whose digest is not HMAC(secret, clientRandom ‖ zeroed hello)")
			}
		} else if kind == "good" && dk == "right" {
			fail(c, "hello-rejected", line, "a well-formed hello with the right digest was rejected: "+err.Error())
		}
		add(line, out)
	}

	// ---- 3a. every single-bit flip of an honest hello must be rejected (all 256 digest bits, and
	// bits of every other field)
	for i := 0; i < c.N(2, 60); i++ {
		secret := r.Bytes(16)
		var random [32]byte
		r.Read(random[:])
		var b bytes.Buffer
		faketls.VerifC19WriteRecord(&b, 0x16, [2]byte{3, 3}, r.Bytes(r.Range(38, 90)))
		for j := r.Intn(3); j > 0; j-- {
			faketls.VerifC19WriteRecord(&b, 0x16, [2]byte{3, 3}, r.Bytes(r.Range(0, 8)))
		}
		faketls.VerifC19WriteRecord(&b, 0x14, [2]byte{3, 3}, []byte{1})
		faketls.VerifC19WriteRecord(&b, 0x17, [2]byte{3, 3}, r.Bytes(r.Range(1, 40)))
		raw := b.Bytes()
		for k := 11; k < 43; k++ {
			raw[k] = 0
		}
		mac := hmac.New(sha256.New, secret)
		mac.Write(random[:])
		mac.Write(raw)
		copy(raw[11:43], mac.Sum(nil))
		var bits []int
		for k := 11 * 8; k < 43*8; k++ {
			bits = append(bits, k)
		}
		for k := 0; k < c.N(150, 400); k++ {
			bits = append(bits, r.Intn(len(raw)*8))
		}
		for _, bit := range bits {
			stream := append([]byte{}, raw...)
			stream[bit/8] ^= 1 << (bit % 8)
			rd := &chunked{data: stream, rng: r.Fork(), mode: r.Intn(3)}
			err := faketls.VerifC19ReadServerHello(rd, random, secret)
			line := fmt.Sprintf("shello %s %s %s", hc.Hex(random[:]), hc.Hex(secret), hc.Hex(stream))
			c.Eval(line, true)
			field := "other"
			if bit/8 >= 11 && bit/8 < 43 {
				field = fmt.Sprintf("digest-byte-%02d", bit/8-11)
			}
			c.Count("shello.bitflip." + map[bool]string{true: "digest", false: "other"}[field != "other"])
			if err == nil {
				fail(c, "hello-bitflip-accepted", line, fmt.Sprintf("a hello with bit %d of byte %d (%s) flipped after signing was accepted", bit%8, bit/8, field))
				add(line, fmt.Sprintf("ok %d", len(stream)-rd.pos))
				continue
			}
			add(line, "err "+errClass(err))
		}
	}

	// ---- 3b. ClientHello: digest placement and timestamp XOR
	for i := 0; i < c.N(150, 4000); i++ {
		secret := r.Bytes(16)
		now := hc.Pick(r, int64(0), 1, 255, 256, 1<<31-1, 1<<31, 1<<32-1, 1<<32, 1<<32+5, 1790000000, int64(r.U64()>>hc.Pick(r, 1, 20, 31, 33)))
		domain := hc.Pick(r, "example.org", "a.b", "telegram.org", "x"+strings.Repeat("y", r.Range(1, 40))+".com")
		var w bytes.Buffer
		rnd, err := faketls.VerifC19WriteClientHello(&w, r, time.Unix(now, 0), domain, secret)
		sig := fmt.Sprintf("chello-gen %s %d %s", hc.Hex(secret), now, domain)
		if err != nil {
			fail(c, "clienthello-error", sig, err.Error())
			continue
		}
		rec := append([]byte{}, w.Bytes()...)
		if len(rec) < 43 || rec[0] != 0x16 || int(binary.BigEndian.Uint16(rec[3:5])) != len(rec)-5 {
			fail(c, "clienthello-record", sig, "the ClientHello is not one well-formed handshake record")
			continue
		}
		zeroed := append([]byte{}, rec...)
		for k := 11; k < 43; k++ {
			zeroed[k] = 0
		}
		// monitor: what an MTProxy server checks — HMAC(secret, hello with zeroed random) XOR random = 28 zero bytes ‖ LE32(unix time)
		mac := hmac.New(sha256.New, secret)
		mac.Write(zeroed)
		sum := mac.Sum(nil)
		var x [32]byte
		for k := range x {
			x[k] = sum[k] ^ rec[11+k]
		}
		var want [32]byte
		binary.LittleEndian.PutUint32(want[28:], uint32(now))
		if x != want || !bytes.Equal(rnd[:], rec[11:43]) {
			fail(c, "clienthello-digest", sig, fmt.Sprintf("digest XOR random = %x, expected 28 zero bytes and the little-endian time %d; returned random matches the record: %v", x, uint32(now), bytes.Equal(rnd[:], rec[11:43])))
		}
		line := fmt.Sprintf("chello %s %d %s", hc.Hex(secret), now, hc.Hex(zeroed))
		c.Eval(line, true)
		c.Count("chello")
		add(line, "ok "+hc.Hex(rec)+" "+hc.Hex(rnd[:]))
	}

	// ---- 4. the whole client handshake against a scripted server
	for i := 0; i < c.N(30, 600); i++ {
		secret := r.Bytes(16)
		good := r.Chance(50)
		conn := &scripted{rng: r.Fork(), secret: secret, good: good, mode: r.Intn(3) + 4*r.Intn(2)}
		ft := faketls.NewFakeTLS(r, conn)
		err := ft.Handshake([4]byte{0xdd, 0xdd, 0xdd, 0xdd}, 2, mtproxy.Secret{Secret: secret, Tag: 0xdd, CloakHost: "example.org", Type: mtproxy.TLS})
		sig := fmt.Sprintf("handshake case=%d good=%v", i, good)
		c.Eval(sig, true)
		c.Count(fmt.Sprintf("handshake.good=%v.%s", good, strings.SplitN(errClass(err), ":", 2)[0]))
		if good && err != nil {
			fail(c, "handshake-rejected", sig, "honest server rejected: "+err.Error())
		} else if !good && err == nil {
			fail(c, "handshake-accepted", sig, "server hello made with "+conn.how+" was accepted")
		} else {
			c.Res.TracesValidated++
		}
	}

	c.Res.Rule = "write sequences of 1–5 writes with lengths 0, 1, 65534..65537, 131069..131072, 196605/6, random up to 400 000 and one 3 MiB write per run (thorough: 40 of 1–5 MiB), read back by a FakeTLS peer with PRNG buffer sizes over a PRNG-chunked connection; Read calls on wires of valid/invalid record types and versions, truncated, bit-flipped, extended; server hellos with 0–17 extra handshake records, wrong first/middle/last record type, short first record, digest made with the right / a wrong secret / a wrong client random / tampered after signing, truncated; whole Handshake against a scripted server. Non-trivial = a write > 65535 bytes or more than one write (stream), non-empty wire (read), all hellos; distinct = distinct driver line"
	c.PartialNote("HMAC-SHA256 is a parameter of the theorems; the driver uses TdModel.Prim.hmacSha256 (validated against crypto/hmac here on every hello)")
	c.PartialNote("the ClientHello itself (uTLS fingerprint, timestamp XOR) is outside the property and not modelled; Handshake is exercised end to end only")
	outs, err := c.Drv.Batch(lines)
	if err != nil {
		return err
	}
	for i, o := range outs {
		if c.Compare(lines[i], impls[i], o) {
			c.Res.TracesValidated++
		}
	}
	return nil
}

// scripted is the server side of a handshake: it reads the ClientHello the client wrote, takes the
// client random out of it and answers with a hello whose digest is made with the right or a wrong key.
type scripted struct {
	rng    *hc.RNG
	secret []byte
	good   bool
	how    string
	mode   int
	in     bytes.Buffer
	out    *chunked
}

func (s *scripted) Write(p []byte) (int, error) { return s.in.Write(p) }

func (s *scripted) Read(p []byte) (int, error) {
	if s.out == nil {
		hello := s.in.Bytes()
		var random [32]byte
		if len(hello) >= 43 {
			copy(random[:], hello[11:43])
		}
		var b bytes.Buffer
		faketls.VerifC19WriteRecord(&b, 0x16, [2]byte{3, 3}, s.rng.Bytes(s.rng.Range(38, 130)))
		faketls.VerifC19WriteRecord(&b, 0x14, [2]byte{3, 3}, []byte{1})
		faketls.VerifC19WriteRecord(&b, 0x17, [2]byte{3, 3}, s.rng.Bytes(s.rng.Range(1, 200)))
		raw := b.Bytes()
		for k := 11; k < 43; k++ {
			raw[k] = 0
		}
		key := s.secret
		if !s.good {
			switch s.rng.Intn(3) {
			case 0:
				key = s.rng.Bytes(16)
				s.how = "a wrong secret"
			case 1:
				random[s.rng.Intn(32)] ^= 1
				s.how = "a wrong client random"
			default:
				s.how = "a tampered hello"
			}
		}
		mac := hmac.New(sha256.New, key)
		mac.Write(random[:])
		mac.Write(raw)
		copy(raw[11:43], mac.Sum(nil))
		if s.how == "a tampered hello" {
			raw[len(raw)-1] ^= 0x40
		}
		s.out = &chunked{data: raw, rng: s.rng, mode: s.mode}
	}
	return s.out.Read(p)
}
