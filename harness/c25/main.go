// C25 — unacknowledged requests are retransmitted with the same identity, boundedly.
//
// Same machinery as C24 (scheduler-driven rpc.Engine, trace conformance against TdModel.Rpc)
// with the neo fake clock driving the retry timers.  The monitor watches the engine's send
// function: identity of every transmission, number of transmissions against the retry limit,
// the fake-clock distance between arming the timer and a retransmission, and no transmission
// once an acknowledgement or the result has been received.
package main

import (
	"fmt"

	"verif/harness/c24/rpcsim"
	"verif/harness/hc"
)

func main() {
	hc.Main(hc.Spec{Prop: "C25", Facts: rpcsim.Facts, Run: run})
}

func one(name string, mr int, env ...rpcsim.Option) *rpcsim.Scenario {
	return &rpcsim.Scenario{Name: name, Cfg: rpcsim.Config{MaxRetries: mr, Interval: 3},
		Calls: []rpcsim.Option{{Kind: "start", ID: 1, Seq: 1, Body: 7}}, Env: env}
}

var (
	res0 = rpcsim.Option{Kind: "nres", ID: 0, Target: 1, Val: 100}
	ack1 = rpcsim.Option{Kind: "ack", IDs: []int64{1}}
	adv3 = rpcsim.Option{Kind: "adv", D: 3}
	adv2 = rpcsim.Option{Kind: "adv", D: 2}
	adv1 = rpcsim.Option{Kind: "adv", D: 1}
)

func directed() []rpcsim.Directed {
	ds := []rpcsim.Directed{
		// D14: timer and acknowledgement / result ready together when the retry loop selects
		{Sc: one("d14-ack-and-timer", 2, ack1, adv3), Repeat: 40, Script: []string{
			"start 1 1 7", "sret 1 ok", "ack 1", "adv 3", "run 1"}},
		{Sc: one("d14-result-and-timer", 2, res0, adv3), Repeat: 40, Script: []string{
			"start 1 1 7", "sret 1 ok", "nres 0 1 100", "nrun 0", "nrun 0", "nrun 0", "nwrite 0 ok", "adv 3", "run 1"}},
		// a batch in which an id nobody waits for precedes the pending one: the ack must still count
		{Sc: one("ack-batch-unknown-first", 2, rpcsim.Option{Kind: "ack", IDs: []int64{90, 1}}, adv3), Script: []string{
			"start 1 1 7", "sret 1 ok", "ack 90 1", "adv 3", "run 1", "run 1"}},
		{Sc: one("ack-batch-repeated-id", 2, rpcsim.Option{Kind: "ack", IDs: []int64{1, 1, 91}}, adv3), Script: []string{
			"start 1 1 7", "sret 1 ok", "ack 1 1 91", "adv 3", "run 1"}},
		// the timer needs the whole interval
		{Sc: one("interval-split", 2, adv2, adv1, adv3), Script: []string{
			"start 1 1 7", "sret 1 ok", "adv 2", "adv 1", "run 1", "sret 1 ok", "adv 3", "run 1", "sret 1 ok"}},
	}
	// lost acknowledgements: retransmit up to the limit, for limits 1..6
	for mr := 1; mr <= 6; mr++ {
		var env []rpcsim.Option
		script := []string{"start 1 1 7", "sret 1 ok"}
		for i := 0; i < mr; i++ {
			env = append(env, adv3)
			script = append(script, "adv 3", "run 1", "sret 1 ok")
		}
		ds = append(ds, rpcsim.Directed{Sc: one(fmt.Sprintf("retry-limit-%d", mr), mr, env...), Script: script})
	}
	return ds
}

func dfsScenarios() []*rpcsim.Scenario {
	return []*rpcsim.Scenario{
		one("dfs-ack-tick", 1, ack1, adv3),
		one("dfs-ack-tick-tick", 2, ack1, adv3, adv3),
		one("dfs-result-tick", 1, res0, adv3),
		one("dfs-result-ack-tick", 2, res0, ack1, adv3),
		one("dfs-result-ack-tick-tick", 2, res0, ack1, adv3, adv3),
		one("dfs-limit-2-lost-acks", 2, adv3, adv3, rpcsim.Option{Kind: "ack", IDs: []int64{90}}),
		{Name: "dfs-two-calls-ack-tick", Cfg: rpcsim.Config{MaxRetries: 1, Interval: 3},
			Calls: []rpcsim.Option{{Kind: "start", ID: 1, Seq: 1, Body: 7}, {Kind: "start", ID: 2, Seq: 3, Body: 8}},
			Env:   []rpcsim.Option{{Kind: "ack", IDs: []int64{2}}, adv3}},
		{Name: "dfs-send-failures", Cfg: rpcsim.Config{MaxRetries: 2, Interval: 3}, SendErr: true,
			Calls: []rpcsim.Option{{Kind: "start", ID: 1, Seq: 1, Body: 7}}, Env: []rpcsim.Option{adv3, adv3}},
	}
}

func run(c *hc.Ctx) error {
	k := &rpcsim.Check{C: c, Prop: "C25", Src: rpcsim.ReadSrc(hc.NewFacts("C25", c.Repo)), W: rpcsim.WeightsC25,
		Nontrivial: func(s *rpcsim.Sim) bool { return s.Stats["timer-fired"] > 0 || s.Stats["ack-hit"] > 0 }}
	if err := k.RunDirected(directed()); err != nil {
		return err
	}
	if err := k.RunRandom(c.N(5000, 300000)); err != nil {
		return err
	}
	if c.Thorough() {
		complete, err := k.RunDFS(dfsScenarios(), 400000)
		if err != nil {
			return err
		}
		c.Res.Exhaustive = complete
	}
	c.Res.Rule = "a schedule = an order of thread releases at the scheduling points of rpc/engine.go and of environment actions (fake-clock travel by the interval, less, or more; NotifyAcks incl. lost/foreign acks; results; send failures; cancel; close) for retry limits 1..6; non-trivial = a retry timer fired or an acknowledgement reached a registered channel; distinct = distinct schedule"
	c.PartialNote("retry timers run on the neo fake clock; real timers and goroutine starvation are not exhibited; when the timer and another channel are ready together Go's select chooses (each observed choice is validated)")
	return k.Flush()
}
