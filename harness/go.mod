module verif/harness

go 1.25.0

require (
	github.com/cenkalti/backoff/v4 v4.3.0
	github.com/go-faster/errors v0.8.0
	github.com/gotd/ige v0.3.0
	github.com/gotd/log v0.1.0
	github.com/gotd/neo v0.1.5
	github.com/gotd/td v0.0.0
	github.com/klauspost/compress v1.19.1
	go.uber.org/multierr v1.11.0
	golang.org/x/crypto v0.54.0
	golang.org/x/net v0.57.0
)

require (
	github.com/andybalholm/brotli v1.2.1 // indirect
	github.com/cespare/xxhash/v2 v2.3.0 // indirect
	github.com/coder/websocket v1.8.15 // indirect
	github.com/davecgh/go-spew v1.1.1 // indirect
	github.com/go-faster/jx v1.2.0 // indirect
	github.com/go-faster/xor v1.0.0 // indirect
	github.com/pmezard/go-difflib v1.0.0 // indirect
	github.com/refraction-networking/utls v1.8.2 // indirect
	github.com/segmentio/asm v1.2.1 // indirect
	github.com/stretchr/testify v1.11.1 // indirect
	github.com/yuin/goldmark v1.8.5 // indirect
	go.opentelemetry.io/otel v1.44.0 // indirect
	go.opentelemetry.io/otel/trace v1.44.0 // indirect
	go.uber.org/atomic v1.11.0 // indirect
	golang.org/x/sync v0.22.0 // indirect
	golang.org/x/sys v0.47.0 // indirect
	gopkg.in/yaml.v3 v3.0.1 // indirect
	nhooyr.io/websocket v1.8.17 // indirect
	rsc.io/qr v0.2.0 // indirect
)

replace github.com/gotd/td => /repo
