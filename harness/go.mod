module verif/harness

go 1.25.0

require (
	github.com/gotd/td v0.0.0
	golang.org/x/crypto v0.54.0
)

require (
	github.com/go-faster/errors v0.8.0 // indirect
	github.com/go-faster/jx v1.2.0 // indirect
	github.com/gotd/neo v0.1.5 // indirect
	github.com/segmentio/asm v1.2.1 // indirect
	go.uber.org/multierr v1.11.0 // indirect
	golang.org/x/sys v0.47.0 // indirect
)

replace github.com/gotd/td => /repo
