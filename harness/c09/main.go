// C09 — key exchange with an honest server yields the same key on both sides.
//
// The real exchange.ClientExchange.Run runs against the real exchange.ServerExchange.Run over an
// in-memory pipe (transport.Intermediate.Pipe), both modes, datacenter ids −3…5 and 10002, the
// in-tree TestServerRNG or a harness RNG that varies dh_prime and pq (hook VerifC09WithServerRNG).
//
//   - monitor (no model): both sides succeed, same 2048-bit key, same key id (= sha1(key)[12:20]),
//     same salt, non-zero key, ExpiresAt set iff temporary mode;
//   - correspondence: a tap records the six messages; they are decoded and decrypted (the harness
//     owns the private key) into the model's abstract messages; both random tapes are extracted
//     (recording readers); the model's `honestRun` on those tapes must reproduce every message and
//     both results.
package main

import (
	"bytes"
	"context"
	"crypto/rsa"
	"crypto/sha1"
	"encoding/binary"
	"errors"
	"fmt"
	"math/big"
	"strings"
	"sync"
	"time"

	"github.com/gotd/td/crypto"
	"github.com/gotd/td/exchange"
	"github.com/gotd/td/proto/codec"
	"github.com/gotd/td/testutil"
	"github.com/gotd/td/transport"

	"verif/harness/c09x"
	"verif/harness/hc"
)

func main() { hc.Main(hc.Spec{Prop: "C09", Facts: c09x.Facts, Run: run}) }

type xcase struct {
	dc      int
	temp    bool
	expires int
	primeIx int // -1: in-tree TestServerRNG (Telegram prime, fixed pq); otherwise c09x.SafePrimes[primeIx] or -2 = Telegram prime with harness RNG
	extra   int // fabricated trusted keys placed before the server's key in the client's list
	seed    uint64
	// directed parts of the two random tapes (0 / nil = drawn from the seed)
	bDir   int   // the client's DH exponent b (small: g_b = 3^b has leading zero bytes)
	aDraws []int // the server's first draws of a: weak ones (g_a ≤ 2^1984, must be re-drawn), then possibly a small acceptable one
	nonceZ int   // leading zero bytes of nonce, new_nonce and server_nonce
	sdcOff int   // ≠ 0: the server is configured for datacenter dc+sdcOff (it must refuse the client)
}

func (x xcase) String() string {
	return fmt.Sprintf("dc=%d temp=%v expires=%d prime=%d extra=%d b=%d a=%v nonce-zeros=%d seed=%d", x.dc, x.temp, x.expires, x.primeIx, x.extra, x.bDir, x.aDraws, x.nonceZ, x.seed)
}

type xout struct {
	cres       exchange.ClientExchangeResult
	cerr       error
	sres       exchange.ServerExchangeResult
	serr       error
	sent, recv [][]byte
	b          *big.Int
	adraws     []*big.Int // every draw of a by the server, in order
	sid        uint64
	keys       []uint64 // client's trusted fingerprints
	started    int64    // unix time when the exchange started
	sfp        uint64
	prime      *big.Int
}

func fakeKey(r *hc.RNG) exchange.PublicKey {
	n := new(big.Int).SetBytes(r.Bytes(256))
	n.SetBit(n, 2047, 1).SetBit(n, 0, 1)
	return exchange.PublicKey{RSA: &rsa.PublicKey{N: n, E: 65537}}
}

func runCase(x xcase, priv exchange.PrivateKey) xout {
	r := hc.NewRNG(x.seed)
	client, server := transport.Intermediate.Pipe()
	defer client.Close()
	defer server.Close()
	tap := &c09x.Tap{Inner: client}
	cdir := &c09x.DirReader{R: r.Fork()}
	sdir := &c09x.DirReader{R: r.Fork()}
	if x.bDir > 0 {
		cdir.PushExp(big.NewInt(int64(x.bDir)))
	}
	for _, a := range x.aDraws {
		sdir.PushExp(big.NewInt(int64(a)))
	}
	if x.nonceZ > 0 {
		z := func(n int) []byte {
			b := r.Bytes(n)
			for i := 0; i < x.nonceZ && i < n; i++ {
				b[i] = 0
			}
			return b
		}
		cdir.Push(z(16)) // nonce: the client's first 16-byte read
		cdir.Push(z(32)) // new_nonce: its first 32-byte read
		sdir.Push(z(16)) // server_nonce
	}
	crand := &c09x.RecReader{R: cdir}
	srand := &c09x.RecReader{R: sdir}
	var keys []exchange.PublicKey
	for i := 0; i < x.extra; i++ {
		keys = append(keys, fakeKey(r))
	}
	keys = append(keys, priv.Public())
	for i := 0; i < x.extra/2; i++ {
		keys = append(keys, fakeKey(r))
	}
	o := xout{sfp: uint64(priv.Fingerprint()), started: time.Now().Unix()}
	for _, k := range keys {
		o.keys = append(o.keys, uint64(k.Fingerprint()))
	}
	ctx, cancel := context.WithTimeout(context.Background(), 60*time.Second)
	defer cancel()

	srv := exchange.NewExchanger(server, x.dc+x.sdcOff).WithRand(srand).WithTimeout(20 * time.Second).Server(priv)
	var hrng *c09x.ServerRNG
	switch {
	case x.primeIx == -1:
		o.prime = c09x.TelegramPrime()
	case x.primeIx == -2:
		o.prime = c09x.TelegramPrime()
		hrng = &c09x.ServerRNG{R: srand, Prime: o.prime}
	default:
		o.prime = c09x.SafePrime(x.primeIx)
		hrng = &c09x.ServerRNG{R: srand, Prime: o.prime}
	}
	if hrng != nil {
		srv = exchange.VerifC09WithServerRNG(srv, hrng)
	}
	var wg sync.WaitGroup
	wg.Add(2)
	go func() {
		defer wg.Done()
		defer func() {
			if p := recover(); p != nil {
				o.serr = fmt.Errorf("panic: %v", p)
			}
		}()
		o.sres, o.serr = srv.Run(ctx)
		if o.serr != nil {
			server.Close()
		}
	}()
	go func() {
		defer wg.Done()
		defer func() {
			if p := recover(); p != nil {
				o.cerr = fmt.Errorf("panic: %v", p)
			}
		}()
		ex := exchange.NewExchanger(tap, x.dc).WithRand(crand).WithTimeout(20 * time.Second)
		if x.temp {
			ex = ex.WithTempMode(x.expires)
		}
		o.cres, o.cerr = ex.Client(keys).Run(ctx)
		if o.cerr != nil {
			client.Close()
		}
	}()
	wg.Wait()
	o.sent, o.recv = tap.Frames()
	o.b = crand.Last256()
	o.adraws = srand.All256()
	// NewSessionID is the client's last 8-byte read
	for i := len(crand.Reads) - 1; i >= 0; i-- {
		if len(crand.Reads[i]) == 8 {
			o.sid = binary.LittleEndian.Uint64(crand.Reads[i])
			break
		}
	}
	return o
}

func u64s(xs []uint64) string {
	s := make([]string, len(xs))
	for i, x := range xs {
		s[i] = fmt.Sprint(x)
	}
	return strings.Join(s, ",")
}

func bigs(xs []*big.Int) string {
	s := make([]string, len(xs))
	for i, x := range xs {
		s[i] = x.String()
	}
	return strings.Join(s, ",")
}

// zeroKeyPair searches small acceptable exponents a, b whose shared key 3^(ab) mod p has at least
// one leading zero byte (the 256-byte FillBytes encodings of the key on both sides).
func zeroKeyPair(r *hc.RNG, p *big.Int, strong []c09x.SmallExp) (a, b int) {
	three := big.NewInt(3)
	off := r.Intn(len(strong) * len(strong))
	for k := 0; k < len(strong)*len(strong); k++ {
		i := (off + k) % (len(strong) * len(strong))
		ea, eb := strong[i/len(strong)].E, strong[i%len(strong)].E
		key := new(big.Int).Exp(three, big.NewInt(int64(ea*eb)), p)
		if key.BitLen() <= 2040 {
			return ea, eb
		}
	}
	return 0, 0
}

func b2i(b bool) int {
	if b {
		return 1
	}
	return 0
}

func run(c *hc.Ctx) error {
	r := c.Rng
	priv := exchange.PrivateKey{RSA: testutil.RSAPrivateKey()}
	// the prime table really consists of 2048-bit safe primes (harness self-check)
	for i := range c09x.SafePrimes {
		p := c09x.SafePrime(i)
		if (c.Thorough() || i < 3) && (p.BitLen() != 2048 || !crypto.Prime(p) || !crypto.Prime(c09x.Half(p))) {
			return fmt.Errorf("harness: SafePrimes[%d] is not a 2048-bit safe prime", i)
		}
	}
	strong, weak := c09x.SmallExps()
	dcs := []int{-3, -2, -1, 0, 1, 2, 3, 4, 5, 10002}
	n := c.N(40, 2000)
	cases := make([]xcase, n)
	for i := range cases {
		x := xcase{dc: dcs[i%len(dcs)], temp: (i/len(dcs))%2 == 1, seed: r.U64()}
		if x.temp {
			x.expires = hc.Pick(r, 60, 3600, 86400, r.Range(1, 1<<20))
		}
		switch r.Intn(4) {
		case 0:
			x.primeIx = -1
		case 1:
			x.primeIx = -2
		default:
			x.primeIx = r.Intn(len(c09x.SafePrimes))
		}
		x.extra = hc.Pick(r, 0, 0, 1, 3)
		// Directed tapes.  Small exponents e (3^e < p, so g^e mod p = 3^e exactly) give g_a / g_b with
		// 0…7 leading zero bytes, i.e. every TL-header / padding alignment class of the two inner
		// data objects; weak first draws make the server's re-draw loop run.
		byLen := func(l int) int { // a small acceptable exponent with a 3^e of l bytes
			var c []int
			for _, e := range strong {
				if e.Len == l {
					c = append(c, e.E)
				}
			}
			return c[r.Intn(len(c))]
		}
		switch i % 4 {
		case 1: // client: g_b of 249…256 bytes, cycling through the lengths
			x.bDir = byLen(249 + (i/4)%8)
		case 2: // server: 0–2 weak draws first, then a small acceptable a (cycling lengths) or a random one
			for k := (i / 4) % 3; k > 0; k-- {
				x.aDraws = append(x.aDraws, weak[r.Intn(len(weak))].E)
			}
			if (i/4)%2 == 0 || len(x.aDraws) == 0 {
				x.aDraws = append(x.aDraws, byLen(249+(i/8)%8))
			}
			if len(x.aDraws) > 1 {
				// weak first draws exercise the re-draw loop of the in-tree TestServerRNG.GA (the
				// harness RNG has its own loop, which proves nothing about the repository)
				x.primeIx = -1
			}
		case 3: // both small; every third of these: a shared key with a leading zero byte
			x.bDir = byLen(249 + r.Intn(8))
			x.aDraws = []int{byLen(249 + r.Intn(8))}
			if (i/4)%3 == 0 {
				prime := c09x.TelegramPrime()
				if x.primeIx >= 0 {
					prime = c09x.SafePrime(x.primeIx)
				}
				if a, b := zeroKeyPair(r, prime, strong); a != 0 {
					x.aDraws, x.bDir = []int{a}, b
				}
			}
		}
		if i%5 == 3 {
			x.nonceZ = hc.Pick(r, 1, 2, 3, 4, 8, 16)
		}
		cases[i] = x
	}
	outs := make([]xout, n)
	t0 := time.Now()
	sem := make(chan struct{}, 6)
	var wg sync.WaitGroup
	for i := range cases {
		wg.Add(1)
		sem <- struct{}{}
		go func(i int) {
			defer wg.Done()
			defer func() { <-sem }()
			outs[i] = runCase(cases[i], priv)
		}(i)
	}
	wg.Wait()
	c.Note("exchanges took %.1fs", time.Since(t0).Seconds())

	var lines, inputs []string
	var wants [][]string
	var byteLines, byteImpl, byteIn []string
	var bytePre []bool
	for i, x := range cases {
		o := outs[i]
		in := x.String()
		c.Eval(in, true)
		c.Count(fmt.Sprintf("dc=%d", x.dc))
		c.Count(fmt.Sprintf("temp=%v", x.temp))
		switch {
		case x.primeIx == -1:
			c.Count("rng.in-tree")
		case x.primeIx == -2:
			c.Count("rng.harness.telegram-prime")
		default:
			c.Count("rng.harness.table-prime")
		}
		if x.bDir > 0 {
			c.Count("directed.b")
		}
		if len(x.aDraws) > 1 {
			c.Count("directed.a.weak-first")
		} else if len(x.aDraws) == 1 {
			c.Count("directed.a")
		}
		if x.nonceZ > 0 {
			c.Count("directed.nonce-leading-zeros")
		}
		if o.cerr == nil && o.serr == nil {
			if o.cres.AuthKey.Value[0] == 0 {
				c.Count("observed.key-leading-zero")
			}
			if len(o.adraws) > 1 {
				c.Count("observed.server-redrew-a")
			}
		}
		// ---- monitor
		if o.cerr != nil || o.serr != nil {
			c.Fail("honest-exchange-failed", in, fmt.Sprintf("client err=%v server err=%v", o.cerr, o.serr))
		} else {
			ck, sk := o.cres.AuthKey, o.sres.Key
			id := sha1.Sum(ck.Value[:])
			switch {
			case ck.Value != sk.Value:
				c.Fail("keys-differ", in, fmt.Sprintf("client %x… server %x…", ck.Value[:8], sk.Value[:8]))
			case ck.ID != sk.ID || !bytes.Equal(ck.ID[:], id[12:20]):
				c.Fail("key-ids-differ", in, fmt.Sprintf("client %x server %x sha1(key)[12:20] %x", ck.ID, sk.ID, id[12:20]))
			case o.cres.ServerSalt != o.sres.ServerSalt:
				c.Fail("salts-differ", in, fmt.Sprintf("client %d server %d", o.cres.ServerSalt, o.sres.ServerSalt))
			case ck.Value == crypto.Key{}:
				c.Fail("zero-key", in, "client returned an all-zero auth key")
			case x.temp != (o.cres.ExpiresAt != 0):
				c.Fail("expires-at", in, fmt.Sprintf("temp=%v ExpiresAt=%d", x.temp, o.cres.ExpiresAt))
			case x.temp && (o.cres.ExpiresAt < o.started+int64(x.expires)-2 || o.cres.ExpiresAt > time.Now().Unix()+int64(x.expires)+2):
				c.Fail("expires-at", in, fmt.Sprintf("ExpiresAt=%d is not now+expires_in (started %d, expires_in %d)", o.cres.ExpiresAt, o.started, x.expires))
			}
		}
		// ---- model line
		if len(o.sent) != 3 || len(o.recv) != 3 || len(o.adraws) == 0 || o.b == nil {
			if o.cerr == nil && o.serr == nil {
				c.Fail("unexpected-message-count", in, fmt.Sprintf("client sent %d frames, received %d", len(o.sent), len(o.recv)))
			}
			continue
		}
		dec := &c09x.Dec{Keys: map[uint64]*rsa.PrivateKey{o.sfp: priv.RSA}}
		var obs [6]string
		obs[0] = dec.Client(0, o.sent[0])
		obs[1] = dec.Server(0, o.recv[0])
		obs[2] = dec.Client(1, o.sent[1])
		obs[3] = dec.Server(1, o.recv[1])
		obs[4] = dec.Client(2, o.sent[2])
		obs[5] = dec.Server(2, o.recv[2])
		f1 := strings.Fields(obs[1]) // resPQ N SN PQ FPS
		f2 := strings.Fields(obs[2]) // reqDH N SN P Q FP CT
		if len(f1) != 5 || len(f2) != 7 || dec.Inner == nil || len(dec.NewNonce) != 32 {
			c.Fail("undecodable-honest-message", in, strings.Join(obs[:], " | "))
			continue
		}
		line := fmt.Sprintf("honest keys=%s cdc=%d temp=%d exp=%d nonce=%s newnonce=%s b=%s sid=%d sfp=%d sdc=%d snonce=%s pq=%s prime=%s adraws=%s time=%d primes=%s factor=%s:%s:%s",
			u64s(o.keys), x.dc, b2i(x.temp), x.expires, f1[1], hc.Hex(dec.NewNonce), o.b, o.sid, o.sfp, x.dc, f1[2], f1[3],
			o.prime, bigs(o.adraws), dec.Inner.ServerTime, c09x.Primes(o.prime, c09x.Half(o.prime), c09x.BigOf(f1[3])), f1[3], f2[3], f2[4])
		lines = append(lines, line)
		inputs = append(inputs, in)
		wants = append(wants, append(append([]string{}, obs[:]...), c09x.ClientResult(o.cres, o.cerr), c09x.ServerResult(o.sres, o.serr)))
		// ---- byte level: envelopes, TL bytes of every message and of the three inner-data objects
		last := func(m string) string { f := strings.Fields(m); return f[len(f)-1] }
		bl, bi, bn, bp := c09x.ByteLines(o.sent, o.recv, []string{last(obs[2]), last(obs[3]), last(obs[4])}, dec, true, true)
		for k := range bl {
			byteLines = append(byteLines, bl[k])
			byteImpl = append(byteImpl, bi[k])
			byteIn = append(byteIn, in+" :: "+bn[k])
			bytePre = append(bytePre, bp[k])
		}
	}
	t1 := time.Now()
	res, err := c.Drv.Batch(lines)
	if err != nil {
		return err
	}
	c.Note("model driver took %.1fs for %d exchanges", time.Since(t1).Seconds(), len(lines))
	names := []string{"req_pq", "ResPQ", "req_DH_params", "Server_DH_Params", "set_client_DH_params", "dh_gen", "client result", "server result"}
	for i, ans := range res {
		parts := strings.Split(ans, " || ")
		var model []string
		if len(parts) == 3 {
			model = append(strings.Split(parts[0], " | "), parts[1], parts[2])
		}
		if len(model) != 8 {
			c.Differ(inputs[i]+" :: "+lines[i], strings.Join(wants[i], " | "), ans, "model transcript has a different shape")
			continue
		}
		ok := true
		for j := range model {
			if !c.Compare(inputs[i]+" :: "+names[j]+" :: "+lines[i], wants[i][j], model[j]) {
				ok = false
			}
		}
		if ok {
			c.Res.TracesValidated++
		}
	}
	// ---- datacenter mismatch: the server must refuse (wrong DC), nobody gets a key; the model's
	// honest composition says the same (server `wrong-dc`, client left waiting)
	nm := c.N(3, 60)
	for k := 0; k < nm; k++ {
		x := xcase{dc: dcs[r.Intn(len(dcs))], temp: r.Bool(), primeIx: -1, seed: r.U64(), sdcOff: hc.Pick(r, 1, -1, 2, 10000, -10004)}
		if x.temp {
			x.expires = 3600
		}
		o := runCase(x, priv)
		in := x.String() + fmt.Sprintf(" server-dc=%d", x.dc+x.sdcOff)
		c.Eval(in, true)
		c.Count("dc-mismatch")
		var se *exchange.ServerExchangeError
		switch {
		case o.cerr == nil:
			c.Fail("wrong-dc-accepted", in, "the client obtained a key from a server configured for another datacenter")
		case o.serr == nil || !errors.As(o.serr, &se) || se.Code != codec.CodeWrongDC:
			c.Fail("wrong-dc-not-refused", in, fmt.Sprintf("server err=%v", o.serr))
		}
		if len(o.sent) < 2 || len(o.recv) < 1 {
			continue
		}
		dec := &c09x.Dec{Keys: map[uint64]*rsa.PrivateKey{o.sfp: priv.RSA}}
		obs := []string{dec.Client(0, o.sent[0]), dec.Server(0, o.recv[0]), dec.Client(1, o.sent[1])}
		f1, f2 := strings.Fields(obs[1]), strings.Fields(obs[2])
		if len(f1) != 5 || len(f2) != 7 || len(dec.NewNonce) != 32 {
			c.Fail("undecodable-honest-message", in, strings.Join(obs, " | "))
			continue
		}
		line := fmt.Sprintf("honest keys=%s cdc=%d temp=%d exp=%d nonce=%s newnonce=%s b=0 sid=0 sfp=%d sdc=%d snonce=%s pq=%s prime=%s adraws=1260 time=0 primes=%s factor=%s:%s:%s",
			u64s(o.keys), x.dc, b2i(x.temp), x.expires, f1[1], hc.Hex(dec.NewNonce), o.sfp, x.dc+x.sdcOff, f1[2], f1[3],
			o.prime, c09x.Primes(o.prime, c09x.Half(o.prime), c09x.BigOf(f1[3])), f1[3], f2[3], f2[4])
		ans, err := c.Drv.Ask(line)
		if err != nil {
			return err
		}
		want := strings.Join(obs, " | ") + " || waiting || failed wrong-dc"
		if c.Compare(in+" :: "+line, want, ans) {
			c.Res.TracesValidated++
		}
	}
	// ---- the server side: scripted clients against the real ServerExchange.Run
	if err := serverCorrespondence(c, priv); err != nil {
		return err
	}
	bres, err := c.Drv.Batch(byteLines)
	if err != nil {
		return err
	}
	for k, ans := range bres {
		if c.Compare(byteIn[k]+" :: "+byteLines[k], c09x.ByteAgree(byteImpl[k], ans, bytePre[k]), ans) {
			c.Res.TracesValidated++
		}
	}
	c.Count(fmt.Sprintf("byte-level comparisons: %d", len(bres)))
	c.Res.Rule = "each case = one complete exchange, client and server both the real implementation; datacenter ids cycle through −3…5 and 10002, both modes alternate, server RNG = in-tree TestServerRNG (25%), harness RNG with the Telegram prime (25%) or one of 9 other 2048-bit safe primes with a random semiprime pq (50%), 0–3 foreign trusted keys before the server's; all random streams derive from the seed; every case is non-trivial; plus datacenter-mismatch runs and scripted clients (one deviation each: repeated / legacy req_pq, undecryptable or non-TL encrypted data, junk at each step) against the real server; distinct = distinct case line"
	c.PartialNote("read/write interleavings: the protocol is strict request/response over a synchronous pipe (net.Pipe), so the only schedule freedom is goroutine start order; it is not controlled by the harness")
	c.PartialNote("ciphertext bytes are opaque to the model: the harness decrypts them with the real keys; the TL bytes of every message, of the envelopes and of the three inner-data plaintexts are compared byte for byte with the model's codec (RSA_PAD and the IGE answer encryption are C14/C11/C04 territory)")
	return nil
}
