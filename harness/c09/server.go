package main

// Server-side correspondence: a scripted client (the protocol with one deviation, or none) talks to
// the real exchange.ServerExchange.Run; the model's server (`srun` over `sstep`) fed with the same
// decoded client messages must end in the same state — same key / salt or same error class — and
// must have sent the same messages.

import (
	"context"
	"crypto/rsa"
	"errors"
	"fmt"
	"math/big"
	"strings"
	"sync"
	"time"

	"github.com/gotd/td/bin"
	"github.com/gotd/td/crypto"
	"github.com/gotd/td/exchange"
	"github.com/gotd/td/mt"
	"github.com/gotd/td/proto"
	"github.com/gotd/td/proto/codec"
	"github.com/gotd/td/transport"

	"verif/harness/c09x"
	"verif/harness/hc"
)

type scase struct {
	kind string // honest | double-reqpq | legacy-reqpq | bad-rsa | inner-junk | wrong-dc | bad-answer | answer-junk | junk-first | junk-second | junk-third | reqpq-third
	temp bool
	dc   int
	seed uint64
}

func (s scase) String() string {
	return fmt.Sprintf("scripted-client kind=%s temp=%v dc=%d seed=%d", s.kind, s.temp, s.dc, s.seed)
}

type sout struct {
	sres       exchange.ServerExchangeResult
	serr       error
	sent, recv [][]byte // client → server, server → client
	stages     []int    // decoder stage of each received frame (0 ResPQ, 1 Server_DH_Params, 2 dh_gen)
	adraws     []*big.Int
	completed  bool // the scripted client got through all its steps
}

// serverErrTag maps an error of ServerExchange.Run to the model's SErr tag.
func serverErrTag(err error) string {
	s := err.Error()
	var se *exchange.ServerExchangeError
	has := func(x string) bool { return strings.Contains(s, x) }
	switch {
	case errors.As(err, &se) && se.Code == codec.CodeWrongDC:
		return "wrong-dc"
	case has("invalid encrypted_data"), has("hash mismatch"), has("PQInnerData"), has("p_q_inner_data"):
		return "rsa"
	case has("generate g_a"):
		return "gp"
	case has("decrypt exchange answer"), has("client_DH_inner_data"):
		return "decrypt"
	case has("closed pipe"), has("EOF") && has("read"), has("deadline exceeded"), has("i/o timeout"):
		return "io"
	}
	return "junk"
}

func runScripted(sc scase, priv exchange.PrivateKey) sout {
	r := hc.NewRNG(sc.seed)
	client, server := transport.Intermediate.Pipe()
	defer client.Close()
	defer server.Close()
	srand := &c09x.RecReader{R: r.Fork()}
	ctx, cancel := context.WithTimeout(context.Background(), 60*time.Second)
	defer cancel()
	var o sout
	var wg sync.WaitGroup
	wg.Add(1)
	sdc := sc.dc
	if sc.kind == "wrong-dc" {
		sdc = sc.dc + 1
	}
	go func() {
		defer wg.Done()
		defer func() {
			if p := recover(); p != nil {
				o.serr = fmt.Errorf("panic: %v", p)
			}
		}()
		o.sres, o.serr = exchange.NewExchanger(server, sdc).WithRand(srand).WithTimeout(20 * time.Second).Server(priv).Run(ctx)
		server.Close()
	}()

	send := func(msg bin.Encoder) bool {
		var b bin.Buffer
		if msg.Encode(&b) != nil {
			return false
		}
		u := proto.UnencryptedMessage{MessageID: int64(proto.NewMessageID(time.Now(), proto.MessageFromClient)), MessageData: b.Copy()}
		b.Reset()
		u.Encode(&b)
		o.sent = append(o.sent, append([]byte(nil), b.Buf...))
		sctx, c2 := context.WithTimeout(ctx, 10*time.Second)
		defer c2()
		return client.Send(sctx, &b) == nil
	}
	recv := func(stage int) ([]byte, bool) {
		var b bin.Buffer
		rctx, c2 := context.WithTimeout(ctx, 10*time.Second)
		defer c2()
		if client.Recv(rctx, &b) != nil {
			return nil, false
		}
		o.recv = append(o.recv, append([]byte(nil), b.Buf...))
		o.stages = append(o.stages, stage)
		var u proto.UnencryptedMessage
		if u.Decode(&b) != nil {
			return nil, false
		}
		return u.MessageData, true
	}
	junk := &mt.PingRequest{PingID: int64(r.U64())}
	is := func(k string) bool { return sc.kind == k }

	func() {
		var nonce bin.Int128
		r.Read(nonce[:])
		// 1. req_pq (possibly the legacy constructor, possibly repeated with a fresh nonce)
		switch {
		case is("junk-first"):
			send(junk)
			recv(0)
			return
		case is("legacy-reqpq"):
			if !send(&mt.ReqPqRequest{Nonce: nonce}) {
				return
			}
		default:
			if !send(&mt.ReqPqMultiRequest{Nonce: nonce}) {
				return
			}
		}
		data, ok := recv(0)
		if !ok {
			return
		}
		if is("double-reqpq") {
			r.Read(nonce[:])
			if !send(&mt.ReqPqMultiRequest{Nonce: nonce}) {
				return
			}
			if data, ok = recv(0); !ok {
				return
			}
		}
		var res mt.ResPQ
		if res.Decode(&bin.Buffer{Buf: data}) != nil {
			return
		}
		if is("junk-second") {
			send(junk)
			recv(1)
			return
		}
		// 2. req_DH_params
		pq := new(big.Int).SetBytes(res.Pq)
		p, q, err := crypto.DecomposePQ(pq, r)
		if err != nil {
			return
		}
		var newNonce bin.Int256
		r.Read(newNonce[:])
		var inner bin.Encoder = &mt.PQInnerDataDC{Pq: res.Pq, P: p.Bytes(), Q: q.Bytes(), Nonce: nonce, ServerNonce: res.ServerNonce, NewNonce: newNonce, DC: sc.dc}
		if sc.temp {
			inner = &mt.PQInnerDataTempDC{Pq: res.Pq, P: p.Bytes(), Q: q.Bytes(), Nonce: nonce, ServerNonce: res.ServerNonce, NewNonce: newNonce, DC: sc.dc, ExpiresIn: 3600}
		}
		var ib bin.Buffer
		inner.Encode(&ib)
		if is("inner-junk") {
			ib.Reset()
			junk.Encode(&ib) // correctly RSA_PAD-encrypted, but not a p_q_inner_data object
		}
		enc, err := crypto.RSAPad(ib.Buf, &priv.RSA.PublicKey, r)
		if err != nil {
			return
		}
		if is("bad-rsa") {
			enc = r.Bytes(256)
			enc[0] &= 0x7f
		}
		if !send(&mt.ReqDHParamsRequest{Nonce: nonce, ServerNonce: res.ServerNonce, P: p.Bytes(), Q: q.Bytes(),
			PublicKeyFingerprint: priv.Fingerprint(), EncryptedData: enc}) {
			return
		}
		if data, ok = recv(1); !ok {
			return
		}
		params, err := mt.DecodeServerDHParams(&bin.Buffer{Buf: data})
		if err != nil {
			return
		}
		okp, isOk := params.(*mt.ServerDHParamsOk)
		if !isOk {
			return
		}
		key, iv := crypto.TempAESKeys(newNonce.BigInt(), res.ServerNonce.BigInt())
		plain := c09x.StrictAnswer(okp.EncryptedAnswer, key, iv)
		var sin mt.ServerDHInnerData
		if plain == nil || sin.Decode(&bin.Buffer{Buf: plain}) != nil {
			return
		}
		if is("junk-third") {
			send(junk)
			recv(2)
			return
		}
		if is("reqpq-third") { // a req_pq where set_client_DH_params is expected
			send(&mt.ReqPqMultiRequest{Nonce: nonce})
			recv(2)
			return
		}
		// 3. set_client_DH_params
		dhPrime := new(big.Int).SetBytes(sin.DhPrime)
		bExp := new(big.Int).SetBytes(r.Bytes(256))
		gb := new(big.Int).Exp(big.NewInt(int64(sin.G)), bExp, dhPrime)
		var cb bin.Buffer
		(&mt.ClientDHInnerData{Nonce: nonce, ServerNonce: res.ServerNonce, GB: gb.Bytes()}).Encode(&cb)
		if is("answer-junk") {
			cb.Reset()
			junk.Encode(&cb) // decrypts fine, but is not client_DH_inner_data
		}
		cenc, err := crypto.EncryptExchangeAnswer(r, cb.Buf, key, iv)
		if err != nil {
			return
		}
		if is("bad-answer") {
			cenc = r.Bytes(len(cenc))
		}
		if !send(&mt.SetClientDHParamsRequest{Nonce: nonce, ServerNonce: res.ServerNonce, EncryptedData: cenc}) {
			return
		}
		if _, ok = recv(2); ok {
			o.completed = true
		}
	}()
	client.Close()
	wg.Wait()
	o.adraws = srand.All256()
	return o
}

// serverCorrespondence runs the scripted clients and compares with the model's server.
func serverCorrespondence(c *hc.Ctx, priv exchange.PrivateKey) error {
	r := c.Rng
	kinds := []string{"honest", "double-reqpq", "legacy-reqpq", "bad-rsa", "inner-junk", "wrong-dc", "bad-answer", "answer-junk",
		"junk-first", "junk-second", "junk-third", "reqpq-third"}
	n := c.N(len(kinds), 40*len(kinds))
	cases := make([]scase, n)
	for i := range cases {
		cases[i] = scase{kind: kinds[i%len(kinds)], temp: r.Bool(), dc: hc.Pick(r, -3, 0, 2, 5, 10002), seed: r.U64()}
	}
	outs := make([]sout, n)
	sem := make(chan struct{}, 6)
	var wg sync.WaitGroup
	for i := range cases {
		wg.Add(1)
		sem <- struct{}{}
		go func(i int) {
			defer wg.Done()
			defer func() { <-sem }()
			outs[i] = runScripted(cases[i], priv)
		}(i)
	}
	wg.Wait()
	sfp := uint64(priv.Fingerprint())
	prime := c09x.TelegramPrime()
	for i, sc := range cases {
		o := outs[i]
		in := sc.String()
		c.Eval(in, sc.kind != "honest")
		c.Count("scripted-client." + sc.kind)
		// ---- monitor: only the undisturbed variants may leave the server with a key
		good := sc.kind == "honest" || sc.kind == "double-reqpq" || sc.kind == "legacy-reqpq"
		switch {
		case o.serr != nil && strings.HasPrefix(o.serr.Error(), "panic:"):
			c.Fail("server-panic", in, o.serr.Error())
			continue
		case good && (o.serr != nil || !o.completed):
			c.Fail("server-refused-honest-client", in, fmt.Sprintf("server err=%v", o.serr))
		case !good && o.serr == nil:
			c.Fail("server-accepted-bad-client", in, "ServerExchange.Run returned a key")
		}
		if len(o.sent) == 0 {
			continue
		}
		dec := &c09x.Dec{Keys: map[uint64]*rsa.PrivateKey{sfp: priv.RSA}}
		var sent, got []string
		ri := 0
		// decode in wire order so that the decoder learns the nonces as they appear
		for si := range o.sent {
			// the j-th client frame is req_pq (0), req_DH_params (1) or set_client_DH_params (2): Dec.Client does not use the index
			sent = append(sent, dec.Client(si, o.sent[si]))
			if ri < len(o.recv) {
				got = append(got, dec.Server(o.stages[ri], o.recv[ri]))
				ri++
			}
		}
		var snonce, pq, stime string
		for _, g := range got {
			if f := strings.Fields(g); len(f) == 5 && f[0] == "resPQ" {
				snonce, pq = f[2], f[3]
			}
		}
		stime = "0"
		if dec.Inner != nil {
			stime = fmt.Sprint(dec.Inner.ServerTime)
		}
		if snonce == "" { // the server did not even answer req_pq: its tape is irrelevant
			snonce, pq = strings.Repeat("00", 16), "0"
		}
		draws := "1260" // the server did not get as far as drawing `a`: any acceptable value
		if len(o.adraws) > 0 {
			var ds []string
			for _, d := range o.adraws {
				ds = append(ds, d.String())
			}
			draws = strings.Join(ds, ",")
		}
		sdc := sc.dc
		if sc.kind == "wrong-dc" {
			sdc++
		}
		line := fmt.Sprintf("server sfp=%d sdc=%d snonce=%s pq=%s prime=%s adraws=%s time=%s primes=- factor=-", sfp, sdc, snonce, pq, prime, draws, stime)
		for _, m := range sent {
			line += " ; " + m
		}
		ans, err := c.Drv.Ask(line)
		if err != nil {
			return err
		}
		impl := c09x.ServerResult(o.sres, nil)
		if o.serr != nil {
			impl = "failed " + serverErrTag(o.serr)
			if impl == "failed io" {
				impl = "waiting" // the scripted client went away: the message-level model has no transport errors
			}
		}
		if c.Compare(in+" :: "+line, impl+" || "+strings.Join(got, " | "), ans) {
			c.Res.TracesValidated++
		}
	}
	return nil
}
