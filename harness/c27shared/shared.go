package c27shared

import (
	"fmt"
	"strings"
	"sync"

	"verif/harness/hc"
)

// Facts emits the source facts shared by C27 and C28.
func Facts(f *hc.Facts) {
	poolFacts(f)
}

func randomConfig(r *hc.RNG) Config {
	cfg := Config{Max: int64(hc.Pick(r, 1, 1, 1, 2, 2, 3, 0)), Callers: hc.Pick(r, 1, 2, 2, 3, 3, 4, 5), MaxSteps: 120}
	cfg.W = Weights{Step: 8, Ready: hc.Pick(r, 2, 6, 10), Die: hc.Pick(r, 0, 1, 2, 4), Cancel: hc.Pick(r, 0, 1, 2, 4),
		FinOK: hc.Pick(r, 2, 6), FinErr: hc.Pick(r, 0, 1, 2), FinRetry: hc.Pick(r, 0, 1, 2)}
	cfg.B = Budget{Cancel: hc.Pick(r, 0, 1, 2, 5), Die: hc.Pick(r, 0, 1, 2, 4), Retry: hc.Pick(r, 0, 1, 2), Close: hc.Pick(r, 0, 0, 0, 1)}
	return cfg
}

// Run is the entry point of both harnesses.
func Main(c *hc.Ctx, prop string) error {
	expectBg := sourceCreateCancelReleases(c.Repo)
	var outs []Outcome
	if c.Replay != "" {
		cfg, script, err := parseInput(c.Replay)
		if err != nil {
			return err
		}
		for k := 0; k < 5; k++ {
			div := false
			o := Execute(cfg, expectBg, ScriptChooser(script, &div))
			o.Diverged = div
			outs = append(outs, o)
		}
	} else {
		n := c.N(3000, 60000)
		cfgs := make([]Config, n)
		rngs := make([]*hc.RNG, n)
		for i := range cfgs {
			cfgs[i] = randomConfig(c.Rng)
			rngs[i] = c.Rng.Fork()
		}
		outs = make([]Outcome, n)
		var wg sync.WaitGroup
		idx := make(chan int, n)
		for i := 0; i < n; i++ {
			idx <- i
		}
		close(idx)
		for w := 0; w < 8; w++ {
			wg.Add(1)
			go func() {
				defer wg.Done()
				for i := range idx {
					outs[i] = Execute(cfgs[i], expectBg, RandomChooser(rngs[i]))
				}
			}()
		}
		wg.Wait()
		// lock-yield runs: pauses inside the pool mutex (monitor only)
		n2 := c.N(700, 14000)
		cfgs2 := make([]Config, n2)
		rngs2 := make([]*hc.RNG, n2)
		for i := range cfgs2 {
			cfg := randomConfig(c.Rng)
			cfg.Max = int64(hc.Pick(c.Rng, 1, 2, 2, 3, 0))
			cfg.Callers = hc.Pick(c.Rng, 2, 3, 3, 4)
			cfg.LockYield = hc.Pick(c.Rng, 1, 2, 3)
			cfg.B.Die, cfg.B.Retry = hc.Pick(c.Rng, 1, 1, 2), hc.Pick(c.Rng, 1, 1, 2)
			cfg.B.Close = 0
			cfg.W.Die, cfg.W.FinRetry = hc.Pick(c.Rng, 2, 4, 8), hc.Pick(c.Rng, 2, 4, 8)
			cfgs2[i] = cfg
			rngs2[i] = c.Rng.Fork()
		}
		outs2 := make([]Outcome, n2)
		idx2 := make(chan int, n2)
		for i := 0; i < n2; i++ {
			idx2 <- i
		}
		close(idx2)
		for w := 0; w < 8; w++ {
			wg.Add(1)
			go func() {
				defer wg.Done()
				for i := range idx2 {
					outs2[i] = Execute(cfgs2[i], expectBg, RandomChooser(rngs2[i]))
				}
			}()
		}
		wg.Wait()
		outs = append(outs, outs2...)
		// exhaustive exploration of tiny configurations
		type tiny struct {
			cfg  Config
			runs int
		}
		w := Weights{1, 1, 1, 1, 1, 1, 1}
		tinies := []tiny{{Config{Max: 1, Callers: 2, W: w, B: Budget{Cancel: 1, Die: 1, Retry: 0}, MaxSteps: 200}, c.N(4500, 400000)}}
		if c.Thorough() {
			tinies = append(tinies,
				tiny{Config{Max: 1, Callers: 2, W: w, B: Budget{Cancel: 2, Die: 1, Retry: 1}, MaxSteps: 200}, 400000},
				tiny{Config{Max: 2, Callers: 3, W: w, B: Budget{Cancel: 1, Die: 1, Retry: 0}, MaxSteps: 200}, 250000},
				tiny{Config{Max: 1, Callers: 2, W: w, B: Budget{Cancel: 1, Die: 0, Retry: 0, Close: 1}, MaxSteps: 200}, 250000})
		}
		res := make([][]Outcome, len(tinies))
		exh := make([]bool, len(tinies))
		var wg2 sync.WaitGroup
		for i, t := range tinies {
			wg2.Add(1)
			go func(i int, t tiny) {
				defer wg2.Done()
				res[i], exh[i] = Explore(t.cfg, expectBg, t.runs)
			}(i, t)
		}
		wg2.Wait()
		all := true
		for i, t := range tinies {
			c.Note("depth-first exploration of %s: %d schedule prefixes executed, exhausted=%v", t.cfg, len(res[i]), exh[i])
			c.Count(fmt.Sprintf("dfs.%s.prefixes", t.cfg))
			all = all && exh[i]
			outs = append(outs, res[i]...)
		}
		c.Res.Exhaustive = all
	}
	// a watchdog may fire because the machine is overloaded: re-run that schedule before believing it
	for i := range outs {
		for try := 0; try < 2 && outs[i].Hung; try++ {
			div := false
			o := Execute(outs[i].Cfg, expectBg, ScriptChooser(scheduleWithoutHang(outs[i].Schedule), &div))
			if !o.Hung {
				c.Note("watchdog fired once for a schedule that completed when re-run (machine load): %s", outs[i].Input())
				o.Diverged = div
				outs[i] = o
			}
		}
	}
	return report(c, prop, outs, expectBg)
}

func scheduleWithoutHang(s []string) []string { return s }

// Explore enumerates the scheduler's choices of a tiny configuration depth first.  A node is a schedule
// prefix; it is re-executed from scratch (the pool cannot be snapshotted), its state is identified by
// the observed pool state + the enabled set + the remaining environment budget, and a state that was
// seen before is not expanded again.  Every executed prefix is also a validated trace.
func Explore(cfg Config, expectBg bool, maxRuns int) (outs []Outcome, exhausted bool) {
	type node struct{ prefix []string }
	stack := []node{{nil}}
	seen := map[string]bool{}
	runs := 0
	for len(stack) > 0 {
		if runs >= maxRuns || slowFailures.Load() >= 3 {
			return outs, false
		}
		nd := stack[len(stack)-1]
		stack = stack[:len(stack)-1]
		var lastEn []choice
		var lastSum string
		div := false
		o := Execute(cfg, expectBg, func(step int, en []choice, sum string) *choice {
			if step >= len(nd.prefix) {
				lastEn, lastSum = en, sum
				return nil
			}
			for _, c := range en {
				if c.String() == nd.prefix[step] {
					return &c
				}
			}
			div = true
			return nil
		})
		runs++
		o.Diverged = div
		outs = append(outs, o)
		if div || o.Hung || len(lastEn) == 0 {
			continue
		}
		var names []string
		for _, c := range lastEn {
			names = append(names, c.String())
		}
		b := cfg.B
		for _, t := range nd.prefix {
			switch {
			case strings.HasPrefix(t, "ca:"):
				b.Cancel--
			case strings.HasPrefix(t, "di:"):
				b.Die--
			case strings.HasSuffix(t, ":retry"):
				b.Retry--
			case strings.HasPrefix(t, "cl:"):
				b.Close--
			}
		}
		key := fmt.Sprintf("%s|%s|%d/%d/%d/%d", lastSum, strings.Join(names, ","), b.Cancel, b.Die, b.Retry, b.Close)
		if seen[key] {
			continue
		}
		seen[key] = true
		for i := len(names) - 1; i >= 0; i-- {
			stack = append(stack, node{append(append([]string(nil), nd.prefix...), names[i])})
		}
	}
	return outs, true
}

func parseInput(s string) (Config, []string, error) {
	cfg := Config{MaxSteps: 400, B: Budget{Cancel: 99, Die: 99, Retry: 99, Close: 1}, W: Weights{1, 1, 1, 1, 1, 1, 1}}
	var script []string
	for _, w := range strings.Fields(s) {
		switch {
		case strings.HasPrefix(w, "max="):
			fmt.Sscanf(w, "max=%d", &cfg.Max)
		case strings.HasPrefix(w, "callers="):
			fmt.Sscanf(w, "callers=%d", &cfg.Callers)
		case strings.HasPrefix(w, "lock="):
			fmt.Sscanf(w, "lock=%d", &cfg.LockYield)
		case strings.HasPrefix(w, "schedule="):
			script = strings.Split(strings.TrimPrefix(w, "schedule="), ",")
		}
	}
	if cfg.Callers < 1 {
		return cfg, nil, fmt.Errorf("bad replay input %q", s)
	}
	return cfg, script, nil
}
