package c27shared

import (
	"fmt"
	"strings"
	"sync"

	"verif/harness/hc"
)

// Facts emits the source facts shared by C27 and C28.
func Facts(f *hc.Facts) {
	poolFacts(f)
}

func randomConfig(r *hc.RNG) Config {
	cfg := Config{Max: int64(hc.Pick(r, 1, 1, 1, 2, 2, 3, 0)), Callers: hc.Pick(r, 1, 2, 2, 3, 3, 4, 5), MaxSteps: 120}
	cfg.W = Weights{Step: 8, Ready: hc.Pick(r, 2, 6, 10), Die: hc.Pick(r, 0, 1, 2, 4), Cancel: hc.Pick(r, 0, 1, 2, 4),
		FinOK: hc.Pick(r, 2, 6), FinErr: hc.Pick(r, 0, 1, 2), FinRetry: hc.Pick(r, 0, 1, 2)}
	cfg.B = Budget{Cancel: hc.Pick(r, 0, 1, 2, 5), Die: hc.Pick(r, 0, 1, 2, 4), Retry: hc.Pick(r, 0, 1, 2)}
	return cfg
}

// Run is the entry point of both harnesses.
func Main(c *hc.Ctx, prop string) error {
	expectBg := sourceCreateCancelReleases(c.Repo)
	var outs []Outcome
	if c.Replay != "" {
		cfg, script, err := parseInput(c.Replay)
		if err != nil {
			return err
		}
		for k := 0; k < 5; k++ {
			div := false
			o := Execute(cfg, expectBg, ScriptChooser(script, &div))
			o.Diverged = div
			outs = append(outs, o)
		}
	} else {
		n := c.N(3000, 60000)
		cfgs := make([]Config, n)
		rngs := make([]*hc.RNG, n)
		for i := range cfgs {
			cfgs[i] = randomConfig(c.Rng)
			rngs[i] = c.Rng.Fork()
		}
		outs = make([]Outcome, n)
		var wg sync.WaitGroup
		idx := make(chan int, n)
		for i := 0; i < n; i++ {
			idx <- i
		}
		close(idx)
		for w := 0; w < 8; w++ {
			wg.Add(1)
			go func() {
				defer wg.Done()
				for i := range idx {
					outs[i] = Execute(cfgs[i], expectBg, RandomChooser(rngs[i]))
				}
			}()
		}
		wg.Wait()
	}
	// a watchdog may fire because the machine is overloaded: re-run that schedule before believing it
	for i := range outs {
		for try := 0; try < 2 && outs[i].Hung; try++ {
			div := false
			o := Execute(outs[i].Cfg, expectBg, ScriptChooser(scheduleWithoutHang(outs[i].Schedule), &div))
			if !o.Hung {
				c.Note("watchdog fired once for a schedule that completed when re-run (machine load): %s", outs[i].Input())
				o.Diverged = div
				outs[i] = o
			}
		}
	}
	return report(c, prop, outs)
}

func scheduleWithoutHang(s []string) []string { return s }

func parseInput(s string) (Config, []string, error) {
	cfg := Config{MaxSteps: 400, B: Budget{Cancel: 99, Die: 99, Retry: 99}, W: Weights{1, 1, 1, 1, 1, 1, 1}}
	var script []string
	for _, w := range strings.Fields(s) {
		switch {
		case strings.HasPrefix(w, "max="):
			fmt.Sscanf(w, "max=%d", &cfg.Max)
		case strings.HasPrefix(w, "callers="):
			fmt.Sscanf(w, "callers=%d", &cfg.Callers)
		case strings.HasPrefix(w, "schedule="):
			script = strings.Split(strings.TrimPrefix(w, "schedule="), ",")
		}
	}
	if cfg.Callers < 1 {
		return cfg, nil, fmt.Errorf("bad replay input %q", s)
	}
	return cfg, script, nil
}
