package c27shared

import (
	"fmt"
	"strings"

	"verif/harness/hc"
)

// which monitor keys belong to which property (harness-* keys are reported by both)
var keysOf = map[string][]string{
	"C27": {"over-limit", "total-mismatch", "shared-conn", "handout-dead", "wrong-conn", "pool-panic"},
	"C28": {"leak-", "waiter-not-served", "hang"},
}

func onlyHarnessFails(o Outcome) bool {
	if len(o.Fails) == 0 {
		return false
	}
	for _, f := range o.Fails {
		if !strings.HasPrefix(f[0], "harness-") {
			return false
		}
	}
	return true
}

func belongs(prop, key string) bool {
	if strings.HasPrefix(key, "harness-") {
		return true
	}
	for _, p := range keysOf[prop] {
		if strings.HasPrefix(key, p) {
			return true
		}
	}
	return false
}

func report(c *hc.Ctx, prop string, outs []Outcome, expectBgOf bool) error {
	var lines, inputs, wants []string
	var cfgsOf []Config
	var schedOf [][]string
	for _, o := range outs {
		in := o.Input()
		if onlyHarnessFails(o) {
			div := false
			o2 := Execute(o.Cfg, expectBgOf, ScriptChooser(o.Schedule, &div))
			if len(o2.Fails) == 0 {
				c.Note("harness-internal inconsistency not reproduced when the schedule was re-executed (machine load): %s", in)
				o2.Diverged = div
				o = o2
			}
		}
		seen := map[string]bool{}
		for _, f := range o.Fails {
			if !belongs(prop, f[0]) || seen[f[0]] {
				continue
			}
			seen[f[0]] = true
			c.Fail(f[0], in, f[1]+" | trace "+strings.Join(o.Trace, " "))
		}
		c.Count(fmt.Sprintf("max=%d", o.Cfg.Max))
		c.Count(fmt.Sprintf("callers=%d", o.Cfg.Callers))
		c.Count(fmt.Sprintf("conns-created=%d", min(o.Conns, 6)))
		for k, v := range o.Kinds {
			for i := 0; i < v; i++ {
				c.Count("action." + k)
			}
		}
		if o.Terminal {
			c.Count("run.terminal")
		} else {
			c.Count("run.step-budget")
		}
		if o.Diverged {
			c.Count("run.replay-diverged")
		}
		nontrivial := o.Transfers > 0 || o.Kinds["di"] > 0 || o.Kinds["ca"] > 0
		if o.Transfers > 0 {
			c.Count("run.with-transfer")
		}
		c.Eval(in, nontrivial)
		if o.NoModel {
			c.Count("run.lock-yield")
		}
		if o.HasXfer || o.Hung || o.NoModel {
			continue // a pre-fix transfer step, a hang or a run with pauses inside the pool mutex has no model counterpart
		}
		lines = append(lines, o.Line())
		cfgsOf = append(cfgsOf, o.Cfg)
		schedOf = append(schedOf, o.Schedule)
		inputs = append(inputs, in+" | "+o.Line())
		wants = append(wants, o.Want())
	}
	c.Res.Rule = "a case is one scheduled run of a real pool.DC (max 0=unlimited,1..3; 1..5 concurrent DC.Invoke callers; fake connections whose readiness and death the scheduler controls; caller cancellation; Invoke results ok / error / retryable error); the scheduler serialises all goroutines at the verif scheduling points and picks the next action from the seeded generator (weights vary per run); in the lock-yield runs a goroutine is additionally paused INSIDE a critical section of the pool mutex (at the pool's own debug lines) while others run up to the mutex, which exhibits check-then-lock windows (monitor only, no model trace); non-trivial = the run contains a transfer to a waiter, a connection death or a cancellation; distinct = distinct schedule"
	c.PartialNote("interleavings below the granularity of the scheduling points are exhibited only in the lock-yield runs (a goroutine parked at one of the pool's own debug lines inside the mutex while others run up to the mutex), otherwise not (Go memory model); when several branches of a select are ready the Go runtime picks, the observed branch is what is replayed")
	ans, err := c.Drv.Batch(lines)
	if err != nil {
		return err
	}
	for i, a := range ans {
		if wants[i] == a {
			c.Res.TracesValidated++
			continue
		}
		// a mismatch may be an artefact of the harness under machine load (an observation taken while a
		// goroutine was still running): re-execute the same schedule before believing it
		agreed := false
		for try := 0; try < 2 && !agreed; try++ {
			div := false
			o2 := Execute(cfgsOf[i], expectBgOf, ScriptChooser(schedOf[i], &div))
			if o2.HasXfer || o2.Hung || o2.NoModel {
				continue
			}
			a2, err := c.Drv.Ask(o2.Line())
			if err != nil {
				return err
			}
			if a2 == o2.Want() {
				agreed = true
				c.Note("model/implementation mismatch not reproduced when the schedule was re-executed (harness artefact under load): %s", inputs[i])
				c.Res.TracesValidated++
			}
		}
		if !agreed {
			c.Differ(inputs[i], wants[i], a, "persisted over 2 re-executions")
		}
	}
	return nil
}
