package c27shared

import (
	"fmt"
	"os"
	"strings"
	"time"

	"github.com/gotd/td/pool"

	"verif/harness/hc"
)

// Config describes one scheduled run.
type Config struct {
	Max      int64 // 0 = unlimited
	Callers  int
	W        Weights
	B        Budget
	MaxSteps int
	// LockYield > 0: up to that many pauses of a goroutine INSIDE a critical section of the pool mutex
	// (at the pool's own debug lines), see Run.lockYield
	LockYield int
}

func (c Config) String() string {
	return fmt.Sprintf("max=%d callers=%d budget=%d/%d/%d/%d", c.Max, c.Callers, c.B.Cancel, c.B.Die, c.B.Retry, c.B.Close)
}

func contains(xs []int64, x int64) bool {
	for _, y := range xs {
		if x == y {
			return true
		}
	}
	return false
}

// releasedTo finds where the connection `c` released during the last step went: "-" = free list,
// a key = the waiter it was transferred to (bookkeeping updated), "?" = nowhere visible.
func (r *Run) releasedTo(c int64, pre, post obs, ownKey int64) string {
	if contains(post.free, c) {
		return "-"
	}
	// a channel that just received a connection (also the channel of a waiter that has left meanwhile)
	for k, ch := range r.chans {
		if pool.VerifC27ChanLen(ch) == 1 {
			if _, had := r.inbox[k]; !had {
				r.inbox[k] = c
				r.transfers++
				return fmt.Sprintf("%d", k-1)
			}
		}
	}
	return "?"
}

// Step performs one choice; it returns the model action token.
func (r *Run) Step(ch choice, pre obs) (string, bool) {
	if ch.act == "ca" {
		g := r.callers[ch.idx]
		g.cancelled = true
		g.cancel()
		return fmt.Sprintf("ca:%d", ch.idx), true
	}
	if ch.act == "cl" {
		r.dcClosed = true
		go func() {
			defer func() { _ = recover() }()
			_ = r.dc.Close() // blocks until every connection's Run has returned
		}()
		deadline := time.Now().Add(Patience())
		for !pool.VerifC27Snapshot(r.dc).Closed && time.Now().Before(deadline) {
			time.Sleep(10 * time.Microsecond)
		}
		return "cl", true
	}
	g := ch.g
	if r.noModel {
		// lock-yield run: no model action, no step bookkeeping; the monitors that remain (total vs live
		// connections, limit, a connection invoked after it reported ErrConnDead, concurrent Invoke on
		// one connection, panics) do not need it
		if r.holder != nil && (ch.act == "di" || (ch.act == "fi" && ch.what == "retry")) {
			if r.deadPending == nil {
				r.deadPending = map[int64]bool{}
			}
			if ch.act == "di" {
				r.deadPending[int64(g.idx)] = true
			} else {
				r.deadPending[g.conn] = true
			}
		}
		if ch.act == "ul" {
			r.deadPending = nil
			r.mu.Lock()
			r.holder = nil
			for _, b := range r.gs {
				if b.state == stBlocked {
					b.state = stRunning
					r.running++
				}
			}
			r.mu.Unlock()
		}
		r.grant(g, ch.what)
		if !r.waitQuiet(Patience()) {
			r.hung = true
			slowFailures.Add(1)
			r.fail("hang", fmt.Sprintf("after granting %s (lock-yield run) the goroutines did not reach a scheduling point or the pool mutex within the watchdog time", ch))
			return ch.String() + ":hang", false
		}
		if ch.act == "bg" {
			r.mu.Lock()
			delete(r.bgs, int64(g.idx))
			r.mu.Unlock()
		}
		if ch.act == "cw" && r.expectBg {
			// a creator that gave up hands its connection to a background releaser, a goroutine the scheduler
			// only learns about when it reaches its first scheduling point: wait for it
			r.mu.Lock()
			st, res := g.state, g.result
			r.mu.Unlock()
			if st == stDone && !strings.Contains(res, "DC closed") {
				bgConn := g.conn
				deadline := time.Now().Add(Patience())
				arrived := false
				for !arrived && time.Now().Before(deadline) {
					r.mu.Lock()
					bg := r.bgs[bgConn]
					arrived = bg != nil && bg.state != stRunning
					r.mu.Unlock()
					if !arrived {
						time.Sleep(10 * time.Microsecond)
					}
				}
				if !arrived {
					slowFailures.Add(1)
				}
				if !r.waitQuiet(Patience()) {
					r.hung = true
					r.fail("hang", fmt.Sprintf("after %s (lock-yield run) the background releaser did not reach a scheduling point", ch))
					return ch.String() + ":hang", false
				}
			}
		}
		if os.Getenv("VERIF_DEBUG") != "" {
			r.mu.Lock()
			var sb strings.Builder
			for _, x := range r.gs {
				fmt.Fprintf(&sb, " %d/%d:%d@%s", x.kind, x.idx, x.state, x.point)
			}
			fmt.Fprintf(os.Stderr, "c27 debug: after %s running=%d holder=%v%s\n", ch, r.running, r.holder != nil, sb.String())
			r.mu.Unlock()
		}
		return "", true
	}
	prePoint, preKey, preConn, preWhy := g.point, g.key, g.conn, g.why
	polled, hadPolled := r.inbox[preKey]
	deadBefore := map[int64]bool{}
	for _, c := range r.conns {
		deadBefore[c.id] = r.connDead(c.id)
	}
	connReady := false
	if g.kind == gBg {
		connReady = r.conns[g.idx-1].isReady
	}
	r.grant(g, ch.what)
	if !r.waitQuiet(Patience()) {
		r.hung = true
		slowFailures.Add(1)
		r.fail("hang", fmt.Sprintf("after granting %s the goroutine did not reach a scheduling point within the watchdog time (30s; blocked for real)", ch))
		return ch.String() + ":hang", false
	}
	newPC := ""
	if g.kind == gCaller {
		newPC = r.pcOf(g)
	}
	i := ch.idx
	tok := ""
	handout := func(c int64) {
		r.handouts++
		if deadBefore[c] {
			r.fail("handout-dead", fmt.Sprintf("%s handed connection %d to caller %d although its Dead() flag was already set", ch, c-1, i))
		}
	}
	post := func() obs { return r.observeC(false) }
	switch ch.act {
	case "pk":
		tok = "" // the scheduling point between the registration and the select: no model action
	case "st", "en", "ck", "mk":
		tok = fmt.Sprintf("%s:%d", ch.act, i)
		if ch.act == "ck" && strings.HasPrefix(newPC, "U") {
			handout(g.conn)
		}
		if (ch.act == "en" || ch.act == "mk") && strings.HasPrefix(newPC, "N") && int(g.conn) != len(r.conns) {
			r.fail("harness-id-mismatch", fmt.Sprintf("the connection being created is fake connection %d but %d fake connections exist", g.conn, len(r.conns)))
		}
	case "cw":
		switch {
		case strings.HasPrefix(newPC, "U"):
			tok = fmt.Sprintf("cw:%d:r", i)
			handout(g.conn)
		case newPC == "S":
			tok = fmt.Sprintf("cw:%d:d", i)
		case strings.Contains(g.result, "DC closed"):
			tok = fmt.Sprintf("cw:%d:x", i)
		default:
			tok = fmt.Sprintf("cw:%d:c", i)
			if r.expectBg {
				// the source hands the connection to a background releaser: wait for it to park
				deadline := time.Now().Add(Patience())
				arrived := false
				for time.Now().Before(deadline) {
					r.mu.Lock()
					bg := r.bgs[preConn]
					arrived = bg != nil && (bg.state == stYield || bg.state == stDone)
					r.mu.Unlock()
					if arrived {
						break
					}
					time.Sleep(10 * time.Microsecond)
				}
				if !arrived {
					// the source promises a background releaser but none showed up: stop waiting so long
					slowFailures.Add(1)
				}
			}
		}
	case "ww":
		switch {
		case strings.HasPrefix(newPC, "G") && g.why == "ctx" && !g.cancelled:
			tok = fmt.Sprintf("ww:%d:x", i) // left through c.ctx.Done()
		case strings.HasPrefix(newPC, "G"):
			tok = fmt.Sprintf("ww:%d:%s", i, g.why[:1])
		default:
			tok = fmt.Sprintf("ww:%d:h", i)
			if !hadPolled {
				r.fail("harness-inbox-bookkeeping", fmt.Sprintf("%s: caller %d left the wait through its channel but no transfer was recorded", ch, i))
			}
			if strings.HasPrefix(newPC, "U") {
				if g.conn != polled && hadPolled {
					r.fail("wrong-conn", fmt.Sprintf("caller %d received connection %d but %d was transferred to its key", i, g.conn-1, polled-1))
				}
				handout(g.conn)
			}
		}
	case "gu":
		k := "-"
		switch {
		case strings.HasPrefix(newPC, "U"):
			handout(g.conn)
		case strings.HasPrefix(newPC, "X"):
			g.xconn = polled
			r.hasXfer = true
		case newPC == "D" && hadPolled && preWhy == "ctx":
			k = r.releasedTo(polled, pre, post(), preKey)
		}
		tok = fmt.Sprintf("gu:%d:%s", i, k)
	case "fi":
		k := "-"
		switch {
		case strings.HasPrefix(newPC, "X"):
			g.xconn = preConn
			r.hasXfer = true
		case newPC == "D":
			k = r.releasedTo(preConn, pre, post(), 0)
		}
		tok = fmt.Sprintf("fi:%d:%s:%s", i, ch.what[:1], k)
	case "xs":
		r.hasXfer = true
		// the send completed: the connection sits in the channel of key g.key; it is held only if that
		// waiter is still going to read it
		for _, w := range r.callers {
			if w.state == stYield && (w.point == "acq.wait" || w.point == "acq.giveup") && w.key == preKey {
				r.inbox[preKey] = g.xconn
				r.transfers++
			}
		}
		tok = fmt.Sprintf("xs:%d", i)
	case "rd", "di":
		tok = fmt.Sprintf("%s:%d", ch.act, i)
	case "bg":
		c := int64(g.idx)
		k := r.releasedTo(c, pre, post(), 0)
		switch {
		case k != "?":
			tok = fmt.Sprintf("bg:%d:r:%s", i, k)
		case deadBefore[c] || r.dcClosed:
			tok = fmt.Sprintf("bg:%d:d:-", i)
		default:
			tok = fmt.Sprintf("bg:%d:r:?", i)
		}
		_ = connReady
		r.mu.Lock()
		delete(r.bgs, c)
		r.mu.Unlock()
	}
	_ = prePoint
	return tok, true
}

func pickWeighted(rng *hc.RNG, en []choice) choice {
	sum := 0
	for _, c := range en {
		sum += c.w
	}
	if sum <= 0 {
		return en[rng.Intn(len(en))]
	}
	x := rng.Intn(sum)
	for _, c := range en {
		if x < c.w {
			return c
		}
		x -= c.w
	}
	return en[len(en)-1]
}

// Outcome of one run.
type Outcome struct {
	Cfg       Config
	Schedule  []string // the scheduler's choices (replayable)
	Trace     []string // model actions
	Sums      []string // implementation state after every action
	Fails     [][2]string
	HasXfer   bool
	NoModel   bool
	Hung      bool
	Terminal  bool
	Handouts  int
	Transfers int
	Conns     int
	Kinds     map[string]int
	Diverged  bool
}

func (o Outcome) Line() string {
	return fmt.Sprintf("pool %d %d %s", o.Cfg.Max, o.Cfg.Callers, strings.Join(o.Trace, " "))
}

func (o Outcome) Want() string { return "ok " + strings.Join(o.Sums, "|") + " holds=1" }

func (o Outcome) Input() string {
	if o.Cfg.LockYield > 0 {
		return fmt.Sprintf("max=%d callers=%d lock=%d schedule=%s", o.Cfg.Max, o.Cfg.Callers, o.Cfg.LockYield, strings.Join(o.Schedule, ","))
	}
	return fmt.Sprintf("max=%d callers=%d schedule=%s", o.Cfg.Max, o.Cfg.Callers, strings.Join(o.Schedule, ","))
}

// Chooser picks the next action among the enabled ones (nil = stop).
type Chooser func(step int, en []choice, summary string) *choice

// Execute runs one schedule.
func Execute(cfg Config, expectBg bool, choose Chooser) Outcome {
	r := NewRun(cfg.Max, cfg.Callers, expectBg)
	defer r.Close()
	r.lockYield, r.noModel = cfg.LockYield, cfg.LockYield > 0
	out := Outcome{Cfg: cfg, Kinds: map[string]int{}}
	b := cfg.B
	if !r.waitQuiet(Patience()) {
		out.Hung = true
		out.Fails = append(out.Fails, [2]string{"hang", "callers did not reach their first scheduling point"})
		return out
	}
	pre := r.observeC(!r.noModel)
	for step := 0; step < cfg.MaxSteps; step++ {
		if r.noModel {
			r.mu.Lock()
			failed := len(r.fails) > 0
			r.mu.Unlock()
			if failed {
				break // (going on could drive the pool's counter below zero: it panics on a pool goroutine)
			}
		}
		en := r.enabled(cfg.W, &b)
		if len(en) == 0 {
			out.Terminal = true
			break
		}
		chp := choose(step, en, pre.summary)
		if chp == nil {
			break
		}
		ch := *chp
		switch {
		case ch.act == "ca":
			b.Cancel--
		case ch.act == "di":
			b.Die--
		case ch.act == "fi" && ch.what == "retry":
			b.Retry--
		case ch.act == "cl":
			b.Close--
		}
		tok, ok := r.Step(ch, pre)
		out.Schedule = append(out.Schedule, ch.String())
		out.Kinds[ch.act]++
		if !ok {
			out.Hung = true
			break
		}
		post := r.observeC(!r.noModel)
		if tok != "" {
			out.Trace = append(out.Trace, tok)
			out.Sums = append(out.Sums, post.summary)
		} else {
			tok = ch.String() // a scheduling step without a model action (still monitored)
		}
		r.monitor(post, tok)
		r.monitorServed(post, tok)
		pre = post
	}
	r.mu.Lock()
	out.Fails = append(out.Fails, r.fails...)
	r.mu.Unlock()
	for _, f := range out.Fails {
		if f[0] == "total-mismatch" && r.holder == nil {
			// the counter is known to be wrong: keep the teardown (every connection dies) from driving it below
			// zero, where dead() panics on a pool goroutine
			pool.VerifC27SetTotal(r.dc, 1<<20)
			break
		}
	}
	out.HasXfer = r.hasXfer
	out.NoModel = r.noModel
	out.Handouts = r.handouts
	out.Transfers = r.transfers
	out.Conns = len(r.conns)
	return out
}

// RandomChooser draws from the run's own generator.
func RandomChooser(rng *hc.RNG) Chooser {
	return func(step int, en []choice, _ string) *choice {
		c := pickWeighted(rng, en)
		return &c
	}
}

// ScriptChooser follows a recorded schedule (tokens as printed by choice.String); it stops at the first
// token that is not enabled.
func ScriptChooser(script []string, diverged *bool) Chooser {
	return func(step int, en []choice, _ string) *choice {
		if step >= len(script) {
			return nil
		}
		for _, c := range en {
			if c.String() == script[step] {
				return &c
			}
		}
		*diverged = true
		return nil
	}
}
