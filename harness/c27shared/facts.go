package c27shared

import (
	"go/ast"
	"go/parser"
	"go/token"
	"path/filepath"
	"strings"

	"verif/harness/hc"
)

// walk visits every node with the stack of its ancestors (outermost first).
func walk(n ast.Node, f func(n ast.Node, stack []ast.Node)) {
	var stack []ast.Node
	ast.Inspect(n, func(m ast.Node) bool {
		if m == nil {
			stack = stack[:len(stack)-1]
			return true
		}
		f(m, stack)
		stack = append(stack, m)
		return true
	})
}

func src(f *hc.Facts, n ast.Node) string { return f.Src(n) }

// handoutSites counts the `return X, nil` statements of acquire and how many of them are guarded by
// c.alive(X): either an enclosing `if … c.alive(X) …` (positive) or an earlier `if !c.alive(X) { goto retry }`
// in one of the enclosing blocks / clauses.
func handoutSites(f *hc.Facts, fd *ast.FuncDecl) (sites, guarded int) {
	walk(fd.Body, func(n ast.Node, stack []ast.Node) {
		rs, ok := n.(*ast.ReturnStmt)
		if !ok || len(rs.Results) != 2 || src(f, rs.Results[1]) != "nil" {
			return
		}
		x := src(f, rs.Results[0])
		if x == "nil" {
			return
		}
		sites++
		pos := "c.alive(" + x + ")"
		neg := "!c.alive(" + x + ")"
		child := ast.Node(rs)
		for i := len(stack) - 1; i >= 0; i-- {
			var list []ast.Stmt
			switch p := stack[i].(type) {
			case *ast.IfStmt:
				if p.Body == child || containsNode(p.Body, child) {
					c := src(f, p.Cond)
					if strings.Contains(c, pos) && !strings.Contains(c, neg) && !strings.Contains(c, "||") {
						guarded++
						return
					}
				}
			case *ast.BlockStmt:
				list = p.List
			case *ast.CommClause:
				list = p.Body
			case *ast.CaseClause:
				list = p.Body
			}
			for _, st := range list {
				if st == child || containsNode(st, child) {
					break
				}
				if is, ok := st.(*ast.IfStmt); ok && src(f, is.Cond) == neg && is.Else == nil && len(is.Body.List) == 1 &&
					src(f, is.Body.List[0]) == "goto retry" {
					guarded++
					return
				}
			}
			child = stack[i]
		}
	})
	return
}

func containsNode(root, n ast.Node) bool {
	found := false
	ast.Inspect(root, func(m ast.Node) bool {
		if m == n {
			found = true
		}
		return !found
	})
	return found
}

func poolFacts(f *hc.Facts) {
	acq := f.FuncDecl("pool", "DC.acquire")
	if acq == nil || acq.Body == nil {
		for _, n := range []string{"handoutSites", "guardedHandoutSites", "stuckCapturedUnderMu", "createCancelReleases", "limitGuard", "aliveChecksDead"} {
			f.Missing(n, "DC.acquire not found")
		}
	} else {
		s, g := handoutSites(f, acq)
		f.Nat("handoutSites", s, "DC.acquire: number of `return <conn>, nil` statements")
		f.Nat("guardedHandoutSites", g, "…of which are guarded by c.alive(<conn>)")
		// alive(): select { case <-r.Dead(): c.dead(r, nil); return false; default: return true }
		aliveOK := false
		if al := f.FuncDecl("pool", "DC.alive"); al != nil && al.Body != nil && len(al.Body.List) == 1 {
			if sel, ok := al.Body.List[0].(*ast.SelectStmt); ok && len(sel.Body.List) == 2 {
				var dead, def bool
				for _, cc := range sel.Body.List {
					c := cc.(*ast.CommClause)
					body := ""
					for _, st := range c.Body {
						body += src(f, st) + ";"
					}
					if c.Comm == nil {
						def = body == "return true;"
					} else if src(f, c.Comm) == "<-r.Dead()" {
						dead = strings.HasSuffix(body, "return false;")
					}
				}
				aliveOK = dead && def
			}
		}
		f.Bool("aliveChecksDead", aliveOK, "DC.alive: select { case <-r.Dead(): …; return false; default: return true }")
		// stuck captured before the unlock that precedes the third-case select
		captured := false
		for i, st := range acq.Body.List {
			as, ok := st.(*ast.AssignStmt)
			if !ok || len(as.Rhs) != 1 || src(f, as.Rhs[0]) != "c.stuck.Ready()" || len(as.Lhs) != 1 {
				continue
			}
			name := src(f, as.Lhs[0])
			if i+1 < len(acq.Body.List) && src(f, acq.Body.List[i+1]) == "c.mu.Unlock()" {
				uses, calls := false, 0
				ast.Inspect(acq.Body, func(n ast.Node) bool {
					if cc, ok := n.(*ast.CommClause); ok && cc.Comm != nil && src(f, cc.Comm) == "<-"+name {
						uses = true
					}
					if ce, ok := n.(*ast.CallExpr); ok && src(f, ce) == "c.stuck.Ready()" {
						calls++
					}
					return true
				})
				captured = uses && calls == 1
			}
		}
		f.Bool("stuckCapturedUnderMu", captured, "DC.acquire: x := c.stuck.Ready() right before c.mu.Unlock(); the select waits on x; no other c.stuck.Ready() call")
		// creation select: the ctx.Done clause hands the connection to releaseWhenReady
		rel := false
		limit := false
		ast.Inspect(acq.Body, func(n ast.Node) bool {
			switch x := n.(type) {
			case *ast.SelectStmt:
				hasReady := false
				for _, cc := range x.Body.List {
					c := cc.(*ast.CommClause)
					if c.Comm != nil && src(f, c.Comm) == "<-conn.Ready()" {
						hasReady = true
					}
				}
				if hasReady {
					for _, cc := range x.Body.List {
						c := cc.(*ast.CommClause)
						if c.Comm != nil && src(f, c.Comm) == "<-ctx.Done()" && len(c.Body) >= 1 && src(f, c.Body[0]) == "c.releaseWhenReady(conn)" {
							rel = true
						}
					}
				}
			case *ast.IfStmt:
				if src(f, x.Cond) == "c.max < 1 || c.total < c.max" && len(x.Body.List) >= 2 &&
					src(f, x.Body.List[0]) == "c.total++" && src(f, x.Body.List[1]) == "c.mu.Unlock()" {
					limit = true
				}
			}
			return true
		})
		if rw := f.FuncDecl("pool", "DC.releaseWhenReady"); rel {
			rel = false
			if rw != nil && rw.Body != nil {
				ast.Inspect(rw.Body, func(n ast.Node) bool {
					if c, ok := n.(*ast.CommClause); ok && c.Comm != nil && src(f, c.Comm) == "<-conn.Ready()" &&
						len(c.Body) == 1 && src(f, c.Body[0]) == "c.release(conn)" {
						rel = true
					}
					return true
				})
			}
		}
		f.Bool("createCancelReleases", rel, "DC.acquire creation select: case <-ctx.Done(): c.releaseWhenReady(conn); releaseWhenReady releases on Ready")
		f.Bool("limitGuard", limit, "DC.acquire: if c.max < 1 || c.total < c.max { c.total++; c.mu.Unlock(); …")
	}
	// reqMap.transfer: send before unlock
	under := false
	if tr := f.FuncDecl("pool", "reqMap.transfer"); tr != nil && tr.Body != nil {
		send, lastUnlock := -1, -1
		for i, st := range tr.Body.List {
			if _, ok := st.(*ast.SendStmt); ok {
				send = i
			}
			if src(f, st) == "r.mux.Unlock()" {
				lastUnlock = i
			}
		}
		under = send >= 0 && send < lastUnlock
	}
	f.Bool("transferSendsUnderLock", under, "reqMap.transfer: `ch <- c` precedes the final r.mux.Unlock()")
	cap1 := false
	if rq := f.FuncDecl("pool", "reqMap.request"); rq != nil && rq.Body != nil {
		ast.Inspect(rq.Body, func(n ast.Node) bool {
			if ce, ok := n.(*ast.CallExpr); ok && src(f, ce) == "make(chan *poolConn, 1)" {
				cap1 = true
			}
			return true
		})
	}
	f.Bool("waiterChanCap1", cap1, "reqMap.request: ch = make(chan *poolConn, 1)")
	// dead(): idempotent decrement, signals dead and stuck under the mutex
	deadOK := false
	if d := f.FuncDecl("pool", "DC.dead"); d != nil && d.Body != nil {
		var order []string
		for _, st := range d.Body.List {
			s := src(f, st)
			switch {
			case strings.HasPrefix(s, "if r.deleted.Swap(true)") && strings.Contains(s, "return"):
				order = append(order, "once")
			case s == "c.mu.Lock()":
				order = append(order, "lock")
			case s == "defer c.mu.Unlock()":
				order = append(order, "unlock")
			case s == "c.total--":
				order = append(order, "dec")
			case s == "r.dead.Signal()":
				order = append(order, "signal")
			case s == "c.stuck.Reset()":
				order = append(order, "reset")
			}
		}
		deadOK = strings.Join(order, ",") == "once,lock,unlock,dec,signal,reset"
	}
	f.Bool("deadOnceUnderMu", deadOK, "DC.dead: deleted.Swap guard; Lock; defer Unlock; total--; dead.Signal(); stuck.Reset()")
	relOK := false
	if d := f.FuncDecl("pool", "DC.release"); d != nil && d.Body != nil {
		var order []string
		for _, st := range d.Body.List {
			s := src(f, st)
			switch {
			case s == "c.mu.Lock()":
				order = append(order, "lock")
			case s == "defer c.mu.Unlock()":
				order = append(order, "unlock")
			case strings.HasPrefix(s, "if c.freeReq.transfer(r)") && strings.Contains(s, "return"):
				order = append(order, "transfer")
			case s == "c.free = append(c.free, r)":
				order = append(order, "free")
			}
		}
		relOK = strings.Join(order, ",") == "lock,unlock,transfer,free"
	}
	f.Bool("releaseUnderMu", relOK, "DC.release: Lock; defer Unlock; if transfer(r) return; free = append(free, r)")
}

// sourceCreateCancelReleases tells the scheduler whether to expect a background releaser goroutine.
func sourceCreateCancelReleases(repo string) bool {
	fs := token.NewFileSet()
	af, err := parser.ParseFile(fs, filepath.Join(repo, "pool", "pool.go"), nil, 0)
	if err != nil {
		return false
	}
	found := false
	ast.Inspect(af, func(n ast.Node) bool {
		// the call site inside acquire, not just the helper's existence
		if fd, ok := n.(*ast.FuncDecl); ok && fd.Name.Name == "acquire" && fd.Body != nil {
			ast.Inspect(fd.Body, func(m ast.Node) bool {
				if ce, ok := m.(*ast.CallExpr); ok {
					if se, ok := ce.Fun.(*ast.SelectorExpr); ok && se.Sel.Name == "releaseWhenReady" {
						found = true
					}
				}
				return true
			})
		}
		return true
	})
	return found
}
