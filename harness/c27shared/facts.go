package c27shared

import (
	"fmt"
	"go/ast"
	"go/parser"
	"go/token"
	"path/filepath"
	"strings"

	"verif/harness/hc"
)

// walk visits every node with the stack of its ancestors (outermost first).
func walk(n ast.Node, f func(n ast.Node, stack []ast.Node)) {
	var stack []ast.Node
	ast.Inspect(n, func(m ast.Node) bool {
		if m == nil {
			stack = stack[:len(stack)-1]
			return true
		}
		f(m, stack)
		stack = append(stack, m)
		return true
	})
}

func src(f *hc.Facts, n ast.Node) string { return f.Src(n) }

// handoutSites counts the `return X, nil` statements of acquire and how many of them are guarded by
// c.alive(X): either an enclosing `if … c.alive(X) …` (positive) or an earlier `if !c.alive(X) { goto retry }`
// in one of the enclosing blocks / clauses.
func handoutSites(f *hc.Facts, fd *ast.FuncDecl) (sites, guarded int) {
	walk(fd.Body, func(n ast.Node, stack []ast.Node) {
		rs, ok := n.(*ast.ReturnStmt)
		if !ok || len(rs.Results) != 2 || src(f, rs.Results[1]) != "nil" {
			return
		}
		x := src(f, rs.Results[0])
		if x == "nil" {
			return
		}
		sites++
		pos := "c.alive(" + x + ")"
		neg := "!c.alive(" + x + ")"
		child := ast.Node(rs)
		for i := len(stack) - 1; i >= 0; i-- {
			var list []ast.Stmt
			switch p := stack[i].(type) {
			case *ast.IfStmt:
				if p.Body == child || containsNode(p.Body, child) {
					c := src(f, p.Cond)
					if strings.Contains(c, pos) && !strings.Contains(c, neg) && !strings.Contains(c, "||") {
						guarded++
						return
					}
				}
			case *ast.BlockStmt:
				list = p.List
			case *ast.CommClause:
				list = p.Body
			case *ast.CaseClause:
				list = p.Body
			}
			for _, st := range list {
				if st == child || containsNode(st, child) {
					break
				}
				if is, ok := st.(*ast.IfStmt); ok && src(f, is.Cond) == neg && is.Else == nil && len(is.Body.List) == 1 &&
					src(f, is.Body.List[0]) == "goto retry" {
					guarded++
					return
				}
			}
			child = stack[i]
		}
	})
	return
}

func containsNode(root, n ast.Node) bool {
	found := false
	ast.Inspect(root, func(m ast.Node) bool {
		if m == n {
			found = true
		}
		return !found
	})
	return found
}

// opList renders a regenerated operation list.
func opList(f *hc.Facts, name string, ops []int, legend string) {
	var ss []string
	for _, o := range ops {
		ss = append(ss, fmt.Sprint(o))
	}
	f.Raw("def " + name + " : List Nat := [" + strings.Join(ss, ", ") + "] -- " + legend)
}

// structuredFacts emits, for the order-sensitive parts of the pool, the sequence of operations as the
// source has them (statement order, nesting in a conditional, select case lists); the Lean model
// computes its configuration from these lists (`TdModel/Model/C27.lean`).
func structuredFacts(f *hc.Facts) {
	stmtsSrc := func(list []ast.Stmt) []string {
		var out []string
		for _, st := range list {
			if ls, ok := st.(*ast.LabeledStmt); ok {
				st = ls.Stmt
			}
			out = append(out, src(f, st))
		}
		return out
	}
	// DC.dead
	var deadOps []int
	if d := f.FuncDecl("pool", "DC.dead"); d != nil && d.Body != nil {
		for _, st := range d.Body.List {
			s := src(f, st)
			switch {
			case strings.HasPrefix(s, "if r.deleted.Swap(true)") && strings.Contains(s, "return"):
				deadOps = append(deadOps, 1)
			case s == "c.mu.Lock()":
				deadOps = append(deadOps, 2)
			case s == "defer c.mu.Unlock()":
				deadOps = append(deadOps, 3)
			case s == "c.total--":
				deadOps = append(deadOps, 4)
			case s == "r.dead.Signal()":
				deadOps = append(deadOps, 5)
			case s == "c.stuck.Reset()":
				deadOps = append(deadOps, 6)
			case strings.HasPrefix(s, "if ") && strings.Contains(s, "c.stuck.Reset()"):
				deadOps = append(deadOps, 106)
			case strings.HasPrefix(s, "if ") && strings.Contains(s, "r.dead.Signal()"):
				deadOps = append(deadOps, 105)
			case strings.HasPrefix(s, "if ") && strings.Contains(s, "c.total--"):
				deadOps = append(deadOps, 104)
			}
		}
	}
	opList(f, "deadOps", deadOps, "DC.dead top level: 1 deleted.Swap guard 2 mu.Lock 3 defer mu.Unlock 4 total-- 5 dead.Signal 6 stuck.Reset; 10x = the operation only inside a conditional")
	// DC.acquire
	var createOps, waitOps, stuckOps, createSel, waitSel []int
	if a := f.FuncDecl("pool", "DC.acquire"); a != nil && a.Body != nil {
		selCases := func(sel *ast.SelectStmt, creation bool) []int {
			var out []int
			for _, cc := range sel.Body.List {
				c := cc.(*ast.CommClause)
				body := strings.Join(stmtsSrc(c.Body), ";")
				comm := ""
				if c.Comm != nil {
					comm = src(f, c.Comm)
				}
				switch {
				case comm == "<-ctx.Done()" && creation && strings.HasPrefix(body, "c.releaseWhenReady(conn)"):
					out = append(out, 70)
				case comm == "<-ctx.Done()" && creation:
					out = append(out, 71)
				case comm == "<-ctx.Done()":
					out = append(out, 84)
				case comm == "<-c.ctx.Done()" && creation:
					out = append(out, 72)
				case comm == "<-c.ctx.Done()":
					out = append(out, 85)
				case comm == "<-conn.Ready()" && strings.Contains(body, "if !c.alive(conn) {"):
					out = append(out, 73)
				case comm == "<-conn.Ready()":
					out = append(out, 74)
				case comm == "<-conn.Dead()":
					out = append(out, 75)
				case comm == "conn := <-ch" && strings.Contains(body, "if !c.alive(conn) {"):
					out = append(out, 80)
				case comm == "conn := <-ch":
					out = append(out, 81)
				case comm == "<-c.stuck.Ready()":
					out = append(out, 83)
				case strings.HasPrefix(comm, "<-") && !strings.Contains(comm, "."):
					out = append(out, 82) // a captured channel variable
				default:
					out = append(out, 0)
				}
			}
			return out
		}
		giveup := func(list []ast.Stmt) []int {
			var out []int
			for _, st := range list {
				s := src(f, st)
				switch {
				case s == "c.freeReq.delete(key)":
					out = append(out, 40)
				case strings.HasPrefix(s, "select {") && strings.Contains(s, "<-ch"):
					out = append(out, 41)
				}
			}
			return out
		}
		for _, st := range a.Body.List {
			if ls, ok := st.(*ast.LabeledStmt); ok {
				st = ls.Stmt
			}
			s := src(f, st)
			switch x := st.(type) {
			case *ast.IfStmt:
				if src(f, x.Cond) == "c.max < 1 || c.total < c.max" {
					for _, in := range x.Body.List {
						is := src(f, in)
						switch {
						case is == "c.total++":
							createOps = append(createOps, 21)
						case is == "c.mu.Unlock()":
							createOps = append(createOps, 22)
						case is == "id := c.nextConn.Inc()":
							createOps = append(createOps, 23)
						case is == "conn := c.createConnection(id)":
							createOps = append(createOps, 24)
						}
						if sel, ok := in.(*ast.SelectStmt); ok {
							createOps = append(createOps, 25)
							createSel = selCases(sel, true)
						}
					}
				}
			case *ast.AssignStmt:
				switch s {
				case "key, ch := c.freeReq.request()":
					waitOps = append(waitOps, 30)
				case "stuck := c.stuck.Ready()":
					waitOps = append(waitOps, 31)
				}
			case *ast.ExprStmt:
				switch s {
				case "c.mu.Unlock()":
					if len(waitOps) > 0 {
						waitOps = append(waitOps, 32)
					}
				case "c.freeReq.delete(key)":
					waitOps = append(waitOps, 40)
				}
			case *ast.SelectStmt:
				if strings.Contains(s, "case conn := <-ch:") {
					waitOps = append(waitOps, 33)
					waitSel = selCases(x, false)
					for _, cc := range x.Body.List {
						c := cc.(*ast.CommClause)
						if c.Comm != nil && (src(f, c.Comm) == "<-stuck" || src(f, c.Comm) == "<-c.stuck.Ready()") {
							stuckOps = giveup(c.Body)
						}
					}
				} else if strings.Contains(s, "<-ch") {
					waitOps = append(waitOps, 41)
				}
			}
		}
	}
	opList(f, "acqCreateOps", createOps, "acquire, body of `if c.max < 1 || c.total < c.max`: 21 total++ 22 mu.Unlock 23 nextConn.Inc 24 createConnection 25 select")
	opList(f, "acqCreateSelect", createSel, "creation select cases: 70 ctx.Done→releaseWhenReady 71 ctx.Done (plain return) 72 c.ctx.Done 73 Ready+alive check 74 Ready (no check) 75 Dead")
	opList(f, "acqWaitOps", waitOps, "acquire, third case, top level: 30 freeReq.request 31 stuck := c.stuck.Ready() 32 mu.Unlock 33 select 40 freeReq.delete 41 non-blocking poll of ch")
	opList(f, "acqWaitSelect", waitSel, "waiter select cases: 80 ch+alive check 81 ch (no check) 82 captured stuck channel 83 c.stuck.Ready() evaluated in the select 84 ctx.Done 85 c.ctx.Done")
	opList(f, "acqStuckOps", stuckOps, "stuck branch: 40 freeReq.delete 41 non-blocking poll of ch")
	var ccOps []int
	if cc := f.FuncDecl("pool", "DC.createConnection"); cc != nil && cc.Body != nil {
		for _, st := range cc.Body.List {
			s := src(f, st)
			switch {
			case s == "c.total++":
				ccOps = append(ccOps, 21)
			case s == "c.mu.Lock()":
				ccOps = append(ccOps, 2)
			case strings.HasPrefix(s, "c.grp.Go("):
				ccOps = append(ccOps, 26)
			}
		}
	}
	opList(f, "createConnOps", ccOps, "createConnection top level: 2 mu.Lock 21 total++ 26 grp.Go(Run)")
	var trOps []int
	if tr := f.FuncDecl("pool", "reqMap.transfer"); tr != nil && tr.Body != nil {
		for _, st := range tr.Body.List {
			s := src(f, st)
			switch {
			case s == "r.mux.Lock()":
				trOps = append(trOps, 50)
			case s == "delete(r.m, k)":
				trOps = append(trOps, 51)
			case s == "ch <- c":
				trOps = append(trOps, 52)
			case s == "close(ch)":
				trOps = append(trOps, 53)
			case s == "r.mux.Unlock()":
				trOps = append(trOps, 54)
			}
		}
	}
	opList(f, "transferOps", trOps, "reqMap.transfer top level: 50 mux.Lock 51 delete(r.m,k) 52 ch <- c 53 close(ch) 54 mux.Unlock")
	var bgOps []int
	if rw := f.FuncDecl("pool", "DC.releaseWhenReady"); rw != nil && rw.Body != nil {
		ast.Inspect(rw.Body, func(n ast.Node) bool {
			c, ok := n.(*ast.CommClause)
			if !ok || c.Comm == nil || src(f, c.Comm) != "<-conn.Ready()" {
				return true
			}
			for _, st := range c.Body {
				s := src(f, st)
				switch {
				case s == "c.release(conn)":
					bgOps = append(bgOps, 60)
				case strings.Contains(s, "c.free = append(c.free"):
					bgOps = append(bgOps, 61)
				case s == "c.mu.Lock()" || s == "c.mu.Unlock()":
					bgOps = append(bgOps, 2)
				}
			}
			return false
		})
	}
	opList(f, "bgReadyOps", bgOps, "releaseWhenReady, case <-conn.Ready(): 60 c.release(conn) 61 c.free = append(c.free, …) 2 mu.Lock/Unlock")
}

func poolFacts(f *hc.Facts) {
	structuredFacts(f)
	acq := f.FuncDecl("pool", "DC.acquire")
	if acq == nil || acq.Body == nil {
		for _, n := range []string{"handoutSites", "guardedHandoutSites", "stuckCapturedUnderMu", "createCancelReleases", "limitGuard", "aliveChecksDead"} {
			f.Missing(n, "DC.acquire not found")
		}
	} else {
		s, g := handoutSites(f, acq)
		f.Nat("handoutSites", s, "DC.acquire: number of `return <conn>, nil` statements")
		f.Nat("guardedHandoutSites", g, "…of which are guarded by c.alive(<conn>)")
		// alive(): select { case <-r.Dead(): c.dead(r, nil); return false; default: return true }
		aliveOK := false
		if al := f.FuncDecl("pool", "DC.alive"); al != nil && al.Body != nil && len(al.Body.List) == 1 {
			if sel, ok := al.Body.List[0].(*ast.SelectStmt); ok && len(sel.Body.List) == 2 {
				var dead, def bool
				for _, cc := range sel.Body.List {
					c := cc.(*ast.CommClause)
					body := ""
					for _, st := range c.Body {
						body += src(f, st) + ";"
					}
					if c.Comm == nil {
						def = body == "return true;"
					} else if src(f, c.Comm) == "<-r.Dead()" {
						dead = strings.HasSuffix(body, "return false;")
					}
				}
				aliveOK = dead && def
			}
		}
		f.Bool("aliveChecksDead", aliveOK, "DC.alive: select { case <-r.Dead(): …; return false; default: return true }")
		// stuck captured before the unlock that precedes the third-case select
		captured := false
		for i, st := range acq.Body.List {
			as, ok := st.(*ast.AssignStmt)
			if !ok || len(as.Rhs) != 1 || src(f, as.Rhs[0]) != "c.stuck.Ready()" || len(as.Lhs) != 1 {
				continue
			}
			name := src(f, as.Lhs[0])
			if i+1 < len(acq.Body.List) && src(f, acq.Body.List[i+1]) == "c.mu.Unlock()" {
				uses, calls := false, 0
				ast.Inspect(acq.Body, func(n ast.Node) bool {
					if cc, ok := n.(*ast.CommClause); ok && cc.Comm != nil && src(f, cc.Comm) == "<-"+name {
						uses = true
					}
					if ce, ok := n.(*ast.CallExpr); ok && src(f, ce) == "c.stuck.Ready()" {
						calls++
					}
					return true
				})
				captured = uses && calls == 1
			}
		}
		f.Bool("stuckCapturedUnderMu", captured, "DC.acquire: x := c.stuck.Ready() right before c.mu.Unlock(); the select waits on x; no other c.stuck.Ready() call")
		// creation select: the ctx.Done clause hands the connection to releaseWhenReady
		rel := false
		limit := false
		ast.Inspect(acq.Body, func(n ast.Node) bool {
			switch x := n.(type) {
			case *ast.SelectStmt:
				hasReady := false
				for _, cc := range x.Body.List {
					c := cc.(*ast.CommClause)
					if c.Comm != nil && src(f, c.Comm) == "<-conn.Ready()" {
						hasReady = true
					}
				}
				if hasReady {
					for _, cc := range x.Body.List {
						c := cc.(*ast.CommClause)
						if c.Comm != nil && src(f, c.Comm) == "<-ctx.Done()" && len(c.Body) >= 1 && src(f, c.Body[0]) == "c.releaseWhenReady(conn)" {
							rel = true
						}
					}
				}
			case *ast.IfStmt:
				if src(f, x.Cond) == "c.max < 1 || c.total < c.max" && len(x.Body.List) >= 2 &&
					src(f, x.Body.List[0]) == "c.total++" && src(f, x.Body.List[1]) == "c.mu.Unlock()" {
					limit = true
				}
			}
			return true
		})
		if rw := f.FuncDecl("pool", "DC.releaseWhenReady"); rel {
			rel = false
			if rw != nil && rw.Body != nil {
				ast.Inspect(rw.Body, func(n ast.Node) bool {
					if c, ok := n.(*ast.CommClause); ok && c.Comm != nil && src(f, c.Comm) == "<-conn.Ready()" &&
						len(c.Body) == 1 && src(f, c.Body[0]) == "c.release(conn)" {
						rel = true
					}
					return true
				})
			}
		}
		f.Bool("createCancelReleases", rel, "DC.acquire creation select: case <-ctx.Done(): c.releaseWhenReady(conn); releaseWhenReady releases on Ready")
		f.Bool("limitGuard", limit, "DC.acquire: if c.max < 1 || c.total < c.max { c.total++; c.mu.Unlock(); …")
	}
	// reqMap.transfer: send before unlock
	under := false
	if tr := f.FuncDecl("pool", "reqMap.transfer"); tr != nil && tr.Body != nil {
		send, lastUnlock := -1, -1
		for i, st := range tr.Body.List {
			if _, ok := st.(*ast.SendStmt); ok {
				send = i
			}
			if src(f, st) == "r.mux.Unlock()" {
				lastUnlock = i
			}
		}
		under = send >= 0 && send < lastUnlock
	}
	f.Bool("transferSendsUnderLock", under, "reqMap.transfer: `ch <- c` precedes the final r.mux.Unlock()")
	cap1 := false
	if rq := f.FuncDecl("pool", "reqMap.request"); rq != nil && rq.Body != nil {
		ast.Inspect(rq.Body, func(n ast.Node) bool {
			if ce, ok := n.(*ast.CallExpr); ok && src(f, ce) == "make(chan *poolConn, 1)" {
				cap1 = true
			}
			return true
		})
	}
	f.Bool("waiterChanCap1", cap1, "reqMap.request: ch = make(chan *poolConn, 1)")
	// dead(): idempotent decrement, signals dead and stuck under the mutex
	deadOK := false
	if d := f.FuncDecl("pool", "DC.dead"); d != nil && d.Body != nil {
		var order []string
		for _, st := range d.Body.List {
			s := src(f, st)
			switch {
			case strings.HasPrefix(s, "if r.deleted.Swap(true)") && strings.Contains(s, "return"):
				order = append(order, "once")
			case s == "c.mu.Lock()":
				order = append(order, "lock")
			case s == "defer c.mu.Unlock()":
				order = append(order, "unlock")
			case s == "c.total--":
				order = append(order, "dec")
			case s == "r.dead.Signal()":
				order = append(order, "signal")
			case s == "c.stuck.Reset()":
				order = append(order, "reset")
			}
		}
		deadOK = strings.Join(order, ",") == "once,lock,unlock,dec,signal,reset"
	}
	f.Bool("deadOnceUnderMu", deadOK, "DC.dead: deleted.Swap guard; Lock; defer Unlock; total--; dead.Signal(); stuck.Reset()")
	relOK := false
	if d := f.FuncDecl("pool", "DC.release"); d != nil && d.Body != nil {
		var order []string
		for _, st := range d.Body.List {
			s := src(f, st)
			switch {
			case s == "c.mu.Lock()":
				order = append(order, "lock")
			case s == "defer c.mu.Unlock()":
				order = append(order, "unlock")
			case strings.HasPrefix(s, "if c.freeReq.transfer(r)") && strings.Contains(s, "return"):
				order = append(order, "transfer")
			case s == "c.free = append(c.free, r)":
				order = append(order, "free")
			}
		}
		relOK = strings.Join(order, ",") == "lock,unlock,transfer,free"
	}
	f.Bool("releaseUnderMu", relOK, "DC.release: Lock; defer Unlock; if transfer(r) return; free = append(free, r)")
}

// sourceCreateCancelReleases tells the scheduler whether to expect a background releaser goroutine.
func sourceCreateCancelReleases(repo string) bool {
	fs := token.NewFileSet()
	af, err := parser.ParseFile(fs, filepath.Join(repo, "pool", "pool.go"), nil, 0)
	if err != nil {
		return false
	}
	found := false
	ast.Inspect(af, func(n ast.Node) bool {
		// the call site inside acquire, not just the helper's existence
		if fd, ok := n.(*ast.FuncDecl); ok && fd.Name.Name == "acquire" && fd.Body != nil {
			ast.Inspect(fd.Body, func(m ast.Node) bool {
				if ce, ok := m.(*ast.CallExpr); ok {
					if se, ok := ce.Fun.(*ast.SelectorExpr); ok && se.Sel.Name == "releaseWhenReady" {
						found = true
					}
				}
				return true
			})
		}
		return true
	})
	return found
}
