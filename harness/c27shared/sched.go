// Package c27shared is the common harness of C27 (pool limit / exclusivity / no dead hand-out) and
// C28 (pool never loses capacity): a scheduler that serialises the goroutines of one pool.DC at the
// verif scheduling points of /repo/pool (exactly one goroutine runs between two points), fake
// pool.Conn objects whose readiness and death the scheduler controls, a property monitor over the
// observed pool state, and the construction of the model trace that the Lean driver replays.
package c27shared

import (
	"context"
	"errors"
	"fmt"
	"os"
	"runtime"
	"sort"
	"strconv"
	"strings"
	"sync"
	"sync/atomic"
	"time"

	"github.com/gotd/log"

	"github.com/gotd/td/bin"
	"github.com/gotd/td/pool"
)

// Watchdogs decide only after a long real-time wait (the machine may be heavily loaded); every other
// decision is taken on events at scheduling points.  After a few genuine hangs the patience is
// shortened so that a broken implementation does not make the run take hours.
var slowFailures atomic.Int64

func Patience() time.Duration {
	if slowFailures.Load() >= 3 {
		// the verdict is settled (three genuine hangs with the long watchdog): the rest of the run only
		// has to terminate
		return 100 * time.Millisecond
	}
	return 30 * time.Second
}

func goid() int64 {
	var buf [64]byte
	n := runtime.Stack(buf[:], false)
	s := strings.TrimPrefix(string(buf[:n]), "goroutine ")
	if i := strings.IndexByte(s, ' '); i > 0 {
		s = s[:i]
	}
	id, _ := strconv.ParseInt(s, 10, 64)
	return id
}

// one global hook; runs are found by the owner pointer (the *DC or its reqMap)
var (
	ownersMu sync.RWMutex
	owners   = map[any]*Run{}
	hookOnce sync.Once
)

func installHook() {
	hookOnce.Do(func() {
		pool.VerifC27SetHook(func(owner any, point string, args ...any) {
			ownersMu.RLock()
			r := owners[owner]
			ownersMu.RUnlock()
			if r != nil {
				r.hook(point, args)
			}
		})
	})
}

const (
	gCaller = iota
	gConn
	gBg
)

const (
	stRunning = iota
	stYield
	stDone
	stBlocked // blocked for real on the pool mutex, which a goroutine parked at "mu.held" holds
)

// G is a managed goroutine.
type G struct {
	kind  int
	idx   int // caller index, or connection id (Go id, 1-based) for conn / bg goroutines
	state int
	goid  int64
	point string
	args  []any
	wake  chan string

	ctx       context.Context
	cancel    context.CancelFunc
	cancelled bool
	result    string
	conn      int64 // connection held (check / create / inv points), Go id
	key       int64 // waiter key (wait / giveup / xfer points)
	ch        any   // waiter channel
	why       string
	xconn     int64 // connection being transferred while paused at xfer.send
	lastFake  int64 // fake connection most recently constructed on this goroutine
}

type fakeConn struct {
	r        *Run
	id       int64
	ready    chan struct{}
	isReady  bool
	exited   bool
	failedInvoke bool // an Invoke on this connection has returned ErrConnDead to the pool
	pc       any // *poolConn once seen at a scheduling point
	invoking int
}

// Run is one scheduled execution of a pool.
type Run struct {
	max      int64
	dc       *pool.DC
	dcCancel context.CancelFunc

	mu      sync.Mutex
	running int
	aborted bool
	gs      []*G
	byGoid  map[int64]*G
	callers []*G
	conns   []*fakeConn // index = Go id - 1
	bgs     map[int64]*G

	inbox map[int64]int64 // waiter key -> connection id sitting in its channel
	chans map[int64]any   // every waiter channel ever seen, by key (stays after the waiter left)
	poolID map[int64]int64 // pool connection id -> fake connection id (creation order, 1-based)

	// lock-held pauses (Config.LockYield > 0): the debug lines that the pool writes INSIDE a critical section
	// of its mutex ("Connection released", "Transfer connection to requester", "Connection died") park the
	// goroutine while it holds the mutex; goroutines granted meanwhile may block on the mutex for real
	// (detected from their stacks) and continue when the holder is released ("ul").  Such runs exhibit
	// check-then-lock windows; they have no model trace and only the monitors that do not depend on the
	// harness's step bookkeeping are evaluated.
	lockYield  int // remaining pauses
	noModel    bool
	holder     *G
	deadPending map[int64]bool // connections whose dead() was started (conn goroutine or a retrying caller) during the current pause

	expectBg bool // the source releases a connection in the background when its creator gives up
	dcClosed bool // DC.Close was called by the scheduler

	hung       bool
	hasXfer    bool // a pre-fix "xfer.send" step happened: the trace has no model counterpart
	trace      []string
	sums       []string
	fails      [][2]string
	handouts   int
	transfers  int
	kinds      map[string]int
	leaked     map[int64]bool
}

// yieldLogger is the pool's logger: the debug line that acquire writes between releasing the pool
// mutex after the waiter registration and entering its select is used as a scheduling point
// ("acq.registered"), so that a connection death can be scheduled exactly there without a call site in
// the source.  (Only lines known to be written outside the pool mutex may yield.)
type yieldLogger struct{ r *Run }

func (yieldLogger) Enabled(context.Context, log.Level) bool { return true }

func (l yieldLogger) Log(ctx context.Context, _ log.Level, msg string, attrs ...log.Attr) {
	switch msg {
	case "Connection released", "Transfer connection to requester", "Connection died":
		l.r.lockPoint()
		return
	}
	if msg != "Waiting for free connect" {
		return
	}
	var key int64 = -1
	for _, a := range attrs {
		if a.Key == "request_id" {
			key = a.Value.Int64()
		}
	}
	if key < 0 {
		return
	}
	l.r.logPoint(key)
}

// logPoint parks the calling goroutine (if it is a managed caller) at the pseudo point acq.registered.
func (r *Run) logPoint(key int64) {
	id := goid()
	r.mu.Lock()
	if r.aborted {
		r.mu.Unlock()
		return
	}
	g := r.byGoid[id]
	if g == nil || g.kind != gCaller {
		r.mu.Unlock()
		return
	}
	g.key = key
	g.ch = pool.VerifC27WaiterChan(r.dc, key)
	if g.ch != nil {
		r.chans[key] = g.ch
	}
	r.mu.Unlock()
	r.yield(g, "acq.registered", nil)
}

// lockPoint parks the calling managed goroutine while it holds the pool mutex (only in lock-yield runs).
func (r *Run) lockPoint() {
	id := goid()
	r.mu.Lock()
	g := r.byGoid[id]
	if r.aborted || g == nil || g.state != stRunning || r.lockYield <= 0 || r.holder != nil {
		r.mu.Unlock()
		return
	}
	r.lockYield--
	r.holder = g
	r.mu.Unlock()
	r.yield(g, "mu.held", nil)
}

// blockedOnPoolMutex: which of the goroutines `ids` are blocked in sync.Mutex.Lock called directly from a
// method of pool.DC (taken from the runtime's stack dump: a deterministic test, no timing involved).
func blockedOnPoolMutex(ids map[int64]bool) map[int64]bool {
	buf := make([]byte, 1<<20)
	n := runtime.Stack(buf, true)
	res := map[int64]bool{}
	for _, blk := range strings.Split(string(buf[:n]), "\n\n") {
		if !strings.HasPrefix(blk, "goroutine ") {
			continue
		}
		lines := strings.Split(blk, "\n")
		f := strings.Fields(lines[0])
		if len(f) < 3 {
			continue
		}
		id, _ := strconv.ParseInt(f[1], 10, 64)
		if !ids[id] || !(strings.Contains(lines[0], "[sync.Mutex.Lock") || strings.Contains(lines[0], "[semacquire")) {
			continue
		}
		for i, ln := range lines {
			if strings.HasPrefix(ln, "sync.(*Mutex).Lock(") && i+2 < len(lines) && strings.HasPrefix(lines[i+2], "github.com/gotd/td/pool.(*DC).") {
				res[id] = true
			}
		}
	}
	return res
}

var errRetryable = fmt.Errorf("fake: %w", pool.ErrConnDead)
var errOther = errors.New("fake: rpc error")

func (c *fakeConn) Run(ctx context.Context) error {
	r := c.r
	g := &G{kind: gConn, idx: int(c.id), wake: make(chan string, 1), state: stRunning}
	r.register(g)
	for {
		switch r.yield(g, "conn.run", nil) {
		case "ready":
			if !c.isReady {
				c.isReady = true
				close(c.ready)
			}
		case "die":
			c.exited = true
			r.finishWhenDead(g, c)
			return errors.New("fake: connection died")
		case "abort":
			c.exited = true
			r.finish(g)
			return ctx.Err()
		}
	}
}

func (c *fakeConn) Invoke(ctx context.Context, input bin.Encoder, output bin.Decoder) error {
	r := c.r
	g := r.me()
	if g == nil {
		return errors.New("fake: Invoke from an unknown goroutine")
	}
	r.mu.Lock()
	c.invoking++
	if c.invoking > 1 {
		r.failLocked("shared-conn", fmt.Sprintf("connection %d is inside Invoke for %d callers at once", c.id-1, c.invoking))
	}
	if c.failedInvoke {
		r.failLocked("handout-dead", fmt.Sprintf("connection %d is invoked by caller %d although an earlier Invoke on it had returned ErrConnDead to the pool (it was handed out again instead of being dropped)", c.id-1, g.idx))
	}
	g.conn = c.id
	r.mu.Unlock()
	what := r.yield(g, "inv", nil)
	r.mu.Lock()
	c.invoking--
	r.mu.Unlock()
	switch what {
	case "ok":
		return nil
	case "retry":
		if g.ctx.Err() == nil {
			// (a cancelled caller does not retry: DC.Invoke releases the connection like after any error and
			// leaves the bookkeeping of its death to the connection's own goroutine)
			r.mu.Lock()
			c.failedInvoke = true
			r.mu.Unlock()
		}
		return errRetryable
	case "abort":
		return context.Canceled
	}
	return errOther
}

func (c *fakeConn) Ping(ctx context.Context) error { return nil }
func (c *fakeConn) Ready() <-chan struct{}         { return c.ready }

func NewRun(max int64, ncallers int, expectBg bool) *Run {
	installHook()
	r := &Run{max: max, byGoid: map[int64]*G{}, bgs: map[int64]*G{}, inbox: map[int64]int64{}, chans: map[int64]any{}, poolID: map[int64]int64{}, kinds: map[string]int{}, leaked: map[int64]bool{},
		expectBg: expectBg}
	ctx, cancel := context.WithCancel(context.Background())
	r.dcCancel = cancel
	r.dc = pool.NewDC(ctx, 2, r.newConn, pool.DCOptions{MaxOpenConnections: max, Logger: yieldLogger{r}})
	ownersMu.Lock()
	owners[r.dc] = r
	owners[pool.VerifC27ReqMap(r.dc)] = r
	ownersMu.Unlock()
	for i := 0; i < ncallers; i++ {
		g := &G{kind: gCaller, idx: i, wake: make(chan string, 1), state: stRunning}
		g.ctx, g.cancel = context.WithCancel(context.Background())
		r.callers = append(r.callers, g)
		r.mu.Lock()
		r.running++
		r.mu.Unlock()
		go func() {
			r.register(g)
			if r.yield(g, "caller.idle", nil) == "abort" {
				r.finish(g)
				return
			}
			defer func() {
				if p := recover(); p != nil {
					r.fail("pool-panic", fmt.Sprintf("DC.Invoke of caller %d panicked: %v", g.idx, p))
					r.finish(g)
				}
			}()
			err := r.dc.Invoke(g.ctx, nil, nil)
			r.mu.Lock()
			if err == nil {
				g.result = "ok"
			} else {
				g.result = "err:" + err.Error()
			}
			r.mu.Unlock()
			r.finish(g)
		}()
	}
	return r
}

// Close releases everything that is still parked.
func (r *Run) Close() {
	r.mu.Lock()
	r.aborted = true
	var parked []*G
	for _, g := range r.gs {
		if g.state == stYield {
			g.state = stRunning
			parked = append(parked, g)
		}
	}
	r.mu.Unlock()
	for _, g := range r.callers {
		g.cancel()
	}
	r.dcCancel()
	for _, g := range parked {
		g.wake <- "abort"
	}
	ownersMu.Lock()
	delete(owners, r.dc)
	delete(owners, pool.VerifC27ReqMap(r.dc))
	ownersMu.Unlock()
}

// newConn is the pool's connection constructor; it runs on the acquiring caller's goroutine.
func (r *Run) newConn() pool.Conn {
	r.mu.Lock()
	defer r.mu.Unlock()
	c := &fakeConn{r: r, id: int64(len(r.conns) + 1), ready: make(chan struct{})}
	r.conns = append(r.conns, c)
	if g := r.byGoid[goid()]; g != nil {
		g.lastFake = c.id
	}
	if !r.aborted {
		r.running++ // the Run goroutine that createConnection is about to start
	}
	return c
}

func (r *Run) register(g *G) {
	r.mu.Lock()
	g.goid = goid()
	r.byGoid[g.goid] = g
	r.gs = append(r.gs, g)
	r.mu.Unlock()
}

func (r *Run) me() *G {
	id := goid()
	r.mu.Lock()
	defer r.mu.Unlock()
	return r.byGoid[id]
}

func (r *Run) yield(g *G, point string, args []any) string {
	r.mu.Lock()
	if r.aborted {
		r.mu.Unlock()
		return "abort"
	}
	g.state = stYield
	g.point = point
	g.args = args
	r.running--
	r.mu.Unlock()
	return <-g.wake
}

func (r *Run) finish(g *G) {
	r.mu.Lock()
	if g.state != stDone {
		g.state = stDone
		g.point = "done"
		if !r.aborted {
			r.running--
		}
	}
	r.mu.Unlock()
}

// finishWhenDead: the deferred c.dead(conn, err) of createConnection runs on the connection's
// goroutine right after Run returns; the goroutine counts as finished once the pool's dead flag is
// set and the pool mutex has been released again.
func (r *Run) finishWhenDead(g *G, c *fakeConn) {
	if r.noModel {
		// lock-yield run: dead() may block on the pool mutex (the scheduler notices: stBlocked), be parked
		// inside its critical section (stYield at "mu.held"), or return at once because another goroutine
		// is already marking the connection (then the goroutine simply ends)
		go func() {
			for n := 0; ; n++ {
				r.mu.Lock()
				st, ab := g.state, r.aborted
				r.mu.Unlock()
				if ab {
					break
				}
				// (the pool's dead flag is no criterion here: dead() sets it before its debug line, where the
				// goroutine may still be parked inside the critical section)
				if st == stRunning && n%4 == 3 && !goroutineExists(g.goid) {
					break
				}
				if n < 20 {
					runtime.Gosched()
				} else {
					time.Sleep(20 * time.Microsecond)
				}
			}
			r.finish(g)
		}()
		return
	}
	go func() {
		deadline := time.Now().Add(Patience())
		for time.Now().Before(deadline) {
			if _, dead, ok := pool.VerifC27Conn(c.pc); ok && dead {
				break
			}
			runtime.Gosched()
		}
		pool.VerifC27Sync(r.dc)
		r.finish(g)
	}()
}

func goroutineExists(id int64) bool {
	buf := make([]byte, 1<<20)
	n := runtime.Stack(buf, true)
	return strings.Contains(string(buf[:n]), fmt.Sprintf("goroutine %d [", id))
}

// hook is called by pool code at a scheduling point, on the goroutine that reached it.
func (r *Run) hook(point string, args []any) {
	id := goid()
	r.mu.Lock()
	if r.aborted {
		r.mu.Unlock()
		return
	}
	g := r.byGoid[id]
	if g == nil && point == "bg.wait" {
		cid, _, _ := pool.VerifC27Conn(args[0])
		cid = r.fakeOf(cid)
		g = &G{kind: gBg, idx: int(cid), wake: make(chan string, 1), state: stRunning, goid: id}
		r.byGoid[id] = g
		r.gs = append(r.gs, g)
		r.bgs[cid] = g
		r.running++
	}
	if g == nil {
		r.mu.Unlock()
		return // not a managed goroutine
	}
	switch point {
	case "bg.done":
		r.mu.Unlock()
		r.finish(g)
		return
	case "acq.create":
		// the pool numbers connections when the slot is reserved, the harness (like the model) when the
		// connection is created: learn the correspondence here
		if pid, _, ok := pool.VerifC27Conn(args[0]); ok && g.lastFake > 0 {
			r.poolID[pid] = g.lastFake
			g.conn = g.lastFake
			r.conns[g.lastFake-1].pc = args[0]
		}
	case "acq.check":
		if pid, _, ok := pool.VerifC27Conn(args[0]); ok {
			g.conn = r.fakeOf(pid)
			if g.conn > 0 && int(g.conn) <= len(r.conns) {
				r.conns[g.conn-1].pc = args[0]
			}
		}
	case "acq.wait":
		g.key, _ = pool.VerifC27Key(args[0])
		g.ch = args[1]
		r.chans[g.key] = g.ch
	case "acq.giveup":
		g.key, _ = pool.VerifC27Key(args[0])
		g.why, _ = args[1].(string)
	case "xfer.send":
		g.key, _ = pool.VerifC27Key(args[0])
	}
	r.mu.Unlock()
	r.yield(g, point, args)
}

// fakeOf translates a pool connection id (locked: r.mu held by the caller or quiescent).
func (r *Run) fakeOf(pid int64) int64 {
	if f, ok := r.poolID[pid]; ok {
		return f
	}
	return pid
}

// waitQuiet blocks until no managed goroutine is running.
func (r *Run) waitQuiet(d time.Duration) bool {
	deadline := time.Time{}
	for spins := 0; ; spins++ {
		r.mu.Lock()
		n := r.running
		held := r.holder != nil
		r.mu.Unlock()
		if n <= 0 {
			return true
		}
		if held && spins >= 40 && spins%10 == 0 {
			// a parked goroutine holds the pool mutex: the running ones may be blocked on it for real
			r.mu.Lock()
			ids := map[int64]bool{}
			for _, g := range r.gs {
				if g.state == stRunning && g.goid != 0 {
					ids[g.goid] = true
				}
			}
			r.mu.Unlock()
			bl := blockedOnPoolMutex(ids)
			r.mu.Lock()
			if len(bl) > 0 && len(bl) == r.running {
				for _, g := range r.gs {
					if g.state == stRunning && bl[g.goid] {
						g.state = stBlocked
						r.running--
					}
				}
			}
			quiet := r.running <= 0
			r.mu.Unlock()
			if quiet {
				return true
			}
		}
		if spins < 200 {
			runtime.Gosched()
			continue
		}
		if deadline.IsZero() {
			deadline = time.Now().Add(d)
		} else if time.Now().After(deadline) {
			if os.Getenv("VERIF_DEBUG") != "" {
				buf := make([]byte, 1<<20)
				nb := runtime.Stack(buf, true)
				r.mu.Lock()
				fmt.Fprintf(os.Stderr, "c27 debug: waitQuiet timed out: running=%d holder=%v\n", r.running, r.holder != nil)
				for _, g := range r.gs {
					fmt.Fprintf(os.Stderr, "  g kind=%d idx=%d state=%d point=%s goid=%d\n", g.kind, g.idx, g.state, g.point, g.goid)
				}
				r.mu.Unlock()
				fmt.Fprintf(os.Stderr, "%s\n", buf[:nb])
			}
			return false
		}
		time.Sleep(20 * time.Microsecond)
	}
}

func (r *Run) grant(g *G, what string) {
	r.mu.Lock()
	g.state = stRunning
	r.running++
	r.mu.Unlock()
	g.wake <- what
}

func (r *Run) failLocked(key, detail string) { r.fails = append(r.fails, [2]string{key, detail}) }
func (r *Run) fail(key, detail string) {
	r.mu.Lock()
	r.failLocked(key, detail)
	r.mu.Unlock()
}

// ---------------------------------------------------------------------------------------------
// observation of the implementation state (only at quiescence)

func closed(ch <-chan struct{}) bool {
	select {
	case <-ch:
		return true
	default:
		return false
	}
}

func (r *Run) connDead(id int64) bool {
	c := r.conns[id-1]
	if c.pc == nil {
		return false
	}
	_, dead, _ := pool.VerifC27Conn(c.pc)
	return dead
}

type obs struct {
	total   int64
	free    []int64
	reqs    []int64
	inbox   [][2]int64
	pcs     []string
	conns   []string
	summary string
}

func joinIDs(xs []int64) string {
	var b strings.Builder
	for i, x := range xs {
		if i > 0 {
			b.WriteByte(',')
		}
		fmt.Fprintf(&b, "%d", x-1)
	}
	return b.String()
}

func (r *Run) observe() obs { return r.observeC(true) }

func (r *Run) observeC(check bool) obs {
	var o obs
	sn := pool.VerifC27Snapshot(r.dc)
	o.total = sn.Total
	for _, pid := range sn.Free {
		o.free = append(o.free, r.fakeOf(pid))
	}
	o.reqs = append([]int64(nil), sn.Reqs...)
	sort.Slice(o.reqs, func(i, j int) bool { return o.reqs[i] < o.reqs[j] })
	r.mu.Lock()
	chans := make(map[int64]any, len(r.chans))
	for k, ch := range r.chans {
		chans[k] = ch
	}
	r.mu.Unlock()
	for k, ch := range chans {
		n := pool.VerifC27ChanLen(ch)
		_, have := r.inbox[k]
		if n == 0 && have {
			delete(r.inbox, k) // received (or polled) by somebody
		}
		if check && n == 1 && !have {
			r.fail("harness-inbox-bookkeeping", fmt.Sprintf("waiter key %d: a connection is in its channel but no transfer to it was observed", k-1))
		}
	}
	for k, c := range r.inbox {
		o.inbox = append(o.inbox, [2]int64{k, c})
	}
	sort.Slice(o.inbox, func(i, j int) bool { return o.inbox[i][0] < o.inbox[j][0] })
	for _, g := range r.callers {
		pc := r.pcOf(g)
		if g.cancelled {
			pc += "!"
		}
		o.pcs = append(o.pcs, pc)
	}
	for _, c := range r.conns {
		s := "l"
		if r.connDead(c.id) {
			s = "d"
		}
		if c.isReady {
			s += "r"
		} else {
			s += "n"
		}
		r.mu.Lock()
		bg := r.bgs[c.id]
		bgParked := bg != nil && bg.state == stYield
		r.mu.Unlock()
		if bgParked {
			s += "o"
		} else {
			s += "-"
		}
		o.conns = append(o.conns, s)
	}
	var b strings.Builder
	fmt.Fprintf(&b, "t%d f%s r%s x", o.total, joinIDs(o.free), joinIDs(o.reqs))
	for i, x := range o.inbox {
		if i > 0 {
			b.WriteByte(',')
		}
		fmt.Fprintf(&b, "%d:%d", x[0]-1, x[1]-1)
	}
	b.WriteString(" p" + strings.Join(o.pcs, ";"))
	b.WriteString(" c" + strings.Join(o.conns, ";"))
	if sn.Closed {
		b.WriteString(" z1")
	} else {
		b.WriteString(" z0")
	}
	o.summary = b.String()
	return o
}

func (r *Run) pcOf(g *G) string {
	switch g.state {
	case stDone:
		return "D"
	case stRunning:
		return "?"
	}
	switch g.point {
	case "caller.idle":
		return "I"
	case "acq.start":
		return "S"
	case "acq.check":
		return fmt.Sprintf("C%d", g.conn-1)
	case "acq.create":
		return fmt.Sprintf("N%d", g.conn-1)
	case "acq.reserved":
		return "R"
	case "acq.wait", "acq.registered":
		return fmt.Sprintf("W%d", g.key-1)
	case "acq.giveup":
		return fmt.Sprintf("G%d%s", g.key-1, g.why[:1])
	case "inv":
		return fmt.Sprintf("U%d", g.conn-1)
	case "xfer.send":
		return fmt.Sprintf("X%d", g.key-1)
	}
	return "?" + g.point
}

// ---------------------------------------------------------------------------------------------
// enabled actions

type choice struct {
	g    *G     // goroutine to grant (nil for pure environment actions)
	what string // command passed to the goroutine
	act  string // st en ck cw ww gu fi rd di ca bg xs
	idx  int
	w    int
}

func (c choice) String() string {
	if c.what == "" || c.what == "go" {
		return fmt.Sprintf("%s:%d", c.act, c.idx)
	}
	return fmt.Sprintf("%s:%d:%s", c.act, c.idx, c.what)
}

// Weights steer the random scheduler.
type Weights struct{ Step, Ready, Die, Cancel, FinOK, FinErr, FinRetry int }

// Budget bounds the environment's interference within one run.
type Budget struct{ Cancel, Die, Retry, Close int }

func (r *Run) waitReady(g *G) bool {
	if g.ctx.Err() != nil || r.dcClosed {
		return true
	}
	if pool.VerifC27ChanLen(g.ch) > 0 {
		return true
	}
	// the stuck channel the select will wait on: passed by the hook when the source captures it under
	// the pool mutex (args[2]); otherwise whatever c.stuck.Ready() returns when the select is entered
	if len(g.args) >= 3 {
		if ch, ok := g.args[2].(<-chan struct{}); ok {
			return closed(ch)
		}
	}
	return closed(pool.VerifC27Stuck(r.dc))
}

func (r *Run) enabled(w Weights, b *Budget) []choice {
	var out []choice
	muHeld := false
	for _, g := range r.callers {
		if g.state == stYield && g.point == "xfer.send" {
			muHeld = true
		}
	}
	if h := r.holder; h != nil && h.state == stYield && h.point == "mu.held" {
		out = append(out, choice{h, "go", "ul", h.idx, 2 * w.Step})
	}
	for _, g := range r.callers {
		if g.state != stYield {
			continue
		}
		i := g.idx
		switch g.point {
		case "caller.idle":
			out = append(out, choice{g, "go", "st", i, w.Step})
		case "acq.start":
			if !muHeld {
				out = append(out, choice{g, "go", "en", i, w.Step})
			}
		case "acq.reserved":
			out = append(out, choice{g, "go", "mk", i, w.Step})
		case "acq.registered":
			out = append(out, choice{g, "go", "pk", i, w.Step})
		case "acq.check":
			out = append(out, choice{g, "go", "ck", i, w.Step})
		case "acq.create":
			c := r.conns[g.conn-1]
			if c.isReady || r.connDead(g.conn) || g.ctx.Err() != nil || r.dcClosed {
				out = append(out, choice{g, "go", "cw", i, w.Step})
			}
		case "acq.wait":
			if r.waitReady(g) {
				out = append(out, choice{g, "go", "ww", i, w.Step})
			}
		case "acq.giveup":
			// while a paused transfer holds the pool mutex, a give-up that would release a polled
			// connection (needs the mutex) cannot complete: offer it only when the channel is empty
			if !muHeld || pool.VerifC27ChanLen(g.ch) == 0 {
				out = append(out, choice{g, "go", "gu", i, w.Step})
			}
		case "inv":
			if !muHeld {
				out = append(out, choice{g, "ok", "fi", i, w.FinOK})
				out = append(out, choice{g, "err", "fi", i, w.FinErr})
				if b.Retry > 0 && r.secondDeadAllowed(g.conn) {
					out = append(out, choice{g, "retry", "fi", i, w.FinRetry})
				}
			}
		case "xfer.send":
			out = append(out, choice{g, "go", "xs", i, w.Step})
		}
		if !g.cancelled && g.point != "caller.idle" && g.point != "mu.held" && b.Cancel > 0 {
			out = append(out, choice{nil, "", "ca", i, w.Cancel})
		}
	}
	if !r.dcClosed && b.Close > 0 && !muHeld && r.holder == nil {
		out = append(out, choice{nil, "", "cl", 0, w.Cancel})
	}
	for _, g := range r.gs {
		if g.state != stYield || g.point == "mu.held" {
			continue
		}
		switch g.kind {
		case gConn:
			c := r.conns[g.idx-1]
			if !c.isReady {
				out = append(out, choice{g, "ready", "rd", g.idx - 1, w.Ready})
			}
			if !muHeld && (b.Die > 0 || r.dcClosed) && r.secondDeadAllowed(int64(g.idx)) {
				out = append(out, choice{g, "die", "di", g.idx - 1, max(w.Die, 1)})
			}
		case gBg:
			c := r.conns[g.idx-1]
			if !muHeld && (c.isReady || r.connDead(int64(g.idx)) || r.dcClosed) {
				out = append(out, choice{g, "go", "bg", g.idx - 1, w.Step})
			}
		}
	}
	return out
}

// secondDeadAllowed: during a pause inside the pool mutex, a second dead() for the same connection (its own
// goroutine and a retrying caller both past the once-guard, both about to take the mutex) is scheduled
// only while the pool counts at least two connections: if the guard were broken, the counter would then
// become wrong (which the monitor reports) instead of negative (where dead() panics on a pool goroutine
// and takes the harness process down).
func (r *Run) secondDeadAllowed(conn int64) bool {
	if r.holder == nil || !r.deadPending[conn] {
		return true
	}
	return pool.VerifC27Snapshot(r.dc).Total >= 2
}

// ---------------------------------------------------------------------------------------------
// the property monitor (implementation state only)

func (r *Run) holders(o obs) map[int64][]string {
	h := map[int64][]string{}
	for _, g := range r.callers {
		if g.state != stYield {
			continue
		}
		switch g.point {
		case "acq.check", "acq.create", "inv":
			h[g.conn] = append(h[g.conn], fmt.Sprintf("caller%d@%s", g.idx, g.point))
		case "xfer.send":
			h[g.xconn] = append(h[g.xconn], fmt.Sprintf("transfer-in-progress-by-caller%d", g.idx))
		}
	}
	for _, c := range o.free {
		h[c] = append(h[c], "free")
	}
	for _, kc := range o.inbox {
		reader := false
		for _, g := range r.callers {
			if g.state == stYield && (g.point == "acq.wait" || g.point == "acq.registered" || g.point == "acq.giveup") && g.key == kc[0] {
				reader = true
			}
		}
		if reader {
			h[kc[1]] = append(h[kc[1]], fmt.Sprintf("channel-of-waiter-%d", kc[0]-1))
		}
	}
	for cid, g := range r.bgs {
		if g.state == stYield {
			h[cid] = append(h[cid], "background-releaser")
		}
	}
	return h
}

// monitor checks the C27/C28 state predicates on one quiescent state; `last` is the action that led to it.
func (r *Run) monitor(o obs, last string) {
	live := 0
	for _, c := range r.conns {
		if !r.connDead(c.id) {
			live++
		}
	}
	reserved := 0
	for _, g := range r.callers {
		if g.state == stYield && g.point == "acq.reserved" {
			reserved++
		}
	}
	if int64(live+reserved) != o.total {
		r.fail("total-mismatch", fmt.Sprintf("after %s: total=%d but %d connections are not dead and %d callers hold a reserved slot | %s", last, o.total, live, reserved, o.summary))
	}
	if r.max >= 1 && int64(live) > r.max {
		r.fail("over-limit", fmt.Sprintf("after %s: %d live connections, max %d | %s", last, live, r.max, o.summary))
	}
	if r.max >= 1 && o.total > r.max {
		r.fail("over-limit", fmt.Sprintf("after %s: total=%d exceeds max %d | %s", last, o.total, r.max, o.summary))
	}
	if r.noModel {
		return // the holder-based checks rest on the harness's per-step bookkeeping, which lock-yield runs skip
	}
	h := r.holders(o)
	kind := last
	if i := strings.IndexByte(kind, ':'); i > 0 {
		kind = kind[:i]
	}
	for _, c := range r.conns {
		hs := h[c.id]
		if len(hs) > 1 {
			r.fail("shared-conn", fmt.Sprintf("after %s: connection %d has %d holders %v | %s", last, c.id-1, len(hs), hs, o.summary))
		}
		if len(hs) == 0 && !r.connDead(c.id) && !r.leaked[c.id] && !r.dcClosed {
			r.leaked[c.id] = true
			r.fail("leak-after-"+kind, fmt.Sprintf("after %s: live counted connection %d is neither in use, idle, in transfer to a live waiter, nor being created | %s", last, c.id-1, o.summary))
		}
	}
}

// served: a caller parked in the third acquire case whose select is not ready although an idle live
// connection exists or a slot is free (the consequence clause of C28).
func (r *Run) monitorServed(o obs, last string) {
	if r.hasLeak() || r.dcClosed || r.noModel {
		return // already reported; a leaked slot trivially starves waiters
	}
	idle := false
	for _, c := range o.free {
		if !r.connDead(c) {
			idle = true
		}
	}
	slot := r.max < 1 || o.total < r.max
	if !idle && !slot {
		return
	}
	for _, g := range r.callers {
		if g.state == stYield && g.point == "acq.wait" && !r.waitReady(g) {
			_, arriving := r.inbox[g.key]
			if !arriving {
				r.fail("waiter-not-served", fmt.Sprintf("after %s: caller %d waits (key %d) with nothing to wake it although idle=%v slotFree=%v | %s",
					last, g.idx, g.key-1, idle, slot, o.summary))
			}
		}
	}
}

func (r *Run) hasLeak() bool { return len(r.leaked) > 0 }
