// C10 — the key exchange never completes with an unauthenticated or tampered server.
//
// The real exchange.ClientExchange.Run talks over an in-memory pipe to an impostor: a scripted
// server that follows the protocol except for one chosen deviation (or none: control), with or
// without the private key the client trusts.  Deviations: altered nonce / server nonce at each of
// the three server messages and inside the encrypted answer, flipped / truncated / re-keyed /
// empty encrypted answer, substituted dh_prime (composite, not safe, 2047/2049 bits, failing the
// residue condition), generator outside 2…7, g_a ∈ {0, 1, p−1, p, p+1, 2^1984, p−2^1984, …} and weak g_a = 3^a with a known small a, a weak g_b drawn by the client itself, wrong /
// altered new_nonce_hash1, dh_gen_retry / dh_gen_fail / server_DH_params_fail, wrong constructors,
// junk, bad envelopes, replayed messages of an earlier run, own RSA key (other fingerprint, or
// claiming the trusted one), empty / foreign fingerprint lists, pq above 2^63, pq = 0 / 1 / prime; ciphertext surgery a keyless
// man in the middle can do on the encrypted answer: whole blocks appended (random / duplicated),
// prepended, inserted, swapped, dropped, single bytes appended or cut; and format variations by the
// key holder: trailing bytes / a second TL object inside the hashed answer or after each message,
// non-minimal big-endian numbers, duplicated fingerprints, 16…31 bytes of padding.
//
//   - monitor (no model): every run whose deviation is an attack must end in a client error;
//     no panic;
//   - correspondence: the delivered frames are decoded/decrypted into the model's abstract
//     messages; the model's client (`crun`) fed with them must end in the same state — same error
//     class or same key/salt — and must have sent the same messages.
package main

import (
	"context"
	"crypto/rsa"
	"encoding/binary"
	"fmt"
	"math/big"
	"strings"
	"sync"
	"time"

	"github.com/gotd/td/bin"
	"github.com/gotd/td/crypto"
	"github.com/gotd/td/exchange"
	"github.com/gotd/td/mt"
	"github.com/gotd/td/proto"
	"github.com/gotd/td/testutil"
	"github.com/gotd/td/transport"

	"verif/harness/c09x"
	"verif/harness/hc"
)

func main() { hc.Main(hc.Spec{Prop: "C10", Facts: facts, Run: run}) }

func facts(f *hc.Facts) {
	c09x.Facts10(f)
	c09x.RefreshC09(f.Repo) // the theorems are stated over the shared exchange model TdModel/Model/C09.lean
}

// attack = one deviation from the honest server.
type attack struct {
	kind  string // the deviation (see gen)
	arg   int    // bit index / table index / variant
	key   string // trusted | own (other fingerprint) | claim (own key, advertises the trusted fingerprint) | second-trusted (own key, which the client also trusts)
	temp  bool
	dc    int
	seed  uint64
	fatal bool // the deviation is an attack: the client must fail
}

func (a attack) String() string {
	return fmt.Sprintf("kind=%s arg=%d key=%s temp=%v dc=%d seed=%d", a.kind, a.arg, a.key, a.temp, a.dc, a.seed)
}

type env struct {
	trusted, own *rsa.PrivateKey
	replay       [][]byte // server frames of an earlier honest run
}

func flip(b []byte, bit int) {
	if len(b) == 0 {
		return
	}
	bit %= len(b) * 8
	b[bit/8] ^= 1 << (bit % 8)
}

// impostor runs the scripted server on conn.
func impostor(ctx context.Context, conn transport.Conn, a attack, e *env, r *hc.RNG) {
	send := func(msg bin.Encoder, typ proto.MessageType, mangle string) error {
		var b bin.Buffer
		if err := msg.Encode(&b); err != nil {
			return err
		}
		data := b.Copy()
		switch mangle {
		case "trunc":
			if len(data) > 8 {
				data = data[:len(data)-8]
			}
		case "trailing": // extra TL-looking words after the object: decoders read a prefix
			data = append(data, r.Bytes(4*(1+a.arg%8))...)
		}
		u := proto.UnencryptedMessage{MessageID: int64(proto.NewMessageID(time.Now(), typ)), MessageData: data}
		b.Reset()
		if err := u.Encode(&b); err != nil {
			return err
		}
		switch mangle {
		case "enckey":
			b.Buf[3] = 0x40 // non-zero auth_key_id: not an unencrypted message
		case "shortlen":
			b.Buf = b.Buf[:len(b.Buf)-4] // envelope announces more data than the frame holds
		}
		sctx, cancel := context.WithTimeout(ctx, 10*time.Second)
		defer cancel()
		return conn.Send(sctx, &b)
	}
	raw := func(frame []byte) error {
		sctx, cancel := context.WithTimeout(ctx, 10*time.Second)
		defer cancel()
		return conn.Send(sctx, &bin.Buffer{Buf: append([]byte(nil), frame...)})
	}
	recv := func(into bin.Decoder) error {
		var b bin.Buffer
		rctx, cancel := context.WithTimeout(ctx, 10*time.Second)
		defer cancel()
		if err := conn.Recv(rctx, &b); err != nil {
			return err
		}
		var u proto.UnencryptedMessage
		if err := u.Decode(&b); err != nil {
			return err
		}
		return into.Decode(&bin.Buffer{Buf: u.MessageData})
	}
	is := func(k string) bool { return a.kind == k }
	resp := proto.MessageServerResponse

	myKey := e.trusted
	if a.key != "trusted" {
		myKey = e.own
	}
	trustedFP := crypto.RSAFingerprint(&e.trusted.PublicKey)
	ownFP := crypto.RSAFingerprint(&e.own.PublicKey)

	// ---- 1/2: req_pq → ResPQ
	var req mt.ReqPqMultiRequest
	if recv(&req) != nil {
		return
	}
	var sn bin.Int128
	r.Read(sn[:])
	pq := big.NewInt(0x17ED48941A08F981)
	switch {
	case is("pq-other"):
		g := &c09x.ServerRNG{R: r}
		pq, _ = g.PQ()
	case is("pq-big"):
		pq = new(big.Int).Add(new(big.Int).Lsh(big.NewInt(1), 63), big.NewInt(int64(1+a.arg)))
	case is("pq-degenerate"):
		// not a product of two primes: 0, 1, or a prime (DecomposePQ cannot factor these)
		pq = []*big.Int{big.NewInt(0), big.NewInt(1), big.NewInt(2), big.NewInt(3), big.NewInt(1000003),
			big.NewInt(2147483647), big.NewInt(4611686018427388039), big.NewInt(9223372036854775783)}[a.arg%8]
	}
	fps := []int64{crypto.RSAFingerprint(&myKey.PublicKey)}
	switch {
	case a.key == "claim":
		fps = []int64{trustedFP}
	case is("fps-none"):
		fps = nil
	case is("fps-foreign"):
		fps = []int64{int64(r.U64()), int64(r.U64())}
	case is("fps-foreign-first"):
		fps = []int64{int64(r.U64()), fps[0], ownFP ^ 1}
	case is("fps-dup"):
		fps = []int64{fps[0], fps[0], fps[0]}
	case is("fps-both"):
		// both keys offered, the impostor's first: the client must take the first of *its own* list
		fps = []int64{ownFP, trustedFP}
	}
	res := &mt.ResPQ{Nonce: req.Nonce, ServerNonce: sn, Pq: pq.Bytes(), ServerPublicKeyFingerprints: fps}
	if is("pq-leading-zeros") { // non-minimal big-endian encoding of the same number
		res.Pq = append(make([]byte, 1+a.arg%3), res.Pq...)
	}
	if is("res-nonce") {
		flip(res.Nonce[:], a.arg)
	}
	var err error
	switch {
	case is("res-badtype"):
		err = send(res, proto.MessageFromClient, "")
	case is("res-fromserver-type"):
		err = send(res, proto.MessageFromServer, "")
	case is("res-enckey"):
		err = send(res, resp, "enckey")
	case is("res-trunc"):
		err = send(res, resp, "trunc")
	case is("res-shortlen"):
		err = send(res, resp, "shortlen")
	case is("res-wrongctor"):
		err = send(&mt.DhGenOk{Nonce: req.Nonce, ServerNonce: sn}, resp, "")
	case is("res-replay"):
		err = raw(e.replay[0])
	case is("res-trailing"):
		err = send(res, resp, "trailing")
	default:
		err = send(res, resp, "")
	}
	if err != nil {
		return
	}

	// ---- 4/5: req_DH_params → Server_DH_Params
	var dh mt.ReqDHParamsRequest
	if recv(&dh) != nil {
		return
	}
	var newNonce bin.Int256
	known := false
	if is("fps-both") { // the impostor holds both keys: it answers whichever the client chose
		if dh.PublicKeyFingerprint == trustedFP {
			myKey = e.trusted
		} else {
			myKey = e.own
		}
	}
	if rawIn, err := crypto.DecodeRSAPad(dh.EncryptedData, myKey); err == nil {
		if in, err := mt.DecodePQInnerData(&bin.Buffer{Buf: rawIn}); err == nil {
			newNonce, known = in.GetNewNonce(), true
		}
	}
	if !known {
		r.Read(newNonce[:]) // an impostor without the private key can only guess
	}
	g := 3
	prime := c09x.TelegramPrime()
	switch {
	case is("prime-table"):
		prime = c09x.SafePrime(a.arg)
	case is("prime-semiprime"):
		prime = c09x.Semiprime2048
	case is("prime-nonsafe"):
		prime = c09x.NonSafePrime2048
	case is("prime-2047"):
		prime = c09x.Prime2047
	case is("prime-2049"):
		prime = c09x.Prime2049
	case is("prime-plus2"):
		prime = new(big.Int).Add(prime, big.NewInt(2))
	case is("prime-half"):
		prime = c09x.Half(prime) // a 2047-bit prime
	case is("g-legit"), is("g-residue"):
		// a generator of 2…7: accepted iff the residue condition of CheckGP holds for the prime
		g = 2 + a.arg%6
		prime = c09x.SafePrime(a.arg / 6)
	case is("g-bad"):
		g = []int{0, 1, 8, -1, -3, 9, 1 << 30, -(1 << 31)}[a.arg%8]
	}
	one := big.NewInt(1)
	lo := new(big.Int).Lsh(one, crypto.RSAKeyBits-64)
	aExp := new(big.Int).SetBytes(r.Bytes(256))
	if is("ga-weak-known") {
		// a server that knows its exponent but offers a weak g_a = 3^a ≤ 2^1984 (small a): it can
		// compute the key and the right new_nonce_hash1, so only CheckDHParams stands in the way
		aExp = big.NewInt(int64([]int{2, 3, 7, 64, 700, 1000, 1200, 1250, 1251}[a.arg%9]))
	}
	gBig := big.NewInt(int64(g))
	ga := new(big.Int).Set(one)
	if prime.Sign() > 0 && g > 1 {
		for i := 0; i < 64; i++ { // like TestServerRNG.GA: redraw until g_a is in the safe range
			ga = new(big.Int).Exp(gBig, aExp, prime)
			if crypto.InRange(ga, lo, new(big.Int).Sub(prime, lo)) || is("ga-weak-known") {
				break
			}
			aExp = new(big.Int).SetBytes(r.Bytes(256))
		}
	}
	gaKnown := true
	if is("ga") {
		gaKnown = false
		switch a.arg % 12 {
		case 0:
			ga = big.NewInt(0)
		case 1:
			ga = big.NewInt(1)
		case 2:
			ga = new(big.Int).Sub(prime, one)
		case 3:
			ga = new(big.Int).Set(prime)
		case 4:
			ga = new(big.Int).Add(prime, one)
		case 5:
			ga = new(big.Int).Set(lo)
		case 6:
			ga = new(big.Int).Sub(prime, lo)
		case 7:
			ga = new(big.Int).Add(lo, one) // just inside: passes CheckDHParams, fails at the hash
		case 8:
			ga = new(big.Int).Sub(new(big.Int).Sub(prime, lo), one) // just inside
		case 9:
			ga = big.NewInt(2)
		case 10:
			ga = new(big.Int).Sub(lo, one)
		case 11:
			ga = new(big.Int).Add(prime, lo)
		}
	}
	inner := mt.ServerDHInnerData{Nonce: req.Nonce, ServerNonce: sn, G: g, DhPrime: prime.Bytes(), GA: ga.Bytes(), ServerTime: int(time.Now().Unix())}
	if is("inner-nonce") {
		flip(inner.Nonce[:], a.arg)
	}
	if is("inner-server-nonce") {
		flip(inner.ServerNonce[:], a.arg)
	}
	if is("prime-leading-zeros") {
		inner.DhPrime = append(make([]byte, 1+a.arg%4), inner.DhPrime...)
	}
	if is("ga-leading-zeros") {
		inner.GA = append(make([]byte, 1+a.arg%4), inner.GA...)
	}
	var ib bin.Buffer
	if inner.Encode(&ib) != nil {
		return
	}
	switch {
	case is("inner-trailing-bytes"): // hashed together with the object: decodes as the object
		ib.Put(r.Bytes(4 * (1 + a.arg%16)))
	case is("inner-trailing-tl"): // a second, valid TL object after the first
		(&mt.FutureSalt{ValidSince: 1, ValidUntil: 2, Salt: int64(r.U64())}).Encode(&ib)
	}
	encNonce := newNonce
	if is("ans-wrongkey") {
		r.Read(encNonce[:])
	}
	key, iv := crypto.TempAESKeys(encNonce.BigInt(), sn.BigInt())
	answer, err := crypto.EncryptExchangeAnswer(r, ib.Raw(), key, iv)
	if err != nil {
		return
	}
	blk := func(i int) []byte { i %= len(answer) / 16; return append([]byte(nil), answer[16*i:16*i+16]...) }
	nblk := len(answer) / 16
	switch {
	case is("ans-append-blocks"): // what a keyless man in the middle can always do
		answer = append(answer, r.Bytes(16*(1+a.arg%4))...)
	case is("ans-append-dup-last"):
		for k := 0; k <= a.arg%3; k++ {
			answer = append(answer, blk(nblk-1)...)
		}
	case is("ans-append-dup-first"):
		answer = append(answer, blk(0)...)
	case is("ans-append-bytes"):
		answer = append(answer, r.Bytes(1+a.arg%15)...)
	case is("ans-prepend-block"):
		answer = append(r.Bytes(16), answer...)
	case is("ans-insert-dup"):
		i := a.arg % nblk
		answer = append(append(append([]byte{}, answer[:16*i+16]...), blk(i)...), answer[16*i+16:]...)
	case is("ans-swap-blocks"):
		i, j := a.arg%nblk, (a.arg/nblk+1+a.arg)%nblk
		if i == j {
			j = (i + 1) % nblk
		}
		bi, bj := blk(i), blk(j)
		copy(answer[16*i:], bj)
		copy(answer[16*j:], bi)
	case is("ans-drop-first-block"):
		answer = answer[16:]
	case is("ans-drop-middle-block"):
		i := 1 + a.arg%(nblk-2)
		answer = append(append([]byte{}, answer[:16*i]...), answer[16*i+16:]...)
	case is("ans-trunc-bytes"):
		answer = answer[:len(answer)-(1+a.arg%15)]
	case is("ans-overpad"): // the key holder pads with 16…31 bytes instead of 0…15
		n := (16-(20+ib.Len())%16)%16 + 16
		answer = c09x.EncryptAnswerPad(ib.Raw(), key, iv, r.Bytes(n))
	case is("ans-bitflip"):
		flip(answer, a.arg)
	case is("ans-trunc16"):
		answer = answer[:len(answer)-16]
	case is("ans-trunc4"):
		answer = answer[:len(answer)-4]
	case is("ans-empty"):
		answer = nil
	case is("ans-random"):
		answer = r.Bytes(len(answer))
	case is("ans-plain"):
		answer = append([]byte(nil), ib.Raw()...)
		for len(answer)%16 != 0 {
			answer = append(answer, 0)
		}
	}
	ok := &mt.ServerDHParamsOk{Nonce: req.Nonce, ServerNonce: sn, EncryptedAnswer: answer}
	if is("dh-nonce") {
		flip(ok.Nonce[:], a.arg)
	}
	if is("dh-server-nonce") {
		flip(ok.ServerNonce[:], a.arg)
	}
	switch {
	case is("dh-fail"):
		var h bin.Int128
		r.Read(h[:])
		err = send(&mt.ServerDHParamsFail{Nonce: req.Nonce, ServerNonce: sn, NewNonceHash: h}, resp, "")
	case is("dh-wrongctor"):
		err = send(res, resp, "")
	case is("dh-trunc"):
		err = send(ok, resp, "trunc")
	case is("dh-enckey"):
		err = send(ok, resp, "enckey")
	case is("dh-badtype"): // steps 5 and 7 do not look at the message id: harmless
		err = send(ok, proto.MessageFromClient, "")
	case is("dh-replay"):
		err = raw(e.replay[1])
	case is("dh-trailing"):
		err = send(ok, resp, "trailing")
	default:
		err = send(ok, resp, "")
	}
	if err != nil {
		return
	}

	// ---- 6/7: set_client_DH_params → dh_gen
	var set mt.SetClientDHParamsRequest
	if recv(&set) != nil {
		return
	}
	var hash bin.Int128
	r.Read(hash[:]) // what an impostor who cannot compute the key sends
	if dec, err := crypto.DecryptExchangeAnswer(set.EncryptedData, key, iv); err == nil && dec != nil && gaKnown && prime.Sign() > 0 {
		var ci mt.ClientDHInnerData
		if ci.Decode(&bin.Buffer{Buf: dec}) == nil {
			var k crypto.Key
			if crypto.FillBytes(new(big.Int).Exp(new(big.Int).SetBytes(ci.GB), aExp, prime), k[:]) {
				hash = crypto.NonceHash1(newNonce, k)
				if is("gen-hash2") { // new_nonce_hash2 (the retry variant) in place of hash1
					aux := k.AuxHash()
					buf := append(append(append([]byte{}, newNonce[:]...), 2), aux[:]...)
					copy(hash[:], c09x.SHA1(buf)[4:20])
				}
			}
		}
	}
	gen := &mt.DhGenOk{Nonce: req.Nonce, ServerNonce: sn, NewNonceHash1: hash}
	switch {
	case is("gen-nonce"):
		flip(gen.Nonce[:], a.arg)
	case is("gen-server-nonce"):
		flip(gen.ServerNonce[:], a.arg)
	case is("gen-hash"):
		flip(gen.NewNonceHash1[:], a.arg)
	case is("gen-hash-zero"):
		gen.NewNonceHash1 = bin.Int128{}
	}
	switch {
	case is("gen-retry"):
		err = send(&mt.DhGenRetry{Nonce: req.Nonce, ServerNonce: sn, NewNonceHash2: hash}, resp, "")
	case is("gen-fail"):
		err = send(&mt.DhGenFail{Nonce: req.Nonce, ServerNonce: sn, NewNonceHash3: hash}, resp, "")
	case is("gen-wrongctor"):
		err = send(ok, resp, "")
	case is("gen-trunc"):
		err = send(gen, resp, "trunc")
	case is("gen-enckey"):
		err = send(gen, resp, "enckey")
	case is("gen-replay"):
		err = raw(e.replay[2])
	case is("gen-trailing"):
		err = send(gen, resp, "trailing")
	default:
		err = send(gen, resp, "")
	}
	_ = err
}

// hangLimit: how long a single exchange may take before it is declared hung (the exchange
// timeout is 20 s per call, the context 60 s; an honest exchange takes well under a second).
const hangLimit = 90 * time.Second

type result struct {
	cres       exchange.ClientExchangeResult
	cerr       error
	panicked   any
	hung       bool // Run had not returned when the harness stopped waiting
	sent, recv [][]byte
	b          *big.Int
	sid        uint64
	keys       []uint64
}

func runAttack(a attack, e *env) result {
	r := hc.NewRNG(a.seed)
	client, server := transport.Intermediate.Pipe()
	tap := &c09x.Tap{Inner: client}
	cdir := &c09x.DirReader{R: r.Fork()}
	switch a.kind {
	case "client-weak-b":
		// the client's own draw of b gives a weak g_b = 3^b ≤ 2^1984: it must abort ("bad g_b")
		cdir.PushExp(big.NewInt(int64([]int{0, 1, 2, 3, 64, 700, 1000, 1250, 1251}[a.arg%9])))
	case "client-small-b":
		// a small but acceptable b (g_b with leading zero bytes): control
		cdir.PushExp(big.NewInt(int64(1252 + a.arg%40)))
	}
	crand := &c09x.RecReader{R: cdir}
	srng := r.Fork()
	ctx, cancel := context.WithTimeout(context.Background(), 60*time.Second)
	defer cancel()
	var wg sync.WaitGroup
	wg.Add(1)
	go func() {
		defer wg.Done()
		defer server.Close() // a silent peer: the client sees the connection end
		defer func() { _ = recover() }()
		impostor(ctx, server, a, e, srng)
	}()
	keys := []exchange.PublicKey{{RSA: &e.trusted.PublicKey}}
	if a.key == "second-trusted" {
		keys = append(keys, exchange.PublicKey{RSA: &e.own.PublicKey})
	}
	var out result
	for _, k := range keys {
		out.keys = append(out.keys, uint64(k.Fingerprint()))
	}
	type ret struct {
		res exchange.ClientExchangeResult
		err error
		p   any
	}
	done := make(chan ret, 1)
	go func() {
		var rt ret
		defer func() {
			if p := recover(); p != nil {
				rt.p = p
			}
			done <- rt
		}()
		ex := exchange.NewExchanger(tap, a.dc).WithRand(crand).WithTimeout(20 * time.Second)
		if a.temp {
			ex = ex.WithTempMode(3600)
		}
		rt.res, rt.err = ex.Client(keys).Run(ctx)
	}()
	select {
	case rt := <-done:
		out.cres, out.cerr, out.panicked = rt.res, rt.err, rt.p
	case <-time.After(hangLimit):
		// Run neither returned nor failed (it does not wait for the peer: the context has a
		// deadline and every transport call a timeout) — it is computing for ever
		out.hung = true
	}
	client.Close()
	wg.Wait()
	out.sent, out.recv = tap.Frames()
	out.b = crand.Last256()
	if b := crand.LastN(8); b != nil {
		out.sid = binary.LittleEndian.Uint64(b)
	}
	return out
}

// gen draws one deviation. fatal=false: the deviation keeps the peer an authenticated server
// with safe parameters (controls, and changes outside the property such as another valid pq).
func gen(r *hc.RNG) attack {
	a := attack{key: "trusted", temp: r.Bool(), dc: hc.Pick(r, -3, -1, 0, 1, 2, 4, 5, 10002), seed: r.U64(), fatal: true}
	bit128, bit256 := r.Intn(128), r.Intn(256)
	_ = bit256
	type k struct {
		kind string
		arg  int
		w    int
	}
	fatal := []k{
		{"res-nonce", bit128, 4}, {"fps-none", 0, 2}, {"fps-foreign", 0, 2}, {"pq-big", r.Intn(1000), 2}, {"pq-degenerate", r.Intn(8), 4},
		{"res-badtype", 0, 1}, {"res-fromserver-type", 0, 1}, {"res-enckey", 0, 1}, {"res-trunc", 0, 1}, {"res-shortlen", 0, 1},
		{"res-wrongctor", 0, 1}, {"res-replay", 0, 2},
		{"dh-nonce", bit128, 4}, {"dh-server-nonce", bit128, 4}, {"inner-nonce", bit128, 4}, {"inner-server-nonce", bit128, 4},
		{"ans-bitflip", r.Intn(4096), 6}, {"ans-trunc16", 0, 2}, {"ans-trunc4", 0, 1}, {"ans-empty", 0, 1}, {"ans-random", 0, 2},
		{"ans-plain", 0, 1}, {"ans-wrongkey", 0, 3},
		{"ans-append-blocks", r.Intn(64), 6}, {"ans-append-dup-last", r.Intn(64), 3}, {"ans-append-dup-first", 0, 2},
		{"ans-append-bytes", r.Intn(64), 2}, {"ans-prepend-block", 0, 2}, {"ans-insert-dup", r.Intn(1024), 3},
		{"ans-swap-blocks", r.Intn(4096), 3}, {"ans-drop-first-block", 0, 1}, {"ans-drop-middle-block", r.Intn(64), 2},
		{"ans-trunc-bytes", r.Intn(64), 2},
		{"dh-fail", 0, 2}, {"dh-wrongctor", 0, 1}, {"dh-trunc", 0, 1}, {"dh-enckey", 0, 1}, {"dh-replay", 0, 2},
		{"prime-semiprime", 0, 2}, {"prime-nonsafe", 0, 2}, {"prime-2047", 0, 2}, {"prime-2049", 0, 2}, {"prime-plus2", 0, 2}, {"prime-half", 0, 1},
		{"g-bad", r.Intn(8), 5}, {"ga", r.Intn(12), 10}, {"ga-weak-known", r.Intn(9), 5}, {"client-weak-b", r.Intn(9), 5},
		{"gen-nonce", bit128, 4}, {"gen-server-nonce", bit128, 4}, {"gen-hash", bit128, 5}, {"gen-hash-zero", 0, 1}, {"gen-hash2", 0, 2},
		{"gen-retry", 0, 2}, {"gen-fail", 0, 2}, {"gen-wrongctor", 0, 1}, {"gen-trunc", 0, 1}, {"gen-enckey", 0, 1}, {"gen-replay", 0, 2},
	}
	switch x := r.Intn(100); {
	case x < 12: // controls: an authenticated server with safe parameters must be accepted
		a.fatal = false
		a.kind, a.arg = hc.Pick(r, "honest", "client-small-b", "pq-other", "fps-foreign-first", "dh-badtype", "prime-table"), r.Intn(len(c09x.SafePrimes))
		if r.Chance(50) {
			// format variations by an authenticated server: the model decides (all are accepted
			// by the specification-level decoding except over-padding)
			a.kind, a.arg = hc.Pick(r, "fps-dup", "fps-both", "pq-leading-zeros", "prime-leading-zeros", "ga-leading-zeros", "inner-trailing-bytes",
				"inner-trailing-tl", "res-trailing", "dh-trailing", "gen-trailing", "ans-overpad"), r.Intn(1024)
		}
		if r.Chance(25) {
			a.key = "second-trusted"
		}
	case x < 17: // generators 2…7 against the residue condition: the model decides
		a.kind, a.arg = "g-residue", r.Intn(6*len(c09x.SafePrimes))
		a.fatal = false // set by the caller from crypto.CheckGP
	case x < 24: // impostors with their own key
		a.key = hc.Pick(r, "own", "claim")
		a.kind = "honest"
	default:
		tot := 0
		for _, f := range fatal {
			tot += f.w
		}
		n := r.Intn(tot)
		for _, f := range fatal {
			if n < f.w {
				a.kind, a.arg = f.kind, f.arg
				break
			}
			n -= f.w
		}
		if r.Chance(10) {
			a.key = "claim" // the deviation of an impostor that cannot even read new_nonce
		}
	}
	if a.kind == "fps-both" {
		a.key = "second-trusted"
	}
	if a.kind == "g-residue" {
		g, p := 2+a.arg%6, c09x.SafePrime(a.arg/6)
		a.fatal = crypto.CheckGP(g, p) != nil
		if !a.fatal {
			a.kind = "g-legit"
		}
	}
	return a
}

func u64s(xs []uint64) string {
	s := make([]string, len(xs))
	for i, x := range xs {
		s[i] = fmt.Sprint(x)
	}
	return strings.Join(s, ",")
}

func run(c *hc.Ctx) error {
	r := c.Rng
	e := &env{trusted: testutil.RSAPrivateKey(), own: c09x.SecondKey()}
	// frames of an earlier honest run, for the replay deviations
	{
		h := runAttack(attack{kind: "honest", key: "trusted", dc: 2, seed: r.U64()}, e)
		if h.cerr != nil || len(h.recv) != 3 {
			return fmt.Errorf("harness: the impostor's honest control run failed: %v", h.cerr)
		}
		e.replay = h.recv
	}
	n := c.N(300, 12000)
	cases := make([]attack, n)
	for i := range cases {
		cases[i] = gen(r)
	}
	outs := make([]result, n)
	sem := make(chan struct{}, c.N(6, 12))
	var wg sync.WaitGroup
	for i := range cases {
		wg.Add(1)
		sem <- struct{}{}
		go func(i int) {
			defer wg.Done()
			defer func() { <-sem }()
			outs[i] = runAttack(cases[i], e)
		}(i)
	}
	wg.Wait()

	keys := map[uint64]*rsa.PrivateKey{
		uint64(crypto.RSAFingerprint(&e.trusted.PublicKey)): e.trusted,
		uint64(crypto.RSAFingerprint(&e.own.PublicKey)):     e.own,
	}
	var lines, inputs, wantState, wantSent []string
	var byteLines, byteImpl, byteIn []string
	var bytePre []bool
	for i, a := range cases {
		o := outs[i]
		in := a.String()
		impl := c09x.ClientResult(o.cres, o.cerr)
		c.Count("kind." + a.kind)
		c.Count("key." + a.key)
		c.Count("outcome." + c09x.OutcomeClass(impl))
		c.Eval(in, a.fatal)
		// ---- monitor
		switch {
		case o.panicked != nil:
			c.Fail("client-panic", in, fmt.Sprint(o.panicked))
			continue
		case o.hung:
			c.Fail("client-hang", in, fmt.Sprintf("ClientExchange.Run neither returned nor failed within %v", hangLimit))
			continue
		case a.fatal && o.cerr == nil:
			key := "tampered-exchange-accepted"
			if strings.HasPrefix(a.kind, "ga") || strings.HasPrefix(a.kind, "g-") || strings.HasPrefix(a.kind, "prime-") || a.kind == "client-weak-b" {
				key = "unsafe-dh-params-accepted"
			}
			c.Fail(key, in, "ClientExchange.Run returned a key: "+impl)
		case strings.HasPrefix(impl, "failed other:"):
			c.Fail("unclassified-client-error", in, impl)
		}
		// ---- model line: what was delivered, as the client reads it
		if len(o.sent) == 0 {
			continue
		}
		dec := &c09x.Dec{Keys: keys}
		var sent, delivered []string
		for j := 0; j < 3; j++ {
			if j < len(o.sent) {
				sent = append(sent, dec.Client(j, o.sent[j]))
			}
			if j < len(o.recv) {
				delivered = append(delivered, dec.Server(j, o.recv[j]))
			}
		}
		f0 := strings.Fields(sent[0])
		if len(f0) != 2 {
			c.Fail("undecodable-client-message", in, sent[0])
			continue
		}
		factor := "-"
		if len(sent) > 1 && len(delivered) > 0 {
			fr, fd := strings.Fields(delivered[0]), strings.Fields(sent[1])
			if len(fr) == 5 && len(fd) == 7 {
				factor = fr[3] + ":" + fd[3] + ":" + fd[4]
			}
		}
		newNonce := strings.Repeat("00", 32)
		if len(dec.NewNonce) == 32 {
			newNonce = hc.Hex(dec.NewNonce)
		}
		b := "0"
		if o.b != nil {
			b = o.b.String()
		}
		var cands []*big.Int
		if dec.Inner != nil {
			p := new(big.Int).SetBytes(dec.Inner.DhPrime)
			cands = append(cands, p, c09x.Half(p))
		}
		if len(delivered) > 0 {
			if fr := strings.Fields(delivered[0]); len(fr) == 5 && fr[0] == "resPQ" {
				cands = append(cands, c09x.BigOf(fr[3])) // pq: the client tests it for primality
			}
		}
		primes := c09x.Primes(cands...)
		line := fmt.Sprintf("client keys=%s cdc=%d temp=%d exp=%d nonce=%s newnonce=%s b=%s sid=%d primes=%s factor=%s",
			u64s(o.keys), a.dc, map[bool]int{false: 0, true: 1}[a.temp], map[bool]int{false: 0, true: 3600}[a.temp], f0[1], newNonce, b, o.sid, primes, factor)
		for _, m := range delivered {
			line += " ; " + m
		}
		// a peer that stops answering leaves the client waiting until its transport fails: the
		// message-level model has no transport errors
		if impl == "failed io" {
			impl = "waiting"
		}
		lines = append(lines, line)
		inputs = append(inputs, in)
		wantState = append(wantState, impl)
		wantSent = append(wantSent, strings.Join(sent, " | "))
		// ---- byte level: envelopes and TL decoding of what was delivered (mangled or not), TL
		// encoding of what the client sent, the inner-data plaintexts
		var toks []string
		for _, m := range append(append([]string{}, sent...), delivered...) {
			if f := strings.Fields(m); len(f) > 0 {
				toks = append(toks, f[len(f)-1])
			}
		}
		bl, bi, bn, bp := c09x.ByteLines(o.sent, o.recv, toks, dec, false, !strings.HasSuffix(a.kind, "leading-zeros"))
		for k := range bl {
			byteLines = append(byteLines, bl[k])
			byteImpl = append(byteImpl, bi[k])
			byteIn = append(byteIn, in+" :: "+bn[k])
			bytePre = append(bytePre, bp[k])
		}
	}
	res, err := c.Drv.Batch(lines)
	if err != nil {
		return err
	}
	for i, ans := range res {
		parts := strings.Split(ans, " || ")
		if len(parts) != 2 {
			c.Differ(inputs[i]+" :: "+lines[i], wantState[i], ans, "model answer has a different shape")
			continue
		}
		ok1 := c.Compare(inputs[i]+" :: client state :: "+lines[i], wantState[i], parts[0])
		ok2 := c.Compare(inputs[i]+" :: client messages :: "+lines[i], wantSent[i], parts[1])
		if ok1 && ok2 {
			c.Res.TracesValidated++
		}
	}
	bres, err := c.Drv.Batch(byteLines)
	if err != nil {
		return err
	}
	for k, ans := range bres {
		if c.Compare(byteIn[k]+" :: "+byteLines[k], c09x.ByteAgree(byteImpl[k], ans, bytePre[k]), ans) {
			c.Res.TracesValidated++
		}
	}
	c.Count(fmt.Sprintf("byte-level comparisons: %d", len(bres)))
	c.Res.Rule = "each case = one exchange of the real client against a scripted impostor with one deviation (kinds and their frequencies are in the distribution; bit positions, table indices, seeds from the PRNG); 12% controls and format variations by an authenticated server with safe parameters (accepted or not as the model decides), 5% generators 2…7 against the residue condition, 7% impostors with their own RSA key, the rest attacks (incl. extension, truncation, duplication, swapping of ciphertext blocks); non-trivial = the deviation is an attack (client must fail); distinct = distinct case line"
	c.PartialNote("the adversary library is finite: deviations are applied one at a time (plus `claim` = no private key combined with any of them); pq = 0, 1 and prime pq are offered (`pq-degenerate`): before the fix in exchange/client_flow.go they crashed or hung the client (crypto.DecomposePQ divides by zero / never returns)")
	c.PartialNote("that a peer without the private key cannot produce an answer decrypting under the temporary key is a cryptographic assumption (RSA_PAD, SHA-1, AES-IGE); the impostors here guess, flip, truncate, replay or re-key")
	return nil
}
