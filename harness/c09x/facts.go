// Package c09x is the part of the key-exchange harness shared by C09 and C10: source facts of the
// exchange model (TdModel/Model/C09.lean), the transport tap, decoding of the wire messages into
// the model's abstract messages and their canonical text form.
package c09x

import (
	"fmt"
	"go/ast"
	"go/token"
	"os"
	"path/filepath"
	"strconv"
	"strings"

	"verif/harness/hc"
)

func intLit(e ast.Expr) (int, bool) {
	if c, ok := e.(*ast.CallExpr); ok && len(c.Args) == 1 { // big.NewInt(63)
		e = c.Args[0]
	}
	bl, ok := e.(*ast.BasicLit)
	if !ok || bl.Kind != token.INT {
		return 0, false
	}
	n, err := strconv.Atoi(bl.Value)
	return n, err == nil
}

// assignedTo finds `name := <expr>` inside fn and returns the right-hand side.
func assignedTo(fn *ast.FuncDecl, name string) ast.Expr {
	var out ast.Expr
	if fn == nil || fn.Body == nil {
		return nil
	}
	ast.Inspect(fn.Body, func(n ast.Node) bool {
		as, ok := n.(*ast.AssignStmt)
		if ok && as.Tok == token.DEFINE && len(as.Lhs) == 1 && len(as.Rhs) == 1 {
			if id, ok := as.Lhs[0].(*ast.Ident); ok && id.Name == name && out == nil {
				out = as.Rhs[0]
			}
		}
		return true
	})
	return out
}

// Facts emits the facts used by TdModel/Model/C09.lean (namespace TdModel.Facts.C09).
func Facts(f *hc.Facts) {
	f.Const("rsaKeyBits", "crypto", "RSAKeyBits")
	// pqMax := big.NewInt(0).Exp(big.NewInt(2), big.NewInt(63), nil)
	done := false
	if rhs, ok := assignedTo(f.FuncDecl("exchange", "ClientExchange.Run"), "pqMax").(*ast.CallExpr); ok && len(rhs.Args) == 3 {
		base, ok1 := intLit(rhs.Args[0])
		exp, ok2 := intLit(rhs.Args[1])
		if ok1 && ok2 && base == 2 {
			f.Nat("pqMaxExp", exp, "exchange.ClientExchange.Run: pqMax = 2^exp")
			done = true
		}
	}
	if !done {
		f.Missing("pqMaxExp", "pqMax := big.NewInt(0).Exp(big.NewInt(2), big.NewInt(N), nil) not found in ClientExchange.Run")
	}
	if g, ok := intLit(assignedTo(f.FuncDecl("exchange", "ServerExchange.Run"), "g")); ok {
		f.Nat("serverG", g, "exchange.ServerExchange.Run: g := N")
	} else {
		f.Missing("serverG", "g := N not found in ServerExchange.Run")
	}
	// TestServerRNG.GA: the acceptance condition of the draw loop and its two bounds
	ga := f.FuncDecl("exchange", "TestServerRNG.GA")
	cond := ""
	if ga != nil && ga.Body != nil {
		ast.Inspect(ga.Body, func(n ast.Node) bool {
			fs, ok := n.(*ast.ForStmt)
			if !ok {
				return true
			}
			ast.Inspect(fs.Body, func(m ast.Node) bool {
				if is, ok := m.(*ast.IfStmt); ok && len(is.Body.List) == 1 {
					if _, ok := is.Body.List[0].(*ast.ReturnStmt); ok && is.Init == nil {
						if s := oneLine(f.Src(is.Cond)); strings.Contains(s, "ga") {
							cond = s
						}
					}
				}
				return true
			})
			return false
		})
	}
	if cond == "" {
		f.Missing("serverGACond", "acceptance test of the draw loop of TestServerRNG.GA not found")
	} else {
		f.Str("serverGACond", cond, "exchange.TestServerRNG.GA: `if <cond> { return }` inside the draw loop")
	}
	for _, v := range [][2]string{{"serverGASafetyMin", "safetyRangeMin"}, {"serverGASafetyMax", "safetyRangeMax"}} {
		if rhs := assignedTo(ga, v[1]); rhs != nil {
			f.Str(v[0], oneLine(f.Src(rhs)), "exchange.TestServerRNG.GA: "+v[1])
		} else {
			f.Missing(v[0], v[1]+" not defined in TestServerRNG.GA")
		}
	}
	dhFacts(f)
	TLFacts(f)
	ProgramFacts(f, "server", "ServerExchange.Run")
	DefFacts(f, "server", "ServerExchange.Run", []string{"serverNonce", "pq", "dhPrime", "g", "a", "key", "answer", "decrypted", "gB", "serverSalt"})
}

// dhFacts: crypto.CheckDHParams as the ordered list of its InRange tests (which value against
// which bounds — interpreted by the model), the definitions of the bounds and of InRange, and
// crypto.CheckGP's switch table.
func dhFacts(f *hc.Facts) {
	fn := f.FuncDecl("crypto", "CheckDHParams")
	var rows []string
	bad := fn == nil || fn.Body == nil
	if !bad {
		for _, st := range fn.Body.List {
			is, ok := st.(*ast.IfStmt)
			if !ok {
				continue
			}
			// every `if` of the function must be `if !InRange(x, lo, hi) { return errors.New(..) }`
			un, ok := is.Cond.(*ast.UnaryExpr)
			var call *ast.CallExpr
			if ok && un.Op == token.NOT {
				call, _ = un.X.(*ast.CallExpr)
			}
			if call == nil || oneLine(f.Src(call.Fun)) != "InRange" || len(call.Args) != 3 || is.Init != nil || is.Else != nil {
				bad = true
				break
			}
			if _, ok := errorReturn1(is.Body.List); !ok {
				bad = true
				break
			}
			rows = append(rows, fmt.Sprintf("(%q, %q, %q)", oneLine(f.Src(call.Args[0])), oneLine(f.Src(call.Args[1])), oneLine(f.Src(call.Args[2]))))
		}
		// … and the function ends with `return nil`
		if n := len(fn.Body.List); n == 0 {
			bad = true
		} else if rs, ok := fn.Body.List[n-1].(*ast.ReturnStmt); !ok || len(rs.Results) != 1 || oneLine(f.Src(rs.Results[0])) != "nil" {
			bad = true
		}
	}
	if bad || len(rows) == 0 {
		f.Missing("dhParamChecks", "crypto.CheckDHParams is not a sequence of `if !InRange(x, lo, hi) { return err }`")
	} else {
		f.Raw("/-- crypto.CheckDHParams: its `if !InRange(value, lo, hi) { return err }` tests, in order. -/")
		f.Raw("def dhParamChecks : List (String × String × String) := [" + strings.Join(rows, ", ") + "]")
	}
	for _, v := range []string{"one", "dhPrimeMinusOne", "safetyRangeMin", "safetyRangeMax"} {
		if rhs := assignedTo(fn, v); rhs != nil {
			f.Str("dhBound_"+v, oneLine(f.Src(rhs)), "crypto.CheckDHParams: "+v)
		} else {
			f.Missing("dhBound_"+v, v+" not defined in crypto.CheckDHParams")
		}
	}
	if ir := f.FuncDecl("crypto", "InRange"); ir != nil && ir.Body != nil && len(ir.Body.List) == 1 {
		f.Str("inRangeBody", oneLine(f.Src(ir.Body.List[0])), "crypto.InRange(x, min, max)")
	} else {
		f.Missing("inRangeBody", "crypto.InRange not found")
	}
	// CheckGP: switch g { case N: result = checkSubgroup(p, divider, residues…) | result = true }
	gp := f.FuncDecl("crypto", "CheckGP")
	var gpRows []string
	gpBad := gp == nil || gp.Body == nil
	if !gpBad {
		ast.Inspect(gp.Body, func(n ast.Node) bool {
			sw, ok := n.(*ast.SwitchStmt)
			if !ok {
				return true
			}
			if oneLine(f.Src(sw.Tag)) != "g" {
				gpBad = true
			}
			for _, c := range sw.Body.List {
				cc := c.(*ast.CaseClause)
				if len(cc.List) == 0 { // default: must be an error return
					if len(cc.Body) != 1 {
						gpBad = true
					} else if _, ok := cc.Body[0].(*ast.ReturnStmt); !ok {
						gpBad = true
					}
					continue
				}
				gv, ok := intLit(cc.List[0])
				if !ok || len(cc.List) != 1 || len(cc.Body) != 1 {
					gpBad = true
					continue
				}
				as, ok := cc.Body[0].(*ast.AssignStmt)
				if !ok || len(as.Lhs) != 1 || oneLine(f.Src(as.Lhs[0])) != "result" || len(as.Rhs) != 1 {
					gpBad = true
					continue
				}
				switch rhs := as.Rhs[0].(type) {
				case *ast.Ident:
					if rhs.Name != "true" {
						gpBad = true
					}
					gpRows = append(gpRows, fmt.Sprintf("(%d, 1, [0])", gv)) // p %% 1 = 0: no condition
				case *ast.CallExpr:
					if oneLine(f.Src(rhs.Fun)) != "checkSubgroup" || len(rhs.Args) < 3 || oneLine(f.Src(rhs.Args[0])) != "p" {
						gpBad = true
						continue
					}
					div, ok := intLit(rhs.Args[1])
					var res []string
					for _, a := range rhs.Args[2:] {
						v, ok2 := intLit(a)
						ok = ok && ok2
						res = append(res, strconv.Itoa(v))
					}
					if !ok {
						gpBad = true
					}
					gpRows = append(gpRows, fmt.Sprintf("(%d, %d, [%s])", gv, div, strings.Join(res, ", ")))
				default:
					gpBad = true
				}
			}
			return false
		})
	}
	if gpBad || len(gpRows) == 0 {
		f.Missing("gpTable", "crypto.CheckGP switch table not recognised")
	} else {
		f.Raw("/-- crypto.CheckGP: (g, divider, accepted residues of p mod divider); any other g is refused. -/")
		f.Raw("def gpTable : List (Nat × Nat × List Nat) := [" + strings.Join(gpRows, ", ") + "]")
	}
	cs := f.FuncSrc("crypto", "checkSubgroup")
	f.Bool("checkSubgroupIsRem", strings.Contains(oneLine(cs), "rem := new(big.Int).Rem(p, big.NewInt(divider)).Int64()") && strings.Contains(oneLine(cs), "if rem == e { return true }"), "crypto.checkSubgroup: rem = p rem divider; true iff rem is one of the expected values")
	// CheckDH: bit length, then CheckGP, then checkPrime (p, then (p-1)/2)
	dh := f.FuncDecl("crypto", "CheckDH")
	order := ""
	if dh != nil && dh.Body != nil {
		var parts []string
		for _, st := range dh.Body.List {
			switch x := st.(type) {
			case *ast.IfStmt:
				if x.Init != nil {
					parts = append(parts, oneLine(f.Src(x.Init))+"; "+oneLine(f.Src(x.Cond)))
				} else {
					parts = append(parts, oneLine(f.Src(x.Cond)))
				}
			case *ast.ReturnStmt:
				parts = append(parts, "return "+oneLine(f.Src(x.Results[0])))
			}
		}
		order = strings.Join(parts, " | ")
	}
	f.Str("checkDHOrder", order, "crypto.CheckDH: its tests in order")
	cp := oneLine(f.FuncSrc("crypto", "checkPrime"))
	f.Bool("checkPrimeTestsBoth", strings.Contains(cp, "if !Prime(p) {") && strings.Contains(cp, "sub := big.NewInt(0).Sub(p, big.NewInt(1))") &&
		strings.Contains(cp, "pr := sub.Quo(sub, big.NewInt(2))") && strings.Contains(cp, "if !Prime(pr) {"), "crypto.checkPrime tests Prime(p) and Prime((p-1)/2)")
}

// errorReturn1: body is a single `return <non-nil error>`.
func errorReturn1(body []ast.Stmt) (string, bool) {
	if len(body) != 1 {
		return "", false
	}
	rs, ok := body[0].(*ast.ReturnStmt)
	if !ok || len(rs.Results) != 1 {
		return "", false
	}
	if id, ok := rs.Results[0].(*ast.Ident); ok && id.Name == "nil" {
		return "", false
	}
	return "err", true
}

// RefreshC09 rewrites TdModel/Gen/C09.lean next to the `-out` file of the running `facts`
// command: C10's theorems are stated over the shared exchange model, whose facts must be
// regenerated by C10's check as well.
func RefreshC09(repo string) {
	for i, a := range os.Args {
		if a == "-out" && i+1 < len(os.Args) && os.Args[i+1] != "" {
			g := hc.NewFacts("C09", repo)
			Facts(g)
			_ = g.Write(filepath.Join(filepath.Dir(os.Args[i+1]), "C09.lean"))
		}
	}
}
