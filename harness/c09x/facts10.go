package c09x

import (
	"fmt"
	"go/ast"
	"go/token"
	"strconv"
	"strings"

	"verif/harness/hc"
)

func firstString(e ast.Node) string {
	out := ""
	ast.Inspect(e, func(n ast.Node) bool {
		if bl, ok := n.(*ast.BasicLit); ok && bl.Kind == token.STRING && out == "" {
			if s, err := strconv.Unquote(bl.Value); err == nil {
				out = s
			}
		}
		return out == ""
	})
	return out
}

func oneLine(s string) string { return strings.Join(strings.Fields(s), " ") }

// errorReturn reports whether body is `return ClientExchangeResult{}, <err>` and describes <err>.
func errorReturn(f *hc.Facts, body []ast.Stmt) (string, bool) {
	if len(body) != 1 {
		return "", false
	}
	rs, ok := body[0].(*ast.ReturnStmt)
	if !ok || len(rs.Results) != 2 {
		return "", false
	}
	if id, ok := rs.Results[1].(*ast.Ident); ok && id.Name == "nil" {
		return "", false
	}
	if s := firstString(rs.Results[1]); s != "" {
		return s, true
	}
	return oneLine(f.Src(rs.Results[1])), true
}

// Facts10 emits the facts of C10: every error exit of exchange.ClientExchange.Run in source order
// as (what is evaluated, condition, error), where an exit is an `if` whose body only returns an
// error, or a `case` of a type switch that only returns an error.
func Facts10(f *hc.Facts) {
	run := f.FuncDecl("exchange", "ClientExchange.Run")
	if run == nil || run.Body == nil {
		f.Missing("clientChecks", "exchange.ClientExchange.Run not found")
		return
	}
	var rows, guards []string
	add := func(a, b, c string) {
		row := fmt.Sprintf("  (%q, %q, %q)", a, b, c)
		rows = append(rows, row)
		// the checks of the peer's data: everything but plain `err != nil` plumbing, plus the
		// calls into crypto's validators and the answer decryption
		if b != "err != nil" || strings.HasPrefix(a, "err := crypto.") || c == "exchange answer decrypt" {
			guards = append(guards, row)
		}
	}
	ast.Inspect(run.Body, func(n ast.Node) bool {
		switch x := n.(type) {
		case *ast.IfStmt:
			if msg, ok := errorReturn(f, x.Body.List); ok {
				init := ""
				if x.Init != nil {
					init = oneLine(f.Src(x.Init))
				}
				add(init, oneLine(f.Src(x.Cond)), msg)
			}
		case *ast.CaseClause:
			if msg, ok := errorReturn(f, x.Body); ok {
				what := "default"
				if len(x.List) > 0 {
					what = oneLine(f.Src(x.List[0]))
				}
				add("case", what, msg)
			}
		}
		return true
	})
	if len(rows) == 0 {
		f.Missing("clientChecks", "no error exits found in ClientExchange.Run")
		return
	}
	f.Raw("/-- Error exits of exchange.ClientExchange.Run, in source order: (init / `case`, condition / case type, error). -/")
	f.Raw("def clientChecks : List (String × String × String) := [\n" + strings.Join(rows, ",\n") + "]")
	ProgramFacts(f, "client", "ClientExchange.Run")
	DefFacts(f, "client", "ClientExchange.Run", []string{"nonce", "serverNonce", "pq", "pqMax", "pBytes", "qBytes", "newNonce", "key",
		"dhPrime", "g", "gA", "randMax", "bParam", "gB", "authKey", "nonceHash1", "serverSalt", "authKeyID", "sessionID"})
	f.Raw("/-- The exits that test the peer's data (sub-list of `clientChecks`, same order). -/")
	f.Raw("def clientGuards : List (String × String × String) := [\n" + strings.Join(guards, ",\n") + "]")
}
