package c09x

import (
	"fmt"

	"github.com/gotd/td/bin"
	"github.com/gotd/td/mt"
	"github.com/gotd/td/proto"

	"verif/harness/hc"
)

// Envelope decodes the unencrypted-message envelope with the code under test.
func Envelope(frame []byte) (id uint64, data []byte, ok bool) {
	var u proto.UnencryptedMessage
	if err := u.Decode(&bin.Buffer{Buf: append([]byte(nil), frame...)}); err != nil {
		return 0, nil, false
	}
	return uint64(u.MessageID), u.MessageData, true
}

// EnvelopeText renders it like the driver's `envdec`.
func EnvelopeText(frame []byte) string {
	id, data, ok := Envelope(frame)
	if !ok {
		return "none"
	}
	return fmt.Sprintf("%d %s", id, hc.Hex(data))
}

func h(b []byte) string { return "H:" + hc.Hex(b) }

// RawServer: what the client's decoders make of a payload at stage 0 (ResPQ.Decode), 1
// (DecodeServerDHParams), 2 (DecodeSetClientDHParamsAnswer), ciphertexts as opaque `H:<hex>`.
func RawServer(stage int, data []byte) string {
	b := &bin.Buffer{Buf: append([]byte(nil), data...)}
	switch stage {
	case 0:
		var r mt.ResPQ
		if r.Decode(b) != nil {
			return "junk"
		}
		return fmt.Sprintf("resPQ %s %s %s %s", hc.Hex(r.Nonce[:]), hc.Hex(r.ServerNonce[:]), bigOf(r.Pq), joinU64(r.ServerPublicKeyFingerprints))
	case 1:
		p, err := mt.DecodeServerDHParams(b)
		if err != nil {
			return "junk"
		}
		switch v := p.(type) {
		case *mt.ServerDHParamsOk:
			return fmt.Sprintf("dhOk %s %s %s", hc.Hex(v.Nonce[:]), hc.Hex(v.ServerNonce[:]), h(v.EncryptedAnswer))
		case *mt.ServerDHParamsFail:
			return fmt.Sprintf("dhFail %s %s %s", hc.Hex(v.Nonce[:]), hc.Hex(v.ServerNonce[:]), hc.Hex(v.NewNonceHash[:]))
		}
	default:
		p, err := mt.DecodeSetClientDHParamsAnswer(b)
		if err != nil {
			return "junk"
		}
		switch v := p.(type) {
		case *mt.DhGenOk:
			return fmt.Sprintf("genOk %s %s %s", hc.Hex(v.Nonce[:]), hc.Hex(v.ServerNonce[:]), hc.Hex(v.NewNonceHash1[:]))
		case *mt.DhGenRetry:
			return fmt.Sprintf("genRetry %s %s %s", hc.Hex(v.Nonce[:]), hc.Hex(v.ServerNonce[:]), hc.Hex(v.NewNonceHash2[:]))
		case *mt.DhGenFail:
			return fmt.Sprintf("genFail %s %s %s", hc.Hex(v.Nonce[:]), hc.Hex(v.ServerNonce[:]), hc.Hex(v.NewNonceHash3[:]))
		}
	}
	return "junk"
}

// RawClient: a client payload as the server's decoders read it.
func RawClient(data []byte) string {
	b := &bin.Buffer{Buf: append([]byte(nil), data...)}
	id, err := b.PeekID()
	if err != nil {
		return "junk"
	}
	switch id {
	case mt.ReqPqMultiRequestTypeID:
		var r mt.ReqPqMultiRequest
		if r.Decode(b) == nil {
			return "reqPQ " + hc.Hex(r.Nonce[:])
		}
	case mt.ReqPqRequestTypeID:
		var r mt.ReqPqRequest
		if r.Decode(b) == nil {
			return "reqPQ " + hc.Hex(r.Nonce[:])
		}
	case mt.ReqDHParamsRequestTypeID:
		var r mt.ReqDHParamsRequest
		if r.Decode(b) == nil {
			return fmt.Sprintf("reqDH %s %s %s %s %d %s", hc.Hex(r.Nonce[:]), hc.Hex(r.ServerNonce[:]), bigOf(r.P), bigOf(r.Q),
				uint64(r.PublicKeyFingerprint), h(r.EncryptedData))
		}
	case mt.SetClientDHParamsRequestTypeID:
		var r mt.SetClientDHParamsRequest
		if r.Decode(b) == nil {
			return fmt.Sprintf("setDH %s %s %s", hc.Hex(r.Nonce[:]), hc.Hex(r.ServerNonce[:]), h(r.EncryptedData))
		}
	}
	return "junk"
}

// ByteLines builds the byte-level correspondence of one exchange: for every frame the envelope,
// the payload decoded by the model vs the code, the payload re-encoded by the model from the decoded
// message; for every inner-data object its TL bytes vs the model's encoding and decoding.
// Returned: driver lines, the implementation's answers, labels; prefix[i] = the model's answer only
// has to be a prefix of the implementation's (plaintext followed by padding / trailing data).
// reencodeServer=false: server frames may carry non-canonical encodings (an impostor's), so they are
// only decoded.
func ByteLines(sent, recv [][]byte, tokens []string, d *Dec, reencodeServer, canonicalNumbers bool) (lines, impl, labels []string, prefix []bool) {
	add := func(line, want, label string, pre bool) {
		lines, impl, labels, prefix = append(lines, line), append(impl, want), append(labels, label), append(prefix, pre)
	}
	frame := func(dir string, i int, f []byte) {
		add("envdec "+hc.Hex(f), EnvelopeText(f), dir+" frame "+fmt.Sprint(i)+" envelope", false)
		_, data, ok := Envelope(f)
		if !ok {
			return
		}
		var raw, stage string
		if dir == "client" {
			raw, stage = RawClient(data), "c"
		} else {
			raw, stage = RawServer(i, data), fmt.Sprint(i)
		}
		add("tldec "+stage+" "+hc.Hex(data), raw, dir+" frame "+fmt.Sprint(i)+" TL decode", false)
		if raw != "junk" && (dir == "client" || reencodeServer) {
			// re-encoding the decoded message gives the payload back (up to bytes after the object)
			add("tlenc "+raw, hc.Hex(data), dir+" frame "+fmt.Sprint(i)+" TL encode", true)
		}
	}
	for i, f := range sent {
		frame("client", i, f)
	}
	for i, f := range recv {
		frame("server", i, f)
	}
	for _, tok := range tokens {
		var plain []byte
		kind := ""
		switch {
		case len(tok) > 4 && tok[:4] == "rsa:":
			plain, kind = d.PQPlain, "rsa"
		case len(tok) > 2 && tok[:2] == "S:":
			plain, kind = d.SPlain, "S"
		case len(tok) > 2 && tok[:2] == "C:":
			plain, kind = d.CPlain, "C"
		}
		if kind == "" || plain == nil {
			continue
		}
		if canonicalNumbers { // the model holds numbers, not their byte strings: re-encoding is minimal big-endian
			add("tlencinner "+tok, hc.Hex(plain), kind+" inner data TL encode", true)
		}
		add("tldecinner "+kind+" "+hc.Hex(plain), InnerFields(tok), kind+" inner data TL decode", false)
	}
	return
}

// InnerFields strips the key part of an inner-data token: rsa:FP:rest, S:KEY:IV:rest, C:KEY:IV:rest.
func InnerFields(tok string) string {
	n := 2
	if len(tok) > 2 && (tok[:2] == "S:" || tok[:2] == "C:") {
		n = 3
	}
	for i := 0; i < len(tok); i++ {
		if tok[i] == ':' {
			n--
			if n == 0 {
				return tok[i+1:]
			}
		}
	}
	return tok
}

// ByteAgree canonicalises the implementation's answer for a prefix comparison.
func ByteAgree(impl, model string, prefix bool) string {
	if prefix && model != "none" && model != "-" && len(model) <= len(impl) && impl[:len(model)] == model {
		return model
	}
	return impl
}
