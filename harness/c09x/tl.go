package c09x

import (
	"fmt"
	"go/ast"
	"strings"

	"verif/harness/hc"
)

// tlTypeNames: the TL constructors the key exchange puts on the wire (package mt).
var tlTypeNames = []string{
	"ReqPqMultiRequest", "ReqPqRequest", "ResPQ", "ReqDHParamsRequest", "PQInnerDataDC", "PQInnerDataTempDC",
	"ServerDHParamsOk", "ServerDHParamsFail", "ServerDHInnerData", "SetClientDHParamsRequest", "ClientDHInnerData",
	"DhGenOk", "DhGenRetry", "DhGenFail",
}

// TLFacts emits, for each of those constructors, its id and the order and kind of its fields as
// written by the generated EncodeBare and as read by the generated DecodeBare
// (kinds: Int128 Int256 Bytes Int Long VectorLong).  The Lean model interprets these layouts.
func TLFacts(f *hc.Facts) {
	var rows []string
	for _, t := range tlTypeNames {
		id, ok := f.ConstInt("mt", t+"TypeID")
		enc := f.FuncDecl("mt", t+".EncodeBare")
		dec := f.FuncDecl("mt", t+".DecodeBare")
		if !ok || enc == nil || dec == nil || enc.Body == nil || dec.Body == nil {
			f.Missing("tlLayouts", "mt."+t+": id / EncodeBare / DecodeBare not found")
			return
		}
		var ef, df []string
		bad := ""
		// EncodeBare: top-level statements `b.PutK(x.F)`; `b.PutVectorHeader(len(x.F))` + `for … { b.PutLong(v) }`
		for i := 0; i < len(enc.Body.List); i++ {
			switch st := enc.Body.List[i].(type) {
			case *ast.ExprStmt:
				c, ok := st.X.(*ast.CallExpr)
				if !ok {
					bad = "expr"
					continue
				}
				fn := oneLine(f.Src(c.Fun))
				if !strings.HasPrefix(fn, "b.Put") || len(c.Args) != 1 {
					bad = "call " + fn
					continue
				}
				kind := strings.TrimPrefix(fn, "b.Put")
				arg := oneLine(f.Src(c.Args[0]))
				if kind == "VectorHeader" {
					// must be followed by the loop writing longs
					field := strings.TrimSuffix(strings.TrimPrefix(arg, "len("), ")")
					if i+1 < len(enc.Body.List) {
						if rs, ok := enc.Body.List[i+1].(*ast.RangeStmt); ok && oneLine(f.Src(rs.X)) == field &&
							len(rs.Body.List) == 1 && oneLine(f.Src(rs.Body.List[0])) == "b.PutLong(v)" {
							ef = append(ef, fmt.Sprintf("(%q, %q)", "VectorLong", field[strings.Index(field, ".")+1:]))
							i++
							continue
						}
					}
					bad = "vector"
					continue
				}
				ef = append(ef, fmt.Sprintf("(%q, %q)", kind, arg[strings.Index(arg, ".")+1:]))
			case *ast.IfStmt: // the nil-receiver check
				if !strings.Contains(oneLine(f.Src(st.Cond)), "== nil") {
					bad = "if"
				}
			case *ast.ReturnStmt:
			default:
				bad = "stmt"
			}
		}
		// DecodeBare: the reads `b.K()` in source order
		ast.Inspect(dec.Body, func(n ast.Node) bool {
			c, ok := n.(*ast.CallExpr)
			if !ok {
				return true
			}
			fn := oneLine(f.Src(c.Fun))
			if strings.HasPrefix(fn, "b.") && len(c.Args) == 0 {
				df = append(df, strings.TrimPrefix(fn, "b."))
			}
			return true
		})
		// VectorHeader followed by Long = VectorLong
		var dk []string
		for i := 0; i < len(df); i++ {
			if df[i] == "VectorHeader" && i+1 < len(df) && df[i+1] == "Long" {
				dk = append(dk, `"VectorLong"`)
				i++
			} else {
				dk = append(dk, fmt.Sprintf("%q", df[i]))
			}
		}
		if bad != "" {
			f.Missing("tlLayouts", "mt."+t+".EncodeBare: unexpected "+bad)
			return
		}
		rows = append(rows, fmt.Sprintf("  (%q, %s, [%s], [%s])", t, id, strings.Join(ef, ", "), strings.Join(dk, ", ")))
	}
	f.Raw("/-- mt constructors of the key exchange: (type, id, fields written by EncodeBare as (kind, field), kinds read by DecodeBare). -/")
	f.Raw("def tlLayouts : List (String × Nat × List (String × String) × List String) := [\n" + strings.Join(rows, ",\n") + "]")
	// Encode = id then EncodeBare; Decode = ConsumeID then DecodeBare
	ok := true
	for _, t := range tlTypeNames {
		e := oneLine(f.FuncSrc("mt", t+".Encode"))
		d := oneLine(f.FuncSrc("mt", t+".Decode"))
		if !strings.Contains(e, "b.PutID("+t+"TypeID)") || !strings.Contains(e, ".EncodeBare(b)") ||
			!strings.Contains(d, "b.ConsumeID("+t+"TypeID)") || !strings.Contains(d, ".DecodeBare(b)") {
			ok = false
		}
	}
	f.Bool("tlBoxedIsIdThenBare", ok, "every listed type: Encode = PutID(TypeID) + EncodeBare, Decode = ConsumeID(TypeID) + DecodeBare")
}
