package c09x

import (
	"crypto/sha1"
	"encoding/binary"
	"fmt"
	"math/big"
	"strings"

	"github.com/gotd/td/exchange"

	"verif/harness/hc"
)

// ClientErrTag maps an error of exchange.ClientExchange.Run to the model's CErr tag
// ("io" for transport errors/timeouts, which the message-level model does not have).
func ClientErrTag(err error) string {
	if err == nil {
		return ""
	}
	s := err.Error()
	has := func(x string) bool { return strings.Contains(s, x) }
	switch {
	case has("ResPQ nonce mismatch"):
		return "res-nonce"
	case has(exchange.ErrKeyFingerprintNotFound.Error()):
		return "no-key"
	case has("server provided bad pq"):
		return "bad-pq"
	case has("decompose pq"):
		return "factor"
	case has("ServerDHParamsOk server nonce mismatch"):
		return "dh-server-nonce"
	case has("ServerDHParamsOk nonce mismatch"):
		return "dh-nonce"
	case has("ServerDHInnerData server nonce mismatch"):
		return "inner-server-nonce"
	case has("ServerDHInnerData nonce mismatch"):
		return "inner-nonce"
	case has("exchange answer decrypt"), has("server_DH_inner_data"):
		return "decrypt"
	case has("check DH params"):
		return "check-dh"
	case has("key exchange failed: invalid params"):
		return "dh-params"
	case has("server_DH_params_fail"):
		return "dh-fail"
	case has("DhGenOk server nonce mismatch"):
		return "gen-server-nonce"
	case has("DhGenOk nonce mismatch"):
		return "gen-nonce"
	case has("hash mismatch"):
		return "hash"
	case has("retry required"):
		return "retry"
	case has("dh_hen_fail"):
		return "gen-fail"
	case has("write ReqPqMultiRequest"), has("write ReqDHParamsRequest"), has("write SetClientDHParamsRequest"),
		has("read ServerDHParams message"), has("read DhGen message"),
		has("deadline exceeded"), has("i/o timeout"), has("closed pipe"), has("EOF") && has("read ResPQ response: read"):
		return "io"
	case has("read ResPQ response"), has("decode ServerDHParams message"), has("ServerDHParams"), has("unexpected ReqDHParamsRequest result"),
		has("decode DhGen message"), has("decode DhGen answer"), has("unexpected SetClientDHParamsRequest result"):
		return "junk"
	}
	return "other:" + s
}

// ClientResult renders a client result like the model's showCState.
func ClientResult(r exchange.ClientExchangeResult, err error) string {
	if err != nil {
		return "failed " + ClientErrTag(err)
	}
	var salt [8]byte
	binary.LittleEndian.PutUint64(salt[:], uint64(r.ServerSalt))
	return fmt.Sprintf("done %s %s %s %d", new(big.Int).SetBytes(r.AuthKey.Value[:]).String(), hc.Hex(r.AuthKey.ID[:]), hc.Hex(salt[:]), uint64(r.SessionID))
}

// ServerResult renders a server result like the model's showSState.
func ServerResult(r exchange.ServerExchangeResult, err error) string {
	if err != nil {
		return "failed " + err.Error()
	}
	var salt [8]byte
	binary.LittleEndian.PutUint64(salt[:], uint64(r.ServerSalt))
	return fmt.Sprintf("done %s %s %s", new(big.Int).SetBytes(r.Key.Value[:]).String(), hc.Hex(r.Key.ID[:]), hc.Hex(salt[:]))
}

// SHA1 of b.
func SHA1(b []byte) []byte {
	h := sha1.Sum(b)
	return h[:]
}

// OutcomeClass is "done" or "failed <tag>" (for distribution counters).
func OutcomeClass(res string) string {
	f := strings.Fields(res)
	if len(f) >= 2 && f[0] == "failed" {
		if strings.HasPrefix(f[1], "other:") {
			return "failed other"
		}
		return "failed " + f[1]
	}
	if len(f) >= 1 {
		return f[0]
	}
	return "?"
}

// BigOf parses a decimal number (nil if malformed).
func BigOf(s string) *big.Int {
	n, ok := new(big.Int).SetString(s, 10)
	if !ok {
		return nil
	}
	return n
}
