package c09x

import (
	"bytes"
	"crypto/aes"
	"crypto/sha1"
	"io"
	"math/big"
	"sync"

	"github.com/gotd/ige"
)

// DirReader is a random tape with directed draws: a Read of length n takes the next queued value
// for that length (if any) instead of bytes from R.  `rand.Int(r, 2^2048)` reads exactly 256 bytes,
// the nonces 16 and 32 bytes, so the DH exponents and nonces of either side can be chosen.
type DirReader struct {
	R  io.Reader
	mu sync.Mutex
	Q  map[int][][]byte
}

// Push queues a directed value for reads of len(v) bytes.
func (d *DirReader) Push(v []byte) {
	d.mu.Lock()
	if d.Q == nil {
		d.Q = map[int][][]byte{}
	}
	d.Q[len(v)] = append(d.Q[len(v)], append([]byte(nil), v...))
	d.mu.Unlock()
}

// PushExp queues a DH exponent (the next 256-byte draw).
func (d *DirReader) PushExp(e *big.Int) {
	b := make([]byte, 256)
	e.FillBytes(b)
	d.Push(b)
}

func (d *DirReader) Read(p []byte) (int, error) {
	d.mu.Lock()
	if q := d.Q[len(p)]; len(q) > 0 {
		copy(p, q[0])
		d.Q[len(p)] = q[1:]
		d.mu.Unlock()
		return len(p), nil
	}
	d.mu.Unlock()
	return d.R.Read(p)
}

// All256 returns every 256-byte read in order (the server's successive draws of `a`).
func (r *RecReader) All256() []*big.Int {
	r.mu.Lock()
	defer r.mu.Unlock()
	var out []*big.Int
	for _, x := range r.Reads {
		if len(x) == 256 {
			out = append(out, new(big.Int).SetBytes(x))
		}
	}
	return out
}

// SmallExp describes a small exponent e with 3^e < 2^2047 (so 3^e mod p = 3^e for every 2048-bit
// p): the byte length of 3^e and whether it lies above the 2^1984 margin.
type SmallExp struct {
	E      int
	Len    int  // bytes of 3^e (256 − leading zero bytes)
	InSafe bool // 2^1984 < 3^e
}

// SmallExps lists e = 2 … 1291 worth directing: all in-range ones (e ≥ 1252: 3^e has 249…256
// bytes, i.e. 0…7 leading zero bytes: every TL/padding alignment class of g_a / g_b) and a
// sample of weak ones (3^e ≤ 2^1984).
func SmallExps() (strong, weak []SmallExp) {
	lo := new(big.Int).Lsh(big.NewInt(1), 1984)
	three := big.NewInt(3)
	for e := 2; e <= 1291; e++ {
		v := new(big.Int).Exp(three, big.NewInt(int64(e)), nil)
		s := SmallExp{E: e, Len: (v.BitLen() + 7) / 8, InSafe: v.Cmp(lo) > 0}
		if s.InSafe {
			strong = append(strong, s)
		} else if e < 8 || e%97 == 0 || e > 1240 {
			weak = append(weak, s)
		}
	}
	return
}

// StrictAnswer decrypts an exchange answer the way the specification defines it, independently of
// crypto.DecryptExchangeAnswer / GuessDataWithHash (the code under test): AES-256-IGE, then
// data_with_hash = SHA1(data) + data + 0…15 padding bytes.  nil = not a valid answer.
func StrictAnswer(enc, key, iv []byte) []byte {
	if len(enc) == 0 || len(enc)%16 != 0 || len(key) != 32 || len(iv) != 32 {
		return nil
	}
	c, err := aes.NewCipher(key)
	if err != nil {
		return nil
	}
	plain := make([]byte, len(enc))
	ige.DecryptBlocks(c, iv, plain, enc)
	if len(plain) <= sha1.Size {
		return nil
	}
	for pad := 0; pad < 16 && len(plain)-pad >= sha1.Size; pad++ {
		data := plain[sha1.Size : len(plain)-pad]
		h := sha1.Sum(data)
		if bytes.Equal(h[:], plain[:sha1.Size]) {
			return data
		}
	}
	return nil
}

// EncryptAnswerPad builds an exchange answer with caller-chosen padding:
// AES-256-IGE(SHA1(data) + data + pad); len(SHA1+data+pad) must be a multiple of 16.
func EncryptAnswerPad(data, key, iv, pad []byte) []byte {
	h := sha1.Sum(data)
	plain := append(append(append([]byte{}, h[:]...), data...), pad...)
	if len(plain)%16 != 0 {
		return nil
	}
	c, err := aes.NewCipher(key)
	if err != nil {
		return nil
	}
	out := make([]byte, len(plain))
	ige.EncryptBlocks(c, iv, out, plain)
	return out
}

// LastN returns the last read of exactly n bytes (nil if none).
func (r *RecReader) LastN(n int) []byte {
	r.mu.Lock()
	defer r.mu.Unlock()
	for i := len(r.Reads) - 1; i >= 0; i-- {
		if len(r.Reads[i]) == n {
			return r.Reads[i]
		}
	}
	return nil
}
