package c09x

import (
	"fmt"
	"go/ast"
	"go/token"
	"strings"

	"verif/harness/hc"
)

// Program extraction: exchange.ClientExchange.Run / ServerExchange.Run as a structured statement
// list that the Lean model interprets.  Rows (kind, a, b, err), in source order:
//
//	("send", T, [], err)        writeUnencrypted of a value of TL type T
//	("recv", how, [into], err)  readUnencrypted(…, &into) | tryRead
//	("ne", A, [B], err)         if A != B { return err }
//	("cond", C, [], err)        if C { return err }            (any other condition)
//	("callerr", F, args, err)   if err := F(args); err != nil { return err }   or   x, err := F(args); if err != nil { return err }
//	("case", T, [], err)        case T: return err             (type switch; "default" for default)
//	("caseok", T, [], "")       case T: … (the flow continues inside)
//	("ret", "", [], "")         return result, nil
//
// and the composite literals that are sent or encrypted: (T, [(field, expression)]).
type progWalker struct {
	f        *hc.Facts
	recv     string
	fn       *ast.FuncDecl
	rows     []string
	lits     []string
	lastFn   string
	lastArgs []string // callee and arguments of the last `…, err := F(args)`
	seenLit  map[string]bool
}

// add emits a row; args = the operands after the first (call arguments, right-hand side of `!=`).
func (w *progWalker) add(kind, a string, args []string, e string) {
	q := make([]string, len(args))
	for i, x := range args {
		q[i] = fmt.Sprintf("%q", x)
	}
	w.rows = append(w.rows, fmt.Sprintf("  (%q, %q, [%s], %q)", kind, a, strings.Join(q, ", "), e))
}

func (w *progWalker) src(n ast.Node) string { return oneLine(w.f.Src(n)) }

func argList(w *progWalker, c *ast.CallExpr) []string {
	var a []string
	for _, x := range c.Args {
		a = append(a, w.src(x))
	}
	return a
}

// litOf resolves an expression to the composite literal it denotes (`&mt.T{…}`, `mt.T{…}` or an
// identifier assigned one in this function).
func (w *progWalker) litOf(e ast.Expr) *ast.CompositeLit {
	switch x := e.(type) {
	case *ast.UnaryExpr:
		if x.Op == token.AND {
			return w.litOf(x.X)
		}
	case *ast.CompositeLit:
		return x
	case *ast.Ident:
		var out *ast.CompositeLit
		ast.Inspect(w.fn.Body, func(n ast.Node) bool {
			as, ok := n.(*ast.AssignStmt)
			if ok && len(as.Lhs) == 1 && len(as.Rhs) == 1 {
				if id, ok := as.Lhs[0].(*ast.Ident); ok && id.Name == x.Name && out == nil {
					out = w.litOf(as.Rhs[0])
				}
			}
			return out == nil
		})
		return out
	}
	return nil
}

func typeName(w *progWalker, cl *ast.CompositeLit) string {
	s := w.src(cl.Type)
	return s[strings.LastIndex(s, ".")+1:]
}

func (w *progWalker) recordLit(cl *ast.CompositeLit) string {
	if cl == nil {
		return "?"
	}
	t := typeName(w, cl)
	var fs []string
	for _, el := range cl.Elts {
		if kv, ok := el.(*ast.KeyValueExpr); ok {
			fs = append(fs, fmt.Sprintf("(%q, %q)", w.src(kv.Key), w.src(kv.Value)))
		}
	}
	row := fmt.Sprintf("  (%q, [%s])", t, strings.Join(fs, ", "))
	if !w.seenLit[row] {
		w.seenLit[row] = true
		w.lits = append(w.lits, row)
	}
	return t
}

// isErrReturn: the block ends by returning a non-nil error (statements before the return may
// only build that error); the text is the first string literal in the block, else the returned
// expression.
func isErrReturn(w *progWalker, body []ast.Stmt) (string, bool) {
	if len(body) == 0 {
		return "", false
	}
	rs, ok := body[len(body)-1].(*ast.ReturnStmt)
	if !ok || len(rs.Results) != 2 {
		return "", false
	}
	if id, ok := rs.Results[1].(*ast.Ident); ok && id.Name == "nil" {
		return "", false
	}
	for _, st := range body[:len(body)-1] {
		if _, ok := st.(*ast.AssignStmt); !ok {
			return "", false
		}
	}
	for _, st := range body {
		if s := firstString(st); s != "" {
			return s, true
		}
	}
	return w.src(rs.Results[1]), true
}

// guardCall emits the row for an error-checked call.
func (w *progWalker) guardCall(call *ast.CallExpr, msg string) {
	p := w.src(call.Fun)
	switch {
	case p == w.recv+".writeUnencrypted" && len(call.Args) == 3:
		w.add("send", w.recordLit(w.litOf(call.Args[2])), nil, msg)
	case p == w.recv+".readUnencrypted" && len(call.Args) == 3:
		w.add("recv", "readUnencrypted", []string{strings.TrimPrefix(w.src(call.Args[2]), "&")}, msg)
	case p == w.recv+".tryRead":
		w.add("recv", "tryRead", nil, msg)
	case p == w.recv+".conn.Recv":
		w.add("recv", "conn.Recv", nil, msg)
	default:
		w.add("callerr", p, argList(w, call), msg)
	}
}

func (w *progWalker) walk(list []ast.Stmt) {
	for _, st := range list {
		switch x := st.(type) {
		case *ast.AssignStmt:
			// remember `…, err := F(args)` for the `if err != nil` that follows
			if len(x.Rhs) == 1 {
				if c, ok := x.Rhs[0].(*ast.CallExpr); ok {
					for _, l := range x.Lhs {
						if id, ok := l.(*ast.Ident); ok && id.Name == "err" {
							w.lastFn, w.lastArgs = w.src(c.Fun), argList(w, c)
						}
					}
				}
				// literals that get encoded and encrypted (inner data)
				if cl := w.litOf(x.Rhs[0]); cl != nil && len(x.Lhs) == 1 {
					if t := typeName(w, cl); strings.Contains(t, "Inner") {
						w.recordLit(cl)
					}
				}
			}
		case *ast.IfStmt:
			if msg, ok := isErrReturn(w, x.Body.List); ok && x.Else == nil {
				cond := w.src(x.Cond)
				switch {
				case x.Init != nil:
					if as, ok := x.Init.(*ast.AssignStmt); ok && len(as.Rhs) == 1 {
						if c, ok := as.Rhs[0].(*ast.CallExpr); ok && cond == "err != nil" {
							w.guardCall(c, msg)
							continue
						}
					}
					w.add("cond", w.src(x.Init)+"; "+cond, nil, msg)
				case cond == "err != nil":
					w.add("callerr", w.lastFn, w.lastArgs, msg)
				default:
					if be, ok := x.Cond.(*ast.BinaryExpr); ok && be.Op == token.NEQ {
						w.add("ne", w.src(be.X), []string{w.src(be.Y)}, msg)
					} else {
						w.add("cond", cond, nil, msg)
					}
				}
				continue
			}
			// a conditional block that is not an error exit: look inside (assignments, nested exits)
			w.walk(x.Body.List)
			if x.Else != nil {
				if b, ok := x.Else.(*ast.BlockStmt); ok {
					w.walk(b.List)
				}
			}
		case *ast.SwitchStmt:
			for _, c := range x.Body.List {
				cc := c.(*ast.CaseClause)
				if x.Tag != nil && len(cc.List) > 0 {
					var vs []string
					for _, e := range cc.List {
						vs = append(vs, w.src(e))
					}
					w.add("switch", w.src(x.Tag), vs, "")
				}
				w.walk(cc.Body)
			}
		case *ast.TypeSwitchStmt:
			for _, c := range x.Body.List {
				cc := c.(*ast.CaseClause)
				t := "default"
				if len(cc.List) > 0 {
					t = w.src(cc.List[0])
				}
				if msg, ok := isErrReturn(w, cc.Body); ok {
					w.add("case", t, nil, msg)
				} else {
					w.add("caseok", t, nil, "")
					w.walk(cc.Body)
				}
			}
		case *ast.BlockStmt:
			w.walk(x.List)
		case *ast.LabeledStmt:
			w.add("label", x.Label.Name, nil, "")
			w.walk([]ast.Stmt{x.Stmt})
		case *ast.BranchStmt:
			if x.Tok == token.GOTO && x.Label != nil {
				w.add("goto", x.Label.Name, nil, "")
			}
		case *ast.ReturnStmt:
			if len(x.Results) == 2 {
				if id, ok := x.Results[1].(*ast.Ident); ok && id.Name == "nil" {
					w.add("ret", "", nil, "")
				}
			}
		}
	}
}

// DefFacts emits `<prefix>Defs`: the defining expression of each listed local of a Run method
// (first `name := expr` / `name, … := expr` in source order).
func DefFacts(f *hc.Facts, prefix, method string, names []string) {
	fn := f.FuncDecl("exchange", method)
	var rows []string
	for _, n := range names {
		def := ""
		if fn != nil && fn.Body != nil {
			ast.Inspect(fn.Body, func(m ast.Node) bool {
				as, ok := m.(*ast.AssignStmt)
				if !ok || def != "" || len(as.Rhs) != 1 {
					return def == ""
				}
				for _, l := range as.Lhs {
					if id, ok := l.(*ast.Ident); ok && id.Name == n {
						def = oneLine(f.Src(as.Rhs[0]))
					}
				}
				return def == ""
			})
		}
		rows = append(rows, fmt.Sprintf("  (%q, %q)", n, def))
	}
	f.Raw(fmt.Sprintf("/-- Defining expressions of the locals of exchange.%s that the program rows mention. -/", method))
	f.Raw("def " + prefix + "Defs : List (String × String) := [\n" + strings.Join(rows, ",\n") + "]")
}

// ProgramFacts emits `<prefix>Program` and `<prefix>Literals` for a Run method.
func ProgramFacts(f *hc.Facts, prefix, method string) {
	fn := f.FuncDecl("exchange", method)
	if fn == nil || fn.Body == nil || fn.Recv == nil || len(fn.Recv.List) != 1 || len(fn.Recv.List[0].Names) != 1 {
		f.Missing(prefix+"Program", "exchange."+method+" not found")
		return
	}
	w := &progWalker{f: f, recv: fn.Recv.List[0].Names[0].Name, fn: fn, seenLit: map[string]bool{}}
	w.walk(fn.Body.List)
	if len(w.rows) == 0 {
		f.Missing(prefix+"Program", "no statements recognised in exchange."+method)
		return
	}
	f.Raw(fmt.Sprintf("/-- exchange.%s as a statement list (kind, a, b, error), in source order; see harness/c09x/program.go. -/", method))
	f.Raw("def " + prefix + "Program : List (String × String × List String × String) := [\n" + strings.Join(w.rows, ",\n") + "]")
	f.Raw(fmt.Sprintf("/-- The composite literals exchange.%s sends or encrypts: (TL type, [(field, expression)]). -/", method))
	f.Raw("def " + prefix + "Literals : List (String × List (String × String)) := [\n" + strings.Join(w.lits, ",\n") + "]")
}
