package c09x

import (
	"context"
	"crypto/rsa"
	"fmt"
	"io"
	"math/big"
	"strings"
	"sync"

	"github.com/gotd/td/bin"
	"github.com/gotd/td/crypto"
	"github.com/gotd/td/mt"
	"github.com/gotd/td/proto"
	"github.com/gotd/td/transport"

	"verif/harness/hc"
)

// Tap records every frame passing a transport.Conn (the unencrypted-message envelopes of the
// exchange) and can replace incoming frames (C10's man in the middle).
type Tap struct {
	Inner transport.Conn
	// OnRecv, when set, sees the i-th frame received from the peer and returns the frame the
	// client is given instead.
	OnRecv func(i int, frame []byte) []byte

	mu    sync.Mutex
	Sent  [][]byte
	Recvd [][]byte // as delivered to the client (after OnRecv)
	Orig  [][]byte // as sent by the peer
}

func (t *Tap) Send(ctx context.Context, b *bin.Buffer) error {
	t.mu.Lock()
	t.Sent = append(t.Sent, append([]byte(nil), b.Buf...))
	t.mu.Unlock()
	return t.Inner.Send(ctx, b)
}

func (t *Tap) Recv(ctx context.Context, b *bin.Buffer) error {
	if err := t.Inner.Recv(ctx, b); err != nil {
		return err
	}
	t.mu.Lock()
	i := len(t.Recvd)
	orig := append([]byte(nil), b.Buf...)
	t.Orig = append(t.Orig, orig)
	out := orig
	if t.OnRecv != nil {
		out = t.OnRecv(i, append([]byte(nil), orig...))
	}
	t.Recvd = append(t.Recvd, out)
	t.mu.Unlock()
	b.ResetTo(append([]byte(nil), out...))
	return nil
}

func (t *Tap) Close() error { return t.Inner.Close() }

// Frames returns copies of what was sent and what was delivered.
func (t *Tap) Frames() (sent, recvd [][]byte) {
	t.mu.Lock()
	defer t.mu.Unlock()
	return append([][]byte(nil), t.Sent...), append([][]byte(nil), t.Recvd...)
}

// RecReader records every Read (length and bytes): the random tape as it was consumed.
type RecReader struct {
	R     io.Reader
	mu    sync.Mutex
	Reads [][]byte
}

func (r *RecReader) Read(p []byte) (int, error) {
	n, err := r.R.Read(p)
	r.mu.Lock()
	r.Reads = append(r.Reads, append([]byte(nil), p[:n]...))
	r.mu.Unlock()
	return n, err
}

// Last256 is the last 256-byte read: `rand.Int(r, 2^2048)` reads exactly 256 bytes and uses them
// big-endian (the DH exponents b of the client and a of TestServerRNG.GA).
func (r *RecReader) Last256() *big.Int {
	r.mu.Lock()
	defer r.mu.Unlock()
	for i := len(r.Reads) - 1; i >= 0; i-- {
		if len(r.Reads[i]) == 256 {
			return new(big.Int).SetBytes(r.Reads[i])
		}
	}
	return nil
}

// Dec turns wire frames into the model's abstract messages.  It owns every RSA private key a
// ciphertext may be addressed to and learns new_nonce / server_nonce on the way.
type Dec struct {
	Keys        map[uint64]*rsa.PrivateKey // by fingerprint
	NewNonce    []byte                     // from the last decrypted p_q_inner_data (or set by the caller)
	ServerNonce []byte                     // from the last ResPQ the client accepted
	// filled while decoding, for the callers
	Inner *mt.ServerDHInnerData
	GB    *big.Int
	// plaintext TL bytes of the three inner-data objects, as recovered by the harness
	PQPlain, SPlain, CPlain []byte
}

func U64(x int64) uint64 { return uint64(x) }

func joinU64(xs []int64) string {
	if len(xs) == 0 {
		return "-"
	}
	s := make([]string, len(xs))
	for i, x := range xs {
		s[i] = fmt.Sprint(uint64(x))
	}
	return strings.Join(s, ",")
}

func bigOf(b []byte) string { return new(big.Int).SetBytes(b).String() }

// payload strips the unencrypted-message envelope; checkType = the receiver runs checkMsgID.
func payload(frame []byte, wantType proto.MessageType, checkType bool) ([]byte, bool) {
	var u proto.UnencryptedMessage
	if err := u.Decode(&bin.Buffer{Buf: append([]byte(nil), frame...)}); err != nil {
		return nil, false
	}
	if checkType && proto.MessageID(u.MessageID).Type() != wantType {
		return nil, false
	}
	return u.MessageData, true
}

// tempKeys = crypto.TempAESKeys of the implementation under test (its agreement with the model's
// tempAESKeys is part of the correspondence: the key and iv appear in the ciphertext token).
func tempKeys(newNonce, serverNonce []byte) (key, iv []byte) {
	return crypto.TempAESKeys(new(big.Int).SetBytes(newNonce), new(big.Int).SetBytes(serverNonce))
}

// answer decrypts an exchange answer with the temporary keys; nil = not a valid answer.  It uses
// the harness' own spec-level decryption (StrictAnswer), not the code under test.
func (d *Dec) answer(enc []byte) (key, iv, data []byte) {
	if len(d.NewNonce) != 32 || len(d.ServerNonce) != 16 {
		return nil, nil, nil
	}
	key, iv = tempKeys(d.NewNonce, d.ServerNonce)
	return key, iv, StrictAnswer(enc, key, iv)
}

// Client decodes the i-th frame sent by the client (0: req_pq, 1: req_DH_params, 2: set_client_DH_params).
func (d *Dec) Client(i int, frame []byte) string {
	data, ok := payload(frame, proto.MessageFromClient, true)
	if !ok {
		return "junk"
	}
	b := &bin.Buffer{Buf: data}
	id, err := b.PeekID()
	if err != nil {
		return "junk"
	}
	switch id {
	case mt.ReqPqMultiRequestTypeID:
		var r mt.ReqPqMultiRequest
		if r.Decode(b) != nil {
			return "junk"
		}
		return "reqPQ " + hc.Hex(r.Nonce[:])
	case mt.ReqPqRequestTypeID:
		var r mt.ReqPqRequest
		if r.Decode(b) != nil {
			return "junk"
		}
		return "reqPQ " + hc.Hex(r.Nonce[:])
	case mt.ReqDHParamsRequestTypeID:
		var r mt.ReqDHParamsRequest
		if r.Decode(b) != nil {
			return "junk"
		}
		ct := "X"
		if k := d.Keys[uint64(r.PublicKeyFingerprint)]; k != nil {
			if raw, err := crypto.DecodeRSAPad(r.EncryptedData, k); err == nil {
				d.PQPlain = append([]byte(nil), raw...)
				if in, err := mt.DecodePQInnerData(&bin.Buffer{Buf: raw}); err == nil {
					nn := in.GetNewNonce()
					n, sn := in.GetNonce(), in.GetServerNonce()
					d.NewNonce = append([]byte(nil), nn[:]...)
					temp, dc, exp := "0", 0, 0
					switch v := in.(type) {
					case *mt.PQInnerDataDC:
						dc = v.DC
					case *mt.PQInnerDataTempDC:
						temp, dc, exp = "1", v.DC, v.ExpiresIn
					default:
						temp = "?"
					}
					ct = fmt.Sprintf("rsa:%d:%s:%s:%s:%s:%s:%s:%s:%d:%d", uint64(r.PublicKeyFingerprint), temp,
						bigOf(in.GetPq()), bigOf(in.GetP()), bigOf(in.GetQ()), hc.Hex(n[:]), hc.Hex(sn[:]), hc.Hex(nn[:]), dc, exp)
				}
			}
		}
		return fmt.Sprintf("reqDH %s %s %s %s %d %s", hc.Hex(r.Nonce[:]), hc.Hex(r.ServerNonce[:]), bigOf(r.P), bigOf(r.Q),
			uint64(r.PublicKeyFingerprint), ct)
	case mt.SetClientDHParamsRequestTypeID:
		var r mt.SetClientDHParamsRequest
		if r.Decode(b) != nil {
			return "junk"
		}
		ct := "X"
		if key, iv, data := d.answer(r.EncryptedData); data != nil {
			d.CPlain = append([]byte(nil), data...)
			var in mt.ClientDHInnerData
			if in.Decode(&bin.Buffer{Buf: data}) == nil {
				d.GB = new(big.Int).SetBytes(in.GB)
				ct = fmt.Sprintf("C:%s:%s:%s:%s:%d:%s", hc.Hex(key), hc.Hex(iv), hc.Hex(in.Nonce[:]), hc.Hex(in.ServerNonce[:]), in.RetryID, bigOf(in.GB))
			}
		}
		return fmt.Sprintf("setDH %s %s %s", hc.Hex(r.Nonce[:]), hc.Hex(r.ServerNonce[:]), ct)
	}
	return "junk"
}

// Server decodes the i-th frame delivered to the client (0: ResPQ, 1: Server_DH_Params,
// 2: Set_client_DH_params_answer) the way the client reads it at that step.
func (d *Dec) Server(i int, frame []byte) string {
	// only the ResPQ read goes through readUnencrypted (checkMsgID); steps 5 and 7 decode the
	// envelope without looking at the message id
	data, ok := payload(frame, proto.MessageServerResponse, i == 0)
	if !ok {
		return "junk"
	}
	b := &bin.Buffer{Buf: data}
	switch i {
	case 0:
		var r mt.ResPQ
		if r.Decode(b) != nil {
			return "junk"
		}
		d.ServerNonce = append([]byte(nil), r.ServerNonce[:]...)
		return fmt.Sprintf("resPQ %s %s %s %s", hc.Hex(r.Nonce[:]), hc.Hex(r.ServerNonce[:]), bigOf(r.Pq), joinU64(r.ServerPublicKeyFingerprints))
	case 1:
		p, err := mt.DecodeServerDHParams(b)
		if err != nil {
			return "junk"
		}
		switch v := p.(type) {
		case *mt.ServerDHParamsOk:
			ct := "X"
			// the client decrypts with the server nonce it accepted in ResPQ
			if key, iv, data := d.answer(v.EncryptedAnswer); data != nil {
				d.SPlain = append([]byte(nil), data...)
				var in mt.ServerDHInnerData
				if in.Decode(&bin.Buffer{Buf: data}) == nil {
					d.Inner = &in
					ct = fmt.Sprintf("S:%s:%s:%s:%s:%d:%s:%s:%d", hc.Hex(key), hc.Hex(iv), hc.Hex(in.Nonce[:]), hc.Hex(in.ServerNonce[:]),
						in.G, bigOf(in.DhPrime), bigOf(in.GA), in.ServerTime)
				}
			}
			return fmt.Sprintf("dhOk %s %s %s", hc.Hex(v.Nonce[:]), hc.Hex(v.ServerNonce[:]), ct)
		case *mt.ServerDHParamsFail:
			return fmt.Sprintf("dhFail %s %s %s", hc.Hex(v.Nonce[:]), hc.Hex(v.ServerNonce[:]), hc.Hex(v.NewNonceHash[:]))
		}
	case 2:
		p, err := mt.DecodeSetClientDHParamsAnswer(b)
		if err != nil {
			return "junk"
		}
		switch v := p.(type) {
		case *mt.DhGenOk:
			return fmt.Sprintf("genOk %s %s %s", hc.Hex(v.Nonce[:]), hc.Hex(v.ServerNonce[:]), hc.Hex(v.NewNonceHash1[:]))
		case *mt.DhGenRetry:
			return fmt.Sprintf("genRetry %s %s %s", hc.Hex(v.Nonce[:]), hc.Hex(v.ServerNonce[:]), hc.Hex(v.NewNonceHash2[:]))
		case *mt.DhGenFail:
			return fmt.Sprintf("genFail %s %s %s", hc.Hex(v.Nonce[:]), hc.Hex(v.ServerNonce[:]), hc.Hex(v.NewNonceHash3[:]))
		}
	}
	return "junk"
}

var (
	primeMu    sync.Mutex
	primeCache = map[string]bool{} // crypto.Prime is deterministic for a given number here (fixed bases + BPSW)
)

// Primes lists, for the model's primality oracle, which of the candidates crypto.Prime accepts.
func Primes(cands ...*big.Int) string {
	var out []string
	seen := map[string]bool{}
	for _, c := range cands {
		if c == nil || c.Sign() <= 0 || seen[c.String()] {
			continue
		}
		seen[c.String()] = true
		primeMu.Lock()
		isP, ok := primeCache[c.String()]
		primeMu.Unlock()
		if !ok {
			isP = crypto.Prime(new(big.Int).Set(c))
			primeMu.Lock()
			primeCache[c.String()] = isP
			primeMu.Unlock()
		}
		if isP {
			out = append(out, c.String())
		}
	}
	if len(out) == 0 {
		return "-"
	}
	return strings.Join(out, ",")
}

// Half returns (p-1)/2.
func Half(p *big.Int) *big.Int {
	h := new(big.Int).Sub(p, big.NewInt(1))
	return h.Rsh(h, 1)
}
