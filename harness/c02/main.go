// C02 — no update is lost once recovery completes.
//
// Drives the public updates.Manager with a fake API (finite server log + difference oracle that
// answers in one piece or sliced), pushes any part of the log in any order with duplicates, then
// forces recovery (updatesTooLong / updateChannelTooLong; thorough: also the real gap timer) and
// checks that every log entry reached the handler.  Correspondence: each process's event order is
// compared with the Lean manager model (TdModel/Model/C02Mgr.lean).
package main

import (
	"verif/harness/c02/mgr"
	"verif/harness/hc"
)

func main() { hc.Main(hc.Spec{Prop: "C02", Facts: mgr.OrderFacts, Run: run}) }

func run(c *hc.Ctx) error {
	r := &mgr.Runner{C: c, Opt: mgr.Options{Prop: "C02", FailC02: true}}
	for _, sc := range mgr.Fixed() {
		tl := false
		for _, a := range sc.Actions {
			if a.Op == "TL" || a.Op == "CTL" {
				tl = true // tooLong answers are excluded for this property
			}
		}
		if !tl {
			r.Evaluate(sc, nil)
		}
	}
	n := c.N(1500, 40000)
	for i := 0; i < n; i++ {
		sc, plain := mgr.Gen(c.Rng, mgr.GenOptions{Channels: hc.Pick(c.Rng, 0, 1, 1, 2, 3), TooLong: false,
			Wait: c.Thorough() && i < 400, MaxEntries: hc.Pick(c.Rng, 4, 8, 12), Affected: c.Rng.Chance(50), Foreign: c.Rng.Chance(40), Faults: c.Rng.Chance(30), Fresh: c.Rng.Chance(50), Seq: c.Rng.Chance(40), Users: c.Rng.Chance(35), Private: c.Rng.Chance(35), First: c.Rng.Chance(20)})
		r.Evaluate(sc, plain)
	}
	r.Flush()
	c.Res.Rule = "scenario = initial persisted state (or none: the very first start, after part of the log has happened) + finite server log (new messages, pts-bearing deletes with count 1..3, qts updates, channel messages/deletes for 0..3 tracked channels, position-less updates; channels are stored, or unknown to the storage and met during the run through a live update (count >= 1 or 0) or an update forwarded inside a difference, with the access hash known from the start or learnt by an action K; channels may become inaccessible (CHANNEL_PRIVATE: worker stops, channel forgotten) and accessible again) + schedule (containers unnumbered or numbered with seq/seq_start — seq gaps, duplicated and late containers, the seq gap timer; messages from users whose access hash is unknown (the container is dropped, the difference fetched); in-order pushes, batches, losses, late arrivals, duplicates, forced common/channel recoveries, differences in one piece or sliced; thorough: waiting out the real 500 ms gap timer) + final recovery (updatesTooLong and updateChannelTooLong for every channel, twice); non-trivial = at least one update was lost and had to be recovered; distinct = distinct scenario line"
	c.PartialNote("goroutine scheduling between two harness actions is sampled, not controlled (the harness waits for quiescence after every action and compares each process's own event order)")
	c.PartialNote("tooLong answers are excluded (the property's quantifier); channels are tracked from the start (creation of a channel state on first contact is not exercised)")
	c.PartialNote("the real gap timer (500 ms) is only exercised in the thorough tier; the model takes 'timer fired' as an input action")
	return r.Err()
}
