package mgr

import (
	"context"
	"fmt"
	"strconv"
	"sync"
	"time"

	"github.com/gotd/log"

	"github.com/gotd/td/telegram/updates"
	"github.com/gotd/td/tg"
	"github.com/gotd/td/tgerr"
)

// Env is one running updates.Manager wired to a World through fake API, storage and handler.
type Env struct {
	W     *World
	M     *updates.Manager
	Store *Store

	mu      sync.Mutex
	trace   []Event
	snaps   []Snapshot // snapshot of the storage after trace[i] when trace[i] is a store (else zero)
	barrier map[int]chan struct{}
	chanBar map[int64]chan struct{}
	nextBar int
	apiN    int
	panics  []string

	cancel  context.CancelFunc
	runDone chan error
	Err     string         // harness-level problem (lost barrier, timeout)
	Retries int            // channel barriers that had to be re-sent
	Dead    map[int64]bool // channel workers found stopped (Run returned): no barriers through them any more
	// Racy: the run took a branch that only the Go scheduler decides (the traces are then not compared)
	Racy string
	// dones: the workers' done channels, read (hook) while the manager was quiescent
	dones map[int64]<-chan struct{}
}

func (e *Env) record(ev Event, snap Snapshot) {
	e.mu.Lock()
	e.trace = append(e.trace, ev)
	e.snaps = append(e.snaps, snap)
	e.mu.Unlock()
}

// Trace returns a copy of the events so far, with the storage snapshot after each store event.
func (e *Env) Trace() ([]Event, []Snapshot) {
	e.mu.Lock()
	defer e.mu.Unlock()
	return append([]Event(nil), e.trace...), append([]Snapshot(nil), e.snaps...)
}

// apiCalls counts difference requests made so far.
func (e *Env) apiCalls() int {
	e.mu.Lock()
	defer e.mu.Unlock()
	n := 0
	for _, ev := range e.trace {
		if ev.Kind == "A" {
			n++
		}
	}
	return n
}

func (e *Env) progress() int {
	e.mu.Lock()
	defer e.mu.Unlock()
	return len(e.trace) + e.apiN
}

// --- updates.API

type api struct{ e *Env }

// errTransient is what a failed request returns (network error, FLOOD_WAIT, …: not CHANNEL_PRIVATE).
var errTransient = fmt.Errorf("rpc error: transient failure injected by the harness")

func (a api) UpdatesGetState(context.Context) (*tg.UpdatesState, error) {
	a.e.W.mu.Lock()
	p, q := a.e.W.serverState()
	a.e.W.mu.Unlock()
	a.e.record(Event{Kind: "A", Key: "getstate"}, Snapshot{})
	return &tg.UpdatesState{Pts: p, Qts: q, Date: Date0}, nil
}

func (a api) UpdatesGetDifference(_ context.Context, r *tg.UpdatesGetDifferenceRequest) (tg.UpdatesDifferenceClass, error) {
	if r.Date != Date0 {
		// restoreAccessHash: asks with an older date only to learn a channel's access hash; the fake
		// server knows none for unknown channels
		a.e.record(Event{Kind: "A", Key: "restore", Vals: []int{r.Pts, r.Qts}}, Snapshot{})
		return &tg.UpdatesDifferenceEmpty{Date: Date0, Seq: 0}, nil
	}
	a.e.record(Event{Kind: "A", Key: "diff", Vals: []int{r.Pts, r.Qts}}, Snapshot{})
	if d := a.e.W.commonDifference(r.Pts, r.Qts); d != nil {
		return d, nil
	}
	return nil, errTransient
}

func (a api) UpdatesGetChannelDifference(_ context.Context, r *tg.UpdatesGetChannelDifferenceRequest) (tg.UpdatesChannelDifferenceClass, error) {
	c := r.Channel.(*tg.InputChannel).ChannelID
	a.e.record(Event{Kind: "A", Key: "chdiff" + strconv.FormatInt(c, 10), Vals: []int{r.Pts}}, Snapshot{})
	switch d := a.e.W.channelDifference(c, r.Pts); {
	case d == privateAnswer:
		return nil, tgerr.New(400, "CHANNEL_PRIVATE")
	case d != nil:
		return d, nil
	}
	return nil, errTransient
}

// --- log.Logger: the one log line that says the main loop has forgotten an inaccessible channel
// (it is written right after the channel left the table; nothing else is read from the log)

type logger struct{ e *Env }

func (logger) Enabled(context.Context, log.Level) bool { return true }

func (l logger) Log(_ context.Context, _ log.Level, msg string, attrs ...log.Attr) {
	if msg == "Ignoring update while sending channel difference" {
		// sendOut's select took something from the worker's queue instead of the hand-over: which of the
		// two happens is the Go scheduler's choice, the model always hands over first
		l.e.mu.Lock()
		l.e.Racy = "a channel worker dropped a queued update while handing forwarded updates to the main loop (sendOut's select)"
		l.e.mu.Unlock()
		return
	}
	if msg != "Removed inaccessible channel from tracking" {
		return
	}
	for _, a := range attrs {
		if a.Key == "channel_id" {
			l.e.W.forgotten(a.Value.Int64())
		}
	}
}

// --- telegram.UpdateHandler

type handler struct{ e *Env }

func (h handler) Handle(_ context.Context, u tg.UpdatesClass) error {
	up, ok := u.(*tg.Updates)
	if !ok {
		h.e.record(Event{Kind: "D", IDs: []int{-1}}, Snapshot{})
		return nil
	}
	var ids []int
	for _, x := range up.Updates {
		id, ok := idOf(x)
		if !ok {
			id = -2
		}
		if id >= barrierMin {
			h.e.mu.Lock()
			ch := h.e.barrier[id]
			delete(h.e.barrier, id)
			h.e.mu.Unlock()
			if ch != nil {
				close(ch)
			}
			continue
		}
		ids = append(ids, id)
	}
	if len(ids) > 0 {
		h.e.record(Event{Kind: "D", IDs: ids}, Snapshot{})
	}
	return nil
}

// Start builds a manager on the given persisted snapshot and runs it.
func Start(w *World, snap Snapshot) *Env {
	e := &Env{W: w, barrier: map[int]chan struct{}{}, chanBar: map[int64]chan struct{}{}, nextBar: barrierMin, runDone: make(chan error, 1)}
	e.Store = &Store{state: snap.State, has: snap.Has, chans: map[int64]int{}, env: e}
	for c, p := range snap.Chans {
		e.Store.chans[c] = p
		w.stored[c] = true
		if !w.hashUnknown(c) { // loadChannels skips the others
			w.live[c], w.Started[c] = true, true
		}
	}
	e.M = updates.New(updates.Config{
		Handler: handler{e},
		OnChannelTooLong: func(c int64) {
			if w.takeGenuineTL(c) {
				e.record(Event{Kind: "L", Key: "c" + strconv.FormatInt(c, 10)}, Snapshot{})
				return
			}
			e.mu.Lock()
			ch := e.chanBar[c]
			delete(e.chanBar, c)
			e.mu.Unlock()
			if ch != nil {
				close(ch)
			}
		},
		OnTooLong: func() { e.record(Event{Kind: "L"}, Snapshot{}) },
		OnChannelInaccessible: func(c int64) {
			e.record(Event{Kind: "I", Key: "c" + strconv.FormatInt(c, 10)}, Snapshot{})
		},
		Storage:          e.Store,
		AccessHasher:     hasher{w},
		UserAccessHasher: userHasher{w},
		Logger:           logger{e},
	})
	ctx, cancel := context.WithCancel(context.Background())
	e.cancel = cancel
	started := make(chan struct{})
	go func() {
		defer func() {
			if r := recover(); r != nil {
				e.mu.Lock()
				e.panics = append(e.panics, fmt.Sprint(r))
				e.mu.Unlock()
				e.runDone <- fmt.Errorf("panic: %v", r)
			}
		}()
		e.runDone <- e.M.Run(ctx, api{e}, SelfID, updates.AuthOptions{OnStart: func(context.Context) { close(started) }})
	}()
	select {
	case <-started:
	case err := <-e.runDone:
		e.Err = fmt.Sprintf("Run ended before start: %v", err)
		e.runDone <- err
	case <-time.After(10 * time.Second):
		e.Err = "Run did not start"
	}
	return e
}

// InitialSnapshot is the persisted state a fresh scenario starts from. Without stored common
// state (NoState) `Has` is false and State is what the client will take over from the server (its
// state after Log[:Pre]): the position its view of the common sequences starts at.
func (w *World) InitialSnapshot() Snapshot {
	c := map[int64]int{}
	for k, v := range w.C0 {
		if !w.Fresh[k] {
			c[k] = v
		}
	}
	if w.NoState {
		p, q := w.P0, w.Q0
		for _, e := range w.Log[:w.Pre] {
			switch e.Seq() {
			case "pts":
				p = e.Pos
			case "qts":
				q = e.Pos
			}
		}
		return Snapshot{State: updates.State{Pts: p, Qts: q, Date: Date0, Seq: 0}, Has: false, Chans: c}
	}
	return Snapshot{State: updates.State{Pts: w.P0, Qts: w.Q0, Date: Date0, Seq: 0}, Has: true, Chans: c}
}

// Stop cancels Run and waits for it.
func (e *Env) Stop() {
	e.cancel()
	select {
	case <-e.runDone:
	case <-time.After(10 * time.Second):
		e.Err = "Run did not stop"
	}
}

// Push hands a container to Manager.Handle.
func (e *Env) Push(u tg.UpdatesClass) {
	ctx, cancel := context.WithTimeout(context.Background(), 10*time.Second)
	defer cancel()
	if err := e.M.Handle(ctx, u); err != nil && e.Err == "" {
		e.Err = "Manager.Handle: " + err.Error()
	}
}

// Affected hands a messages.affected* result to Manager.HandleAffected.
func (e *Env) Affected(channelID int64, pts, count int) {
	ctx, cancel := context.WithTimeout(context.Background(), 10*time.Second)
	defer cancel()
	if err := e.M.HandleAffected(ctx, channelID, pts, count); err != nil && e.Err == "" {
		e.Err = "Manager.HandleAffected: " + err.Error()
	}
}

// servedCount: how many requests of the sequence have been answered (in any way) so far.
func (e *Env) servedCount(seq string) int {
	e.W.mu.Lock()
	defer e.W.mu.Unlock()
	n := 0
	for _, sv := range e.W.Served {
		if sv.Seq == seq {
			n++
		}
	}
	return n
}

// waitExtrasServed waits until the extras pending for seq have gone out with an answer, or the
// request that was to carry them has been answered otherwise (a transient failure, too long, …:
// `before` = servedCount when the request was triggered).
func (e *Env) waitExtrasServed(seq string, before int) {
	deadline := time.Now().Add(10 * time.Second)
	for time.Now().Before(deadline) {
		e.W.mu.Lock()
		n := len(e.W.Extra[seq])
		e.W.mu.Unlock()
		if n == 0 || e.servedCount(seq) > before {
			return
		}
		time.Sleep(20 * time.Microsecond)
	}
}

// mainBarrier returns once the main loop has handled everything pushed before.
func (e *Env) mainBarrier() bool {
	e.mu.Lock()
	e.nextBar++
	id := e.nextBar
	ch := make(chan struct{})
	e.barrier[id] = ch
	e.mu.Unlock()
	e.Push(&tg.UpdateShort{Update: &tg.UpdateUserTyping{UserID: int64(id)}})
	select {
	case <-ch:
		return true
	case <-time.After(30 * time.Second):
		if e.Err == "" {
			e.Err = "main barrier lost"
		}
		return false
	}
}

// chanBarrier returns once the channel worker has handled everything queued before: an
// updateChannelTooLong far beyond the difference limit only calls OnChannelTooLong.
func (e *Env) chanBarrier(c int64) bool {
	if e.Dead[c] || e.W.removed(c) {
		return true
	}
	e.W.mu.Lock()
	before, sub := e.W.subscribing[c]
	delete(e.W.subscribing, c)
	e.W.mu.Unlock()
	if sub {
		e.waitExtrasServed("c"+strconv.FormatInt(c, 10), before)
	}
	for attempt := 0; attempt < 3; attempt++ {
		deadline := time.Now().Add(10 * time.Second)
		for e.W.chanDiffBusy(c) && time.Now().Before(deadline) {
			time.Sleep(20 * time.Microsecond)
		}
		e.mu.Lock()
		ch := make(chan struct{})
		e.chanBar[c] = ch
		e.mu.Unlock()
		tl := &tg.UpdateChannelTooLong{ChannelID: c}
		tl.SetPts(1 << 30)
		e.Push(&tg.Updates{Updates: []tg.UpdateClass{tl}})
		sent, lastLook := time.Now(), time.Now()
		waitUntil := time.Now().Add(20 * time.Second)
		for answered := false; !answered && time.Now().Before(waitUntil); {
			select {
			case <-ch:
				return true
			case <-time.After(2 * time.Millisecond):
				// a worker that has returned from Run will never answer: that is a fact about the
				// implementation (its done channel is closed), not latency. The done channel was read
				// at the last quiescent point; for a worker started since then the manager's channel
				// table is consulted only after a long silence and with the main loop idle.
				if e.W.removed(c) {
					return true // the channel became inaccessible meanwhile: its worker has stopped, as it should
				}
				stopped := false
				if d, ok := e.dones[c]; ok {
					select {
					case <-d:
						stopped = true
					default:
					}
				} else if time.Since(sent) > 3*time.Second && time.Since(lastLook) > time.Second {
					lastLook = time.Now()
					if e.mainBarrier() {
						stopped = updates.VerifC02ChannelStopped(e.M, c)
					}
				}
				if stopped && e.W.removed(c) {
					return true // the channel became inaccessible: its worker stopped, as it should
				}
				if stopped {
					if e.Dead == nil {
						e.Dead = map[int64]bool{}
					}
					e.Dead[c] = true
					return true
				}
			}
		}
		e.Retries++
		// only a barrier dropped by sendOut's drain can get here; a merely slow one never does
	}
	if e.Err == "" {
		e.Err = fmt.Sprintf("channel %d barrier lost", c)
	}
	return false
}

// Settle waits until the main loop and all channel workers are idle with empty queues.
func (e *Env) Settle() {
	for iter := 0; iter < 100 && e.Err == ""; iter++ {
		before := e.progress()
		// a worker that was told CHANNEL_PRIVATE is on its way out: wait until the main loop has
		// forgotten the channel (else the next update of the channel would still find the old worker)
		for deadline := time.Now().Add(10 * time.Second); e.W.removalsOutstanding() > 0 && time.Now().Before(deadline); {
			time.Sleep(20 * time.Microsecond)
		}
		e.mainBarrier()
		// the channels that have a worker: a barrier pushed now is handled after handleChannel has
		// registered the worker (it asked the storage before), never before
		chans := e.W.StartedChannels()
		for _, c := range chans {
			e.chanBarrier(c)
		}
		e.mainBarrier()
		ext, internal, aff := updates.VerifC02QueueLens(e.M)
		aff += updates.VerifC02RemovalsPending(e.M)
		e.mainBarrier()
		for _, c := range chans {
			e.chanBarrier(c)
		}
		if e.progress() == before && ext == 0 && internal == 0 && aff == 0 && len(e.W.StartedChannels()) == len(chans) && e.W.removalsOutstanding() == 0 {
			// quiescent: nobody writes the manager's channel table now
			e.dones = updates.VerifC02ChannelDones(e.M)
			return
		}
	}
	if e.Err == "" {
		e.Err = "did not settle"
	}
}

// Panics returns panics caught in Run's goroutine.
func (e *Env) Panics() []string {
	e.mu.Lock()
	defer e.mu.Unlock()
	return append([]string(nil), e.panics...)
}
