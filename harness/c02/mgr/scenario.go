package mgr

import (
	"fmt"
	"sort"
	"strconv"
	"strings"
	"time"

	"github.com/gotd/td/telegram/updates"
	"github.com/gotd/td/tg"
)

// Action is one step of a scenario; after every action the harness waits for quiescence.
type Action struct {
	Op  string // e: emit N entries silently (lost pushes) | p: push a container of entries IDs |
	N   int    // T: push updatesTooLong | CT: push updateChannelTooLong(C, server pts) | W: wait out the gap timer |
	IDs []int  // sl/csl: slice size N for common/channel differences | TL / CTL: next (channel C) difference answers tooLong
	C   int64  // K: the client learns the access hash of channel C
	B   int    // ps: push a container numbered seq_start = N .. seq = B | es: the server's seq has reached N
}

func (a Action) String() string {
	switch a.Op {
	case "e", "sl", "csl":
		return a.Op + ":" + strconv.Itoa(a.N)
	case "p":
		s := make([]string, len(a.IDs))
		for i, x := range a.IDs {
			s[i] = strconv.Itoa(x)
		}
		return "p:" + strings.Join(s, ",")
	case "U":
		s := make([]string, len(a.IDs))
		for i, x := range a.IDs {
			s[i] = strconv.Itoa(x)
		}
		return "U:" + strings.Join(s, ",")
	case "ps":
		s := make([]string, len(a.IDs))
		for i, x := range a.IDs {
			s[i] = strconv.Itoa(x)
		}
		return fmt.Sprintf("ps:%d:%d:%s", a.N, a.B, strings.Join(s, ","))
	case "es":
		return "es:" + strconv.Itoa(a.N)
	case "a":
		return "a:" + strconv.Itoa(a.IDs[0])
	case "X": // key: 0 = common difference, 2 + channel id
		p := make([]string, len(a.IDs))
		for i, x := range a.IDs {
			p[i] = strconv.Itoa(x)
		}
		k := int64(0)
		if a.C != 0 {
			k = 2 + a.C
		}
		return "X:" + strconv.FormatInt(k, 10) + ":" + strings.Join(p, ",")
	case "ERR":
		k := int64(0)
		if a.C != 0 {
			k = 2 + a.C
		}
		return "ERR:" + strconv.FormatInt(k, 10)
	case "CT", "CTL", "z", "K", "PRIV", "PUB":
		return a.Op + ":" + strconv.FormatInt(a.C, 10)
	}
	return a.Op
}

// Scenario = initial persisted state + server log + schedule.
type Scenario struct {
	P0, Q0 int
	C0     map[int64]int // every channel of the scenario: where its part of the log starts
	// Fresh: channels without stored state at the start (C0 is then only the log's origin).
	// Late: channels whose access hash is unknown until an action K.
	Fresh, Late map[int64]bool
	Log         []Entry
	Actions     []Action
	// NoState: the storage holds no common state when the client starts for the first time; Pre log
	// entries have happened by then, the server's state at that moment is what the client starts from.
	NoState bool
	Pre     int
	// Final recovery (updatesTooLong + updateChannelTooLong for every channel, twice) is always appended.
}

func (s Scenario) channels() []int64 { return NewWorld(nil, 0, 0, s.C0).Channels() }

// storedWord renders persisted channel state for the model: `5=5` or, for a channel whose access
// hash is unknown (until K), `5^5`.
func storedWord(chans map[int64]int, late func(int64) bool) string {
	var cs []int64
	for c := range chans {
		cs = append(cs, c)
	}
	sort.Slice(cs, func(i, j int) bool { return cs[i] < cs[j] })
	var p []string
	for _, c := range cs {
		sep := "="
		if late(c) {
			sep = "^"
		}
		p = append(p, fmt.Sprintf("%d%s%d", c, sep, chans[c]))
	}
	if len(p) == 0 {
		return "_"
	}
	return strings.Join(p, ",")
}

// createdWord renders the channels met during a run: `11~7` (`11^7` if the hash was unknown at the start).
func createdWord(created map[int64]int, late func(int64) bool) string {
	return strings.NewReplacer("=", "~").Replace(storedWord(created, late))
}

// Line renders the scenario as one request line for the model driver: origin, stored channels,
// channels met during the run (as observed by the harness in world w), log, actions.
func (s Scenario) Line(op string, w *World) string {
	stored := map[int64]int{}
	for c, p := range s.C0 {
		if !s.Fresh[c] {
			stored[c] = p
		}
	}
	created := map[int64]int{}
	if w != nil {
		created = w.Created
	}
	late := func(c int64) bool { return s.Late[c] }
	cr := createdWord(created, late)
	for _, c := range s.channels() { // never met with a known access hash
		if _, met := created[c]; s.Fresh[c] && s.Late[c] && !met {
			cr = strings.TrimPrefix(cr+fmt.Sprintf(",%d!", c), "_,")
		}
	}
	as := make([]string, len(s.Actions))
	for i, a := range s.Actions {
		as[i] = a.String()
	}
	if s.NoState && op == "mgr" {
		op = fmt.Sprintf("first:%d", s.Pre)
	}
	return strings.TrimSpace(fmt.Sprintf("%s %d %d %s %s %s %s %s", op, s.P0, s.Q0, chanWords(s), storedWord(stored, late), cr,
		logWords(s), strings.Join(as, " ")))
}

// Outcome of running a scenario on the implementation.
type Outcome struct {
	Trace   []Event
	Snaps   []Snapshot
	Marks   []int // Marks[i] = len(trace) after action i settled (the last two are the final recoveries)
	World   *World
	Err     string
	Panics  []string
	Elapsed time.Duration
	Retries int
	Dead    []int64 // channel workers that stopped during the run
	Racy    string  // the run took a branch only the Go scheduler decides: traces are not compared
	// Workers: set when the channels the manager started workers for are not the ones that were
	// loaded at the start or met with a known access hash
	Workers string
}

// tracked: the entry belongs to a sequence the manager tracks (or has no sequence). A channel is
// tracked once it has a worker: loaded at the start, or met (with a known access hash) later.
func (w *World) tracked(en Entry) bool {
	if en.Kind == KChMsg || en.Kind == KChOther || en.Kind == KChAff {
		return w.live[en.Chan]
	}
	return true
}

// baseOf: where the client's view of a sequence starts in a run started from `from`.
func baseOf(w *World, from Snapshot, seq string) int {
	switch seq {
	case "pts":
		return from.State.Pts
	case "qts":
		return from.State.Qts
	}
	c, _ := strconv.ParseInt(seq[1:], 10, 64)
	if p, ok := from.Chans[c]; ok {
		return p
	}
	if p, ok := w.Created[c]; ok {
		return p
	}
	return initialOf(w, seq)
}

func (w *World) entry(id int) (Entry, int, bool) {
	for i, e := range w.Log {
		if e.ID == id {
			return e, i, true
		}
	}
	return Entry{}, 0, false
}

func (e *Env) apply(a Action) {
	w := e.W
	switch a.Op {
	case "e":
		w.mu.Lock()
		w.Emitted = min(len(w.Log), w.Emitted+a.N)
		w.mu.Unlock()
	case "p":
		var us []tg.UpdateClass
		w.mu.Lock()
		var container []Entry
		for _, id := range a.IDs {
			if en, idx, ok := w.entry(id); ok {
				us = append(us, en.Update())
				container = append(container, en)
				w.Emitted = max(w.Emitted, idx+1)
			}
		}
		w.contact(container, "push")
		w.mu.Unlock()
		switch {
		case len(us) == 1 && container[0].Kind == KMsg && container[0].User != 0 && a.IDs[0]%3 == 0:
			// the short forms of a new message (converted back by convertShortMessage / …ChatMessage)
			en := container[0]
			e.Push(&tg.UpdateShortMessage{ID: en.ID, UserID: userID(en.User), Pts: en.Pos, PtsCount: en.Count})
		case len(us) == 1 && container[0].Kind == KMsg && container[0].User != 0 && a.IDs[0]%3 == 1:
			en := container[0]
			e.Push(&tg.UpdateShortChatMessage{ID: en.ID, FromID: userID(en.User), ChatID: 7, Pts: en.Pos, PtsCount: en.Count})
		case len(us) == 1 && a.IDs[0]%2 == 0:
			e.Push(&tg.UpdateShort{Update: us[0], Date: 0})
		case len(us) > 0:
			e.Push(&tg.Updates{Updates: us})
		}
	case "ps": // a numbered container: it goes through the seq box
		var us []tg.UpdateClass
		w.mu.Lock()
		for _, id := range a.IDs {
			if en, idx, ok := w.entry(id); ok {
				us = append(us, en.Update())
				w.Emitted = max(w.Emitted, idx+1)
			}
		}
		w.Seq = max(w.Seq, a.B)
		w.mu.Unlock()
		if len(us) > 0 {
			if a.N == a.B && a.B%2 == 0 {
				e.Push(&tg.Updates{Updates: us, Seq: a.B})
			} else {
				e.Push(&tg.UpdatesCombined{Updates: us, SeqStart: a.N, Seq: a.B})
			}
		}
	case "es": // containers the server has numbered but that never arrive
		w.mu.Lock()
		w.Seq = max(w.Seq, a.N)
		w.mu.Unlock()
	case "a": // Manager.HandleAffected with the result of the client's own action (marker entry)
		w.mu.Lock()
		en, idx, ok := w.entry(a.IDs[0])
		if ok {
			w.Emitted = max(w.Emitted, idx+1)
		}
		w.mu.Unlock()
		if ok && en.IsMarker() {
			e.Affected(en.Chan, en.Pos, en.Count)
		}
	case "z": // an affected result that covers no position: (current server pts, 0)
		w.mu.Lock()
		p, _ := w.serverState()
		if a.C != 0 {
			p = w.chanState(a.C)
		}
		w.mu.Unlock()
		e.Affected(a.C, p, 0)
	case "PRIV", "PUB": // the channel becomes inaccessible / accessible again
		w.mu.Lock()
		if a.Op == "PRIV" {
			w.Private[a.C] = true
		} else {
			delete(w.Private, a.C)
		}
		w.mu.Unlock()
	case "U": // the client learns the access hashes of these users (from some other request)
		w.mu.Lock()
		for _, u := range a.IDs {
			w.KnownUsers[userID(u)] = true
		}
		w.mu.Unlock()
	case "K": // the client learns the channel's access hash (from some other request)
		w.mu.Lock()
		w.Known[a.C] = true
		w.mu.Unlock()
	case "ERR": // the next difference request of the sequence fails with a transient RPC error
		w.mu.Lock()
		if a.C == 0 {
			w.FailNext["pts"] = true
		} else {
			w.FailNext["c"+strconv.FormatInt(a.C, 10)] = true
		}
		w.mu.Unlock()
	case "X": // the next (channel C / common) difference answer forwards these entries too
		w.mu.Lock()
		seq := "pts"
		if a.C != 0 {
			seq = "c" + strconv.FormatInt(a.C, 10)
		}
		w.Extra[seq] = append([]int(nil), a.IDs...)
		w.mu.Unlock()
	case "T":
		e.Push(&tg.UpdatesTooLong{})
	case "PC": // updatePtsChanged: the common state must be fetched again
		e.Push(&tg.Updates{Updates: []tg.UpdateClass{&tg.UpdatePtsChanged{}}})
	case "CT":
		before := e.servedCount("c" + strconv.FormatInt(a.C, 10))
		w.mu.Lock()
		p := w.chanState(a.C)
		w.mu.Unlock()
		tl := &tg.UpdateChannelTooLong{ChannelID: a.C}
		tl.SetPts(p)
		e.Push(&tg.Updates{Updates: []tg.UpdateClass{tl}})
		// If this difference will forward foreign updates, the worker hands them over with sendOut,
		// whose drain may swallow anything queued behind it — also a harness barrier. Wait until the
		// answer has been served (from then on chanBarrier waits for the worker to finish it).
		w.mu.Lock()
		started := w.Started[a.C]
		w.mu.Unlock()
		if started { // a channel without a worker ignores the update and asks for nothing
			e.waitExtrasServed("c"+strconv.FormatInt(a.C, 10), before)
		}
	case "W":
		time.Sleep(650 * time.Millisecond)
	case "F": // every armed gap timer fires now (hook); wait until the owners have reacted
		before := e.apiCalls()
		n, chans := updates.VerifC02FireGapTimers(e.M)
		want := n + len(chans)
		if n > 0 {
			// a main-loop timer and a channel timer whose difference forwards updates to the main loop:
			// which of the two the main loop sees first is the scheduler's choice
			w.mu.Lock()
			for _, c := range chans {
				if len(w.Extra["c"+strconv.FormatInt(c, 10)]) > 0 {
					e.mu.Lock()
					e.Racy = "a main-loop gap timer and a channel gap timer whose difference forwards updates fired together"
					e.mu.Unlock()
				}
			}
			w.mu.Unlock()
		}
		deadline := time.Now().Add(20 * time.Second)
		for want > 0 && e.apiCalls() < before+want && time.Now().Before(deadline) {
			time.Sleep(50 * time.Microsecond)
		}
		if want > 0 && e.apiCalls() < before+want && e.Err == "" {
			e.Err = "fired gap timers were not handled"
		}
	case "sl":
		w.mu.Lock()
		w.Slice = a.N
		w.mu.Unlock()
	case "csl":
		w.mu.Lock()
		w.ChanSlice = a.N
		w.mu.Unlock()
	case "TL":
		w.mu.Lock()
		w.TooLongNext = true
		w.mu.Unlock()
	case "CTL":
		w.mu.Lock()
		w.ChanTooLong[a.C] = true
		w.mu.Unlock()
	}
}

// FinalActions is the recovery appended to every scenario: everything has happened on the
// server, then a forced common and per-channel difference fetch, twice.
func (s Scenario) FinalActions() []Action {
	fin := []Action{{Op: "e", N: len(s.Log)}}
	cs := s.channels()
	for round := 0; round < 2; round++ {
		fin = append(fin, Action{Op: "T"})
		for _, c := range cs {
			fin = append(fin, Action{Op: "CT", C: c})
		}
	}
	return fin
}

// Run executes the scenario against a fresh manager started from `from` (nil = the scenario's
// initial persisted state). emitAll starts with the whole log already emitted (restart runs).
// known: late channels whose access hash is known from the start (restart runs).
func (s Scenario) Run(from *Snapshot, emitAll bool, actions []Action, known map[int64]bool) Outcome {
	w := NewWorld(s.Log, s.P0, s.Q0, s.C0)
	for c := range s.Fresh {
		w.Fresh[c] = true
	}
	for c := range s.Late {
		w.Late[c] = true
	}
	for c := range known {
		w.Known[c] = true
	}
	w.NoState, w.Pre = s.NoState, min(s.Pre, len(s.Log))
	if s.NoState {
		w.Emitted = w.Pre
	}
	if emitAll {
		w.Emitted = len(w.Log)
	}
	snap := w.InitialSnapshot()
	if from != nil {
		snap = *from
	}
	t0 := time.Now()
	e := Start(w, snap)
	out := Outcome{World: w}
	if e.Err == "" {
		e.Settle()
		for _, a := range actions {
			if e.Err != "" {
				break
			}
			e.apply(a)
			e.Settle()
			tr, _ := e.Trace()
			out.Marks = append(out.Marks, len(tr))
		}
	}
	out.Elapsed = time.Since(t0)
	if live, started := w.LiveChannels(), w.StartedChannels(); e.Err == "" && fmt.Sprint(live) != fmt.Sprint(started) {
		out.Workers = fmt.Sprintf("channels loaded or met with a known access hash: %v; channels the manager started a worker for: %v", live, started)
	}
	// the trace up to here is what the monitors look at; shutdown may flush more
	out.Trace, out.Snaps = e.Trace()
	e.Stop()
	out.Err, out.Panics, out.Retries = e.Err, e.Panics(), e.Retries
	e.mu.Lock()
	out.Racy = e.Racy
	e.mu.Unlock()
	for c := range e.Dead {
		out.Dead = append(out.Dead, c)
	}
	return out
}

// ---------------------------------------------------------------------------------------------
// monitors (decided on the implementation's trace alone)

// Violation of a property found by a monitor.
type Violation struct {
	Key    string
	Detail string
}

func initialOf(w *World, seq string) int {
	switch seq {
	case "pts":
		return w.P0
	case "qts":
		return w.Q0
	}
	c, _ := strconv.ParseInt(seq[1:], 10, 64)
	return w.C0[c]
}

// servedTooLong: a tooLong answer for the sequence with this position was served.
func servedTooLong(w *World, seq string, val int) bool {
	for _, sv := range w.Served {
		if sv.Seq == seq && sv.Kind == "toolong" && sv.ToPts == val {
			return true
		}
	}
	return false
}

// classify names the history class of an undelivered entry (the two D11 classes), or "".
func classify(w *World, en Entry) string {
	for _, sv := range w.Served {
		if sv.Seq != en.Seq() {
			continue
		}
		in := false
		for _, id := range sv.Others {
			if id == en.ID {
				in = true
			}
		}
		if !in {
			continue
		}
		if en.Kind == KChOther {
			return "d11-channel-other-in-channel-difference"
		}
		if en.Kind == KOther || en.Kind == KQOther {
			// a new (encrypted) message of the same difference lies between the local state and this update
			for _, mid := range sv.Messages {
				if m, _, ok := w.entry(mid); ok && m.Seq() == en.Seq() && m.Pos < en.Pos {
					return "d11-common-other-behind-message-in-difference"
				}
			}
		}
	}
	return ""
}

// CheckC03 walks the trace: at every store, every pts/qts-bearing log entry above the initial
// state and at or below the stored value must already have been dispatched, unless a too-long
// callback for that sequence happened earlier. from = persisted state the run started from.
func CheckC03(w *World, trace []Event, from Snapshot) []Violation {
	var out []Violation
	seen := map[string]bool{}
	dispatched := map[int]bool{}
	tooLong := map[string]bool{}
	lastAPI := map[string]string{}
	base := func(seq string) int { return baseOf(w, from, seq) }
	// which difference answers have been handed out so far (answers are served in request order)
	carried := map[int]bool{}
	servedIdx := map[string]int{}
	nextServed := func(seq string) {
		n := 0
		for _, sv := range w.Served {
			if sv.Seq != seq {
				continue
			}
			if n == servedIdx[seq] {
				for _, id := range sv.Messages {
					carried[id] = true
				}
				for _, id := range sv.Others {
					carried[id] = true
				}
				break
			}
			n++
		}
		servedIdx[seq]++
	}
	check := func(i int, seq string, val int) {
		for _, en := range w.Log {
			if en.Seq() != seq || en.Pos > val || en.Pos <= base(seq) || dispatched[en.ID] || tooLong[seq] || en.IsMarker() || !w.tracked(en) {
				continue
			}
			if en.Count == 0 && !carried[en.ID] {
				continue // never pushed successfully and never carried: nothing the client could do
			}
			key := "c03-store-ahead"
			if en.Count == 0 {
				key = "c03-difference-carried-zero-count-update-not-dispatched"
			}
			if cl := classify(w, en); cl != "" {
				key = "c03-" + cl
			}
			// the state written when a channel is met for the first time (before its worker has asked for anything)
			if _, met := w.Created[chanOfSeq(seq)]; met && servedIdx[seq] == 0 {
				key = "c03-initial-channel-state-ahead"
			}
			// a store right after a tooLong answer, before the callback
			if servedTooLong(w, seq, val) && classify(w, en) == "" {
				key = "c03-d12-toolong-stored-before-callback"
			}
			if !seen[key+seq] {
				seen[key+seq] = true
				out = append(out, Violation{Key: key, Detail: fmt.Sprintf("trace[%d] %s persists %s=%d but entry %s (id %d) was not dispatched and no too-long callback was made; trace prefix: %s",
					i, trace[i], seq, val, en, en.ID, FormatTrace(trace[:i+1]))})
			}
		}
	}
	_ = lastAPI
	for i, ev := range trace {
		switch ev.Kind {
		case "A":
			if ev.Key == "diff" {
				nextServed("pts")
			} else if strings.HasPrefix(ev.Key, "chdiff") {
				nextServed("c" + ev.Key[6:])
			}
		case "D":
			for _, id := range ev.IDs {
				dispatched[id] = true
			}
		case "L":
			if ev.Key == "" {
				tooLong["pts"] = true
			} else {
				tooLong[ev.Key] = true
			}
		case "S":
			switch {
			case ev.Key == "pts" || ev.Key == "qts":
				check(i, ev.Key, ev.Vals[0])
			case ev.Key == "state":
				check(i, "pts", ev.Vals[0])
				check(i, "qts", ev.Vals[1])
			case strings.HasPrefix(ev.Key, "c"):
				check(i, ev.Key, ev.Vals[0])
			}
		}
	}
	return out
}

// CheckC02: after the final recovery every log entry with a position (and every plain entry that
// was pushed) has been dispatched, unless its sequence was reported too long.
func CheckC02(w *World, trace []Event, pushedPlain map[int]bool, alreadyDelivered map[int]bool, from Snapshot) []Violation {
	var out []Violation
	dispatched := map[int]bool{}
	tooLong := map[string]bool{}
	for id := range alreadyDelivered {
		dispatched[id] = true
	}
	for _, ev := range trace {
		switch ev.Kind {
		case "D":
			for _, id := range ev.IDs {
				dispatched[id] = true
			}
		case "L":
			if ev.Key == "" {
				tooLong["pts"] = true
			} else {
				tooLong[ev.Key] = true
			}
		}
	}
	seen := map[string]bool{}
	for _, en := range w.Log {
		if dispatched[en.ID] || en.IsMarker() || !w.tracked(en) {
			continue
		}
		if en.Kind != KPlain && en.Count == 0 {
			if carriedAnywhere(w, en.ID) && !tooLong[en.Seq()] && !seen["zero"] {
				seen["zero"] = true
				out = append(out, Violation{Key: "c02-difference-carried-zero-count-update-not-dispatched", Detail: fmt.Sprintf("entry %s (id %d) was carried by a difference answer but never dispatched; trace: %s", en, en.ID, FormatTrace(trace))})
			}
			continue
		}
		if en.Kind == KPlain {
			if pushedPlain[en.ID] {
				out = append(out, Violation{Key: "c02-lost-plain-update", Detail: fmt.Sprintf("pushed update %s never dispatched", en)})
			}
			continue
		}
		base := baseOf(w, from, en.Seq())
		if alreadyDelivered == nil && en.Pos <= base {
			continue
		}
		if tooLong[en.Seq()] {
			continue
		}
		key := "c02-lost-update"
		if cl := classify(w, en); cl != "" {
			key = "c02-" + cl
		}
		if !seen[key] {
			seen[key] = true
			out = append(out, Violation{Key: key, Detail: fmt.Sprintf("entry %s (id %d) of the server log was never dispatched although recovery completed; trace: %s", en, en.ID, FormatTrace(trace))})
		}
	}
	return out
}

func chanOfSeq(seq string) int64 {
	if !strings.HasPrefix(seq, "c") {
		return -1
	}
	c, _ := strconv.ParseInt(seq[1:], 10, 64)
	return c
}

// carriedAnywhere: some difference answer carried the entry.
func carriedAnywhere(w *World, id int) bool {
	for _, sv := range w.Served {
		for _, x := range sv.Messages {
			if x == id {
				return true
			}
		}
		for _, x := range sv.Others {
			if x == id {
				return true
			}
		}
	}
	return false
}

// CheckDuplicates: an entry with a position dispatched twice (C01 at the manager level).
func CheckDuplicates(w *World, trace []Event) []Violation {
	n := map[int]int{}
	for _, ev := range trace {
		if ev.Kind == "D" {
			for _, id := range ev.IDs {
				n[id]++
			}
		}
	}
	var ids []int
	for id, k := range n {
		if en, _, ok := w.entry(id); ok && k > 1 && en.Kind != KPlain && en.Count > 0 {
			ids = append(ids, id)
		}
	}
	sort.Ints(ids)
	if len(ids) == 0 {
		return nil
	}
	return []Violation{{Key: "c01-manager-duplicate-dispatch", Detail: fmt.Sprintf("entries %v dispatched more than once; trace: %s", ids, FormatTrace(trace))}}
}

// CheckOrder: when an entry of a sequence is dispatched, every entry of that sequence that ends at
// or before its start (and above the persisted start) has been dispatched before or in the same
// batch, unless too-long was reported: no position is skipped silently (C01 at the manager level).
func CheckOrder(w *World, trace []Event, from Snapshot) []Violation {
	dispatched := map[int]bool{}
	tooLong := map[string]bool{}
	base := func(en Entry) int { return baseOf(w, from, en.Seq()) }
	for i, ev := range trace {
		switch ev.Kind {
		case "L":
			if ev.Key == "" {
				tooLong["pts"] = true
			} else {
				tooLong[ev.Key] = true
			}
		case "D":
			for _, id := range ev.IDs {
				dispatched[id] = true
			}
			for _, id := range ev.IDs {
				en, _, ok := w.entry(id)
				if !ok || en.Kind == KPlain || tooLong[en.Seq()] || !w.tracked(en) {
					continue
				}
				for _, f := range w.Log {
					if f.Seq() == en.Seq() && f.Pos <= en.Pos-en.Count && f.Pos > base(f) && !dispatched[f.ID] && !f.Soft() && w.tracked(f) {
						key := "c01-manager-skipped-position"
						if cl := classify(w, f); cl != "" {
							key = "c01-manager-" + cl
						}
						return []Violation{{Key: key, Detail: fmt.Sprintf("trace[%d] %s dispatches entry %s although entry %s of the same sequence, which ends before it starts, was never dispatched; trace: %s",
							i, ev, en, f, FormatTrace(trace[:i+1]))}}
					}
				}
			}
		}
	}
	return nil
}

// FormatTrace renders events separated by spaces.
func FormatTrace(tr []Event) string {
	s := make([]string, len(tr))
	for i, e := range tr {
		s[i] = e.String()
	}
	if len(s) == 0 {
		return "_"
	}
	return strings.Join(s, " ")
}

// Project keeps the events of one goroutine: "main" (common stores, common api, common dispatches,
// common too-long) or "c<id>".
func Project(w *World, tr []Event, who string) []Event {
	var out []Event
	for _, e := range tr {
		if Owner(w, e) == who {
			out = append(out, e)
		}
	}
	return out
}

// Owner decides which goroutine produced an event.
func Owner(w *World, e Event) string {
	switch e.Kind {
	case "S":
		if strings.HasPrefix(e.Key, "c") {
			return e.Key
		}
		return "main"
	case "A":
		if strings.HasPrefix(e.Key, "chdiff") {
			return "c" + e.Key[6:]
		}
		return "main"
	case "L":
		if e.Key == "" {
			return "main"
		}
		return e.Key
	case "I":
		return e.Key
	case "D":
		if len(e.IDs) > 0 {
			if en, _, ok := w.entry(e.IDs[0]); ok && (en.Kind == KChMsg || en.Kind == KChOther) {
				return en.Seq()
			}
		}
	}
	return "main"
}
