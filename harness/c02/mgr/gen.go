package mgr

import (
	"verif/harness/hc"
)

// GenOptions steer the random scenario generator.
type GenOptions struct {
	Channels   int  // number of tracked channels (0..3)
	TooLong    bool // allow tooLong answers (C03 only; C02 excludes them)
	Wait       bool // allow waiting out the real gap timer
	MaxEntries int
	Affected   bool // allow messages.affected* results (marker entries, HandleAffected actions)
	Foreign    bool // allow differences that forward updates of other sequences, and unknown channels
	Faults     bool // allow transient failures of difference requests
	Fresh      bool // allow channels without stored state (met during the run) and access hashes learnt late
	First      bool // the client's first start: no stored common state, part of the log has already happened
	Private    bool // channels become inaccessible (CHANNEL_PRIVATE: worker stops, channel forgotten) and accessible again
	Users      bool // messages refer to users whose access hash may be unknown (the container is dropped, the difference fetched)
	Seq        bool // number containers (seq / seq_start): they go through the seq box (gaps, duplicates, late arrivals)
}

// Gen builds a random scenario: a server log mixing new messages, pts-bearing non-message
// updates, qts updates, channel messages/updates and position-less updates, delivered with loss,
// duplication, reordering, batching, forced recoveries, sliced differences.
func Gen(r *hc.RNG, o GenOptions) (Scenario, map[int]bool) {
	mayPriv := map[int64]bool{}
	s := Scenario{P0: hc.Pick(r, 10, 1, 100, r.Range(1, 50)), Q0: hc.Pick(r, 0, 3, r.Range(0, 9)), C0: map[int64]int{}, Fresh: map[int64]bool{}, Late: map[int64]bool{}}
	var chans []int64
	for i := 0; i < o.Channels; i++ {
		c := int64(5 + 3*i)
		chans = append(chans, c)
		s.C0[c] = hc.Pick(r, 5, 1, r.Range(1, 30))
		if o.Fresh && r.Chance(45) {
			s.Fresh[c] = true // the storage has never heard of it: met through a push or a forwarded update
		}
		if o.Fresh && r.Chance(12) {
			s.Late[c] = true // its access hash becomes known only with an action K (or never)
		}
		if o.Private && r.Chance(60) {
			mayPriv[c] = true // may become inaccessible (and be forgotten) during the run
		}
	}
	// which channels have a worker at this point of the schedule (extras are only attached to
	// differences of those: a channel without a worker asks for none)
	live, known, private := map[int64]bool{}, map[int64]bool{}, map[int64]bool{}
	for _, c := range chans {
		live[c] = !s.Fresh[c] && !s.Late[c]
	}
	touch := func(ids []int) {
		for _, id := range ids {
			e := s.Log[id-1]
			if _, ours := s.C0[e.Chan]; (e.Kind == KChMsg || e.Kind == KChOther) && ours && (!s.Late[e.Chan] || known[e.Chan]) {
				live[e.Chan] = true
			}
		}
	}
	// an update (that has happened) of a channel nobody has met yet, to be forwarded inside a difference
	unmet := func(upto int, x []int) []int {
		for _, e := range s.Log[:upto] {
			if _, ours := s.C0[e.Chan]; (e.Kind == KChMsg || e.Kind == KChOther) && ours && !live[e.Chan] && (!s.Late[e.Chan] || known[e.Chan]) && r.Chance(40) {
				for _, id := range x {
					if id == e.ID {
						return x
					}
				}
				return append(x, e.ID)
			}
		}
		return x
	}
	pts, qts := s.P0, s.Q0
	cp := map[int64]int{}
	for c, p := range s.C0 {
		cp[c] = p
	}
	n := r.Range(1, max(1, o.MaxEntries))
	for id := 1; id <= n; id++ {
		k := hc.Pick(r, KMsg, KMsg, KMsg, KOther, KOther, KQts, KQOther, KPlain)
		if o.Affected && r.Chance(18) {
			k = KAff
		}
		if len(chans) > 0 && r.Chance(40) {
			k = hc.Pick(r, KChMsg, KChMsg, KChOther)
			if o.Affected && r.Chance(25) {
				k = KChAff
			}
		}
		if o.Foreign && r.Chance(4) {
			k = KChOther // an update of a channel nobody knows the access hash of
		}
		e := Entry{ID: id, Kind: k, Count: 1}
		if o.Users && k == KMsg && r.Chance(60) {
			e.User = r.Range(1, 3)
		}
		if k == KOther || k == KChOther || k == KAff || k == KChAff {
			e.Count = hc.Pick(r, 1, 1, 1, 2, 3)
		}
		if (k == KOther || k == KChOther) && r.Chance(15) {
			e.Count = 0 // covers no position (updateReadChannelInbox and the like)
		}
		switch e.Seq() {
		case "pts":
			pts += e.Count
			e.Pos = pts
		case "qts":
			qts++
			e.Pos = qts
		case "":
			e.Count = 0
		default:
			if len(chans) == 0 || (o.Foreign && k == KChOther && r.Chance(12)) || (len(chans) == 0) {
				e.Chan, e.Kind, e.Count, e.Pos = 9001, KChOther, 1, 3+id // unknown channel: no sequence of ours
			} else {
				e.Chan = hc.Pick(r, chans...)
				cp[e.Chan] += e.Count
				e.Pos = cp[e.Chan]
			}
		}
		s.Log = append(s.Log, e)
	}
	pushedPlain := map[int]bool{}
	if o.First {
		s.NoState, s.Pre = true, r.Range(0, n/2)
	}
	// schedule
	inOrder := r.Range(20, 90)
	var delayed []Action
	var sent []Action
	sq := 0 // the server's seq
	// a container the server sends now: numbered or not
	container := func(ids []int) Action {
		plainOnly := !o.Seq || !r.Chance(70)
		for _, id := range ids {
			// when a parked container is routed is the seq box's business: the harness predicts the
			// position a channel is met at only for unnumbered pushes, so updates of channels that
			// are not stored from the start with a known hash, or may be forgotten, never travel in numbered containers
			if e := s.Log[id-1]; s.Fresh[e.Chan] || s.Late[e.Chan] || mayPriv[e.Chan] {
				plainOnly = true
			}
		}
		if plainOnly {
			return Action{Op: "p", IDs: ids}
		}
		a := Action{Op: "ps", N: sq + 1, B: sq + 1, IDs: ids}
		if r.Chance(10) {
			a.B++
		}
		sq = a.B
		return a
	}
	i := 0
	if o.Users && r.Chance(60) { // some users are known from the start
		var us []int
		for u := 1; u <= 3; u++ {
			if r.Bool() {
				us = append(us, u)
			}
		}
		if len(us) > 0 {
			s.Actions = append(s.Actions, Action{Op: "U", IDs: us})
		}
	}
	if r.Chance(25) { // part of the log happened while the client was offline
		k := r.Range(1, n)
		s.Actions = append(s.Actions, Action{Op: "e", N: k})
		if o.Seq && r.Bool() {
			sq += r.Range(1, 2)
			s.Actions = append(s.Actions, Action{Op: "es", N: sq})
		}
		i = k
		if r.Chance(50) {
			s.Actions = append(s.Actions, Action{Op: "T"})
		}
	}
	if r.Chance(20) {
		s.Actions = append(s.Actions, Action{Op: "sl", N: r.Range(1, 3)})
	}
	if len(chans) > 0 && r.Chance(20) {
		s.Actions = append(s.Actions, Action{Op: "csl", N: r.Range(1, 2)})
	}
	for i < n {
		id := s.Log[i].ID
		switch {
		case r.Chance(inOrder):
			ids := []int{id}
			for i+1 < n && r.Chance(25) { // batch several entries into one container
				i++
				ids = append(ids, s.Log[i].ID)
			}
			if r.Chance(15) && len(ids) > 1 { // shuffled inside the container
				ids[0], ids[len(ids)-1] = ids[len(ids)-1], ids[0]
			}
			c := container(ids)
			s.Actions = append(s.Actions, c)
			sent = append(sent, c)
			touch(ids)
		case r.Chance(50):
			s.Actions = append(s.Actions, Action{Op: "e", N: 1}) // lost
			if c := container([]int{id}); c.Op == "ps" {
				s.Actions = append(s.Actions, Action{Op: "es", N: c.B}) // its number is gone with it: a seq gap
			}
		default:
			s.Actions = append(s.Actions, Action{Op: "e", N: 1})
			c := container([]int{id})
			if c.Op == "ps" {
				s.Actions = append(s.Actions, Action{Op: "es", N: c.B})
			}
			delayed = append(delayed, c) // arrives late (with the number it was sent with)
		}
		i++
		if len(delayed) > 0 && r.Chance(35) {
			j := r.Intn(len(delayed))
			s.Actions = append(s.Actions, delayed[j])
			sent = append(sent, delayed[j])
			touch(delayed[j].IDs)
			delayed = append(delayed[:j], delayed[j+1:]...)
		}
		if r.Chance(8) { // duplicate of anything that already happened
			id := s.Log[r.Intn(i)].ID
			s.Actions = append(s.Actions, Action{Op: "p", IDs: []int{id}})
			touch([]int{id})
		}
		if o.Seq && len(sent) > 0 && r.Chance(8) { // a whole container arrives a second time
			c := sent[r.Intn(len(sent))]
			s.Actions = append(s.Actions, c)
			touch(c.IDs)
		}
		for _, c := range chans { // the access hash of a late channel becomes known
			if s.Late[c] && !known[c] && r.Chance(12) {
				s.Actions = append(s.Actions, Action{Op: "K", C: c})
				known[c] = true
			}
		}
		if r.Chance(8) {
			if o.Foreign && r.Chance(50) { // the difference forwards channel / position-less / unknown-channel updates
				if x := unmet(i, pickExtras(r, s.Log[:i], func(e Entry) bool { return e.Seq() != "pts" && e.Seq() != "qts" && !e.IsMarker() })); len(x) > 0 {
					s.Actions = append(s.Actions, Action{Op: "X", C: 0, IDs: x})
					touch(x)
				}
			}
			s.Actions = append(s.Actions, Action{Op: hc.Pick(r, "T", "T", "PC")})
		}
		if len(chans) > 0 && r.Chance(8) {
			c := hc.Pick(r, chans...)
			if o.Foreign && live[c] && r.Chance(50) { // … updates of other channels, common updates, position-less ones
				if x := unmet(i, pickExtras(r, s.Log[:i], func(e Entry) bool { return !(e.Chan == c && e.Seq() != "") && !e.IsMarker() })); len(x) > 0 {
					s.Actions = append(s.Actions, Action{Op: "X", C: c, IDs: x})
					touch(x)
				}
			}
			s.Actions = append(s.Actions, Action{Op: "CT", C: c})
		}
		if o.Foreign && o.Fresh && r.Chance(25) { // a channel nobody has met is met through a difference of something else
			if x := unmet(i, nil); len(x) > 0 {
				var lc []int64
				for _, c := range chans {
					if live[c] && s.Log[x[0]-1].Chan != c {
						lc = append(lc, c)
					}
				}
				if len(lc) > 0 && r.Bool() {
					c := hc.Pick(r, lc...)
					s.Actions = append(s.Actions, Action{Op: "X", C: c, IDs: x}, Action{Op: "CT", C: c})
				} else {
					s.Actions = append(s.Actions, Action{Op: "X", C: 0, IDs: x}, Action{Op: "T"})
				}
				touch(x)
			}
		}
		if o.Private && len(chans) > 0 && r.Chance(7) {
			c := hc.Pick(r, chans...)
			if !mayPriv[c] {
				// stays accessible
			} else if private[c] {
				s.Actions = append(s.Actions, Action{Op: "PUB", C: c})
				private[c] = false
			} else {
				s.Actions = append(s.Actions, Action{Op: "PRIV", C: c})
				private[c] = true
				if r.Chance(70) { // the next difference of the channel finds out
					s.Actions = append(s.Actions, Action{Op: "CT", C: c})
				}
			}
		}
		if o.TooLong && r.Chance(4) {
			s.Actions = append(s.Actions, Action{Op: "TL"}, Action{Op: "T"})
		}
		if o.TooLong && len(chans) > 0 && r.Chance(4) {
			c := hc.Pick(r, chans...)
			s.Actions = append(s.Actions, Action{Op: "CTL", C: c}, Action{Op: "CT", C: c})
		}
		if o.Wait && r.Chance(3) {
			s.Actions = append(s.Actions, Action{Op: "W"})
		}
		if o.Faults && r.Chance(6) { // a transient RPC failure of the next difference request
			c := int64(0)
			if len(chans) > 0 && r.Chance(60) {
				c = hc.Pick(r, chans...)
			}
			s.Actions = append(s.Actions, Action{Op: "ERR", C: c})
		}
		if r.Chance(10) { // the gap timers fire (through the hook, no real waiting)
			s.Actions = append(s.Actions, Action{Op: "F"})
		}
	}
	for _, c := range chans { // most channels are accessible again in the end
		if private[c] && r.Chance(70) {
			s.Actions = append(s.Actions, Action{Op: "PUB", C: c})
			private[c] = false
			live[c] = false // (it may have been forgotten: meet it again below)
		}
	}
	// a channel nobody has met so far is often met at the very end, through any one of its updates
	for _, c := range chans {
		if live[c] || (s.Late[c] && !known[c]) || !r.Chance(70) {
			continue
		}
		var own []int
		for _, e := range s.Log {
			if e.Chan == c && (e.Kind == KChMsg || e.Kind == KChOther) {
				own = append(own, e.ID)
			}
		}
		if len(own) > 0 {
			id := own[r.Intn(len(own))]
			s.Actions = append(s.Actions, Action{Op: "p", IDs: []int{id}})
			touch([]int{id})
		}
	}
	// marker entries never travel in containers: split them out of every push into HandleAffected
	// actions (before or after the rest of the container), and sprinkle count-0 results
	if o.Affected {
		var as []Action
		for _, a := range s.Actions {
			if a.Op != "p" && a.Op != "ps" {
				as = append(as, a)
				continue
			}
			var ids []int
			var marks []Action
			for _, id := range a.IDs {
				if s.Log[id-1].IsMarker() {
					marks = append(marks, Action{Op: "a", IDs: []int{id}})
				} else {
					ids = append(ids, id)
				}
			}
			first := r.Bool()
			if first {
				as = append(as, marks...)
			}
			if len(ids) > 0 {
				as = append(as, Action{Op: a.Op, N: a.N, B: a.B, IDs: ids})
			} else if a.Op == "ps" {
				as = append(as, Action{Op: "es", N: a.B})
			}
			if !first {
				as = append(as, marks...)
			}
			if r.Chance(6) {
				c := int64(0)
				if len(chans) > 0 && r.Bool() {
					c = hc.Pick(r, chans...)
				}
				as = append(as, Action{Op: "z", C: c})
			}
		}
		s.Actions = as
	}
	for _, a := range s.Actions {
		// (a numbered container that is overtaken by a difference is dropped by the seq box with its
		// position-less updates: only unnumbered pushes promise their delivery)
		// … and a container with a message from a user whose access hash is unknown is dropped as a whole
		if a.Op == "p" { // (what a difference forwards is counted from what the answers really carried)
			gated := false
			for _, id := range a.IDs {
				if s.Log[id-1].User != 0 {
					gated = true
				}
			}
			for _, id := range a.IDs {
				if s.Log[id-1].Kind == KPlain && !gated {
					pushedPlain[id] = true
				}
			}
		}
	}
	return s, pushedPlain
}

// pickExtras chooses up to three entries that have already happened and satisfy ok.
func pickExtras(r *hc.RNG, happened []Entry, ok func(Entry) bool) []int {
	var cand []int
	for _, e := range happened {
		if ok(e) {
			cand = append(cand, e.ID)
		}
	}
	var out []int
	for n := r.Range(1, 3); n > 0 && len(cand) > 0; n-- {
		j := r.Intn(len(cand))
		out = append(out, cand[j])
		cand = append(cand[:j], cand[j+1:]...)
	}
	return out
}
