// Package mgr is the fake environment (server log, difference oracle, storage, handler) around the
// public updates.Manager used by the C02 and C03 harnesses.
package mgr

import (
	"context"
	"fmt"
	"sort"
	"strconv"
	"strings"
	"sync"

	"github.com/gotd/td/telegram/updates"
	"github.com/gotd/td/tg"
)

// Kind of a server log entry.
type Kind byte

const (
	KMsg     Kind = 'm' // common new message: pts, count 1
	KOther   Kind = 'o' // common pts-bearing non-message update (delete), count ≥ 1
	KQts     Kind = 'q' // new encrypted message: qts
	KQOther  Kind = 'r' // qts-bearing non-message update (bot stopped)
	KChMsg   Kind = 'M' // channel new message: channel pts, count 1
	KChOther Kind = 'O' // channel pts-bearing non-message update (delete), count ≥ 1
	KPlain   Kind = 'p' // update without a position
	KAff     Kind = 'a' // a messages.affected* result moving the common pts (never pushed as an update; reaches the client only through Manager.HandleAffected; not dispatchable)
	KChAff   Kind = 'A' // the same for a channel's pts
)

// Entry is one update of the server's log.
type Entry struct {
	ID    int
	Kind  Kind
	Chan  int64
	Pos   int // pts / qts / channel pts after the update
	Count int
	User  int // KMsg: the user the message comes from (0: none); its access hash must be known
}

// userID is the Telegram id of scenario user u.
func userID(u int) int64 { return int64(700 + u) }

// Seq names the sequence an entry belongs to: "pts", "qts", "c<id>" or "" (plain).
func (e Entry) Seq() string {
	switch e.Kind {
	case KMsg, KOther, KAff:
		return "pts"
	case KQts, KQOther:
		return "qts"
	case KChMsg, KChOther, KChAff:
		return "c" + strconv.FormatInt(e.Chan, 10)
	}
	return ""
}

// IsMarker: an affected result — it occupies positions of its sequence but is nothing to dispatch.
func (e Entry) IsMarker() bool { return e.Kind == KAff || e.Kind == KChAff }

// Soft: the coverage requirements do not apply — a marker, or an update covering no position
// (count 0, e.g. updateReadChannelInbox): a lost push of it is not returned by any later difference.
// When a difference does carry it, it must be dispatched like everything the difference carries.
func (e Entry) Soft() bool { return e.Kind != KPlain && (e.IsMarker() || e.Count == 0) }

func (e Entry) inChan(c int64) bool {
	return (e.Kind == KChMsg || e.Kind == KChOther || e.Kind == KChAff) && e.Chan == c
}

func (e Entry) String() string {
	if e.User != 0 {
		return fmt.Sprintf("%c%d:%d:%d:%d:%d", e.Kind, e.ID, e.Chan, e.Pos, e.Count, e.User)
	}
	return fmt.Sprintf("%c%d:%d:%d:%d", e.Kind, e.ID, e.Chan, e.Pos, e.Count)
}

// IsMessage: carried in a difference's new_messages (not in other_updates).
func (e Entry) IsMessage() bool { return e.Kind == KMsg || e.Kind == KQts || e.Kind == KChMsg }

const (
	SelfID     = 4242
	barrierMin = 1 << 40
	Date0      = 1_700_000_000
)

// Update builds the tg update of an entry (as pushed by the server).
func (e Entry) Update() tg.UpdateClass {
	switch e.Kind {
	case KMsg:
		return &tg.UpdateNewMessage{Message: e.message(), Pts: e.Pos, PtsCount: e.Count}
	case KOther:
		return &tg.UpdateDeleteMessages{Messages: []int{e.ID}, Pts: e.Pos, PtsCount: e.Count}
	case KQts:
		return &tg.UpdateNewEncryptedMessage{Message: &tg.EncryptedMessage{RandomID: int64(e.ID), ChatID: 1}, Qts: e.Pos}
	case KQOther:
		return &tg.UpdateBotStopped{UserID: int64(e.ID), Qts: e.Pos}
	case KChMsg:
		return &tg.UpdateNewChannelMessage{Message: e.message(), Pts: e.Pos, PtsCount: e.Count}
	case KChOther:
		return &tg.UpdateDeleteChannelMessages{ChannelID: e.Chan, Messages: []int{e.ID}, Pts: e.Pos, PtsCount: e.Count}
	}
	return &tg.UpdateUserTyping{UserID: int64(e.ID)}
}

func (e Entry) message() tg.MessageClass {
	if e.Kind == KChMsg {
		return &tg.Message{ID: e.ID, PeerID: &tg.PeerChannel{ChannelID: e.Chan}}
	}
	m := &tg.Message{ID: e.ID, PeerID: &tg.PeerChat{ChatID: 7}}
	if e.User != 0 {
		m.SetFromID(&tg.PeerUser{UserID: userID(e.User)})
	}
	return m
}

// idOf recovers the entry id (or barrier id) from a dispatched update.
func idOf(u tg.UpdateClass) (int, bool) {
	switch u := u.(type) {
	case *tg.UpdateNewMessage:
		if m, ok := u.Message.(*tg.Message); ok {
			return m.ID, true
		}
	case *tg.UpdateNewChannelMessage:
		if m, ok := u.Message.(*tg.Message); ok {
			return m.ID, true
		}
	case *tg.UpdateDeleteMessages:
		if len(u.Messages) == 1 {
			return u.Messages[0], true
		}
	case *tg.UpdateDeleteChannelMessages:
		if len(u.Messages) == 1 {
			return u.Messages[0], true
		}
	case *tg.UpdateNewEncryptedMessage:
		if m, ok := u.Message.(*tg.EncryptedMessage); ok {
			return int(m.RandomID), true
		}
	case *tg.UpdateBotStopped:
		return int(u.UserID), true
	case *tg.UpdateUserTyping:
		return int(u.UserID), true
	}
	return 0, false
}

// Event is one observable action of the manager.
type Event struct {
	Kind string // "D" dispatch, "S" store, "A" api request, "L" too-long callback, "I" channel-inaccessible callback
	Key  string // S: pts|qts|state|c<id>|date|seq|dateseq   A: diff|chdiff<id>|getstate   L: ""|c<id>
	Vals []int  // S: values; A: request positions
	IDs  []int  // D: entry ids in batch order
}

func (e Event) String() string {
	ints := func(v []int) string {
		s := make([]string, len(v))
		for i, x := range v {
			s[i] = strconv.Itoa(x)
		}
		return strings.Join(s, ",")
	}
	switch e.Kind {
	case "D":
		return "D:" + ints(e.IDs)
	case "S":
		return "S:" + e.Key + "=" + ints(e.Vals)
	case "A":
		return "A:" + e.Key + "(" + ints(e.Vals) + ")"
	case "I":
		return "I:" + e.Key
	}
	if e.Key == "" {
		return "L"
	}
	return "L:" + e.Key
}

// Served records what one difference answer carried (for classifying lost updates).
type Served struct {
	Seq      string // "pts" (common difference) or "c<id>"
	Kind     string // "diff", "slice", "empty", "toolong"
	Messages []int
	Others   []int
	Extras   []int // forwarded updates of other sequences
	ToPts    int
}

// UnknownChan: channels whose access hash nobody knows.
func UnknownChan(c int64) bool { return c >= 9000 }

// takeExtras returns (and forgets) the extra entries waiting for the next answer of seq.
func (w *World) takeExtras(seq string, peek bool) []Entry {
	var out []Entry
	for _, id := range w.Extra[seq] {
		if en, _, ok := w.entry(id); ok {
			out = append(out, en)
		}
	}
	if !peek {
		delete(w.Extra, seq)
	}
	return out
}

// World is the server side: the log, what has happened so far, and how differences are answered.
type World struct {
	mu sync.Mutex

	Log     []Entry
	Emitted int // Log[:Emitted] has happened on the server
	P0, Q0  int
	NoState bool          // the storage holds no common state at the first start …
	Pre     int           // … which happens after Log[:Pre]
	Seq     int           // the server's seq: number of the last container it has sent (delivered or not)
	C0      map[int64]int // every channel of the scenario and the pts its part of the log starts from

	// Fresh: channels the storage knows nothing about at the start (they are met during the run).
	// Late: channels whose access hash the client does not know until action K (Known).
	Fresh, Late, Known map[int64]bool
	// stored: channels the storage of this run knew at its start (a restart: the crash snapshot).
	stored map[int64]bool
	// Created: channels without stored state that have been met, with the position they were met at
	// (pts - pts_count of the first update routed to them): where their sequence starts for this client.
	// Predicted by the harness from what it pushed / what the oracle forwarded, not read from the manager.
	Created     map[int64]int
	live        map[int64]bool // channels expected to have a worker (loaded at the start, or met)
	removing    map[int64]int  // CHANNEL_PRIVATE answers served whose channel the main loop has not forgotten yet
	subscribing map[int64]int  // new workers whose first difference will forward updates: answers served before
	KnownUsers  map[int64]bool // users (Telegram ids) whose access hash the client knows
	// Private: channels the account cannot access right now (their difference answers CHANNEL_PRIVATE).
	// Removed: channels whose worker was told so since the last time they were met (it has stopped).
	Private, Removed map[int64]bool
	MetVia           map[int64]string // how a channel was met: push | common-difference | channel-difference
	// Started: channels for which the manager has (or is about to have) a worker: loaded at the start,
	// or the manager asked the storage for their pts (handleChannel does so right before starting one).
	Started map[int64]bool

	Slice       int            // >0: common differences carry at most Slice entries per answer
	ChanSlice   int            // >0: channel differences carry at most ChanSlice entries per answer
	TooLongNext bool           // next common getDifference answers differenceTooLong (once)
	ChanTooLong map[int64]bool // next getChannelDifference of the channel answers tooLong (once)

	Served []Served

	// FailNext: sequences ("pts" = common, "c<id>") whose next difference request fails with a
	// transient RPC error (nothing is served).
	FailNext map[string]bool

	// Extra: other_updates the next non-too-long answer for a sequence ("pts" = common difference,
	// "c<id>") will carry in addition: updates of OTHER sequences, position-less updates, updates of
	// unknown channels, forwarded by the server inside this difference.
	Extra map[string][]int

	// channel difference in progress (answer handed out, SetChannelPts of the final part not yet seen)
	inDiff    map[int64]bool
	lastFinal map[int64]bool
	// genuine channel too-long callbacks still to come (after a tooLong answer)
	genuineTL map[int64]int
}

func NewWorld(log []Entry, p0, q0 int, c0 map[int64]int) *World {
	return &World{Log: log, P0: p0, Q0: q0, C0: c0, ChanTooLong: map[int64]bool{}, Extra: map[string][]int{}, FailNext: map[string]bool{}, inDiff: map[int64]bool{},
		lastFinal: map[int64]bool{}, genuineTL: map[int64]int{},
		Fresh: map[int64]bool{}, Late: map[int64]bool{}, Known: map[int64]bool{}, stored: map[int64]bool{}, Created: map[int64]int{}, Started: map[int64]bool{}, live: map[int64]bool{}, subscribing: map[int64]int{}, removing: map[int64]int{}, MetVia: map[int64]string{}, KnownUsers: map[int64]bool{}, Private: map[int64]bool{}, Removed: map[int64]bool{}}
}

// hashUnknown: nobody can tell the client the channel's access hash right now.
func (w *World) hashUnknown(c int64) bool { return UnknownChan(c) || (w.Late[c] && !w.Known[c]) }

// contact is called (with the lock held) for every container of updates that reaches the main
// loop's routing: a push, or the foreign updates forwarded by a difference answer. A channel that
// has no worker and no stored state is met at the lowest pts - pts_count of its updates in the
// container (the routing sorts by that).
func (w *World) contact(container []Entry, via string) {
	// a container with a message from a user whose access hash is unknown is dropped as a whole (a
	// common difference brings its users along, so it is never in that situation)
	if via != "common-difference" {
		for _, en := range container {
			if en.Kind == KMsg && en.User != 0 && !w.KnownUsers[userID(en.User)] {
				return
			}
		}
	}
	for _, en := range container {
		if en.Kind != KChMsg && en.Kind != KChOther {
			continue
		}
		c := en.Chan
		if _, ours := w.C0[c]; !ours || w.hashUnknown(c) || w.live[c] {
			continue
		}
		if _, before := w.Created[c]; !w.stored[c] && !before {
			low := en.Pos - en.Count
			for _, f := range container {
				if (f.Kind == KChMsg || f.Kind == KChOther) && f.Chan == c {
					low = min(low, f.Pos-f.Count)
				}
			}
			w.Created[c] = low
		}
		w.live[c] = true
		delete(w.Removed, c)
		w.MetVia[c] = via
	}
}

// removed: the channel's worker was told CHANNEL_PRIVATE and the channel has not been met again.
func (w *World) removed(c int64) bool {
	w.mu.Lock()
	defer w.mu.Unlock()
	return w.Removed[c]
}

// forgotten: the main loop has removed the channel from its table (seen through the manager's logger).
func (w *World) forgotten(c int64) {
	w.mu.Lock()
	if w.removing[c] > 0 {
		w.removing[c]--
	}
	w.mu.Unlock()
}

// removalsOutstanding: channels whose worker was told CHANNEL_PRIVATE and that the main loop still tracks.
func (w *World) removalsOutstanding() int {
	w.mu.Lock()
	defer w.mu.Unlock()
	n := 0
	for _, k := range w.removing {
		n += k
	}
	return n
}

// LiveChannels: the channels the harness expects to have a worker (ascending).
func (w *World) LiveChannels() []int64 {
	w.mu.Lock()
	defer w.mu.Unlock()
	var cs []int64
	for c := range w.live {
		cs = append(cs, c)
	}
	sort.Slice(cs, func(i, j int) bool { return cs[i] < cs[j] })
	return cs
}

// StartedChannels: the channels the manager has started (or is starting) a worker for (ascending).
func (w *World) StartedChannels() []int64 {
	w.mu.Lock()
	defer w.mu.Unlock()
	var cs []int64
	for c := range w.Started {
		cs = append(cs, c)
	}
	sort.Slice(cs, func(i, j int) bool { return cs[i] < cs[j] })
	return cs
}

// Channels returns the tracked channel ids in ascending order.
func (w *World) Channels() []int64 {
	var cs []int64
	for c := range w.C0 {
		cs = append(cs, c)
	}
	sort.Slice(cs, func(i, j int) bool { return cs[i] < cs[j] })
	return cs
}

func (w *World) emitted() []Entry { return w.Log[:w.Emitted] }

// serverState is the server's current (pts, qts).
func (w *World) serverState() (pts, qts int) {
	pts, qts = w.P0, w.Q0
	for _, e := range w.emitted() {
		switch e.Seq() {
		case "pts":
			pts = e.Pos
		case "qts":
			qts = e.Pos
		}
	}
	return
}

func (w *World) chanState(c int64) int {
	p := w.C0[c]
	for _, e := range w.emitted() {
		if e.inChan(c) {
			p = e.Pos
		}
	}
	return p
}

// commonDifference answers updates.getDifference(pts, qts).
func (w *World) commonDifference(pts, qts int) tg.UpdatesDifferenceClass {
	w.mu.Lock()
	defer w.mu.Unlock()
	sp, sq := w.serverState()
	if w.FailNext["pts"] {
		delete(w.FailNext, "pts")
		w.Served = append(w.Served, Served{Seq: "pts", Kind: "error"})
		return nil
	}
	if w.TooLongNext {
		w.TooLongNext = false
		w.Served = append(w.Served, Served{Seq: "pts", Kind: "toolong", ToPts: sp})
		return &tg.UpdatesDifferenceTooLong{Pts: sp}
	}
	var part []Entry
	more := false
	for _, e := range w.emitted() {
		if (e.Seq() == "pts" && e.Pos > pts) || (e.Seq() == "qts" && e.Pos > qts) {
			if w.Slice > 0 && len(part) == w.Slice {
				more = true
				break
			}
			part = append(part, e)
		}
	}
	if len(part) == 0 && len(w.takeExtras("pts", true)) == 0 {
		w.Served = append(w.Served, Served{Seq: "pts", Kind: "empty"})
		return &tg.UpdatesDifferenceEmpty{Date: Date0, Seq: w.Seq}
	}
	extras := w.takeExtras("pts", false)
	w.contact(extras, "common-difference")
	st := tg.UpdatesState{Pts: pts, Qts: qts, Date: Date0, Seq: w.Seq}
	sv := Served{Seq: "pts", Kind: "diff"}
	var msgs []tg.MessageClass
	var enc []tg.EncryptedMessageClass
	var others []tg.UpdateClass
	for _, e := range part {
		switch e.Kind {
		case KMsg:
			msgs = append(msgs, e.message())
			sv.Messages = append(sv.Messages, e.ID)
		case KQts:
			enc = append(enc, &tg.EncryptedMessage{RandomID: int64(e.ID), ChatID: 1})
			sv.Messages = append(sv.Messages, e.ID)
		case KAff:
			// the client's own action: covered by the state, nothing to carry
		default:
			others = append(others, e.Update())
			sv.Others = append(sv.Others, e.ID)
		}
		if e.Seq() == "pts" {
			st.Pts = e.Pos
		} else {
			st.Qts = e.Pos
		}
	}
	if !more {
		st.Pts, st.Qts = max(st.Pts, sp), max(st.Qts, sq)
	}
	for _, e := range extras {
		others = append(others, e.Update())
		sv.Extras = append(sv.Extras, e.ID)
	}
	// the answer comes with the full user objects of everything it carries
	var users []tg.UserClass
	for _, e := range append(append([]Entry{}, part...), extras...) {
		if e.User != 0 {
			users = append(users, &tg.User{ID: userID(e.User), AccessHash: int64(1000 + e.User)})
		}
	}
	sv.ToPts = st.Pts
	if more {
		sv.Kind = "slice"
		w.Served = append(w.Served, sv)
		return &tg.UpdatesDifferenceSlice{NewMessages: msgs, NewEncryptedMessages: enc, OtherUpdates: others, IntermediateState: st, Users: users}
	}
	w.Served = append(w.Served, sv)
	return &tg.UpdatesDifference{NewMessages: msgs, NewEncryptedMessages: enc, OtherUpdates: others, State: st, Users: users}
}

// privateAnswer stands for the RPC error CHANNEL_PRIVATE.
var privateAnswer tg.UpdatesChannelDifferenceClass = &tg.UpdatesChannelDifferenceEmpty{Pts: -1}

// channelDifference answers updates.getChannelDifference(channel, pts).
func (w *World) channelDifference(c int64, pts int) tg.UpdatesChannelDifferenceClass {
	w.mu.Lock()
	defer w.mu.Unlock()
	seq := "c" + strconv.FormatInt(c, 10)
	sp := w.chanState(c)
	// a new request: whatever was answered before has been processed completely
	w.inDiff[c] = false
	if w.FailNext[seq] {
		delete(w.FailNext, seq)
		w.Served = append(w.Served, Served{Seq: seq, Kind: "error"})
		return nil
	}
	if w.Private[c] {
		// CHANNEL_PRIVATE: the worker reports it, asks the main loop to forget the channel and stops
		w.Served = append(w.Served, Served{Seq: seq, Kind: "private"})
		w.removing[c]++ // until the main loop says it has forgotten the channel
		delete(w.live, c)
		delete(w.Started, c)
		w.Removed[c] = true
		return privateAnswer
	}
	if w.ChanTooLong[c] {
		w.ChanTooLong[c] = false
		w.genuineTL[c]++
		d := &tg.Dialog{Peer: &tg.PeerChannel{ChannelID: c}}
		d.SetPts(sp)
		w.Served = append(w.Served, Served{Seq: seq, Kind: "toolong", ToPts: sp})
		return &tg.UpdatesChannelDifferenceTooLong{Final: true, Dialog: d}
	}
	var part []Entry
	more := false
	for _, e := range w.emitted() {
		if e.inChan(c) && e.Pos > pts {
			if w.ChanSlice > 0 && len(part) == w.ChanSlice {
				more = true
				break
			}
			part = append(part, e)
		}
	}
	if len(part) == 0 && len(w.takeExtras(seq, true)) == 0 {
		w.Served = append(w.Served, Served{Seq: seq, Kind: "empty", ToPts: max(pts, sp)})
		return &tg.UpdatesChannelDifferenceEmpty{Final: true, Pts: max(pts, sp)}
	}
	extras := w.takeExtras(seq, false)
	w.contact(extras, "channel-difference")
	sv := Served{Seq: seq, Kind: "diff"}
	d := &tg.UpdatesChannelDifference{Final: !more, Pts: pts}
	if len(part) == 0 {
		d.Pts = max(pts, sp)
	}
	for _, e := range part {
		switch e.Kind {
		case KChMsg:
			d.NewMessages = append(d.NewMessages, e.message())
			sv.Messages = append(sv.Messages, e.ID)
		case KChOther:
			d.OtherUpdates = append(d.OtherUpdates, e.Update())
			sv.Others = append(sv.Others, e.ID)
		}
		d.Pts = e.Pos
	}
	for _, e := range extras {
		d.OtherUpdates = append(d.OtherUpdates, e.Update())
		sv.Extras = append(sv.Extras, e.ID)
	}
	if more {
		sv.Kind = "slice"
	}
	sv.ToPts = d.Pts
	w.Served = append(w.Served, sv)
	w.inDiff[c] = true
	w.lastFinal[c] = d.Final
	return d
}

func (w *World) chanDiffBusy(c int64) bool {
	w.mu.Lock()
	defer w.mu.Unlock()
	return w.inDiff[c]
}

func (w *World) chanPtsStored(c int64) {
	w.mu.Lock()
	if w.inDiff[c] && w.lastFinal[c] {
		w.inDiff[c] = false
	}
	w.mu.Unlock()
}

// takeGenuineTL reports whether a channel too-long callback is a genuine one (an answer
// `channelDifferenceTooLong` was just served) rather than a harness barrier.
func (w *World) takeGenuineTL(c int64) bool {
	w.mu.Lock()
	defer w.mu.Unlock()
	if w.genuineTL[c] > 0 {
		w.genuineTL[c]--
		return true
	}
	return false
}

// ---------------------------------------------------------------------------------------------
// storage

// Store is an in-memory updates.StateStorage that records every write.
type Store struct {
	mu    sync.Mutex
	state updates.State
	has   bool
	chans map[int64]int
	env   *Env
}

// Snapshot is a copy of the persisted state.
type Snapshot struct {
	State updates.State
	Has   bool
	Chans map[int64]int
}

func (s *Store) snapshotLocked() Snapshot {
	c := make(map[int64]int, len(s.chans))
	for k, v := range s.chans {
		c[k] = v
	}
	return Snapshot{State: s.state, Has: s.has, Chans: c}
}

func (s *Store) Snapshot() Snapshot {
	s.mu.Lock()
	defer s.mu.Unlock()
	return s.snapshotLocked()
}

func (s *Store) write(key string, vals []int, f func()) error {
	s.mu.Lock()
	defer s.mu.Unlock()
	if !s.has && key != "state" && !strings.HasPrefix(key, "c") {
		return fmt.Errorf("state not found")
	}
	f()
	s.env.record(Event{Kind: "S", Key: key, Vals: vals}, s.snapshotLocked())
	return nil
}

func (s *Store) GetState(_ context.Context, _ int64) (updates.State, bool, error) {
	s.mu.Lock()
	defer s.mu.Unlock()
	return s.state, s.has, nil
}

func (s *Store) SetState(_ context.Context, _ int64, st updates.State) error {
	return s.write("state", []int{st.Pts, st.Qts}, func() { s.state, s.has = st, true })
}

func (s *Store) SetPts(_ context.Context, _ int64, pts int) error {
	return s.write("pts", []int{pts}, func() { s.state.Pts = pts })
}

func (s *Store) SetQts(_ context.Context, _ int64, qts int) error {
	return s.write("qts", []int{qts}, func() { s.state.Qts = qts })
}

func (s *Store) SetDate(_ context.Context, _ int64, date int) error {
	return s.write("date", []int{date}, func() { s.state.Date = date })
}

func (s *Store) SetSeq(_ context.Context, _ int64, seq int) error {
	return s.write("seq", []int{seq}, func() { s.state.Seq = seq })
}

func (s *Store) SetDateSeq(_ context.Context, _ int64, date, seq int) error {
	return s.write("dateseq", []int{date, seq}, func() { s.state.Date, s.state.Seq = date, seq })
}

func (s *Store) GetChannelPts(_ context.Context, _, channelID int64) (int, bool, error) {
	// only handleChannel asks, right before it starts the channel's worker
	w := s.env.W
	w.mu.Lock()
	w.Started[channelID] = true
	delete(w.Removed, channelID) // a new worker: barriers go through it again
	if seq := "c" + strconv.FormatInt(channelID, 10); len(w.Extra[seq]) > 0 {
		// the new worker's subscribe difference will forward updates: a barrier must not be queued
		// behind it before it has been answered (sendOut's drain would swallow the barrier)
		n := 0
		for _, sv := range w.Served {
			if sv.Seq == seq {
				n++
			}
		}
		w.subscribing[channelID] = n
	}
	w.mu.Unlock()
	s.mu.Lock()
	defer s.mu.Unlock()
	p, ok := s.chans[channelID]
	return p, ok, nil
}

func (s *Store) SetChannelPts(_ context.Context, _, channelID int64, pts int) error {
	err := s.write("c"+strconv.FormatInt(channelID, 10), []int{pts}, func() { s.chans[channelID] = pts })
	s.env.W.chanPtsStored(channelID)
	return err
}

func (s *Store) ForEachChannels(ctx context.Context, _ int64, f func(ctx context.Context, channelID int64, pts int) error) error {
	s.mu.Lock()
	type kv struct {
		c int64
		p int
	}
	var all []kv
	for c, p := range s.chans {
		all = append(all, kv{c, p})
	}
	s.mu.Unlock()
	sort.Slice(all, func(i, j int) bool { return all[i].c < all[j].c })
	for _, x := range all {
		if err := f(ctx, x.c, x.p); err != nil {
			return err
		}
	}
	return nil
}

// hasher knows an access hash for every channel of the scenario, for the late ones from action K on.
type hasher struct{ w *World }

func (hasher) SetChannelAccessHash(context.Context, int64, int64, int64) error { return nil }
func (h hasher) GetChannelAccessHash(_ context.Context, _, channelID int64) (int64, bool, error) {
	h.w.mu.Lock()
	unknown := h.w.hashUnknown(channelID)
	h.w.mu.Unlock()
	if unknown {
		return 0, false, nil
	}
	return channelID*1000 + 1, true, nil
}

// userHasher knows the access hashes of the users the scenario declares known (action U) and
// learns the ones the manager tells it (from the users a difference answer comes with).
type userHasher struct{ w *World }

func (h userHasher) SetUserAccessHash(_ context.Context, _, target, _ int64) error {
	h.w.mu.Lock()
	h.w.KnownUsers[target] = true
	h.w.mu.Unlock()
	return nil
}

func (h userHasher) GetUserAccessHash(_ context.Context, _, target int64) (int64, bool, error) {
	h.w.mu.Lock()
	defer h.w.mu.Unlock()
	if h.w.KnownUsers[target] {
		return target + 300, true, nil
	}
	return 0, false, nil
}
