package mgr

import (
	"fmt"
	"sort"
	"strings"
	"time"

	"verif/harness/hc"
)

// Options select what a property's harness reports as its own failures.
type Options struct {
	Prop        string // "C02" or "C03"
	FailC01     bool   // order / at-most-once at the handler
	FailC02     bool   // completeness after recovery
	FailC03     bool   // prefix safety of persisted state
	Restart     bool   // crash/restart clause (C03)
	MaxRestarts int    // restart runs per scenario
	MonitorOnly bool   // do not queue model comparisons
}

type pending struct {
	line     string  // request line for the model
	input    string  // what is reported
	impl     []Event // implementation trace (filtered)
	world    *World
	rerun    func() ([]Event, *World) // run the same scenario once more (a disagreement must reproduce)
	racy     bool                     // the run took a scheduler-decided branch (not compared, counted separately)
	compare  bool                     // trace comparison is meaningful (no timer can have fired unexpectedly)
	implSafe bool
	implDone bool
	checkLn  string
	wantWF   bool
}

// Runner accumulates cases and talks to the model driver in batches.
type Runner struct {
	C      *hc.Ctx
	Opt    Options
	cases  []pending
	err    error
	reruns int // second runs made to see whether a disagreement reproduces (bounded)
}

func relevant(tr []Event) []Event {
	var out []Event
	for _, e := range tr {
		if e.Kind == "S" && (e.Key == "date" || e.Key == "dateseq") {
			continue
		}
		if e.Kind == "A" && e.Key == "getstate" {
			continue
		}
		out = append(out, e)
	}
	return out
}

func snapWords(s Snapshot) (string, string, string) {
	var cs []int64
	for c := range s.Chans {
		cs = append(cs, c)
	}
	sort.Slice(cs, func(i, j int) bool { return cs[i] < cs[j] })
	var p []string
	for _, c := range cs {
		p = append(p, fmt.Sprintf("%d=%d", c, s.Chans[c]))
	}
	if len(p) == 0 {
		p = []string{"_"}
	}
	return fmt.Sprint(s.State.Pts), fmt.Sprint(s.State.Qts), strings.Join(p, ",")
}

func countW(as []Action) int {
	n := 0
	for _, a := range as {
		if a.Op == "W" {
			n++
		}
	}
	return n
}

// Evaluate runs one scenario on the implementation, applies the monitors and queues the model
// comparison.
func (r *Runner) Evaluate(sc Scenario, pushedPlain map[int]bool) {
	c := r.C
	all := append(append([]Action{}, sc.Actions...), sc.FinalActions()...)
	out := sc.Run(nil, false, all, nil)
	line := sc.Line("mgr", out.World) + " " + actionsString(sc.FinalActions())
	if out.Err != "" {
		c.Note("harness: scenario not evaluated (%s): %s", out.Err, line)
		c.Count("harness.unsettled")
		return
	}
	for _, p := range out.Panics {
		c.Fail(strings.ToLower(r.Opt.Prop)+"-panic", line, p)
	}
	for _, dc := range out.Dead {
		// no scenario makes a channel inaccessible, so a worker must never stop
		c.Fail(strings.ToLower(r.Opt.Prop)+"-channel-worker-stopped", line, fmt.Sprintf("the worker of channel %d returned from Run although the channel stayed accessible: its updates are no longer handled; trace: %s", dc, FormatTrace(out.Trace)))
	}
	if slow := out.Elapsed - time.Duration(countW(all))*650*time.Millisecond; slow > 3*time.Second {
		c.Count("harness.slow-scenario")
		c.Note("harness: scenario took %v: %s", out.Elapsed.Round(time.Millisecond), line)
	}
	if out.Workers != "" {
		c.Fail(strings.ToLower(r.Opt.Prop)+"-channel-workers", line, out.Workers+"; trace: "+FormatTrace(out.Trace))
	}
	if out.Retries > 0 {
		c.Count("harness.barrier-resent")
		c.Note("harness: %d channel barrier(s) re-sent in %s", out.Retries, line)
	}
	// position-less updates forwarded inside a difference count as pushed only if an answer really
	// carried them (extras attached to a channel that never asks again are never sent), and not if the
	// forwarded container may be dropped as a whole (a message from a user with an unknown access hash)
	if pushedPlain != nil {
		pp := map[int]bool{}
		for id := range pushedPlain {
			pp[id] = true
		}
		for _, sv := range out.World.Served {
			gated := false
			for _, id := range sv.Extras {
				if en, _, ok := out.World.entry(id); ok && en.User != 0 {
					gated = true
				}
			}
			for _, id := range sv.Extras {
				if en, _, ok := out.World.entry(id); ok && en.Kind == KPlain && !gated {
					pp[id] = true
				}
			}
		}
		pushedPlain = pp
	}
	init := out.World.InitialSnapshot()
	v3 := CheckC03(out.World, out.Trace, init)
	v2 := CheckC02(out.World, out.Trace, pushedPlain, nil, init)
	if r.Opt.FailC03 {
		for _, v := range v3 {
			c.Fail(v.Key, line, v.Detail)
		}
	}
	if r.Opt.FailC02 {
		for _, v := range v2 {
			c.Fail(v.Key, line, v.Detail)
		}
	}
	v1 := append(CheckDuplicates(out.World, out.Trace), CheckOrder(out.World, out.Trace, init)...)
	if r.Opt.FailC01 && len(v1) == 0 {
		// the position has passed every entry after the final recovery: an undelivered one was skipped silently
		for _, v := range v2 {
			if v.Key != "c02-lost-plain-update" {
				v1 = append(v1, Violation{Key: "c01-manager-skipped-position", Detail: v.Detail})
			}
		}
	}
	for _, v := range v1 {
		if r.Opt.FailC01 {
			c.Fail(v.Key, line, v.Detail)
		} else {
			c.Count("manager." + v.Key + " (reported by the C01 check)")
		}
	}
	// distribution
	gap := false
	for _, a := range sc.Actions {
		c.Count("action." + a.Op)
		if a.Op == "e" {
			gap = true
		}
	}
	for _, e := range sc.Log {
		c.Count("entry." + string(e.Kind))
	}
	for _, sv := range out.World.Served {
		c.Count("served." + sv.Kind)
	}
	c.Count(fmt.Sprintf("channels.%d", len(sc.C0)))
	if sc.NoState {
		c.Count("scenario.first-start-without-stored-state")
	}
	for ch := range sc.C0 {
		switch _, met := out.World.Created[ch]; {
		case met:
			c.Count("channel.met-without-stored-state-through-" + out.World.MetVia[ch])
		case sc.Late[ch] && out.World.live[ch]:
			c.Count("channel.stored-hash-learnt-late-then-met-through-" + out.World.MetVia[ch])
		case !out.World.live[ch]:
			c.Count("channel.never-got-a-worker")
		}
	}
	if r.Opt.MonitorOnly {
		return
	}
	c.Eval(line, gap)
	if out.Racy != "" {
		c.Count("trace.not-compared(" + out.Racy + ")")
	}
	impl := relevant(out.Trace)
	fp, fq, _ := snapWords(init)
	// the implementation's trace is judged for the sequences that had a worker
	liveStored := map[int64]int{}
	for ch, v := range init.Chans {
		if out.World.live[ch] {
			liveStored[ch] = v
		}
	}
	never := func(int64) bool { return false }
	liveCreated := map[int64]int{}
	for ch, v := range out.World.Created {
		if out.World.live[ch] {
			liveCreated[ch] = v
		}
	}
	fc := storedWord(liveStored, never) + " " + createdWord(liveCreated, never)
	p := pending{line: line, input: line, impl: impl, world: out.World,
		rerun: func() ([]Event, *World) {
			o2 := sc.Run(nil, false, all, nil)
			if o2.Err != "" || o2.Racy != "" {
				return nil, nil
			}
			return relevant(o2.Trace), o2.World
		},
		racy:     out.Racy != "",
		compare:  out.Racy == "" && out.Elapsed-time.Duration(countW(all))*650*time.Millisecond < 400*time.Millisecond,
		implSafe: len(v3) == 0, implDone: len(v2) == 0, wantWF: true,
		checkLn: strings.Join([]string{"check", fp, fq, fc, chanWords(sc), logWords(sc), FormatTrace(impl)}, " ")}
	r.cases = append(r.cases, p)

	// crash / restart clause
	if r.Opt.Restart {
		var stores []int
		for i, e := range out.Trace {
			if e.Kind == "S" && (e.Key == "pts" || e.Key == "qts" || e.Key == "state" || strings.HasPrefix(e.Key, "c")) {
				stores = append(stores, i)
			}
		}
		n := r.Opt.MaxRestarts
		for k := 0; k < n && len(stores) > 0; k++ {
			j := c.Rng.Intn(len(stores))
			i := stores[j]
			stores = append(stores[:j], stores[j+1:]...)
			r.restart(sc, out, i, line)
		}
	}
	if len(r.cases) >= 400 {
		r.Flush()
	}
}

// restart: the process dies right after trace[i] (a store); a new manager starts from the storage
// as it was then, recovers, and the union of what both runs dispatched must cover the log.
func (r *Runner) restart(sc Scenario, first Outcome, i int, line string) {
	c := r.C
	snap := first.Snaps[i]
	fin := sc.FinalActions()
	known := map[int64]bool{}
	for ch := range first.World.Known {
		known[ch] = true
	}
	out := sc.Run(&snap, true, fin, known)
	fp, fq, _ := snapWords(snap)
	stillLate := func(ch int64) bool { return sc.Late[ch] && !known[ch] }
	rline := strings.Join([]string{"restart", fp, fq, storedWord(snap.Chans, stillLate), createdWord(out.World.Created, stillLate),
		fmt.Sprint(sc.P0), fmt.Sprint(sc.Q0), chanWords(sc), logWords(sc), actionsString(fin)}, " ")
	input := fmt.Sprintf("%s ## crash after trace[%d]=%s, then %s", line, i, first.Trace[i], rline)
	if out.Err != "" {
		c.Note("harness: restart not evaluated (%s): %s", out.Err, input)
		return
	}
	c.Count("restart.runs")
	before := map[int]bool{}
	tlBefore := map[string]bool{}
	for _, e := range first.Trace[:i+1] {
		switch e.Kind {
		case "D":
			for _, id := range e.IDs {
				before[id] = true
			}
		case "L":
			if e.Key == "" {
				tlBefore["pts"] = true
			} else {
				tlBefore[e.Key] = true
			}
		}
	}
	// second run: prefix safety from the snapshot, and completeness of the union
	v3 := CheckC03(out.World, out.Trace, snap)
	var v2 []Violation
	after := map[int]bool{}
	tl := map[string]bool{}
	for k, v := range tlBefore {
		tl[k] = v
	}
	for _, e := range out.Trace {
		switch e.Kind {
		case "D":
			for _, id := range e.IDs {
				after[id] = true
			}
		case "L":
			if e.Key == "" {
				tl["pts"] = true
			} else {
				tl[e.Key] = true
			}
		}
	}
	seen := map[string]bool{}
	firstInit := first.World.InitialSnapshot()
	for _, en := range out.World.Log {
		// a channel counts if both runs had a worker for it; its sequence starts where the first run
		// started it (stored state, or the position it was met at)
		if en.Kind == KPlain || en.Soft() || !out.World.tracked(en) || !first.World.tracked(en) || before[en.ID] || after[en.ID] || tl[en.Seq()] ||
			en.Pos <= baseOf(first.World, firstInit, en.Seq()) {
			continue
		}
		key := "c03-restart-lost-update"
		if servedTooLong(first.World, en.Seq(), snapPos(snap, en)) {
			key = "c03-restart-d12-toolong-stored-before-callback"
		} else if cl := classify(out.World, en); cl != "" {
			key = "c03-restart-" + cl
		} else if cl := classify(first.World, en); cl != "" {
			key = "c03-restart-" + cl
		}
		if !seen[key] {
			seen[key] = true
			v2 = append(v2, Violation{Key: key, Detail: fmt.Sprintf("entry %s (id %d) was dispatched neither before the crash nor after the restart; first run prefix: %s ; second run: %s",
				en, en.ID, FormatTrace(first.Trace[:i+1]), FormatTrace(out.Trace))})
		}
	}
	if r.Opt.FailC03 {
		for _, v := range v3 {
			c.Fail(v.Key, input, v.Detail)
		}
		for _, v := range v2 {
			c.Fail(v.Key, input, v.Detail)
		}
	}
	impl := relevant(out.Trace)
	// the union clause is not what the model's `complete` says for the second run alone, so only the
	// trace and `safe` are compared for restart runs
	r.cases = append(r.cases, pending{line: rline, input: input, impl: impl, world: out.World,
		rerun: func() ([]Event, *World) {
			o2 := sc.Run(&snap, true, fin, known)
			if o2.Err != "" || o2.Racy != "" {
				return nil, nil
			}
			return relevant(o2.Trace), o2.World
		},
		racy: out.Racy != "", compare: out.Racy == "" && out.Elapsed < 400*time.Millisecond, implSafe: len(v3) == 0, implDone: true, wantWF: true,
		checkLn: ""})
}

func snapPos(s Snapshot, en Entry) int {
	switch en.Seq() {
	case "pts":
		return s.State.Pts
	case "qts":
		return s.State.Qts
	}
	return s.Chans[en.Chan]
}

func chanWords(sc Scenario) string {
	_, _, c := snapWords(Snapshot{Chans: sc.C0})
	return c
}

func logWords(sc Scenario) string {
	var ls []string
	for _, e := range sc.Log {
		ls = append(ls, e.String())
	}
	if len(ls) == 0 {
		return "_"
	}
	return strings.Join(ls, ",")
}

func actionsString(as []Action) string {
	s := make([]string, len(as))
	for i, a := range as {
		s[i] = a.String()
	}
	return strings.Join(s, " ")
}

// ParseTrace parses the model's trace words.
func ParseTrace(s string) []Event {
	var out []Event
	for _, w := range strings.Fields(s) {
		if w == "_" {
			continue
		}
		out = append(out, Event{Kind: "raw", Key: w})
	}
	return out
}

func ownerOfWord(w *World, word string) string {
	switch {
	case word == "L" || strings.HasPrefix(word, "S:pts") || strings.HasPrefix(word, "S:qts") || strings.HasPrefix(word, "S:state") || strings.HasPrefix(word, "A:diff"):
		return "main"
	case strings.HasPrefix(word, "L:"), strings.HasPrefix(word, "I:"):
		return word[2:]
	case strings.HasPrefix(word, "S:c"):
		return word[2:strings.Index(word, "=")]
	case strings.HasPrefix(word, "A:restore"):
		return "main"
	case strings.HasPrefix(word, "A:chdiff"):
		return "c" + word[8:strings.Index(word, "(")]
	case strings.HasPrefix(word, "D:"):
		first := strings.Split(word[2:], ",")[0]
		var id int
		fmt.Sscan(first, &id)
		if en, _, ok := w.entry(id); ok && (en.Kind == KChMsg || en.Kind == KChOther) {
			return en.Seq()
		}
	}
	return "main"
}

// projections splits a rendered trace by owning process.
func projections(w *World, words []string) map[string][]string {
	out := map[string][]string{}
	for _, x := range words {
		if x == "_" {
			continue
		}
		o := ownerOfWord(w, x)
		out[o] = append(out[o], x)
	}
	return out
}

// Flush sends the queued cases to the model and compares.
func (r *Runner) Flush() {
	c := r.C
	if len(r.cases) == 0 || r.err != nil {
		r.cases = r.cases[:0]
		return
	}
	var lines []string
	for _, p := range r.cases {
		lines = append(lines, p.line)
		if p.checkLn != "" {
			lines = append(lines, p.checkLn)
		}
	}
	outs, err := c.Drv.Batch(lines)
	if err != nil {
		r.err = err
		r.cases = r.cases[:0]
		return
	}
	k := 0
	for _, p := range r.cases {
		ans := outs[k]
		k++
		parts := strings.SplitN(ans, " | ", 2)
		if len(parts) != 2 {
			c.Differ(p.input, FormatTrace(p.impl), ans, "model did not answer")
		} else {
			checks := parts[1]
			if !strings.Contains(checks, "wf=1") || !strings.Contains(checks, "ref=1") {
				c.Differ(p.input, "wf=1 ref=1", checks, "the model run leaves the hypotheses of the per-sequence theorems (wf) or is not a replay of the per-sequence LTS (ref)")
			}
			if p.compare {
				diff := func(w *World, impl []Event) (string, string, string) {
					mi := projections(w, strings.Fields(FormatTrace(impl)))
					mm := projections(w, strings.Fields(parts[0]))
					owners := map[string]bool{}
					for o := range mi {
						owners[o] = true
					}
					for o := range mm {
						owners[o] = true
					}
					var os []string
					for o := range owners {
						os = append(os, o)
					}
					sort.Strings(os)
					for _, o := range os {
						if a, b := strings.Join(mi[o], " "), strings.Join(mm[o], " "); a != b {
							return o, a, b
						}
					}
					return "", "", ""
				}
				o, a, b := diff(p.world, p.impl)
				if o != "" && p.rerun != nil && r.reruns < 50 {
					r.reruns++
					// which goroutine wins a `select` is not the model's business: a disagreement counts
					// only if the implementation shows it again on a second run of the same scenario
					if impl2, w2 := p.rerun(); impl2 != nil {
						if o2, _, _ := diff(w2, impl2); o2 == "" {
							c.Count("trace.disagreement-not-reproduced-on-a-second-run (scheduling)")
							o = ""
						}
					}
				}
				if o != "" {
					c.Differ(p.input, o+": "+a, o+": "+b, "events of process "+o+" differ")
				} else {
					c.Res.TracesValidated++
				}
			} else if !p.racy {
				c.Count("trace.not-compared(slow run: a gap timer may have fired)")
			}
		}
		if p.checkLn != "" {
			want := fmt.Sprintf("safe=%s complete=%s", b2s(p.implSafe), b2s(p.implDone))
			if c.Compare(p.checkLn, want, outs[k]) {
				c.Res.TracesValidated++
			}
			k++
		}
	}
	r.cases = r.cases[:0]
}

func b2s(b bool) string {
	if b {
		return "1"
	}
	return "0"
}

// Err returns the first driver error.
func (r *Runner) Err() error { return r.err }

// Fixed scenarios: the confirmed defect histories and plain in-order delivery.
func Fixed() []Scenario {
	return []Scenario{
		// D11 common: stored pts 10; msg@11 and delete@12 happen while offline; recovery
		{P0: 10, Q0: 0, C0: map[int64]int{}, Log: []Entry{{ID: 1, Kind: KMsg, Pos: 11, Count: 1}, {ID: 2, Kind: KOther, Pos: 12, Count: 1}},
			Actions: []Action{{Op: "e", N: 2}, {Op: "T"}}},
		// D11 channel: channel pts 5; msg@6 and delete@7; channel recovery
		{P0: 10, Q0: 0, C0: map[int64]int{5: 5}, Log: []Entry{{ID: 1, Kind: KChMsg, Chan: 5, Pos: 6, Count: 1}, {ID: 2, Kind: KChOther, Chan: 5, Pos: 7, Count: 1}},
			Actions: []Action{{Op: "e", N: 2}, {Op: "CT", C: 5}}},
		// D12: too-long answers for the common and the channel difference
		{P0: 10, Q0: 0, C0: map[int64]int{5: 5}, Log: []Entry{{ID: 1, Kind: KMsg, Pos: 11, Count: 1}, {ID: 2, Kind: KChMsg, Chan: 5, Pos: 6, Count: 1}},
			Actions: []Action{{Op: "e", N: 2}, {Op: "TL"}, {Op: "T"}, {Op: "CTL", C: 5}, {Op: "CT", C: 5}}},
		// in-order pushes of every kind
		{P0: 10, Q0: 0, C0: map[int64]int{5: 5}, Log: []Entry{{ID: 1, Kind: KMsg, Pos: 11, Count: 1}, {ID: 2, Kind: KChMsg, Chan: 5, Pos: 6, Count: 1},
			{ID: 3, Kind: KOther, Pos: 13, Count: 2}, {ID: 4, Kind: KQts, Pos: 1, Count: 1}, {ID: 5, Kind: KPlain}, {ID: 6, Kind: KChOther, Chan: 5, Pos: 8, Count: 2}, {ID: 7, Kind: KQOther, Pos: 2, Count: 1}},
			Actions: []Action{{Op: "p", IDs: []int{1}}, {Op: "p", IDs: []int{2}}, {Op: "p", IDs: []int{4, 3}}, {Op: "p", IDs: []int{5, 6, 7}}}},
		// an affected result of the client's own action in a channel is overtaken by two live updates
		// of that channel; it arrives last and closes the hole: batch [marker, msg, msg]
		{P0: 10, Q0: 0, C0: map[int64]int{5: 5}, Log: []Entry{{ID: 1, Kind: KChAff, Chan: 5, Pos: 6, Count: 1}, {ID: 2, Kind: KChMsg, Chan: 5, Pos: 7, Count: 1}, {ID: 3, Kind: KChMsg, Chan: 5, Pos: 8, Count: 1}},
			Actions: []Action{{Op: "p", IDs: []int{2}}, {Op: "p", IDs: []int{3}}, {Op: "a", IDs: []int{1}}}},
		// the same on the common sequence, with a two-position marker, plus count-0 results
		{P0: 10, Q0: 0, C0: map[int64]int{5: 5}, Log: []Entry{{ID: 1, Kind: KAff, Pos: 12, Count: 2}, {ID: 2, Kind: KMsg, Pos: 13, Count: 1}, {ID: 3, Kind: KOther, Pos: 15, Count: 2}},
			Actions: []Action{{Op: "z", C: 0}, {Op: "p", IDs: []int{3}}, {Op: "p", IDs: []int{2}}, {Op: "a", IDs: []int{1}}, {Op: "z", C: 0}, {Op: "z", C: 5}}},
		// a marker in order, a marker lost (recovered by the difference's state), a late marker (outdated)
		{P0: 10, Q0: 0, C0: map[int64]int{5: 5}, Log: []Entry{{ID: 1, Kind: KAff, Pos: 11, Count: 1}, {ID: 2, Kind: KMsg, Pos: 12, Count: 1}, {ID: 3, Kind: KAff, Pos: 13, Count: 1}, {ID: 4, Kind: KChAff, Chan: 5, Pos: 7, Count: 2}, {ID: 5, Kind: KChMsg, Chan: 5, Pos: 8, Count: 1}},
			Actions: []Action{{Op: "a", IDs: []int{1}}, {Op: "p", IDs: []int{2}}, {Op: "e", N: 3}, {Op: "T"}, {Op: "a", IDs: []int{3}}, {Op: "CT", C: 5}, {Op: "a", IDs: []int{4}}}},
		// transient RPC failures: of the gap-timeout difference of a channel, of a forced channel
		// recovery, of the common gap-timeout difference; later recoveries must still work
		{P0: 10, Q0: 0, C0: map[int64]int{5: 5}, Log: []Entry{{ID: 1, Kind: KChMsg, Chan: 5, Pos: 6, Count: 1}, {ID: 2, Kind: KChMsg, Chan: 5, Pos: 7, Count: 1}, {ID: 3, Kind: KMsg, Pos: 11, Count: 1}, {ID: 4, Kind: KMsg, Pos: 12, Count: 1}},
			Actions: []Action{{Op: "p", IDs: []int{2}}, {Op: "p", IDs: []int{4}}, {Op: "ERR", C: 5}, {Op: "ERR", C: 0}, {Op: "F"}, {Op: "ERR", C: 5}, {Op: "CT", C: 5}, {Op: "ERR", C: 0}, {Op: "T"}}},
		// differences that forward updates of OTHER sequences: channel 5's difference carries a later
		// update of channel 8, a common pts update and a position-less one; the common difference carries
		// channel updates, one of an unknown channel; everything also arrives by its own way later
		{P0: 10, Q0: 0, C0: map[int64]int{5: 5, 8: 20}, Log: []Entry{{ID: 1, Kind: KChMsg, Chan: 5, Pos: 6, Count: 1}, {ID: 2, Kind: KChMsg, Chan: 8, Pos: 21, Count: 1}, {ID: 3, Kind: KChMsg, Chan: 8, Pos: 22, Count: 1},
			{ID: 4, Kind: KMsg, Pos: 11, Count: 1}, {ID: 5, Kind: KPlain}, {ID: 6, Kind: KChOther, Chan: 9001, Pos: 4, Count: 1}, {ID: 7, Kind: KChOther, Chan: 5, Pos: 7, Count: 1}},
			Actions: []Action{{Op: "e", N: 7}, {Op: "X", C: 5, IDs: []int{3, 4, 5}}, {Op: "CT", C: 5}, {Op: "X", C: 0, IDs: []int{2, 6, 7}}, {Op: "T"}, {Op: "p", IDs: []int{6}}}},
		// gaps on the common pts, the qts and a channel sequence; then the gap timers fire
		{P0: 10, Q0: 0, C0: map[int64]int{5: 5}, Log: []Entry{{ID: 1, Kind: KMsg, Pos: 11, Count: 1}, {ID: 2, Kind: KMsg, Pos: 12, Count: 1}, {ID: 3, Kind: KQts, Pos: 1, Count: 1}, {ID: 4, Kind: KQOther, Pos: 2, Count: 1},
			{ID: 5, Kind: KChMsg, Chan: 5, Pos: 6, Count: 1}, {ID: 6, Kind: KChOther, Chan: 5, Pos: 8, Count: 2}},
			Actions: []Action{{Op: "F"}, {Op: "p", IDs: []int{2}}, {Op: "p", IDs: []int{4}}, {Op: "p", IDs: []int{6}}, {Op: "F"}, {Op: "F"}}},
		// updates that cover no position (count 0): pushed in order, lost and carried by a common and a
		// channel difference in the middle of what the difference covers
		{P0: 10, Q0: 0, C0: map[int64]int{5: 5}, Log: []Entry{{ID: 1, Kind: KOther, Pos: 10, Count: 0}, {ID: 2, Kind: KMsg, Pos: 11, Count: 1}, {ID: 3, Kind: KOther, Pos: 11, Count: 0}, {ID: 4, Kind: KMsg, Pos: 12, Count: 1},
			{ID: 5, Kind: KChMsg, Chan: 5, Pos: 6, Count: 1}, {ID: 6, Kind: KChOther, Chan: 5, Pos: 6, Count: 0}, {ID: 7, Kind: KChMsg, Chan: 5, Pos: 7, Count: 1}},
			Actions: []Action{{Op: "p", IDs: []int{1}}, {Op: "e", N: 7}, {Op: "T"}, {Op: "CT", C: 5}}},
		// channels the storage has never heard of. Met through a live update (count 1): the initial
		// channel state is written, the worker subscribes from there
		{P0: 10, Q0: 0, C0: map[int64]int{5: 5}, Fresh: map[int64]bool{5: true}, Log: []Entry{{ID: 1, Kind: KChMsg, Chan: 5, Pos: 6, Count: 1}, {ID: 2, Kind: KChMsg, Chan: 5, Pos: 7, Count: 1}},
			Actions: []Action{{Op: "p", IDs: []int{1}}, {Op: "p", IDs: []int{2}}}},
		// … through an update that covers two positions, in the middle of the channel's log (what
		// came before is not this client's business), then a gap and its recovery
		{P0: 10, Q0: 0, C0: map[int64]int{5: 5}, Fresh: map[int64]bool{5: true}, Log: []Entry{{ID: 1, Kind: KChMsg, Chan: 5, Pos: 6, Count: 1}, {ID: 2, Kind: KChOther, Chan: 5, Pos: 8, Count: 2},
			{ID: 3, Kind: KChMsg, Chan: 5, Pos: 9, Count: 1}, {ID: 4, Kind: KChMsg, Chan: 5, Pos: 10, Count: 1}},
			Actions: []Action{{Op: "e", N: 1}, {Op: "p", IDs: []int{2}}, {Op: "p", IDs: []int{4}}, {Op: "F"}}},
		// … through an update that covers no position (count 0), and through a container that holds
		// two of the channel's updates in the wrong order
		{P0: 10, Q0: 0, C0: map[int64]int{5: 5, 8: 20}, Fresh: map[int64]bool{5: true, 8: true}, Log: []Entry{{ID: 1, Kind: KChOther, Chan: 5, Pos: 5, Count: 0}, {ID: 2, Kind: KChMsg, Chan: 5, Pos: 6, Count: 1},
			{ID: 3, Kind: KChMsg, Chan: 8, Pos: 21, Count: 1}, {ID: 4, Kind: KChMsg, Chan: 8, Pos: 22, Count: 1}},
			Actions: []Action{{Op: "p", IDs: []int{1}}, {Op: "p", IDs: []int{2}}, {Op: "p", IDs: []int{4, 3}}}},
		// … through updates forwarded inside the difference of another channel and inside the common difference
		{P0: 10, Q0: 0, C0: map[int64]int{5: 5, 8: 20, 11: 3}, Fresh: map[int64]bool{8: true, 11: true}, Log: []Entry{{ID: 1, Kind: KChMsg, Chan: 8, Pos: 21, Count: 1}, {ID: 2, Kind: KChMsg, Chan: 5, Pos: 6, Count: 1},
			{ID: 3, Kind: KChOther, Chan: 11, Pos: 5, Count: 2}, {ID: 4, Kind: KMsg, Pos: 11, Count: 1}},
			Actions: []Action{{Op: "e", N: 4}, {Op: "X", C: 5, IDs: []int{1}}, {Op: "CT", C: 5}, {Op: "X", C: 0, IDs: []int{3}}, {Op: "T"}}},
		// a stored channel whose access hash is unknown at the start: not loaded, its updates are
		// dropped (one hash-restoring request each) until the hash is known; then the first update
		// starts a worker from the stored pts without writing anything. The same for a channel
		// that is not stored either.
		{P0: 10, Q0: 0, C0: map[int64]int{5: 5, 8: 20}, Fresh: map[int64]bool{8: true}, Late: map[int64]bool{5: true, 8: true}, Log: []Entry{{ID: 1, Kind: KChMsg, Chan: 5, Pos: 6, Count: 1}, {ID: 2, Kind: KChMsg, Chan: 8, Pos: 21, Count: 1},
			{ID: 3, Kind: KChMsg, Chan: 5, Pos: 7, Count: 1}, {ID: 4, Kind: KChMsg, Chan: 8, Pos: 22, Count: 1}},
			Actions: []Action{{Op: "p", IDs: []int{1}}, {Op: "p", IDs: []int{2}}, {Op: "K", C: 5}, {Op: "K", C: 8}, {Op: "p", IDs: []int{3}}, {Op: "p", IDs: []int{4}}}},
		// the very first start: nothing stored, two updates have already happened; the server's state at
		// that moment is taken over and written, everything after it is delivered
		{P0: 10, Q0: 0, C0: map[int64]int{5: 5}, NoState: true, Pre: 3, Log: []Entry{{ID: 1, Kind: KMsg, Pos: 11, Count: 1}, {ID: 2, Kind: KQts, Pos: 1, Count: 1}, {ID: 3, Kind: KMsg, Pos: 12, Count: 1},
			{ID: 4, Kind: KMsg, Pos: 13, Count: 1}, {ID: 5, Kind: KQts, Pos: 2, Count: 1}, {ID: 6, Kind: KChMsg, Chan: 5, Pos: 6, Count: 1}},
			Actions: []Action{{Op: "p", IDs: []int{4}}, {Op: "e", N: 2}, {Op: "T"}}},
		// a channel becomes inaccessible: its next difference is answered CHANNEL_PRIVATE, the worker reports
		// it and stops, the main loop forgets the channel. An update met while it is still inaccessible
		// starts a worker that stops at once; when it is accessible again the new worker starts from the
		// stored pts and recovers everything missed
		{P0: 10, Q0: 0, C0: map[int64]int{5: 5}, Log: []Entry{{ID: 1, Kind: KChMsg, Chan: 5, Pos: 6, Count: 1}, {ID: 2, Kind: KChMsg, Chan: 5, Pos: 7, Count: 1},
			{ID: 3, Kind: KChMsg, Chan: 5, Pos: 8, Count: 1}, {ID: 4, Kind: KChMsg, Chan: 5, Pos: 9, Count: 1}, {ID: 5, Kind: KMsg, Pos: 11, Count: 1}},
			Actions: []Action{{Op: "p", IDs: []int{1}}, {Op: "PRIV", C: 5}, {Op: "e", N: 1}, {Op: "CT", C: 5}, {Op: "p", IDs: []int{3}}, {Op: "z", C: 5}, {Op: "p", IDs: []int{5}},
				{Op: "PUB", C: 5}, {Op: "p", IDs: []int{4}}}},
		// … found out by the gap timer's difference, with updates buffered; a channel met for the first
		// time in this run goes the same way and comes back with what was written for it
		{P0: 10, Q0: 0, C0: map[int64]int{5: 5, 8: 20}, Fresh: map[int64]bool{8: true}, Log: []Entry{{ID: 1, Kind: KChMsg, Chan: 5, Pos: 6, Count: 1}, {ID: 2, Kind: KChMsg, Chan: 5, Pos: 7, Count: 1},
			{ID: 3, Kind: KChMsg, Chan: 8, Pos: 21, Count: 1}, {ID: 4, Kind: KChMsg, Chan: 8, Pos: 22, Count: 1}, {ID: 5, Kind: KChMsg, Chan: 8, Pos: 23, Count: 1}},
			Actions: []Action{{Op: "PRIV", C: 5}, {Op: "p", IDs: []int{2}}, {Op: "F"}, {Op: "p", IDs: []int{3}}, {Op: "PRIV", C: 8}, {Op: "e", N: 1}, {Op: "CT", C: 8},
				{Op: "PUB", C: 8}, {Op: "PUB", C: 5}, {Op: "p", IDs: []int{5}}, {Op: "p", IDs: []int{2}}}},
		// a message from a user whose access hash is unknown: the whole container (a channel update and a
		// position-less update with it) is dropped and the difference fetched; it brings the message and
		// the user, so that user's next message passes; another user is made known by U; a third is not
		{P0: 10, Q0: 0, C0: map[int64]int{5: 5}, Log: []Entry{{ID: 1, Kind: KMsg, Pos: 11, Count: 1, User: 1}, {ID: 2, Kind: KChMsg, Chan: 5, Pos: 6, Count: 1}, {ID: 3, Kind: KPlain},
			{ID: 4, Kind: KMsg, Pos: 12, Count: 1, User: 1}, {ID: 5, Kind: KMsg, Pos: 13, Count: 1, User: 2}, {ID: 6, Kind: KMsg, Pos: 14, Count: 1, User: 3}},
			Actions: []Action{{Op: "p", IDs: []int{1, 2, 3}}, {Op: "p", IDs: []int{4}}, {Op: "U", IDs: []int{2}}, {Op: "p", IDs: []int{5}}, {Op: "ps", N: 1, B: 1, IDs: []int{6}}}},
		// numbered containers (the seq box): 1 arrives; 2 is late, 3 parks behind the hole and is applied
		// with it; 1 arrives again; 4 is lost, so 5..6 parks until the seq gap timer fetches the difference
		{P0: 10, Q0: 0, C0: map[int64]int{5: 5}, Log: []Entry{{ID: 1, Kind: KMsg, Pos: 11, Count: 1}, {ID: 2, Kind: KMsg, Pos: 12, Count: 1}, {ID: 3, Kind: KChMsg, Chan: 5, Pos: 6, Count: 1},
			{ID: 4, Kind: KMsg, Pos: 13, Count: 1}, {ID: 5, Kind: KPlain}, {ID: 6, Kind: KMsg, Pos: 14, Count: 1}, {ID: 7, Kind: KQts, Pos: 1, Count: 1}},
			Actions: []Action{{Op: "ps", N: 1, B: 1, IDs: []int{1}}, {Op: "es", N: 2}, {Op: "ps", N: 3, B: 3, IDs: []int{3}}, {Op: "ps", N: 2, B: 2, IDs: []int{2}}, {Op: "ps", N: 1, B: 1, IDs: []int{1}},
				{Op: "e", N: 4}, {Op: "es", N: 4}, {Op: "ps", N: 5, B: 6, IDs: []int{5, 6}}, {Op: "F"}, {Op: "ps", N: 7, B: 7, IDs: []int{7}}}},
		// a gap filled by a late arrival; a duplicate; sliced recovery
		{P0: 10, Q0: 0, C0: map[int64]int{}, Log: []Entry{{ID: 1, Kind: KMsg, Pos: 11, Count: 1}, {ID: 2, Kind: KOther, Pos: 13, Count: 2}, {ID: 3, Kind: KMsg, Pos: 14, Count: 1}, {ID: 4, Kind: KMsg, Pos: 15, Count: 1}},
			Actions: []Action{{Op: "p", IDs: []int{2}}, {Op: "p", IDs: []int{1}}, {Op: "p", IDs: []int{1}}, {Op: "e", N: 2}, {Op: "sl", N: 1}, {Op: "T"}}},
	}
}
