package mgr

import (
	"fmt"
	"go/ast"
	"strings"

	"verif/harness/hc"
)

const pkgDir = "telegram/updates"

// callName renders the callee of a call: selector chains without the receiver (`s.storage.SetPts`
// -> `storage.SetPts`), plain identifiers as they are.
func callName(x ast.Expr) string {
	switch x := x.(type) {
	case *ast.Ident:
		return x.Name
	case *ast.SelectorExpr:
		if id, ok := x.X.(*ast.Ident); ok {
			_ = id
			return x.Sel.Name
		}
		return callName(x.X) + "." + x.Sel.Name
	}
	return ""
}

var callMap = map[string]string{
	"dispatch": "dispatch", "handleUpdates": "reroute", "sendOut": "sendOut", "setState": "setStateClosure",
	"storage.SetState": "storeState", "storage.SetPts": "storePts", "storage.SetQts": "storeQts",
	"storage.SetSeq": "storeSeq", "storage.SetDate": "storeDate", "storage.SetDateSeq": "storeDateSeq",
	"storage.SetChannelPts": "storeChannelPts",
	"pts.SetState":          "boxSetPts", "qts.SetState": "boxSetQts", "seq.SetState": "boxSetSeq",
	"onCommonTooLong": "tooLongCb", "onTooLong": "tooLongCb", "getDifference": "recurse",
	"client.UpdatesGetDifference": "apiDiff", "client.UpdatesGetChannelDifference": "apiChDiff",
	"pts.gaps.Clear": "clearPts", "qts.gaps.Clear": "clearQts", "seq.gaps.Clear": "clearSeq",
}

var callCtors = []string{"dispatch", "reroute", "sendOut", "setStateClosure", "storeState", "storePts", "storeQts", "storeSeq",
	"storeDate", "storeDateSeq", "storeChannelPts", "boxSetPts", "boxSetQts", "boxSetSeq", "tooLongCb", "recurse",
	"apiDiff", "apiChDiff", "clearPts", "clearQts", "clearSeq", "unknownStore"}

// calls lists the modelled calls under a node in source order (closures are not entered).
func calls(n ast.Node) []string {
	var out []string
	ast.Inspect(n, func(x ast.Node) bool {
		if _, ok := x.(*ast.FuncLit); ok && x != n {
			return false
		}
		// a deferred or spawned call does not happen where it is written: fail closed
		switch d := x.(type) {
		case *ast.DeferStmt:
			for range calls(d.Call) {
				out = append(out, "deferredOrSpawned")
			}
			return false
		case *ast.GoStmt:
			for range calls(d.Call) {
				out = append(out, "deferredOrSpawned")
			}
			return false
		}
		c, ok := x.(*ast.CallExpr)
		if !ok {
			return true
		}
		name := callName(c.Fun)
		if m, ok := callMap[name]; ok {
			// arguments are evaluated before the call itself happens
			for _, a := range c.Args {
				out = append(out, calls(a)...)
			}
			out = append(out, m)
			return false
		}
		if strings.HasPrefix(name, "storage.Set") {
			out = append(out, "unknownStore")
		}
		return true
	})
	return out
}

func leanCalls(cs []string) string {
	p := make([]string, len(cs))
	for i, c := range cs {
		code := len(callCtors)
		for j, n := range callCtors {
			if n == c {
				code = j
			}
		}
		p[i] = fmt.Sprint(code)
	}
	return "[" + strings.Join(p, ", ") + "]"
}

// typeSwitch finds the `switch diff := diff.(type)` of a function and returns the statements
// before it and its clauses by type name.
func typeSwitch(fd *ast.FuncDecl) (pre []ast.Stmt, clauses map[string]*ast.CaseClause) {
	clauses = map[string]*ast.CaseClause{}
	for i, st := range fd.Body.List {
		ts, ok := st.(*ast.TypeSwitchStmt)
		if !ok {
			continue
		}
		pre = fd.Body.List[:i]
		for _, c := range ts.Body.List {
			cc := c.(*ast.CaseClause)
			for _, t := range cc.List {
				if s, ok := t.(*ast.StarExpr); ok {
					if sel, ok := s.X.(*ast.SelectorExpr); ok {
						clauses[sel.Sel.Name] = cc
					}
				}
			}
		}
		return
	}
	return nil, clauses
}

// OrderFacts emits, for the functions that dispatch and persist, the modelled calls in source
// order (per branch of the difference type switches). The Lean manager model *interprets* these
// lists, and the C03 theorems are proved about them.
func OrderFacts(f *hc.Facts) {
	f.Raw("/-- Call codes (index into this list) used by the call-order facts below. -/")
	q := make([]string, len(callCtors))
	for i, c := range callCtors {
		q[i] = fmt.Sprintf("%q", c)
	}
	f.Raw("def callNames : List String := [" + strings.Join(q, ", ") + "]")
	emit := func(name string, cs []string, src string) {
		f.Raw(fmt.Sprintf("def %s : List Nat := %s -- %s: %s", name, leanCalls(cs), src, strings.Join(cs, ", ")))
	}
	missing := func(name, why string) {
		f.Raw(fmt.Sprintf("def %s : List Nat := missing_fact_%s -- %s", name, name, why))
	}
	for _, fn := range []struct{ lean, goName string }{
		{"applyPts", "internalState.applyPts"}, {"applyQts", "internalState.applyQts"}, {"chApplyPts", "channelState.applyPts"},
	} {
		if fd := f.FuncDecl(pkgDir, fn.goName); fd != nil && fd.Body != nil {
			emit(fn.lean, calls(fd.Body), fn.goName)
		} else {
			missing(fn.lean, fn.goName+" not found")
		}
	}
	block := func(sts []ast.Stmt) []string {
		var out []string
		for _, st := range sts {
			out = append(out, calls(st)...)
		}
		return out
	}
	// common getDifference
	if fd := f.FuncDecl(pkgDir, "internalState.getDifference"); fd != nil && fd.Body != nil {
		pre, cl := typeSwitch(fd)
		emit("diffPrelude", block(pre), "internalState.getDifference before the type switch")
		// the local closure setState := func(...) {...}
		found := false
		ast.Inspect(fd.Body, func(n ast.Node) bool {
			as, ok := n.(*ast.AssignStmt)
			if !ok || len(as.Lhs) != 1 || len(as.Rhs) != 1 {
				return true
			}
			id, ok1 := as.Lhs[0].(*ast.Ident)
			fl, ok2 := as.Rhs[0].(*ast.FuncLit)
			if ok1 && ok2 && id.Name == "setState" {
				emit("diffSetState", calls(fl.Body), "closure setState in internalState.getDifference")
				found = true
			}
			return true
		})
		if !found {
			missing("diffSetState", "closure setState not found")
		}
		for _, c := range []struct{ lean, typ string }{{"diffDifference", "UpdatesDifference"}, {"diffEmpty", "UpdatesDifferenceEmpty"},
			{"diffSlice", "UpdatesDifferenceSlice"}, {"diffTooLong", "UpdatesDifferenceTooLong"}} {
			if cc := cl[c.typ]; cc != nil {
				emit(c.lean, block(cc.Body), "case *tg."+c.typ)
			} else {
				missing(c.lean, "case *tg."+c.typ+" not found")
			}
		}
	} else {
		missing("diffPrelude", "internalState.getDifference not found")
	}
	// channel getDifference
	if fd := f.FuncDecl(pkgDir, "channelState.getDifference"); fd != nil && fd.Body != nil {
		pre, cl := typeSwitch(fd)
		emit("chDiffPrelude", block(pre), "channelState.getDifference before the type switch")
		for _, c := range []struct{ lean, typ string }{{"chDiffDifference", "UpdatesChannelDifference"}, {"chDiffEmpty", "UpdatesChannelDifferenceEmpty"},
			{"chDiffTooLong", "UpdatesChannelDifferenceTooLong"}} {
			if cc := cl[c.typ]; cc != nil {
				emit(c.lean, block(cc.Body), "case *tg."+c.typ)
			} else {
				missing(c.lean, "case *tg."+c.typ+" not found")
			}
		}
	} else {
		missing("chDiffPrelude", "channelState.getDifference not found")
	}
	f.Const("diffLimitUser", pkgDir, "diffLimitUser")
	routingFacts(f)
	SkipFacts(f)
	guardFacts(f)
	creationFacts(f)
}

var guardNames = map[string]int{"diff.NewMessages": 0, "diff.NewEncryptedMessages": 1, "own": 2, "converted": 3, "rest": 4, "others": 5}

// guardOf finds the first call of `callee` under the statements and returns the guard of the
// innermost enclosing `if`: the codes of the lists whose non-emptiness (`len(X) > 0`, joined by
// `||`) enables the call; [100] if the call is not inside any `if`; nil if the shape is not recognised.
func guardOf(f *hc.Facts, sts []ast.Stmt, callee string) ([]int, string) {
	var found bool
	var guard []int
	why := "no call of " + callee
	var walk func(n ast.Node, enclosing *ast.IfStmt)
	walk = func(n ast.Node, enclosing *ast.IfStmt) {
		if n == nil || found {
			return
		}
		switch x := n.(type) {
		case *ast.FuncLit:
			return
		case *ast.IfStmt:
			if x.Init != nil {
				walk(x.Init, enclosing) // `if err := s.dispatch(...); err != nil`: the call is in Init, guarded by the outer if
			}
			walk(x.Cond, enclosing)
			walk(x.Body, x)
			if x.Else != nil {
				walk(x.Else, enclosing)
			}
			return
		case *ast.CallExpr:
			if callName(x.Fun) == callee {
				found = true
				if enclosing == nil {
					guard, why = []int{100}, ""
					return
				}
				var terms []ast.Expr
				var split func(e ast.Expr)
				split = func(e ast.Expr) {
					if b, ok := e.(*ast.BinaryExpr); ok && b.Op.String() == "||" {
						split(b.X)
						split(b.Y)
						return
					}
					if p, ok := e.(*ast.ParenExpr); ok {
						split(p.X)
						return
					}
					terms = append(terms, e)
				}
				split(enclosing.Cond)
				for _, t := range terms {
					src := strings.Join(strings.Fields(f.Src(t)), "")
					ok := false
					for name, code := range guardNames {
						if src == "len("+name+")>0" {
							guard = append(guard, code)
							ok = true
						}
					}
					if !ok {
						guard, why = nil, "unrecognised guard term: "+src
						return
					}
				}
				why = ""
				return
			}
		}
		// generic descent
		ast.Inspect(n, func(c ast.Node) bool {
			if c == n || c == nil || found {
				return c == n
			}
			walk(c, enclosing)
			return false
		})
	}
	for _, st := range sts {
		walk(st, nil)
	}
	if !found {
		return nil, why
	}
	return guard, why
}

func leanNats(xs []int) string {
	p := make([]string, len(xs))
	for i, x := range xs {
		p[i] = fmt.Sprint(x)
	}
	return "[" + strings.Join(p, ", ") + "]"
}

// guardFacts: which lists must be non-empty for the dispatch / re-route calls to happen
// (codes: 0 new_messages, 1 new_encrypted_messages, 2 own, 3 converted, 4 rest, 5 others, 100 unconditional).
func guardFacts(f *hc.Facts) {
	emit := func(lean string, sts []ast.Stmt, callee, where string) {
		if sts == nil {
			f.Raw(fmt.Sprintf("def %s : List Nat := missing_fact_%s -- %s not found", lean, lean, where))
			return
		}
		g, why := guardOf(f, sts, callee)
		if g == nil {
			f.Raw(fmt.Sprintf("def %s : List Nat := missing_fact_%s -- %s: %s", lean, lean, where, why))
			return
		}
		f.Raw(fmt.Sprintf("def %s : List Nat := %s -- %s: lists whose non-emptiness guards %s", lean, leanNats(g), where, callee))
	}
	body := func(name string) []ast.Stmt {
		if fd := f.FuncDecl(pkgDir, name); fd != nil && fd.Body != nil {
			return fd.Body.List
		}
		return nil
	}
	emit("applyPtsGuard", body("internalState.applyPts"), "dispatch", "internalState.applyPts")
	emit("applyQtsGuard", body("internalState.applyQts"), "dispatch", "internalState.applyQts")
	emit("chApplyPtsGuard", body("channelState.applyPts"), "dispatch", "channelState.applyPts")
	clause := func(fn, typ string) []ast.Stmt {
		if fd := f.FuncDecl(pkgDir, fn); fd != nil && fd.Body != nil {
			_, cl := typeSwitch(fd)
			if cc := cl[typ]; cc != nil {
				return cc.Body
			}
		}
		return nil
	}
	emit("diffGuard", clause("internalState.getDifference", "UpdatesDifference"), "dispatch", "case *tg.UpdatesDifference")
	emit("sliceGuard", clause("internalState.getDifference", "UpdatesDifferenceSlice"), "dispatch", "case *tg.UpdatesDifferenceSlice")
	emit("chDiffGuard", clause("channelState.getDifference", "UpdatesChannelDifference"), "dispatch", "case *tg.UpdatesChannelDifference")
	emit("diffRerouteGuard", clause("internalState.getDifference", "UpdatesDifference"), "handleUpdates", "case *tg.UpdatesDifference")
	emit("sliceRerouteGuard", clause("internalState.getDifference", "UpdatesDifferenceSlice"), "handleUpdates", "case *tg.UpdatesDifferenceSlice")
	emit("chSendOutGuard", clause("channelState.getDifference", "UpdatesChannelDifference"), "sendOut", "case *tg.UpdatesChannelDifference")
}

// SkipFacts: in the conversion loop of internalState.applyPts / channelState.applyPts, which statement
// skips an affectedPts marker? 0 = `continue` (only the marker is skipped), 1 = `break` (everything
// after it is dropped); any other shape is emitted as a missing fact.
func SkipFacts(f *hc.Facts) {
	for _, fn := range []struct{ lean, goName string }{{"applyPtsSkip", "internalState.applyPts"}, {"chApplyPtsSkip", "channelState.applyPts"}} {
		fd := f.FuncDecl(pkgDir, fn.goName)
		verdict, why := -1, "no `if _, ok := update.Value.(affectedPts); ok { … }` inside a range loop"
		if fd != nil && fd.Body != nil {
			ast.Inspect(fd.Body, func(n ast.Node) bool {
				rs, ok := n.(*ast.RangeStmt)
				if !ok {
					return true
				}
				for _, st := range rs.Body.List {
					is, ok := st.(*ast.IfStmt)
					if !ok || is.Init == nil || !strings.Contains(strings.Join(strings.Fields(f.Src(is.Init)), ""), ".(affectedPts)") {
						continue
					}
					if is.Else != nil || len(is.Body.List) != 1 {
						verdict, why = -1, "marker branch is not a single statement: "+strings.Join(strings.Fields(f.Src(is.Body)), " ")
						continue
					}
					// the marker test must come before any use of the update in the loop body
					if st != rs.Body.List[0] {
						verdict, why = -1, "the marker test is not the first statement of the loop"
						continue
					}
					switch b := is.Body.List[0].(type) {
					case *ast.BranchStmt:
						if b.Label != nil {
							verdict, why = -1, "labelled branch"
						} else if b.Tok.String() == "continue" {
							verdict = 0
						} else if b.Tok.String() == "break" {
							verdict = 1
						} else {
							verdict, why = -1, "branch "+b.Tok.String()
						}
					default:
						verdict, why = -1, "marker branch: "+strings.Join(strings.Fields(f.Src(is.Body)), " ")
					}
				}
				return true
			})
		}
		if verdict < 0 {
			f.Missing(fn.lean, fn.goName+": "+why)
		} else {
			f.Nat(fn.lean, verdict, fn.goName+": statement that skips an affectedPts marker (0 continue, 1 break)")
		}
	}
}

// updatesArg returns the source of the `Updates:` field of the composite literal passed
// (possibly nested, e.g. tracedUpdate{update: &tg.Updates{Updates: …}}) to the first call of `callee` in the clause.
func updatesArg(f *hc.Facts, cc *ast.CaseClause, callee string) string {
	out := ""
	for _, st := range cc.Body {
		ast.Inspect(st, func(n ast.Node) bool {
			c, ok := n.(*ast.CallExpr)
			if !ok || out != "" || callName(c.Fun) != callee {
				return true
			}
			for _, a := range c.Args {
				ast.Inspect(a, func(m ast.Node) bool {
					kv, ok := m.(*ast.KeyValueExpr)
					if !ok || out != "" {
						return true
					}
					if id, ok := kv.Key.(*ast.Ident); ok && id.Name == "Updates" {
						out = strings.Join(strings.Fields(f.Src(kv.Value)), " ")
						return false
					}
					return true
				})
			}
			return false
		})
	}
	return out
}

// splitStmt returns the source of the statement that defines `own, rest` in the clause.
func splitStmt(f *hc.Facts, cc *ast.CaseClause) string {
	for _, st := range cc.Body {
		if as, ok := st.(*ast.AssignStmt); ok && len(as.Lhs) == 2 {
			if a, ok := as.Lhs[0].(*ast.Ident); ok && a.Name == "own" {
				return strings.Join(strings.Fields(f.Src(as)), " ")
			}
		}
	}
	return ""
}

// routingFacts: are the other_updates of a fetched difference that belong to the fetched
// sequence itself dispatched directly (true) or re-routed through the gap check (false)?
func routingFacts(f *hc.Facts) {
	const (
		commonSplit = "own, rest := splitDiffUpdates(diff.OtherUpdates, isCommonSeqUpdate)"
		commonDisp  = "append(append( msgsToUpdates(diff.NewMessages, false), encryptedMsgsToUpdates(diff.NewEncryptedMessages)..., ), own...)"
		commonDisp0 = "append( msgsToUpdates(diff.NewMessages, false), encryptedMsgsToUpdates(diff.NewEncryptedMessages)..., )"
		chanSplit   = "own, rest := splitDiffUpdates(diff.OtherUpdates, func(u tg.UpdateClass) bool { _, isTooLong := u.(*tg.UpdateChannelTooLong) id, _, _, ok, err := tg.IsChannelPtsUpdate(u) return ok && err == nil && id == s.channelID && !isTooLong })"
		chanDisp    = "append(msgsToUpdates(diff.NewMessages, true), own...)"
		chanDisp0   = "msgsToUpdates(diff.NewMessages, true)"
	)
	decide := func(lean string, clauses []*ast.CaseClause, reroute, split, disp, disp0 string) {
		var verdicts []string
		for _, cc := range clauses {
			if cc == nil {
				verdicts = append(verdicts, "?")
				continue
			}
			r, d, sp := updatesArg(f, cc, reroute), updatesArg(f, cc, "dispatch"), splitStmt(f, cc)
			switch {
			case r == "rest" && d == disp && sp == split:
				verdicts = append(verdicts, "direct")
			case r == "diff.OtherUpdates" && d == disp0 && sp == "":
				verdicts = append(verdicts, "rerouted")
			default:
				verdicts = append(verdicts, fmt.Sprintf("?(%s | %s | %s)", r, d, sp))
			}
		}
		all := strings.Join(verdicts, ",")
		switch {
		case strings.Count(all, "direct") == len(verdicts):
			f.Bool(lean, true, "own-sequence other_updates of a difference are dispatched directly")
		case strings.Count(all, "rerouted") == len(verdicts):
			f.Bool(lean, false, "all other_updates of a difference are re-routed through handleUpdates/sendOut")
		default:
			f.Raw(fmt.Sprintf("def %s : Bool := missing_fact_%s -- unrecognised routing: %s", lean, lean, all))
		}
	}
	if fd := f.FuncDecl(pkgDir, "internalState.getDifference"); fd != nil && fd.Body != nil {
		_, cl := typeSwitch(fd)
		decide("ownDirect", []*ast.CaseClause{cl["UpdatesDifference"], cl["UpdatesDifferenceSlice"]}, "handleUpdates", commonSplit, commonDisp, commonDisp0)
	} else {
		f.Missing("ownDirect", "internalState.getDifference not found")
	}
	if fd := f.FuncDecl(pkgDir, "channelState.getDifference"); fd != nil && fd.Body != nil {
		_, cl := typeSwitch(fd)
		decide("chOwnDirect", []*ast.CaseClause{cl["UpdatesChannelDifference"]}, "sendOut", chanSplit, chanDisp, chanDisp0)
	} else {
		f.Missing("chOwnDirect", "channelState.getDifference not found")
	}
	// the helpers of the repaired routing, pinned by source text
	for _, h := range []struct{ lean, name string }{{"splitDiffUpdatesSrc", "splitDiffUpdates"}, {"isCommonSeqUpdateSrc", "isCommonSeqUpdate"}} {
		src := strings.Join(strings.Fields(f.FuncSrc(pkgDir, h.name)), " ")
		f.Str(h.lean, src, "body of "+h.name+" (empty: the function does not exist)")
	}
}

// creationFacts: internalState.handleChannel for a channel that is not tracked yet. Which value
// does the initial SetChannelPts write (0 = localPts, the position before the update; 1 = pts, the
// update's own position), and — pinned by source text with that argument blanked — the rest of
// the branch (the worker starts from localPts, the stored value is used when the storage has one).
func creationFacts(f *hc.Facts) {
	fd := f.FuncDecl(pkgDir, "internalState.handleChannel")
	verdict, why := -1, "no `if !found { localPts = pts - ptsCount; if err := s.storage.SetChannelPts(…) … }`"
	src := ""
	if fd != nil && fd.Body != nil {
		src = strings.Join(strings.Fields(f.Src(fd.Body)), " ")
		n := 0
		ast.Inspect(fd.Body, func(nd ast.Node) bool {
			call, ok := nd.(*ast.CallExpr)
			if !ok {
				return true
			}
			sel, ok := call.Fun.(*ast.SelectorExpr)
			if !ok || sel.Sel.Name != "SetChannelPts" || len(call.Args) != 4 {
				return true
			}
			n++
			whole := strings.Join(strings.Fields(f.Src(call)), " ")
			arg := strings.Join(strings.Fields(f.Src(call.Args[3])), " ")
			blank := strings.TrimSuffix(whole, arg+")") + "_)"
			src = strings.Replace(src, whole, blank, 1)
			switch arg {
			case "localPts":
				verdict = 0
			case "pts":
				verdict = 1
			default:
				verdict, why = -1, "initial SetChannelPts writes "+arg
			}
			return true
		})
		if n != 1 {
			verdict, why = -1, fmt.Sprintf("%d SetChannelPts calls in handleChannel", n)
		}
	}
	if verdict < 0 {
		f.Missing("creationStore", "internalState.handleChannel: "+why)
	} else {
		f.Nat("creationStore", verdict, "internalState.handleChannel: value of the initial SetChannelPts (0 localPts, 1 pts)")
	}
	f.Str("handleChannelSrc", src, "body of internalState.handleChannel, the value written by SetChannelPts blanked")
}
