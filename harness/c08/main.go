// C08 — outgoing message ids / sequence numbers: correspondence of proto.MessageIDGen.New,
// proto.NewMessageIDNano, proto.MessageID.{Time,Type} and mtproto.Conn.nextMsgSeq with the Lean
// model TdModel.C08, plus the property monitor on the implementation.
package main

import (
	"fmt"
	"go/ast"
	"go/constant"
	"go/token"
	"sort"
	"strconv"
	"strings"
	"sync"
	"time"

	"github.com/gotd/td/mtproto"
	"github.com/gotd/td/proto"

	"verif/harness/hc"
)

func main() {
	hc.Main(hc.Spec{Prop: "C08", Facts: facts, Run: run})
}

// ---------------------------------------------------------------------------------- facts

// localConst emits the integer constant `name` declared inside function `fn`.
func localConst(f *hc.Facts, lean, dir, fn, name string) {
	fd := f.FuncDecl(dir, fn)
	if fd == nil || fd.Body == nil {
		f.Missing(lean, dir+"."+fn+" not found")
		return
	}
	found := false
	ast.Inspect(fd.Body, func(n ast.Node) bool {
		gd, ok := n.(*ast.GenDecl)
		if !ok || gd.Tok != token.CONST {
			return true
		}
		for _, s := range gd.Specs {
			vs := s.(*ast.ValueSpec)
			for i, id := range vs.Names {
				if id.Name != name || i >= len(vs.Values) {
					continue
				}
				if lit, ok := vs.Values[i].(*ast.BasicLit); ok {
					v := constant.ToInt(constant.MakeFromLiteral(lit.Value, lit.Kind, 0))
					if v.Kind() == constant.Int {
						f.Raw(fmt.Sprintf("def %s : Nat := %s -- const %s in %s.%s", lean, v.ExactString(), name, dir, fn))
						found = true
					}
				}
			}
		}
		return true
	})
	if !found {
		f.Missing(lean, "const "+name+" not found in "+dir+"."+fn)
	}
}

// lockedWhole reports whether the function body starts with `<mu>.Lock()` followed by
// `defer <mu>.Unlock()`, i.e. the whole body is one critical section of that mutex.
func lockedWhole(f *hc.Facts, fd *ast.FuncDecl, mu string) bool {
	if fd == nil || fd.Body == nil || len(fd.Body.List) < 2 {
		return false
	}
	es, ok := fd.Body.List[0].(*ast.ExprStmt)
	if !ok || f.Src(es.X) != mu+".Lock()" {
		return false
	}
	ds, ok := fd.Body.List[1].(*ast.DeferStmt)
	return ok && f.Src(ds.Call) == mu+".Unlock()"
}

func facts(f *hc.Facts) {
	f.Const("messageIDModulo", "proto", "messageIDModulo")
	f.Const("yieldClient", "proto", "yieldClient")
	f.Const("yieldServerResponse", "proto", "yieldServerResponse")
	f.Const("yieldFromServer", "proto", "yieldFromServer")
	f.Const("typeUnknown", "proto", "MessageUnknown")
	f.Const("typeFromClient", "proto", "MessageFromClient")
	f.Const("typeServerResponse", "proto", "MessageServerResponse")
	f.Const("typeFromServer", "proto", "MessageFromServer")
	localConst(f, "minResolutionNanos", "proto", "MessageIDGen.New", "minResolutionNanos")
	localConst(f, "nanoPerSec", "proto", "newMessageID", "nano")
	// the whole of proto.newMessageID, translated from the source (Props: newMessageID_translated_eq_model)
	f.TranslateFuncs("proto", "newMessageIDT", "newMessageID")

	// the shift in `(intPart << 32) | fracPart` and the masking statement
	if fd := f.FuncDecl("proto", "newMessageID"); fd != nil {
		shift, mask := "", ""
		ast.Inspect(fd.Body, func(n ast.Node) bool {
			switch x := n.(type) {
			case *ast.BinaryExpr:
				if x.Op == token.SHL {
					if lit, ok := x.Y.(*ast.BasicLit); ok {
						shift = lit.Value
					}
				}
			case *ast.AssignStmt:
				if x.Tok == token.AND_ASSIGN {
					mask = f.Src(x)
				}
			}
			return true
		})
		if _, err := strconv.Atoi(shift); err == nil {
			f.Raw("def idShift : Nat := " + shift + " -- shift in proto.newMessageID")
		} else {
			f.Missing("idShift", "no `<< literal` in proto.newMessageID")
		}
		f.Str("maskStmt", mask, "the &= statement of proto.newMessageID")
	} else {
		f.Missing("idShift", "proto.newMessageID not found")
	}

	// MessageIDGen.New: the advance condition and both branches, and its lock scope
	gen := f.FuncDecl("proto", "MessageIDGen.New")
	cond, thenS, elseS := "", "", ""
	if gen != nil {
		ast.Inspect(gen.Body, func(n ast.Node) bool {
			if is, ok := n.(*ast.IfStmt); ok && cond == "" {
				cond = f.Src(is.Cond)
				if len(is.Body.List) == 1 {
					thenS = f.Src(is.Body.List[0])
				}
				if eb, ok := is.Else.(*ast.BlockStmt); ok && len(eb.List) == 1 {
					elseS = f.Src(eb.List[0])
				}
			}
			return true
		})
	}
	f.Str("genAdvanceCond", cond, "condition of the if in MessageIDGen.New")
	f.Str("genAdvanceThen", thenS, "then-branch")
	f.Str("genAdvanceElse", elseS, "else-branch")
	f.Bool("genNewLocked", lockedWhole(f, gen, "g.mux"), "MessageIDGen.New is one critical section of g.mux")

	// Conn.nextMsgSeq: one critical section of reqMux containing the id generation and the counter
	nms := f.FuncDecl("mtproto", "Conn.nextMsgSeq")
	f.Bool("nextMsgSeqLocked", lockedWhole(f, nms, "c.reqMux"), "Conn.nextMsgSeq is one critical section of c.reqMux")
	factor, callsGen := "", false
	var rest []string
	if nms != nil && nms.Body != nil {
		for i, st := range nms.Body.List {
			if i >= 2 {
				rest = append(rest, strings.Join(strings.Fields(f.Src(st)), " "))
			}
		}
		ast.Inspect(nms.Body, func(n ast.Node) bool {
			switch x := n.(type) {
			case *ast.BinaryExpr:
				if x.Op == token.MUL && f.Src(x.X) == "c.sentContentMessages" {
					if lit, ok := x.Y.(*ast.BasicLit); ok {
						factor = lit.Value
					}
				}
			case *ast.CallExpr:
				if f.Src(x) == "c.newMessageID()" {
					callsGen = true
				}
			}
			return true
		})
	}
	if _, err := strconv.Atoi(factor); err == nil {
		f.Raw("def seqFactor : Nat := " + factor + " -- c.sentContentMessages * <factor> in Conn.nextMsgSeq")
	} else {
		f.Missing("seqFactor", "no `c.sentContentMessages * literal` in Conn.nextMsgSeq")
	}
	f.Bool("nextMsgSeqCallsGen", callsGen, "Conn.nextMsgSeq calls c.newMessageID() inside the critical section")
	f.Str("nextMsgSeqBody", strings.Join(rest, " ; "), "statements of Conn.nextMsgSeq after the lock")
	// Conn.newMessageID asks for a client-typed id
	f.Str("connNewMessageID", strings.Join(strings.Fields(f.FuncSrc("mtproto", "Conn.newMessageID")), " "), "body of Conn.newMessageID")
}

// ---------------------------------------------------------------------------------- generators

const maxSec = int64(1)<<31 - 4000 // ids fit int64 while the generator's time is before 2038

type call struct {
	clock int64
	typ   proto.MessageType
}

func baseNano(r *hc.RNG) int64 {
	sec := hc.Pick(r, int64(0), int64(1), int64(1_700_000_000), int64(r.Intn(int(maxSec))), maxSec-1, int64(r.Range(1_600_000_000, 1_900_000_000)))
	frac := hc.Pick(r, int64(0), int64(1000), int64(r.Intn(1_000_000_000)), int64(999_999_990+r.Intn(10)), int64(999_999_000+r.Intn(1000)), int64(r.Intn(16)))
	return sec*1_000_000_000 + frac
}

// genScript builds one clock script; the returned kind names the dominating pattern.
func genScript(r *hc.RNG, n int) ([]call, string) {
	cs := make([]call, 0, n)
	t := baseNano(r)
	kind := hc.Pick(r, "frozen", "sub4", "small", "backwards", "coarse", "rollover", "mixed", "mixed", "negative")
	if kind == "rollover" {
		t = t/1_000_000_000*1_000_000_000 + 999_999_999 - int64(r.Intn(3*n+4))
	}
	if kind == "negative" {
		t = -int64(r.Intn(1_000_000))
	}
	mixedTypes := r.Chance(25)
	for i := 0; i < n; i++ {
		typ := proto.MessageFromClient
		if mixedTypes {
			typ = proto.MessageType(r.Intn(4))
		}
		cs = append(cs, call{t, typ})
		k := kind
		if k == "mixed" {
			k = hc.Pick(r, "frozen", "sub4", "small", "backwards", "coarse")
		}
		switch k {
		case "frozen":
		case "sub4", "rollover":
			t += int64(r.Range(1, 4))
		case "small", "negative":
			t += int64(r.Range(0, 13))
		case "backwards":
			if r.Chance(30) {
				t -= int64(hc.Pick(r, 1, 2, 3, 4, 5, 9, 10, 11, 1000, r.Intn(1_000_000_000), r.Intn(1<<40)))
				if t < -1_000_000_000 {
					t = 0
				}
			} else {
				t += int64(r.Range(0, 20))
			}
		case "coarse":
			if r.Chance(20) {
				t += hc.Pick(r, int64(1_000_000), int64(15_625_000), int64(100_000_000), int64(1_000_000_000))
			}
		}
		if t/1_000_000_000 >= maxSec {
			t = (maxSec - 1) * 1_000_000_000
		}
	}
	return cs, kind
}

func scriptClock(cs []call) (now func() time.Time, used *int) {
	i := 0
	return func() time.Time {
		c := cs[i%len(cs)].clock
		i++
		return time.Unix(0, c)
	}, &i
}

func yieldFor(t proto.MessageType) int64 {
	switch t {
	case proto.MessageServerResponse:
		return 1
	case proto.MessageFromServer:
		return 3
	}
	return 0
}

func genLine(cs []call) string {
	var b strings.Builder
	b.WriteString("gen")
	for _, c := range cs {
		fmt.Fprintf(&b, " %d/%d", c.clock, int(c.typ))
	}
	return b.String()
}

func parseGenLine(line string) ([]call, bool) {
	ws := strings.Fields(line)
	if len(ws) < 2 || ws[0] != "gen" {
		return nil, false
	}
	var cs []call
	for _, w := range ws[1:] {
		p := strings.Split(w, "/")
		if len(p) != 2 {
			return nil, false
		}
		c, err1 := strconv.ParseInt(p[0], 10, 64)
		t, err2 := strconv.Atoi(p[1])
		if err1 != nil || err2 != nil {
			return nil, false
		}
		cs = append(cs, call{c, proto.MessageType(t)})
	}
	return cs, true
}

// runGen runs a clock script on the real generator and applies the property monitor.
func runGen(c *hc.Ctx, cs []call) []int64 {
	line := genLine(cs)
	now, _ := scriptClock(cs)
	g := proto.NewMessageIDGen(now)
	ids := make([]int64, len(cs))
	var prevID, prevT int64
	failed := map[string]bool{}
	fail := func(key, detail string) {
		if !failed[key] {
			failed[key] = true
			c.Fail(key, line, detail)
		}
	}
	for i, cl := range cs {
		id := g.New(cl.typ)
		ids[i] = id
		t := proto.MessageID(id).Time().UnixNano()
		if i > 0 && id <= prevID {
			fail("gen-id-not-increasing", fmt.Sprintf("call %d (clock %d) returned %d, previous call (clock %d) returned %d", i, cl.clock, id, cs[i-1].clock, prevID))
		}
		if id%4 != yieldFor(cl.typ) {
			fail("gen-id-type", fmt.Sprintf("call %d type %d returned %d with id%%4=%d", i, cl.typ, id, id%4))
		}
		if i > 0 && t < prevT {
			fail("gen-id-time-decreasing", fmt.Sprintf("call %d: id time %d < previous id time %d", i, t, prevT))
		}
		// close to the clock: never behind the reading by more than the 2 cleared bits, ahead of it
		// only by the 10 ns bumps on top of the previous id
		if t < cl.clock-3 {
			fail("gen-id-time-behind-clock", fmt.Sprintf("call %d: clock %d, id time %d", i, cl.clock, t))
		}
		// (the id time carries the type bits: subtract the previous id's, add this one's)
		lim := cl.clock + 3
		if i > 0 && prevT-yieldFor(cs[i-1].typ)+13+yieldFor(cl.typ) > lim {
			lim = prevT - yieldFor(cs[i-1].typ) + 13 + yieldFor(cl.typ)
		}
		if i == 0 && lim < 10+yieldFor(cl.typ) {
			lim = 10 + yieldFor(cl.typ)
		}
		if t > lim {
			fail("gen-id-time-ahead", fmt.Sprintf("call %d: clock %d, previous id time %d, id time %d", i, cl.clock, prevT, t))
		}
		prevID, prevT = id, t
	}
	return ids
}

func joinIDs(ids []int64) string {
	if len(ids) == 0 {
		return "-"
	}
	s := make([]string, len(ids))
	for i, x := range ids {
		s[i] = strconv.FormatInt(x, 10)
	}
	return strings.Join(s, " ")
}

type obs struct {
	id      int64
	seq     int32
	content bool
}

// checkSeqRule is the monitor for (id, seqNo, content) triples in generation order.
func checkSeqRule(c *hc.Ctx, input string, os []obs) {
	sent := int32(0)
	for i, o := range os {
		want := 2 * sent
		if o.content {
			want++
			sent++
		}
		if o.seq != want {
			c.Fail("seqno-rule", input, fmt.Sprintf("message %d (content=%v) got seq_no %d, want %d", i, o.content, o.seq, want))
			return
		}
		if i > 0 && o.id <= os[i-1].id {
			c.Fail("conn-id-not-increasing", input, fmt.Sprintf("message %d id %d after %d", i, o.id, os[i-1].id))
			return
		}
		if o.id%4 != 0 {
			c.Fail("conn-id-not-client-typed", input, fmt.Sprintf("message %d id %d", i, o.id))
			return
		}
	}
}

// holdsLine is the observation line for the Lean-side statement `holds`.
func holdsLine(os []obs) string {
	var b strings.Builder
	b.WriteString("holds")
	for _, o := range os {
		fmt.Fprintf(&b, " %d/%d/%s", o.id, o.seq, b01(o.content))
	}
	return b.String()
}

func b01(b bool) string {
	if b {
		return "1"
	}
	return "0"
}

// ---------------------------------------------------------------------------------- run

func run(c *hc.Ctx) error {
	r := c.Rng
	if c.Replay != "" {
		if cs, ok := parseGenLine(c.Replay); ok {
			ids := runGen(c, cs)
			c.Eval(c.Replay, true)
			out, err := c.Drv.Ask(c.Replay)
			if err != nil {
				return err
			}
			c.Compare(c.Replay, joinIDs(ids), out)
			return nil
		}
		c.Note("replay input is not a gen line; running the full tier instead")
	}
	var lines, impls, holdsLines []string
	add := func(line, impl string) {
		lines = append(lines, line)
		impls = append(impls, impl)
	}

	// ---- 0. the witness of D3 (clock advancing by 2 ns) and a few fixed scripts, every run
	fixed := [][]call{
		{{1_700_000_000_000_001_000, 1}, {1_700_000_000_000_001_002, 1}},
		{{1000, 1}, {1001, 1}, {1002, 1}, {1003, 1}, {1004, 1}},
		{{999_999_999, 1}, {1_000_000_000, 1}, {1_000_000_001, 1}},
		{{5, 1}, {5, 1}, {5, 1}, {4, 1}, {-7, 1}},
	}
	for _, cs := range fixed {
		ids := runGen(c, cs)
		c.Eval(genLine(cs), true)
		c.Count("gen.fixed")
		add(genLine(cs), joinIDs(ids))
	}

	// ---- 1. clock scripts through MessageIDGen.New
	nScripts := c.N(12000, 120000)
	for i := 0; i < nScripts; i++ {
		n := hc.Pick(r, 1, 2, 3, r.Range(2, 12), r.Range(2, 12), r.Range(10, 60), r.Range(10, 60), r.Range(60, 300))
		if r.Chance(2) {
			n = r.Range(300, 1000)
		}
		cs, kind := genScript(r, n)
		ids := runGen(c, cs)
		sub4 := false
		for j := 1; j < len(cs); j++ {
			if d := cs[j].clock - cs[j-1].clock; d < 4 {
				sub4 = true
			}
		}
		c.Count("gen.script." + kind)
		switch {
		case n == 1:
			c.Count("gen.len=1")
		case n <= 12:
			c.Count("gen.len<=12")
		case n <= 60:
			c.Count("gen.len<=60")
		default:
			c.Count("gen.len>60")
		}
		line := genLine(cs)
		c.Eval(line, sub4)
		add(line, joinIDs(ids))
	}

	// ---- 2. NewMessageIDNano and MessageID.Time/Type on single values
	nSingles := c.N(60000, 1000000)
	for i := 0; i < nSingles; i++ {
		nano := baseNano(r)
		typ := proto.MessageType(r.Intn(4))
		id := int64(proto.NewMessageIDNano(nano, typ))
		line := fmt.Sprintf("mid %d %d", nano, int(typ))
		c.Eval(line, true)
		c.Count("mid")
		if id%4 != yieldFor(typ) || id < 0 {
			c.Fail("mid-type", line, fmt.Sprintf("id %d", id))
		}
		if t := proto.MessageID(id).Time().UnixNano(); t > nano+3 || t < nano-3 {
			c.Fail("mid-time", line, fmt.Sprintf("id %d encodes time %d", id, t))
		}
		add(line, strconv.FormatInt(id, 10))
		// Time()/Type() of arbitrary non-negative ids (low 32 bits are read as int32)
		x := int64(r.U64() >> 1)
		if r.Chance(30) {
			x = id
		}
		m := proto.MessageID(x)
		sec := x >> 32
		tn := sec*1_000_000_000 + int64(int32(x)) // what Time() is documented to compute; avoids time.Time overflow
		if sec < (1<<63-1)/1_000_000_000-3 {
			tn = m.Time().UnixNano()
		} else {
			c.Count("idinfo.time-overflow-skipped")
		}
		add(fmt.Sprintf("idinfo %d", x), fmt.Sprintf("%d %d", typeDiscr(m.Type()), tn))
		c.Count("idinfo")
	}

	// ---- 3. Conn.nextMsgSeq, sequential
	nConn := c.N(6000, 150000)
	for i := 0; i < nConn; i++ {
		n := hc.Pick(r, 1, 2, r.Range(2, 10), r.Range(10, 80), r.Range(80, 300))
		cs, _ := genScript(r, n)
		now, _ := scriptClock(cs)
		conn := mtproto.VerifC08NewConn(proto.NewMessageIDGen(now))
		pContent := hc.Pick(r, 0, 20, 50, 80, 100)
		var os []obs
		var lb, ib strings.Builder
		lb.WriteString("conn")
		for j := range cs {
			content := r.Chance(pContent)
			id, seq := mtproto.VerifC08NextMsgSeq(conn, content)
			os = append(os, obs{id, seq, content})
			fmt.Fprintf(&lb, " %d/%s", cs[j].clock, b01(content))
			if j > 0 {
				ib.WriteByte(' ')
			}
			fmt.Fprintf(&ib, "%d/%d", id, seq)
		}
		line := lb.String()
		checkSeqRule(c, line, os)
		c.Eval(line, n >= 2)
		c.Count("conn.sequential")
		add(line, ib.String())
		holdsLines = append(holdsLines, holdsLine(os))
	}

	// ---- 4. Conn.nextMsgSeq from 1..8 goroutines; the k-th critical section reads the k-th clock
	// value (the clock is read under both locks), so the trace in id order is a sequential run.
	nPar := c.N(1000, 30000)
	for i := 0; i < nPar; i++ {
		workers := r.Range(1, 8)
		per := r.Range(1, 40)
		cs, _ := genScript(r, workers*per)
		now, _ := scriptClock(cs)
		conn := mtproto.VerifC08NewConn(proto.NewMessageIDGen(now))
		res := make([][]obs, workers)
		var wg sync.WaitGroup
		start := make(chan struct{})
		for w := 0; w < workers; w++ {
			rw := r.Fork()
			wg.Add(1)
			go func(w int) {
				defer wg.Done()
				<-start
				for k := 0; k < per; k++ {
					content := rw.Bool()
					id, seq := mtproto.VerifC08NextMsgSeq(conn, content)
					res[w] = append(res[w], obs{id, seq, content})
				}
			}(w)
		}
		close(start)
		wg.Wait()
		var all []obs
		for w, l := range res {
			// per-caller order: each caller sees its own ids increase
			for k := 1; k < len(l); k++ {
				if l[k].id <= l[k-1].id {
					c.Fail("conn-id-not-increasing", fmt.Sprintf("parallel workers=%d per=%d seed-case=%d", workers, per, i),
						fmt.Sprintf("worker %d got %d after %d", w, l[k].id, l[k-1].id))
				}
			}
			all = append(all, l...)
		}
		sort.Slice(all, func(a, b int) bool { return all[a].id < all[b].id })
		var lb, ib strings.Builder
		lb.WriteString("conn")
		dup := false
		for k, o := range all {
			if k > 0 && all[k-1].id == o.id {
				dup = true
			}
			fmt.Fprintf(&lb, " %d/%s", cs[k].clock, b01(o.content))
			if k > 0 {
				ib.WriteByte(' ')
			}
			fmt.Fprintf(&ib, "%d/%d", o.id, o.seq)
		}
		line := lb.String()
		if dup {
			c.Fail("conn-id-duplicate", line, "two concurrent nextMsgSeq calls returned the same id")
		}
		checkSeqRule(c, line, all)
		holdsLines = append(holdsLines, holdsLine(all))
		c.Eval(line, workers >= 2)
		c.Count(fmt.Sprintf("conn.parallel.workers=%d", workers))
		add(line, ib.String())
	}

	outs, err := c.Drv.Batch(lines)
	if err != nil {
		return err
	}
	for i, o := range outs {
		if c.Compare(lines[i], impls[i], o) {
			c.Res.TracesValidated++
		}
	}
	// the statement itself, as the decidable Lean function `holds` (theorem conn_holds), evaluated
	// on what the implementation produced
	hs, err := c.Drv.Batch(holdsLines)
	if err != nil {
		return err
	}
	for i, o := range hs {
		c.Count("holds.evaluated-on-implementation")
		if o != "true" {
			c.Fail("holds-false", holdsLines[i], "TdModel.C08.holds is "+o+" on the (id, seq_no, content) triples returned by nextMsgSeq")
		}
	}
	c.Res.Rule = "clock scripts (frozen, +1..4 ns, +0..13 ns, backward jumps, coarse ticks, second roll-over, pre-1970, mixed; 1..1000 calls; 25% with mixed message types) through MessageIDGen.New, ids compared one by one; non-trivial = some consecutive readings less than 4 ns apart or going backwards. Single NewMessageIDNano / MessageID.Time / Type values; nextMsgSeq sequences (non-trivial = at least 2 calls) and 1..8 concurrent callers (non-trivial = at least 2 workers) replayed in id order; distinct = distinct input line"
	c.PartialNote("interleavings of concurrent nextMsgSeq callers are those the Go scheduler produced (not enumerated); the model treats nextMsgSeq as one atomic step, justified by the regenerated lock-scope facts")
	c.PartialNote("ids are compared while the generator's time is before 2038-01-19 (int64 ids non-negative); later times are outside the model's range hypothesis")
	return nil
}

func typeDiscr(t proto.MessageType) int {
	switch t {
	case proto.MessageFromClient:
		return 0
	case proto.MessageServerResponse:
		return 1
	case proto.MessageFromServer:
		return 3
	}
	return 2
}
