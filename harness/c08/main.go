// C08 — outgoing message ids / sequence numbers: correspondence of proto.MessageIDGen.New,
// proto.NewMessageIDNano, proto.MessageID.{Time,Type} and mtproto.Conn.nextMsgSeq with the Lean
// model TdModel.C08, plus the property monitor on the implementation.
package main

import (
	"fmt"
	"go/ast"
	"go/constant"
	"go/parser"
	"go/token"
	"os"
	"path/filepath"
	"sort"
	"strconv"
	"strings"
	"context"
	"sync"
	"sync/atomic"
	"time"

	"github.com/gotd/td/bin"
	"github.com/gotd/td/crypto"
	"github.com/gotd/td/mt"
	"github.com/gotd/td/mtproto"
	"github.com/gotd/td/proto"
	"github.com/gotd/td/transport"

	"verif/harness/hc"
)

func main() {
	hc.Main(hc.Spec{Prop: "C08", Facts: facts, Run: run})
}

// ---------------------------------------------------------------------------------- facts

// localConst emits the integer constant `name` declared inside function `fn`.
func localConst(f *hc.Facts, lean, dir, fn, name string) {
	fd := f.FuncDecl(dir, fn)
	if fd == nil || fd.Body == nil {
		f.Missing(lean, dir+"."+fn+" not found")
		return
	}
	found := false
	ast.Inspect(fd.Body, func(n ast.Node) bool {
		gd, ok := n.(*ast.GenDecl)
		if !ok || gd.Tok != token.CONST {
			return true
		}
		for _, s := range gd.Specs {
			vs := s.(*ast.ValueSpec)
			for i, id := range vs.Names {
				if id.Name != name || i >= len(vs.Values) {
					continue
				}
				if lit, ok := vs.Values[i].(*ast.BasicLit); ok {
					v := constant.ToInt(constant.MakeFromLiteral(lit.Value, lit.Kind, 0))
					if v.Kind() == constant.Int {
						f.Raw(fmt.Sprintf("def %s : Nat := %s -- const %s in %s.%s", lean, v.ExactString(), name, dir, fn))
						found = true
					}
				}
			}
		}
		return true
	})
	if !found {
		f.Missing(lean, "const "+name+" not found in "+dir+"."+fn)
	}
}

// funcNames lists the functions ("Name") and methods ("Recv.Name") of a package directory of the
// repository (test files and verification hook files excluded).
func funcNames(f *hc.Facts, dir string) []string {
	var out []string
	ents, _ := os.ReadDir(filepath.Join(f.Repo, dir))
	fset := token.NewFileSet()
	for _, e := range ents {
		n := e.Name()
		if e.IsDir() || !strings.HasSuffix(n, ".go") || strings.HasSuffix(n, "_test.go") || strings.HasPrefix(n, "verif_") {
			continue
		}
		af, err := parser.ParseFile(fset, filepath.Join(f.Repo, dir, n), nil, 0)
		if err != nil {
			continue
		}
		for _, d := range af.Decls {
			fd, ok := d.(*ast.FuncDecl)
			if !ok {
				continue
			}
			name := fd.Name.Name
			if fd.Recv != nil && len(fd.Recv.List) > 0 {
				t := fd.Recv.List[0].Type
				if st, ok := t.(*ast.StarExpr); ok {
					t = st.X
				}
				if id, ok := t.(*ast.Ident); ok {
					name = id.Name + "." + name
				}
			}
			out = append(out, name)
		}
	}
	sort.Strings(out)
	return out
}

func facts(f *hc.Facts) {
	f.Const("messageIDModulo", "proto", "messageIDModulo")
	f.Const("yieldClient", "proto", "yieldClient")
	f.Const("yieldServerResponse", "proto", "yieldServerResponse")
	f.Const("yieldFromServer", "proto", "yieldFromServer")
	f.Const("typeUnknown", "proto", "MessageUnknown")
	f.Const("typeFromClient", "proto", "MessageFromClient")
	f.Const("typeServerResponse", "proto", "MessageServerResponse")
	f.Const("typeFromServer", "proto", "MessageFromServer")
	localConst(f, "minResolutionNanos", "proto", "MessageIDGen.New", "minResolutionNanos")
	localConst(f, "nanoPerSec", "proto", "newMessageID", "nano")
	if fd := f.FuncDecl("proto", "newMessageID"); fd != nil {
		shift := ""
		ast.Inspect(fd.Body, func(n ast.Node) bool {
			if x, ok := n.(*ast.BinaryExpr); ok && x.Op == token.SHL {
				if lit, ok := x.Y.(*ast.BasicLit); ok {
					shift = lit.Value
				}
			}
			return true
		})
		if _, err := strconv.Atoi(shift); err == nil {
			f.Raw("def idShift : Nat := " + shift + " -- shift in proto.newMessageID")
		} else {
			f.Missing("idShift", "no `<< literal` in proto.newMessageID")
		}
	} else {
		f.Missing("idShift", "proto.newMessageID not found")
	}

	// The code itself, regenerated: newMessageID and NewMessageIDNano as they are, and the bodies of
	// MessageIDGen.New and Conn.nextMsgSeq as functions of their state (g.nano /
	// c.sentContentMessages) and inputs (the clock reading / the id from c.newMessageID()).
	// The executable model calls these definitions; Props proves them equal to the
	// hand-written model the theorems are about.
	lockNew := []string{"g.mux.Lock()", "defer g.mux.Unlock()"}
	f.TranslateSlices("proto", []string{"newMessageIDT", "newMessageID", "newMessageIDNanoT", "NewMessageIDNano"},
		hc.SliceSpec{Lean: "genNewT", Go: "MessageIDGen.New", Fields: [][2]string{{"g.nano", "gNano"}},
			Inputs: [][3]string{{"g.now().UnixNano()", "clock", "int64"}}, Drop: lockNew, KeepResults: true})
	lockSeq := []string{"c.reqMux.Lock()", "defer c.reqMux.Unlock()", "c.reqMux.Unlock()"}
	f.TranslateSlices("mtproto", nil,
		hc.SliceSpec{Lean: "nextMsgSeqT", Go: "Conn.nextMsgSeq", Fields: [][2]string{{"c.sentContentMessages", "cSent"}},
			Inputs: [][3]string{{"c.newMessageID()", "newID", "int64"}}, Drop: lockSeq, KeepResults: true})

	// Lock scope (what the slices drop): every use of the state and of the inputs lies inside one
	// critical section that spans to the end of the function.
	f.Bool("genNewLocked", f.LockCovers(f.FuncDecl("proto", "MessageIDGen.New"), "g.mux", "g.nano", "g.now()", "NewMessageIDNano"),
		"MessageIDGen.New: all uses of g.nano / g.now() are inside the g.mux critical section")
	f.Bool("nextMsgSeqLocked", f.LockCovers(f.FuncDecl("mtproto", "Conn.nextMsgSeq"), "c.reqMux", "c.sentContentMessages", "c.newMessageID()"),
		"Conn.nextMsgSeq: all uses of c.sentContentMessages / c.newMessageID() are inside the c.reqMux critical section")

	// Conn.newMessageID asks the generator for this message type
	typ := ""
	if fd := f.FuncDecl("mtproto", "Conn.newMessageID"); fd != nil {
		ast.Inspect(fd.Body, func(n ast.Node) bool {
			if ce, ok := n.(*ast.CallExpr); ok && f.Src(ce.Fun) == "c.messageID.New" && len(ce.Args) == 1 {
				if se, ok := ce.Args[0].(*ast.SelectorExpr); ok && f.Src(se.X) == "proto" {
					typ = se.Sel.Name
				}
			}
			return true
		})
	}
	if v, ok := f.ConstInt("proto", typ); ok && typ != "" {
		f.Raw("def connNewType : Nat := " + v + " -- c.messageID.New(proto." + typ + ") in Conn.newMessageID")
	} else {
		f.Missing("connNewType", "c.messageID.New(proto.<type>) not found in Conn.newMessageID")
	}

	// Where (id, seq_no) pairs come from and go to: the content flag at every nextMsgSeq call site,
	// write handing its arguments to newEncryptedMessage, newEncryptedMessage putting them into
	// every EncryptedMessageData it builds.
	var sites []string
	for _, fn := range funcNames(f, "mtproto") {
		if strings.HasSuffix(fn, ".nextMsgSeq") {
			continue
		}
		fd := f.FuncDecl("mtproto", fn)
		if fd == nil || fd.Body == nil {
			continue
		}
		ast.Inspect(fd.Body, func(n ast.Node) bool {
			if ce, ok := n.(*ast.CallExpr); ok && f.Src(ce.Fun) == "c.nextMsgSeq" && len(ce.Args) == 1 {
				sites = append(sites, fmt.Sprintf("(%q, %q)", strings.TrimPrefix(fn, "Conn."), f.Src(ce.Args[0])))
			}
			return true
		})
	}
	f.Raw("def nextMsgSeqSites : List (String × String) := [" + strings.Join(sites, ", ") + "] -- (caller, argument) of every c.nextMsgSeq(…) call in package mtproto")
	// Invoke builds the request once from nextMsgSeq(true) and hands the same value to every
	// rpc.Do (the bad-salt retry re-sends the same message, it does not mint a new one)
	reqWrites, doCalls, doWithReq := 0, 0, 0
	if fd := f.FuncDecl("mtproto", "Conn.Invoke"); fd != nil {
		ast.Inspect(fd.Body, func(n ast.Node) bool {
			switch x := n.(type) {
			case *ast.AssignStmt:
				for _, l := range x.Lhs {
					if s := f.Src(l); s == "req" || strings.HasPrefix(s, "req.") {
						reqWrites++
					}
				}
			case *ast.IncDecStmt:
				if strings.HasPrefix(f.Src(x.X), "req.") {
					reqWrites++
				}
			case *ast.CallExpr:
				if f.Src(x.Fun) == "c.rpc.Do" {
					doCalls++
					if len(x.Args) == 2 && f.Src(x.Args[1]) == "req" {
						doWithReq++
					}
				}
			}
			return true
		})
	}
	f.Nat("invokeRequestWrites", reqWrites, "assignments to req / req.<field> in Conn.Invoke (1 = the initial `req := rpc.Request{…}`)")
	f.Bool("invokeAlwaysSendsSameRequest", doCalls > 0 && doCalls == doWithReq, "every c.rpc.Do call of Conn.Invoke passes `req`")
	passes := false
	if fd := f.FuncDecl("mtproto", "Conn.write"); fd != nil {
		ast.Inspect(fd.Body, func(n ast.Node) bool {
			if ce, ok := n.(*ast.CallExpr); ok && f.Src(ce.Fun) == "c.newEncryptedMessage" && len(ce.Args) == 4 {
				passes = f.Src(ce.Args[0]) == "msgID" && f.Src(ce.Args[1]) == "seqNo"
			}
			return true
		})
	}
	f.Bool("writePassesIdSeq", passes, "Conn.write calls c.newEncryptedMessage(msgID, seqNo, …) with its own parameters")
	lits, withID, withSeq := 0, 0, 0
	if fd := f.FuncDecl("mtproto", "Conn.newEncryptedMessage"); fd != nil {
		ast.Inspect(fd.Body, func(n ast.Node) bool {
			if cl, ok := n.(*ast.CompositeLit); ok && f.Src(cl.Type) == "crypto.EncryptedMessageData" {
				lits++
				for _, e := range cl.Elts {
					switch strings.Join(strings.Fields(f.Src(e)), " ") {
					case "MessageID: id":
						withID++
					case "SeqNo: seq":
						withSeq++
					}
				}
			}
			return true
		})
	}
	f.Nat("encryptedDataLiterals", lits, "crypto.EncryptedMessageData literals in Conn.newEncryptedMessage")
	f.Nat("encryptedDataLiteralsWithId", withID, "… with `MessageID: id`")
	f.Nat("encryptedDataLiteralsWithSeq", withSeq, "… with `SeqNo: seq`")
}

// ---------------------------------------------------------------------------------- generators

const maxSec = int64(1)<<31 - 4000 // ids fit int64 while the generator's time is before 2038

type call struct {
	clock int64
	typ   proto.MessageType
}

func baseNano(r *hc.RNG) int64 {
	sec := hc.Pick(r, int64(0), int64(1), int64(1_700_000_000), int64(r.Intn(int(maxSec))), maxSec-1, int64(r.Range(1_600_000_000, 1_900_000_000)))
	frac := hc.Pick(r, int64(0), int64(1000), int64(r.Intn(1_000_000_000)), int64(999_999_990+r.Intn(10)), int64(999_999_000+r.Intn(1000)), int64(r.Intn(16)))
	return sec*1_000_000_000 + frac
}

// genScript builds one clock script; the returned kind names the dominating pattern.
func genScript(r *hc.RNG, n int) ([]call, string) {
	cs := make([]call, 0, n)
	t := baseNano(r)
	kind := hc.Pick(r, "frozen", "sub4", "small", "backwards", "coarse", "rollover", "mixed", "mixed", "negative")
	if kind == "rollover" {
		t = t/1_000_000_000*1_000_000_000 + 999_999_999 - int64(r.Intn(3*n+4))
	}
	if kind == "negative" {
		t = -int64(r.Intn(1_000_000))
	}
	mixedTypes := r.Chance(25)
	for i := 0; i < n; i++ {
		typ := proto.MessageFromClient
		if mixedTypes {
			typ = proto.MessageType(r.Intn(4))
		}
		cs = append(cs, call{t, typ})
		k := kind
		if k == "mixed" {
			k = hc.Pick(r, "frozen", "sub4", "small", "backwards", "coarse")
		}
		switch k {
		case "frozen":
		case "sub4", "rollover":
			t += int64(r.Range(1, 4))
		case "small", "negative":
			t += int64(r.Range(0, 13))
		case "backwards":
			if r.Chance(30) {
				t -= int64(hc.Pick(r, 1, 2, 3, 4, 5, 9, 10, 11, 1000, r.Intn(1_000_000_000), r.Intn(1<<40)))
				if t < -1_000_000_000 {
					t = 0
				}
			} else {
				t += int64(r.Range(0, 20))
			}
		case "coarse":
			if r.Chance(20) {
				t += hc.Pick(r, int64(1_000_000), int64(15_625_000), int64(100_000_000), int64(1_000_000_000))
			}
		}
		if t/1_000_000_000 >= maxSec {
			t = (maxSec - 1) * 1_000_000_000
		}
	}
	return cs, kind
}

func scriptClock(cs []call) (now func() time.Time, used *int) {
	i := 0
	return func() time.Time {
		c := cs[i%len(cs)].clock
		i++
		return time.Unix(0, c)
	}, &i
}

func yieldFor(t proto.MessageType) int64 {
	switch t {
	case proto.MessageServerResponse:
		return 1
	case proto.MessageFromServer:
		return 3
	}
	return 0
}

func genLine(cs []call) string {
	var b strings.Builder
	b.WriteString("gen")
	for _, c := range cs {
		fmt.Fprintf(&b, " %d/%d", c.clock, int(c.typ))
	}
	return b.String()
}

func parseGenLine(line string) ([]call, bool) {
	ws := strings.Fields(line)
	if len(ws) < 2 || ws[0] != "gen" {
		return nil, false
	}
	var cs []call
	for _, w := range ws[1:] {
		p := strings.Split(w, "/")
		if len(p) != 2 {
			return nil, false
		}
		c, err1 := strconv.ParseInt(p[0], 10, 64)
		t, err2 := strconv.Atoi(p[1])
		if err1 != nil || err2 != nil {
			return nil, false
		}
		cs = append(cs, call{c, proto.MessageType(t)})
	}
	return cs, true
}

// runGen runs a clock script on the real generator and applies the property monitor.
func runGen(c *hc.Ctx, cs []call) []int64 {
	line := genLine(cs)
	now, _ := scriptClock(cs)
	g := proto.NewMessageIDGen(now)
	ids := make([]int64, len(cs))
	var prevID, prevT int64
	failed := map[string]bool{}
	fail := func(key, detail string) {
		if !failed[key] {
			failed[key] = true
			c.Fail(key, line, detail)
		}
	}
	for i, cl := range cs {
		id := g.New(cl.typ)
		ids[i] = id
		t := proto.MessageID(id).Time().UnixNano()
		if i > 0 && id <= prevID {
			fail("gen-id-not-increasing", fmt.Sprintf("call %d (clock %d) returned %d, previous call (clock %d) returned %d", i, cl.clock, id, cs[i-1].clock, prevID))
		}
		if id%4 != yieldFor(cl.typ) {
			fail("gen-id-type", fmt.Sprintf("call %d type %d returned %d with id%%4=%d", i, cl.typ, id, id%4))
		}
		if i > 0 && t < prevT {
			fail("gen-id-time-decreasing", fmt.Sprintf("call %d: id time %d < previous id time %d", i, t, prevT))
		}
		// close to the clock: never behind the reading by more than the 2 cleared bits, ahead of it
		// only by the 10 ns bumps on top of the previous id
		if t < cl.clock-3 {
			fail("gen-id-time-behind-clock", fmt.Sprintf("call %d: clock %d, id time %d", i, cl.clock, t))
		}
		// (the id time carries the type bits: subtract the previous id's, add this one's)
		lim := cl.clock + 3
		if i > 0 && prevT-yieldFor(cs[i-1].typ)+13+yieldFor(cl.typ) > lim {
			lim = prevT - yieldFor(cs[i-1].typ) + 13 + yieldFor(cl.typ)
		}
		if i == 0 && lim < 10+yieldFor(cl.typ) {
			lim = 10 + yieldFor(cl.typ)
		}
		if t > lim {
			fail("gen-id-time-ahead", fmt.Sprintf("call %d: clock %d, previous id time %d, id time %d", i, cl.clock, prevT, t))
		}
		prevID, prevT = id, t
	}
	return ids
}

func joinIDs(ids []int64) string {
	if len(ids) == 0 {
		return "-"
	}
	s := make([]string, len(ids))
	for i, x := range ids {
		s[i] = strconv.FormatInt(x, 10)
	}
	return strings.Join(s, " ")
}

type obs struct {
	id      int64
	seq     int32
	content bool
}

// checkSeqRule is the monitor for (id, seqNo, content) triples in generation order.
func checkSeqRule(c *hc.Ctx, input string, os []obs) {
	sent := int32(0)
	for i, o := range os {
		want := 2 * sent
		if o.content {
			want++
			sent++
		}
		if o.seq != want {
			c.Fail("seqno-rule", input, fmt.Sprintf("message %d (content=%v) got seq_no %d, want %d", i, o.content, o.seq, want))
			return
		}
		if i > 0 && o.id <= os[i-1].id {
			c.Fail("conn-id-not-increasing", input, fmt.Sprintf("message %d id %d after %d", i, o.id, os[i-1].id))
			return
		}
		if o.id%4 != 0 {
			c.Fail("conn-id-not-client-typed", input, fmt.Sprintf("message %d id %d", i, o.id))
			return
		}
	}
}

// holdsLine is the observation line for the Lean-side statement `holds`.
func holdsLine(os []obs) string {
	var b strings.Builder
	b.WriteString("holds")
	for _, o := range os {
		fmt.Fprintf(&b, " %d/%d/%s", o.id, o.seq, b01(o.content))
	}
	return b.String()
}

func b01(b bool) string {
	if b {
		return "1"
	}
	return "0"
}

// ---------------------------------------------------------------------------------- the wire

// wireFrame is what a written frame carries, read back by decrypting it as the server would.
type wireFrame struct {
	msgID   int64
	seqNo   int32
	typeID  uint32
	session int64
	pingID  int64
	gzipped bool
}

// wireTransport is an in-memory transport.Conn (and HTTP long-poll capable, so that http_wait
// frames are produced too).
type wireTransport struct {
	key  crypto.AuthKey
	dec  crypto.Cipher
	out  chan wireFrame
	in   chan []byte
	mu   sync.Mutex
	wait func(ctx context.Context) (*bin.Buffer, error)
	errs []string
}

func (t *wireTransport) decode(b *bin.Buffer) (wireFrame, bool) {
	cp := &bin.Buffer{Buf: append([]byte{}, b.Buf...)}
	d, err := t.dec.DecryptFromBuffer(t.key, cp)
	if err != nil {
		t.mu.Lock()
		t.errs = append(t.errs, err.Error())
		t.mu.Unlock()
		return wireFrame{}, false
	}
	p := &bin.Buffer{Buf: d.Data()}
	id, _ := p.PeekID()
	gz := false
	if id == proto.GZIPTypeID { // the compressing branch of newEncryptedMessage
		var g proto.GZIP
		if g.Decode(p) == nil {
			p = &bin.Buffer{Buf: g.Data}
			id, _ = p.PeekID()
			gz = true
		}
	}
	w := wireFrame{msgID: d.MessageID, seqNo: d.SeqNo, typeID: id, session: d.SessionID, gzipped: gz}
	if id == mt.PingDelayDisconnectRequestTypeID {
		var r mt.PingDelayDisconnectRequest
		if r.Decode(p) == nil {
			w.pingID = r.PingID
		}
	}
	return w, true
}

func (t *wireTransport) Send(ctx context.Context, b *bin.Buffer) error {
	if w, ok := t.decode(b); ok {
		select {
		case t.out <- w:
		case <-ctx.Done():
		}
	}
	return nil
}

func (t *wireTransport) Recv(ctx context.Context, b *bin.Buffer) error {
	select {
	case f := <-t.in:
		b.ResetTo(f)
		return nil
	case <-ctx.Done():
		return ctx.Err()
	}
}
func (t *wireTransport) Close() error                          { return nil }
func (t *wireTransport) HTTPWaitParams() (int, int, int)       { return 0, 0, 25000 }
func (t *wireTransport) StartHTTPWait(f func(ctx context.Context) (*bin.Buffer, error)) {
	t.mu.Lock()
	t.wait = f
	t.mu.Unlock()
}

var _ transport.Conn = (*wireTransport)(nil)

type anyOut struct{}

func (anyOut) Decode(b *bin.Buffer) error { return nil }

func encodeTL(e bin.Encoder) []byte {
	var b bin.Buffer
	if err := e.Encode(&b); err != nil {
		panic(err)
	}
	return b.Buf
}

type rawPayload []byte

func (p rawPayload) Encode(b *bin.Buffer) error { b.Put(p); return nil }

// watchdog is generous and grows with the machine's load: nothing below is a timing assertion.
func watchdog() time.Duration {
	d := 90 * time.Second
	if b, err := os.ReadFile("/proc/loadavg"); err == nil {
		if f := strings.Fields(string(b)); len(f) > 0 {
			if l, err := strconv.ParseFloat(f[0], 64); err == nil && l > 32 {
				d += time.Duration(l/32) * 60 * time.Second
			}
		}
	}
	return d
}

// runWire starts a whole connection (public mtproto.New + Run) over the in-memory transport and
// lets every kind of outgoing message happen: keep-alive pings, acknowledgements of server
// messages, get_future_salts, http_wait and concurrent content requests.  Returns the written
// messages (one per msg_id) in msg_id order.
func runWire(seed uint64, workers, per, compress int) (frames []wireFrame, kinds map[string]int, herr error) {
	r := hc.NewRNG(seed)
	var key crypto.Key
	r.Read(key[:])
	ak := key.WithID()
	tr := &wireTransport{key: ak, dec: crypto.NewServerCipher(r.Fork()), out: make(chan wireFrame, 4096), in: make(chan []byte, 4096)}
	srv := crypto.NewServerCipher(r.Fork())
	srvIDs := proto.NewMessageIDGen(time.Now)
	conn := mtproto.New(func(ctx context.Context) (transport.Conn, error) { return tr, nil }, mtproto.Options{
		Random: r.Fork(), Key: ak, Cipher: crypto.NewClientCipher(r.Fork()), CompressThreshold: compress,
		PingInterval: 15 * time.Millisecond, PingTimeout: 10 * time.Minute,
		AckInterval: 10 * time.Millisecond, AckBatchSize: 2, SaltFetchInterval: 20 * time.Millisecond,
		RetryInterval: 10 * time.Minute,
	})
	ctx, cancel := context.WithCancel(context.Background())
	defer cancel()
	var session atomic.Int64
	var srvSeq atomic.Int32
	serverSend := func(typ proto.MessageType, contentRelated bool, payload []byte) {
		seq := srvSeq.Load() * 2
		if contentRelated {
			seq++
			srvSeq.Add(1)
		}
		var b bin.Buffer
		if err := srv.Encrypt(ak, crypto.EncryptedMessageData{
			SessionID: session.Load(), Salt: 1, MessageID: srvIDs.New(typ), SeqNo: seq, Message: rawPayload(payload),
		}, &b); err != nil {
			return
		}
		select {
		case tr.in <- b.Buf:
		default:
		}
	}
	invokesDone := make(chan struct{})
	runDone := make(chan error, 1)
	go func() {
		runDone <- conn.Run(ctx, func(ctx context.Context) error {
			var wg sync.WaitGroup
			for w := 0; w < workers; w++ {
				wg.Add(1)
				go func(w int) {
					defer wg.Done()
					for k := 0; k < per; k++ {
						// a request long enough to take the compressing branch when compression is on
						req := append(encodeTL(&mt.RPCDropAnswerRequest{ReqMsgID: int64(w*1000 + k)}), make([]byte, 200)...)
						_ = conn.Invoke(ctx, rawPayload(req), anyOut{})
					}
				}(w)
			}
			wg.Wait()
			close(invokesDone)
			<-ctx.Done()
			return ctx.Err()
		})
	}()
	seen := map[int64]wireFrame{}
	kinds = map[string]int{}
	record := func(w wireFrame) {
		if old, dup := seen[w.msgID]; dup {
			if old.seqNo != w.seqNo || old.typeID != w.typeID {
				kinds["DIFFERENT-MESSAGES-SAME-ID"]++
			}
			kinds["retransmission"]++
			return
		}
		seen[w.msgID] = w
		if w.gzipped {
			kinds["(gzip-packed)"]++
		}
		switch w.typeID {
		case mt.PingDelayDisconnectRequestTypeID:
			kinds["ping_delay_disconnect"]++
		case mt.MsgsAckTypeID:
			kinds["msgs_ack"]++
		case mt.GetFutureSaltsRequestTypeID:
			kinds["get_future_salts"]++
		case mt.HTTPWaitRequestTypeID:
			kinds["http_wait"]++
		case mt.RPCDropAnswerRequestTypeID:
			kinds["content(rpc)"]++
		default:
			kinds[fmt.Sprintf("other-%08x", w.typeID)]++
		}
	}
	sessionTold := false
	badSalted := map[int64]int{}
	nBadSalt := 0
	rr := r.Fork()
	react := func(w wireFrame) {
		if session.Load() == 0 {
			session.Store(w.session)
		}
		if !sessionTold {
			sessionTold = true
			serverSend(proto.MessageFromServer, true, encodeTL(&mt.NewSessionCreated{FirstMsgID: w.msgID, UniqueID: 7, ServerSalt: 1}))
		}
		switch w.typeID {
		case mt.PingDelayDisconnectRequestTypeID:
			serverSend(proto.MessageServerResponse, false, encodeTL(&mt.Pong{MsgID: w.msgID, PingID: w.pingID}))
		case mt.RPCDropAnswerRequestTypeID:
			// some requests are first rejected with bad_server_salt: the client must send the SAME
			// message again (same msg_id, same seq_no), which then gets its result
			badSalted[w.msgID]++
			if badSalted[w.msgID] == 1 && rr.Chance(35) && nBadSalt < 64 {
				nBadSalt++
				kinds["(bad_server_salt sent)"]++
				serverSend(proto.MessageFromServer, false, encodeTL(&mt.BadServerSalt{BadMsgID: w.msgID, BadMsgSeqno: int(w.seqNo), ErrorCode: 48, NewServerSalt: int64(rr.U64())}))
				break
			}
			serverSend(proto.MessageServerResponse, true, encodeTL(&proto.Result{RequestMessageID: w.msgID, Result: encodeTL(&mt.MsgsAck{MsgIDs: []int64{1}})}))
		case mt.GetFutureSaltsRequestTypeID:
			serverSend(proto.MessageServerResponse, true, encodeTL(&mt.FutureSalts{ReqMsgID: w.msgID, Now: int(time.Now().Unix())}))
		}
	}
	deadline := time.After(watchdog())
	tick := time.NewTicker(5 * time.Millisecond)
	defer tick.Stop()
	finishing := (<-chan time.Time)(nil)
	done := invokesDone
loop:
	for {
		select {
		case w := <-tr.out:
			record(w)
			react(w)
		case <-tick.C: // an http_wait frame, as the HTTP transport's long-poll loop would ask for
			tr.mu.Lock()
			f := tr.wait
			tr.mu.Unlock()
			if f != nil {
				if b, err := f(ctx); err == nil {
					if w, ok := tr.decode(b); ok {
						record(w)
					}
				}
			}
		case <-done:
			done = nil
			finishing = time.After(80 * time.Millisecond) // let trailing acks / pings be written
		case <-finishing:
			break loop
		case err := <-runDone:
			return nil, kinds, fmt.Errorf("Run ended early: %v", err)
		case <-deadline:
			return nil, kinds, fmt.Errorf("wire scenario did not finish within the watchdog (workers=%d per=%d, %d frames so far)", workers, per, len(seen))
		}
	}
	cancel()
	select {
	case <-runDone:
	case <-time.After(watchdog()):
		return nil, kinds, fmt.Errorf("Run did not return after cancellation")
	}
	for drained := false; !drained; {
		select {
		case w := <-tr.out:
			record(w)
		default:
			drained = true
		}
	}
	tr.mu.Lock()
	if len(tr.errs) > 0 {
		herr = fmt.Errorf("written frame does not decrypt: %s", tr.errs[0])
	}
	tr.mu.Unlock()
	for _, w := range seen {
		frames = append(frames, w)
	}
	sort.Slice(frames, func(i, j int) bool { return frames[i].msgID < frames[j].msgID })
	return frames, kinds, herr
}

// ---------------------------------------------------------------------------------- run

func run(c *hc.Ctx) error {
	r := c.Rng
	if c.Replay != "" {
		if cs, ok := parseGenLine(c.Replay); ok {
			ids := runGen(c, cs)
			c.Eval(c.Replay, true)
			out, err := c.Drv.Ask(c.Replay)
			if err != nil {
				return err
			}
			c.Compare(c.Replay, joinIDs(ids), out)
			return nil
		}
		c.Note("replay input is not a gen line; running the full tier instead")
	}
	var lines, impls, holdsLines []string
	add := func(line, impl string) {
		lines = append(lines, line)
		impls = append(impls, impl)
	}

	// ---- 0. the witness of D3 (clock advancing by 2 ns) and a few fixed scripts, every run
	fixed := [][]call{
		{{1_700_000_000_000_001_000, 1}, {1_700_000_000_000_001_002, 1}},
		{{1000, 1}, {1001, 1}, {1002, 1}, {1003, 1}, {1004, 1}},
		{{999_999_999, 1}, {1_000_000_000, 1}, {1_000_000_001, 1}},
		{{5, 1}, {5, 1}, {5, 1}, {4, 1}, {-7, 1}},
	}
	for _, cs := range fixed {
		ids := runGen(c, cs)
		c.Eval(genLine(cs), true)
		c.Count("gen.fixed")
		add(genLine(cs), joinIDs(ids))
	}

	// ---- 1. clock scripts through MessageIDGen.New
	nScripts := c.N(12000, 120000)
	for i := 0; i < nScripts; i++ {
		n := hc.Pick(r, 1, 2, 3, r.Range(2, 12), r.Range(2, 12), r.Range(10, 60), r.Range(10, 60), r.Range(60, 300))
		if r.Chance(2) {
			n = r.Range(300, 1000)
		}
		cs, kind := genScript(r, n)
		ids := runGen(c, cs)
		sub4 := false
		for j := 1; j < len(cs); j++ {
			if d := cs[j].clock - cs[j-1].clock; d < 4 {
				sub4 = true
			}
		}
		c.Count("gen.script." + kind)
		switch {
		case n == 1:
			c.Count("gen.len=1")
		case n <= 12:
			c.Count("gen.len<=12")
		case n <= 60:
			c.Count("gen.len<=60")
		default:
			c.Count("gen.len>60")
		}
		line := genLine(cs)
		c.Eval(line, sub4)
		add(line, joinIDs(ids))
	}

	// ---- 2. NewMessageIDNano and MessageID.Time/Type on single values
	nSingles := c.N(60000, 1000000)
	for i := 0; i < nSingles; i++ {
		nano := baseNano(r)
		typ := proto.MessageType(r.Intn(4))
		id := int64(proto.NewMessageIDNano(nano, typ))
		line := fmt.Sprintf("mid %d %d", nano, int(typ))
		c.Eval(line, true)
		c.Count("mid")
		if id%4 != yieldFor(typ) || id < 0 {
			c.Fail("mid-type", line, fmt.Sprintf("id %d", id))
		}
		if t := proto.MessageID(id).Time().UnixNano(); t > nano+3 || t < nano-3 {
			c.Fail("mid-time", line, fmt.Sprintf("id %d encodes time %d", id, t))
		}
		add(line, strconv.FormatInt(id, 10))
		// Time()/Type() of arbitrary non-negative ids (low 32 bits are read as int32)
		x := int64(r.U64() >> 1)
		if r.Chance(30) {
			x = id
		}
		m := proto.MessageID(x)
		sec := x >> 32
		tn := sec*1_000_000_000 + int64(int32(x)) // what Time() is documented to compute; avoids time.Time overflow
		if sec < (1<<63-1)/1_000_000_000-3 {
			tn = m.Time().UnixNano()
		} else {
			c.Count("idinfo.time-overflow-skipped")
		}
		add(fmt.Sprintf("idinfo %d", x), fmt.Sprintf("%d %d", typeDiscr(m.Type()), tn))
		c.Count("idinfo")
	}

	// ---- 3. Conn.nextMsgSeq, sequential
	nConn := c.N(6000, 150000)
	for i := 0; i < nConn; i++ {
		n := hc.Pick(r, 1, 2, r.Range(2, 10), r.Range(10, 80), r.Range(80, 300))
		cs, _ := genScript(r, n)
		now, _ := scriptClock(cs)
		conn := mtproto.VerifC08NewConn(proto.NewMessageIDGen(now))
		pContent := hc.Pick(r, 0, 20, 50, 80, 100)
		var os []obs
		var lb, ib strings.Builder
		lb.WriteString("conn")
		for j := range cs {
			content := r.Chance(pContent)
			id, seq := mtproto.VerifC08NextMsgSeq(conn, content)
			os = append(os, obs{id, seq, content})
			fmt.Fprintf(&lb, " %d/%s", cs[j].clock, b01(content))
			if j > 0 {
				ib.WriteByte(' ')
			}
			fmt.Fprintf(&ib, "%d/%d", id, seq)
		}
		line := lb.String()
		checkSeqRule(c, line, os)
		c.Eval(line, n >= 2)
		c.Count("conn.sequential")
		add(line, ib.String())
		holdsLines = append(holdsLines, holdsLine(os))
	}

	// ---- 4. Conn.nextMsgSeq from 1..8 goroutines; the k-th critical section reads the k-th clock
	// value (the clock is read under both locks), so the trace in id order is a sequential run.
	nPar := c.N(1000, 30000)
	for i := 0; i < nPar; i++ {
		workers := r.Range(1, 8)
		per := r.Range(1, 40)
		cs, _ := genScript(r, workers*per)
		now, _ := scriptClock(cs)
		conn := mtproto.VerifC08NewConn(proto.NewMessageIDGen(now))
		res := make([][]obs, workers)
		var wg sync.WaitGroup
		start := make(chan struct{})
		for w := 0; w < workers; w++ {
			rw := r.Fork()
			wg.Add(1)
			go func(w int) {
				defer wg.Done()
				<-start
				for k := 0; k < per; k++ {
					content := rw.Bool()
					id, seq := mtproto.VerifC08NextMsgSeq(conn, content)
					res[w] = append(res[w], obs{id, seq, content})
				}
			}(w)
		}
		close(start)
		wg.Wait()
		var all []obs
		for w, l := range res {
			// per-caller order: each caller sees its own ids increase
			for k := 1; k < len(l); k++ {
				if l[k].id <= l[k-1].id {
					c.Fail("conn-id-not-increasing", fmt.Sprintf("parallel workers=%d per=%d seed-case=%d", workers, per, i),
						fmt.Sprintf("worker %d got %d after %d", w, l[k].id, l[k-1].id))
				}
			}
			all = append(all, l...)
		}
		sort.Slice(all, func(a, b int) bool { return all[a].id < all[b].id })
		var lb, ib strings.Builder
		lb.WriteString("conn")
		dup := false
		for k, o := range all {
			if k > 0 && all[k-1].id == o.id {
				dup = true
			}
			fmt.Fprintf(&lb, " %d/%s", cs[k].clock, b01(o.content))
			if k > 0 {
				ib.WriteByte(' ')
			}
			fmt.Fprintf(&ib, "%d/%d", o.id, o.seq)
		}
		line := lb.String()
		if dup {
			c.Fail("conn-id-duplicate", line, "two concurrent nextMsgSeq calls returned the same id")
		}
		checkSeqRule(c, line, all)
		holdsLines = append(holdsLines, holdsLine(all))
		c.Eval(line, workers >= 2)
		c.Count(fmt.Sprintf("conn.parallel.workers=%d", workers))
		add(line, ib.String())
	}

	// ---- 5. hammer: 8 callers in tight loops, half of them service-only (the window between id
	// generation and sequence-number assignment is a few instructions wide)
	nHammer := c.N(12, 200)
	for i := 0; i < nHammer; i++ {
		workers, per := 8, r.Range(1500, 3000)
		cs, _ := genScript(r, workers*per)
		now, _ := scriptClock(cs)
		conn := mtproto.VerifC08NewConn(proto.NewMessageIDGen(now))
		res := make([][]obs, workers)
		var wg sync.WaitGroup
		start := make(chan struct{})
		for w := 0; w < workers; w++ {
			wg.Add(1)
			go func(w int) {
				defer wg.Done()
				content := w%2 == 0
				out := make([]obs, 0, per)
				<-start
				for k := 0; k < per; k++ {
					id, seq := mtproto.VerifC08NextMsgSeq(conn, content)
					out = append(out, obs{id, seq, content})
				}
				res[w] = out
			}(w)
		}
		close(start)
		wg.Wait()
		var all []obs
		for _, l := range res {
			all = append(all, l...)
		}
		sort.Slice(all, func(a, b int) bool { return all[a].id < all[b].id })
		var lb, ib strings.Builder
		lb.WriteString("conn")
		for k, o := range all {
			fmt.Fprintf(&lb, " %d/%s", cs[k].clock, b01(o.content))
			if k > 0 {
				ib.WriteByte(' ')
			}
			fmt.Fprintf(&ib, "%d/%d", o.id, o.seq)
		}
		line := lb.String()
		checkSeqRule(c, line, all)
		c.Eval(fmt.Sprintf("hammer #%d workers=%d per=%d", i, workers, per), true)
		c.Count("conn.hammer")
		add(line, ib.String())
	}

	// ---- 6. the wire: whole connections, every kind of outgoing message
	nWire := c.N(6, 40)
	type wireRes struct {
		frames []wireFrame
		kinds  map[string]int
		err    error
	}
	wres := make([]wireRes, nWire)
	wcfg := make([][3]int, nWire)
	wseed := make([]uint64, nWire)
	var wwg sync.WaitGroup
	sem := make(chan struct{}, 6)
	for i := 0; i < nWire; i++ {
		wcfg[i] = [3]int{r.Range(1, 4), r.Range(2, 6), hc.Pick(r, -1, 64)} // compression off / on (all three branches of newEncryptedMessage)
		wseed[i] = r.U64()
		wwg.Add(1)
		go func(i int) {
			defer wwg.Done()
			sem <- struct{}{}
			defer func() { <-sem }()
			f, k, err := runWire(wseed[i], wcfg[i][0], wcfg[i][1], wcfg[i][2])
			wres[i] = wireRes{f, k, err}
		}(i)
	}
	wwg.Wait()
	for i, wr := range wres {
		if wr.err != nil {
			return wr.err
		}
		in := fmt.Sprintf("wire seed=%d invoke-workers=%d invokes-each=%d compress-threshold=%d", wseed[i], wcfg[i][0], wcfg[i][1], wcfg[i][2])
		var os []obs
		var fl, sq []string
		for _, w := range wr.frames {
			content := w.typeID == mt.RPCDropAnswerRequestTypeID
			os = append(os, obs{w.msgID, w.seqNo, content})
			fl = append(fl, b01(content))
			sq = append(sq, strconv.Itoa(int(w.seqNo)))
		}
		for k, v := range wr.kinds {
			for j := 0; j < v; j++ {
				c.Count("wire." + k)
			}
		}
		if wr.kinds["DIFFERENT-MESSAGES-SAME-ID"] > 0 {
			c.Fail("wire-id-reused", in, "two different messages were written with the same msg_id")
		}
		if got, want := wr.kinds["content(rpc)"], wcfg[i][0]*wcfg[i][1]; got != want {
			c.Fail("wire-content-count", in, fmt.Sprintf("%d content messages written, %d Invoke calls", got, want))
		}
		detail := in + " :: " + holdsLine(os)
		checkSeqRule(c, detail, os)
		c.Eval(in, len(os) >= 4)
		holdsLines = append(holdsLines, holdsLine(os))
		if len(fl) > 0 {
			add("seq "+strings.Join(fl, " "), strings.Join(sq, " "))
		}
	}

	outs, err := c.Drv.Batch(lines)
	if err != nil {
		return err
	}
	for i, o := range outs {
		if c.Compare(lines[i], impls[i], o) {
			c.Res.TracesValidated++
		}
	}
	// the statement itself, as the decidable Lean function `holds` (theorem conn_holds), evaluated
	// on what the implementation produced
	hs, err := c.Drv.Batch(holdsLines)
	if err != nil {
		return err
	}
	for i, o := range hs {
		c.Count("holds.evaluated-on-implementation")
		if o != "true" {
			c.Fail("holds-false", holdsLines[i], "TdModel.C08.holds is "+o+" on the (id, seq_no, content) triples returned by nextMsgSeq")
		}
	}
	c.Res.Rule = "clock scripts (frozen, +1..4 ns, +0..13 ns, backward jumps, coarse ticks, second roll-over, pre-1970, mixed; 1..1000 calls; 25% with mixed message types) through MessageIDGen.New, ids compared one by one; non-trivial = some consecutive readings less than 4 ns apart or going backwards. Single NewMessageIDNano / MessageID.Time / Type values; nextMsgSeq sequences (non-trivial = at least 2 calls) and 1..8 concurrent callers (non-trivial = at least 2 workers) replayed in id order; hammer runs (8 callers × 1500..3000 calls, half service-only); whole connections through the public New/Run over an in-memory transport with pings, acks, get_future_salts, http_wait and concurrent Invoke calls, every written frame decrypted and the messages checked in msg_id order; distinct = distinct input line"
	c.PartialNote("interleavings of concurrent nextMsgSeq callers are those the Go scheduler produced (not enumerated); the model treats nextMsgSeq as one atomic step, justified by the regenerated lock-scope facts")
	c.PartialNote("the wire part observes written frames: a service message whose id was generated but which was never written (write cancelled at shutdown) is invisible and does not affect the rule; content messages are always written because Invoke waits for its result")
	c.PartialNote("ids are compared while the generator's time is before 2038-01-19 (int64 ids non-negative); later times are outside the model's range hypothesis")
	return nil
}

func typeDiscr(t proto.MessageType) int {
	switch t {
	case proto.MessageFromClient:
		return 0
	case proto.MessageServerResponse:
		return 1
	case proto.MessageFromServer:
		return 3
	}
	return 2
}
