// C40 — RPC error parsing and flood wait: correspondence of tgerr.New / AsFloodWait / FloodWait
// with the Lean model TdModel.C40, plus the property monitor on the implementation
// (type = message without the numeric part, argument = the number, wait = (arg+1) s).
package main

import (
	"context"
	"errors"
	"fmt"
	"go/ast"
	"go/token"
	"runtime"
	"strconv"
	"strings"
	"sync"
	"time"

	"github.com/gotd/neo"

	"github.com/gotd/td/clock"
	"github.com/gotd/td/tgerr"

	"verif/harness/hc"
)

func main() {
	hc.Main(hc.Spec{Prop: "C40", Facts: facts, Run: run})
}

// ---- facts ----------------------------------------------------------------------------------

var timeUnits = map[string]int64{"Nanosecond": 1, "Microsecond": 1e3, "Millisecond": 1e6, "Second": 1e9, "Minute": 60e9, "Hour": 3600e9}

// evalDur evaluates INT, time.Unit and products of them.
func evalDur(x ast.Expr) (int64, bool) {
	switch x := x.(type) {
	case *ast.BasicLit:
		if x.Kind == token.INT {
			v, err := strconv.ParseInt(x.Value, 0, 64)
			return v, err == nil
		}
	case *ast.ParenExpr:
		return evalDur(x.X)
	case *ast.SelectorExpr:
		if id, ok := x.X.(*ast.Ident); ok && id.Name == "time" {
			v, ok := timeUnits[x.Sel.Name]
			return v, ok
		}
	case *ast.BinaryExpr:
		if x.Op == token.MUL {
			a, ok1 := evalDur(x.X)
			b, ok2 := evalDur(x.Y)
			return a * b, ok1 && ok2
		}
	}
	return 0, false
}

func byteList(s string) string {
	xs := make([]string, len(s))
	for i := 0; i < len(s); i++ {
		xs[i] = strconv.Itoa(int(s[i]))
	}
	return "[" + strings.Join(xs, ", ") + "]"
}

// strConsts collects the package-level string constants of a package directory.
func strConsts(f *hc.Facts, dir string) map[string]string {
	out := map[string]string{}
	seen := map[*ast.File]bool{}
	for _, af := range f.Files(dir) {
		if seen[af] {
			continue
		}
		seen[af] = true
		for _, d := range af.Decls {
			gd, ok := d.(*ast.GenDecl)
			if !ok || gd.Tok != token.CONST {
				continue
			}
			for _, sp := range gd.Specs {
				vs := sp.(*ast.ValueSpec)
				for i, n := range vs.Names {
					if i < len(vs.Values) {
						if bl, ok := vs.Values[i].(*ast.BasicLit); ok && bl.Kind == token.STRING {
							if s, err := strconv.Unquote(bl.Value); err == nil {
								out[n.Name] = s
							}
						}
					}
				}
			}
		}
	}
	return out
}

func facts(f *hc.Facts) {
	// separators of Split / Join and the `len(parts) < 2` guard in extractArgument
	fd := f.FuncDecl("tgerr", "Error.extractArgument")
	var splitSep, joinSep, minParts string
	if fd != nil {
		ast.Inspect(fd.Body, func(n ast.Node) bool {
			switch x := n.(type) {
			case *ast.CallExpr:
				if se, ok := x.Fun.(*ast.SelectorExpr); ok && len(x.Args) == 2 {
					if id, ok := se.X.(*ast.Ident); ok && id.Name == "strings" {
						if bl, ok := x.Args[1].(*ast.BasicLit); ok && bl.Kind == token.STRING {
							s, _ := strconv.Unquote(bl.Value)
							switch se.Sel.Name {
							case "Split":
								splitSep = s
							case "Join":
								joinSep = s
							}
						}
					}
				}
			case *ast.BinaryExpr:
				if x.Op == token.LSS {
					if c, ok := x.X.(*ast.CallExpr); ok {
						if id, ok := c.Fun.(*ast.Ident); ok && id.Name == "len" && len(c.Args) == 1 && f.Src(c.Args[0]) == "parts" {
							if bl, ok := x.Y.(*ast.BasicLit); ok {
								minParts = bl.Value
							}
						}
					}
				}
			}
			return true
		})
	}
	if len(splitSep) == 1 && splitSep == joinSep {
		f.Raw(fmt.Sprintf("def sepByte : UInt8 := %d -- strings.Split(e.Message, %q) and strings.Join(nonDigit, %q) in tgerr.extractArgument", splitSep[0], splitSep, joinSep))
	} else {
		f.Missing("sepByte", fmt.Sprintf("Split separator %q / Join separator %q are not one and the same byte", splitSep, joinSep))
	}
	if minParts != "" {
		f.Raw(fmt.Sprintf("def minParts : Nat := %s -- `len(parts) < %s` in tgerr.extractArgument", minParts, minParts))
	} else {
		f.Missing("minParts", "`len(parts) < N` not found in extractArgument")
	}
	f.TranslateFuncs("ascii", "isDigit", "IsDigit")

	// flood wait: constants, the list, the unit and the margin
	cs := strConsts(f, "tgerr")
	for _, p := range [][2]string{{"errFloodWait", "ErrFloodWait"}, {"errPremiumFloodWait", "ErrPremiumFloodWait"}} {
		if v, ok := cs[p[1]]; ok {
			f.Raw(fmt.Sprintf("def %s : List UInt8 := %s -- tgerr.%s = %q", p[0], byteList(v), p[1], v))
		} else {
			f.Missing(p[0], "tgerr."+p[1]+" not found")
		}
	}
	var list []string
	okList := false
	for _, af := range f.Files("tgerr") {
		for _, d := range af.Decls {
			gd, ok := d.(*ast.GenDecl)
			if !ok || gd.Tok != token.VAR {
				continue
			}
			for _, sp := range gd.Specs {
				vs := sp.(*ast.ValueSpec)
				if len(vs.Names) == 1 && vs.Names[0].Name == "FloodWaitErrors" && len(vs.Values) == 1 {
					if cl, ok := vs.Values[0].(*ast.CompositeLit); ok {
						okList = true
						for _, e := range cl.Elts {
							id, ok := e.(*ast.Ident)
							v, ok2 := cs[fmt.Sprint(id)]
							if !ok || !ok2 {
								okList = false
								break
							}
							list = append(list, byteList(v))
						}
					}
				}
			}
		}
	}
	if okList {
		f.Raw("def floodWaitErrors : List (List UInt8) := [" + strings.Join(list, ", ") + "] -- tgerr.FloodWaitErrors")
	} else {
		f.Missing("floodWaitErrors", "tgerr.FloodWaitErrors is not a literal list of string constants")
	}
	// AsFloodWait: return time.Second * time.Duration(rpcErr.Argument), true
	unit := int64(0)
	if fd := f.FuncDecl("tgerr", "AsFloodWait"); fd != nil {
		ast.Inspect(fd.Body, func(n ast.Node) bool {
			if be, ok := n.(*ast.BinaryExpr); ok && be.Op == token.MUL {
				if strings.Contains(f.Src(be.Y), "rpcErr.Argument") {
					if v, ok := evalDur(be.X); ok {
						unit = v
					}
				} else if strings.Contains(f.Src(be.X), "rpcErr.Argument") {
					if v, ok := evalDur(be.Y); ok {
						unit = v
					}
				}
			}
			return true
		})
	}
	if unit != 0 {
		f.Raw(fmt.Sprintf("def secondNs : Nat := %d -- factor of rpcErr.Argument in tgerr.AsFloodWait (nanoseconds)", unit))
	} else {
		f.Missing("secondNs", "`<unit> * time.Duration(rpcErr.Argument)` not found in AsFloodWait")
	}
	// FloodWait: opt.clock.Timer(d + 1*time.Second)
	margin := int64(-1)
	if fd := f.FuncDecl("tgerr", "FloodWait"); fd != nil {
		ast.Inspect(fd.Body, func(n ast.Node) bool {
			if ce, ok := n.(*ast.CallExpr); ok && len(ce.Args) == 1 {
				if se, ok := ce.Fun.(*ast.SelectorExpr); ok && se.Sel.Name == "Timer" {
					if be, ok := ce.Args[0].(*ast.BinaryExpr); ok && be.Op == token.ADD && f.Src(be.X) == "d" {
						if v, ok := evalDur(be.Y); ok {
							margin = v
						}
					}
				}
			}
			return true
		})
	}
	if margin >= 0 {
		f.Raw(fmt.Sprintf("def marginNs : Nat := %d -- `clock.Timer(d + margin)` in tgerr.FloodWait (nanoseconds)", margin))
	} else {
		f.Missing("marginNs", "`Timer(d + <const>)` not found in FloodWait")
	}
}

// ---- implementation adapters ------------------------------------------------------------

func newSafe(msg string) (e *tgerr.Error, pan any) {
	defer func() {
		if r := recover(); r != nil {
			pan = r
		}
	}()
	return tgerr.New(420, msg), nil
}

// recClock records the duration handed to Timer and fires it at once.
type recClock struct {
	mu sync.Mutex
	d  []time.Duration
	t  *neo.Time
}

func (c *recClock) Now() time.Time { return c.t.Now() }
func (c *recClock) Timer(d time.Duration) clock.Timer {
	c.mu.Lock()
	c.d = append(c.d, d)
	c.mu.Unlock()
	return c.t.Timer(0)
}
func (c *recClock) Ticker(d time.Duration) clock.Ticker { return c.t.Ticker(d) }

var epoch = time.Date(2024, 1, 1, 0, 0, 0, 0, time.UTC)

// floodTimer returns "none" or the nanoseconds FloodWait asks the clock to wait.
func floodTimer(e error) string {
	rc := &recClock{t: neo.NewTime(epoch)}
	done := make(chan struct{})
	var ok bool
	var err error
	go func() {
		defer close(done)
		ok, err = tgerr.FloodWait(context.Background(), e, tgerr.FloodWaitWithClock(rc))
	}()
	for i := 0; ; i++ {
		select {
		case <-done:
			if len(rc.d) == 0 {
				if ok || err != e {
					return "bad-result"
				}
				return "none"
			}
			if !ok || err != e {
				return "bad-result"
			}
			return strconv.FormatInt(int64(rc.d[0]), 10)
		default:
		}
		// a zero timer of neo fires on the next Travel
		rc.t.Travel(time.Nanosecond)
		runtime.Gosched()
		if i > 1_000_000 {
			return "stuck"
		}
	}
}

// travelCheck runs FloodWait on a neo clock: it must still be waiting after (arg+1)s − 1ns and
// must have returned true after 1 more ns.
func travelCheck(e error, want time.Duration) string {
	c := neo.NewTime(epoch)
	done := make(chan bool, 1)
	obs := c.Observe()
	go func() {
		ok, _ := tgerr.FloodWait(context.Background(), e, tgerr.FloodWaitWithClock(c))
		done <- ok
	}()
	select {
	case <-obs:
	case ok := <-done:
		return fmt.Sprintf("returned %v without creating a timer", ok)
	case <-time.After(5 * time.Second):
		return "no timer created"
	}
	c.Travel(want - time.Nanosecond)
	for i := 0; i < 20; i++ {
		runtime.Gosched()
	}
	select {
	case <-done:
		return "returned before the wait was over"
	default:
	}
	c.Travel(time.Nanosecond)
	select {
	case ok := <-done:
		if !ok {
			return "returned false"
		}
		return ""
	case <-time.After(5 * time.Second):
		return "still waiting after the full duration"
	}
}

// ---- generators ---------------------------------------------------------------------------

var vocab = []string{"FLOOD", "WAIT", "PREMIUM", "FILE", "MIGRATE", "PHONE", "NETWORK", "USER", "STATS", "SLOWMODE", "TAKEOUT",
	"INIT", "DELAY", "2FA", "CONFIRM", "EMAIL", "UNCONFIRMED", "PASSWORD", "TOO", "FRESH", "SESSION", "X", "A1", "1A", "B2B", "MD5",
	"CHECKSUM", "INVALID", "INTERDC", "CALL", "ERROR", "RICH", "FILEREF", "UPGRADE", "NEEDED"}

func genWord(r *hc.RNG) string {
	if r.Chance(70) {
		return hc.Pick(r, vocab...)
	}
	n := r.Range(1, 8)
	b := make([]byte, n)
	hasLetter := false
	for i := range b {
		if r.Chance(25) {
			b[i] = byte('0' + r.Intn(10))
		} else {
			b[i] = byte('A' + r.Intn(26))
			hasLetter = true
		}
	}
	if !hasLetter {
		b[r.Intn(n)] = byte('A' + r.Intn(26))
	}
	return string(b)
}

func genNumber(r *hc.RNG) (digits string, val uint64) {
	switch r.Intn(6) {
	case 0:
		val = uint64(r.Intn(10))
	case 1:
		val = uint64(r.Intn(100000))
	case 2:
		val = hc.Pick[uint64](r, 0, 1, 9, 10, 99, 100, 3600, 86400, 1<<31-1, 1<<31, 1<<32, 9223372035, 9223372036, 1<<63-1, 999999999999999999, 1000000000000000000)
	case 3:
		val = r.U64() >> 1
	default:
		val = r.U64() >> uint(r.Range(1, 63))
	}
	digits = strconv.FormatUint(val, 10)
	if r.Chance(15) {
		digits = strings.Repeat("0", r.Range(1, 22)) + digits
	}
	return
}


func run(c *hc.Ctx) error {
	r := c.Rng
	bt := c.NewBatcher()
	add := bt.Add
	parsed := func(e *tgerr.Error) string { return hc.Hex([]byte(e.Type)) + " " + strconv.Itoa(e.Argument) }

	// ---- 1. the specification's messages: words + one numeric argument at any position
	n := c.N(100000, 1000000)
	for i := 0; i < n; i++ {
		cnt := hc.Pick(r, 1, 1, 2, 2, 2, 3, 3, 4, 5, r.Range(1, 8))
		words := make([]string, cnt)
		for j := range words {
			words[j] = genWord(r)
		}
		flood := ""
		if r.Chance(25) {
			flood = hc.Pick(r, tgerr.ErrFloodWait, tgerr.ErrPremiumFloodWait)
			words = strings.Split(flood, "_")
			cnt = len(words)
		}
		digits, val := genNumber(r)
		k := r.Intn(cnt + 1)
		if flood != "" && r.Chance(70) {
			k = cnt
		}
		parts := append(append(append([]string{}, words[:k]...), digits), words[k:]...)
		msg := strings.Join(parts, "_")
		wantType := strings.Join(words, "_")
		hexWords := make([]string, cnt)
		for j, w := range words {
			hexWords[j] = hc.Hex([]byte(w))
		}
		line := "parse " + hc.Hex([]byte(msg))
		c.Eval(line, true)
		c.Count(fmt.Sprintf("spec.words=%d", min(cnt, 6)))
		c.Count(fmt.Sprintf("spec.pos=%s", map[bool]string{true: "last", false: map[bool]string{true: "first", false: "middle"}[k == 0]}[k == cnt]))
		e, pan := newSafe(msg)
		if pan != nil {
			c.Fail("panic", line, fmt.Sprint(pan))
			continue
		}
		if e.Type != wantType || uint64(e.Argument) != val || e.Message != msg || e.Code != 420 {
			c.Fail("parse-spec", "msg "+msg, fmt.Sprintf("Type=%q Argument=%d, want Type=%q Argument=%d", e.Type, e.Argument, wantType, val))
		}
		add(line, parsed(e))
		// the theorem's left-hand side is built by the model from (k, digits, words)
		add("build "+strconv.Itoa(k)+" "+hc.Hex([]byte(digits))+" "+strings.Join(hexWords, ","), hc.Hex([]byte(msg)))
		if i%8 == 0 {
			add("itoa "+strconv.FormatUint(val, 10), hc.Hex([]byte(strconv.Itoa(int(val)))))
		}
		// flood wait: both kinds wait (arg+1) seconds; everything else does not wait
		isFlood := wantType == tgerr.ErrFloodWait || wantType == tgerr.ErrPremiumFloodWait
		if isFlood || i%16 == 0 {
			got := floodTimer(e)
			c.Count("flood." + map[bool]string{true: "flood", false: "other"}[isFlood])
			fl := "flood " + hc.Hex([]byte(msg))
			c.Eval(fl, isFlood)
			if isFlood {
				d, ok := tgerr.AsFloodWait(fmt.Errorf("wrapped: %w", e))
				if !ok || (val <= 9223372035 && d != time.Duration(val)*time.Second) {
					c.Fail("flood-duration", "msg "+msg, fmt.Sprintf("AsFloodWait = %d ns, %v", int64(d), ok))
				}
				if val <= 9223372035 { // (val+1) s is representable as a time.Duration
					want := strconv.FormatInt(int64(val+1)*int64(time.Second), 10)
					if got != want {
						c.Fail("flood-timer", "msg "+msg, "FloodWait asked the clock for "+got+" ns, want "+want)
					}
				} else {
					c.Count("flood.unrepresentable")
				}
			} else if got != "none" {
				c.Fail("flood-not-flood", "msg "+msg, "FloodWait waited "+got+" ns on a non-flood error")
			}
			add(fl, got)
		}
	}

	// ---- 2. FloodWait against a travelling fake clock, and cancellation
	t := c.N(500, 5000)
	for i := 0; i < t; i++ {
		arg := hc.Pick(r, 0, 1, 2, 3, 59, 60, 3600, 86400, r.Intn(100000))
		typ := hc.Pick(r, tgerr.ErrFloodWait, tgerr.ErrPremiumFloodWait)
		msg := typ + "_" + strconv.Itoa(arg)
		e := tgerr.New(420, msg)
		c.Eval("travel "+msg, true)
		c.Count("travel")
		if why := travelCheck(e, time.Duration(arg+1)*time.Second); why != "" {
			c.Fail("flood-travel", "msg "+msg, why)
		}
		ctx, cancel := context.WithCancel(context.Background())
		cancel()
		ok, err := tgerr.FloodWait(ctx, e, tgerr.FloodWaitWithClock(neo.NewTime(epoch)))
		if ok || !errors.Is(err, context.Canceled) {
			c.Fail("flood-cancel", "msg "+msg, fmt.Sprintf("cancelled context: ok=%v err=%v", ok, err))
		}
	}

	// ---- 3. other shapes: no argument, several numbers, empty parts, overflow, arbitrary strings
	m := c.N(100000, 1000000)
	for i := 0; i < m; i++ {
		var msg string
		switch r.Intn(8) {
		case 0: // words only
			cnt := r.Range(1, 5)
			ws := make([]string, cnt)
			for j := range ws {
				ws[j] = genWord(r)
			}
			msg = strings.Join(ws, "_")
			c.Count("other.words-only")
		case 1: // several numeric parts
			cnt := r.Range(2, 6)
			ws := make([]string, cnt)
			for j := range ws {
				if r.Bool() {
					ws[j], _ = genNumber(r)
				} else {
					ws[j] = genWord(r)
				}
			}
			msg = strings.Join(ws, "_")
			c.Count("other.multi-number")
		case 2: // empty parts: leading / trailing / doubled separators
			cnt := r.Range(1, 5)
			ws := make([]string, cnt)
			for j := range ws {
				switch r.Intn(3) {
				case 0:
					ws[j] = ""
				case 1:
					ws[j], _ = genNumber(r)
				default:
					ws[j] = genWord(r)
				}
			}
			msg = strings.Join(ws, "_")
			c.Count("other.empty-parts")
		case 3: // numbers that do not fit an int
			d := hc.Pick(r, "9223372036854775807", "9223372036854775808", "18446744073709551615", "18446744073709551616",
				"99999999999999999999999999", "0000000000000000000000000000000000000007", strings.Repeat("9", r.Range(17, 40)))
			msg = hc.Pick(r, "FLOOD_WAIT_"+d, d+"_X", "A_"+d+"_B", "A_5_"+d, d)
			c.Count("other.overflow")
		case 4: // arbitrary bytes
			msg = string(r.Bytes(r.Range(0, 24)))
			c.Count("other.random-bytes")
		case 5: // arbitrary over a small alphabet
			al := "A_1_9B0_ é٣"
			nn := r.Range(0, 16)
			var sb strings.Builder
			for j := 0; j < nn; j++ {
				sb.WriteByte(al[r.Intn(len(al))])
			}
			msg = sb.String()
			c.Count("other.small-alphabet")
		case 6: // non-ASCII digits and lower case
			msg = hc.Pick(r, "FLOOD_WAIT_٣", "flood_wait_3", "FLOOD_WAIT_３", "FLOOD_WAIT_-3", "FLOOD_WAIT_+3", "FLOOD_WAIT_3.5", "FLOOD_WAIT_0x10",
				"FLOOD_WAIT_1_000", "", "_", "__", "5", "_5", "5_", "FLOOD_WAIT", "FLOOD_PREMIUM_WAIT", "FLOOD_WAIT_", "FLOOD__WAIT_3")
			c.Count("other.curated")
		default:
			msg = genWord(r)
			c.Count("other.single-word")
		}
		line := "parse " + hc.Hex([]byte(msg))
		c.Eval(line, msg != "")
		e, pan := newSafe(msg)
		if pan != nil {
			c.Fail("panic", line, fmt.Sprint(pan))
			continue
		}
		add(line, parsed(e))
		if i%8 == 0 {
			add("flood "+hc.Hex([]byte(msg)), floodTimer(e))
		}
	}

	c.Res.Rule = "specification messages = 1..8 upper-case words (vocabulary of real error words incl. words with digits such as 2FA, MD5, B2B; or random letter/digit words containing a letter) joined by '_' with one decimal number (0..2^63−1, boundaries of int32/int64/Duration, 15% with leading zeros) inserted at a random position (all non-trivial); 25% are the two flood-wait types; other shapes: no number, several numbers, empty parts, numbers beyond int64, random bytes, non-ASCII digits (non-trivial unless empty). FloodWait is run with a recording clock (exact duration) and with a travelling neo clock (not before (arg+1)s−1ns, done at (arg+1)s) and a cancelled context. distinct = distinct request line"

	c.PartialNote("FloodWait's select between timer and ctx.Done is modelled as an input (which is ready first); real-time behaviour of clock.System is not exercised")
	return bt.Done()
}
