// C40 — RPC error parsing and flood wait: correspondence of tgerr.New / AsFloodWait / FloodWait
// with the Lean model TdModel.C40, plus the property monitor on the implementation
// (type = message without the numeric part, argument = the number, wait = (arg+1) s).
package main

import (
	"context"
	"errors"
	"fmt"
	"go/ast"
	"go/token"
	"runtime"
	"strconv"
	"strings"
	"sync"
	"time"

	gferrors "github.com/go-faster/errors"
	"github.com/gotd/neo"

	"github.com/gotd/td/clock"
	"github.com/gotd/td/tgerr"

	"verif/harness/hc"
)

func main() {
	hc.Main(hc.Spec{Prop: "C40", Facts: facts, Run: run})
}

// ---- facts ----------------------------------------------------------------------------------

var timeUnits = map[string]int64{"Nanosecond": 1, "Microsecond": 1e3, "Millisecond": 1e6, "Second": 1e9, "Minute": 60e9, "Hour": 3600e9}

// evalDur evaluates INT, time.Unit and products of them.
func evalDur(x ast.Expr) (int64, bool) {
	switch x := x.(type) {
	case *ast.BasicLit:
		if x.Kind == token.INT {
			v, err := strconv.ParseInt(x.Value, 0, 64)
			return v, err == nil
		}
	case *ast.ParenExpr:
		return evalDur(x.X)
	case *ast.SelectorExpr:
		if id, ok := x.X.(*ast.Ident); ok && id.Name == "time" {
			v, ok := timeUnits[x.Sel.Name]
			return v, ok
		}
	case *ast.BinaryExpr:
		if x.Op == token.MUL {
			a, ok1 := evalDur(x.X)
			b, ok2 := evalDur(x.Y)
			return a * b, ok1 && ok2
		}
	}
	return 0, false
}

func byteList(s string) string {
	xs := make([]string, len(s))
	for i := 0; i < len(s); i++ {
		xs[i] = strconv.Itoa(int(s[i]))
	}
	return "[" + strings.Join(xs, ", ") + "]"
}

// strConsts collects the package-level string constants of a package directory.
func strConsts(f *hc.Facts, dir string) map[string]string {
	out := map[string]string{}
	seen := map[*ast.File]bool{}
	for _, af := range f.C20Files(dir) {
		if seen[af] {
			continue
		}
		seen[af] = true
		for _, d := range af.Decls {
			gd, ok := d.(*ast.GenDecl)
			if !ok || gd.Tok != token.CONST {
				continue
			}
			for _, sp := range gd.Specs {
				vs := sp.(*ast.ValueSpec)
				for i, n := range vs.Names {
					if i < len(vs.Values) {
						if bl, ok := vs.Values[i].(*ast.BasicLit); ok && bl.Kind == token.STRING {
							if s, err := strconv.Unquote(bl.Value); err == nil {
								out[n.Name] = s
							}
						}
					}
				}
			}
		}
	}
	return out
}

func facts(f *hc.Facts) {
	// separators of Split / Join and the `len(parts) < 2` guard in extractArgument
	fd := f.FuncDecl("tgerr", "Error.extractArgument")
	var splitSep, joinSep, minParts string
	if fd != nil {
		ast.Inspect(fd.Body, func(n ast.Node) bool {
			switch x := n.(type) {
			case *ast.CallExpr:
				if se, ok := x.Fun.(*ast.SelectorExpr); ok && len(x.Args) == 2 {
					if id, ok := se.X.(*ast.Ident); ok && id.Name == "strings" {
						if bl, ok := x.Args[1].(*ast.BasicLit); ok && bl.Kind == token.STRING {
							s, _ := strconv.Unquote(bl.Value)
							switch se.Sel.Name {
							case "Split":
								splitSep = s
							case "Join":
								joinSep = s
							}
						}
					}
				}
			case *ast.BinaryExpr:
				if x.Op == token.LSS {
					if c, ok := x.X.(*ast.CallExpr); ok {
						if id, ok := c.Fun.(*ast.Ident); ok && id.Name == "len" && len(c.Args) == 1 && f.Src(c.Args[0]) == "parts" {
							if bl, ok := x.Y.(*ast.BasicLit); ok {
								minParts = bl.Value
							}
						}
					}
				}
			}
			return true
		})
	}
	if len(splitSep) == 1 && splitSep == joinSep {
		f.Raw(fmt.Sprintf("def sepByte : UInt8 := %d -- strings.Split(e.Message, %q) and strings.Join(nonDigit, %q) in tgerr.extractArgument", splitSep[0], splitSep, joinSep))
	} else {
		f.Missing("sepByte", fmt.Sprintf("Split separator %q / Join separator %q are not one and the same byte", splitSep, joinSep))
	}
	_ = minParts
	// `len(parts) < 2`: the guard itself, translated (a0 = len(parts))
	var fewParts ast.Expr
	if fd != nil {
		for _, c := range hc.C20IfConds(fd.Body) {
			if strings.Contains(f.Src(c), "len(") && fewParts == nil {
				fewParts = c
			}
		}
	}
	f.C20TranslateExpr("tooFewParts", "tgerr", fewParts, hc.C20ExprOpt{})
	f.TranslateFuncs("ascii", "isDigit", "IsDigit")

	// flood wait: constants, the list, the unit and the margin
	cs := strConsts(f, "tgerr")
	for _, p := range [][2]string{{"errFloodWait", "ErrFloodWait"}, {"errPremiumFloodWait", "ErrPremiumFloodWait"}} {
		if v, ok := cs[p[1]]; ok {
			f.Raw(fmt.Sprintf("def %s : List UInt8 := %s -- tgerr.%s = %q", p[0], byteList(v), p[1], v))
		} else {
			f.Missing(p[0], "tgerr."+p[1]+" not found")
		}
	}
	var list []string
	okList := false
	for _, af := range f.C20Files("tgerr") {
		for _, d := range af.Decls {
			gd, ok := d.(*ast.GenDecl)
			if !ok || gd.Tok != token.VAR {
				continue
			}
			for _, sp := range gd.Specs {
				vs := sp.(*ast.ValueSpec)
				if len(vs.Names) == 1 && vs.Names[0].Name == "FloodWaitErrors" && len(vs.Values) == 1 {
					if cl, ok := vs.Values[0].(*ast.CompositeLit); ok {
						okList = true
						for _, e := range cl.Elts {
							id, ok := e.(*ast.Ident)
							v, ok2 := cs[fmt.Sprint(id)]
							if !ok || !ok2 {
								okList = false
								break
							}
							list = append(list, byteList(v))
						}
					}
				}
			}
		}
	}
	if okList {
		f.Raw("def floodWaitErrors : List (List UInt8) := [" + strings.Join(list, ", ") + "] -- tgerr.FloodWaitErrors")
	} else {
		f.Missing("floodWaitErrors", "tgerr.FloodWaitErrors is not a literal list of string constants")
	}
	// AsFloodWait: `return <duration expr>, true` — the duration as a function of rpcErr.Argument
	var durExpr ast.Expr
	if fd := f.FuncDecl("tgerr", "AsFloodWait"); fd != nil {
		ast.Inspect(fd.Body, func(n ast.Node) bool {
			if rs, ok := n.(*ast.ReturnStmt); ok && len(rs.Results) == 2 && f.Src(rs.Results[1]) == "true" && durExpr == nil {
				durExpr = rs.Results[0]
			}
			return true
		})
	}
	f.C20TranslateExpr("floodDuration", "tgerr", durExpr, hc.C20ExprOpt{})
	// FloodWait: the argument of clock.Timer(...) as a function of d
	var timerArg ast.Expr
	if fd := f.FuncDecl("tgerr", "FloodWait"); fd != nil {
		ast.Inspect(fd.Body, func(n ast.Node) bool {
			if ce, ok := n.(*ast.CallExpr); ok && len(ce.Args) == 1 && timerArg == nil {
				if se, ok := ce.Fun.(*ast.SelectorExpr); ok && se.Sel.Name == "Timer" {
					timerArg = ce.Args[0]
				}
			}
			return true
		})
	}
	f.C20TranslateExpr("floodTimerArg", "tgerr", timerArg, hc.C20ExprOpt{})
}

// ---- implementation adapters ------------------------------------------------------------

func newSafe(msg string) (e *tgerr.Error, pan any) {
	defer func() {
		if r := recover(); r != nil {
			pan = r
		}
	}()
	return tgerr.New(420, msg), nil
}

// recClock records the duration handed to Timer and fires it at once.
type recClock struct {
	mu sync.Mutex
	d  []time.Duration
	t  *neo.Time
}

func (c *recClock) Now() time.Time { return c.t.Now() }
func (c *recClock) Timer(d time.Duration) clock.Timer {
	c.mu.Lock()
	c.d = append(c.d, d)
	c.mu.Unlock()
	return c.t.Timer(0)
}
func (c *recClock) Ticker(d time.Duration) clock.Ticker { return c.t.Ticker(d) }

var epoch = time.Date(2024, 1, 1, 0, 0, 0, 0, time.UTC)

// patience bounds the waits that only end this way when the implementation is broken (a goroutine that
// never returns); it is generous because the machine may be heavily loaded.
const patience = 3 * time.Minute

// firedClock hands out timers that have already fired (both `select` cases can be ready at once).
type firedClock struct{ fired bool }

type fixedTimer struct{ ch chan time.Time }

func (t fixedTimer) C() <-chan time.Time   { return t.ch }
func (t fixedTimer) Stop() bool            { return true }
func (t fixedTimer) Reset(d time.Duration) {}

func (c firedClock) Now() time.Time { return epoch }
func (c firedClock) Timer(d time.Duration) clock.Timer {
	ch := make(chan time.Time, 1)
	if c.fired {
		ch <- epoch
	}
	return fixedTimer{ch}
}
func (c firedClock) Ticker(d time.Duration) clock.Ticker { return neo.NewTime(epoch).Ticker(d) }

type plainErr struct{ s string }

func (p plainErr) Error() string { return p.s }

// chain wraps err in PRNG-chosen layers that errors.As must look through.
func chain(r *hc.RNG, err error) error {
	for i := r.Intn(4); i > 0; i-- {
		switch r.Intn(3) {
		case 0:
			err = fmt.Errorf("layer %d: %w", i, err)
		case 1:
			err = gferrors.Wrap(err, "wrapped")
		default:
			err = gferrors.Wrapf(err, "call %d", i)
		}
	}
	return err
}

// floodTimer returns "none" or the nanoseconds FloodWait asks the clock to wait.
func floodTimer(e error) string {
	rc := &recClock{t: neo.NewTime(epoch)}
	done := make(chan struct{})
	var ok bool
	var err error
	start := time.Now()
	go func() {
		defer close(done)
		ok, err = tgerr.FloodWait(context.Background(), e, tgerr.FloodWaitWithClock(rc))
	}()
	for i := 0; ; i++ {
		select {
		case <-done:
			if len(rc.d) == 0 {
				if ok || err != e {
					return "bad-result"
				}
				return "none"
			}
			if !ok || err != e {
				return "bad-result"
			}
			return strconv.FormatInt(int64(rc.d[0]), 10)
		default:
		}
		// a zero timer of neo fires on the next Travel
		rc.t.Travel(time.Nanosecond)
		runtime.Gosched()
		if i%1024 == 1023 && time.Since(start) > patience {
			return "stuck"
		}
	}
}

// travelCheck runs FloodWait on a neo clock: it must still be waiting after (arg+1)s − 1ns and
// must have returned true after 1 more ns.
func travelCheck(e error, want time.Duration) string {
	c := neo.NewTime(epoch)
	done := make(chan bool, 1)
	obs := c.Observe()
	go func() {
		ok, _ := tgerr.FloodWait(context.Background(), e, tgerr.FloodWaitWithClock(c))
		done <- ok
	}()
	select {
	case <-obs:
	case ok := <-done:
		return fmt.Sprintf("returned %v without creating a timer", ok)
	case <-time.After(patience):
		return "no timer created"
	}
	c.Travel(want - time.Nanosecond)
	for i := 0; i < 20; i++ {
		runtime.Gosched()
	}
	select {
	case <-done:
		return "returned before the wait was over"
	default:
	}
	c.Travel(time.Nanosecond)
	select {
	case ok := <-done:
		if !ok {
			return "returned false"
		}
		return ""
	case <-time.After(patience):
		return "still waiting after the full duration"
	}
}

// ---- generators ---------------------------------------------------------------------------

var vocab = []string{"FLOOD", "WAIT", "PREMIUM", "FILE", "MIGRATE", "PHONE", "NETWORK", "USER", "STATS", "SLOWMODE", "TAKEOUT",
	"INIT", "DELAY", "2FA", "CONFIRM", "EMAIL", "UNCONFIRMED", "PASSWORD", "TOO", "FRESH", "SESSION", "X", "A1", "1A", "B2B", "MD5",
	"CHECKSUM", "INVALID", "INTERDC", "CALL", "ERROR", "RICH", "FILEREF", "UPGRADE", "NEEDED"}

func genWord(r *hc.RNG) string {
	if r.Chance(70) {
		return hc.Pick(r, vocab...)
	}
	n := r.Range(1, 8)
	b := make([]byte, n)
	hasLetter := false
	for i := range b {
		if r.Chance(25) {
			b[i] = byte('0' + r.Intn(10))
		} else {
			b[i] = byte('A' + r.Intn(26))
			hasLetter = true
		}
	}
	if !hasLetter {
		b[r.Intn(n)] = byte('A' + r.Intn(26))
	}
	return string(b)
}

func genNumber(r *hc.RNG) (digits string, val uint64) {
	switch r.Intn(6) {
	case 0:
		val = uint64(r.Intn(10))
	case 1:
		val = uint64(r.Intn(100000))
	case 2:
		val = hc.Pick[uint64](r, 0, 1, 9, 10, 99, 100, 3600, 86400, 1<<31-1, 1<<31, 1<<32, 9223372035, 9223372036, 1<<63-1, 999999999999999999, 1000000000000000000)
	case 3:
		val = r.U64() >> 1
	default:
		val = r.U64() >> uint(r.Range(1, 63))
	}
	digits = strconv.FormatUint(val, 10)
	if r.Chance(15) {
		digits = strings.Repeat("0", r.Range(1, 22)) + digits
	}
	return
}


func run(c *hc.Ctx) error {
	r := c.Rng
	bt := c.NewC20Batcher()
	add := bt.Add
	parsed := func(e *tgerr.Error) string { return hc.Hex([]byte(e.Type)) + " " + strconv.Itoa(e.Argument) }

	// ---- 1. the specification's messages: words + one numeric argument at any position
	n := c.N(100000, 1000000)
	for i := 0; i < n; i++ {
		cnt := hc.Pick(r, 1, 1, 2, 2, 2, 3, 3, 4, 5, r.Range(1, 8))
		words := make([]string, cnt)
		for j := range words {
			words[j] = genWord(r)
		}
		flood := ""
		if r.Chance(25) {
			flood = hc.Pick(r, tgerr.ErrFloodWait, tgerr.ErrPremiumFloodWait)
			words = strings.Split(flood, "_")
			cnt = len(words)
		}
		digits, val := genNumber(r)
		k := r.Intn(cnt + 1)
		if flood != "" && r.Chance(70) {
			k = cnt
		}
		parts := append(append(append([]string{}, words[:k]...), digits), words[k:]...)
		msg := strings.Join(parts, "_")
		wantType := strings.Join(words, "_")
		hexWords := make([]string, cnt)
		for j, w := range words {
			hexWords[j] = hc.Hex([]byte(w))
		}
		line := "parse " + hc.Hex([]byte(msg))
		c.Eval(line, true)
		c.Count(fmt.Sprintf("spec.words=%d", min(cnt, 6)))
		c.Count(fmt.Sprintf("spec.pos=%s", map[bool]string{true: "last", false: map[bool]string{true: "first", false: "middle"}[k == 0]}[k == cnt]))
		e, pan := newSafe(msg)
		if pan != nil {
			c.Fail("panic", line, fmt.Sprint(pan))
			continue
		}
		if e.Type != wantType || uint64(e.Argument) != val || e.Message != msg || e.Code != 420 {
			c.Fail("parse-spec", "msg "+msg, fmt.Sprintf("Type=%q Argument=%d, want Type=%q Argument=%d", e.Type, e.Argument, wantType, val))
		}
		add(line, parsed(e))
		// the theorem's left-hand side is built by the model from (k, digits, words)
		add("build "+strconv.Itoa(k)+" "+hc.Hex([]byte(digits))+" "+strings.Join(hexWords, ","), hc.Hex([]byte(msg)))
		if i%8 == 0 {
			add("itoa "+strconv.FormatUint(val, 10), hc.Hex([]byte(strconv.Itoa(int(val)))))
		}
		// flood wait: both kinds wait (arg+1) seconds; everything else does not wait
		isFlood := wantType == tgerr.ErrFloodWait || wantType == tgerr.ErrPremiumFloodWait
		if isFlood || i%16 == 0 {
			got := floodTimer(e)
			c.Count("flood." + map[bool]string{true: "flood", false: "other"}[isFlood])
			fl := "flood " + hc.Hex([]byte(msg))
			c.Eval(fl, isFlood)
			if isFlood {
				d, ok := tgerr.AsFloodWait(fmt.Errorf("wrapped: %w", e))
				if !ok || (val <= 9223372035 && d != time.Duration(val)*time.Second) {
					c.Fail("flood-duration", "msg "+msg, fmt.Sprintf("AsFloodWait = %d ns, %v", int64(d), ok))
				}
				if val <= 9223372035 { // (val+1) s is representable as a time.Duration
					want := strconv.FormatInt(int64(val+1)*int64(time.Second), 10)
					if got != want {
						c.Fail("flood-timer", "msg "+msg, "FloodWait asked the clock for "+got+" ns, want "+want)
					}
				} else {
					c.Count("flood.unrepresentable")
				}
			} else if got != "none" {
				c.Fail("flood-not-flood", "msg "+msg, "FloodWait waited "+got+" ns on a non-flood error")
			}
			add(fl, got)
		}
	}

	var selLines, selGot []string
	// ---- 2. FloodWait against a travelling fake clock, and cancellation
	t := c.N(500, 5000)
	for i := 0; i < t; i++ {
		arg := hc.Pick(r, 0, 1, 2, 3, 59, 60, 3600, 86400, r.Intn(100000))
		typ := hc.Pick(r, tgerr.ErrFloodWait, tgerr.ErrPremiumFloodWait)
		msg := typ + "_" + strconv.Itoa(arg)
		e := tgerr.New(420, msg)
		c.Eval("travel "+msg, true)
		c.Count("travel")
		if why := travelCheck(e, time.Duration(arg+1)*time.Second); why != "" {
			c.Fail("flood-travel", "msg "+msg, why)
		}
		ctx, cancel := context.WithCancel(context.Background())
		cancel()
		ok, err := tgerr.FloodWait(ctx, e, tgerr.FloodWaitWithClock(neo.NewTime(epoch)))
		if ok || !errors.Is(err, context.Canceled) {
			c.Fail("flood-cancel", "msg "+msg, fmt.Sprintf("cancelled context: ok=%v err=%v", ok, err))
		}
	}

	// ---- 2b. both select cases ready / one ready: the result must be one the model allows
	sel := c.N(2000, 20000)
	for i := 0; i < sel; i++ {
		flood := r.Chance(80)
		msg := hc.Pick(r, tgerr.ErrFloodWait, tgerr.ErrPremiumFloodWait) + "_" + strconv.Itoa(r.Intn(100))
		if !flood {
			msg = hc.Pick(r, "FILE_MIGRATE_2", "FLOOD_WAITING_3", "X", "")
		}
		e := tgerr.New(420, msg)
		timerFired, ctxDone := r.Bool(), r.Bool()
		if flood && !timerFired && !ctxDone {
			ctxDone = true // would block for ever
		}
		ctx, cancel := context.WithCancel(context.Background())
		if ctxDone {
			cancel()
		}
		ok, err := tgerr.FloodWait(ctx, e, tgerr.FloodWaitWithClock(firedClock{fired: timerFired}))
		cancel()
		got := "other"
		switch {
		case ok && err == error(e):
			got = "waited"
		case !ok && errors.Is(err, context.Canceled):
			got = "cancelled"
		case !ok && err == error(e):
			got = "notflood"
		}
		bit := map[bool]string{true: "1", false: "0"}
		line := "outcomes " + hc.Hex([]byte(msg)) + " " + bit[timerFired] + " " + bit[ctxDone]
		c.Eval(line, true)
		c.Count("select." + got + "." + bit[timerFired] + bit[ctxDone])
		// the monitor: true only after the timer, ctx error only with a done context
		if (got == "waited" && !timerFired) || (got == "cancelled" && !ctxDone) || got == "other" || (flood && got == "notflood") || (!flood && got != "notflood") {
			c.Fail("flood-select", line, fmt.Sprintf("FloodWait returned (%v, %v)", ok, err))
		}
		selLines = append(selLines, line)
		selGot = append(selGot, got)
	}

	// ---- 2c. matching helpers over error chains
	mt := c.N(20000, 300000)
	for i := 0; i < mt; i++ {
		code := hc.Pick(r, 400, 420, 303, 500, -503, 0, r.Intn(1000))
		words := make([]string, r.Range(1, 3))
		for j := range words {
			words[j] = genWord(r)
		}
		msg := strings.Join(words, "_")
		if r.Chance(60) {
			d, _ := genNumber(r)
			msg += "_" + d
		}
		if r.Chance(20) {
			msg = hc.Pick(r, "FLOOD_WAIT_3", "FLOOD_PREMIUM_WAIT_7", "FLOOD_WAIT", "", "X", "A__1", "5")
		}
		var base *tgerr.Error
		var err error
		kind := r.Intn(6)
		switch kind {
		case 0:
			err = nil
		case 1:
			err = plainErr{"plain"}
		case 2:
			err = chain(r, plainErr{"inner plain"})
		default:
			base = tgerr.New(code, msg)
			err = chain(r, base)
		}
		c.Count(fmt.Sprintf("match.kind=%d", min(kind, 3)))
		t := hc.Pick(r, strings.Join(words, "_"), msg, "FLOOD_WAIT", genWord(r))
		var tt []string
		for j := r.Intn(4); j > 0; j-- {
			tt = append(tt, hc.Pick(r, strings.Join(words, "_"), msg, "FLOOD_WAIT", "FLOOD_PREMIUM_WAIT", genWord(r)))
		}
		var codes []int
		for j := r.Intn(4); j > 0; j-- {
			codes = append(codes, hc.Pick(r, code, 400, 420, r.Intn(1000)))
		}
		var is, isCode, asType, as bool
		str := "-"
		pan := func() (p any) {
			defer func() { p = recover() }()
			is = tgerr.Is(err, tt...)
			isCode = tgerr.IsCode(err, codes...)
			_, asType = tgerr.AsType(err, t)
			var found *tgerr.Error
			found, as = tgerr.As(err)
			if as {
				str = hc.Hex([]byte(found.Error()))
			}
			return nil
		}()
		hexList := func(xs []string) string {
			if len(xs) == 0 {
				return "."
			}
			ys := make([]string, len(xs))
			for i, x := range xs {
				ys[i] = hc.Hex([]byte(x))
			}
			return strings.Join(ys, ",")
		}
		cl := "."
		if len(codes) > 0 {
			cs := make([]string, len(codes))
			for i, x := range codes {
				cs[i] = strconv.Itoa(x)
			}
			cl = strings.Join(cs, ",")
		}
		m := "none"
		if base != nil {
			m = hc.Hex([]byte(msg))
		}
		line := fmt.Sprintf("match %s %d %s %s %s", m, code, hc.Hex([]byte(t)), hexList(tt), cl)
		c.Eval(line, base != nil)
		if pan != nil {
			c.Fail("panic", line, fmt.Sprint(pan))
			continue
		}
		// the monitor: matching goes by the parsed Type / Code of the *Error in the chain
		if base != nil {
			wantIs := false
			for _, x := range tt {
				wantIs = wantIs || x == base.Type
			}
			wantCode := false
			for _, x := range codes {
				wantCode = wantCode || x == base.Code
			}
			if is != wantIs || isCode != wantCode || asType != (t == base.Type) || !as {
				c.Fail("matching", line, fmt.Sprintf("Is=%v IsCode=%v AsType=%v As=%v for Type=%q Code=%d", is, isCode, asType, as, base.Type, base.Code))
			}
		} else if is || isCode || asType || as {
			c.Fail("matching", line, "matched although the chain holds no *tgerr.Error")
		}
		b := map[bool]string{true: "1", false: "0"}
		add(line, fmt.Sprintf("is=%s iscode=%s astype=%s as=%s str=%s", b[is], b[isCode], b[asType], b[as], str))
	}

	// ---- 2d. nil receivers: every (*Error) predicate is nil-safe and false
	{
		var ne *tgerr.Error
		pan := func() (p any) {
			defer func() { p = recover() }()
			if ne.IsType("X") || ne.IsCode(420) || ne.IsOneOf("X", "") || ne.IsCodeOneOf(420, 0) {
				c.Fail("matching", "nil *Error receiver", "a predicate on a nil *Error returned true")
			}
			return nil
		}()
		c.Eval("nil receiver predicates", true)
		if pan != nil {
			c.Fail("panic", "nil *Error receiver", fmt.Sprint(pan))
		}
	}

	// ---- 3. other shapes: no argument, several numbers, empty parts, overflow, arbitrary strings
	m := c.N(100000, 1000000)
	for i := 0; i < m; i++ {
		var msg string
		switch r.Intn(8) {
		case 0: // words only
			cnt := r.Range(1, 5)
			ws := make([]string, cnt)
			for j := range ws {
				ws[j] = genWord(r)
			}
			msg = strings.Join(ws, "_")
			c.Count("other.words-only")
		case 1: // several numeric parts
			cnt := r.Range(2, 6)
			ws := make([]string, cnt)
			for j := range ws {
				if r.Bool() {
					ws[j], _ = genNumber(r)
				} else {
					ws[j] = genWord(r)
				}
			}
			msg = strings.Join(ws, "_")
			c.Count("other.multi-number")
		case 2: // empty parts: leading / trailing / doubled separators
			cnt := r.Range(1, 5)
			ws := make([]string, cnt)
			for j := range ws {
				switch r.Intn(3) {
				case 0:
					ws[j] = ""
				case 1:
					ws[j], _ = genNumber(r)
				default:
					ws[j] = genWord(r)
				}
			}
			msg = strings.Join(ws, "_")
			c.Count("other.empty-parts")
		case 3: // numbers that do not fit an int
			d := hc.Pick(r, "9223372036854775807", "9223372036854775808", "18446744073709551615", "18446744073709551616",
				"99999999999999999999999999", "0000000000000000000000000000000000000007", strings.Repeat("9", r.Range(17, 40)))
			msg = hc.Pick(r, "FLOOD_WAIT_"+d, d+"_X", "A_"+d+"_B", "A_5_"+d, d)
			c.Count("other.overflow")
		case 4: // arbitrary bytes
			msg = string(r.Bytes(r.Range(0, 24)))
			c.Count("other.random-bytes")
		case 5: // arbitrary over a small alphabet
			al := "A_1_9B0_ é٣"
			nn := r.Range(0, 16)
			var sb strings.Builder
			for j := 0; j < nn; j++ {
				sb.WriteByte(al[r.Intn(len(al))])
			}
			msg = sb.String()
			c.Count("other.small-alphabet")
		case 6: // non-ASCII digits and lower case
			msg = hc.Pick(r, "FLOOD_WAIT_٣", "flood_wait_3", "FLOOD_WAIT_３", "FLOOD_WAIT_-3", "FLOOD_WAIT_+3", "FLOOD_WAIT_3.5", "FLOOD_WAIT_0x10",
				"FLOOD_WAIT_1_000", "", "_", "__", "5", "_5", "5_", "FLOOD_WAIT", "FLOOD_PREMIUM_WAIT", "FLOOD_WAIT_", "FLOOD__WAIT_3")
			c.Count("other.curated")
		default:
			msg = genWord(r)
			c.Count("other.single-word")
		}
		line := "parse " + hc.Hex([]byte(msg))
		c.Eval(line, msg != "")
		e, pan := newSafe(msg)
		if pan != nil {
			c.Fail("panic", line, fmt.Sprint(pan))
			continue
		}
		add(line, parsed(e))
		if i%8 == 0 {
			add("flood "+hc.Hex([]byte(msg)), floodTimer(e))
		}
	}

	c.Res.Rule = "specification messages = 1..8 upper-case words (vocabulary of real error words incl. words with digits such as 2FA, MD5, B2B; or random letter/digit words containing a letter) joined by '_' with one decimal number (0..2^63−1, boundaries of int32/int64/Duration, 15% with leading zeros) inserted at a random position (all non-trivial); 25% are the two flood-wait types; other shapes: no number, several numbers, empty parts, numbers beyond int64, random bytes, non-ASCII digits (non-trivial unless empty). FloodWait is run with a recording clock (exact duration) and with a travelling neo clock (not before (arg+1)s−1ns, done at (arg+1)s) and a cancelled context. distinct = distinct request line"

	c.PartialNote("FloodWait's select between timer and ctx.Done is modelled as an input (which is ready first); real-time behaviour of clock.System is not exercised")
	// the select cases: what happened must be in the model's set of possible results
	if len(selLines) > 0 && c.Drv != nil {
		outs, err := c.Drv.Batch(selLines)
		if err != nil {
			return err
		}
		for i, o := range outs {
			allowed := false
			for _, x := range strings.Split(o, ",") {
				allowed = allowed || x == selGot[i]
			}
			if allowed {
				c.Res.TracesValidated++
			} else {
				c.Differ(selLines[i], selGot[i], o, "result not among the model's possible results")
			}
		}
	}
	return bt.Done()
}
