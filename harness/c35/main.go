package main

import (
	"fmt"
	"sort"
	"strconv"
	"strings"
	"unicode"
	"unicode/utf16"
	"unicode/utf8"

	"github.com/gotd/td/telegram/message/entity"
	"github.com/gotd/td/telegram/message/styling"
	"github.com/gotd/td/tg"

	"verif/harness/hc"
)

func main() { hc.Main(hc.Spec{Prop: "C35", Facts: facts, Run: run}) }

func facts(f *hc.Facts) { hc.C35EntityFacts(f) }

// ---------------------------------------------------------------------------------------------
// op lists

type fmtK struct {
	kind int
	lang bool
}

type op struct {
	k    byte // P W F T A S R Z
	text string
	fs   []fmtK
	tok  int
	r    rune // R: argument of WriteRune (any int32)
}

func (f fmtK) formatter() entity.Formatter {
	switch f.kind {
	case 0:
		return entity.Bold()
	case 1:
		return entity.Italic()
	case 2:
		return entity.Underline()
	case 3:
		return entity.Strike()
	case 4:
		return entity.Code()
	case 5:
		if f.lang {
			return entity.Pre("go")
		}
		return entity.Pre("")
	case 6:
		return entity.TextURL("https://example.org")
	case 7:
		return entity.Spoiler()
	}
	return entity.Blockquote(false)
}

func kindOf(e tg.MessageEntityClass) (int, bool) {
	switch e := e.(type) {
	case *tg.MessageEntityBold:
		return 0, false
	case *tg.MessageEntityItalic:
		return 1, false
	case *tg.MessageEntityUnderline:
		return 2, false
	case *tg.MessageEntityStrike:
		return 3, false
	case *tg.MessageEntityCode:
		return 4, false
	case *tg.MessageEntityPre:
		return 5, e.Language != ""
	case *tg.MessageEntityTextURL:
		return 6, false
	case *tg.MessageEntitySpoiler:
		return 7, false
	case *tg.MessageEntityBlockquote:
		return 8, false
	}
	return 99, false
}

func cps(s string) string {
	if s == "" {
		return "-"
	}
	var p []string
	for _, r := range s {
		p = append(p, strconv.FormatInt(int64(r), 16))
	}
	return strings.Join(p, ".")
}

func fmts(fs []fmtK) string {
	if len(fs) == 0 {
		return "-"
	}
	var p []string
	for _, f := range fs {
		x := strconv.Itoa(f.kind)
		if f.lang {
			x += "l"
		}
		p = append(p, x)
	}
	return strings.Join(p, ".")
}

func (o op) String() string {
	switch o.k {
	case 'P', 'W':
		return string(o.k) + ":" + cps(o.text)
	case 'F':
		return "F:" + cps(o.text) + ":" + fmts(o.fs)
	case 'A':
		return fmt.Sprintf("A:%d:%s", o.tok, fmts(o.fs))
	case 'R':
		return fmt.Sprintf("R:%d", o.r)
	}
	return string(o.k)
}

func opsLine(ops []op) string {
	p := make([]string, len(ops))
	for i, o := range ops {
		p[i] = o.String()
	}
	return strings.Join(p, " ")
}

var (
	spaces   = []rune{' ', '\t', '\n', '\v', '\f', '\r', 0x85, 0xA0, 0x1680, 0x2000, 0x2001, 0x2005, 0x200A, 0x2028, 0x2029, 0x202F, 0x205F, 0x3000}
	nearSp   = []rune{0x200B, 0xFEFF, 0x180E, 0x84, 0x86, 0x2060, 0x8, 0xE, 0x1F, 0x200C, 0x200D, 0x1FFF, 0x200B, 0x2027, 0x202A, 0x2FFF, 0x3001}
	ascii    = []rune("abcxyzAZ09<>&*_`")
	bmp      = []rune{'é', 'я', '中', 0x7FF, 0x800, 0xD7FF, 0xE000, 0xFFFD, 0xFFFF, 0x2603}
	astral   = []rune{0x1F600, 0x1D11E, 0x10000, 0x10FFFF, 0x1F468, 0x1F1FA, 0x1F3FD, 0xE0061}
	combine  = []rune{0x301, 0x308, 0x20E3, 0x200D, 0xFE0F, 0x1AB0, 0x36F}
	alphabet = [][]rune{ascii, ascii, bmp, astral, astral, combine, spaces, spaces, nearSp}
)

func genPiece(r *hc.RNG) string {
	n := hc.Pick(r, 0, 1, 1, 2, 2, 3, 4, 6)
	var b []rune
	for i := 0; i < n; i++ {
		cl := alphabet[r.Intn(len(alphabet))]
		b = append(b, cl[r.Intn(len(cl))])
	}
	if r.Chance(35) { // trailing white space: what the trim is about
		k := r.Range(1, 3)
		for i := 0; i < k; i++ {
			b = append(b, spaces[r.Intn(len(spaces))])
		}
	}
	if r.Chance(3) {
		b = append(b, rune(r.Intn(0xD800)))
	}
	return string(b)
}

func genFmts(r *hc.RNG, allowEmpty bool) []fmtK {
	n := hc.Pick(r, 1, 1, 1, 2, 3)
	if allowEmpty && r.Chance(5) {
		n = 0
	}
	fs := make([]fmtK, n)
	for i := range fs {
		fs[i] = fmtK{kind: r.Intn(9)}
		if r.Chance(25) {
			fs[i].kind = hc.Pick(r, 4, 5)
		}
		if fs[i].kind == 5 {
			fs[i].lang = r.Bool()
		}
	}
	return fs
}

func genOps(r *hc.RNG, shrink bool) []op {
	n := hc.Pick(r, 1, 2, 3, 4, 5, 6, 8, 10, 14)
	var ops []op
	ntok := 0
	var open []int
	for i := 0; i < n; i++ {
		if r.Chance(6) { // WriteRune with any int32, in particular values that are not scalar values
			ops = append(ops, op{k: 'R', r: hc.Pick[rune](r, 0xD800, 0xD83D, 0xDC00, 0xDFFF, 0x110000, -1, 0x7FFFFFFF, -0x80000000,
				0x10FFFF, 0x10000, 0xFFFF, 0x1F600, 'a', ' ', 0xFFFD, 0, rune(r.U64()))})
			continue
		}
		if r.Chance(3) { // the builder is re-used for another message; tokens of the old one are dropped
			ops = append(ops, op{k: 'Z'})
			ntok, open = 0, nil
			continue
		}
		switch r.Intn(9) {
		case 0:
			ops = append(ops, op{k: 'P', text: genPiece(r)})
		case 1:
			ops = append(ops, op{k: 'W', text: genPiece(r)})
		case 2, 3, 4:
			ops = append(ops, op{k: 'F', text: genPiece(r), fs: genFmts(r, true)})
		case 5, 6:
			ops = append(ops, op{k: 'T'})
			open = append(open, ntok)
			ntok++
		case 7:
			if len(open) > 0 { // properly nested close
				ops = append(ops, op{k: 'A', tok: open[len(open)-1], fs: genFmts(r, true)})
				open = open[:len(open)-1]
			}
		case 8:
			if ntok > 0 { // any token, possibly again, possibly overlapping
				ops = append(ops, op{k: 'A', tok: r.Intn(ntok), fs: genFmts(r, false)})
			}
		}
		if shrink && r.Chance(8) {
			ops = append(ops, op{k: 'S'})
		}
	}
	if r.Chance(60) { // close what is open, innermost first (as the parsers do)
		for len(open) > 0 {
			ops = append(ops, op{k: 'A', tok: open[len(open)-1], fs: genFmts(r, false)})
			open = open[:len(open)-1]
		}
	}
	if shrink && r.Chance(50) {
		ops = append(ops, op{k: 'S'})
	}
	return ops
}

type span struct {
	s, e int // rune boundaries in the untrimmed text
	f    fmtK
}

// apply drives a real Builder; `how` picks between the equivalent write entry points.
func apply(ops []op, r *hc.RNG) (b *entity.Builder, full []rune, spans []span, hasShrink bool) {
	b = &entity.Builder{}
	var toks []entity.Token
	var tokAt []int
	mk := func(fs []fmtK) []entity.Formatter {
		out := make([]entity.Formatter, len(fs))
		for i, f := range fs {
			out[i] = f.formatter()
		}
		return out
	}
	for _, o := range ops {
		switch o.k {
		case 'P':
			b.Plain(o.text)
			full = append(full, []rune(o.text)...)
		case 'W':
			switch w := r.Intn(4); {
			case w == 0:
				_, _ = b.Write([]byte(o.text))
			case w == 1:
				_, _ = b.WriteString(o.text)
			case w == 2 && len(o.text) == 1 && o.text[0] < 0x80:
				_ = b.WriteByte(o.text[0])
			default:
				for _, c := range o.text {
					_, _ = b.WriteRune(c)
				}
			}
			full = append(full, []rune(o.text)...)
		case 'R':
			_, _ = b.WriteRune(o.r)
			if utf8.ValidRune(o.r) {
				full = append(full, o.r)
			} else {
				full = append(full, utf8.RuneError)
			}
		case 'Z':
			switch r.Intn(3) {
			case 0:
				b.Reset()
			case 1:
				_, _ = b.Raw()
			default:
				_, _ = b.Complete()
			}
			full, spans, toks, tokAt, hasShrink = nil, nil, nil, nil, false
		case 'F':
			if o.text != "" {
				for _, f := range o.fs {
					spans = append(spans, span{len(full), len(full) + len([]rune(o.text)), f})
				}
			}
			b.Format(o.text, mk(o.fs)...)
			full = append(full, []rune(o.text)...)
		case 'T':
			toks = append(toks, b.Token())
			tokAt = append(tokAt, len(full))
		case 'A':
			for _, f := range o.fs {
				spans = append(spans, span{tokAt[o.tok], len(full), f})
			}
			toks[o.tok].Apply(b, mk(o.fs)...)
		case 'S':
			b.ShrinkPreCode()
			hasShrink = true
		}
	}
	return
}

func entStr(off, ln, kind int, lang bool) string {
	s := fmt.Sprintf("%d:%d:%d", off, ln, kind)
	if lang {
		s += "l"
	}
	return s
}

func showEnts(es []tg.MessageEntityClass) []string {
	out := make([]string, len(es))
	for i, e := range es {
		k, l := kindOf(e)
		out[i] = entStr(e.GetOffset(), e.GetLength(), k, l)
	}
	return out
}

// canon orders a list of "off:len:kind" strings by (off asc, len desc, kind) — sort.Sort is not
// stable, so entities with equal ranges may legitimately come out in any order.
func canon(es []string) string {
	if len(es) == 0 {
		return "-"
	}
	type key struct {
		off, ln int
		s       string
	}
	ks := make([]key, len(es))
	for i, e := range es {
		p := strings.Split(e, ":")
		o, _ := strconv.Atoi(p[0])
		l, _ := strconv.Atoi(p[1])
		ks[i] = key{o, l, e}
	}
	sort.SliceStable(ks, func(i, j int) bool {
		if ks[i].off != ks[j].off {
			return ks[i].off < ks[j].off
		}
		if ks[i].ln != ks[j].ln {
			return ks[i].ln > ks[j].ln
		}
		return ks[i].s < ks[j].s
	})
	out := make([]string, len(ks))
	for i, k := range ks {
		out[i] = k.s
	}
	return strings.Join(out, ",")
}

func u16(rs []rune) int { return len(utf16.Encode(rs)) }

func completeSafe(b *entity.Builder) (msg string, es []tg.MessageEntityClass, p any) {
	defer func() {
		if r := recover(); r != nil {
			p = r
		}
	}()
	msg, es = b.Complete()
	return
}

// monitor checks the property on the implementation's result without the model.
func monitor(c *hc.Ctx, input string, full []rune, spans []span, hasShrink bool, msg string, es []tg.MessageEntityClass) {
	if !utf8.ValidString(msg) {
		c.Fail("text-invalid-utf8", input, fmt.Sprintf("%q", msg))
		return
	}
	text := []rune(msg)
	total := u16(text)
	// trimmed only at the end: the text is a prefix of what was written, the rest is white space
	if len(text) > len(full) || string(full[:len(text)]) != msg {
		c.Fail("text-not-prefix", input, fmt.Sprintf("text %q is not a prefix of the written text %q", msg, string(full)))
		return
	}
	for _, x := range full[len(text):] {
		if !unicode.IsSpace(x) {
			c.Fail("trimmed-non-space", input, fmt.Sprintf("text %q drops %q from the written text", msg, string(full[len(text):])))
			return
		}
	}
	for _, e := range es {
		if e.GetOffset() < 0 || e.GetLength() < 0 || e.GetOffset()+e.GetLength() > total {
			c.Fail("entity-outside-text", input, fmt.Sprintf("text %q has %d UTF-16 units, entity %s(offset %d, length %d)", msg, total, e.TypeName(), e.GetOffset(), e.GetLength()))
			return
		}
	}
	// (the ORDER of the returned entities is property C36, checked there; not here)
	if hasShrink {
		return // ShrinkPreCode drops/merges entities by design; exactness is checked without it
	}
	// exactly the piece it formatted (cut where the text was trimmed)
	want := make([]string, len(spans))
	for i, sp := range spans {
		s, e := min(sp.s, len(text)), min(sp.e, len(text))
		want[i] = entStr(u16(text[:s]), u16(text[s:e]), sp.f.kind, sp.f.lang)
	}
	if got, w := canon(showEnts(es)), canon(want); got != w {
		c.Fail("entity-not-piece", input, fmt.Sprintf("text %q: entities %s, formatted pieces are %s", msg, got, w))
	}
}

func run(c *hc.Ctx) error {
	r := c.Rng
	var lines, impls []string
	fixed := [][]op{
		// D10: <b><i>x  </i></b>, <b>a<i>x  </i></b>, <b>x <i> </i></b>, <i>abc</i><b>x  </b> (through the html parser's op order)
		{{k: 'T'}, {k: 'T'}, {k: 'W', text: "x  "}, {k: 'A', tok: 1, fs: []fmtK{{kind: 1}}}, {k: 'A', tok: 0, fs: []fmtK{{kind: 0}}}},
		{{k: 'T'}, {k: 'W', text: "a"}, {k: 'T'}, {k: 'W', text: "x  "}, {k: 'A', tok: 1, fs: []fmtK{{kind: 1}}}, {k: 'A', tok: 0, fs: []fmtK{{kind: 0}}}},
		{{k: 'T'}, {k: 'W', text: "x "}, {k: 'T'}, {k: 'W', text: " "}, {k: 'A', tok: 1, fs: []fmtK{{kind: 1}}}, {k: 'A', tok: 0, fs: []fmtK{{kind: 0}}}, {k: 'S'}},
		{{k: 'T'}, {k: 'W', text: "abc"}, {k: 'A', tok: 0, fs: []fmtK{{kind: 1}}}, {k: 'T'}, {k: 'W', text: "x  "}, {k: 'A', tok: 1, fs: []fmtK{{kind: 0}}}, {k: 'S'}},
		{{k: 'P', text: "pre"}, {k: 'F', text: "abc\nabc\n\n\n", fs: []fmtK{{kind: 0}, {kind: 1}}}},
		{{k: 'F', text: "😀 　", fs: []fmtK{{kind: 0}}}},
		{{k: 'F', text: "   ", fs: []fmtK{{kind: 0}}}},
		// WriteRune of values that are not Unicode scalar values, then an entity
		{{k: 'R', r: 0xD83D}, {k: 'R', r: 0x110000}, {k: 'R', r: -1}, {k: 'F', text: "x", fs: []fmtK{{kind: 0}}}},
		// re-use after Reset: stale lengths/lastFormatIndex of the first message
		{{k: 'F', text: "old message  ", fs: []fmtK{{kind: 0}}}, {k: 'Z'}, {k: 'W', text: "ab"}, {k: 'T'}, {k: 'W', text: "c  "}, {k: 'A', tok: 0, fs: []fmtK{{kind: 1}}}},
		{{k: 'F', text: "old message  ", fs: []fmtK{{kind: 0}}}, {k: 'Z'}, {k: 'P', text: "ab  "}},
		// multi-byte trailing white space (the cut is measured in UTF-16 units, not bytes)
		{{k: 'F', text: "😀 \u3000", fs: []fmtK{{kind: 0}}}},
	}
	n := c.N(20000, 600000)
	for i := 0; i < n+len(fixed); i++ {
		var ops []op
		if i < len(fixed) {
			ops = fixed[i]
		} else {
			ops = genOps(r, r.Chance(30))
		}
		input := "run " + opsLine(ops)
		b, full, spans, hasShrink := apply(ops, r)
		msg, es, p := completeSafe(b)
		nonASCII, astralIn, endsSpace := false, false, false
		for _, x := range full {
			if x > 127 {
				nonASCII = true
			}
			if x >= 0x10000 {
				astralIn = true
			}
		}
		if len(full) > 0 && unicode.IsSpace(full[len(full)-1]) {
			endsSpace = true
		}
		c.Eval(input, len(spans) > 0 && nonASCII)
		c.Count(fmt.Sprintf("ops=%d", len(ops)))
		if astralIn {
			c.Count("text.astral")
		}
		if endsSpace {
			c.Count("text.ends-with-space")
		}
		if len([]rune(msg)) < len(full) {
			c.Count("text.trimmed")
		}
		if hasShrink {
			c.Count("ops.with-shrink")
		}
		c.Count(fmt.Sprintf("entities=%d", min(len(spans), 6)))
		if p != nil {
			c.Fail("complete-panic", input, fmt.Sprint(p))
			continue
		}
		monitor(c, input, full, spans, hasShrink, msg, es)
		lines = append(lines, input)
		impls = append(impls, cps(msg)+" "+canon(showEnts(es)))
		// the model's decidable monitor on the implementation's observation
		ok := true
		total := u16([]rune(msg))
		for _, e := range es {
			if e.GetOffset() < 0 || e.GetLength() < 0 || e.GetOffset()+e.GetLength() > total {
				ok = false
			}
		}
		ents := "-"
		if len(es) > 0 {
			ents = strings.Join(showEnts(es), ",")
		}
		lines = append(lines, "holds "+cps(msg)+" "+ents)
		if ok {
			impls = append(impls, "1")
		} else {
			impls = append(impls, "0")
		}
	}
	// ---- the same through package styling (styling.Perform over Plain / Bold / … options)
	for i := 0; i < c.N(3000, 100000); i++ {
		var ops []op
		var opts []styling.StyledTextOption
		for k := hc.Pick(r, 1, 2, 3, 4, 6); k > 0; k-- {
			piece := genPiece(r)
			if r.Chance(25) {
				ops = append(ops, op{k: 'P', text: piece})
				opts = append(opts, styling.Plain(piece))
				continue
			}
			f := fmtK{kind: r.Intn(9)}
			if f.kind == 5 {
				f.lang = r.Bool()
			}
			ops = append(ops, op{k: 'F', text: piece, fs: []fmtK{f}})
			switch f.kind {
			case 0:
				opts = append(opts, styling.Bold(piece))
			case 1:
				opts = append(opts, styling.Italic(piece))
			case 2:
				opts = append(opts, styling.Underline(piece))
			case 3:
				opts = append(opts, styling.Strike(piece))
			case 4:
				opts = append(opts, styling.Code(piece))
			case 5:
				lang := ""
				if f.lang {
					lang = "go"
				}
				opts = append(opts, styling.Pre(piece, lang))
			case 6:
				opts = append(opts, styling.TextURL(piece, "https://example.org"))
			case 7:
				opts = append(opts, styling.Spoiler(piece))
			default:
				opts = append(opts, styling.Blockquote(piece, false))
			}
		}
		input := "run " + opsLine(ops)
		var full []rune
		var spans []span
		for _, o := range ops {
			if o.k == 'F' && o.text != "" {
				spans = append(spans, span{len(full), len(full) + len([]rune(o.text)), o.fs[0]})
			}
			full = append(full, []rune(o.text)...)
		}
		b := &entity.Builder{}
		if err := styling.Perform(b, opts...); err != nil {
			c.Fail("styling-error", input, err.Error())
			continue
		}
		msg, es, p := completeSafe(b)
		c.Eval(input, len(spans) > 0)
		c.Count("via-styling")
		if p != nil {
			c.Fail("complete-panic", input, fmt.Sprint(p))
			continue
		}
		monitor(c, input, full, spans, false, msg, es)
		lines = append(lines, input)
		impls = append(impls, cps(msg)+" "+canon(showEnts(es)))
	}
	// ---- ComputeLength and the trim on single strings
	for i := 0; i < c.N(3000, 100000); i++ {
		s := genPiece(r) + genPiece(r)
		lines = append(lines, "u16len "+cps(s))
		impls = append(impls, strconv.Itoa(entity.ComputeLength(s)))
		if got, want := entity.ComputeLength(s), u16([]rune(s)); got != want {
			c.Fail("computelength-not-utf16", "u16len "+cps(s), fmt.Sprintf("ComputeLength=%d, unicode/utf16 says %d", got, want))
		}
		c.Count("u16len")
		lines = append(lines, "trim "+cps(s))
		impls = append(impls, cps(strings.TrimRightFunc(s, unicode.IsSpace)))
	}
	// every code point class boundary for the two character predicates
	for _, x := range append(append(append([]rune{}, spaces...), nearSp...), 0xFFFF, 0x10000, 0x10FFFF, 0xD7FF, 0xE000, 0x7F, 0x80) {
		s := "a" + string(x)
		lines = append(lines, "u16len "+cps(s), "trim "+cps(s))
		impls = append(impls, strconv.Itoa(entity.ComputeLength(s)), cps(strings.TrimRightFunc(s, unicode.IsSpace)))
	}
	c.Res.Rule = "op lists of 1..14 builder operations (Plain, Write/WriteString/WriteByte/WriteRune, WriteRune of arbitrary int32 incl. surrogate halves / > U+10FFFF / negative, Reset/Raw/Complete in the middle = builder re-use, Format with 0..3 formatters, Token, Token.Apply nested and overlapping, ShrinkPreCode in 30% of lists) over pieces drawn from ASCII, BMP, astral, combining marks, all 25 Unicode white-space code points and near-misses, 35% of pieces ending in white space; non-trivial = at least one entity and a non-ASCII character; distinct = distinct op list"
	c.PartialNote("Builder.WriteByte with a byte of a multi-byte rune, strings that are not valid UTF-8 (see C37), and a Token applied to another message than the one it was taken from are outside the model (C35 quantifies over whole Unicode string pieces)")
	outs, err := c.Drv.Batch(lines)
	if err != nil {
		return err
	}
	for i, o := range outs {
		if strings.HasPrefix(lines[i], "run ") {
			if p := strings.SplitN(o, " ", 2); len(p) == 2 && p[1] != "-" {
				o = p[0] + " " + canon(strings.Split(p[1], ","))
			}
		}
		if c.Compare(lines[i], impls[i], o) {
			c.Res.TracesValidated++
		}
	}
	return nil
}
