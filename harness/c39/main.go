// C39 — history and dialog iterators: correspondence of messages.Iterator / dialogs.Iterator
// (telegram/query) with the Lean model TdModel.C39, plus the property monitor on the implementation
// (every item once, in server order, then stop).
package main

import (
	"context"
	"fmt"
	"go/ast"
	"sort"
	"strconv"
	"strings"

	"github.com/gotd/td/telegram/query/channels/participants"
	"github.com/gotd/td/telegram/query/contacts/blocked"
	"github.com/gotd/td/telegram/query/dialogs"
	"github.com/gotd/td/telegram/query/messages/stickers/featured"
	"github.com/gotd/td/telegram/query/photos"
	"github.com/gotd/td/telegram/query/messages"
	"github.com/gotd/td/tg"

	"verif/harness/hc"
)

func main() {
	hc.Main(hc.Spec{Prop: "C39", Facts: facts, Run: run})
}

// ---------------------------------------------------------------- facts

// lastBatchRules finds, per case clause of the type switch in Iterator.apply, the right-hand side of
// `m.lastBatch = …` and maps it to the rule code interpreted by TdModel.C39.lbRule.
func lastBatchRules(f *hc.Facts, dir string, names map[string]string) {
	codes := map[string]int{"true": 0, "len(msgs.Messages) < m.limit": 1, "len(dlgs.Dialogs) < m.limit": 1,
		"len(msgs.Messages) == 0": 2, "len(dlgs.Dialogs) == 0": 2,
		"len(ctcs.Blocked) < m.limit": 1, "len(phts.Photos) < m.limit": 1, "len(stickers) < m.limit": 1,
		"len(participants) < 1": 2, "len(participants) == 0": 2}
	found := map[string]bool{}
	fd := f.FuncDecl(dir, "Iterator.apply")
	if fd != nil {
		ast.Inspect(fd.Body, func(n ast.Node) bool {
			ts, ok := n.(*ast.TypeSwitchStmt)
			if !ok {
				return true
			}
			for _, st := range ts.Body.List {
				cc := st.(*ast.CaseClause)
				if len(cc.List) != 1 {
					continue
				}
				lean, ok := names[f.Src(cc.List[0])]
				if !ok {
					continue
				}
				var rhs []string
				for _, s := range cc.Body {
					as, ok := s.(*ast.AssignStmt)
					if ok && len(as.Lhs) == 1 && f.Src(as.Lhs[0]) == "m.lastBatch" {
						rhs = append(rhs, f.Src(as.Rhs[0]))
					}
				}
				if len(rhs) != 1 {
					continue
				}
				code, ok := codes[rhs[0]]
				if !ok {
					f.Missing(lean, "unknown lastBatch rule `"+rhs[0]+"`")
				} else {
					f.Nat(lean, code, dir+" Iterator.apply: m.lastBatch = "+rhs[0])
				}
				found[lean] = true
			}
			return false
		})
	}
	keys := make([]string, 0, len(names))
	for _, lean := range names {
		keys = append(keys, lean)
	}
	sort.Strings(keys)
	for _, lean := range keys {
		if !found[lean] {
			f.Missing(lean, "case clause / lastBatch assignment not found in "+dir)
		}
	}
}

func bufNextFact(f *hc.Facts, lean, dir string) {
	fd := f.FuncDecl(dir, "Iterator.bufNext")
	cond := ""
	if fd != nil && len(fd.Body.List) > 0 {
		if is, ok := fd.Body.List[0].(*ast.IfStmt); ok {
			cond = f.Src(is.Cond)
		}
	}
	switch cond {
	case "len(m.buf)-1 <= m.bufCur":
		f.Bool(lean, true, dir+" bufNext: "+cond)
	case "len(m.buf)-1 < m.bufCur":
		f.Bool(lean, false, dir+" bufNext: "+cond)
	default:
		f.Raw(fmt.Sprintf("def %s : Bool := missing_fact_%s -- bufNext condition `%s`", lean, lean, cond))
	}
}

func facts(f *hc.Facts) {
	lastBatchRules(f, "telegram/query/messages", map[string]string{
		"*tg.MessagesMessages":        "msgLastBatchFull",
		"*tg.MessagesMessagesSlice":   "msgLastBatchSlice",
		"*tg.MessagesChannelMessages": "msgLastBatchChannel",
	})
	lastBatchRules(f, "telegram/query/dialogs", map[string]string{
		"*tg.MessagesDialogs":      "dlgLastBatchFull",
		"*tg.MessagesDialogsSlice": "dlgLastBatchSlice",
	})
	// direction of the SortStable comparator in messages.Iterator.apply
	less := ""
	if fd := f.FuncDecl("telegram/query/messages", "Iterator.apply"); fd != nil {
		ast.Inspect(fd.Body, func(n ast.Node) bool {
			ce, ok := n.(*ast.CallExpr)
			if !ok || len(ce.Args) != 1 || !strings.HasSuffix(f.Src(ce.Fun), ".SortStable") {
				return true
			}
			if fl, ok := ce.Args[0].(*ast.FuncLit); ok && len(fl.Body.List) == 1 {
				if rs, ok := fl.Body.List[0].(*ast.ReturnStmt); ok && len(rs.Results) == 1 {
					less = f.Src(rs.Results[0])
				}
			}
			return false
		})
	}
	switch less {
	case "a.GetID() > b.GetID()":
		f.Bool("sortDescending", true, "messages Iterator.apply SortStable: "+less)
	case "a.GetID() < b.GetID()":
		f.Bool("sortDescending", false, "messages Iterator.apply SortStable: "+less)
	default:
		f.Raw("def sortDescending : Bool := missing_fact_sortDescending -- comparator `" + less + "`")
	}
	// offset-based iterators built on a copy of the same skeleton
	lastBatchRules(f, "telegram/query/contacts/blocked", map[string]string{
		"*tg.ContactsBlocked": "blockedFull", "*tg.ContactsBlockedSlice": "blockedSlice"})
	lastBatchRules(f, "telegram/query/photos", map[string]string{
		"*tg.PhotosPhotos": "photosFull", "*tg.PhotosPhotosSlice": "photosSlice"})
	lastBatchRules(f, "telegram/query/channels/participants", map[string]string{
		"*tg.ChannelsChannelParticipants": "participantsRule"})
	lastBatchRules(f, "telegram/query/messages/stickers/featured", map[string]string{
		"*tg.MessagesFeaturedStickers": "featuredRule"})
	offOK := true
	for dir, v := range map[string]string{"telegram/query/contacts/blocked": "blocked", "telegram/query/photos": "photos",
		"telegram/query/channels/participants": "participants", "telegram/query/messages/stickers/featured": "stickers"} {
		src := strings.Join(strings.Fields(f.FuncSrc(dir, "Iterator.apply")+f.FuncSrc(dir, "Iterator.requestNext")+f.FuncSrc(dir, "Iterator.bufNext")), "")
		if !strings.Contains(src, "m.offset+=len("+v+")") || !strings.Contains(src, "Offset:m.offset,Limit:m.limit,") ||
			!strings.Contains(src, "iflen(m.buf)-1<=m.bufCur{returnfalse}") {
			offOK = false
		}
	}
	if offOK {
		f.Bool("offsetItersAsModelled", true, "offset += len(page); Request{Offset: m.offset, Limit: m.limit}; bufNext stops at the end — in all four")
	} else {
		f.Raw("def offsetItersAsModelled : Bool := missing_fact_offsetItersAsModelled -- offset bookkeeping of an offset-based iterator changed")
	}
	// dialogs: the offset peer is built from the page's entities, with an error return when it cannot be
	dsrc := strings.Join(strings.Fields(f.FuncSrc("telegram/query/dialogs", "Iterator.apply")), "")
	fromEnt := strings.Contains(dsrc, `dlgPeer,ok:=dialogPeer(dialogs[len(m.buf)-1])if!ok{returnerrors.Errorf(`) &&
		strings.Contains(dsrc, `p,err:=entities.ExtractPeer(dlgPeer)iferr!=nil{returnerrors.Wrap(err,"getoffsetpeer")}m.offsetPeer=p`)
	fromBuf := strings.Contains(dsrc, "m.offsetPeer=m.buf[len(m.buf)-1].Peer")
	switch {
	case fromEnt && !fromBuf:
		f.Bool("dlgOffsetPeerFromEntities", true, "dialogs apply: offset peer = ExtractPeer(last dialog's peer), error return on failure")
	case fromBuf && !fromEnt:
		f.Bool("dlgOffsetPeerFromEntities", false, "dialogs apply: offset peer taken from the buffered element (InputPeerEmpty when the entity is missing)")
	default:
		f.Raw("def dlgOffsetPeerFromEntities : Bool := missing_fact_dlgOffsetPeerFromEntities -- dialogs apply: offset peer update not recognised")
	}
	bufNextFact(f, "bufNextStopsAtEnd", "telegram/query/messages")
	bufNextFact(f, "dlgBufNextStopsAtEnd", "telegram/query/dialogs")
}

// ---------------------------------------------------------------- messages

type msgServer struct {
	empty  map[int]bool // ids sent as messageEmpty
	hist   []int  // descending ids
	kinds  string // wish per request: f|s|c
	script []scriptPage
	reqs   []string
	bad    string
}

type scriptPage struct {
	kind byte
	ids  []int
}

func msgObjs(ids []int, empty map[int]bool) []tg.MessageClass {
	out := make([]tg.MessageClass, 0, len(ids))
	for _, id := range ids {
		if empty[id] {
			out = append(out, &tg.MessageEmpty{ID: id})
		} else if id%7 == 3 {
			out = append(out, &tg.MessageService{ID: id, PeerID: &tg.PeerUser{UserID: 10}, Date: 1000 + id, Action: &tg.MessageActionPinMessage{}})
		} else {
			out = append(out, &tg.Message{ID: id, PeerID: &tg.PeerUser{UserID: 10}, Date: 1000 + id, Message: strconv.Itoa(id)})
		}
	}
	return out
}

func msgResult(kind byte, page []int, count int, empty map[int]bool) tg.MessagesMessagesClass {
	users := []tg.UserClass{&tg.User{ID: 10, AccessHash: 77}}
	switch kind {
	case 'f':
		return &tg.MessagesMessages{Messages: msgObjs(page, empty), Users: users}
	case 'c':
		return &tg.MessagesChannelMessages{Messages: msgObjs(page, empty), Count: count, Users: users}
	}
	return &tg.MessagesMessagesSlice{Messages: msgObjs(page, empty), Count: count, Users: users}
}

func (s *msgServer) Query(ctx context.Context, req messages.Request) (tg.MessagesMessagesClass, error) {
	i := len(s.reqs)
	s.reqs = append(s.reqs, fmt.Sprintf("%d:%d", req.OffsetID, req.Limit))
	if req.AddOffset != 0 {
		s.bad = "AddOffset != 0"
	}
	if len(s.reqs) > 10000 {
		return nil, fmt.Errorf("too many requests")
	}
	if s.script != nil {
		if i < len(s.script) {
			return msgResult(s.script[i].kind, s.script[i].ids, 1000, s.empty), nil
		}
		return msgResult('s', nil, 1000, s.empty), nil
	}
	var rem []int
	for _, id := range s.hist {
		if req.OffsetID == 0 || id < req.OffsetID {
			rem = append(rem, id)
		}
	}
	page := rem
	if req.Limit < len(page) {
		page = page[:req.Limit]
	}
	kind := byte('s')
	if i < len(s.kinds) {
		kind = s.kinds[i]
	}
	if kind == 'f' && len(rem) > req.Limit {
		kind = 's'
	}
	return msgResult(kind, page, len(s.hist), s.empty), nil
}

func joinInts(a []int) string {
	if len(a) == 0 {
		return "-"
	}
	p := make([]string, len(a))
	for i, x := range a {
		p[i] = strconv.Itoa(x)
	}
	return strings.Join(p, ",")
}

func orDash(s string) string {
	if s == "" {
		return "-"
	}
	return s
}

// iterate calls Next up to maxCalls times (stopping at the first false) and returns the canonical
// observation "y=<ids> r=<off:limit,…> done=<0|1>".
func iterateMsgs(srv *msgServer, limit, maxCalls int) (obs string, yields []int, done bool, after bool, perr any) {
	defer func() {
		if r := recover(); r != nil {
			perr = r
		}
	}()
	ctx := context.Background()
	it := messages.NewIterator(srv, limit)
	for i := 0; i < maxCalls; i++ {
		if !it.Next(ctx) {
			done = true
			break
		}
		yields = append(yields, it.Value().Msg.GetID())
	}
	nreq := len(srv.reqs)
	d := 0
	if done {
		d = 1
		// "stops": further calls keep returning false
		after = it.Next(ctx) || it.Next(ctx)
	}
	if it.Err() != nil {
		obs = "err " + it.Err().Error()
		return
	}
	obs = fmt.Sprintf("y=%s r=%s done=%d", joinInts(yields), orDash(strings.Join(srv.reqs[:nreq], ",")), d)
	return
}

func genHist(r *hc.RNG, n int) []int {
	// strictly descending positive ids, gaps of 1..5, sometimes starting right at 1
	ids := make([]int, n)
	cur := 1
	if r.Bool() {
		cur = r.Range(1, 50)
	}
	for i := n - 1; i >= 0; i-- {
		ids[i] = cur
		if r.Chance(60) {
			cur++
		} else {
			cur += r.Range(1, 5)
		}
	}
	return ids
}

func genKinds(r *hc.RNG, n int) string {
	mode := r.Intn(5)
	b := make([]byte, n)
	for i := range b {
		switch mode {
		case 0:
			b[i] = 's'
		case 1:
			b[i] = 'c'
		case 2:
			b[i] = 'f'
		default:
			b[i] = "fsc"[r.Intn(3)]
		}
	}
	return string(b)
}

func equalInts(a, b []int) bool {
	if len(a) != len(b) {
		return false
	}
	for i := range a {
		if a[i] != b[i] {
			return false
		}
	}
	return true
}

// ---------------------------------------------------------------- dialogs

type dlg struct{ date, top, peer int }

func dlgLess(a, b dlg) bool { // strict lexicographic (date, top, peer)
	if a.date != b.date {
		return a.date < b.date
	}
	if a.top != b.top {
		return a.top < b.top
	}
	return a.peer < b.peer
}

func peerOf(p int) tg.PeerClass {
	switch p % 3 {
	case 0:
		return &tg.PeerUser{UserID: int64(p)}
	case 1:
		return &tg.PeerChat{ChatID: int64(p)}
	}
	return &tg.PeerChannel{ChannelID: int64(p)}
}

func peerNum(p tg.PeerClass) int {
	switch v := p.(type) {
	case *tg.PeerUser:
		return int(v.UserID)
	case *tg.PeerChat:
		return int(v.ChatID)
	case *tg.PeerChannel:
		return int(v.ChannelID)
	}
	return -1
}

func inputPeerNum(p tg.InputPeerClass) int {
	switch v := p.(type) {
	case *tg.InputPeerEmpty:
		return 0
	case *tg.InputPeerUser:
		return int(v.UserID)
	case *tg.InputPeerChat:
		return int(v.ChatID)
	case *tg.InputPeerChannel:
		return int(v.ChannelID)
	}
	return -1
}

type dlgServer struct {
	ds    []dlg
	kinds string
	cap   int // server-side page cap: a page holds min(limit, cap) dialogs
	noEnt map[int]bool // peers whose user/chat/channel object is left out of the answers
	reqs  []string
}

func (s *dlgServer) Query(ctx context.Context, req dialogs.Request) (tg.MessagesDialogsClass, error) {
	i := len(s.reqs)
	off := dlg{req.OffsetDate, req.OffsetID, inputPeerNum(req.OffsetPeer)}
	s.reqs = append(s.reqs, fmt.Sprintf("%d:%d:%d:%d", off.date, off.top, off.peer, req.Limit))
	if len(s.reqs) > 10000 {
		return nil, fmt.Errorf("too many requests")
	}
	var rem []dlg
	for _, d := range s.ds {
		if off == (dlg{}) || dlgLess(d, off) {
			rem = append(rem, d)
		}
	}
	page := rem
	ps := req.Limit
	if s.cap < ps {
		ps = s.cap
	}
	if ps < len(page) {
		page = page[:ps]
	}
	kind := byte('s')
	if i < len(s.kinds) && s.kinds[i] == 'f' && len(rem) <= ps {
		kind = 'f'
	}
	var (
		dialogsOut []tg.DialogClass
		msgs       []tg.MessageClass
		users      []tg.UserClass
		chats      []tg.ChatClass
	)
	for _, d := range page {
		dialogsOut = append(dialogsOut, &tg.Dialog{Peer: peerOf(d.peer), TopMessage: d.top})
		if s.noEnt[d.peer] {
			continue
		}
		switch d.peer % 3 {
		case 0:
			users = append(users, &tg.User{ID: int64(d.peer), AccessHash: int64(d.peer) * 3})
		case 1:
			chats = append(chats, &tg.Chat{ID: int64(d.peer)})
		default:
			chats = append(chats, &tg.Channel{ID: int64(d.peer), AccessHash: int64(d.peer) * 5})
		}
	}
	// top messages are sent in reverse dialog order (the iterator must match them by peer)
	for j := len(page) - 1; j >= 0; j-- {
		d := page[j]
		msgs = append(msgs, &tg.Message{ID: d.top, Date: d.date, PeerID: peerOf(d.peer)})
	}
	if kind == 'f' {
		return &tg.MessagesDialogs{Dialogs: dialogsOut, Messages: msgs, Users: users, Chats: chats}, nil
	}
	return &tg.MessagesDialogsSlice{Dialogs: dialogsOut, Messages: msgs, Users: users, Chats: chats, Count: len(s.ds)}, nil
}

func showDlgs(ds []dlg) string {
	if len(ds) == 0 {
		return "-"
	}
	p := make([]string, len(ds))
	for i, d := range ds {
		p[i] = fmt.Sprintf("%d:%d:%d", d.date, d.top, d.peer)
	}
	return strings.Join(p, ",")
}

func iterateDlgs(srv *dlgServer, limit, maxCalls int) (obs string, yields []dlg, done, after bool, lastBad string, perr any) {
	defer func() {
		if r := recover(); r != nil {
			perr = r
		}
	}()
	ctx := context.Background()
	it := dialogs.NewIterator(srv, limit)
	for i := 0; i < maxCalls; i++ {
		if !it.Next(ctx) {
			done = true
			break
		}
		e := it.Value()
		d, ok := e.Dialog.(*tg.Dialog)
		if !ok {
			lastBad = "unexpected dialog type"
			continue
		}
		y := dlg{peer: peerNum(d.Peer), top: d.TopMessage}
		wantPeer := y.peer
		if srv.noEnt[y.peer] {
			wantPeer = 0 // no entity: the element carries InputPeerEmpty
		}
		if e.Last == nil || e.Last.GetID() != d.TopMessage || inputPeerNum(e.Peer) != wantPeer {
			lastBad = fmt.Sprintf("dialog peer=%d: Last/Peer do not belong to it", y.peer)
		}
		if e.Last != nil {
			y.date = e.Last.GetDate()
		}
		yields = append(yields, y)
	}
	nreq := len(srv.reqs)
	dn := 0
	if done {
		dn = 1
		after = it.Next(ctx) || it.Next(ctx)
	}
	ef := 0
	if it.Err() != nil {
		ef = 1
		if !strings.Contains(it.Err().Error(), "get offset peer") {
			obs = "err " + it.Err().Error()
			return
		}
	}
	obs = fmt.Sprintf("y=%s r=%s done=%d err=%d", showDlgs(yields), orDash(strings.Join(srv.reqs[:nreq], ",")), dn, ef)
	return
}

func genDlgs(r *hc.RNG, n int) []dlg {
	ds := make([]dlg, n)
	dateSpan := hc.Pick(r, 1, 2, 3, n+1, 1000)
	topSpan := hc.Pick(r, 1, 2, 5, 1000)
	perm := make([]int, n)
	for i := range perm {
		perm[i] = i + 1
	}
	for i := n - 1; i > 0; i-- {
		j := r.Intn(i + 1)
		perm[i], perm[j] = perm[j], perm[i]
	}
	for i := range ds {
		ds[i] = dlg{date: 1 + r.Intn(dateSpan), top: 1 + r.Intn(topSpan), peer: perm[i]}
	}
	sort.Slice(ds, func(i, j int) bool { return dlgLess(ds[j], ds[i]) })
	return ds
}

func ceilDiv(a, b int) int { return (a + b - 1) / b }

// ---------------------------------------------------------------- run

func run(c *hc.Ctx) error {
	r := c.Rng.Fork() // hc.NewRNG(seed) streams of neighbouring seeds are the same sequence shifted by one draw and re-synchronise; a fork lands far away
	var lines, impls []string
	add := func(line, impl string) {
		lines = append(lines, line)
		impls = append(impls, impl)
	}
	maxN := c.N(60, 200)

	// ---- 1. messages over histories: every (n, limit) on a grid + random
	type cfg struct{ n, limit int }
	var cfgs []cfg
	grid := c.N(24, 61)
	for n := 0; n <= grid; n++ {
		for limit := 1; limit <= n+1; limit++ {
			cfgs = append(cfgs, cfg{n, limit})
		}
	}
	for i := 0; i < c.N(1500, 60000); i++ {
		n := r.Range(0, maxN)
		limit := r.Range(1, n+1)
		switch r.Intn(4) {
		case 0: // exact multiple
			limit = r.Range(1, 12)
			n = limit * r.Range(0, maxN/limit)
		case 1:
			limit = hc.Pick(r, 1, 2, n, n+1, maxOf(1, n-1), maxOf(1, n/2))
		}
		if limit < 1 {
			limit = 1
		}
		cfgs = append(cfgs, cfg{n, limit})
	}
	for _, cf := range cfgs {
		hist := genHist(r, cf.n)
		kinds := genKinds(r, r.Range(0, cf.n/cf.limit+3))
		// sometimes a few entries are messageEmpty (never two neighbours, page size ≥ 2: every non-final
		// page then still holds a real message); they must be skipped without disturbing the offsets
		empty := map[int]bool{}
		var empties, want []int
		if cf.limit >= 2 && r.Chance(15) {
			for j := 0; j < len(hist); j++ {
				if r.Chance(25) {
					empty[hist[j]] = true
					empties = append(empties, hist[j])
					j++
				}
			}
			c.Count("msg.with-messageEmpty")
		}
		for _, id := range hist {
			if !empty[id] {
				want = append(want, id)
			}
		}
		srv := &msgServer{hist: hist, kinds: kinds, empty: empty}
		maxCalls := cf.n + 5
		obs, ys, done, after, p := iterateMsgs(srv, cf.limit, maxCalls)
		line := fmt.Sprintf("msg %d %d %s %s %s", cf.limit, maxCalls, orDash(kinds), joinInts(hist), joinInts(empties))
		c.Eval(line, cf.n > cf.limit)
		switch {
		case cf.n == 0:
			c.Count("msg.empty")
		case cf.n%cf.limit == 0:
			c.Count("msg.exact-multiple")
		case cf.n < cf.limit:
			c.Count("msg.single-short-page")
		default:
			c.Count("msg.multi-page")
		}
		switch {
		case p != nil:
			c.Fail("msg-panic", line, fmt.Sprint(p))
			obs = "panic"
		case strings.HasPrefix(obs, "err "):
			c.Fail("msg-error", line, obs)
		case !equalInts(ys, want):
			c.Fail("msg-not-exact", line, "yielded "+joinInts(ys))
		case !done:
			c.Fail("msg-no-stop", line, "Next still true after every item was yielded")
		case after:
			c.Fail("msg-restart", line, "Next returned true again after it returned false")
		case len(srv.reqs) > ceilDiv(cf.n, cf.limit)+1+2: // +2: the two extra calls after the end
			c.Fail("msg-too-many-requests", line, fmt.Sprintf("%d requests", len(srv.reqs)))
		case srv.bad != "":
			c.Fail("msg-bad-request", line, srv.bad)
		}
		add(line, obs)
	}

	// ---- 2. messages over scripted answers: arbitrary (unsorted, repeated) pages drive apply
	for i := 0; i < c.N(1500, 40000); i++ {
		limit := r.Range(1, 8)
		np := r.Range(0, 4)
		var pages []scriptPage
		var parts []string
		total := 0
		for j := 0; j < np; j++ {
			k := "fsc"[r.Intn(3)]
			m := hc.Pick(r, 0, limit-1, limit, limit, limit+1, r.Range(0, 10))
			ids := make([]int, m)
			for x := range ids {
				ids[x] = r.Range(1, 12)
			}
			if r.Chance(40) {
				sort.Sort(sort.Reverse(sort.IntSlice(ids)))
			}
			total += m
			pages = append(pages, scriptPage{k, ids})
			parts = append(parts, string(k)+":"+joinInts(ids))
		}
		sEmpty := map[int]bool{}
		var sEmpties []int
		if r.Chance(30) {
			for id := 1; id <= 12; id++ {
				if r.Chance(20) {
					sEmpty[id] = true
					sEmpties = append(sEmpties, id)
				}
			}
		}
		srv := &msgServer{script: pages, empty: sEmpty}
		if pages == nil {
			srv.script = []scriptPage{}
		}
		maxCalls := total + 4
		obs, ys, _, _, p := iterateMsgs(srv, limit, maxCalls)
		line := fmt.Sprintf("script %d %d %s %s", limit, maxCalls, orDash(strings.Join(parts, ";")), joinInts(sEmpties))
		c.Eval(line, np > 0)
		c.Count("script")
		if p != nil {
			c.Fail("msg-panic", line, fmt.Sprint(p))
			obs = "panic"
		}
		// `messages.messages` is the complete result: whatever its length, nothing is yielded after it
		// (an endpoint that ignores the offset would otherwise be iterated forever)
		upto := 0
		for _, pg := range pages {
			upto += len(pg.ids)
			if pg.kind == 'f' {
				if len(ys) > upto {
					c.Fail("msg-continues-after-complete-answer", line, fmt.Sprintf("%d items yielded, the complete answer ended after %d", len(ys), upto))
				}
				break
			}
		}
		add(line, obs)
	}

	// ---- 3. dialogs
	var dcfgs []cfg
	dgrid := c.N(16, 40)
	for n := 0; n <= dgrid; n++ {
		for limit := 1; limit <= n+1; limit++ {
			dcfgs = append(dcfgs, cfg{n, limit})
		}
	}
	for i := 0; i < c.N(800, 30000); i++ {
		n := r.Range(0, maxN)
		limit := r.Range(1, n+1)
		if r.Chance(30) {
			limit = r.Range(1, 12)
			n = limit * r.Range(0, maxN/limit)
		}
		dcfgs = append(dcfgs, cfg{n, limit})
	}
	for _, cf := range dcfgs {
		ds := genDlgs(r, cf.n)
		kinds := genKinds(r, r.Range(0, cf.n/cf.limit+3))
		// server-side page cap (Telegram clamps the limit): usually no cap, sometimes smaller than the limit
		capv := cf.limit + r.Intn(3)
		if r.Chance(35) {
			capv = r.Range(1, cf.limit)
		}
		if capv < cf.limit {
			c.Count("dlg.server-caps-page")
		}
		// sometimes the answers' users/chats maps lack the entity of a dialog: the last one of a page
		// (no offset peer can be built: the iteration must stop with an error, never continue from a wrong
		// offset) or one in the middle of a page (only that element's Peer is empty)
		noEnt := map[int]bool{}
		var noEntList []int
		if cf.n > 0 && r.Chance(25) {
			psz := minOf(cf.limit, capv)
			for k := r.Range(1, 2); k > 0; k-- {
				idx := r.Intn(cf.n)
				if r.Chance(60) && psz <= cf.n {
					idx = psz*r.Range(1, cf.n/psz) - 1 // last dialog of a page
				}
				if !noEnt[ds[idx].peer] {
					noEnt[ds[idx].peer] = true
					noEntList = append(noEntList, ds[idx].peer)
				}
			}
			c.Count("dlg.missing-entity")
		}
		srv := &dlgServer{ds: ds, kinds: kinds, cap: capv, noEnt: noEnt}
		maxCalls := cf.n + 5
		obs, ys, done, after, lastBad, p := iterateDlgs(srv, cf.limit, maxCalls)
		line := fmt.Sprintf("dlg %d %d %d %s %s %s", cf.limit, capv, maxCalls, orDash(kinds), showDlgs(ds), joinInts(noEntList))
		failed := strings.HasSuffix(obs, "err=1")
		seen := map[int]bool{}
		dup := -1
		for _, y := range ys {
			if seen[y.peer] {
				dup = y.peer
			}
			seen[y.peer] = true
		}
		c.Eval(line, cf.n > cf.limit)
		switch {
		case cf.n == 0:
			c.Count("dlg.empty")
		case cf.n%cf.limit == 0:
			c.Count("dlg.exact-multiple")
		case cf.n < cf.limit:
			c.Count("dlg.single-short-page")
		default:
			c.Count("dlg.multi-page")
		}
		switch {
		case p != nil:
			c.Fail("dlg-panic", line, fmt.Sprint(p))
			obs = "panic"
		case strings.HasPrefix(obs, "err "):
			c.Fail("dlg-error", line, obs)
		case dup >= 0:
			c.Fail("dlg-yielded-twice", line, fmt.Sprintf("dialog with peer %d yielded twice: %s", dup, showDlgs(ys)))
		case failed && len(noEnt) == 0:
			c.Fail("dlg-error", line, "iteration failed although every entity was sent")
		case failed:
			// stopped with an error: what was yielded must be a prefix of the list
			if len(ys) > len(ds) || showDlgs(ys) != showDlgs(ds[:len(ys)]) {
				c.Fail("dlg-not-exact", line, "yielded "+showDlgs(ys)+" before the error")
			}
			c.Count("dlg.stopped-with-error")
		case showDlgs(ys) != showDlgs(ds):
			c.Fail("dlg-not-exact", line, "yielded "+showDlgs(ys))
		case lastBad != "":
			c.Fail("dlg-wrong-last", line, lastBad)
		case !done:
			c.Fail("dlg-no-stop", line, "Next still true after every dialog was yielded")
		case after:
			c.Fail("dlg-restart", line, "Next returned true again after it returned false")
		case len(srv.reqs) > ceilDiv(cf.n, minOf(cf.limit, capv))+1+2:
			c.Fail("dlg-too-many-requests", line, fmt.Sprintf("%d requests", len(srv.reqs)))
		}
		add(line, obs)
	}
	// ---- 4. the offset-based iterators built on a copy of the same skeleton
	for i := 0; i < c.N(1200, 40000); i++ {
		which := hc.Pick(r, "blocked", "photos", "participants", "featured")
		n := r.Range(0, 40)
		limit := r.Range(1, n+1)
		if r.Chance(30) {
			limit = r.Range(1, 8)
			n = limit * r.Range(0, 6)
		}
		capv := limit + r.Intn(3)
		if which == "participants" && r.Chance(40) {
			capv = r.Range(1, limit) // an empty page ends this iterator: the server may cap pages
		}
		kinds := genKinds(r, r.Range(0, n/limit+3))
		maxCalls := n + 5
		obs, ys, done, after, nreq, p := iterateOffset(which, n, limit, capv, kinds, maxCalls)
		line := fmt.Sprintf("off %s %d %d %d %s %d", which, limit, capv, maxCalls, orDash(kinds), n)
		c.Eval(line, n > limit)
		c.Count("off." + which)
		want := make([]int, n)
		for j := range want {
			want[j] = j + 1
		}
		switch {
		case p != nil:
			c.Fail("off-panic", line, fmt.Sprint(p))
			obs = "panic"
		case strings.HasPrefix(obs, "err "):
			c.Fail("off-error", line, obs)
		case !equalInts(ys, want):
			c.Fail("off-not-exact", line, "yielded "+joinInts(ys))
		case !done:
			c.Fail("off-no-stop", line, "Next still true after every item was yielded")
		case after:
			c.Fail("off-restart", line, "Next returned true again after it returned false")
		case nreq > ceilDiv(n, minOf(limit, capv))+1+2:
			c.Fail("off-too-many-requests", line, fmt.Sprintf("%d requests", nreq))
		}
		add(line, obs)
	}
	c.Res.Exhaustive = true
	c.Res.Rule = fmt.Sprintf("messages: every (n, page size) with n ≤ %d, page size 1..n+1 enumerated (exhaustive grid), plus random histories up to %d items (strictly descending positive ids, gaps 1..5), exact multiples, page sizes n-1/n/n+1, constructor wishes full/slice/channel per request; scripted answers with unsorted/repeated ids; dialogs: grid n ≤ %d plus random lists with many date/top-message ties, server-side page caps below the requested limit; offset-based iterators (blocked, photos, participants, featured) over 0..40 items; non-trivial = more items than one page; distinct = distinct input line", grid, maxN, dgrid)

	outs, err := c.Drv.Batch(lines)
	if err != nil {
		return err
	}
	for i, o := range outs {
		if c.Compare(lines[i], impls[i], o) {
			c.Res.TracesValidated++
		}
	}
	return nil
}

func minOf(a, b int) int {
	if a < b {
		return a
	}
	return b
}

func maxOf(a, b int) int {
	if a > b {
		return a
	}
	return b
}

// ---------------------------------------------------------------- offset-based iterators

// offPage computes the answer of the mock server: items off+1 .. off+min(limit,cap) of 1..n, and whether
// the complete-answer constructor is used.
func offPage(n, off, limit, capv int, kinds string, i int) (ids []int, full bool) {
	ps := minOf(limit, capv)
	rem := n - off
	if rem < 0 {
		rem = 0
	}
	k := minOf(ps, rem)
	for j := 0; j < k; j++ {
		ids = append(ids, off+j+1)
	}
	full = i < len(kinds) && kinds[i] == 'f' && rem <= ps
	return
}

func iterateOffset(which string, n, limit, capv int, kinds string, maxCalls int) (obs string, ys []int, done, after bool, nreq int, perr any) {
	defer func() {
		if r := recover(); r != nil {
			perr = r
		}
	}()
	ctx := context.Background()
	var reqs []string
	rec := func(off, lim int) int {
		reqs = append(reqs, fmt.Sprintf("%d:%d", off, lim))
		return len(reqs) - 1
	}
	var next func() bool
	var value func() int
	var errf func() error
	switch which {
	case "blocked":
		it := blocked.NewIterator(blocked.QueryFunc(func(ctx context.Context, req blocked.Request) (tg.ContactsBlockedClass, error) {
			i := rec(req.Offset, req.Limit)
			ids, full := offPage(n, req.Offset, req.Limit, capv, kinds, i)
			var l []tg.PeerBlocked
			for _, id := range ids {
				l = append(l, tg.PeerBlocked{PeerID: &tg.PeerUser{UserID: int64(id)}, Date: id})
			}
			if full {
				return &tg.ContactsBlocked{Blocked: l}, nil
			}
			return &tg.ContactsBlockedSlice{Blocked: l, Count: n}, nil
		}), limit)
		next = func() bool { return it.Next(ctx) }
		value = func() int { return it.Value().Contact.Date }
		errf = it.Err
	case "photos":
		it := photos.NewIterator(photos.QueryFunc(func(ctx context.Context, req photos.Request) (tg.PhotosPhotosClass, error) {
			i := rec(req.Offset, req.Limit)
			ids, full := offPage(n, req.Offset, req.Limit, capv, kinds, i)
			var l []tg.PhotoClass
			for _, id := range ids {
				l = append(l, &tg.Photo{ID: int64(id)})
			}
			if full {
				return &tg.PhotosPhotos{Photos: l}, nil
			}
			return &tg.PhotosPhotosSlice{Photos: l, Count: n}, nil
		}), limit)
		next = func() bool { return it.Next(ctx) }
		value = func() int { return int(it.Value().Photo.GetID()) }
		errf = it.Err
	case "participants":
		it := participants.NewIterator(participants.QueryFunc(func(ctx context.Context, req participants.Request) (tg.ChannelsChannelParticipantsClass, error) {
			i := rec(req.Offset, req.Limit)
			ids, _ := offPage(n, req.Offset, req.Limit, capv, kinds, i)
			var l []tg.ChannelParticipantClass
			for _, id := range ids {
				l = append(l, &tg.ChannelParticipant{UserID: int64(id)})
			}
			return &tg.ChannelsChannelParticipants{Participants: l, Count: n}, nil
		}), limit)
		next = func() bool { return it.Next(ctx) }
		value = func() int { return int(it.Value().Participant.(*tg.ChannelParticipant).UserID) }
		errf = it.Err
	default:
		it := featured.NewIterator(featured.QueryFunc(func(ctx context.Context, req featured.Request) (tg.MessagesFeaturedStickersClass, error) {
			i := rec(req.Offset, req.Limit)
			ids, _ := offPage(n, req.Offset, req.Limit, capv, kinds, i)
			var l []tg.StickerSetCoveredClass
			for _, id := range ids {
				l = append(l, &tg.StickerSetCovered{Set: tg.StickerSet{ID: int64(id)}})
			}
			return &tg.MessagesFeaturedStickers{Sets: l, Count: n}, nil
		}), limit)
		next = func() bool { return it.Next(ctx) }
		value = func() int { return int(it.Value().Sticker.GetSet().ID) }
		errf = it.Err
	}
	for i := 0; i < maxCalls; i++ {
		if !next() {
			done = true
			break
		}
		ys = append(ys, value())
	}
	n0 := len(reqs)
	d := 0
	if done {
		d = 1
		after = next() || next()
	}
	nreq = len(reqs)
	if e := errf(); e != nil {
		obs = "err " + e.Error()
		return
	}
	obs = fmt.Sprintf("y=%s r=%s done=%d", joinInts(ys), orDash(strings.Join(reqs[:n0], ",")), d)
	return
}
