// C31 — session file updates are atomic with respect to crashes.
//
// The system-call trace of the real session.FileStorage.StoreSession is OBSERVED (strace around a
// re-exec of this binary in `c31-store` mode), parsed, and
//   - handed to the Lean crash model (drv_c31: isAtomicReplace, crashStates, plReads),
//   - compared with the trace the model predicts from the regenerated call list (Facts.C31.storeOps),
//   - replayed for real, prefix by prefix (every system-call boundary and every cut of every write),
//     in a scratch directory; every such crash state is read back through session.Loader.Load and
//     must be the complete previous or the complete new session (property monitor), and its
//     directory listing must equal the model's crash state (correspondence of the crash model
//     with the kernel's file system).
package main

import (
	"bytes"
	"context"
	"errors"
	"fmt"
	"go/ast"
	"go/token"
	"os"
	"os/exec"
	"path/filepath"
	"reflect"
	"regexp"
	"sort"
	"strconv"
	"strings"
	"syscall"

	"github.com/gotd/td/session"
	"github.com/gotd/td/tg"

	"verif/harness/hc"
)

func main() {
	if len(os.Args) == 4 && os.Args[1] == "c31-store" {
		// The traced process: nothing but the real StoreSession.
		data, err := os.ReadFile(os.Args[3])
		if err != nil {
			fmt.Fprintln(os.Stderr, err)
			os.Exit(3)
		}
		st := &session.FileStorage{Path: os.Args[2]}
		if err := st.StoreSession(context.Background(), data); err != nil {
			fmt.Fprintln(os.Stderr, err)
			os.Exit(4)
		}
		return
	}
	hc.Main(hc.Spec{Prop: "C31", Facts: facts, Run: run})
}

// ---------------------------------------------------------------------------------------------
// facts: the ordered file-system calls of FileStorage.StoreSession (same-package helpers inlined,
// `defer`, closures and `if err != nil {…}` bodies skipped).

var fsCalls = map[string]bool{
	"WriteFile": true, "CreateTemp": true, "OpenFile": true, "Create": true, "Write": true, "WriteString": true,
	"WriteAt": true, "Sync": true, "Close": true, "Rename": true, "Open": true, "Truncate": true, "Remove": true,
	"Link": true, "Symlink": true, "ReadFrom": true,
}

func isErrNotNil(e ast.Expr) bool {
	b, ok := e.(*ast.BinaryExpr)
	if !ok || b.Op != token.NEQ {
		return false
	}
	x, ok1 := b.X.(*ast.Ident)
	y, ok2 := b.Y.(*ast.Ident)
	return ok1 && ok2 && strings.HasSuffix(strings.ToLower(x.Name), "err") && y.Name == "nil"
}

func facts(f *hc.Facts) {
	root := f.FuncDecl("session", "FileStorage.StoreSession")
	if root == nil || root.Body == nil {
		f.Missing("storeOps", "session.FileStorage.StoreSession not found")
		return
	}
	var ops []string
	var walk func(n ast.Node, depth int)
	walk = func(n ast.Node, depth int) {
		if n == nil || reflect.ValueOf(n).IsNil() {
			return
		}
		ast.Inspect(n, func(x ast.Node) bool {
			switch v := x.(type) {
			case *ast.DeferStmt, *ast.FuncLit, *ast.GoStmt:
				return false
			case *ast.IfStmt:
				walk(v.Init, depth)
				walk(v.Cond, depth)
				if !isErrNotNil(v.Cond) {
					walk(v.Body, depth)
				}
				walk(v.Else, depth)
				return false
			case *ast.CallExpr:
				for _, a := range v.Args {
					walk(a, depth)
				}
				switch fn := v.Fun.(type) {
				case *ast.SelectorExpr:
					walk(fn.X, depth)
					if fsCalls[fn.Sel.Name] {
						ops = append(ops, fn.Sel.Name)
					}
				case *ast.Ident:
					if d := f.FuncDecl("session", fn.Name); d != nil && d.Body != nil && depth < 3 {
						walk(d.Body, depth+1)
					}
				}
				return false
			}
			return true
		})
	}
	walk(root.Body, 0)
	q := make([]string, len(ops))
	for i, o := range ops {
		q[i] = strconv.Quote(o)
	}
	f.Raw("/-- file-system calls of session.FileStorage.StoreSession in execution order (success path) -/")
	f.Raw("def storeOps : List String := [" + strings.Join(q, ", ") + "]")
}

// ---------------------------------------------------------------------------------------------
// trace

type op struct {
	kind  byte // o d w s c r t u x
	fd    int
	name  string // base name (o, u), source (r)
	name2 string // rename target
	data  []byte
	n     int
	flags int    // raw open flags (replay)
	mode  uint32 // open mode
	tag   string
}

func hexName(s string) string { return hc.Hex([]byte(s)) }

func (o op) wire() string {
	switch o.kind {
	case 'o':
		fl := ""
		if o.flags&syscall.O_CREAT != 0 {
			fl += "c"
		}
		if o.flags&syscall.O_EXCL != 0 {
			fl += "x"
		}
		if o.flags&syscall.O_TRUNC != 0 {
			fl += "t"
		}
		if o.flags&syscall.O_APPEND != 0 {
			fl += "a"
		}
		if fl == "" {
			fl = "-"
		}
		return fmt.Sprintf("o:%d:%s:%s", o.fd, hexName(o.name), fl)
	case 'd':
		return fmt.Sprintf("d:%d", o.fd)
	case 'w':
		return fmt.Sprintf("w:%d:%s", o.fd, hc.Hex(o.data))
	case 's':
		return fmt.Sprintf("s:%d", o.fd)
	case 'c':
		return fmt.Sprintf("c:%d", o.fd)
	case 'r':
		return fmt.Sprintf("r:%s:%s", hexName(o.name), hexName(o.name2))
	case 't':
		return fmt.Sprintf("t:%d:%d", o.fd, o.n)
	case 'u':
		return "u:" + hexName(o.name)
	}
	return "x:" + o.tag
}

func wireTrace(tr []op) string {
	w := make([]string, len(tr))
	for i, o := range tr {
		w[i] = o.wire()
	}
	return strings.Join(w, " ")
}

var openFlagNames = map[string]int{
	"O_RDONLY": syscall.O_RDONLY, "O_WRONLY": syscall.O_WRONLY, "O_RDWR": syscall.O_RDWR, "O_CREAT": syscall.O_CREAT,
	"O_EXCL": syscall.O_EXCL, "O_TRUNC": syscall.O_TRUNC, "O_APPEND": syscall.O_APPEND, "O_CLOEXEC": syscall.O_CLOEXEC,
	"O_NONBLOCK": syscall.O_NONBLOCK, "O_DIRECTORY": syscall.O_DIRECTORY, "O_NOFOLLOW": syscall.O_NOFOLLOW,
	"O_LARGEFILE": 0, "O_NOCTTY": syscall.O_NOCTTY,
}

var (
	reLine    = regexp.MustCompile(`^(\d+)\s+(.*)$`)
	reUnfin   = regexp.MustCompile(`^(.*) <unfinished \.\.\.>$`)
	reResumed = regexp.MustCompile(`^<\.\.\. (\w+) resumed>(.*)$`)
	reCall    = regexp.MustCompile(`^(\w+)\((.*)\)\s+= (-?\d+|\?)(.*)$`)
	reStr     = regexp.MustCompile(`"((?:\\x[0-9a-f]{2})*)"(\.\.\.)?`)
)

func unescape(s string) string {
	var b []byte
	for i := 0; i+3 < len(s)+1 && i < len(s); i += 4 {
		v, _ := strconv.ParseUint(s[i+2:i+4], 16, 8)
		b = append(b, byte(v))
	}
	return string(b)
}

// splitArgs splits a strace argument list at top-level commas (strings contain no commas: -xx).
func splitArgs(s string) []string {
	var out []string
	depth, start := 0, 0
	for i, ch := range s {
		switch ch {
		case '(', '[', '{':
			depth++
		case ')', ']', '}':
			depth--
		case ',':
			if depth == 0 {
				out = append(out, strings.TrimSpace(s[start:i]))
				start = i + 1
			}
		}
	}
	return append(out, strings.TrimSpace(s[start:]))
}

func argStr(a string) (string, bool, bool) {
	m := reStr.FindStringSubmatch(a)
	if m == nil || !strings.HasPrefix(a, `"`) {
		return "", false, false
	}
	return unescape(m[1]), m[2] != "", true
}

type parseStats struct{ failedCalls, ignored int }

// parseTrace turns strace output into the operations that touch `dir` (absolute, clean).
func parseTrace(text, cwd, dir string) ([]op, parseStats, error) {
	var st parseStats
	pending := map[string]string{}
	fds := map[int]bool{}
	var tr []op
	inDir := func(p string) (string, bool) {
		if !filepath.IsAbs(p) {
			p = filepath.Join(cwd, p)
		}
		p = filepath.Clean(p)
		if filepath.Dir(p) == dir && p != dir {
			return filepath.Base(p), true
		}
		return "", false
	}
	isDir := func(p string) bool {
		if !filepath.IsAbs(p) {
			p = filepath.Join(cwd, p)
		}
		return filepath.Clean(p) == dir
	}
	for _, raw := range strings.Split(text, "\n") {
		m := reLine.FindStringSubmatch(raw)
		if m == nil {
			continue
		}
		pid, rest := m[1], m[2]
		if strings.HasPrefix(rest, "---") || strings.HasPrefix(rest, "+++") {
			continue
		}
		if u := reUnfin.FindStringSubmatch(rest); u != nil {
			pending[pid] = u[1]
			continue
		}
		if r := reResumed.FindStringSubmatch(rest); r != nil {
			rest = pending[pid] + r[2]
			delete(pending, pid)
		}
		c := reCall.FindStringSubmatch(rest)
		if c == nil {
			continue
		}
		name, args := c[1], splitArgs(c[2])
		ret, err := strconv.Atoi(c[3])
		if err != nil || ret < 0 {
			st.failedCalls++
			continue
		}
		num := func(i int) int {
			if i >= len(args) {
				return -1
			}
			v, err := strconv.Atoi(args[i])
			if err != nil {
				return -1
			}
			return v
		}
		str := func(i int) (string, bool) {
			if i >= len(args) {
				return "", false
			}
			s, trunc, ok := argStr(args[i])
			if trunc {
				return "", false
			}
			return s, ok
		}
		unknown := func(why string) { tr = append(tr, op{kind: 'x', tag: name + "-" + why}) }
		switch name {
		case "openat", "open", "creat":
			pi := 0
			if name == "openat" {
				pi = 1
			}
			p, ok := str(pi)
			if !ok {
				return nil, st, fmt.Errorf("unparsed path in %q", rest)
			}
			if name == "openat" && args[0] != "AT_FDCWD" && !filepath.IsAbs(p) {
				if fds[num(0)] {
					unknown("dirfd")
				}
				continue
			}
			if isDir(p) {
				fds[ret] = true
				tr = append(tr, op{kind: 'd', fd: ret})
				continue
			}
			base, ok := inDir(p)
			if !ok {
				st.ignored++
				continue
			}
			flags, bad := 0, false
			if name == "creat" {
				flags = syscall.O_CREAT | syscall.O_WRONLY | syscall.O_TRUNC
			} else {
				for _, fl := range strings.Split(args[pi+1], "|") {
					v, ok := openFlagNames[fl]
					if !ok {
						bad = true
					}
					flags |= v
				}
			}
			if bad {
				unknown("flags-" + args[pi+1])
				continue
			}
			mode := uint32(0)
			if pi+2 < len(args) {
				v, _ := strconv.ParseUint(args[pi+2], 8, 32)
				mode = uint32(v)
			}
			fds[ret] = true
			tr = append(tr, op{kind: 'o', fd: ret, name: base, flags: flags, mode: mode})
		case "write":
			if !fds[num(0)] {
				st.ignored++
				continue
			}
			d, ok := str(1)
			if !ok || len(d) < ret {
				return nil, st, fmt.Errorf("write data truncated in trace (%d of %d bytes)", len(d), ret)
			}
			tr = append(tr, op{kind: 'w', fd: num(0), data: []byte(d[:ret])})
		case "fsync", "fdatasync":
			if fds[num(0)] {
				tr = append(tr, op{kind: 's', fd: num(0)})
			}
		case "close":
			if fds[num(0)] {
				delete(fds, num(0))
				tr = append(tr, op{kind: 'c', fd: num(0)})
			}
		case "ftruncate":
			if fds[num(0)] {
				tr = append(tr, op{kind: 't', fd: num(0), n: num(1)})
			}
		case "rename", "renameat", "renameat2":
			ai, bi := 0, 1
			if name != "rename" {
				ai, bi = 1, 3
				if args[0] != "AT_FDCWD" || args[2] != "AT_FDCWD" {
					unknown("dirfd")
					continue
				}
			}
			a, ok1 := str(ai)
			b, ok2 := str(bi)
			if !ok1 || !ok2 {
				return nil, st, fmt.Errorf("unparsed rename %q", rest)
			}
			an, ain := inDir(a)
			bn, bin := inDir(b)
			switch {
			case ain && bin && (name != "renameat2" || args[4] == "0"):
				tr = append(tr, op{kind: 'r', name: an, name2: bn})
			case ain || bin:
				unknown("across-dir-or-flags")
			}
		case "unlink", "unlinkat":
			pi := 0
			if name == "unlinkat" {
				pi = 1
			}
			if p, ok := str(pi); ok {
				if base, ok := inDir(p); ok {
					if name == "unlinkat" && args[0] != "AT_FDCWD" {
						unknown("dirfd")
					} else {
						tr = append(tr, op{kind: 'u', name: base})
					}
				}
			}
		default: // pwrite64, writev, truncate, link, linkat, symlink, symlinkat, …
			touch := fds[num(0)]
			for i := range args {
				if p, ok := str(i); ok {
					if _, in := inDir(p); in {
						touch = true
					}
				}
			}
			if touch {
				unknown("unmodelled")
			}
		}
	}
	return tr, st, nil
}

// canonNames renames every name that is neither an initial entry nor the session file to
// vtmp1, vtmp2, … (os.CreateTemp picks names from the runtime's unseeded PRNG).
func canonNames(tr []op, keep map[string]bool) ([]op, []string) {
	m := map[string]string{}
	var orig []string
	ren := func(n string) string {
		if n == "" || keep[n] {
			return n
		}
		if v, ok := m[n]; ok {
			return v
		}
		v := fmt.Sprintf("vtmp%d", len(m)+1)
		for keep[v] {
			v += "_"
		}
		m[n] = v
		orig = append(orig, n)
		return v
	}
	out := make([]op, len(tr))
	for i, o := range tr {
		o.name, o.name2 = ren(o.name), ren(o.name2)
		out[i] = o
	}
	return out, orig
}

// ---------------------------------------------------------------------------------------------
// real replay of a crash point

type ent struct {
	name string
	data []byte
}

func fnv64(b []byte) uint64 {
	h := uint64(14695981039346656037)
	for _, x := range b {
		h = (h ^ uint64(x)) * 1099511628211
	}
	return h
}

type crashPoint struct {
	ops  int // number of complete operations executed
	part int // -1, or number of bytes of operation #ops (a write) that were written
}

func allCrashPoints(tr []op, sampleWrites func(n int) []int) []crashPoint {
	cps := []crashPoint{{0, -1}}
	for i, o := range tr {
		if o.kind == 'w' {
			for _, k := range sampleWrites(len(o.data)) {
				cps = append(cps, crashPoint{i, k})
			}
		}
		cps = append(cps, crashPoint{i + 1, -1})
	}
	return cps
}

// truncated is the trace whose final state is the crash state cp.
func truncated(tr []op, cp crashPoint) []op {
	out := append([]op{}, tr[:cp.ops]...)
	if cp.part >= 0 {
		o := tr[cp.ops]
		o.data = o.data[:cp.part]
		out = append(out, o)
	}
	return out
}

// materialise executes the trace prefix for real in a fresh directory, "crashes" (drops all
// descriptors) and returns the directory.
func materialise(base string, ents []ent, tr []op) (string, error) {
	dir, err := os.MkdirTemp(base, "cs")
	if err != nil {
		return "", err
	}
	for _, e := range ents {
		if err := os.WriteFile(filepath.Join(dir, e.name), e.data, 0o600); err != nil {
			return dir, err
		}
	}
	fds := map[int]int{}
	defer func() {
		for _, fd := range fds {
			syscall.Close(fd)
		}
	}()
	for _, o := range tr {
		switch o.kind {
		case 'o':
			fd, err := syscall.Open(filepath.Join(dir, o.name), o.flags, o.mode)
			if err != nil {
				return dir, fmt.Errorf("replay open %s: %w", o.name, err)
			}
			fds[o.fd] = fd
		case 'd':
			fd, err := syscall.Open(dir, syscall.O_RDONLY, 0)
			if err != nil {
				return dir, err
			}
			fds[o.fd] = fd
		case 'w':
			d := o.data
			for len(d) > 0 {
				n, err := syscall.Write(fds[o.fd], d)
				if err != nil {
					return dir, fmt.Errorf("replay write: %w", err)
				}
				d = d[n:]
			}
		case 's': // no effect on what a surviving kernel shows; skipped (slow)
		case 'c':
			syscall.Close(fds[o.fd])
			delete(fds, o.fd)
		case 'r':
			if err := syscall.Rename(filepath.Join(dir, o.name), filepath.Join(dir, o.name2)); err != nil {
				return dir, fmt.Errorf("replay rename: %w", err)
			}
		case 't':
			if err := syscall.Ftruncate(fds[o.fd], int64(o.n)); err != nil {
				return dir, err
			}
		case 'u':
			if err := syscall.Unlink(filepath.Join(dir, o.name)); err != nil {
				return dir, err
			}
		}
	}
	return dir, nil
}

func listDir(dir string) (string, error) {
	es, err := os.ReadDir(dir)
	if err != nil {
		return "", err
	}
	// hex names: byte order, the same order as the model's sort of the hex strings
	sort.Slice(es, func(i, j int) bool { return hexName(es[i].Name()) < hexName(es[j].Name()) })
	var parts []string
	for _, e := range es {
		b, err := os.ReadFile(filepath.Join(dir, e.Name()))
		if err != nil {
			return "", err
		}
		parts = append(parts, fmt.Sprintf("%s:%d:%d", hexName(e.Name()), len(b), fnv64(b)))
	}
	if len(parts) == 0 {
		return "-", nil
	}
	return strings.Join(parts, ","), nil
}

func classify(got []byte, exists bool, old []byte, hasOld bool, new []byte) string {
	switch {
	case exists == hasOld && (!exists || bytes.Equal(got, old)):
		return "old"
	case exists && bytes.Equal(got, new):
		return "new"
	case !exists:
		return "none"
	}
	return "other"
}

// ---------------------------------------------------------------------------------------------
// sessions

type capture struct{ b []byte }

func (c *capture) LoadSession(context.Context) ([]byte, error) { return c.b, nil }
func (c *capture) StoreSession(_ context.Context, d []byte) error {
	c.b = append([]byte{}, d...)
	return nil
}

func genSession(r *hc.RNG, nOpts int) *session.Data {
	d := &session.Data{
		DC:        hc.Pick(r, 1, 2, 3, 4, 5),
		Addr:      hc.Pick(r, "", "149.154.167.50:443", "[2001:67c:4e8:f002::a]:443"),
		AuthKey:   r.Bytes(256),
		AuthKeyID: r.Bytes(8),
		Salt:      int64(r.U64()),
	}
	d.Config = session.Config{Date: r.Intn(1 << 30), Expires: r.Intn(1 << 30), ThisDC: d.DC, TestMode: r.Bool(),
		DCTxtDomainName: "apv3.stel.com", TmpSessions: r.Intn(3), WebfileDCID: 4}
	for i := 0; i < nOpts; i++ {
		d.Config.DCOptions = append(d.Config.DCOptions, tg.DCOption{ID: 1 + r.Intn(5), IPAddress: fmt.Sprintf("149.154.%d.%d", r.Intn(256), r.Intn(256)),
			Port: hc.Pick(r, 80, 443, 5222), Ipv6: r.Bool(), MediaOnly: r.Bool(), CDN: r.Chance(10), Static: r.Bool()})
	}
	return d
}

func marshal(d *session.Data) []byte {
	var c capture
	if err := (&session.Loader{Storage: &c}).Save(context.Background(), d); err != nil {
		panic(err)
	}
	return c.b
}

// loadVerdict reads `path` through the real session.Loader and says which session it is.
func loadVerdict(path string, old, new *session.Data) (verdict, detail string) {
	defer func() {
		if p := recover(); p != nil {
			verdict, detail = "panic", fmt.Sprint(p)
		}
	}()
	got, err := (&session.Loader{Storage: &session.FileStorage{Path: path}}).Load(context.Background())
	switch {
	case err != nil && errors.Is(err, session.ErrNotFound):
		if old == nil {
			return "old", ""
		}
		return "lost", "Loader.Load: " + err.Error()
	case err != nil:
		return "unusable", "Loader.Load: " + err.Error()
	case old != nil && reflect.DeepEqual(got, old):
		return "old", ""
	case reflect.DeepEqual(got, new):
		return "new", ""
	}
	return "unusable", "Loader.Load returned a session that is neither the previous nor the new one"
}

// ---------------------------------------------------------------------------------------------

type scenario struct {
	fileName string
	relative string // "", "base" (cwd = dir), "sub" (cwd = parent of dir)
	others   []ent
	hasOld   bool
	oldData  *session.Data // nil when raw
	newData  *session.Data
	old, new []byte
	raw      bool
}

func genScenario(r *hc.RNG, c *hc.Ctx, i int) scenario {
	var s scenario
	s.fileName = hc.Pick(r, "session.json", "session.json", "s", "tg session (1).json", "sessé.json", ".session")
	s.relative = hc.Pick(r, "", "", "base", "sub")
	s.hasOld = r.Chance(80)
	if i == 0 {
		s.hasOld = true
	}
	if r.Chance(35) {
		s.others = append(s.others, ent{"unrelated.txt", r.Bytes(r.Range(0, 40))})
	}
	if r.Chance(35) { // stale temporary file left by an earlier crash
		s.others = append(s.others, ent{s.fileName + "." + strconv.Itoa(r.Intn(1<<30)) + ".tmp", r.Bytes(r.Range(0, 40))})
	}
	if r.Chance(10) {
		s.others = append(s.others, ent{"vtmp1", []byte("x")})
	}
	s.raw = r.Chance(15)
	if s.raw {
		s.old = r.Bytes(hc.Pick(r, 1, 7, 300))
		s.new = r.Bytes(hc.Pick(r, 0, 1, 2, 64, 511, 600))
		c.Count("data.raw-bytes")
	} else {
		big := c.Thorough() && r.Chance(15) || (!c.Thorough() && i == 3)
		nOld, nNew := r.Range(0, 12), r.Range(0, 12)
		if big {
			nNew = hc.Pick(r, 60, 300, 900)
		}
		s.oldData, s.newData = genSession(r, nOld), genSession(r, nNew)
		if r.Chance(10) {
			s.newData = s.oldData // saving an unchanged session
			c.Count("data.new=old")
		}
		s.old, s.new = marshal(s.oldData), marshal(s.newData)
		c.Count("data.json-session")
	}
	if !s.hasOld {
		s.old, s.oldData = nil, nil
	}
	return s
}

func straceStore(self, cwd, pathArg, dataFile, traceFile string) (string, error) {
	cmd := exec.Command("strace", "-f", "-xx", "-s", "4194304", "-o", traceFile,
		"-e", "trace=openat,open,creat,write,pwrite64,writev,fsync,fdatasync,rename,renameat,renameat2,close,ftruncate,truncate,unlink,unlinkat,link,linkat,symlink,symlinkat",
		self, "c31-store", pathArg, dataFile)
	cmd.Dir = cwd
	out, err := cmd.CombinedOutput()
	if err != nil {
		return "", fmt.Errorf("strace/store failed: %v: %s", err, out)
	}
	b, err := os.ReadFile(traceFile)
	return string(b), err
}

func entsWire(ents []ent) string {
	if len(ents) == 0 {
		return "-"
	}
	w := make([]string, len(ents))
	for i, e := range ents {
		w[i] = hexName(e.name) + "=" + hc.Hex(e.data)
	}
	return strings.Join(w, ",")
}

func stripPL(tok string) (cls, pl, listing string) {
	p := strings.SplitN(tok, "/", 3)
	if len(p) != 3 {
		return tok, "", ""
	}
	return p[0], p[1], p[2]
}

func run(c *hc.Ctx) error {
	r := c.Rng
	if _, err := exec.LookPath("strace"); err != nil {
		return fmt.Errorf("strace not available: %w", err)
	}
	self, err := os.Executable()
	if err != nil {
		return err
	}
	base, err := os.MkdirTemp("", "c31-")
	if err != nil {
		return err
	}
	defer os.RemoveAll(base)
	if b, err := filepath.EvalSymlinks(base); err == nil {
		base = b
	}
	c.Res.Rule = "one case = one real StoreSession run under strace (old session present 80%, JSON sessions of 0..12 (some 60..900) DC options or raw bytes, " +
		"absolute/relative paths, unrelated and stale temporary files in the directory); evaluations = crash points (every system-call boundary and " +
		"every cut of every write; writes > 2000 bytes are cut at 0,1,2,page boundaries,len-1 and 24 random offsets); non-trivial = crash point strictly " +
		"inside the save (after the first and before the last system call); distinct = distinct (trace, crash point)"
	c.PartialNote("the crash model (which un-synced effects a power loss may drop) is an assumption; only the process-crash semantics is compared with the real kernel by replaying every trace prefix")
	c.PartialNote("power-loss states are produced by the Lean model from the observed trace and then loaded with session.Loader; they cannot be produced by the kernel in a test")
	nCases := c.N(10, 120)
	var lastErr error
	for i := 0; i < nCases; i++ {
		sc := genScenario(r, c, i)
		cr := r.Fork()
		if err := runCase(c, cr, base, self, i, sc); err != nil {
			lastErr = err
			if !errors.Is(err, hc.ErrNoModel) {
				return err
			}
		}
	}
	return lastErr
}

func runCase(c *hc.Ctx, r *hc.RNG, base, self string, idx int, sc scenario) error {
	work := filepath.Join(base, fmt.Sprintf("case%d", idx))
	dir := filepath.Join(work, "sessdir")
	if err := os.MkdirAll(dir, 0o700); err != nil {
		return err
	}
	defer os.RemoveAll(work)
	ents := append([]ent{}, sc.others...)
	if sc.hasOld {
		ents = append(ents, ent{sc.fileName, sc.old})
	}
	sort.Slice(ents, func(i, j int) bool { return ents[i].name < ents[j].name })
	keep := map[string]bool{sc.fileName: true}
	for _, e := range ents {
		keep[e.name] = true
		if err := os.WriteFile(filepath.Join(dir, e.name), e.data, 0o600); err != nil {
			return err
		}
	}
	dataFile := filepath.Join(work, "new.bin")
	if err := os.WriteFile(dataFile, sc.new, 0o600); err != nil {
		return err
	}
	cwd, pathArg := work, filepath.Join(dir, sc.fileName)
	switch sc.relative {
	case "base":
		cwd, pathArg = dir, sc.fileName
	case "sub":
		cwd, pathArg = work, filepath.Join("sessdir", sc.fileName)
	}
	c.Count("path." + map[string]string{"": "absolute", "base": "relative-bare", "sub": "relative-subdir"}[sc.relative])
	if sc.hasOld {
		c.Count("old.present")
	} else {
		c.Count("old.absent")
	}
	text, err := straceStore(self, cwd, pathArg, dataFile, filepath.Join(work, "trace.txt"))
	if err != nil {
		return err
	}
	rawTr, st, err := parseTrace(text, cwd, dir)
	if err != nil {
		return err
	}
	if len(rawTr) == 0 {
		return fmt.Errorf("no system call touching the session directory was observed (strace output %d bytes)", len(text))
	}
	// the save itself must have worked
	if got, err := os.ReadFile(filepath.Join(dir, sc.fileName)); err != nil || !bytes.Equal(got, sc.new) {
		c.Fail("store-did-not-store", "store "+hexName(sc.fileName)+" "+hc.Hex(sc.new), fmt.Sprintf("after StoreSession the file does not hold the data (err=%v)", err))
	}
	tr, orig := canonNames(rawTr, keep)
	for _, o := range orig {
		if strings.HasPrefix(o, sc.fileName+".") && strings.HasSuffix(o, ".tmp") {
			c.Count("tmpname.<file>.*.tmp")
		} else {
			c.Count("tmpname.other")
		}
	}
	c.Count(fmt.Sprintf("trace.ops=%d", len(tr)))
	if st.failedCalls > 0 {
		c.Count("trace.has-failed-syscalls")
	}
	kinds := ""
	for _, o := range tr {
		kinds += string(o.kind)
	}
	c.Count("trace.shape=" + kinds)

	total := 0
	for _, o := range tr {
		total += len(o.data)
	}
	exhaustive := total <= 2000
	sample := func(n int) []int {
		if exhaustive {
			ks := make([]int, n)
			for i := range ks {
				ks[i] = i
			}
			return ks
		}
		set := map[int]bool{}
		for _, k := range []int{0, 1, 2, 4095, 4096, 4097, 8192, n / 2, n - 2, n - 1} {
			if k >= 0 && k < n {
				set[k] = true
			}
		}
		for j := 0; j < 24 && n > 0; j++ {
			set[r.Intn(n)] = true
		}
		var ks []int
		for k := range set {
			ks = append(ks, k)
		}
		sort.Ints(ks)
		return ks
	}
	if exhaustive {
		c.Count("writes.cut-everywhere")
	} else {
		c.Count("writes.cut-sampled")
	}
	cps := allCrashPoints(tr, sample)
	head := fmt.Sprintf("%s %s %s", hexName(sc.fileName), hc.Hex(sc.new), entsWire(ents))
	full := head + " " + wireTrace(tr)

	// ---- monitor 1 (model-free): replay every crash point for real, read it back
	implTok := make([]string, len(cps))
	// crash states are rebuilt on tmpfs when there is one (7x faster here; same process-crash semantics)
	replayDir := filepath.Join(work, "replay")
	if d, err := os.MkdirTemp("/dev/shm", "c31-replay-"); err == nil {
		replayDir = d
		defer os.RemoveAll(d)
	}
	os.MkdirAll(replayDir, 0o700)
	for j, cp := range cps {
		inside := !(cp.ops == 0 && cp.part < 0) && cp.ops < len(tr)
		sig := fmt.Sprintf("%s @%d+%d", full, cp.ops, cp.part)
		c.Eval(sig, inside)
		d, err := materialise(replayDir, ents, truncated(tr, cp))
		if err != nil {
			os.RemoveAll(d)
			return fmt.Errorf("replaying the observed trace failed at crash point %d+%d: %w", cp.ops, cp.part, err)
		}
		p := filepath.Join(d, sc.fileName)
		got, rerr := os.ReadFile(p)
		cls := classify(got, rerr == nil, sc.old, sc.hasOld, sc.new)
		lst, err := listDir(d)
		if err != nil {
			return err
		}
		implTok[j] = cls + "/" + lst
		c.Count("crash-state." + cls)
		if cls != "old" && cls != "new" {
			what := fmt.Sprintf("after %d system calls", cp.ops)
			if cp.part >= 0 {
				what += fmt.Sprintf(" and %d of %d bytes of the next write", cp.part, len(tr[cp.ops].data))
			}
			c.Fail("crash-state-neither-old-nor-new", sig,
				fmt.Sprintf("process crash %s: %q holds %d bytes (previous session %d bytes, new session %d bytes)", what, sc.fileName, len(got), len(sc.old), len(sc.new)))
		}
		if !sc.raw {
			v, detail := loadVerdict(p, sc.oldData, sc.newData)
			c.Count("loader." + v)
			if v != "old" && v != "new" {
				c.Fail("crash-state-not-loadable", sig, fmt.Sprintf("process crash after %d system calls (+%d bytes): %s", cp.ops, cp.part, detail))
			}
		}
		os.RemoveAll(d)
	}

	// ---- monitor 2 (syntactic, model-free): data of a renamed-in file is fsynced before the rename
	dirty := map[int]bool{}   // fd has un-synced writes
	fdName := map[int]string{} // fd -> name it was opened as
	dirtyName := map[string]bool{}
	for _, o := range tr {
		switch o.kind {
		case 'o':
			fdName[o.fd] = o.name
			if o.name == sc.fileName && (o.flags&(syscall.O_TRUNC|syscall.O_WRONLY|syscall.O_RDWR) != 0) {
				c.Fail("session-file-opened-for-writing", full, "the session file itself is opened for writing / truncation: its content changes in place")
			}
		case 'w', 't':
			dirty[o.fd] = true
			dirtyName[fdName[o.fd]] = true
		case 's':
			dirty[o.fd] = false
			dirtyName[fdName[o.fd]] = false
		case 'r':
			if o.name2 == sc.fileName && dirtyName[o.name] {
				c.Fail("rename-before-fsync", full, "the temporary file is renamed over the session file while it has un-fsynced data: a power loss can keep the rename and lose the data")
			}
		}
	}

	// ---- model: shape, crash states, power-loss outcomes, predicted trace
	if c.Drv == nil {
		return hc.ErrNoModel
	}
	var modelTok []string
	flags := ""
	if exhaustive {
		out, err := c.Drv.Ask("crash " + full)
		if err != nil {
			return err
		}
		w := strings.Fields(out)
		if len(w) < 4 {
			return fmt.Errorf("driver answered %q", out)
		}
		flags, modelTok = w[0]+" "+w[1]+" "+w[2], w[4:]
	} else {
		var lines []string
		for _, cp := range cps {
			lines = append(lines, "final "+head+" "+wireTrace(truncated(tr, cp)))
		}
		lines = append(lines, "shape "+full)
		outs, err := c.Drv.Batch(lines)
		if err != nil {
			return err
		}
		modelTok = outs[:len(outs)-1]
		flags = outs[len(outs)-1]
	}
	if len(modelTok) != len(cps) {
		c.Differ(full, fmt.Sprintf("%d crash points", len(cps)), fmt.Sprintf("%d crash states", len(modelTok)), "number of crash states")
		return nil
	}
	// the observed trace must be inside the class the theorems cover
	// (atomic + fresh: atomic_replace_safe*; durable: repeated_saves_safe needs the directory fsync to have succeeded)
	if c.Compare("shape "+full, "atomic=1 fresh=1 durable=1", flags) {
		c.Res.TracesValidated++
	}
	plShown := false
	for j, cp := range cps {
		cls, pl, lst := stripPL(modelTok[j])
		if c.Compare(fmt.Sprintf("%s @%d+%d", full, cp.ops, cp.part), implTok[j], cls+"/"+lst) {
			c.Res.TracesValidated++
		}
		c.Count("powerloss." + pl)
		for _, k := range strings.Split(pl, "+") {
			if k == "old" || k == "new" {
				continue
			}
			// materialise the offending power-loss contents and load them
			detail := "power loss: model outcome class " + k
			if exhaustive && !plShown {
				plShown = true
				if out, err := c.Drv.Ask(fmt.Sprintf("plreads %d %s", j, full)); err == nil {
					for _, h := range strings.Fields(out) {
						if h == "none" {
							continue
						}
						b, _ := hc.UnHex(h)
						if bytes.Equal(b, sc.new) || (sc.hasOld && bytes.Equal(b, sc.old)) {
							continue
						}
						p := filepath.Join(replayDir, "pl.json")
						os.WriteFile(p, b, 0o600)
						v, d := "", ""
						if !sc.raw {
							v, d = loadVerdict(p, sc.oldData, sc.newData)
						}
						os.Remove(p)
						detail = fmt.Sprintf("power loss after %d system calls (+%d bytes) can leave %d bytes in %q (previous %d, new %d); Loader verdict %q %s",
							cp.ops, cp.part, len(b), sc.fileName, len(sc.old), len(sc.new), v, d)
						break
					}
				}
			}
			c.Fail("powerloss-state-neither-old-nor-new", fmt.Sprintf("%s @%d+%d", full, cp.ops, cp.part), detail)
			break
		}
	}
	// the trace predicted from the regenerated call list
	var chunks []string
	fd, dfd, tmp := -1, 0, "vtmp1"
	for _, o := range tr {
		switch o.kind {
		case 'o':
			if fd < 0 {
				fd = o.fd
				if o.name != sc.fileName {
					tmp = o.name
				}
			}
		case 'd':
			dfd = o.fd
		case 'w':
			chunks = append(chunks, hc.Hex(o.data))
		}
	}
	if len(chunks) == 0 {
		chunks = []string{"-"}
	}
	pred, err := c.Drv.Ask(fmt.Sprintf("impl %d %d %s %s %s", fd, dfd, hexName(tmp), hexName(sc.fileName), strings.Join(chunks, ",")))
	if err != nil {
		return err
	}
	if c.Compare("impl-trace "+full, wireTrace(tr), pred) {
		c.Res.TracesValidated++
	}
	return nil
}
