// C31 — session file updates are atomic with respect to crashes.
//
// The system-call trace of the real session.FileStorage.StoreSession is OBSERVED (strace around a
// re-exec of this binary in `c31-store` mode), parsed, and
//   - handed to the Lean crash model (drv_c31: isAtomicReplace, crashStates, plReads),
//   - compared with the trace the model predicts from the regenerated call list (Facts.C31.storeOps),
//   - replayed for real, prefix by prefix (every system-call boundary and every cut of every write),
//     in a scratch directory; every such crash state is read back through session.Loader.Load and
//     must be the complete previous or the complete new session (property monitor), and its
//     directory listing must equal the model's crash state (correspondence of the crash model
//     with the kernel's file system).
package main

import (
	"bytes"
	"context"
	"errors"
	"fmt"
	"go/ast"
	"go/token"
	"os"
	"os/exec"
	"path/filepath"
	"reflect"
	"regexp"
	"runtime"
	"sort"
	"strconv"
	"strings"
	"sync"
	"sync/atomic"
	"syscall"
	"time"

	"github.com/gotd/td/session"
	"github.com/gotd/td/tg"

	"verif/harness/hc"
)

func init() {
	// The traced process does all its file-system calls on the main thread, so that strace's
	// per-thread fault-injection counters (inject=…:when=N) address them deterministically.
	if len(os.Args) > 1 && os.Args[1] == "c31-store" {
		runtime.LockOSThread()
	}
}

func main() {
	if len(os.Args) >= 4 && os.Args[1] == "c31-store" {
		// The traced process: nothing but the real StoreSession.
		data, err := os.ReadFile(os.Args[3])
		if err != nil {
			fmt.Fprintln(os.Stderr, err)
			os.Exit(3)
		}
		st := &session.FileStorage{Path: os.Args[2]}
		if err := st.StoreSession(context.Background(), data); err != nil {
			fmt.Fprintln(os.Stderr, err)
			os.Exit(4)
		}
		return
	}
	if len(os.Args) >= 4 && os.Args[1] == "c31-multi" {
		// Several goroutines save different sessions through ONE FileStorage at the same time.
		st := &session.FileStorage{Path: os.Args[2]}
		var wg sync.WaitGroup
		start := make(chan struct{})
		var failed atomic.Bool
		for _, df := range os.Args[3:] {
			data, err := os.ReadFile(df)
			if err != nil {
				fmt.Fprintln(os.Stderr, err)
				os.Exit(3)
			}
			wg.Add(1)
			go func() {
				defer wg.Done()
				<-start
				if err := st.StoreSession(context.Background(), data); err != nil {
					fmt.Fprintln(os.Stderr, err)
					failed.Store(true)
				}
			}()
		}
		close(start)
		wg.Wait()
		if failed.Load() {
			os.Exit(4)
		}
		return
	}
	hc.Main(hc.Spec{Prop: "C31", Facts: facts, Run: run})
}

// ---------------------------------------------------------------------------------------------
// facts: the ordered file-system calls of FileStorage.StoreSession (same-package helpers inlined,
// `defer`, closures and `if err != nil {…}` bodies skipped).

var fsCalls = map[string]bool{
	"WriteFile": true, "CreateTemp": true, "OpenFile": true, "Create": true, "Write": true, "WriteString": true,
	"WriteAt": true, "Sync": true, "Close": true, "Rename": true, "Open": true, "Truncate": true, "Remove": true,
	"Link": true, "Symlink": true, "ReadFrom": true,
}

func isErrNotNil(e ast.Expr) bool {
	b, ok := e.(*ast.BinaryExpr)
	if !ok || b.Op != token.NEQ {
		return false
	}
	x, ok1 := b.X.(*ast.Ident)
	y, ok2 := b.Y.(*ast.Ident)
	return ok1 && ok2 && strings.HasSuffix(strings.ToLower(x.Name), "err") && y.Name == "nil"
}

// operand classes: what a call's arguments / receiver ARE (independent of variable names)
//
//	path          the session file (f.Path / the parameter bound to it)
//	data          the bytes to store (StoreSession's data parameter)
//	dir-of-path   filepath.Dir(path)
//	tmp-file      the *os.File returned by os.CreateTemp / os.OpenFile / os.Create
//	tmp-name      tmp-file.Name()
//	opened:<c>    the *os.File returned by os.Open(<c>)
//	?<src>        anything else
type factsWalker struct {
	f       *hc.Facts
	ops     []string
	cleanup []string
	locked  bool
	unlock  bool
}

func (w *factsWalker) class(env map[string]string, e ast.Expr) string {
	switch v := e.(type) {
	case *ast.Ident:
		if c, ok := env[v.Name]; ok {
			return c
		}
	case *ast.SelectorExpr:
		if w.f.Src(v) == "f.Path" {
			return "path"
		}
	case *ast.CallExpr:
		src := w.f.Src(v.Fun)
		switch {
		case src == "filepath.Dir" && len(v.Args) == 1 && w.class(env, v.Args[0]) == "path":
			return "dir-of-path"
		case src == "os.CreateTemp" || src == "os.OpenFile" || src == "os.Create":
			return "tmp-file"
		case src == "os.Open" && len(v.Args) == 1:
			return "opened:" + w.class(env, v.Args[0])
		}
		if sel, ok := v.Fun.(*ast.SelectorExpr); ok && sel.Sel.Name == "Name" && len(v.Args) == 0 && w.class(env, sel.X) == "tmp-file" {
			return "tmp-name"
		}
	}
	return "?" + strings.Join(strings.Fields(w.f.Src(e)), "")
}

// tag renders one file-system call with the classes of its operands.
func (w *factsWalker) tag(env map[string]string, c *ast.CallExpr, sel *ast.SelectorExpr) string {
	name := sel.Sel.Name
	arg := func(i int) string {
		if i < len(c.Args) {
			return w.class(env, c.Args[i])
		}
		return "?"
	}
	switch name {
	case "CreateTemp", "Open", "Remove", "Truncate":
		return name + ":" + arg(0)
	case "OpenFile", "Create":
		return name + ":" + arg(0)
	case "Rename", "Link", "Symlink":
		return name + ":" + arg(0) + ">" + arg(1)
	case "WriteFile":
		return name + ":" + arg(0) + "<" + arg(1)
	case "Write", "WriteString", "WriteAt", "ReadFrom":
		return name + ":" + w.class(env, sel.X) + "<" + arg(0)
	default: // Sync, Close
		return name + ":" + w.class(env, sel.X)
	}
}

func (w *factsWalker) fn(fd *ast.FuncDecl, env map[string]string, depth int) {
	var walk func(n ast.Node)
	bind := func(lhs []ast.Expr, rhs []ast.Expr) {
		if len(rhs) == 1 && len(lhs) >= 1 {
			if id, ok := lhs[0].(*ast.Ident); ok && id.Name != "_" {
				env[id.Name] = w.class(env, rhs[0])
			}
		}
	}
	walk = func(n ast.Node) {
		if n == nil || reflect.ValueOf(n).IsNil() {
			return
		}
		ast.Inspect(n, func(x ast.Node) bool {
			switch v := x.(type) {
			case *ast.GoStmt, *ast.FuncLit:
				return false
			case *ast.DeferStmt:
				if lit, ok := v.Call.Fun.(*ast.FuncLit); ok { // deferred error cleanup
					ast.Inspect(lit.Body, func(y ast.Node) bool {
						if c, ok := y.(*ast.CallExpr); ok {
							if sel, ok := c.Fun.(*ast.SelectorExpr); ok && fsCalls[sel.Sel.Name] {
								w.cleanup = append(w.cleanup, w.tag(env, c, sel))
							}
						}
						return true
					})
				} else if w.f.Src(v.Call.Fun) == "f.mux.Unlock" && depth == 0 {
					w.unlock = true
				}
				return false
			case *ast.AssignStmt:
				for _, r := range v.Rhs {
					walk(r)
				}
				bind(v.Lhs, v.Rhs)
				return false
			case *ast.IfStmt:
				walk(v.Init)
				walk(v.Cond)
				if !isErrNotNil(v.Cond) {
					walk(v.Body)
				}
				walk(v.Else)
				return false
			case *ast.CallExpr:
				for _, a := range v.Args {
					walk(a)
				}
				switch fn := v.Fun.(type) {
				case *ast.SelectorExpr:
					walk(fn.X)
					if w.f.Src(fn) == "f.mux.Lock" && depth == 0 && len(w.ops) == 0 {
						w.locked = true
					}
					if fsCalls[fn.Sel.Name] {
						w.ops = append(w.ops, w.tag(env, v, fn))
					}
				case *ast.Ident:
					if d := w.f.FuncDecl("session", fn.Name); d != nil && d.Body != nil && depth < 3 {
						sub := map[string]string{}
						i := 0
						for _, p := range d.Type.Params.List {
							for _, nm := range p.Names {
								if i < len(v.Args) {
									sub[nm.Name] = w.class(env, v.Args[i])
								}
								i++
							}
						}
						w.fn(d, sub, depth+1)
					}
				}
				return false
			}
			return true
		})
	}
	walk(fd.Body)
}

func facts(f *hc.Facts) {
	root := f.FuncDecl("session", "FileStorage.StoreSession")
	if root == nil || root.Body == nil || root.Type.Params == nil || len(root.Type.Params.List) != 2 {
		f.Missing("storeOps", "session.FileStorage.StoreSession(ctx, data) not found")
		return
	}
	w := &factsWalker{f: f}
	env := map[string]string{}
	for _, nm := range root.Type.Params.List[1].Names {
		env[nm.Name] = "data"
	}
	w.fn(root, env, 0)
	quote := func(xs []string) string {
		q := make([]string, len(xs))
		for i, o := range xs {
			q[i] = strconv.Quote(o)
		}
		return "[" + strings.Join(q, ", ") + "]"
	}
	f.Raw("/-- file-system calls of session.FileStorage.StoreSession in execution order (success path), each with the classes of its operands -/")
	f.Raw("def storeOps : List String := " + quote(w.ops))
	f.Raw("/-- file-system calls of the deferred error cleanup of writeFileAtomic -/")
	f.Raw("def storeCleanup : List String := " + quote(w.cleanup))
	f.Bool("storeLocked", w.locked && w.unlock, "StoreSession holds f.mux for the whole call (Lock before the first file-system call, deferred Unlock)")
}

// ---------------------------------------------------------------------------------------------
// trace

type op struct {
	pid   string // thread that issued it
	sys   string // system call name
	ord   int    // ordinal of this call among the calls of that name by that thread (1-based; strace inject when=)
	kind  byte   // o d w s c r t u x
	fd    int
	name  string // base name (o, u), source (r)
	name2 string // rename target
	data  []byte
	n     int
	flags int    // raw open flags (replay)
	mode  uint32 // open mode
	tag   string
}

func hexName(s string) string { return hc.Hex([]byte(s)) }

func (o op) wire() string {
	switch o.kind {
	case 'o':
		fl := ""
		if o.flags&syscall.O_CREAT != 0 {
			fl += "c"
		}
		if o.flags&syscall.O_EXCL != 0 {
			fl += "x"
		}
		if o.flags&syscall.O_TRUNC != 0 {
			fl += "t"
		}
		if o.flags&syscall.O_APPEND != 0 {
			fl += "a"
		}
		if fl == "" {
			fl = "-"
		}
		return fmt.Sprintf("o:%d:%s:%s", o.fd, hexName(o.name), fl)
	case 'd':
		return fmt.Sprintf("d:%d", o.fd)
	case 'w':
		return fmt.Sprintf("w:%d:%s", o.fd, hc.Hex(o.data))
	case 's':
		return fmt.Sprintf("s:%d", o.fd)
	case 'c':
		return fmt.Sprintf("c:%d", o.fd)
	case 'r':
		return fmt.Sprintf("r:%s:%s", hexName(o.name), hexName(o.name2))
	case 't':
		return fmt.Sprintf("t:%d:%d", o.fd, o.n)
	case 'u':
		return "u:" + hexName(o.name)
	}
	return "x:" + o.tag
}

func wireTrace(tr []op) string {
	w := make([]string, len(tr))
	for i, o := range tr {
		w[i] = o.wire()
	}
	return strings.Join(w, " ")
}

var openFlagNames = map[string]int{
	"O_RDONLY": syscall.O_RDONLY, "O_WRONLY": syscall.O_WRONLY, "O_RDWR": syscall.O_RDWR, "O_CREAT": syscall.O_CREAT,
	"O_EXCL": syscall.O_EXCL, "O_TRUNC": syscall.O_TRUNC, "O_APPEND": syscall.O_APPEND, "O_CLOEXEC": syscall.O_CLOEXEC,
	"O_NONBLOCK": syscall.O_NONBLOCK, "O_DIRECTORY": syscall.O_DIRECTORY, "O_NOFOLLOW": syscall.O_NOFOLLOW,
	"O_LARGEFILE": 0, "O_NOCTTY": syscall.O_NOCTTY,
}

var (
	reLine    = regexp.MustCompile(`^(\d+)\s+(.*)$`)
	reUnfin   = regexp.MustCompile(`^(.*) <unfinished \.\.\.>$`)
	reResumed = regexp.MustCompile(`^<\.\.\. (\w+) resumed>(.*)$`)
	reCall    = regexp.MustCompile(`^(\w+)\((.*)\)\s+= (-?\d+|\?)(.*)$`)
	reStr     = regexp.MustCompile(`"((?:\\x[0-9a-f]{2})*)"(\.\.\.)?`)
)

func unescape(s string) string {
	var b []byte
	for i := 0; i+3 < len(s)+1 && i < len(s); i += 4 {
		v, _ := strconv.ParseUint(s[i+2:i+4], 16, 8)
		b = append(b, byte(v))
	}
	return string(b)
}

// splitArgs splits a strace argument list at top-level commas (strings contain no commas: -xx).
func splitArgs(s string) []string {
	var out []string
	depth, start := 0, 0
	for i, ch := range s {
		switch ch {
		case '(', '[', '{':
			depth++
		case ')', ']', '}':
			depth--
		case ',':
			if depth == 0 {
				out = append(out, strings.TrimSpace(s[start:i]))
				start = i + 1
			}
		}
	}
	return append(out, strings.TrimSpace(s[start:]))
}

func argStr(a string) (string, bool, bool) {
	m := reStr.FindStringSubmatch(a)
	if m == nil || !strings.HasPrefix(a, `"`) {
		return "", false, false
	}
	return unescape(m[1]), m[2] != "", true
}

type parseStats struct {
	failedCalls, ignored int
	injected             string // the fault-injected call, if it touched the session directory: "<kind>" else ""
	injectedAny          bool
}

// parseTrace turns strace output into the operations that touch `dir` (absolute, clean).
func parseTrace(text, cwd, dir string) ([]op, parseStats, error) {
	var st parseStats
	pending := map[string]string{}
	fds := map[int]bool{}
	ords := map[string]int{}
	var tr []op
	// ops appended while handling a line are tagged with that line's thread / call / ordinal
	tagged, prevPid, prevSys, prevOrd := 0, "", "", 0
	flushTags := func() {
		for ; tagged < len(tr); tagged++ {
			tr[tagged].pid, tr[tagged].sys, tr[tagged].ord = prevPid, prevSys, prevOrd
		}
	}
	inDir := func(p string) (string, bool) {
		if !filepath.IsAbs(p) {
			p = filepath.Join(cwd, p)
		}
		p = filepath.Clean(p)
		if filepath.Dir(p) == dir && p != dir {
			return filepath.Base(p), true
		}
		return "", false
	}
	isDir := func(p string) bool {
		if !filepath.IsAbs(p) {
			p = filepath.Join(cwd, p)
		}
		return filepath.Clean(p) == dir
	}
	for _, raw := range strings.Split(text, "\n") {
		m := reLine.FindStringSubmatch(raw)
		if m == nil {
			continue
		}
		pid, rest := m[1], m[2]
		if strings.HasPrefix(rest, "---") || strings.HasPrefix(rest, "+++") {
			continue
		}
		if u := reUnfin.FindStringSubmatch(rest); u != nil {
			pending[pid] = u[1]
			continue
		}
		if r := reResumed.FindStringSubmatch(rest); r != nil {
			rest = pending[pid] + r[2]
			delete(pending, pid)
		}
		c := reCall.FindStringSubmatch(rest)
		if c == nil {
			continue
		}
		name, args := c[1], splitArgs(c[2])
		flushTags()
		ords[pid+" "+name]++
		ord := ords[pid+" "+name]
		prevPid, prevSys, prevOrd = pid, name, ord
		ret, err := strconv.Atoi(c[3])
		if err != nil || ret < 0 {
			st.failedCalls++
			if strings.Contains(c[4], "(INJECTED)") {
				st.injectedAny = true
				// did the injected failure hit a call on the session directory?
				hit := false
				for i, a := range args {
					if p, _, ok := argStr(a); ok {
						if _, in := inDir(p); in || isDir(p) {
							hit = true
						}
					} else if i == 0 {
						if v, err := strconv.Atoi(a); err == nil && fds[v] {
							hit = true
						}
					}
				}
				if hit {
					st.injected = name
				}
			}
			continue
		}

		num := func(i int) int {
			if i >= len(args) {
				return -1
			}
			v, err := strconv.Atoi(args[i])
			if err != nil {
				return -1
			}
			return v
		}
		str := func(i int) (string, bool) {
			if i >= len(args) {
				return "", false
			}
			s, trunc, ok := argStr(args[i])
			if trunc {
				return "", false
			}
			return s, ok
		}
		unknown := func(why string) { tr = append(tr, op{kind: 'x', tag: name + "-" + why}) }
		switch name {
		case "openat", "open", "creat":
			pi := 0
			if name == "openat" {
				pi = 1
			}
			p, ok := str(pi)
			if !ok {
				return nil, st, fmt.Errorf("unparsed path in %q", rest)
			}
			if name == "openat" && args[0] != "AT_FDCWD" && !filepath.IsAbs(p) {
				if fds[num(0)] {
					unknown("dirfd")
				}
				continue
			}
			if isDir(p) {
				fds[ret] = true
				tr = append(tr, op{kind: 'd', fd: ret})
				continue
			}
			base, ok := inDir(p)
			if !ok {
				st.ignored++
				continue
			}
			flags, bad := 0, false
			if name == "creat" {
				flags = syscall.O_CREAT | syscall.O_WRONLY | syscall.O_TRUNC
			} else {
				for _, fl := range strings.Split(args[pi+1], "|") {
					v, ok := openFlagNames[fl]
					if !ok {
						bad = true
					}
					flags |= v
				}
			}
			if bad {
				unknown("flags-" + args[pi+1])
				continue
			}
			mode := uint32(0)
			if pi+2 < len(args) {
				v, _ := strconv.ParseUint(args[pi+2], 8, 32)
				mode = uint32(v)
			}
			fds[ret] = true
			tr = append(tr, op{kind: 'o', fd: ret, name: base, flags: flags, mode: mode})
		case "write":
			if !fds[num(0)] {
				st.ignored++
				continue
			}
			d, ok := str(1)
			if !ok || len(d) < ret {
				return nil, st, fmt.Errorf("write data truncated in trace (%d of %d bytes)", len(d), ret)
			}
			tr = append(tr, op{kind: 'w', fd: num(0), data: []byte(d[:ret])})
		case "fsync", "fdatasync":
			if fds[num(0)] {
				tr = append(tr, op{kind: 's', fd: num(0)})
			}
		case "close":
			if fds[num(0)] {
				delete(fds, num(0))
				tr = append(tr, op{kind: 'c', fd: num(0)})
			}
		case "ftruncate":
			if fds[num(0)] {
				tr = append(tr, op{kind: 't', fd: num(0), n: num(1)})
			}
		case "rename", "renameat", "renameat2":
			ai, bi := 0, 1
			if name != "rename" {
				ai, bi = 1, 3
				if args[0] != "AT_FDCWD" || args[2] != "AT_FDCWD" {
					unknown("dirfd")
					continue
				}
			}
			a, ok1 := str(ai)
			b, ok2 := str(bi)
			if !ok1 || !ok2 {
				return nil, st, fmt.Errorf("unparsed rename %q", rest)
			}
			an, ain := inDir(a)
			bn, bin := inDir(b)
			switch {
			case ain && bin && (name != "renameat2" || args[4] == "0"):
				tr = append(tr, op{kind: 'r', name: an, name2: bn})
			case ain || bin:
				unknown("across-dir-or-flags")
			}
		case "unlink", "unlinkat":
			pi := 0
			if name == "unlinkat" {
				pi = 1
			}
			if p, ok := str(pi); ok {
				if base, ok := inDir(p); ok {
					if name == "unlinkat" && args[0] != "AT_FDCWD" {
						unknown("dirfd")
					} else {
						tr = append(tr, op{kind: 'u', name: base})
					}
				}
			}
		default: // pwrite64, writev, truncate, link, linkat, symlink, symlinkat, …
			touch := fds[num(0)]
			for i := range args {
				if p, ok := str(i); ok {
					if _, in := inDir(p); in {
						touch = true
					}
				}
			}
			if touch {
				unknown("unmodelled")
			}
		}
	}
	flushTags()
	return tr, st, nil
}

// canonNames renames every name that is neither an initial entry nor the session file to
// vtmp1, vtmp2, … (os.CreateTemp picks names from the runtime's unseeded PRNG).
func canonNames(tr []op, keep map[string]bool) ([]op, []string) {
	m := map[string]string{}
	var orig []string
	ren := func(n string) string {
		if n == "" || keep[n] {
			return n
		}
		if v, ok := m[n]; ok {
			return v
		}
		v := fmt.Sprintf("vtmp%d", len(m)+1)
		for keep[v] {
			v += "_"
		}
		m[n] = v
		orig = append(orig, n)
		return v
	}
	out := make([]op, len(tr))
	for i, o := range tr {
		o.name, o.name2 = ren(o.name), ren(o.name2)
		out[i] = o
	}
	return out, orig
}

// ---------------------------------------------------------------------------------------------
// real replay of a crash point

type ent struct {
	name string
	data []byte
}

func fnv64(b []byte) uint64 {
	h := uint64(14695981039346656037)
	for _, x := range b {
		h = (h ^ uint64(x)) * 1099511628211
	}
	return h
}

type crashPoint struct {
	ops  int // number of complete operations executed
	part int // -1, or number of bytes of operation #ops (a write) that were written
}

func allCrashPoints(tr []op, sampleWrites func(n int) []int) []crashPoint {
	cps := []crashPoint{{0, -1}}
	for i, o := range tr {
		if o.kind == 'w' {
			for _, k := range sampleWrites(len(o.data)) {
				cps = append(cps, crashPoint{i, k})
			}
		}
		cps = append(cps, crashPoint{i + 1, -1})
	}
	return cps
}

// truncated is the trace whose final state is the crash state cp.
func truncated(tr []op, cp crashPoint) []op {
	out := append([]op{}, tr[:cp.ops]...)
	if cp.part >= 0 {
		o := tr[cp.ops]
		o.data = o.data[:cp.part]
		out = append(out, o)
	}
	return out
}

// materialise executes the trace prefix for real in a fresh directory, "crashes" (drops all
// descriptors) and returns the directory.
func materialise(base string, ents []ent, tr []op) (string, error) {
	dir, err := os.MkdirTemp(base, "cs")
	if err != nil {
		return "", err
	}
	for _, e := range ents {
		if err := os.WriteFile(filepath.Join(dir, e.name), e.data, 0o600); err != nil {
			return dir, err
		}
	}
	fds := map[int]int{}
	defer func() {
		for _, fd := range fds {
			syscall.Close(fd)
		}
	}()
	for _, o := range tr {
		switch o.kind {
		case 'o':
			fd, err := syscall.Open(filepath.Join(dir, o.name), o.flags, o.mode)
			if err != nil {
				return dir, fmt.Errorf("replay open %s: %w", o.name, err)
			}
			fds[o.fd] = fd
		case 'd':
			fd, err := syscall.Open(dir, syscall.O_RDONLY, 0)
			if err != nil {
				return dir, err
			}
			fds[o.fd] = fd
		case 'w':
			d := o.data
			for len(d) > 0 {
				n, err := syscall.Write(fds[o.fd], d)
				if err != nil {
					return dir, fmt.Errorf("replay write: %w", err)
				}
				d = d[n:]
			}
		case 's': // no effect on what a surviving kernel shows; skipped (slow)
		case 'c':
			syscall.Close(fds[o.fd])
			delete(fds, o.fd)
		case 'r':
			if err := syscall.Rename(filepath.Join(dir, o.name), filepath.Join(dir, o.name2)); err != nil {
				return dir, fmt.Errorf("replay rename: %w", err)
			}
		case 't':
			if err := syscall.Ftruncate(fds[o.fd], int64(o.n)); err != nil {
				return dir, err
			}
		case 'u':
			if err := syscall.Unlink(filepath.Join(dir, o.name)); err != nil {
				return dir, err
			}
		}
	}
	return dir, nil
}

func listDir(dir string) (string, error) {
	es, err := os.ReadDir(dir)
	if err != nil {
		return "", err
	}
	// hex names: byte order, the same order as the model's sort of the hex strings
	sort.Slice(es, func(i, j int) bool { return hexName(es[i].Name()) < hexName(es[j].Name()) })
	var parts []string
	for _, e := range es {
		b, err := os.ReadFile(filepath.Join(dir, e.Name()))
		if err != nil {
			return "", err
		}
		parts = append(parts, fmt.Sprintf("%s:%d:%d", hexName(e.Name()), len(b), fnv64(b)))
	}
	if len(parts) == 0 {
		return "-", nil
	}
	return strings.Join(parts, ","), nil
}

func classify(got []byte, exists bool, old []byte, hasOld bool, new []byte) string {
	switch {
	case exists == hasOld && (!exists || bytes.Equal(got, old)):
		return "old"
	case exists && bytes.Equal(got, new):
		return "new"
	case !exists:
		return "none"
	}
	return "other"
}

// ---------------------------------------------------------------------------------------------
// sessions

type capture struct{ b []byte }

func (c *capture) LoadSession(context.Context) ([]byte, error) { return c.b, nil }
func (c *capture) StoreSession(_ context.Context, d []byte) error {
	c.b = append([]byte{}, d...)
	return nil
}

func genSession(r *hc.RNG, nOpts int) *session.Data {
	d := &session.Data{
		DC:        hc.Pick(r, 1, 2, 3, 4, 5),
		Addr:      hc.Pick(r, "", "149.154.167.50:443", "[2001:67c:4e8:f002::a]:443"),
		AuthKey:   r.Bytes(256),
		AuthKeyID: r.Bytes(8),
		Salt:      int64(r.U64()),
	}
	d.Config = session.Config{Date: r.Intn(1 << 30), Expires: r.Intn(1 << 30), ThisDC: d.DC, TestMode: r.Bool(),
		DCTxtDomainName: "apv3.stel.com", TmpSessions: r.Intn(3), WebfileDCID: 4}
	for i := 0; i < nOpts; i++ {
		d.Config.DCOptions = append(d.Config.DCOptions, tg.DCOption{ID: 1 + r.Intn(5), IPAddress: fmt.Sprintf("149.154.%d.%d", r.Intn(256), r.Intn(256)),
			Port: hc.Pick(r, 80, 443, 5222), Ipv6: r.Bool(), MediaOnly: r.Bool(), CDN: r.Chance(10), Static: r.Bool()})
	}
	return d
}

func marshal(d *session.Data) []byte {
	var c capture
	if err := (&session.Loader{Storage: &c}).Save(context.Background(), d); err != nil {
		panic(err)
	}
	return c.b
}

// loadVerdict reads `path` through the real session.Loader and says which session it is.
func loadVerdict(path string, old, new *session.Data) (verdict, detail string) {
	defer func() {
		if p := recover(); p != nil {
			verdict, detail = "panic", fmt.Sprint(p)
		}
	}()
	got, err := (&session.Loader{Storage: &session.FileStorage{Path: path}}).Load(context.Background())
	switch {
	case err != nil && errors.Is(err, session.ErrNotFound):
		if old == nil {
			return "old", ""
		}
		return "lost", "Loader.Load: " + err.Error()
	case err != nil:
		return "unusable", "Loader.Load: " + err.Error()
	case old != nil && reflect.DeepEqual(got, old):
		return "old", ""
	case reflect.DeepEqual(got, new):
		return "new", ""
	}
	return "unusable", "Loader.Load returned a session that is neither the previous nor the new one"
}

// ---------------------------------------------------------------------------------------------

type scenario struct {
	fileName string
	relative string // "", "base" (cwd = dir), "sub" (cwd = parent of dir)
	others   []ent
	hasOld   bool
	raw      bool
	old      []byte
	oldData  *session.Data   // nil when raw or absent
	news     [][]byte        // contents to save (one per StoreSession call)
	newDatas []*session.Data // nil entries when raw
}

func genScenario(r *hc.RNG, c *hc.Ctx, i int, saves int) scenario {
	var s scenario
	s.fileName = hc.Pick(r, "session.json", "session.json", "s", "tg session (1).json", "sessé.json", ".session")
	s.relative = hc.Pick(r, "", "", "base", "sub")
	s.hasOld = r.Chance(80) || i == 0
	if r.Chance(35) {
		s.others = append(s.others, ent{"unrelated.txt", r.Bytes(r.Range(0, 40))})
	}
	if r.Chance(35) { // stale temporary file left by an earlier crash
		s.others = append(s.others, ent{s.fileName + "." + strconv.Itoa(r.Intn(1<<30)) + ".tmp", r.Bytes(r.Range(0, 40))})
	}
	if r.Chance(10) {
		s.others = append(s.others, ent{"vtmp1", []byte("x")})
	}
	s.raw = r.Chance(15)
	if s.raw {
		s.old = r.Bytes(hc.Pick(r, 1, 7, 300))
		for k := 0; k < saves; k++ {
			nb := r.Bytes(hc.Pick(r, 0, 1, 2, 64, 511, 600))
			if saves > 1 { // concurrent savers: contents must be told apart (and from the old one)
				for dup := true; dup; {
					nb = r.Bytes(hc.Pick(r, 1, 2, 64, 511, 600))
					dup = bytes.Equal(nb, s.old)
					for _, x := range s.news {
						dup = dup || bytes.Equal(nb, x)
					}
				}
			}
			s.news = append(s.news, nb)
			s.newDatas = append(s.newDatas, nil)
		}
		c.Count("data.raw-bytes")
	} else {
		big := c.Thorough() && r.Chance(15) || (!c.Thorough() && i == 3)
		s.oldData = genSession(r, r.Range(0, 12))
		s.old = marshal(s.oldData)
		for k := 0; k < saves; k++ {
			n := r.Range(0, 12)
			if big && saves == 1 {
				n = hc.Pick(r, 60, 300, 900)
			}
			d := genSession(r, n)
			if r.Chance(10) && saves == 1 {
				d = s.oldData // saving an unchanged session
				c.Count("data.new=old")
			}
			s.newDatas = append(s.newDatas, d)
			s.news = append(s.news, marshal(d))
		}
		c.Count("data.json-session")
	}
	if !s.hasOld {
		s.old, s.oldData = nil, nil
	}
	return s
}

// layout creates the session directory of a scenario and the data files.
type layout struct {
	work, dir, cwd, pathArg string
	ents                    []ent
	keep                    map[string]bool
	dataFiles               []string
}

func (sc scenario) setup(work string) (*layout, error) {
	l := &layout{work: work, dir: filepath.Join(work, "sessdir"), keep: map[string]bool{sc.fileName: true}}
	if err := os.MkdirAll(l.dir, 0o700); err != nil {
		return nil, err
	}
	l.ents = append([]ent{}, sc.others...)
	if sc.hasOld {
		l.ents = append(l.ents, ent{sc.fileName, sc.old})
	}
	sort.Slice(l.ents, func(i, j int) bool { return l.ents[i].name < l.ents[j].name })
	for _, e := range l.ents {
		l.keep[e.name] = true
		if err := os.WriteFile(filepath.Join(l.dir, e.name), e.data, 0o600); err != nil {
			return nil, err
		}
	}
	for k, d := range sc.news {
		p := filepath.Join(work, fmt.Sprintf("new%d.bin", k))
		if err := os.WriteFile(p, d, 0o600); err != nil {
			return nil, err
		}
		l.dataFiles = append(l.dataFiles, p)
	}
	l.cwd, l.pathArg = work, filepath.Join(l.dir, sc.fileName)
	switch sc.relative {
	case "base":
		l.cwd, l.pathArg = l.dir, sc.fileName
	case "sub":
		l.cwd, l.pathArg = work, filepath.Join("sessdir", sc.fileName)
	}
	return l, nil
}

const straceSet = "trace=openat,open,creat,write,pwrite64,writev,fsync,fdatasync,rename,renameat,renameat2,close,ftruncate,truncate,unlink,unlinkat,link,linkat,symlink,symlinkat"

// observe runs the child under strace and returns the trace text and the child's exit code.
// Infrastructure failures (strace could not start / attach, no output, timeout) are retried: under heavy
// machine load they must not turn into a verdict.
func observe(self, cwd, traceFile string, inject string, childArgs ...string) (text string, rc int, err error) {
	for attempt := 0; attempt < 4; attempt++ {
		os.Remove(traceFile)
		args := []string{"-f", "-xx", "-s", "4194304", "-o", traceFile, "-e", straceSet}
		if inject != "" {
			args = append(args, "-e", "inject="+inject)
		}
		args = append(args, self)
		args = append(args, childArgs...)
		ctx, cancel := context.WithTimeout(context.Background(), 180*time.Second)
		cmd := exec.CommandContext(ctx, "strace", args...)
		cmd.Dir = cwd
		out, runErr := cmd.CombinedOutput()
		timedOut := ctx.Err() != nil
		cancel()
		rc = 0
		if ee, ok := runErr.(*exec.ExitError); ok {
			rc = ee.ExitCode()
		} else if runErr != nil {
			rc = -1
		}
		b, rerr := os.ReadFile(traceFile)
		infra := timedOut || rc == -1 || rerr != nil || len(b) == 0 || !strings.Contains(string(b), "exited with") ||
			(rc != 0 && rc != 4)
		if !infra {
			return string(b), rc, nil
		}
		err = fmt.Errorf("strace run failed (attempt %d, rc=%d, timeout=%v): %v: %s", attempt+1, rc, timedOut, runErr, strings.TrimSpace(string(out)))
		time.Sleep(time.Duration(200*(attempt+1)) * time.Millisecond)
	}
	return "", rc, err
}

func entsWire(ents []ent) string {
	if len(ents) == 0 {
		return "-"
	}
	w := make([]string, len(ents))
	for i, e := range ents {
		w[i] = hexName(e.name) + "=" + hc.Hex(e.data)
	}
	return strings.Join(w, ",")
}

func newsWire(news [][]byte) string {
	w := make([]string, len(news))
	for i, n := range news {
		w[i] = hc.Hex(n)
	}
	return strings.Join(w, ",")
}

func newTag(k int) string {
	if k == 0 {
		return "new"
	}
	return fmt.Sprintf("new%d", k)
}

// classifyN names a content relative to the old one and the acceptable new ones (as Drv/C31.lean does).
func classifyN(got []byte, exists bool, old []byte, hasOld bool, news [][]byte) string {
	if exists == hasOld && (!exists || bytes.Equal(got, old)) {
		return "old"
	}
	if !exists {
		return "none"
	}
	for k, n := range news {
		if bytes.Equal(got, n) {
			return newTag(k)
		}
	}
	return "other"
}

func stripPL(tok string) (cls, pl, listing string) {
	p := strings.SplitN(tok, "/", 3)
	if len(p) != 3 {
		return tok, "", ""
	}
	return p[0], p[1], p[2]
}

func isGood(cls string) bool { return cls == "old" || strings.HasPrefix(cls, "new") }

// loadVerdictN reads `path` through the real session.Loader and says which session it is.
func loadVerdictN(path string, old *session.Data, news []*session.Data) (verdict, detail string) {
	defer func() {
		if p := recover(); p != nil {
			verdict, detail = "panic", fmt.Sprint(p)
		}
	}()
	got, err := (&session.Loader{Storage: &session.FileStorage{Path: path}}).Load(context.Background())
	switch {
	case err != nil && errors.Is(err, session.ErrNotFound):
		if old == nil {
			return "old", ""
		}
		return "lost", "Loader.Load: " + err.Error()
	case err != nil:
		return "unusable", "Loader.Load: " + err.Error()
	case old != nil && reflect.DeepEqual(got, old):
		return "old", ""
	}
	for k, n := range news {
		if n != nil && reflect.DeepEqual(got, n) {
			return newTag(k), ""
		}
	}
	return "unusable", "Loader.Load returned a session that is neither the previous nor a saved one"
}

// analysis of one observed trace -----------------------------------------------------------------

type observed struct {
	// filled by analyse: crash points and the model's power-loss classes at each of them
	cps []crashPoint
	pls []string

	label      string // store | inject | multi
	sc         scenario
	l          *layout
	tr         []op
	exhaustive bool
	wantFlags  string // what the model must say about the trace
}

func (o *observed) full() string {
	return fmt.Sprintf("%s %s %s %s", hexName(o.sc.fileName), newsWire(o.sc.news), entsWire(o.l.ents), wireTrace(o.tr))
}

func (o *observed) head() string {
	return fmt.Sprintf("%s %s %s", hexName(o.sc.fileName), newsWire(o.sc.news), entsWire(o.l.ents))
}

func analyse(c *hc.Ctx, r *hc.RNG, o *observed) error {
	sc, tr := o.sc, o.tr
	sample := func(n int) []int {
		if o.exhaustive {
			ks := make([]int, n)
			for i := range ks {
				ks[i] = i
			}
			return ks
		}
		set := map[int]bool{}
		for _, k := range []int{0, 1, 2, 4095, 4096, 4097, 8192, n / 2, n - 2, n - 1} {
			if k >= 0 && k < n {
				set[k] = true
			}
		}
		for j := 0; j < 24 && n > 0; j++ {
			set[r.Intn(n)] = true
		}
		var ks []int
		for k := range set {
			ks = append(ks, k)
		}
		sort.Ints(ks)
		return ks
	}
	if o.exhaustive {
		c.Count(o.label + ".writes.cut-everywhere")
	} else {
		c.Count(o.label + ".writes.cut-sampled")
	}
	cps := allCrashPoints(tr, sample)
	full := o.full()

	// ---- monitor 1 (model-free): rebuild every crash point for real, read it back
	implTok := make([]string, len(cps))
	// crash states are rebuilt on tmpfs when there is one (7x faster here; same process-crash semantics)
	replayDir := filepath.Join(o.l.work, "replay-"+o.label)
	if d, err := os.MkdirTemp("/dev/shm", "c31-replay-"); err == nil {
		replayDir = d
		defer os.RemoveAll(d)
	}
	os.MkdirAll(replayDir, 0o700)
	for j, cp := range cps {
		inside := !(cp.ops == 0 && cp.part < 0) && cp.ops < len(tr)
		sig := fmt.Sprintf("%s @%d+%d", full, cp.ops, cp.part)
		c.Eval(sig, inside)
		d, err := materialise(replayDir, o.l.ents, truncated(tr, cp))
		if err != nil {
			os.RemoveAll(d)
			return fmt.Errorf("replaying the observed trace failed at crash point %d+%d: %w", cp.ops, cp.part, err)
		}
		p := filepath.Join(d, sc.fileName)
		got, rerr := os.ReadFile(p)
		cls := classifyN(got, rerr == nil, sc.old, sc.hasOld, sc.news)
		lst, err := listDir(d)
		if err != nil {
			return err
		}
		implTok[j] = cls + "/" + lst
		c.Count(o.label + ".crash-state." + cls)
		if !isGood(cls) {
			what := fmt.Sprintf("after %d system calls", cp.ops)
			if cp.part >= 0 {
				what += fmt.Sprintf(" and %d of %d bytes of the next write", cp.part, len(tr[cp.ops].data))
			}
			c.Fail("crash-state-neither-old-nor-new", sig,
				fmt.Sprintf("process crash %s: %q holds %d bytes (previous session %d bytes, new session %d bytes)", what, sc.fileName, len(got), len(sc.old), len(sc.news[0])))
		}
		if !sc.raw {
			v, detail := loadVerdictN(p, sc.oldData, sc.newDatas)
			c.Count(o.label + ".loader." + v)
			if !isGood(v) {
				c.Fail("crash-state-not-loadable", sig, fmt.Sprintf("process crash after %d system calls (+%d bytes): %s", cp.ops, cp.part, detail))
			}
		}
		os.RemoveAll(d)
	}

	// ---- monitor 2 (syntactic, model-free)
	fdName := map[int]string{} // fd -> name it was opened as
	dirtyName := map[string]bool{}
	for _, x := range tr {
		switch x.kind {
		case 'o':
			fdName[x.fd] = x.name
			if x.name == sc.fileName && (x.flags&(syscall.O_TRUNC|syscall.O_WRONLY|syscall.O_RDWR) != 0) {
				c.Fail("session-file-opened-for-writing", full, "the session file itself is opened for writing / truncation: its content changes in place")
			}
		case 'w', 't':
			dirtyName[fdName[x.fd]] = true
		case 's':
			dirtyName[fdName[x.fd]] = false
		case 'u':
			if x.name == sc.fileName {
				c.Fail("session-file-unlinked", full, "the session file is removed during the save: a crash before the rename leaves no session")
			}
		case 'r':
			if x.name2 == sc.fileName && dirtyName[x.name] {
				c.Fail("rename-before-fsync", full, "the temporary file is renamed over the session file while it has un-fsynced data: a power loss can keep the rename and lose the data")
			}
			if x.name == sc.fileName {
				c.Fail("session-file-renamed-away", full, "the session file is renamed away during the save")
			}
			dirtyName[x.name2], dirtyName[x.name] = dirtyName[x.name], false
		case 'x':
			c.Fail("unmodelled-call-on-session-directory", full, "system call outside the model on the session directory: "+x.tag)
		}
	}

	// ---- model: shape / discipline flags, crash states, power-loss outcomes
	if c.Drv == nil {
		return hc.ErrNoModel
	}
	var modelTok []string
	flags := ""
	if o.exhaustive {
		out, err := c.Drv.Ask("crash " + full)
		if err != nil {
			return err
		}
		w := strings.Fields(out)
		if len(w) < 6 {
			return fmt.Errorf("driver answered %q", out)
		}
		flags, modelTok = strings.Join(w[:5], " "), w[6:]
	} else {
		var lines []string
		for _, cp := range cps {
			lines = append(lines, "final "+o.head()+" "+wireTrace(truncated(tr, cp)))
		}
		lines = append(lines, "shape "+full)
		outs, err := c.Drv.Batch(lines)
		if err != nil {
			return err
		}
		modelTok = outs[:len(outs)-1]
		flags = outs[len(outs)-1]
	}
	if len(modelTok) != len(cps) {
		c.Differ(full, fmt.Sprintf("%d crash points", len(cps)), fmt.Sprintf("%d crash states", len(modelTok)), "number of crash states")
		return nil
	}
	// the observed trace must be inside the class the theorems cover
	if c.Compare("shape "+full, o.wantFlags, flags) {
		c.Res.TracesValidated++
	}
	plShown := false
	o.cps = cps
	for j, cp := range cps {
		cls, pl, lst := stripPL(modelTok[j])
		o.pls = append(o.pls, pl)
		if c.Compare(fmt.Sprintf("%s @%d+%d", full, cp.ops, cp.part), implTok[j], cls+"/"+lst) {
			c.Res.TracesValidated++
		}
		c.Count(o.label + ".powerloss." + pl)
		for _, k := range strings.Split(pl, "+") {
			if isGood(k) {
				continue
			}
			detail := "power loss: model outcome class " + k
			if o.exhaustive && !plShown {
				plShown = true
				if out, err := c.Drv.Ask(fmt.Sprintf("plreads %d %s", j, full)); err == nil {
					for _, h := range strings.Fields(out) {
						if h == "none" {
							continue
						}
						b, _ := hc.UnHex(h)
						if isGood(classifyN(b, true, sc.old, sc.hasOld, sc.news)) {
							continue
						}
						p := filepath.Join(replayDir, "pl.json")
						os.WriteFile(p, b, 0o600)
						v, d := "", ""
						if !sc.raw {
							v, d = loadVerdictN(p, sc.oldData, sc.newDatas)
						}
						os.Remove(p)
						detail = fmt.Sprintf("power loss after %d system calls (+%d bytes) can leave %d bytes in %q (previous %d, new %d); Loader verdict %q %s",
							cp.ops, cp.part, len(b), sc.fileName, len(sc.old), len(sc.news[0]), v, d)
						break
					}
				}
			}
			c.Fail("powerloss-state-neither-old-nor-new", fmt.Sprintf("%s @%d+%d", full, cp.ops, cp.part), detail)
			break
		}
	}
	return nil
}

// first file fd / dir fd / temp name / chunks of a trace, for the predicted-trace requests
func traceParams(tr []op, fileName string) (fd, dfd int, tmp string, chunks string) {
	fd, dfd, tmp = -1, -1, "vtmp1"
	var cs []string
	for _, x := range tr {
		switch x.kind {
		case 'o':
			if fd < 0 {
				fd = x.fd
				if x.name != fileName {
					tmp = x.name
				}
			}
		case 'd':
			dfd = x.fd
		case 'w':
			cs = append(cs, hc.Hex(x.data))
		}
	}
	if dfd < 0 {
		dfd = fd
	}
	if len(cs) == 0 {
		cs = []string{"-"}
	}
	return fd, dfd, tmp, strings.Join(cs, ",")
}

// ---------------------------------------------------------------------------------------------

func run(c *hc.Ctx) error {
	r := c.Rng
	if _, err := exec.LookPath("strace"); err != nil {
		return fmt.Errorf("strace not available: %w", err)
	}
	self, err := os.Executable()
	if err != nil {
		return err
	}
	base, err := os.MkdirTemp("", "c31-")
	if err != nil {
		return err
	}
	defer os.RemoveAll(base)
	if b, err := filepath.EvalSymlinks(base); err == nil {
		base = b
	}
	c.Res.Rule = "one case = one real StoreSession run under strace (old session present 80%, JSON sessions of 0..12 (some 60..900) DC options or raw bytes, " +
		"absolute/relative paths, unrelated and stale temporary files in the directory), followed by runs of the same case with one system call made to fail " +
		"(strace fault injection: ENOSPC/EIO/EACCES/EINTR/EXDEV at the temp-file open, write, fsync, close, rename, directory open/fsync/close), plus cases where " +
		"2..3 goroutines save different sessions through one FileStorage at once; evaluations = crash points (every system-call boundary and " +
		"every cut of every write; writes > 2000 bytes and the fault-injected / concurrent runs are cut at 0,1,2,page boundaries,len/2,len-2,len-1 and 24 random offsets); " +
		"non-trivial = crash point strictly inside the save; distinct = distinct (trace, crash point)"
	c.PartialNote("the crash model (which un-synced effects a power loss may drop) is an assumption; only the process-crash semantics is compared with the real kernel by replaying every trace prefix, and rename atomicity w.r.t. concurrent readers is observed directly")
	c.PartialNote("power-loss states are produced by the Lean model from the observed trace and then loaded with session.Loader; they cannot be produced by the kernel in a test")
	c.PartialNote("failing system calls are simulated by strace fault injection (the call is not executed); a failing close therefore leaves the descriptor open in the kernel, unlike a real EIO on close")
	nCases := c.N(10, 70)
	var lastErr error
	note := func(err error) error {
		if err == nil {
			return nil
		}
		lastErr = err
		if errors.Is(err, hc.ErrNoModel) {
			return nil
		}
		return err
	}
	for i := 0; i < nCases; i++ {
		sc := genScenario(r, c, i, 1)
		if err := note(runStoreCase(c, r.Fork(), base, self, i, sc)); err != nil {
			return err
		}
	}
	for i := 0; i < c.N(3, 25); i++ {
		sc := genScenario(r, c, 100+i, hc.Pick(r, 2, 2, 3))
		if err := note(runMultiCase(c, r.Fork(), base, self, i, sc)); err != nil {
			return err
		}
	}
	if err := runReaders(c, r.Fork(), base); err != nil {
		return err
	}
	if err := runUnlockedSavers(c, r.Fork(), base); err != nil {
		return err
	}
	return lastErr
}

var injectErrnos = map[string][]string{
	"openat": {"ENOSPC", "EACCES", "EMFILE"}, "write": {"ENOSPC", "EIO", "EINTR"}, "fsync": {"EIO", "ENOSPC"},
	"close": {"EIO"}, "renameat": {"ENOSPC", "EXDEV", "EACCES"},
}

func runStoreCase(c *hc.Ctx, r *hc.RNG, base, self string, idx int, sc scenario) error {
	work := filepath.Join(base, fmt.Sprintf("case%d", idx))
	defer os.RemoveAll(work)
	l, err := sc.setup(work)
	if err != nil {
		return err
	}
	c.Count("path." + map[string]string{"": "absolute", "base": "relative-bare", "sub": "relative-subdir"}[sc.relative])
	if sc.hasOld {
		c.Count("old.present")
	} else {
		c.Count("old.absent")
	}
	text, rc, err := observe(self, l.cwd, filepath.Join(work, "trace.txt"), "", "c31-store", l.pathArg, l.dataFiles[0])
	if err != nil {
		return err
	}
	rawTr, st, err := parseTrace(text, l.cwd, l.dir)
	if err != nil {
		return err
	}
	if len(rawTr) == 0 {
		return fmt.Errorf("no system call touching the session directory was observed (strace output %d bytes)", len(text))
	}
	// the save itself must have worked
	if got, err := os.ReadFile(filepath.Join(l.dir, sc.fileName)); rc != 0 || err != nil || !bytes.Equal(got, sc.news[0]) {
		c.Fail("store-did-not-store", "store "+hexName(sc.fileName)+" "+hc.Hex(sc.news[0]), fmt.Sprintf("after StoreSession (exit %d) the file does not hold the data (err=%v)", rc, err))
	}
	tr, orig := canonNames(rawTr, l.keep)
	for _, o := range orig {
		if strings.HasPrefix(o, sc.fileName+".") && strings.HasSuffix(o, ".tmp") {
			c.Count("tmpname.<file>.*.tmp")
		} else {
			c.Count("tmpname.other")
		}
	}
	if st.failedCalls > 0 {
		c.Count("trace.has-failed-syscalls")
	}
	kinds := ""
	for _, o := range tr {
		kinds += string(o.kind)
	}
	c.Count("store.trace.shape=" + kinds)
	total := 0
	for _, o := range tr {
		total += len(o.data)
	}
	ob := &observed{label: "store", sc: sc, l: l, tr: tr, exhaustive: total <= 2000,
		wantFlags: "atomic=1 fresh=1 durable=1 disciplined=1 pubs=new"}
	if err := analyse(c, r, ob); err != nil {
		return err
	}
	// the trace predicted from the regenerated call list
	fd, dfd, tmp, chunks := traceParams(tr, sc.fileName)
	pred, err := c.Drv.Ask(fmt.Sprintf("impl %d %d %s %s %s", fd, dfd, hexName(tmp), hexName(sc.fileName), chunks))
	if err != nil {
		return err
	}
	if c.Compare("impl-trace "+ob.full(), wireTrace(tr), pred) {
		c.Res.TracesValidated++
	}

	// ---- the same save with one of its system calls failing
	nInj := c.N(2, 3)
	for _, k := range permOf(r, len(rawTr), nInj) {
		target := rawTr[k]
		errnos, ok := injectErrnos[target.sys]
		if !ok || target.ord == 0 {
			c.Count("inject.skipped-" + target.sys)
			continue
		}
		errno := hc.Pick(r, errnos...)
		if err := runInjected(c, r, base, self, fmt.Sprintf("%d-%d", idx, k), sc, k, target, errno, len(tr)); err != nil {
			return err
		}
	}
	return nil
}

// perm returns up to n distinct indices below m in PRNG order.
func permOf(r *hc.RNG, m, n int) []int {
	idx := make([]int, m)
	for i := range idx {
		idx[i] = i
	}
	for i := m - 1; i > 0; i-- {
		j := r.Intn(i + 1)
		idx[i], idx[j] = idx[j], idx[i]
	}
	if n < m {
		idx = idx[:n]
	}
	return idx
}

func runInjected(c *hc.Ctx, r *hc.RNG, base, self, id string, sc scenario, k int, target op, errno string, nOps int) error {
	work := filepath.Join(base, "inj"+id)
	defer os.RemoveAll(work)
	l, err := sc.setup(work)
	if err != nil {
		return err
	}
	inject := fmt.Sprintf("%s:error=%s:when=%d", target.sys, errno, target.ord)
	text, rc, err := observe(self, l.cwd, filepath.Join(work, "trace.txt"), inject, "c31-store", l.pathArg, l.dataFiles[0])
	if err != nil {
		return err
	}
	rawTr, st, err := parseTrace(text, l.cwd, l.dir)
	if err != nil {
		return err
	}
	if st.injected == "" {
		// the counter addressed some other call of the process (start-up differs between runs): not a case
		c.Count("inject.missed")
		return nil
	}
	label := fmt.Sprintf("inject.%c-%s", target.kind, errno)
	c.Count(label + fmt.Sprintf(".exit=%d", rc))
	tr, _ := canonNames(rawTr, l.keep)
	in := fmt.Sprintf("inject %s at call %d of %s", inject, k, (&observed{sc: sc, l: l, tr: tr}).full())
	// ---- monitor: what the directory looks like after the failed / retried save
	got, rerr := os.ReadFile(filepath.Join(l.dir, sc.fileName))
	names, _ := os.ReadDir(l.dir)
	switch rc {
	case 0:
		if rerr != nil || !bytes.Equal(got, sc.news[0]) {
			c.Fail("store-did-not-store", in, "StoreSession returned nil although a system call failed, but the file does not hold the new session")
		}
	default:
		cls := classifyN(got, rerr == nil, sc.old, sc.hasOld, sc.news)
		if cls != "old" {
			c.Fail("failed-save-changed-session", in, fmt.Sprintf("StoreSession returned an error, afterwards %q is %s (%d bytes), not the previous session", sc.fileName, cls, len(got)))
		}
		if !sc.raw {
			if v, d := loadVerdictN(filepath.Join(l.dir, sc.fileName), sc.oldData, sc.newDatas); v != "old" {
				c.Fail("failed-save-changed-session", in, "after the failed save Loader.Load gives "+v+" "+d)
			}
		}
		for _, e := range names {
			if !l.keep[e.Name()] {
				c.Fail("failed-save-left-temp-file", in, "after the failed save the directory still holds "+e.Name())
			}
		}
	}
	want := "atomic=0 fresh=1 durable=0 disciplined=1 pubs=-"
	afterRename := false
	for _, x := range tr {
		if x.kind == 'r' {
			afterRename = true
		}
	}
	switch {
	case rc == 0 && afterRename && len(tr) == nOps: // a retried call (EINTR): the complete trace
		want = "atomic=1 fresh=1 durable=1 disciplined=1 pubs=new"
	case rc == 0 && afterRename: // failure in the best-effort directory sync: durable iff the directory fsync itself happened
		dirFd, synced := -1, false
		for _, x := range tr {
			switch {
			case x.kind == 'd':
				dirFd = x.fd
			case x.kind == 's' && x.fd == dirFd && dirFd >= 0:
				synced = true
			case x.kind == 'c' && x.fd == dirFd:
				dirFd = -1
			}
		}
		want = "atomic=1 fresh=1 durable=0 disciplined=1 pubs=new"
		if synced {
			want = "atomic=1 fresh=1 durable=1 disciplined=1 pubs=new"
		}
	}
	if len(tr) == 0 {
		c.Count("inject.nothing-happened")
		return nil
	}
	ob := &observed{label: "inject", sc: sc, l: l, tr: tr, exhaustive: false, wantFlags: want}
	if err := analyse(c, r, ob); err != nil {
		return err
	}
	// predicted trace of the failing save (call list + cleanup list, regenerated)
	if !(rc == 0 && len(tr) == nOps) {
		fd, dfd, tmp, chunks := traceParams(tr, sc.fileName)
		if chunks == "-" || k <= 1 { // the data never reached a write: take the chunking of the request
			chunks = hc.Hex(sc.news[0])
		}
		pred, err := c.Drv.Ask(fmt.Sprintf("abort %d %d %s %s %s %d", fd, dfd, hexName(tmp), hexName(sc.fileName), chunks, k))
		if err != nil {
			return err
		}
		if c.Compare("abort-trace "+in, wireTrace(tr), pred) {
			c.Res.TracesValidated++
		}
	}
	return nil
}

func runMultiCase(c *hc.Ctx, r *hc.RNG, base, self string, idx int, sc scenario) error {
	work := filepath.Join(base, fmt.Sprintf("multi%d", idx))
	defer os.RemoveAll(work)
	l, err := sc.setup(work)
	if err != nil {
		return err
	}
	args := append([]string{"c31-multi", l.pathArg}, l.dataFiles...)
	text, rc, err := observe(self, l.cwd, filepath.Join(work, "trace.txt"), "", args...)
	if err != nil {
		return err
	}
	rawTr, _, err := parseTrace(text, l.cwd, l.dir)
	if err != nil {
		return err
	}
	tr, _ := canonNames(rawTr, l.keep)
	c.Count(fmt.Sprintf("multi.savers=%d", len(sc.news)))
	ob := &observed{label: "multi", sc: sc, l: l, tr: tr, exhaustive: false}
	full := ob.full()
	got, rerr := os.ReadFile(filepath.Join(l.dir, sc.fileName))
	final := classifyN(got, rerr == nil, sc.old, sc.hasOld, sc.news)
	if rc != 0 || !strings.HasPrefix(final, "new") {
		c.Fail("concurrent-saves-lost", full, fmt.Sprintf("after %d concurrent StoreSession calls (exit %d) the file is %s", len(sc.news), rc, final))
	}
	names, _ := os.ReadDir(l.dir)
	for _, e := range names {
		if !l.keep[e.Name()] {
			c.Fail("concurrent-saves-left-temp-file", full, "the directory still holds "+e.Name())
		}
	}
	// every content is published exactly once, in the order of the saves; the last one is the final file
	if c.Drv == nil {
		return hc.ErrNoModel
	}
	segs, err := c.Drv.Ask("segments " + full)
	if err != nil {
		return err
	}
	order := strings.Fields(segs)
	seen := map[string]int{}
	for _, s := range order {
		seen[s]++
	}
	okSegs := len(order) == len(sc.news)
	for k := range sc.news {
		if seen[newTag(k)] != 1 {
			okSegs = false
		}
	}
	// (two savers may be given equal contents by the generator only with negligible probability)
	if c.Compare("segments "+full, fmt.Sprintf("%d atomic replacements, one per content", len(sc.news)),
		map[bool]string{true: fmt.Sprintf("%d atomic replacements, one per content", len(sc.news)), false: "segments: " + segs}[okSegs]) {
		c.Res.TracesValidated++
	}
	if okSegs {
		ob.wantFlags = "atomic=0 fresh=1 durable=0 disciplined=1 pubs=" + strings.Join(order, "+")
		if c.Compare("final "+full, final, order[len(order)-1]) {
			c.Res.TracesValidated++
		}
	} else {
		ob.wantFlags = "disciplined=1"
	}
	if err := analyse(c, r, ob); err != nil {
		return err
	}
	// ---- a save that has RETURNED must survive a power loss during the following saves: once save k is
	// complete, no crash state may fall back to anything older than what save k wrote.
	if okSegs && len(ob.pls) == len(ob.cps) {
		var starts []int // index of the first call of each save
		for i, x := range tr {
			if x.kind == 'o' {
				starts = append(starts, i)
			}
		}
		rank := map[string]int{"old": -1}
		for i, tag := range order {
			rank[tag] = i
		}
		for j, cp := range ob.cps {
			done := -1 // last save that is complete at this crash point
			for k := range starts {
				end := len(tr)
				if k+1 < len(starts) {
					end = starts[k+1]
				}
				if cp.ops >= end {
					done = k
				}
			}
			for _, cls := range strings.Split(ob.pls[j], "+") {
				if rk, ok := rank[cls]; ok && rk < done {
					c.Fail("completed-save-lost-on-power-loss", fmt.Sprintf("%s @%d+%d", full, cp.ops, cp.part),
						fmt.Sprintf("save #%d (%s) had returned, yet a power loss at this point can leave %q holding %s (directory change not fsynced)", done+1, order[done], sc.fileName, cls))
				}
			}
		}
	}
	return nil
}

// runReaders: rename atomicity as the kernel shows it to concurrent readers.  One goroutine saves a cycle of
// sessions through the real FileStorage while others keep loading the file through their own FileStorage
// (no shared lock): every load must be one of the complete sessions.
func runReaders(c *hc.Ctx, r *hc.RNG, base string) error {
	dir := filepath.Join(base, "readers")
	if err := os.MkdirAll(dir, 0o700); err != nil {
		return err
	}
	defer os.RemoveAll(dir)
	path := filepath.Join(dir, "session.json")
	var datas []*session.Data
	for i := 0; i < 4; i++ {
		datas = append(datas, genSession(r, r.Range(0, 40)))
	}
	w := &session.Loader{Storage: &session.FileStorage{Path: path}}
	if err := w.Save(context.Background(), datas[0]); err != nil {
		return err
	}
	saves := c.N(300, 3000)
	var stop atomic.Bool
	var wg sync.WaitGroup
	type bad struct{ detail string }
	bads := make(chan bad, 16)
	var loads atomic.Int64
	for g := 0; g < 3; g++ {
		wg.Add(1)
		go func() {
			defer wg.Done()
			rd := &session.Loader{Storage: &session.FileStorage{Path: path}}
			for !stop.Load() {
				got, err := rd.Load(context.Background())
				loads.Add(1)
				ok := false
				if err == nil {
					for _, d := range datas {
						if reflect.DeepEqual(got, d) {
							ok = true
						}
					}
				}
				if !ok {
					select {
					case bads <- bad{fmt.Sprintf("a concurrent Loader.Load returned err=%v (not one of the saved sessions)", err)}:
					default:
					}
				}
			}
		}()
	}
	var saveErr error
	for i := 1; i <= saves && saveErr == nil; i++ {
		saveErr = w.Save(context.Background(), datas[i%len(datas)])
	}
	stop.Store(true)
	wg.Wait()
	close(bads)
	c.Count(fmt.Sprintf("readers.saves=%d", saves))
	c.Note("concurrent readers: %d loads during %d saves", loads.Load(), saves)
	c.Eval(fmt.Sprintf("readers %d saves", saves), true)
	if saveErr != nil {
		return fmt.Errorf("save in the reader test failed: %w", saveErr)
	}
	for b := range bads {
		c.Fail("concurrent-reader-saw-partial-session", fmt.Sprintf("readers: %d saves of 4 sessions with 3 concurrent loaders", saves), b.detail)
	}
	return nil
}

// runUnlockedSavers: savers that do NOT share a lock (each its own FileStorage on the same path, as two
// processes would).  Not traced (strace cannot order truly concurrent calls); the outcome is checked: every
// StoreSession succeeds, afterwards the file is exactly one of the sessions just saved, and no temporary
// file is left.  (Covered in the model by publication_discipline_safe: any interleaving of disciplined
// writers with distinct temporary names is disciplined.)
func runUnlockedSavers(c *hc.Ctx, r *hc.RNG, base string) error {
	dir := filepath.Join(base, "unlocked")
	if err := os.MkdirAll(dir, 0o700); err != nil {
		return err
	}
	defer os.RemoveAll(dir)
	path := filepath.Join(dir, "session.json")
	rounds := c.N(60, 600)
	for i := 0; i < rounds; i++ {
		k := hc.Pick(r, 2, 3, 4)
		datas := make([]*session.Data, k)
		errs := make([]error, k)
		for j := range datas {
			datas[j] = genSession(r, r.Range(0, 30))
		}
		var wg sync.WaitGroup
		start := make(chan struct{})
		for j := 0; j < k; j++ {
			wg.Add(1)
			go func(j int) {
				defer wg.Done()
				<-start
				errs[j] = (&session.Loader{Storage: &session.FileStorage{Path: path}}).Save(context.Background(), datas[j])
			}(j)
		}
		close(start)
		wg.Wait()
		in := fmt.Sprintf("unlocked savers: round %d, %d savers on %s", i, k, filepath.Base(path))
		c.Eval(in, true)
		for j, err := range errs {
			if err != nil {
				c.Fail("unlocked-saver-failed", in, fmt.Sprintf("saver %d: %v", j, err))
			}
		}
		got, err := (&session.Loader{Storage: &session.FileStorage{Path: path}}).Load(context.Background())
		ok := false
		for _, d := range datas {
			if err == nil && reflect.DeepEqual(got, d) {
				ok = true
			}
		}
		if !ok {
			c.Fail("unlocked-savers-corrupted-session", in, fmt.Sprintf("after the concurrent saves Loader.Load gives err=%v and none of the saved sessions", err))
		}
		es, _ := os.ReadDir(dir)
		for _, e := range es {
			if e.Name() != "session.json" {
				c.Fail("unlocked-savers-left-temp-file", in, "the directory still holds "+e.Name())
				os.Remove(filepath.Join(dir, e.Name()))
			}
		}
	}
	c.Count(fmt.Sprintf("unlocked.rounds=%d", rounds))
	return nil
}
