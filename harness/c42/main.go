// C42 — racing dials to a DC return one connection and close the rest.
//
// Implementation under test: dcs.Plain(...).Primary -> plain.connect (telegram/dcs/plain.go), driven
// through the public resolver with a fake DialFunc whose completion order, outcome and reaction to
// cancellation are scripted.  Observed: dial results, connection open/close events, connect's result.
// The observed history is turned into a trace of the Lean model's actions (TdModel.C42) and replayed
// by the driver through `step`; the property monitor is evaluated on the implementation alone.
package main

import (
	"context"
	"errors"
	"fmt"
	"go/ast"
	"go/token"
	"net"
	"runtime"
	"strconv"
	"strings"
	"sync"
	"sync/atomic"
	"time"

	"go.uber.org/multierr"

	"github.com/gotd/td/telegram/dcs"
	"github.com/gotd/td/tg"
	"github.com/gotd/td/transport"

	"verif/harness/hc"
)

func main() { hc.Main(hc.Spec{Prop: "C42", Facts: facts, Run: run}) }

// ---------------------------------------------------------------------------------------------
// facts

func facts(f *hc.Facts) {
	fd := f.FuncDecl("telegram/dcs", "plain.connect")
	if fd == nil || fd.Body == nil {
		for _, n := range []string{"resultsUnbuffered", "abandonCloses", "dialCancelDeferred", "dialersUseDialCtx", "remainFromLen", "successReturnsAtOnce", "singleDialsDirectly"} {
			f.Missing(n, "plain.connect not found")
		}
	} else {
		unbuf, abandon, deferred, useDialCtx, remainLen, retOnce, single := false, false, false, false, false, false, false
		dialCtxFromCtx := false
		ownCtx, dialsWith, watches := "", "", ""
		ast.Inspect(fd.Body, func(n ast.Node) bool {
			switch x := n.(type) {
			case *ast.AssignStmt:
				if len(x.Lhs) == 1 && len(x.Rhs) == 1 {
					name := f.Src(x.Lhs[0])
					if call, ok := x.Rhs[0].(*ast.CallExpr); ok {
						if name == "results" && f.Src(call.Fun) == "make" && len(call.Args) == 1 {
							if _, ok := call.Args[0].(*ast.ChanType); ok {
								unbuf = true
							}
						}
						if name == "remain" && f.Src(call) == "len(dcOptions)" {
							remainLen = true
						}
					}
				}
				if len(x.Lhs) == 2 && len(x.Rhs) == 1 && f.Src(x.Lhs[0]) == "dialCtx" && f.Src(x.Lhs[1]) == "dialCancel" &&
					f.Src(x.Rhs[0]) == "context.WithCancel(ctx)" {
					dialCtxFromCtx = true
				}
				// tryDial := func(ctx, option) { conn, err := dialTransport; select { send | <-ctx.Done(): close } }
				if len(x.Lhs) == 1 && f.Src(x.Lhs[0]) == "tryDial" {
					if fl, ok := x.Rhs[0].(*ast.FuncLit); ok {
						// the context the closure watches must be its own first parameter, the one it dials with
						if ps := fl.Type.Params; ps != nil && len(ps.List) >= 1 && len(ps.List[0].Names) == 1 {
							ownCtx = ps.List[0].Names[0].Name
						}
						ast.Inspect(fl.Body, func(m ast.Node) bool {
							if ce, ok := m.(*ast.CallExpr); ok && f.Src(ce.Fun) == "p.dialTransport" && len(ce.Args) >= 1 {
								dialsWith = f.Src(ce.Args[0])
							}
							return true
						})
						ast.Inspect(fl.Body, func(m ast.Node) bool {
							sel, ok := m.(*ast.SelectStmt)
							if !ok {
								return true
							}
							if len(sel.Body.List) != 2 {
								return false
							}
							for _, cc := range sel.Body.List {
								c := cc.(*ast.CommClause)
								if es, ok := c.Comm.(*ast.ExprStmt); ok && strings.HasPrefix(f.Src(es.X), "<-") && strings.HasSuffix(f.Src(es.X), ".Done()") {
									watches = strings.TrimSuffix(strings.TrimPrefix(f.Src(es.X), "<-"), ".Done()")
								}
								if es, ok := c.Comm.(*ast.ExprStmt); ok && f.Src(es.X) == "<-ctx.Done()" {
									src := ""
									for _, st := range c.Body {
										src += f.Src(st) + "\n"
									}
									if strings.Contains(src, "if conn != nil") && strings.Contains(src, "conn.Close()") {
										abandon = true
									}
								}
							}
							return false
						})
					}
				}
			case *ast.DeferStmt:
				if f.Src(x.Call) == "dialCancel()" {
					deferred = true
				}
			case *ast.GoStmt:
				if f.Src(x.Call.Fun) == "tryDial" && len(x.Call.Args) == 2 && f.Src(x.Call.Args[0]) == "dialCtx" {
					useDialCtx = true
				}
			case *ast.CommClause:
				if as, ok := x.Comm.(*ast.AssignStmt); ok && f.Src(as) == "result := <-results" {
					// remain--; if result.err != nil { append; if remain == 0 { return nil, rErr }; continue }; return result.conn, nil
					if len(x.Body) == 3 && f.Src(x.Body[0]) == "remain--" && f.Src(x.Body[2]) == "return result.conn, nil" {
						if is, ok := x.Body[1].(*ast.IfStmt); ok && f.Src(is.Cond) == "result.err != nil" {
							s := f.Src(is.Body)
							if strings.Contains(s, "if remain == 0") && strings.Contains(s, "return nil, rErr") && strings.Contains(s, "continue") {
								retOnce = true
							}
						}
					}
				}
			case *ast.CaseClause:
				if len(x.List) == 1 && f.Src(x.List[0]) == "1" && len(x.Body) == 1 &&
					f.Src(x.Body[0]) == "return p.dialTransport(ctx, test, dcOptions[0])" {
					single = true
				}
			}
			return true
		})
		// structured: the cases of tryDial's select and the order of the racing machinery in connect,
		// interpreted by the model (TdModel/Model/C42.lean)
		var selCases, conOps []string
		ast.Inspect(fd.Body, func(n ast.Node) bool {
			as, ok := n.(*ast.AssignStmt)
			if !ok || len(as.Lhs) != 1 || f.Src(as.Lhs[0]) != "tryDial" {
				return true
			}
			fl, ok := as.Rhs[0].(*ast.FuncLit)
			if !ok {
				return true
			}
			ast.Inspect(fl.Body, func(m ast.Node) bool {
				sel, ok := m.(*ast.SelectStmt)
				if !ok {
					return true
				}
				for _, cc := range sel.Body.List {
					c := cc.(*ast.CommClause)
					body := ""
					for _, st := range c.Body {
						body += f.Src(st) + ";"
					}
					switch cm := c.Comm.(type) {
					case *ast.SendStmt:
						if f.Src(cm.Chan) == "results" {
							selCases = append(selCases, "1")
						} else {
							selCases = append(selCases, "0")
						}
					case *ast.ExprStmt:
						x := f.Src(cm.X)
						closes := strings.Contains(body, "if conn != nil") && strings.Contains(body, "conn.Close()")
						switch {
						case x == "<-"+ownCtx+".Done()" && closes:
							selCases = append(selCases, "2")
						case x == "<-"+ownCtx+".Done()":
							selCases = append(selCases, "4")
						case strings.HasSuffix(x, ".Done()"):
							selCases = append(selCases, "3")
						default:
							selCases = append(selCases, "0")
						}
					default:
						selCases = append(selCases, "0")
					}
				}
				return false
			})
			return false
		})
		for _, st := range fd.Body.List {
			x := f.Src(st)
			switch {
			case x == "results := make(chan dialResult)":
				conOps = append(conOps, "10")
			case strings.HasPrefix(x, "results := make(chan dialResult,"):
				conOps = append(conOps, "11")
			case x == "dialCtx, dialCancel := context.WithCancel(ctx)":
				conOps = append(conOps, "20")
			case x == "defer dialCancel()":
				conOps = append(conOps, "21")
			case strings.HasPrefix(x, "for _, dcOption := range dcOptions") && strings.Contains(x, "go tryDial(dialCtx, dcOption)"):
				conOps = append(conOps, "22")
			case strings.HasPrefix(x, "for _, dcOption := range dcOptions") && strings.Contains(x, "go tryDial("):
				conOps = append(conOps, "23")
			case x == "remain := len(dcOptions)":
				conOps = append(conOps, "30")
			case strings.HasPrefix(x, "remain :="):
				conOps = append(conOps, "31")
			case strings.HasPrefix(x, "for {") && strings.Contains(x, "result := <-results"):
				conOps = append(conOps, "40")
			}
		}
		f.Raw("def tryDialSelect : List Nat := [" + strings.Join(selCases, ", ") + "] -- tryDial select cases: 1 results <- … 2 <-(own ctx).Done() closing a non-nil conn 3 Done of another context 4 own Done without close 0 other")
		f.Raw("def connectOps : List Nat := [" + strings.Join(conOps, ", ") + "] -- connect top level: 10 unbuffered results 11 buffered results 20 dialCtx,dialCancel := WithCancel(ctx) 21 defer dialCancel() 22 go tryDial(dialCtx,…) in the loop 23 go tryDial(other ctx) 30 remain := len(dcOptions) 31 other remain 40 collector loop")
		f.Bool("resultsUnbuffered", unbuf, "plain.connect: results := make(chan dialResult) has no capacity")
		f.Bool("abandonCloses", abandon && ownCtx != "" && watches == ownCtx && dialsWith == ownCtx,
			fmt.Sprintf("tryDial: the select has exactly two branches; the Done branch watches the closure's own context parameter (param %q, dials with %q, watches %q) and closes a non-nil conn", ownCtx, dialsWith, watches))
		f.Bool("dialCancelDeferred", deferred && dialCtxFromCtx, "dialCtx, dialCancel := context.WithCancel(ctx); defer dialCancel()")
		f.Bool("dialersUseDialCtx", useDialCtx, "go tryDial(dialCtx, dcOption)")
		f.Bool("remainFromLen", remainLen, "remain := len(dcOptions)")
		f.Bool("successReturnsAtOnce", retOnce, "collector: remain--; error -> append, return when remain == 0, else continue; success -> return result.conn")
		f.Bool("singleDialsDirectly", single, "case 1: return p.dialTransport(ctx, test, dcOptions[0])")
	}
	// dialTransport closes the dialed connection on every error after the dial
	dt := f.FuncDecl("telegram/dcs", "plain.dialTransport")
	closes := false
	if dt != nil && dt.Body != nil {
		for i, st := range dt.Body.List {
			d, ok := st.(*ast.DeferStmt)
			if !ok {
				continue
			}
			s := f.Src(d)
			// the defer must come right after the dial's own error check (statement index 3: addr, dial, if err, defer)
			if strings.Contains(s, "if rerr != nil") && strings.Contains(s, "conn.Close()") && i <= 3 {
				closes = true
			}
		}
		if dt.Type.Results == nil || len(dt.Type.Results.List) != 2 || len(dt.Type.Results.List[1].Names) != 1 ||
			dt.Type.Results.List[1].Names[0].Name != "rerr" {
			closes = false
		}
	}
	f.Bool("hsFailCloses", closes, "dialTransport: defer { if rerr != nil { conn.Close() } } right after a successful dial")
	_ = token.NoPos
}

// ---------------------------------------------------------------------------------------------
// scripted race

const (
	outOK    = 0
	outFail  = 1
	outHS    = 2 // dial succeeds, the transport handshake (header write) fails
	outObOK  = 3 // obfuscated-only DC option (valid secret): dial and obfuscation handshake succeed
	outObSec = 4 // obfuscated-only DC option whose secret is rejected after the dial succeeded
	outObHS  = 5 // obfuscated-only DC option: dial succeeds, the obfuscation handshake write fails
	outHS2   = 6 // like hs, and Close of the broken connection fails too (one dial, a two-part error)
	outFail2 = 7 // the dial function itself returns a two-part error
)

var outNames = []string{"ok", "fail", "hs", "obok", "obsec", "obhs", "hs2", "fail2"}

func isOK(o int) bool { return o == outOK || o == outObOK }

type script struct {
	n      int
	out    []int  // per dialer
	aware  []bool // per dialer: returns ctx error as soon as its context is done (before its release)
	order  []int  // release order (a permutation of 0..n-1)
	cancel int    // caller cancel happens before the release number `cancel` (n = after all, -1 = never)
	settle []int  // per step (n+1 entries): 0 none, 1 Gosched, 2 sleep 100µs, 3 sleep 400µs
}

func (s script) String() string {
	var o, a, ord, st []string
	for i := 0; i < s.n; i++ {
		o = append(o, outNames[s.out[i]])
		if s.aware[i] {
			a = append(a, "1")
		} else {
			a = append(a, "0")
		}
		ord = append(ord, strconv.Itoa(s.order[i]))
	}
	for _, x := range s.settle {
		st = append(st, strconv.Itoa(x))
	}
	return fmt.Sprintf("n=%d out=%s aware=%s order=%s cancel=%d settle=%s", s.n, strings.Join(o, ","), strings.Join(a, ","),
		strings.Join(ord, ","), s.cancel, strings.Join(st, ","))
}

func parseScript(line string) (script, error) {
	var s script
	kv := map[string]string{}
	for _, w := range strings.Fields(line) {
		if i := strings.IndexByte(w, '='); i > 0 {
			kv[w[:i]] = w[i+1:]
		}
	}
	var err error
	if s.n, err = strconv.Atoi(kv["n"]); err != nil || s.n < 1 || s.n > 16 {
		return s, fmt.Errorf("bad n")
	}
	for _, w := range strings.Split(kv["out"], ",") {
		for code, name := range outNames {
			if w == name {
				s.out = append(s.out, code)
			}
		}
	}
	for _, w := range strings.Split(kv["aware"], ",") {
		s.aware = append(s.aware, w == "1")
	}
	for _, w := range strings.Split(kv["order"], ",") {
		v, _ := strconv.Atoi(w)
		s.order = append(s.order, v)
	}
	for _, w := range strings.Split(kv["settle"], ",") {
		v, _ := strconv.Atoi(w)
		s.settle = append(s.settle, v)
	}
	s.cancel, _ = strconv.Atoi(kv["cancel"])
	if len(s.out) != s.n || len(s.aware) != s.n || len(s.order) != s.n || len(s.settle) != s.n+1 {
		return s, fmt.Errorf("bad script")
	}
	return s, nil
}

type event struct {
	kind string // ok fail hs close cancel ret
	i    int
}

type dialErr struct {
	i     int
	cause string
}

func (e *dialErr) Error() string { return fmt.Sprintf("dial %d: %s", e.i, e.cause) }

type race struct {
	s       script
	mu      sync.Mutex
	log     []event
	release []chan struct{}
	conns   []*fakeConn // per dialer, nil until opened
	dials   []int       // number of dial calls per address
	bad     []string
}

func (r *race) ev(kind string, i int) {
	r.mu.Lock()
	r.log = append(r.log, event{kind, i})
	r.mu.Unlock()
}

type fakeConn struct {
	r        *race
	i        int
	hs       bool
	closeErr bool // Close reports an error
	mu       sync.Mutex
	closed   int
	harness  bool // the harness is closing the returned connection itself
	writes   int
	lateUsed bool // used after close
}

func (c *fakeConn) Read(b []byte) (int, error) { return 0, errors.New("fake conn: no data") }
func (c *fakeConn) Write(b []byte) (int, error) {
	c.mu.Lock()
	defer c.mu.Unlock()
	if c.closed > 0 {
		c.lateUsed = true
	}
	c.writes++
	if c.hs {
		return 0, &dialErr{c.i, "handshake write refused"}
	}
	return len(b), nil
}
func (c *fakeConn) Close() error {
	c.mu.Lock()
	c.closed++
	first, byHarness := c.closed == 1, c.harness
	c.mu.Unlock()
	if first && !byHarness {
		if c.hs {
			c.r.ev("hs", c.i)
		} else {
			c.r.ev("close", c.i)
		}
	}
	if c.closeErr {
		return &dialErr{c.i, "close of the broken connection failed"}
	}
	return nil
}
func (c *fakeConn) isClosed() bool                     { c.mu.Lock(); defer c.mu.Unlock(); return c.closed > 0 }
func (c *fakeConn) LocalAddr() net.Addr                { return &net.TCPAddr{} }
func (c *fakeConn) RemoteAddr() net.Addr               { return &net.TCPAddr{} }
func (c *fakeConn) SetDeadline(t time.Time) error      { return nil }
func (c *fakeConn) SetReadDeadline(t time.Time) error  { return nil }
func (c *fakeConn) SetWriteDeadline(t time.Time) error { return nil }

func (r *race) dial(ctx context.Context, network, addr string) (net.Conn, error) {
	_, ps, _ := net.SplitHostPort(addr)
	port, _ := strconv.Atoi(ps)
	i := port - 1000
	if i < 0 || i >= r.s.n {
		return nil, fmt.Errorf("unexpected address %q", addr)
	}
	r.mu.Lock()
	r.dials[i]++
	r.mu.Unlock()
	var done <-chan struct{}
	if r.s.aware[i] {
		done = ctx.Done()
	}
	select {
	case <-r.release[i]:
	case <-done:
		r.ev("fail", i)
		return nil, &dialErr{i, "context done while dialing"}
	}
	switch r.s.out[i] {
	case outFail:
		r.ev("fail", i)
		return nil, &dialErr{i, "refused"}
	case outFail2:
		r.ev("fail", i)
		return nil, multierr.Combine(&dialErr{i, "refused"}, &dialErr{i, "fallback route unreachable"})
	case outHS, outObSec, outObHS, outHS2:
		// (obsec: nothing is ever written, the DC option's secret is rejected right after the dial)
		c := &fakeConn{r: r, i: i, hs: true, closeErr: r.s.out[i] == outHS2}
		r.mu.Lock()
		r.conns[i] = c
		r.mu.Unlock()
		return c, nil // "hs" is logged when dialTransport closes it
	}
	c := &fakeConn{r: r, i: i}
	r.mu.Lock()
	r.conns[i] = c
	r.log = append(r.log, event{"ok", i})
	r.mu.Unlock()
	return c, nil
}

func settle(mode int) {
	switch mode {
	case 1:
		for k := 0; k < 20; k++ {
			runtime.Gosched()
		}
	case 2:
		time.Sleep(100 * time.Microsecond)
	case 3:
		time.Sleep(400 * time.Microsecond)
	}
}

// Watchdogs only decide after a long real-time wait (the machine may be heavily loaded); everything
// else is decided by events.  Once several cases have genuinely timed out the patience is shortened
// so that a broken implementation does not make the run take hours.
var slowFailures atomic.Int64

func patience() time.Duration {
	if slowFailures.Load() >= 3 {
		// three cases have genuinely timed out with the long watchdog: the verdict is settled, the rest of
		// the run only has to terminate
		return 150 * time.Millisecond
	}
	return 30 * time.Second
}

type outcome struct {
	obs    string   // canonical observation: coll=… conns=…
	trace  []string // model actions
	fails  [][2]string
	branch string
}

// runScript executes one scripted race against plain.connect.
func runScript(s script) outcome {
	r := &race{s: s, release: make([]chan struct{}, s.n), conns: make([]*fakeConn, s.n), dials: make([]int, s.n)}
	for i := range r.release {
		r.release[i] = make(chan struct{})
	}
	res := dcs.Plain(dcs.PlainOptions{Dial: r.dial, Protocol: transport.Intermediate})
	var list dcs.List
	for i := 0; i < s.n; i++ {
		opt := tg.DCOption{ID: 2, IPAddress: "10.0.0.1", Port: 1000 + i}
		switch s.out[i] {
		case outObOK, outObHS:
			opt.TCPObfuscatedOnly, opt.Secret = true, make([]byte, 16)
		case outObSec:
			opt.TCPObfuscatedOnly, opt.Secret = true, []byte(fmt.Sprintf("b%d", i)) // too short: rejected; names its dialer
		}
		list.Options = append(list.Options, opt)
	}
	ctx, cancel := context.WithCancel(context.Background())
	defer cancel()

	type ret struct {
		conn transport.Conn
		err  error
	}
	retc := make(chan ret, 1)
	go func() {
		c, err := res.Primary(ctx, 2, list)
		r.ev("ret", 0)
		retc <- ret{c, err}
	}()
	cancelled := false
	for k := 0; k <= s.n; k++ {
		if s.cancel == k {
			r.ev("cancel", 0)
			cancel()
			cancelled = true
			settle(s.settle[k])
		}
		if k < s.n {
			close(r.release[s.order[k]])
			settle(s.settle[k])
		}
	}
	var out outcome
	fail := func(key, detail string) { out.fails = append(out.fails, [2]string{key, detail}) }

	var got ret
	select {
	case got = <-retc:
	case <-time.After(patience()):
		slowFailures.Add(1)
		fail("connect-hangs", "all dials were released but connect did not return within the watchdog time (30s; shortened after repeated failures)")
		cancel()
		got = <-retc
		cancelled = true
	}
	// quiescence: every established connection except (at most) the returned one must get closed
	want := 0
	if got.conn != nil {
		want = 1
	}
	deadline := time.Now().Add(patience())
	for {
		// order matters: a connection exists before its dial result is logged, so once every dial has
		// logged its result the count of open connections taken afterwards can only go down
		finished := r.allDialsFinished()
		open := 0
		for _, c := range r.snapshotConns() {
			if c != nil && !c.isClosed() {
				open++
			}
		}
		if (finished && open <= want) || time.Now().After(deadline) {
			break
		}
		time.Sleep(50 * time.Microsecond)
	}
	// identify the returned connection: closing it must close exactly one still-open dialed connection
	winner := -1
	if got.conn != nil {
		for _, c := range r.snapshotConns() {
			if c != nil && !c.isClosed() {
				c.mu.Lock()
				c.harness = true
				c.mu.Unlock()
			}
		}
		_ = got.conn.Close()
		for i, c := range r.snapshotConns() {
			if c == nil {
				continue
			}
			c.mu.Lock()
			if c.harness && c.closed > 0 && winner < 0 {
				winner = i
			}
			c.harness = false
			c.mu.Unlock()
		}
		if winner < 0 {
			fail("returned-conn-identity", "the returned connection is not an open connection produced by a successful dial")
		}
	}
	conns := r.snapshotConns()
	var cs strings.Builder
	anyOK := false
	for i := 0; i < s.n; i++ {
		c := conns[i]
		switch {
		case c == nil:
			cs.WriteByte('n')
		case i == winner:
			cs.WriteByte('o') // was open when returned (closed by the harness afterwards)
		case c.isClosed():
			cs.WriteByte('c')
		default:
			cs.WriteByte('o')
			slowFailures.Add(1)
			fail("conn-leak", fmt.Sprintf("connection of dialer %d (%s) is still open long after connect returned and every dial finished (watchdog 30s, shortened after repeated failures; winner=%d)", i, outNames[s.out[i]], winner))
		}
		if isOK(s.out[i]) {
			anyOK = true
		}
		if c != nil && c.lateUsed {
			fail("use-after-close", fmt.Sprintf("connection %d written after Close", i))
		}
		if r.dials[i] != 1 {
			fail("dial-count", fmt.Sprintf("address %d dialed %d times", i, r.dials[i]))
		}
	}
	// result classification + monitor
	coll := ""
	var errOrder []int
	switch {
	case got.conn != nil && got.err != nil:
		fail("conn-and-error", "connect returned both a connection and an error")
		coll = "both"
	case got.conn != nil:
		coll = fmt.Sprintf("ret:%d", winner)
		out.branch = "returned"
	case errors.Is(got.err, context.Canceled) && len(multierr.Errors(got.err)) == 1 && asDialErr(got.err) == nil:
		coll = "cancel"
		out.branch = "cancelled"
		if !cancelled {
			fail("spurious-cancel", "connect returned context.Canceled although the caller never cancelled")
		}
	default:
		// one dial may contribute several errors (a handshake error plus the error of closing the broken
		// connection; a dial function that returns a combined error): count failed dialers, not errors
		errs := multierr.Errors(got.err)
		seen := map[int]int{}
		for _, e := range errs {
			if di, ok := errDialer(e); ok {
				if seen[di] == 0 {
					errOrder = append(errOrder, di)
				}
				seen[di]++
			} else {
				fail("foreign-error", "combined error contains an error that no dial produced: "+e.Error())
			}
		}
		coll = fmt.Sprintf("fail:%d", len(seen))
		out.branch = "all-failed"
		if len(seen) != s.n {
			fail("error-not-all", fmt.Sprintf("error returned combining the failures of %d dialers, but %d addresses were dialed", len(seen), s.n))
		}
		for i := 0; i < s.n; i++ {
			parts := 1
			if s.out[i] == outHS2 || s.out[i] == outFail2 {
				parts = 2
			}
			if conns[i] == nil && s.out[i] != outFail2 {
				parts = 1 // the dial ended with the context's error before its scripted outcome
			}
			if seen[i] != parts && len(seen) == s.n {
				fail("error-not-all", fmt.Sprintf("failure of dialer %d appears %d times in the combined error (expected %d)", i, seen[i], parts))
			}
			if conns[i] != nil && !conns[i].hs {
				fail("error-despite-success", fmt.Sprintf("connect returned an error although dial %d succeeded", i))
			}
		}
	}
	if !cancelled && anyOK && got.conn == nil {
		fail("error-despite-success", "some dial succeeded and the caller never cancelled, yet no connection was returned")
	}
	out.obs = "coll=" + coll + " conns=" + cs.String()

	// ---- model trace from the observed history
	r.mu.Lock()
	log := append([]event(nil), r.log...)
	r.mu.Unlock()
	decided := false
	phase := make([]int, s.n) // 0 dialing 1 blocked-ok 2 blocked-fail 3 done
	decide := func() {
		if decided {
			return
		}
		decided = true
		switch {
		case got.conn != nil:
			out.trace = append(out.trace, fmt.Sprintf("dl:%d", winner))
			if winner >= 0 {
				phase[winner] = 3
			}
		case coll == "cancel":
			out.trace = append(out.trace, "kc")
		default:
			for _, j := range errOrder {
				out.trace = append(out.trace, fmt.Sprintf("dl:%d", j))
				phase[j] = 3
			}
		}
	}
	cancelSeen := false
	for _, e := range log {
		switch e.kind {
		case "ok":
			out.trace = append(out.trace, fmt.Sprintf("ok:%d", e.i))
			phase[e.i] = 1
		case "fail":
			out.trace = append(out.trace, fmt.Sprintf("fail:%d", e.i))
			phase[e.i] = 2
		case "hs":
			out.trace = append(out.trace, fmt.Sprintf("hs:%d", e.i))
			phase[e.i] = 2
		case "cancel":
			out.trace = append(out.trace, "cc")
			cancelSeen = true
		case "close":
			if !cancelSeen {
				decide()
			}
			out.trace = append(out.trace, fmt.Sprintf("ab:%d", e.i))
			phase[e.i] = 3
		case "ret":
			decide()
		}
	}
	decide()
	for i := 0; i < s.n; i++ {
		if phase[i] == 2 { // failures whose delivery is unobservable: the model may drop them
			out.trace = append(out.trace, fmt.Sprintf("ab:%d", i))
		}
	}
	return out
}

// allDialsFinished: every dialer's dialTransport has produced its (logged) result.
func (r *race) allDialsFinished() bool {
	r.mu.Lock()
	defer r.mu.Unlock()
	done := make([]bool, r.s.n)
	for _, e := range r.log {
		switch e.kind {
		case "ok", "fail", "hs":
			done[e.i] = true
		}
	}
	for _, d := range done {
		if !d {
			return false
		}
	}
	return true
}

func (r *race) snapshotConns() []*fakeConn {
	r.mu.Lock()
	defer r.mu.Unlock()
	return append([]*fakeConn(nil), r.conns...)
}

// errDialer attributes one part of the combined error to the dialer that produced it: the fake's own
// errors carry the index, the rejection of an obfuscated-only option's secret quotes the secret "b<i>".
func errDialer(err error) (int, bool) {
	if de := asDialErr(err); de != nil {
		return de.i, true
	}
	const mark = "invalid secret \"b"
	if t := err.Error(); strings.Contains(t, mark) {
		t = t[strings.Index(t, mark)+len(mark):]
		if j := strings.IndexByte(t, '"'); j > 0 {
			if v, e := strconv.Atoi(t[:j]); e == nil {
				return v, true
			}
		}
	}
	return 0, false
}

func asDialErr(err error) *dialErr {
	var de *dialErr
	if errors.As(err, &de) {
		return de
	}
	return nil
}

// ---------------------------------------------------------------------------------------------

func permutations(n int) [][]int {
	var out [][]int
	var rec func(cur []int, used int)
	rec = func(cur []int, used int) {
		if len(cur) == n {
			out = append(out, append([]int(nil), cur...))
			return
		}
		for i := 0; i < n; i++ {
			if used&(1<<i) == 0 {
				rec(append(cur, i), used|1<<i)
			}
		}
	}
	rec(nil, 0)
	return out
}

func exhaustive(n int, withAware bool) []script {
	var out []script
	perms := permutations(n)
	total := 1
	for i := 0; i < n; i++ {
		total *= 3
	}
	for code := 0; code < total; code++ {
		outs := make([]int, n)
		c := code
		for i := range outs {
			outs[i] = c % 3
			c /= 3
		}
		for _, p := range perms {
			for cancel := -1; cancel <= n; cancel++ {
				st := make([]int, n+1)
				for i := range st {
					st[i] = 3
				}
				out = append(out, script{n: n, out: outs, aware: make([]bool, n), order: p, cancel: cancel, settle: st})
				if withAware && cancel >= 0 && cancel < n {
					aw := make([]bool, n)
					for i := range aw {
						aw[i] = true
					}
					out = append(out, script{n: n, out: outs, aware: aw, order: p, cancel: cancel, settle: st})
				}
			}
		}
	}
	return out
}

// directed: the outcome kinds beyond ok / fail / hs (obfuscated-only DC options whose set-up fails after
// the TCP connect, one dial that fails with a two-part error) — all vectors for n=2 with every release
// order and caller-cancel position, and for n=3 all vectors that contain such a kind, every release order.
func directedKinds() []script {
	var out []script
	kinds := len(outNames)
	for n := 2; n <= 3; n++ {
		total := 1
		for i := 0; i < n; i++ {
			total *= kinds
		}
		for code := 0; code < total; code++ {
			outs := make([]int, n)
			c, special := code, false
			for i := range outs {
				outs[i] = c % kinds
				c /= kinds
				if outs[i] > outHS {
					special = true
				}
			}
			if !special {
				continue
			}
			for _, p := range permutations(n) {
				lo, hi := -1, n
				if n == 3 {
					hi = -1
				}
				for cancel := lo; cancel <= hi; cancel++ {
					st := make([]int, n+1)
					for i := range st {
						st[i] = 3
					}
					out = append(out, script{n: n, out: outs, aware: make([]bool, n), order: p, cancel: cancel, settle: st})
				}
			}
		}
	}
	return out
}

func randomScript(r *hc.RNG) script {
	n := hc.Pick(r, 2, 2, 3, 3, 4, 5, 5, r.Range(2, 8))
	s := script{n: n, cancel: -1}
	// outcome mix: mostly failures with few successes makes the all-failed and single-winner paths likely
	okPct := hc.Pick(r, 0, 15, 40, 70, 100)
	for i := 0; i < n; i++ {
		switch {
		case r.Chance(okPct):
			s.out = append(s.out, hc.Pick(r, outOK, outOK, outOK, outObOK))
		case r.Chance(35):
			s.out = append(s.out, hc.Pick(r, outHS, outHS, outObSec, outObHS, outHS2))
		default:
			s.out = append(s.out, hc.Pick(r, outFail, outFail, outFail, outFail2))
		}
		s.aware = append(s.aware, r.Chance(30))
	}
	s.order = permutations1(r, n)
	if r.Chance(40) {
		s.cancel = r.Range(0, n)
	}
	mode := hc.Pick(r, 0, 0, 1, 2, 3, -1)
	for i := 0; i <= n; i++ {
		m := mode
		if m < 0 {
			m = r.Intn(4)
		}
		s.settle = append(s.settle, m)
	}
	return s
}

func permutations1(r *hc.RNG, n int) []int {
	p := make([]int, n)
	for i := range p {
		p[i] = i
	}
	for i := n - 1; i > 0; i-- {
		j := r.Intn(i + 1)
		p[i], p[j] = p[j], p[i]
	}
	return p
}

func run(c *hc.Ctx) error {
	var scripts []script
	if c.Replay != "" {
		s, err := parseScript(c.Replay)
		if err != nil {
			return fmt.Errorf("replay: %w", err)
		}
		for k := 0; k < 50; k++ {
			scripts = append(scripts, s)
		}
	} else {
		scripts = append(scripts, exhaustive(1, true)...) // the single-address path dials directly
		scripts = append(scripts, exhaustive(2, true)...)
		scripts = append(scripts, exhaustive(3, c.Thorough())...)
		if c.Thorough() {
			scripts = append(scripts, exhaustive(4, false)...)
		}
		scripts = append(scripts, directedKinds()...)
		for i, n := 0, c.N(1500, 40000); i < n; i++ {
			scripts = append(scripts, randomScript(c.Rng))
		}
		c.Res.Exhaustive = true
	}
	// run the scripted races on a few workers (each race is independent; timing inside a race is real)
	outs := make([]outcome, len(scripts))
	var wg sync.WaitGroup
	workers := 8
	idx := make(chan int, len(scripts))
	for i := range scripts {
		idx <- i
	}
	close(idx)
	for w := 0; w < workers; w++ {
		wg.Add(1)
		go func() {
			defer wg.Done()
			for i := range idx {
				outs[i] = runScript(scripts[i])
			}
		}()
	}
	wg.Wait()

	lines := make([]string, len(scripts))
	for i, s := range scripts {
		o := outs[i]
		in := s.String()
		for _, f := range o.fails {
			c.Fail(f[0], in, f[1]+" | observed "+o.obs+" | trace "+strings.Join(o.trace, " "))
		}
		nOK := 0
		for _, x := range s.out {
			if isOK(x) {
				nOK++
			}
		}
		c.Count("result." + o.branch)
		c.Count(fmt.Sprintf("n=%d", s.n))
		c.Count(fmt.Sprintf("successes=%d", min(nOK, 3)))
		if s.cancel >= 0 {
			c.Count("with-caller-cancel")
		}
		if strings.Contains(o.obs[strings.Index(o.obs, "conns=")+6:], "c") {
			c.Count("some-connection-closed-by-connect")
		}
		c.Eval(in, nOK >= 2 || s.cancel >= 0 || (nOK == 0))
		lines[i] = fmt.Sprintf("run %d %s", s.n, strings.Join(o.trace, " "))
	}
	c.Res.Rule = "a case is one scripted race (per dialer: success / refusal / handshake failure — also through an obfuscated-only DC option: success, secret rejected after the connect, obfuscation handshake write failing — / a failure with a two-part error: handshake error plus Close error, or a combined error from the dial function; whether the dial honours its context; release order; optional caller cancel position; settle mode between releases = how much real time the goroutines get to interleave); all outcome vectors x release orders x cancel positions are enumerated for n=2,3 over ok/refusal/handshake failure (and n=4 in thorough), all 8 outcome kinds for n=2 and every vector with one of the further kinds for n=3; n up to 8 random; non-trivial = at least two successful dials (a loser must be closed), or no success (combined error), or a caller cancel; distinct = distinct script"
	c.PartialNote("goroutine scheduling below the granularity of dial completion / channel rendezvous is exercised by real timing (settle modes), not enumerated; deliveries of failures before a winning success are unobservable and replayed as abandoned dialers (a model-valid linearisation with the same observables)")
	ans, err := c.Drv.Batch(lines)
	if err != nil {
		return err
	}
	persisted := 0
	for i, a := range ans {
		want := "ok " + outs[i].obs + " term=1 holds=1"
		if want == a {
			c.Res.TracesValidated++
			continue
		}
		// the history is reconstructed from real-time observations: re-run the script before believing
		// a mismatch (machine load) — unless the verdict is settled anyway (many mismatches have already
		// persisted over their re-runs): then the remaining ones are reported as they are
		if persisted >= 25 {
			c.Differ(scripts[i].String()+" | "+lines[i], want, a, "not re-run: 25 mismatches have already persisted over their re-runs")
			continue
		}
		agreed := false
		for try := 0; try < 2 && !agreed; try++ {
			o2 := runScript(scripts[i])
			if len(o2.fails) > 0 {
				continue
			}
			a2, err := c.Drv.Ask(fmt.Sprintf("run %d %s", scripts[i].n, strings.Join(o2.trace, " ")))
			if err != nil {
				return err
			}
			if a2 == "ok "+o2.obs+" term=1 holds=1" {
				agreed = true
				c.Note("mismatch not reproduced when the script was re-run (observation artefact under load): %s", scripts[i].String())
				c.Res.TracesValidated++
			}
		}
		if !agreed {
			persisted++
			c.Differ(scripts[i].String()+" | "+lines[i], want, a, "persisted over 2 re-runs")
		}
	}
	return nil
}
