// C14 — RSA padding schemes: correspondence of crypto.{RSAPad,DecodeRSAPad,RSAEncryptHashed,
// RSADecryptHashed} with the Lean model TdModel.C14 (byte exact), plus the property monitor on the
// implementation (round trip, ciphertext = independent reference of the specification text, mutated /
// foreign-key ciphertexts fail).
package main

import (
	"bytes"
	"crypto/aes"
	"crypto/rsa"
	"crypto/sha1"
	"crypto/sha256"
	"fmt"
	"io"
	"math/big"
	"strings"

	"github.com/gotd/td/crypto"
	"github.com/gotd/td/testutil"

	"verif/harness/c14facts"
	"verif/harness/hc"
)

func main() {
	hc.Main(hc.Spec{Prop: "C14", Facts: c14facts.Facts, Run: run})
}

// ---------------------------------------------------------------------------------------------

type key struct {
	name string
	priv *rsa.PrivateKey
}

var e65537 = big.NewInt(65537)

// genPrime: deterministic 1024-bit prime search from the run's PRNG with a chosen top byte.
func genPrime(r *hc.RNG, top byte) *big.Int {
	for {
		b := r.Bytes(128)
		b[0] = top
		b[127] |= 1
		p := new(big.Int).SetBytes(b)
		for i := 0; i < 4000; i++ {
			if p.ProbablyPrime(12) {
				pm := new(big.Int).Sub(p, big.NewInt(1))
				if new(big.Int).GCD(nil, nil, pm, e65537).Cmp(big.NewInt(1)) == 0 && p.BitLen() == 1024 {
					return p
				}
			}
			p.Add(p, big.NewInt(2))
		}
	}
}

func genKey(r *hc.RNG, top byte, name string) key {
	p, q := genPrime(r, top), genPrime(r, top)
	n := new(big.Int).Mul(p, q)
	one := big.NewInt(1)
	phi := new(big.Int).Mul(new(big.Int).Sub(p, one), new(big.Int).Sub(q, one))
	d := new(big.Int).ModInverse(e65537, phi)
	return key{name, &rsa.PrivateKey{PublicKey: rsa.PublicKey{N: n, E: 65537}, D: d, Primes: []*big.Int{p, q}}}
}

func tag(err error) string {
	m := err.Error()
	switch {
	case strings.Contains(m, "data length"):
		return "err too-long"
	case strings.Contains(m, "pad data with random"), strings.Contains(m, "generate temp_key"), strings.Contains(m, "EOF"):
		return "err tape"
	case strings.Contains(m, "invalid encrypted_data"), strings.Contains(m, "invalid data_with_hash"):
		return "err invalid"
	case strings.Contains(m, "hash mismatch"):
		return "err mismatch"
	}
	return "err other:" + m
}

func safely(fn func() string) (out string) {
	defer func() {
		if r := recover(); r != nil {
			out = fmt.Sprintf("panic:%v", r)
		}
	}()
	return fn()
}

func hexN(n *big.Int) string { return hc.Hex(n.Bytes()) }

type cmp struct{ line, impl string }

// shortReader delivers a logical tape through PRNG-chosen SHORT reads (1..n bytes, nil error), as an
// io.Reader is allowed to: the functions under test must collect their random bytes with io.ReadFull,
// so their result may depend on the tape only, never on the chunking.
type shortReader struct {
	data []byte
	rng  *hc.RNG
	mode int
}

func shortReads(tape []byte, r *hc.RNG) *shortReader {
	return &shortReader{data: tape, rng: r.Fork(), mode: r.Intn(4)}
}

func (s *shortReader) Read(p []byte) (int, error) {
	if len(s.data) == 0 {
		return 0, io.EOF
	}
	if len(p) == 0 {
		return 0, nil
	}
	n := len(p)
	switch s.mode {
	case 0:
		n = 1
	case 1:
		n = 1 + s.rng.Intn(len(p))
	case 2:
		n = 1 + s.rng.Intn(min(len(p), 16))
	default: // mostly whole buffers, sometimes one byte short
		if len(p) > 1 && s.rng.Chance(30) {
			n = len(p) - 1
		}
	}
	n = copy(p[:n], s.data)
	s.data = s.data[n:]
	return n, nil
}

// ---- independent reference of the specification text (core.telegram.org/mtproto/auth_key, RSA_PAD)

func refIGEEncrypt(key, iv, src []byte) []byte {
	blk, _ := aes.NewCipher(key)
	cPrev, mPrev := append([]byte{}, iv[:16]...), append([]byte{}, iv[16:]...)
	out := make([]byte, 0, len(src))
	for o := 0; o+16 <= len(src); o += 16 {
		x := src[o : o+16]
		t := make([]byte, 16)
		for i := range t {
			t[i] = x[i] ^ cPrev[i]
		}
		y := make([]byte, 16)
		blk.Encrypt(y, t)
		for i := range y {
			y[i] ^= mPrev[i]
		}
		out = append(out, y...)
		cPrev, mPrev = y, x
	}
	return out
}

func refRSA(block []byte, n *big.Int, e int) []byte {
	out := make([]byte, 256)
	new(big.Int).Exp(new(big.Int).SetBytes(block), big.NewInt(int64(e)), n).FillBytes(out)
	return out
}

// refRSAPad: steps 1–9 for the given random tape (padding, then 32-byte temp keys until one is acceptable).
func refRSAPad(data, tape []byte, n *big.Int, e int) []byte {
	padLen := 192 - len(data)
	if len(data) > 144 || len(tape) < padLen {
		return nil
	}
	dwp := append(append([]byte{}, data...), tape[:padLen]...) // 1
	rev := make([]byte, 192)                                   // 2
	for i := range dwp {
		rev[191-i] = dwp[i]
	}
	for rest := tape[padLen:]; len(rest) >= 32; rest = rest[32:] {
		tempKey := rest[:32] // 3
		hs := sha256.Sum256(append(append([]byte{}, tempKey...), dwp...))
		dwh := append(append([]byte{}, rev...), hs[:]...)       // 4
		aesEnc := refIGEEncrypt(tempKey, make([]byte, 32), dwh) // 5
		ha := sha256.Sum256(aesEnc)
		kae := make([]byte, 0, 256) // 6, 7
		for i := range tempKey {
			kae = append(kae, tempKey[i]^ha[i])
		}
		kae = append(kae, aesEnc...)
		if new(big.Int).SetBytes(kae).Cmp(n) >= 0 { // 8
			continue
		}
		return refRSA(kae, n, e) // 9
	}
	return nil
}

// refHashed: data_with_hash := SHA1(data) + data + (random bytes), 255 bytes; RSA.
func refHashed(data, tape []byte, n *big.Int, e int) []byte {
	if len(data) > 235 || len(tape) < 255 {
		return nil
	}
	hs := sha1.Sum(data)
	blk := append(append(append([]byte{}, hs[:]...), data...), tape[20+len(data):255]...)
	return refRSA(blk, n, e)
}

func run(c *hc.Ctx) error {
	r := c.Rng
	var cs []cmp
	add := func(line, impl string) { cs = append(cs, cmp{line, impl}) }

	keys := []key{
		{"testutil", testutil.RSAPrivateKey()},
		genKey(r, 0xb6, "N≈2^2047·1.01 (half of the temp keys are retried)"),
		genKey(r, 0xff, "N≈2^2048·0.99"),
		genKey(r, 0x90, "2047-bit N (two of three temp keys are retried)"),
	}
	for i, k := range keys {
		c.Note("key %d: %s, N has %d bits", i, k.name, k.priv.N.BitLen())
	}
	pubLine := func(k key) string { return hexN(k.priv.N) + " " + hexN(big.NewInt(int64(k.priv.E))) }
	privLine := func(k key) string { return hexN(k.priv.N) + " " + hexN(k.priv.D) }

	// ---- 1. RSA_PAD: every data length 0..144 (+ too long), several tapes
	tapes := c.N(4, 20)
	decodeEvery := c.N(2, 1) // the model's private-key exponentiation is the expensive part
	cnt := 0
	for l := 0; l <= 147; l++ {
		for t := 0; t < tapes; t++ {
			k := keys[r.Intn(len(keys))]
			data := r.Bytes(l)
			if r.Chance(10) {
				data = bytes.Repeat([]byte{byte(r.Intn(2)) * 0xff}, l)
			}
			rounds := r.Range(6, 12)
			if r.Chance(4) {
				rounds = r.Intn(2)
			}
			tl := 192 - l + 32*rounds
			if l > 144 {
				tl = 32 * rounds
			}
			if r.Chance(3) {
				tl = r.Intn(tl + 1)
			}
			tape := r.Bytes(tl)
			var enc []byte
			got := safely(func() string {
				out, err := crypto.RSAPad(data, &k.priv.PublicKey, shortReads(tape, r))
				if err != nil {
					return tag(err)
				}
				enc = out
				return "ok " + hc.Hex(out)
			})
			line := fmt.Sprintf("pad %s %s %s", pubLine(k), hc.Hex(data), hc.Hex(tape))
			c.Eval(line, enc != nil)
			if enc == nil {
				c.Count("pad." + got)
				if got == "err tape" && l <= 144 && tl >= 192-l+32*40 {
					c.Fail("rsapad-no-result", line, got)
				}
				if strings.HasPrefix(got, "panic") || (l <= 144 && got == "err too-long") || (l > 144 && got != "err too-long") {
					c.Fail("rsapad-limit", line, got)
				}
				add(line, got)
				continue
			}
			c.Count("pad.ok")
			add(line, got)
			if len(tape) < 192-l+32 { // a result although the random source cannot have supplied padding and a temp key
				c.Fail("rsapad-short-source-accepted", line, fmt.Sprintf("RSAPad succeeded with only %d random bytes (needs %d for the padding and 32 per temp key)", len(tape), 192-l))
				continue
			}
			// monitor: the ciphertext is the RSA_PAD construction of the specification (independent reference)
			if want := refRSAPad(data, tape, k.priv.N, k.priv.E); !bytes.Equal(want, enc) {
				c.Fail("rsapad-not-spec", line, fmt.Sprintf("RSAPad = %s, specification (steps 1-9) gives %s", hc.Hex(enc), hc.Hex(want)))
			}
			// monitor: round trip gives data followed by the padding taken from the random source
			var dec []byte
			dgot := safely(func() string {
				out, err := crypto.DecodeRSAPad(enc, k.priv)
				if err != nil {
					return tag(err)
				}
				dec = out
				return "ok " + hc.Hex(out)
			})
			want := append(append([]byte{}, data...), tape[:192-l]...)
			if !bytes.Equal(dec, want) {
				c.Fail("rsapad-roundtrip", line, fmt.Sprintf("DecodeRSAPad(RSAPad(data)) = %s, want data+padding %s", dgot, hc.Hex(want)))
			}
			if len(enc) != 256 {
				c.Fail("rsapad-length", line, fmt.Sprintf("ciphertext has %d bytes", len(enc)))
			}
			cnt++
			if cnt%decodeEvery == 0 {
				dl := fmt.Sprintf("unpad %s %s", privLine(k), hc.Hex(enc))
				c.Eval(dl, true)
				c.Count("unpad.ok")
				add(dl, dgot)
			}
			// mutated ciphertext / foreign key must fail
			if cnt%c.N(6, 2) == 0 {
				mut := append([]byte{}, enc...)
				other := k
				kind := "mutated"
				if r.Bool() {
					mut[r.Intn(len(mut))] ^= 1 << uint(r.Intn(8))
				} else {
					kind = "foreign-key"
					for other.priv == k.priv {
						other = keys[r.Intn(len(keys))]
					}
				}
				mgot := safely(func() string {
					out, err := crypto.DecodeRSAPad(mut, other.priv)
					if err != nil {
						return tag(err)
					}
					return "ok " + hc.Hex(out)
				})
				ml := fmt.Sprintf("unpad %s %s", privLine(other), hc.Hex(mut))
				c.Eval(ml, true)
				c.Count("unpad." + kind + "." + mgot[:min(len(mgot), 12)])
				if !strings.HasPrefix(mgot, "err ") {
					c.Fail("rsapad-forgery-accepted", ml, kind+" ciphertext decoded: "+mgot)
				}
				add(ml, mgot)
			}
		}
	}
	// arbitrary 256-byte (and other length) inputs to the decoder
	for i := 0; i < c.N(20, 300); i++ {
		k := keys[r.Intn(len(keys))]
		in := r.Bytes(hc.Pick(r, 256, 256, 256, 0, 1, 255, 257, 300))
		got := safely(func() string {
			out, err := crypto.DecodeRSAPad(in, k.priv)
			if err != nil {
				return tag(err)
			}
			return "ok " + hc.Hex(out)
		})
		line := fmt.Sprintf("unpad %s %s", privLine(k), hc.Hex(in))
		c.Eval(line, true)
		c.Count("unpad.random." + strings.SplitN(got, " ", 2)[0])
		add(line, got)
	}

	// ---- 2. legacy hashed scheme: every data length 0..235 (+ too long)
	htapes := c.N(2, 8)
	hcnt := 0
	for l := 0; l <= 238; l++ {
		for t := 0; t < htapes; t++ {
			k := keys[r.Intn(len(keys))]
			data := r.Bytes(l)
			tl := 255
			if r.Chance(3) {
				tl = r.Intn(255)
			}
			tape := r.Bytes(tl)
			if r.Chance(30) {
				tape[0] = 0 // irrelevant: overwritten by the hash
			}
			var enc []byte
			got := safely(func() string {
				out, err := crypto.RSAEncryptHashed(data, &k.priv.PublicKey, shortReads(tape, r))
				if err != nil {
					return tag(err)
				}
				enc = out
				return "ok " + hc.Hex(out)
			})
			line := fmt.Sprintf("henc %s %s %s", pubLine(k), hc.Hex(data), hc.Hex(tape))
			c.Eval(line, enc != nil)
			add(line, got)
			if enc == nil {
				c.Count("henc." + got)
				if strings.HasPrefix(got, "panic") || (l <= 235 && got == "err too-long") || (l > 235 && got != "err too-long") {
					c.Fail("rsahashed-limit", line, got)
				}
				continue
			}
			c.Count("henc.ok")
			if want := refHashed(data, tape, k.priv.N, k.priv.E); !bytes.Equal(want, enc) {
				c.Fail("rsahashed-not-spec", line, fmt.Sprintf("RSAEncryptHashed = %s, specification gives %s", hc.Hex(enc), hc.Hex(want)))
			}
			var dec []byte
			dgot := safely(func() string {
				out, err := crypto.RSADecryptHashed(enc, k.priv)
				if err != nil {
					return tag(err)
				}
				dec = out
				return "ok " + hc.Hex(out)
			})
			if dec == nil || !bytes.Equal(dec, data) {
				c.Fail("rsahashed-roundtrip", line, fmt.Sprintf("RSADecryptHashed(RSAEncryptHashed(data)) = %s", dgot))
			}
			hcnt++
			if hcnt%c.N(3, 1) == 0 {
				dl := fmt.Sprintf("hdec %s %s", privLine(k), hc.Hex(enc))
				c.Eval(dl, true)
				c.Count("hdec.ok")
				add(dl, dgot)
			}
			if hcnt%c.N(8, 2) == 0 {
				mut := append([]byte{}, enc...)
				other := k
				kind := "mutated"
				if r.Bool() {
					mut[r.Intn(len(mut))] ^= 1 << uint(r.Intn(8))
				} else {
					kind = "foreign-key"
					for other.priv == k.priv {
						other = keys[r.Intn(len(keys))]
					}
				}
				mgot := safely(func() string {
					out, err := crypto.RSADecryptHashed(mut, other.priv)
					if err != nil {
						return tag(err)
					}
					return "ok " + hc.Hex(out)
				})
				ml := fmt.Sprintf("hdec %s %s", privLine(other), hc.Hex(mut))
				c.Eval(ml, true)
				c.Count("hdec." + kind + "." + mgot[:min(len(mgot), 12)])
				if !strings.HasPrefix(mgot, "err ") {
					c.Fail("rsahashed-forgery-accepted", ml, kind+" ciphertext decoded: "+mgot)
				}
				add(ml, mgot)
			}
		}
	}

	// ---- directed cases for the padding/normalisation of big integers: ciphertexts and decrypted
	// blocks whose big-endian form starts with a zero byte (1 in 256 at random; searched here)
	decPad := func(k key, enc []byte) string {
		return safely(func() string {
			out, err := crypto.DecodeRSAPad(enc, k.priv)
			if err != nil {
				return tag(err)
			}
			return "ok " + hc.Hex(out)
		})
	}
	decHashed := func(k key, enc []byte) string {
		return safely(func() string {
			out, err := crypto.RSADecryptHashed(enc, k.priv)
			if err != nil {
				return tag(err)
			}
			return "ok " + hc.Hex(out)
		})
	}
	rawDec := func(k key, enc []byte) *big.Int {
		return new(big.Int).Exp(new(big.Int).SetBytes(enc), k.priv.D, k.priv.N)
	}
	for i := 0; i < c.N(6, 60); i++ {
		k := keys[i%len(keys)]
		l := r.Range(0, 144)
		wantBlock := i%2 == 1 // odd: the *decrypted* block key_aes_encrypted starts with a zero byte; even: the ciphertext
		for t := 0; t < 20000; t++ {
			data, tape := r.Bytes(l), r.Bytes(192-l+32*8)
			enc, err := crypto.RSAPad(data, &k.priv.PublicKey, shortReads(tape, r))
			if err != nil || (!wantBlock && enc[0] != 0) {
				continue
			}
			if wantBlock && rawDec(k, enc).BitLen() > 2040 {
				continue
			}
			kind := "ciphertext-leading-zero"
			if wantBlock {
				kind = "block-leading-zero"
			}
			pl := fmt.Sprintf("pad %s %s %s", pubLine(k), hc.Hex(data), hc.Hex(tape))
			dl := fmt.Sprintf("unpad %s %s", privLine(k), hc.Hex(enc))
			dgot := decPad(k, enc)
			c.Eval(pl, true)
			c.Eval(dl, true)
			c.Count("pad.directed." + kind)
			if want := "ok " + hc.Hex(append(append([]byte{}, data...), tape[:192-l]...)); dgot != want {
				c.Fail("rsapad-roundtrip", pl, kind+": DecodeRSAPad(RSAPad(data)) = "+dgot)
			}
			add(pl, "ok "+hc.Hex(enc))
			add(dl, dgot)
			break
		}
	}
	for i := 0; i < c.N(6, 60); i++ {
		k := keys[i%len(keys)]
		l := r.Range(0, 235)
		wantBlock := i%2 == 1 // odd: SHA1(data) (first byte of the decrypted block) starts with zero; even: the ciphertext
		for t := 0; t < 20000; t++ {
			data, tape := r.Bytes(l), r.Bytes(255)
			if wantBlock && (l == 0 || sha1.Sum(data)[0] != 0) {
				if l == 0 {
					l = 1
				}
				continue
			}
			enc, err := crypto.RSAEncryptHashed(data, &k.priv.PublicKey, shortReads(tape, r))
			if err != nil || (!wantBlock && enc[0] != 0) {
				continue
			}
			kind := "ciphertext-leading-zero"
			if wantBlock {
				kind = "block-leading-zero"
			}
			el := fmt.Sprintf("henc %s %s %s", pubLine(k), hc.Hex(data), hc.Hex(tape))
			dl := fmt.Sprintf("hdec %s %s", privLine(k), hc.Hex(enc))
			dgot := decHashed(k, enc)
			c.Eval(el, true)
			c.Eval(dl, true)
			c.Count("henc.directed." + kind)
			if dgot != "ok "+hc.Hex(data) {
				c.Fail("rsahashed-roundtrip", el, kind+": RSADecryptHashed(RSAEncryptHashed(data)) = "+dgot)
			}
			add(el, "ok "+hc.Hex(enc))
			add(dl, dgot)
			break
		}
	}

	// raw RSA blocks without a matching SHA-1 prefix: the hashed decoder's `hash mismatch` branch
	for i := 0; i < c.N(20, 300); i++ {
		k := keys[r.Intn(len(keys))]
		m := new(big.Int).SetBytes(r.Bytes(hc.Pick(r, 255, 255, 254, 200, 20, 1)))
		in := make([]byte, 256)
		new(big.Int).Exp(m, big.NewInt(int64(k.priv.E)), k.priv.N).FillBytes(in)
		got := safely(func() string {
			out, err := crypto.RSADecryptHashed(in, k.priv)
			if err != nil {
				return tag(err)
			}
			return "ok " + hc.Hex(out)
		})
		line := fmt.Sprintf("hdec %s %s", privLine(k), hc.Hex(in))
		c.Eval(line, true)
		c.Count("hdec.raw-block." + got[:min(len(got), 12)])
		if !strings.HasPrefix(got, "err ") {
			c.Fail("rsahashed-forgery-accepted", line, "block without matching hash decoded: "+got)
		}
		add(line, got)
	}

	// ---- 2b. RSAFingerprint: low 64 bits of SHA1(TL-bytes(n) ‖ TL-bytes(e)) against an independent reference
	tlBytes := func(b []byte) []byte {
		var out []byte
		if len(b) <= 253 {
			out = append([]byte{byte(len(b))}, b...)
		} else {
			out = append([]byte{254, byte(len(b)), byte(len(b) >> 8), byte(len(b) >> 16)}, b...)
		}
		for len(out)%4 != 0 {
			out = append(out, 0)
		}
		return out
	}
	for i := 0; i < c.N(60, 2000); i++ {
		var n *big.Int
		if i < len(keys) {
			n = keys[i].priv.N
		} else {
			nb := r.Bytes(hc.Pick(r, 128, 256, 256, 253, 254, 255, 257, 1, r.Range(1, 300)))
			nb[0] |= byte(r.Intn(2)) << 7
			n = new(big.Int).SetBytes(nb)
		}
		e := hc.Pick(r, 65537, 65537, 3, 17, 257, 1<<24+1, r.Intn(1<<30)+1)
		got := uint64(crypto.RSAFingerprint(&rsa.PublicKey{N: n, E: e}))
		hs := sha1.Sum(append(tlBytes(n.Bytes()), tlBytes(big.NewInt(int64(e)).Bytes())...))
		var want uint64
		for k := 0; k < 8; k++ {
			want |= uint64(hs[12+k]) << (8 * uint(k))
		}
		line := fmt.Sprintf("fp %s %s", hexN(n), hexN(big.NewInt(int64(e))))
		c.Eval(line, true)
		c.Count(fmt.Sprintf("fingerprint.n-bytes<=253:%v", len(n.Bytes()) <= 253))
		if got != want {
			c.Fail("rsa-fingerprint-not-spec", line, fmt.Sprintf("RSAFingerprint = %d, specification gives %d", got, want))
		}
		add(line, fmt.Sprint(got))
	}

	// ---- 3. the repository's known-answer vector (production key #1, all-zero random source)
	{
		pk, err := crypto.ParseRSAPublicKeys([]byte("-----BEGIN RSA PUBLIC KEY-----\n" +
			"MIIBCgKCAQEA6LszBcC1LGzyr992NzE0ieY+BSaOW622Aa9Bd4ZHLl+TuFQ4lo4g\n" +
			"5nKaMBwK/BIb9xUfg0Q29/2mgIR6Zr9krM7HjuIcCzFvDtr+L0GQjae9H0pRB2OO\n" +
			"62cECs5HKhT5DZ98K33vmWiLowc621dQuwKWSQKjWf50XYFw42h21P2KXUGyp2y/\n" +
			"+aEyZ+uVgLLQbRA1dEjSDZ2iGRy12Mk5gpYc397aYp438fsJoHIgJ2lgMv5h7WY9\n" +
			"t6N/byY9Nw9p21Og3AoXSL2q/2IJ1WRUhebgAdGVMlV1fkuOQoEzR7EdpqtQD9Cs\n" +
			"5+bfo3Nhmcyvk5ftB0WkJ9z6bNZ7yxrP8wIDAQAB\n-----END RSA PUBLIC KEY-----"))
		if err == nil && len(pk) == 1 {
			data := bytes.Repeat([]byte{'a'}, 144)
			tape := make([]byte, 48+32*4)
			out, err := crypto.RSAPad(data, pk[0], shortReads(tape, r))
			if err == nil {
				line := fmt.Sprintf("pad %s %s %s %s", hexN(pk[0].N), hexN(big.NewInt(int64(pk[0].E))), hc.Hex(data), hc.Hex(tape))
				c.Eval(line, true)
				c.Count("pad.known-answer")
				add(line, "ok "+hc.Hex(out))
			}
		}
	}

	c.Res.Exhaustive = true
	c.Res.Rule = "every random source is delivered through PRNG-chosen short reads (1 byte, 1..n, 1..16, n−1 bytes per Read, nil error) — results must depend on the logical tape only; RSA_PAD: every data length 0..147 × several random tapes (random/constant data, 6..12 temp keys, some short tapes) over 4 keys (testutil key + 3 PRNG-generated 2047/2048-bit moduli chosen so that the retry branch `key_aes_encrypted ≥ N` is taken often); hashed scheme: every data length 0..238; decoders additionally on one-bit mutations, foreign keys and random inputs; directed (searched) cases where the ciphertext or the decrypted RSA block starts with a zero byte (padding/normalisation of big integers); non-trivial = an encryption that succeeded, or any decoder input; distinct = distinct request line"
	c.PartialNote("rejection of foreign-key/altered ciphertexts is conditional on SHA-256/SHA-1 preimage resistance: exercised, and proved only in the form success ⇒ hash equation")

	lines := make([]string, len(cs))
	for i, x := range cs {
		lines[i] = x.line
	}
	outs, err := c.Drv.Batch(lines)
	if err != nil {
		return err
	}
	for i, o := range outs {
		if c.Compare(cs[i].line, cs[i].impl, o) {
			c.Res.TracesValidated++
		}
	}
	return nil
}
