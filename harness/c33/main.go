// C33 — downloads: correspondence of telegram/downloader (reader.nextPlain/next, stream, parallel) with
// the Lean model TdModel.C33, plus the property monitor on the implementation (the bytes written are
// exactly the remote file: no gap, no duplicate, correct length, reported type).
package main

import (
	"bytes"
	"context"
	"encoding/binary"
	"fmt"
	"go/ast"
	"go/parser"
	"go/printer"
	"go/token"
	"path/filepath"
	"sort"
	"strconv"
	"strings"
	"sync"
	"time"

	"github.com/gotd/td/telegram/downloader"
	"github.com/gotd/td/tg"
	"github.com/gotd/td/tgerr"

	"verif/harness/hc"
)

func main() {
	hc.Main(hc.Spec{Prop: "C33", Facts: facts, Run: run})
}

// ---------------------------------------------------------------- facts

func boolFact(f *hc.Facts, name string, ok, bad bool, comment string) {
	switch {
	case ok:
		f.Bool(name, true, comment)
	case bad:
		f.Bool(name, false, comment)
	default:
		f.Raw(fmt.Sprintf("def %s : Bool := missing_fact_%s -- %s", name, name, comment))
	}
}

// loopFacts inspects the download loop of stream / parallel: the `n < 1` end test, and that the block
// is sent to the writer before `b.last()` is consulted.
func loopFacts(f *hc.Facts, fn string) (endTest string, sendBeforeLast bool, found bool) {
	fd := f.FuncDecl("telegram/downloader", "Downloader."+fn)
	if fd == nil {
		return "", false, false
	}
	ast.Inspect(fd.Body, func(n ast.Node) bool {
		fs, ok := n.(*ast.ForStmt)
		if !ok || fs.Cond != nil {
			return true
		}
		sendAt, lastAt, hasNext := -1, -1, false
		for i, st := range fs.Body.List {
			src := f.Src(st)
			switch s := st.(type) {
			case *ast.AssignStmt:
				if strings.Contains(src, "r.Next(ctx)") {
					hasNext = true
				}
			case *ast.IfStmt:
				c := f.Src(s.Cond)
				if c == "b.last()" {
					lastAt = i
				}
				if strings.HasPrefix(c, "n ") {
					endTest = c
				}
			case *ast.SelectStmt:
				if strings.Contains(src, "toWrite <- b") {
					sendAt = i
				}
			}
		}
		if hasNext {
			found = true
			sendBeforeLast = sendAt >= 0 && lastAt >= 0 && sendAt < lastAt
			return false
		}
		return true
	})
	return
}

// structFieldType returns the source of the type of field `field` of struct `typ` in dir/file, or "".
func structFieldType(f *hc.Facts, dir, file, typ, field string) string {
	fset := token.NewFileSet()
	af, err := parser.ParseFile(fset, filepath.Join(f.Repo, dir, file), nil, 0)
	if err != nil {
		return ""
	}
	out := ""
	ast.Inspect(af, func(n ast.Node) bool {
		ts, ok := n.(*ast.TypeSpec)
		if !ok || ts.Name.Name != typ {
			return true
		}
		if st, ok := ts.Type.(*ast.StructType); ok {
			for _, fl := range st.Fields.List {
				for _, nm := range fl.Names {
					if nm.Name == field {
						var b bytes.Buffer
						printer.Fprint(&b, fset, fl.Type)
						out = b.String()
					}
				}
			}
		}
		return false
	})
	return out
}

func facts(f *hc.Facts) {
	e1, s1, ok1 := loopFacts(f, "stream")
	e2, s2, ok2 := loopFacts(f, "parallel")
	boolFact(f, "emptyStops", ok1 && ok2 && e1 == "n < 1" && e2 == "n < 1", false,
		fmt.Sprintf("stream: `%s`, parallel: `%s`", e1, e2))
	boolFact(f, "writeBeforeLastCheck", ok1 && ok2 && s1 && s2, ok1 && ok2 && !s1 && !s2, "toWrite <- b precedes `if b.last()` in stream and parallel")
	last := ""
	if fd := f.FuncDecl("telegram/downloader", "block.last"); fd != nil && len(fd.Body.List) == 1 {
		if rs, ok := fd.Body.List[0].(*ast.ReturnStmt); ok && len(rs.Results) == 1 {
			last = f.Src(rs.Results[0])
		}
	}
	boolFact(f, "lastIsShorter", last == "len(b.data) < b.partSize", last == "len(b.data) <= b.partSize", "block.last: "+last)
	step := ""
	if fd := f.FuncDecl("telegram/downloader", "reader.nextPlain"); fd != nil {
		for _, st := range fd.Body.List {
			if as, ok := st.(*ast.AssignStmt); ok && f.Src(as.Lhs[0]) == "r.offset" {
				step = f.Src(as)
			}
		}
	}
	boolFact(f, "allocStepIsPartSize", step == "r.offset += int64(r.partSize)", false, "nextPlain: "+step)
	f.Const("defaultPartSize", "telegram/downloader", "defaultPartSize")
	// reader.next: the retry branch is `retryAttempt++; report…; continue` — no limit, no return
	boolFact2 := func(name, fn string) {
		shape, found := "", false
		if fd := f.FuncDecl("telegram/downloader", fn); fd != nil {
			ast.Inspect(fd.Body, func(n ast.Node) bool {
				is, ok := n.(*ast.IfStmt)
				if !ok || f.Src(is.Cond) != "flood || isRetryableTimeout(ctx, err)" {
					return true
				}
				found = true
				var parts []string
				for _, st := range is.Body.List {
					switch s := st.(type) {
					case *ast.IncDecStmt:
						parts = append(parts, f.Src(s))
					case *ast.ExprStmt:
						parts = append(parts, "call")
					case *ast.BranchStmt:
						parts = append(parts, s.Tok.String())
					default:
						parts = append(parts, fmt.Sprintf("%T", st))
					}
				}
				shape = strings.Join(parts, ";")
				return false
			})
		}
		boolFact(f, name, found && shape == "retryAttempt++;call;continue", found && shape != "retryAttempt++;call;continue",
			fn+": retry branch = "+shape)
	}
	// reader.next hands the chunk on as it came (also an empty one, with its storage type): the loop body
	// is `ch, err := Chunk; if flood… {…}; return block{chunk: ch, offset: offset, partSize: r.partSize}, nil`
	shapeNext := ""
	if fd := f.FuncDecl("telegram/downloader", "reader.next"); fd != nil {
		ast.Inspect(fd.Body, func(n ast.Node) bool {
			fs, ok := n.(*ast.ForStmt)
			if !ok {
				return true
			}
			var parts []string
			for _, st := range fs.Body.List {
				switch s := st.(type) {
				case *ast.AssignStmt:
					parts = append(parts, "assign")
				case *ast.IfStmt:
					parts = append(parts, "if")
				case *ast.ReturnStmt:
					parts = append(parts, strings.Join(strings.Fields(f.Src(s)), ""))
				default:
					parts = append(parts, fmt.Sprintf("%T", st))
				}
			}
			shapeNext = strings.Join(parts, ";")
			return false
		})
	}
	wantNext := "assign;if;returnblock{chunk:ch,offset:offset,partSize:r.partSize,},nil"
	boolFact(f, "nextReturnsChunkAsIs", shapeNext == wantNext, shapeNext != "" && shapeNext != wantNext, "reader.next loop body: "+shapeNext)
	// the offset counter is a 64-bit byte offset advanced in 64-bit arithmetic
	offType := ""
	if fd := f.FuncDecl("telegram/downloader", "reader.nextPlain"); fd != nil {
		offType = f.Src(fd.Body)
	}
	is64 := strings.Contains(offType, "offset := r.offset") && strings.Contains(offType, "r.offset += int64(r.partSize)") &&
		strings.Contains(offType, "return r.next(ctx, offset, r.partSize)") && structFieldType(f, "telegram/downloader", "reader.go", "reader", "offset") == "int64"
	boolFact(f, "offsetIsInt64", is64, offType != "" && !is64, "reader.offset int64; nextPlain: offset := r.offset; r.offset += int64(r.partSize)")
	boolFact2("readerRetryUnbounded", "reader.next")
	boolFact2("verifierRetryUnbounded", "verifier.next")
}

// ---------------------------------------------------------------- remote file and mock client

type gen struct {
	seed uint64
	size int64
}

func mix(z uint64) uint64 {
	z = (z ^ (z >> 30)) * 0xBF58476D1CE4E5B9
	z = (z ^ (z >> 27)) * 0x94D049BB133111EB
	return z ^ (z >> 31)
}

func (g gen) fill(off int64, p []byte) {
	var w [8]byte
	for len(p) > 0 {
		idx := uint64(off) / 8
		binary.LittleEndian.PutUint64(w[:], mix(g.seed+idx*0x9E3779B97F4A7C15))
		k := int(off % 8)
		n := copy(p, w[k:])
		p = p[n:]
		off += int64(n)
	}
}

func (g gen) chunk(off int64, limit int) []byte {
	if off >= g.size {
		return nil
	}
	n := int64(limit)
	if n > g.size-off {
		n = g.size - off
	}
	b := make([]byte, n)
	g.fill(off, b)
	return b
}

type pend struct {
	idx int
	ch  chan struct{}
}

type mock struct {
	mu       sync.Mutex
	g        gen
	ps       int
	script   map[int]string // block index -> answers before the chunk is served: f|t|e
	attempts map[int64]int
	limits   map[int64]map[int]bool
	order    []int64 // first arrival of every offset
	badReq   string
	// gate (parallel only)
	gated   bool
	threads int
	rng     *hc.RNG
	pending []*pend
	wake    chan struct{}
	done    chan struct{}
	events  []string
	k       int
	sent    int
	stops   int
}

var fileType = &tg.StorageFileMp4{}

// hookOnce installs the scheduling-point hook of /repo/telegram/downloader/verif_hook_c33.go: events are
// routed to the mock client the download runs against.
var hookOnce sync.Once

func installHook() {
	hookOnce.Do(func() {
		downloader.VerifC33Hook = func(client any, ev string, off int64, n int) {
			if m, ok := client.(*mock); ok {
				m.observe(ev, off, n)
			}
		}
	})
}

// observe records the model's actions at the code's own scheduling points: `request` (reader.next entered
// for a freshly allocated offset; concurrent workers may get here in another order than they allocated, so
// the allocations up to that index are emitted) and `complete` (a parallel worker's r.Next returned).
func (m *mock) observe(ev string, off int64, n int) {
	if !m.gated || m.ps <= 0 {
		return
	}
	m.mu.Lock()
	defer m.mu.Unlock()
	idx := int(off / int64(m.ps))
	switch ev {
	case "request":
		for m.k <= idx {
			m.events = append(m.events, "a")
			m.k++
		}
	case "complete":
		m.events = append(m.events, "c"+strconv.Itoa(idx))
	case "sent":
		m.sent++
	case "stop":
		m.stops++
	}
}

func (m *mock) UploadGetFile(ctx context.Context, r *tg.UploadGetFileRequest) (tg.UploadFileClass, error) {
	m.mu.Lock()
	off, limit := r.Offset, r.Limit
	a := m.attempts[off]
	m.attempts[off] = a + 1
	if a == 0 {
		m.order = append(m.order, off)
		m.limits[off] = map[int]bool{}
	}
	m.limits[off][limit] = true
	if !r.Precise || r.CDNSupported {
		m.badReq = "flags"
	}
	idx := -1
	if m.ps > 0 && off%int64(m.ps) == 0 {
		idx = int(off / int64(m.ps))
	} else {
		m.badReq = fmt.Sprintf("offset %d is not a multiple of the part size", off)
	}
	var p *pend
	sc := m.script[idx]
	// long fault runs: only the first and the serving attempt go through the scheduler
	if m.gated && (a == 0 || a >= len(sc) || len(sc) <= 3) {
		p = &pend{idx, make(chan struct{})}
		m.pending = append(m.pending, p)
	}
	m.mu.Unlock()
	if p != nil {
		select {
		case m.wake <- struct{}{}:
		default:
		}
		<-p.ch
	}
	if a < len(sc) {
		switch sc[a] {
		case 'f':
			return nil, tgerr.New(420, "FLOOD_WAIT_0")
		case 't':
			return nil, tgerr.New(-503, "Timeout")
		case 'e':
			return nil, tgerr.New(400, "LOCATION_INVALID")
		}
	}
	return &tg.UploadFile{Type: fileType, Bytes: m.g.chunk(off, limit)}, nil
}

// schedule releases one pending request at a time, PRNG-chosen, once every worker is blocked in the
// mock (or nothing new arrived for a while: workers that left their loop never arrive).
func (m *mock) schedule() {
	for {
		idle := false
		select {
		case <-m.done:
			m.mu.Lock()
			for _, p := range m.pending {
				close(p.ch)
			}
			m.pending = nil
			m.mu.Unlock()
			return
		case <-m.wake:
		case <-time.After(400 * time.Microsecond):
			idle = true
		}
		m.mu.Lock()
		if n := len(m.pending); n > 0 && (n >= m.threads || idle) {
			j := m.rng.Intn(n)
			p := m.pending[j]
			m.pending = append(m.pending[:j], m.pending[j+1:]...)
			close(p.ch)
		}
		m.mu.Unlock()
	}
}

func (m *mock) UploadGetFileHashes(ctx context.Context, r *tg.UploadGetFileHashesRequest) ([]tg.FileHash, error) {
	return nil, fmt.Errorf("unexpected UploadGetFileHashes")
}
func (m *mock) UploadReuploadCDNFile(ctx context.Context, r *tg.UploadReuploadCDNFileRequest) ([]tg.FileHash, error) {
	return nil, fmt.Errorf("unexpected UploadReuploadCDNFile")
}
func (m *mock) UploadGetCDNFileHashes(ctx context.Context, r *tg.UploadGetCDNFileHashesRequest) ([]tg.FileHash, error) {
	return nil, fmt.Errorf("unexpected UploadGetCDNFileHashes")
}
// UploadGetWebFile serves the same file through the web-file schema (Downloader.Web): same reader,
// same loops; the scripted faults and the request log are shared with UploadGetFile.
func (m *mock) UploadGetWebFile(ctx context.Context, r *tg.UploadGetWebFileRequest) (*tg.UploadWebFile, error) {
	res, err := m.UploadGetFile(ctx, &tg.UploadGetFileRequest{Offset: int64(r.Offset), Limit: r.Limit, Precise: true})
	if err != nil {
		return nil, err
	}
	f := res.(*tg.UploadFile)
	return &tg.UploadWebFile{FileType: f.Type, Bytes: f.Bytes, Size: int(m.g.size), MimeType: "video/mp4"}, nil
}

// ---------------------------------------------------------------- sinks

type seqWriter struct{ writes [][]byte }

func (w *seqWriter) Write(p []byte) (int, error) {
	w.writes = append(w.writes, append([]byte(nil), p...))
	return len(p), nil
}

type wrec struct {
	off  int64
	data []byte
}

type atWriter struct {
	mu     sync.Mutex
	writes []wrec
}

func (w *atWriter) WriteAt(p []byte, off int64) (int, error) {
	w.mu.Lock()
	w.writes = append(w.writes, wrec{off, append([]byte(nil), p...)})
	w.mu.Unlock()
	return len(p), nil
}

// ---------------------------------------------------------------- cases

type dcase struct {
	size     int64
	ps       int
	threads  int // 0 = stream
	script   map[int]string
	seed     uint64
	rng      *hc.RNG
	bytes    bool
	web      bool // Downloader.Web (streamed only: the scheduling hook identifies master-schema clients)
	class    string
	floodCnt int
}

type dresult struct {
	err    error
	panicv any
	typ    tg.StorageFileTypeClass
	m      *mock
	sw     *seqWriter
	aw     *atWriter
}

func scriptString(sc map[int]string) string {
	if len(sc) == 0 {
		return "-"
	}
	keys := make([]int, 0, len(sc))
	for k := range sc {
		keys = append(keys, k)
	}
	sort.Ints(keys)
	p := make([]string, len(keys))
	for i, k := range keys {
		p[i] = fmt.Sprintf("%d:%s", k, sc[k])
	}
	return strings.Join(p, ",")
}

func hasErr(sc map[int]string) bool {
	for _, s := range sc {
		if strings.Contains(s, "e") {
			return true
		}
	}
	return false
}

func runCase(d *dcase) (res dresult) {
	installHook()
	m := &mock{g: gen{d.seed, d.size}, ps: d.ps, script: d.script, attempts: map[int64]int{}, limits: map[int64]map[int]bool{}}
	res.m = m
	defer func() {
		if r := recover(); r != nil {
			res.panicv = r
		}
	}()
	dl := downloader.NewDownloader().WithPartSize(d.ps)
	b := dl.Download(m, &tg.InputDocumentFileLocation{ID: 1})
	if d.web {
		b = dl.Web(m, &tg.InputWebFileLocation{URL: "https://example.org/f", AccessHash: 1})
	}
	if d.threads == 0 {
		res.sw = &seqWriter{}
		res.typ, res.err = b.Stream(context.Background(), res.sw)
		return res
	}
	m.gated, m.threads, m.rng = true, d.threads, d.rng
	m.wake, m.done = make(chan struct{}, 1), make(chan struct{})
	go m.schedule()
	res.aw = &atWriter{}
	res.typ, res.err = b.WithThreads(d.threads).Parallel(context.Background(), res.aw)
	close(m.done)
	return res
}

// longRun puts 1..64 consecutive retryable faults on ONE block (first / middle / last / the empty block
// after the end): retry transparency must not depend on how long the run is.  Timeouts are retried
// without delay; a FLOOD_WAIT costs a real second, so at most one per script and only within the budget.
func longRun(r *hc.RNG, nblocks int, floodBudget *int) map[int]string {
	idx := hc.Pick(r, 0, nblocks/2, nblocks-1, nblocks)
	if idx < 0 {
		idx = 0
	}
	n := hc.Pick(r, 1, 2, 5, 19, 20, 21, 22, 32, 40, 63, 64, r.Range(1, 64))
	b := bytes.Repeat([]byte{'t'}, n)
	if *floodBudget > 0 && r.Chance(15) {
		*floodBudget--
		b[r.Intn(n)] = 'f'
	}
	return map[int]string{idx: string(b)}
}

func genScript(r *hc.RNG, nblocks int, floodBudget *int) map[int]string {
	sc := map[int]string{}
	if r.Chance(25) {
		return longRun(r, nblocks, floodBudget)
	}
	if r.Chance(40) {
		return sc
	}
	for i := r.Range(1, 3); i > 0; i-- {
		idx := r.Intn(nblocks + 1)
		var b []byte
		for j := r.Range(1, 3); j > 0; j-- {
			if r.Chance(15) && *floodBudget > 0 {
				*floodBudget--
				b = append(b, 'f')
			} else {
				b = append(b, 't')
			}
		}
		if r.Chance(6) {
			b = append(b, 'e')
		}
		sc[idx] = string(b)
	}
	return sc
}

func reqString(m *mock) string {
	offs := append([]int64(nil), m.order...)
	sort.Slice(offs, func(i, j int) bool { return offs[i] < offs[j] })
	p := make([]string, len(offs))
	for i, o := range offs {
		ls := make([]int, 0, 1)
		for l := range m.limits[o] {
			ls = append(ls, l)
		}
		sort.Ints(ls)
		lp := make([]string, len(ls))
		for j, l := range ls {
			lp[j] = strconv.Itoa(l)
		}
		p[i] = fmt.Sprintf("%d:%s:%d", o, strings.Join(lp, "/"), m.attempts[o])
	}
	if len(p) == 0 {
		return "-"
	}
	return strings.Join(p, ",")
}

// ---------------------------------------------------------------- run

func run(c *hc.Ctx) error {
	r := c.Rng.Fork() // hc.NewRNG(seed) streams of neighbouring seeds are the same sequence shifted by one draw and re-synchronise; a fork lands far away
	floodBudget := c.N(6, 40)
	var lines, impls []string
	var cases []*dcase
	add := func(class string, size int64, ps, threads int, withScript bool) {
		d := &dcase{size: size, ps: ps, threads: threads, class: class, seed: r.U64(), rng: r.Fork()}
		d.bytes = size <= 4096 && ps <= 1024
		if withScript {
			d.script = genScript(r, int((size+int64(ps)-1)/int64(ps)), &floodBudget)
		}
		cases = append(cases, d)
	}
	sizesAround := func(ps int) int64 {
		k := r.Range(0, 9)
		switch r.Intn(7) {
		case 0:
			return 0
		case 1:
			return 1
		case 2:
			return int64(ps*k) - 1
		case 3:
			return int64(ps * k)
		case 4:
			return int64(ps*k) + 1
		case 5:
			return int64(ps * r.Range(1, 30))
		}
		return int64(r.Intn(ps*10 + 1))
	}
	n := c.N(1200, 8000)
	for i := 0; i < n; i++ {
		ps := hc.Pick(r, 1, 2, 3, 7, 16, 64, 100, 1024)
		size := sizesAround(ps)
		if size < 0 {
			size = 0
		}
		if size > 4096 {
			size = int64(r.Intn(4097))
		}
		threads := 0
		if r.Chance(60) {
			threads = r.Range(1, 8)
		}
		add("bytes", size, ps, threads, true)
		if threads == 0 && r.Chance(25) {
			cases[len(cases)-1].web = true
		}
	}
	nBig := c.N(60, 300)
	for i := 0; i < nBig; i++ {
		ps := hc.Pick(r, 4096, 65536, 131072, 524288, 1048576)
		size := sizesAround(ps)
		if size < 0 {
			size = 0
		}
		if size > 6<<20 {
			size = int64(ps * r.Range(1, 6))
		}
		threads := 0
		if r.Chance(60) {
			threads = r.Range(1, 8)
		}
		add("large", size, ps, threads, r.Chance(40))
	}

	// files beyond 2 GiB (Telegram serves up to 4 GB): 512 MiB parts answered from one shared zero slab
	// that is never written, sinks that only count — byte offsets cross 2^31 and 2^32
	hugeSizes := []int64{1<<31 - 1, 1 << 31, 1<<31 + 5, 1<<32 + 7}
	if c.Thorough() {
		hugeSizes = append(hugeSizes, 3<<30, 5<<30+5, 1<<32)
	}
	hugeStart := time.Now()
	for i, size := range hugeSizes {
		threads := 0
		if i%2 == 1 {
			threads = r.Range(2, 4)
		}
		runHuge(c, size, threads, &lines, &impls)
	}
	c.Note("huge-file section took %.1fs", time.Since(hugeStart).Seconds())

	results := make([]dresult, len(cases))
	var wg sync.WaitGroup
	sem := make(chan struct{}, 6)
	for i := range cases {
		wg.Add(1)
		sem <- struct{}{}
		go func(i int) {
			defer wg.Done()
			defer func() { <-sem }()
			results[i] = runCase(cases[i])
		}(i)
	}
	wg.Wait()

	for i, d := range cases {
		res := results[i]
		m := res.m
		file := make([]byte, d.size)
		gen{d.seed, d.size}.fill(0, file)
		mode := "stream"
		if d.threads > 0 {
			mode = "par"
		}
		fileArg := "n" + strconv.FormatInt(d.size, 10)
		if d.bytes {
			fileArg = hc.Hex(file)
		}
		var line string
		if d.threads == 0 {
			line = fmt.Sprintf("stream %d %s %s", d.ps, scriptString(d.script), fileArg)
		} else {
			m.mu.Lock()
			ev := strings.Join(m.events, ",")
			m.mu.Unlock()
			if ev == "" {
				ev = "-"
			}
			line = fmt.Sprintf("par %d %s %s %s", d.ps, scriptString(d.script), ev, fileArg)
		}
		c.Eval(fmt.Sprintf("%s ps=%d threads=%d script=%s size=%d seed=%d", mode, d.ps, d.threads, scriptString(d.script), d.size, d.seed), d.size > int64(d.ps))
		c.Count(mode + "." + d.class)
		if d.web {
			c.Count("web-file-schema")
		}
		c.Count(fmt.Sprintf("threads=%d", d.threads))
		switch {
		case d.size == 0:
			c.Count("size.zero")
		case d.size%int64(d.ps) == 0:
			c.Count("size.exact-multiple")
		case d.size < int64(d.ps):
			c.Count("size.single-short-block")
		default:
			c.Count("size.multi-block")
		}
		if len(d.script) > 0 {
			c.Count("with-retries")
			for _, sc := range d.script {
				switch n := len(sc); {
				case n >= 20:
					c.Count("retry-run>=20")
				case n >= 5:
					c.Count("retry-run=5..19")
				}
			}
		}

		// ---- monitor
		var got []byte
		overlap, beyond := false, false
		var wdesc []string
		if d.threads == 0 && res.sw != nil {
			for _, w := range res.sw.writes {
				if d.bytes {
					wdesc = append(wdesc, hc.Hex(w))
				} else {
					wdesc = append(wdesc, strconv.Itoa(len(w)))
				}
				got = append(got, w...)
			}
		} else if res.aw != nil {
			ws := append([]wrec(nil), res.aw.writes...)
			sort.SliceStable(ws, func(i, j int) bool { return ws[i].off < ws[j].off })
			covered := int64(0)
			var buf []byte
			for _, w := range ws {
				if w.off < covered {
					overlap = true
				}
				end := w.off + int64(len(w.data))
				if end > d.size {
					beyond = true
				}
				if end > covered {
					covered = end
				}
				for int64(len(buf)) < end {
					buf = append(buf, 0)
				}
				copy(buf[w.off:], w.data)
				if d.bytes {
					wdesc = append(wdesc, fmt.Sprintf("%d:%s", w.off, hc.Hex(w.data)))
				} else {
					wdesc = append(wdesc, fmt.Sprintf("%d:%d", w.off, len(w.data)))
				}
			}
			got = buf
		}
		wantErr := hasErr(d.script)
		switch {
		case res.panicv != nil:
			c.Fail("download-panic", line, fmt.Sprint(res.panicv))
		case res.err != nil && !wantErr:
			c.Fail("download-unexpected-error", line, res.err.Error())
		case res.err == nil:
			c.Count("outcome=ok")
			if !bytes.Equal(got, file) {
				c.Fail("download-not-exact", line, fmt.Sprintf("wrote %d bytes, file has %d (first difference at %d)", len(got), len(file), firstDiff(got, file)))
			}
			if overlap {
				c.Fail("download-duplicate-bytes", line, "two WriteAt ranges overlap")
			}
			if beyond {
				c.Fail("download-beyond-length", line, "a write ends beyond the file length")
			}
			if res.typ != tg.StorageFileTypeClass(fileType) {
				c.Fail("download-type-not-reported", line, fmt.Sprintf("type %v", res.typ))
			}
			if m.badReq != "" {
				c.Fail("download-bad-request", line, m.badReq)
			}
		default:
			c.Count("outcome=error")
		}

		// ---- correspondence
		var impl string
		wd := strings.Join(wdesc, ",")
		if wd == "" {
			wd = "-"
		}
		switch {
		case res.panicv != nil:
			impl = "panic"
		case res.err != nil:
			impl = "err"
			if d.threads == 0 {
				// which already fetched blocks still reach the writer after the error is up to the scheduler
				impl = fmt.Sprintf("err r=%s", reqString(m))
			}
		default:
			t := "other"
			if res.typ == nil {
				t = "none"
			} else if res.typ == tg.StorageFileTypeClass(fileType) {
				t = "some"
			}
			impl = fmt.Sprintf("ok t=%s w=%s r=%s", t, wd, reqString(m))
		}
		lines, impls = append(lines, line), append(impls, impl)
	}
	c.Res.Rule = "files of 0, 1, k·ps−1, k·ps, k·ps+1 and random sizes; part sizes 1..1024 with byte-level comparison (files ≤ 4 KiB) and 4 KiB..1 MiB with length-level comparison (files ≤ 6 MiB); Stream and Parallel with 1..8 threads under a PRNG-driven gate that releases one blocked request at a time; scripted retryable timeouts / FLOOD_WAIT / hard errors per block, incl. runs of 1..64 consecutive retryable faults on the first / a middle / the last block / the empty block after the end; non-trivial = more than one block; distinct = distinct case parameters"
	c.PartialNote("goroutine scheduling below the granularity of whole chunk requests (the mock client is the only scheduling point; no hook inside parallel.go) and the Go memory model are not exhibited by the model; request arrival order at the mock may differ from allocation order, so `alloc` actions are reconstructed from arrivals")
	c.PartialNote("FLOOD_WAIT is exercised with real 1 s sleeps (reader.next has no clock injection): only a few flood answers per run; retryable timeouts are retried immediately and are exercised freely")

	outs, err := c.Drv.Batch(lines)
	if err != nil {
		return err
	}
	for i, o := range outs {
		if c.Compare(lines[i], impls[i], o) {
			c.Res.TracesValidated++
		}
	}
	return nil
}

func firstDiff(a, b []byte) int {
	n := len(a)
	if len(b) < n {
		n = len(b)
	}
	for i := 0; i < n; i++ {
		if a[i] != b[i] {
			return i
		}
	}
	return n
}

// ---------------------------------------------------------------- files beyond 2 GiB

const hugePS = 512 << 20

var (
	slabOnce sync.Once
	slab     []byte
)

type hugeClient struct {
	mu   sync.Mutex
	size int64
	offs []int64
	bad  string
}

func (h *hugeClient) UploadGetFile(ctx context.Context, r *tg.UploadGetFileRequest) (tg.UploadFileClass, error) {
	h.mu.Lock()
	h.offs = append(h.offs, r.Offset)
	if r.Offset < 0 || r.Offset%hugePS != 0 || r.Limit != hugePS {
		h.bad = fmt.Sprintf("request offset=%d limit=%d", r.Offset, r.Limit)
	}
	h.mu.Unlock()
	if r.Offset < 0 {
		return nil, tgerr.New(400, "OFFSET_INVALID")
	}
	n := int64(r.Limit)
	if r.Offset >= h.size {
		n = 0
	} else if n > h.size-r.Offset {
		n = h.size - r.Offset
	}
	return &tg.UploadFile{Type: fileType, Bytes: slab[:n]}, nil
}
func (h *hugeClient) UploadGetFileHashes(ctx context.Context, r *tg.UploadGetFileHashesRequest) ([]tg.FileHash, error) {
	return nil, fmt.Errorf("unexpected")
}
func (h *hugeClient) UploadReuploadCDNFile(ctx context.Context, r *tg.UploadReuploadCDNFileRequest) ([]tg.FileHash, error) {
	return nil, fmt.Errorf("unexpected")
}
func (h *hugeClient) UploadGetCDNFileHashes(ctx context.Context, r *tg.UploadGetCDNFileHashesRequest) ([]tg.FileHash, error) {
	return nil, fmt.Errorf("unexpected")
}
func (h *hugeClient) UploadGetWebFile(ctx context.Context, r *tg.UploadGetWebFileRequest) (*tg.UploadWebFile, error) {
	return nil, fmt.Errorf("unexpected")
}

// countSink records only the extent of what is written.
type countSink struct {
	mu      sync.Mutex
	total   int64
	ranges  map[int64]int64 // offset -> length (WriteAt)
	overlap bool
}

func (s *countSink) Write(p []byte) (int, error) {
	s.mu.Lock()
	s.total += int64(len(p))
	s.mu.Unlock()
	return len(p), nil
}

func (s *countSink) WriteAt(p []byte, off int64) (int, error) {
	s.mu.Lock()
	if _, dup := s.ranges[off]; dup {
		s.overlap = true
	}
	s.ranges[off] = int64(len(p))
	s.total += int64(len(p))
	s.mu.Unlock()
	return len(p), nil
}

func runHuge(c *hc.Ctx, size int64, threads int, lines, impls *[]string) {
	slabOnce.Do(func() { slab = make([]byte, hugePS) })
	cl := &hugeClient{size: size}
	sink := &countSink{ranges: map[int64]int64{}}
	var typ tg.StorageFileTypeClass
	var err error
	var pv any
	func() {
		defer func() {
			if r := recover(); r != nil {
				pv = r
			}
		}()
		b := downloader.NewDownloader().WithPartSize(hugePS).Download(cl, &tg.InputDocumentFileLocation{ID: 1})
		if threads == 0 {
			typ, err = b.Stream(context.Background(), sink)
		} else {
			typ, err = b.WithThreads(threads).Parallel(context.Background(), sink)
		}
	}()
	sig := fmt.Sprintf("huge size=%d ps=%d threads=%d", size, hugePS, threads)
	c.Eval(sig, true)
	c.Count("huge-file")
	offs := append([]int64(nil), cl.offs...)
	sort.Slice(offs, func(i, j int) bool { return offs[i] < offs[j] })
	switch {
	case pv != nil:
		c.Fail("download-panic", sig, fmt.Sprint(pv))
	case err != nil:
		c.Fail("download-unexpected-error", sig, err.Error()+" (requests "+fmt.Sprint(offs)+")")
	default:
		if sink.total != size || sink.overlap {
			c.Fail("download-not-exact", sig, fmt.Sprintf("wrote %d bytes of %d (overlap=%v)", sink.total, size, sink.overlap))
		}
		if threads > 0 {
			var covered int64
			for off := int64(0); ; {
				l, ok := sink.ranges[off]
				if !ok || l == 0 {
					break
				}
				off += l
				covered = off
			}
			if covered != size {
				c.Fail("download-not-exact", sig, fmt.Sprintf("contiguous coverage ends at %d of %d", covered, size))
			}
		}
		if typ != tg.StorageFileTypeClass(fileType) {
			c.Fail("download-type-not-reported", sig, fmt.Sprintf("type %v", typ))
		}
	}
	if cl.bad != "" {
		c.Fail("download-bad-request", sig, cl.bad)
	}
	if threads == 0 {
		p := make([]string, len(cl.offs))
		for i, o := range cl.offs {
			p[i] = fmt.Sprintf("%d:%d", o, hugePS)
		}
		*lines = append(*lines, fmt.Sprintf("streamhuge %d %d", hugePS, size))
		*impls = append(*impls, "r="+strings.Join(p, ","))
	}
}
