// C17 — decoding arbitrary transport input never crashes: correspondence of codec.{Abridged,
// Intermediate,PaddedIntermediate,Full}.Read with the panic-explicit Lean model TdModel.Codec,
// plus the property monitor (recover() + allocation bound) on the implementation.
package main

import (
	"bytes"
	"encoding/binary"
	"fmt"
	"strconv"
	"strings"

	"github.com/gotd/td/bin"

	"verif/harness/c16c17"
	"verif/harness/hc"
)

func main() {
	hc.Main(hc.Spec{Prop: "C17", Facts: c16c17.Facts, Run: run})
}

const maxMsg = 1 << 24

// allocLimit is the monitor's bound on what a single Read may allocate: the frame limit plus the
// 16-byte envelope of the full protocol, plus one page of allocator rounding.
const allocLimit = maxMsg + 16 + 8192

type tcase struct {
	kind   string
	seq    int64
	stream []byte
	bucket string
}

func (t tcase) line() string {
	return fmt.Sprintf("read %s %d %s", t.kind, t.seq, hc.Hex(t.stream))
}

func le32(n uint32) []byte {
	var b [4]byte
	binary.LittleEndian.PutUint32(b[:], n)
	return b[:]
}

// prefixes returns every length prefix worth trying for a protocol: all small values and both
// sides of the frame limit (exhaustive grid).
func prefixes(kind string) [][]byte {
	var out [][]byte
	if kind == "abridged" {
		for b0 := 0; b0 < 256; b0++ {
			if b0 < 127 {
				out = append(out, []byte{byte(b0)})
			}
		}
		var words []uint32
		for n := uint32(0); n <= 64; n++ {
			words = append(words, n)
		}
		for n := uint32(maxMsg/4 - 8); n <= maxMsg/4+8; n++ {
			words = append(words, n)
		}
		words = append(words, 126, 127, 128, 255, 256, 65535, 65536, 1<<23, 1<<24-1)
		for _, first := range []byte{0x7f, 0x80, 0xef, 0xff} {
			for _, n := range words {
				// any first byte ≥ 127 ⇒ three length bytes (little endian word count) follow
				out = append(out, append([]byte{first}, le32(n)[:3]...))
			}
		}
		return out
	}
	var ns []uint32
	for n := uint32(0); n <= 64; n++ {
		ns = append(ns, n)
	}
	for n := uint32(maxMsg - 8); n <= maxMsg+24; n++ {
		ns = append(ns, n)
	}
	// well beyond the limit (a reader whose limit check is weakened allocates these: the monitor's
	// failing input), then the sign / wrap-around boundaries and the tag words
	ns = append(ns, maxMsg+8192+64, 1<<25, 1<<26+4, 1<<28, 1<<31-1, 1<<31, 1<<31+1, 1<<32-1, 1<<32-4, 0xeeeeeeee, 0xdddddddd)
	for _, n := range ns {
		out = append(out, le32(n))
	}
	return out
}

func genCases(c *hc.Ctx) []tcase {
	r := c.Rng
	var cs []tcase
	// ---- 1. exhaustive grid of length prefixes × tails
	for _, kind := range c16c17.Kinds {
		for _, p := range prefixes(kind) {
			seq := int64(r.Intn(3))
			tails := [][]byte{nil, make([]byte, 40), r.Bytes(r.Range(1, 80))}
			// a tail that carries the expected seqno (reaches the code behind the seqno check)
			t := append(le32(uint32(seq)), r.Bytes(r.Range(0, 70))...)
			tails = append(tails, t)
			if len(p) == 4 && (p[3] != 0 || p[2] >= 0x10) {
				// a prefix announcing ≥ 1 MiB (≥ 4 MiB abridged): only the seqno tail and the empty tail (each costs a large allocation)
				tails = [][]byte{nil, t}
			}
			for _, tail := range tails {
				s := append(append([]byte{}, p...), tail...)
				if kind != "full" {
					seq = 0
				}
				cs = append(cs, tcase{kind, seq, s, "grid"})
			}
		}
	}
	// ---- 1b. dense sweep: every length 65..2100 announced and followed by exactly that many bytes
	// (the grid above covers 0..64 and the limits), all protocols, aligned or not
	for _, kind := range c16c17.Kinds {
		for n := 65; n <= 2100; n++ {
			var s []byte
			seq := int64(r.Intn(3))
			switch kind {
			case "abridged":
				if n%4 != 0 {
					continue
				}
				w := n / 4
				if w < 127 {
					s = []byte{byte(w)}
				} else {
					s = append([]byte{0x7f}, le32(uint32(w))[:3]...)
				}
				seq = 0
			case "full":
				s = append(le32(uint32(n)), le32(uint32(seq))...)
				s = append(s, r.Bytes(max(n-8, 0))...)
				cs = append(cs, tcase{kind, seq, s[:min(len(s), n)], "dense"})
				continue
			default:
				s = le32(uint32(n))
				seq = 0
			}
			s = append(s, r.Bytes(n)...)
			cs = append(cs, tcase{kind, seq, s, "dense"})
		}
	}

	// ---- 2. mutated valid streams
	n := c.N(1500, 120000)
	for i := 0; i < n; i++ {
		kind := hc.Pick(r, c16c17.Kinds...)
		seq := int64(hc.Pick(r, 0, 0, 1, 2, 7, r.Intn(1000)))
		var w bytes.Buffer
		frames := r.Range(1, 3)
		cd := c16c17.NewCodec(kind, seq)
		for j := 0; j < frames; j++ {
			l := hc.Pick(r, 4, 8, 12, 16, 500, 504, 508, 512, 4*r.Range(1, 40), 4*r.Range(1, 300))
			if kind == "full" && r.Chance(20) {
				l = r.Range(1, 64)
			}
			b := bin.Buffer{Buf: r.Bytes(l)}
			if err := cd.Write(&w, &b); err != nil {
				panic(err)
			}
		}
		s := w.Bytes()
		bucket := "valid"
		switch r.Intn(6) {
		case 0:
		case 1:
			s[r.Intn(len(s))] ^= byte(1 << r.Intn(8))
			bucket = "bitflip"
		case 2:
			s = s[:r.Intn(len(s))]
			bucket = "truncated"
		case 3:
			k := r.Intn(min(len(s), 8))
			s[k] = hc.Pick[byte](r, 0, 1, 3, 4, 8, 11, 12, 0x7e, 0x7f, 0x80, 0xff)
			bucket = "header-byte"
		case 4:
			s = append(s, r.Bytes(r.Range(1, 9))...)
			bucket = "trailing"
		case 5:
			k := r.Intn(len(s))
			s = append(append(append([]byte{}, s[:k]...), r.Bytes(r.Range(1, 5))...), s[k:]...)
			bucket = "inserted"
		}
		cs = append(cs, tcase{kind, seq, append([]byte{}, s...), bucket})
	}
	// ---- 3. random streams
	for i := 0; i < n; i++ {
		kind := hc.Pick(r, c16c17.Kinds...)
		seq := int64(0)
		if kind == "full" {
			seq = int64(r.Intn(4))
		}
		s := r.Bytes(r.Range(0, 48))
		if r.Chance(50) && len(s) > 4 { // small first length so that the body is reached
			copy(s, le32(uint32(r.Intn(48))))
			if kind == "full" && r.Bool() && len(s) >= 8 {
				copy(s[4:], le32(uint32(seq)))
			}
		}
		cs = append(cs, tcase{kind, seq, s, "random"})
	}
	return cs
}

func parseReplay(in string) (tcase, error) {
	w := strings.Fields(in)
	if len(w) != 4 || w[0] != "read" {
		return tcase{}, fmt.Errorf("replay input must be `read <kind> <seq> <hex>`: %q", in)
	}
	seq, err := strconv.ParseInt(w[2], 10, 64)
	if err != nil {
		return tcase{}, err
	}
	s, err := hc.UnHex(w[3])
	if err != nil {
		return tcase{}, err
	}
	return tcase{w[1], seq, s, "replay"}, nil
}

var failSeen = map[string]int{}

// fail reports at most two inputs per failure class so that every class reaches the replay file.
func fail(c *hc.Ctx, key, input, detail string) {
	failSeen[key]++
	c.Count("monitor." + key)
	if failSeen[key] <= 2 {
		c.Fail(key, input, detail)
	}
}

func run(c *hc.Ctx) error {
	var cases []tcase
	if c.Replay != "" {
		t, err := parseReplay(c.Replay)
		if err != nil {
			return err
		}
		cases = []tcase{t}
	} else {
		cases = genCases(c)
		c.Res.Exhaustive = true
	}
	var lines, impls []string
	var caps []int
	// every case is read repeatedly (same codec object) until the stream is used up or a read fails
	for _, t := range cases {
		cd := c16c17.NewCodec(t.kind, t.seq)
		rd := &c16c17.Chunked{Data: t.stream, Rng: c.Rng.Fork(), Mode: c.Rng.Intn(3)}
		seq := t.seq
		for step := 0; step < 6; step++ {
			start := rd.Pos
			cur := tcase{t.kind, seq, t.stream[start:], t.bucket}
			res := c16c17.ReadOne(cd, rd)
			line := cur.line()
			out := res.Outcome
			if strings.HasPrefix(out, "ok ") {
				out += " " + strconv.Itoa(len(t.stream)-rd.Pos)
			}
			cls := "ok"
			if !strings.HasPrefix(res.Outcome, "ok ") {
				cls = strings.ReplaceAll(strings.SplitN(res.Outcome, ":", 2)[0], " ", "-")
			}
			c.Count(t.kind + "." + cls)
			c.Count("input." + t.bucket)
			c.Eval(line, len(cur.stream) > 0)
			if res.Outcome == "panic" {
				fail(c, "read-panic:"+t.kind, line, "Codec.Read panicked: "+res.Panic)
			}
			if res.Cap > allocLimit {
				fail(c, "alloc-over-limit:"+t.kind, line, fmt.Sprintf("Codec.Read grew the buffer to %d bytes; the frame limit is %d", res.Cap, maxMsg))
			}
			if strings.HasPrefix(res.Outcome, "err proto") {
				res.Cap += 4 // checkProtocolError consumed the four bytes: b.Buf now starts 4 bytes further
			}
			lines = append(lines, line)
			impls = append(impls, out)
			caps = append(caps, res.Cap)
			if !strings.HasPrefix(res.Outcome, "ok ") || rd.Pos >= len(t.stream) {
				break
			}
			seq++
		}
	}
	c.Res.Rule = "per protocol: exhaustive grid of length prefixes (0..64 and both sides of the 2^24 frame limit, all one-byte abridged prefixes) × {no tail, zero tail, random tail, tail starting with the expected seqno}; valid streams of 1–3 frames written by the real codec then bit-flipped / truncated / header byte replaced / extended / bytes inserted; random streams. Each stream is read repeatedly through a reader with PRNG-chosen chunking. Non-trivial = non-empty remaining stream; distinct = distinct (protocol, seqno, stream)"
	c.PartialNote("Go run-time panics other than slice-bounds and makeslice (the two the model makes explicit) are only exercised under recover(), not proved absent")
	c.PartialNote("allocation is observed as cap(b.Buf) after Read on a fresh buffer (what Read made the buffer grow to); the model's trace is the sequence of requested buffer lengths")
	if err := c16c17.CheckDriverCRC(c); err != nil {
		return err
	}
	outs, err := c.Drv.Batch(lines)
	if err != nil {
		return err
	}
	for i, o := range outs {
		// model answer: "<outcome> A<max requested buffer length>"
		k := strings.LastIndex(o, " A")
		if k < 0 {
			c.Differ(lines[i], impls[i], o, "malformed model answer")
			continue
		}
		mo, ma := o[:k], o[k+2:]
		if !c.Compare(lines[i], impls[i], mo) {
			continue
		}
		want, _ := strconv.Atoi(ma)
		hi := want + 8192
		if want < 32768 {
			hi = 2*want + 16
		}
		if caps[i] < want || caps[i] > hi {
			c.Differ(lines[i], fmt.Sprintf("cap=%d", caps[i]), "max-request="+ma, "buffer growth differs from the model's allocation trace")
			continue
		}
		c.Res.TracesValidated++
	}
	return nil
}
