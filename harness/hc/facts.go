package hc

import (
	"bytes"
	"fmt"
	"go/ast"
	"go/constant"
	"go/parser"
	"go/printer"
	"go/token"
	"os"
	"path/filepath"
	"sort"
	"strings"
)

// Facts regenerates a Lean file of facts read from the repository's current source.
// It fails closed: a fact that cannot be found is emitted as a definition that does not
// type-check, so every theorem depending on it stops compiling.
type Facts struct {
	Prop  string
	Repo  string
	lines []string
	fset  *token.FileSet
	pkgs  map[string]map[string]*ast.File
}

func NewFacts(prop, repo string) *Facts {
	return &Facts{Prop: prop, Repo: repo, fset: token.NewFileSet(), pkgs: map[string]map[string]*ast.File{}}
}

func (f *Facts) pkg(dir string) map[string]*ast.File {
	if p, ok := f.pkgs[dir]; ok {
		return p
	}
	files := map[string]*ast.File{}
	ents, _ := os.ReadDir(filepath.Join(f.Repo, dir))
	for _, e := range ents {
		n := e.Name()
		if e.IsDir() || !strings.HasSuffix(n, ".go") || strings.HasSuffix(n, "_test.go") || strings.HasPrefix(n, "verif_") {
			continue
		}
		af, err := parser.ParseFile(f.fset, filepath.Join(f.Repo, dir, n), nil, parser.ParseComments)
		if err == nil {
			files[n] = af
		}
	}
	f.pkgs[dir] = files
	return files
}

func (f *Facts) sortedFiles(dir string) []*ast.File {
	p := f.pkg(dir)
	names := make([]string, 0, len(p))
	for n := range p {
		names = append(names, n)
	}
	sort.Strings(names)
	out := make([]*ast.File, 0, len(names))
	for _, n := range names {
		out = append(out, p[n])
	}
	return out
}

// Raw appends a raw Lean line.
func (f *Facts) Raw(s string) { f.lines = append(f.lines, s) }

func (f *Facts) missing(name, why string) {
	f.Raw(fmt.Sprintf("def %s : Nat := missing_fact_%s -- %s", name, name, why))
}

// constEnv evaluates package-level constant expressions of one package (ints only),
// including iota blocks and a few well-known external constants.
type constEnv struct {
	f    *Facts
	dir  string
	memo map[string]constant.Value
}

var externalConsts = map[string]int64{
	"time.Nanosecond": 1, "time.Microsecond": 1e3, "time.Millisecond": 1e6, "time.Second": 1e9,
	"time.Minute": 60e9, "time.Hour": 3600e9, "bin.Word": 4, "bin.PreallocateLimit": 1024,
	"math.MaxUint16": 65535, "math.MaxInt32": 2147483647, "math.MaxUint32": 4294967295,
}

func (e *constEnv) lookup(name string) (constant.Value, bool) {
	if v, ok := e.memo[name]; ok {
		return v, v != nil
	}
	e.memo[name] = nil
	for _, af := range e.f.sortedFiles(e.dir) {
		for _, d := range af.Decls {
			gd, ok := d.(*ast.GenDecl)
			if !ok || gd.Tok != token.CONST {
				continue
			}
			var lastExprs []ast.Expr
			for i, s := range gd.Specs {
				vs := s.(*ast.ValueSpec)
				exprs := vs.Values
				if len(exprs) == 0 {
					exprs = lastExprs
				} else {
					lastExprs = exprs
				}
				for j, id := range vs.Names {
					if id.Name != name || j >= len(exprs) {
						continue
					}
					v, ok := e.eval(exprs[j], int64(i))
					if ok {
						e.memo[name] = v
					}
					return v, ok
				}
			}
		}
	}
	return nil, false
}

func (e *constEnv) eval(x ast.Expr, iota int64) (constant.Value, bool) {
	switch x := x.(type) {
	case *ast.BasicLit:
		v := constant.MakeFromLiteral(x.Value, x.Kind, 0)
		if v.Kind() == constant.Float {
			v = constant.ToInt(v)
		}
		return v, v.Kind() != constant.Unknown
	case *ast.Ident:
		if x.Name == "iota" {
			return constant.MakeInt64(iota), true
		}
		return e.lookup(x.Name)
	case *ast.ParenExpr:
		return e.eval(x.X, iota)
	case *ast.SelectorExpr:
		if id, ok := x.X.(*ast.Ident); ok {
			if v, ok := externalConsts[id.Name+"."+x.Sel.Name]; ok {
				return constant.MakeInt64(v), true
			}
			// constant of another package of the repository
			if d := e.f.importDir(e.dir, id.Name); d != "" {
				sub := &constEnv{f: e.f, dir: d, memo: map[string]constant.Value{}}
				return sub.lookup(x.Sel.Name)
			}
		}
		return nil, false
	case *ast.CallExpr: // conversions like Type(3), int64(x), time.Duration(x)
		if len(x.Args) == 1 {
			return e.eval(x.Args[0], iota)
		}
		return nil, false
	case *ast.UnaryExpr:
		v, ok := e.eval(x.X, iota)
		if !ok {
			return nil, false
		}
		return constant.UnaryOp(x.Op, v, 0), true
	case *ast.BinaryExpr:
		a, ok1 := e.eval(x.X, iota)
		b, ok2 := e.eval(x.Y, iota)
		if !ok1 || !ok2 {
			return nil, false
		}
		switch x.Op {
		case token.SHL, token.SHR:
			s, ok := constant.Uint64Val(constant.ToInt(b))
			if !ok {
				return nil, false
			}
			return constant.Shift(constant.ToInt(a), x.Op, uint(s)), true
		case token.QUO:
			if constant.Sign(b) == 0 {
				return nil, false
			}
			return constant.BinaryOp(constant.ToInt(a), token.QUO_ASSIGN, constant.ToInt(b)), true
		}
		return constant.BinaryOp(a, x.Op, b), true
	}
	return nil, false
}

// importDir maps an import name used in package `dir` to a directory of the repository
// ("" when the import is not a package of github.com/gotd/td).
func (f *Facts) importDir(dir, name string) string {
	const mod = "github.com/gotd/td/"
	for _, af := range f.sortedFiles(dir) {
		for _, im := range af.Imports {
			path := strings.Trim(im.Path.Value, "\"")
			if !strings.HasPrefix(path, mod) {
				continue
			}
			local := path[strings.LastIndex(path, "/")+1:]
			if im.Name != nil {
				local = im.Name.Name
			}
			if local == name {
				return strings.TrimPrefix(path, mod)
			}
		}
	}
	return ""
}

// ConstInt evaluates the package-level constant `name` of package directory `dir`.
func (f *Facts) ConstInt(dir, name string) (string, bool) {
	e := &constEnv{f: f, dir: dir, memo: map[string]constant.Value{}}
	v, ok := e.lookup(name)
	if !ok || v == nil {
		return "", false
	}
	v = constant.ToInt(v)
	if v.Kind() != constant.Int {
		return "", false
	}
	return v.ExactString(), true
}

// Const emits `def leanName : Int/Nat := value` for a Go constant.
func (f *Facts) Const(leanName, dir, goName string) {
	v, ok := f.ConstInt(dir, goName)
	if !ok {
		f.missing(leanName, dir+"."+goName+" not found or not an integer constant")
		return
	}
	if strings.HasPrefix(v, "-") {
		f.Raw(fmt.Sprintf("def %s : Int := %s -- %s.%s", leanName, v, dir, goName))
	} else {
		f.Raw(fmt.Sprintf("def %s : Nat := %s -- %s.%s", leanName, v, dir, goName))
	}
}

// FuncDecl finds a function or method (`Recv.Name` or `Name`) in a package directory.
func (f *Facts) FuncDecl(dir, name string) *ast.FuncDecl {
	recv := ""
	if i := strings.Index(name, "."); i >= 0 {
		recv, name = name[:i], name[i+1:]
	}
	for _, af := range f.sortedFiles(dir) {
		for _, d := range af.Decls {
			fd, ok := d.(*ast.FuncDecl)
			if !ok || fd.Name.Name != name {
				continue
			}
			r := ""
			if fd.Recv != nil && len(fd.Recv.List) > 0 {
				t := fd.Recv.List[0].Type
				if s, ok := t.(*ast.StarExpr); ok {
					t = s.X
				}
				if ix, ok := t.(*ast.IndexExpr); ok {
					t = ix.X
				}
				if id, ok := t.(*ast.Ident); ok {
					r = id.Name
				}
			}
			if r == recv {
				return fd
			}
		}
	}
	return nil
}

// Src prints a node in canonical gofmt form (comments dropped).
func (f *Facts) Src(n ast.Node) string {
	var b bytes.Buffer
	printer.Fprint(&b, f.fset, n)
	return b.String()
}

// FuncSrc returns the canonical source of a function body, or "" if absent.
func (f *Facts) FuncSrc(dir, name string) string {
	fd := f.FuncDecl(dir, name)
	if fd == nil || fd.Body == nil {
		return ""
	}
	return f.Src(fd.Body)
}

// Bool emits a Bool fact.
func (f *Facts) Bool(leanName string, v bool, comment string) {
	f.Raw(fmt.Sprintf("def %s : Bool := %v -- %s", leanName, v, comment))
}

// Nat emits a Nat fact computed by the caller.
func (f *Facts) Nat(leanName string, v int, comment string) {
	f.Raw(fmt.Sprintf("def %s : Nat := %d -- %s", leanName, v, comment))
}

// Str emits a String fact.
func (f *Facts) Str(leanName, v, comment string) {
	f.Raw(fmt.Sprintf("def %s : String := %q -- %s", leanName, v, comment))
}

// Missing emits a deliberately ill-typed definition.
func (f *Facts) Missing(leanName, why string) { f.missing(leanName, why) }

// Write renders the Lean file; it is rewritten only when its content changed so that an
// unchanged repository does not trigger a rebuild.
func (f *Facts) Write(path string) error {
	var b strings.Builder
	fmt.Fprintf(&b, "/- GENERATED by harness/%s facts from the repository's current source. Do not edit. -/\n", strings.ToLower(f.Prop))
	fmt.Fprintf(&b, "namespace TdModel.Facts.%s\n\n", f.Prop)
	fmt.Fprintf(&b, "/-- Iteration bound of translated loops (`hc.TranslateFuncs`). -/\ndef LoopFuel : Nat := 128\n\n")
	fmt.Fprintf(&b, "/-- Translation of Go `a | b`; exact when both operands are non-negative (theorems about translated code that uses it must carry those hypotheses). -/\ndef orNonneg (a b : Int) : Int := Int.ofNat (a.toNat ||| b.toNat)\n\n")
	for _, l := range f.lines {
		b.WriteString(l)
		b.WriteString("\n")
	}
	fmt.Fprintf(&b, "\nend TdModel.Facts.%s\n", f.Prop)
	if path == "" {
		fmt.Print(b.String())
		return nil
	}
	old, err := os.ReadFile(path)
	if err == nil && string(old) == b.String() {
		return nil
	}
	return os.WriteFile(path, []byte(b.String()), 0o644)
}
