package hc

// Method slices: translate the body of a *method* as a pure function of selected receiver fields
// and designated call results, with the translator of translate.go.
//
// A method such as
//
//	func (g *MessageIDGen) New(t MessageType) int64 {
//		g.mux.Lock()
//		defer g.mux.Unlock()
//		const minResolutionNanos = 10
//		nano := g.now().UnixNano()
//		if nano&^(messageIDModulo-1) > g.nano&^(messageIDModulo-1) { g.nano = nano } else { g.nano += minResolutionNanos }
//		return int64(NewMessageIDNano(g.nano, t))
//	}
//
// is outside the translatable subset only because of the receiver, the lock and the clock call.
// A SliceSpec names the receiver fields that form the state (`g.nano` → parameter and extra
// result `gNano`), the call expressions that are inputs (`g.now().UnixNano()` → parameter
// `clock`) and the statements that are dropped (lock/unlock, logging).  The remaining statements
// are re-parsed as an ordinary function
//
//	func genNewT(t MessageType, gNano int64, clock int64) (int64, int64)
//
// and handed to the translator unchanged, so every condition, operator, constant and branch of the
// method body is regenerated from the source.  What the slice does NOT express (lock scope, that
// the dropped statements are harmless) has to be covered by separate structural facts.
//
// Added by member proto (C07/C08/C41/C43); uses only unexported helpers of translate.go.

import (
	"fmt"
	"go/ast"
	"go/parser"
	"go/token"
	"regexp"
	"strings"
)

// SliceSpec describes one method slice.
type SliceSpec struct {
	Lean, Go    string      // Lean definition name; "Recv.Method" (or "Func")
	Fields      [][2]string // {"g.nano", "gNano"}: receiver field → int64 parameter, returned after the method's own results
	Inputs      [][3]string // {"g.now().UnixNano()", "clock", "int64"}: expression source → extra parameter of that Go type
	Drop        []string    // statements (whitespace-normalised source) that are removed; a trailing '*' matches any suffix
	KeepResults bool        // keep the method's own results (must be translatable)
}

func flatSrc(s string) string { return strings.Join(strings.Fields(s), " ") }

func dropped(src string, drop []string) bool {
	for _, d := range drop {
		if strings.HasSuffix(d, "*") {
			if strings.HasPrefix(src, strings.TrimSuffix(d, "*")) {
				return true
			}
		} else if src == d {
			return true
		}
	}
	return false
}

// sliceDecl builds the synthetic function declaration of a slice (nil + reason on failure).
func (f *Facts) sliceDecl(dir string, sp SliceSpec) (*ast.FuncDecl, string) {
	fd := f.FuncDecl(dir, sp.Go)
	if fd == nil || fd.Body == nil {
		return nil, dir + "." + sp.Go + " not found"
	}
	rewrite := func(s string) string {
		for _, in := range sp.Inputs {
			s = strings.ReplaceAll(s, in[0], in[1])
		}
		for _, fl := range sp.Fields {
			re := regexp.MustCompile(`\b` + regexp.QuoteMeta(fl[0]) + `\b`)
			s = re.ReplaceAllString(s, fl[1])
		}
		return s
	}
	var params, results, pre, resultNames []string
	for _, fl := range fd.Type.Params.List {
		for _, n := range fl.Names {
			params = append(params, n.Name+" "+f.Src(fl.Type))
		}
	}
	for _, fl := range sp.Fields {
		params = append(params, fl[1]+" int64")
	}
	for _, in := range sp.Inputs {
		params = append(params, in[1]+" "+in[2])
	}
	if fd.Type.Results != nil {
		for _, fl := range fd.Type.Results.List {
			if len(fl.Names) == 0 {
				if sp.KeepResults {
					results = append(results, f.Src(fl.Type))
				}
				continue
			}
			for _, n := range fl.Names { // named results become local variables
				pre = append(pre, fmt.Sprintf("var %s %s", n.Name, f.Src(fl.Type)))
				if sp.KeepResults {
					results = append(results, f.Src(fl.Type))
					resultNames = append(resultNames, n.Name)
				}
			}
		}
	}
	for range sp.Fields {
		results = append(results, "int64")
	}
	var body []string
	body = append(body, pre...)
	for _, st := range fd.Body.List {
		src := f.Src(st)
		if dropped(flatSrc(src), sp.Drop) {
			continue
		}
		body = append(body, rewrite(src))
	}
	text := fmt.Sprintf("package p\nfunc slice(%s) (%s) {\n%s\n}\n", strings.Join(params, ", "), strings.Join(results, ", "), strings.Join(body, "\n"))
	af, err := parser.ParseFile(token.NewFileSet(), "slice.go", text, 0)
	if err != nil {
		return nil, "slice does not parse: " + err.Error()
	}
	var out *ast.FuncDecl
	for _, d := range af.Decls {
		if x, ok := d.(*ast.FuncDecl); ok {
			out = x
		}
	}
	if out == nil {
		return nil, "slice has no function"
	}
	// returns: own results (or the named results) followed by the state fields
	fix := func(r *ast.ReturnStmt) {
		var rs []ast.Expr
		if sp.KeepResults {
			if len(r.Results) == 0 {
				for _, n := range resultNames {
					rs = append(rs, ast.NewIdent(n))
				}
			} else {
				rs = append(rs, r.Results...)
			}
		}
		for _, fl := range sp.Fields {
			rs = append(rs, ast.NewIdent(fl[1]))
		}
		r.Results = rs
	}
	ast.Inspect(out.Body, func(n ast.Node) bool {
		if _, ok := n.(*ast.FuncLit); ok {
			return false
		}
		if r, ok := n.(*ast.ReturnStmt); ok {
			fix(r)
		}
		return true
	})
	if !terminates(out.Body.List) { // a method without results falls off its end
		r := &ast.ReturnStmt{}
		fix(r)
		out.Body.List = append(out.Body.List, r)
	}
	return out, ""
}

// translateDecl is the per-function body of TranslateFuncs for an arbitrary declaration.
func (f *Facts) translateDecl(dir, leanName, what string, fd *ast.FuncDecl, fns map[string]string, register string) {
	t := &translator{f: f, dir: dir, fns: fns, vars: map[string]bool{}, bools: map[string]bool{}, leanName: leanName}
	var params []string
	for _, fl := range fd.Type.Params.List {
		kind := t.typeKind(fl.Type)
		if kind != "int" && kind != "bool" {
			t.fail("parameter type %s", f.Src(fl.Type))
		}
		for _, n := range fl.Names {
			t.vars[n.Name] = true
			if kind == "bool" {
				t.bools[n.Name] = true
			}
			params = append(params, fmt.Sprintf("(%s : %s)", leanIdent(n.Name), leanType(kind)))
		}
	}
	var rts []string
	if fd.Type.Results != nil {
		for _, fl := range fd.Type.Results.List {
			kind := t.typeKind(fl.Type)
			if kind == "" {
				t.fail("result type %s", f.Src(fl.Type))
			}
			if len(fl.Names) != 0 {
				t.fail("named results")
			}
			rts = append(rts, leanType(kind))
		}
	}
	t.nres = len(rts)
	if t.nres == 0 {
		t.fail("no result")
	}
	body := t.block(fd.Body.List, func() string { return t.fail("control reaches end of function") }, "  ")
	src := strings.ReplaceAll(f.Src(fd), "-/", "- /")
	if t.err != nil {
		f.Raw(fmt.Sprintf("/- %s is outside the translatable subset: %v -/", what, t.err))
		f.Raw(fmt.Sprintf("def %s : Int := missing_translation_%s", leanName, leanName))
		return
	}
	for _, a := range t.aux {
		f.Raw(a)
	}
	f.Raw(fmt.Sprintf("/-- Translated from %s:\n```go\n%s\n```\n-/", what, src))
	f.Raw(fmt.Sprintf("def %s %s : %s :=\n  %s\n", leanName, strings.Join(params, " "), strings.Join(rts, " × "), body))
	if register != "" {
		fns[register] = leanName
	}
}

// TranslateSlices translates the plain functions `plain` (leanName, goName pairs, as
// TranslateFuncs) and then the method slices, which may call the plain functions.
func (f *Facts) TranslateSlices(dir string, plain []string, slices ...SliceSpec) {
	fns := map[string]string{}
	for i := 0; i+1 < len(plain); i += 2 {
		leanName, goName := plain[i], plain[i+1]
		fd := f.FuncDecl(dir, goName)
		if fd == nil || fd.Body == nil {
			f.Raw(fmt.Sprintf("def %s : Int := missing_translation_%s -- %s.%s not found", leanName, leanName, dir, goName))
			continue
		}
		name := goName
		if j := strings.Index(name, "."); j >= 0 {
			name = name[j+1:]
		}
		f.translateDecl(dir, leanName, dir+"."+goName, fd, fns, name)
	}
	for _, sp := range slices {
		fd, why := f.sliceDecl(dir, sp)
		if fd == nil {
			f.Raw(fmt.Sprintf("def %s : Int := missing_translation_%s -- %s", sp.Lean, sp.Lean, why))
			continue
		}
		f.translateDecl(dir, sp.Lean, "a slice of "+dir+"."+sp.Go+" (fields "+fmt.Sprint(sp.Fields)+", inputs "+fmt.Sprint(sp.Inputs)+")", fd, fns, "")
	}
}

// LockCovers reports whether in the body of fd every statement that mentions one of `exprs`
// (source substrings, e.g. a state field or a call) comes after a top-level `mu.Lock()` whose
// `mu.Unlock()` is deferred right after it, i.e. all of them run inside that critical section on
// every path.  Statements before the Lock that do not mention any of `exprs` are allowed.
func (f *Facts) LockCovers(fd *ast.FuncDecl, mu string, exprs ...string) bool {
	if fd == nil || fd.Body == nil {
		return false
	}
	lockAt := -1
	for i, st := range fd.Body.List {
		if es, ok := st.(*ast.ExprStmt); ok && flatSrc(f.Src(es.X)) == mu+".Lock()" {
			lockAt = i
			break
		}
	}
	if lockAt < 0 || lockAt+1 >= len(fd.Body.List) {
		return false
	}
	ds, ok := fd.Body.List[lockAt+1].(*ast.DeferStmt)
	if !ok || flatSrc(f.Src(ds.Call)) != mu+".Unlock()" {
		return false
	}
	for _, st := range fd.Body.List[:lockAt] {
		src := f.Src(st)
		for _, e := range exprs {
			if strings.Contains(src, e) {
				return false
			}
		}
	}
	// no explicit Unlock inside the section
	for _, st := range fd.Body.List[lockAt+2:] {
		if strings.Contains(f.Src(st), mu+".Unlock()") {
			return false
		}
	}
	return true
}
