package hc

// TranslateExpr: the expression-level entry of the Go→Lean translator (translate.go), for code whose
// functions are not translatable as a whole (they take readers / buffers) but whose decisions and
// arithmetic are integer expressions.  The caller locates the expression in the AST by its ROLE (the
// condition guarding a given return, the argument of a given call, …) and names the sub-expressions
// that become parameters; the translation is emitted as a Lean definition that the model calls.

import (
	"fmt"
	"go/ast"
	"strings"
)

// Squash removes all white space of a canonical source string.
func Squash(s string) string { return strings.Join(strings.Fields(s), "") }

// substExpr copies x, replacing every sub-expression whose squashed source is a key of subst by an
// identifier.
func (f *Facts) substExpr(x ast.Expr, subst map[string]string) ast.Expr {
	if x == nil {
		return nil
	}
	if v, ok := subst[Squash(f.Src(x))]; ok {
		return &ast.Ident{Name: v}
	}
	switch x := x.(type) {
	case *ast.ParenExpr:
		return &ast.ParenExpr{X: f.substExpr(x.X, subst)}
	case *ast.UnaryExpr:
		return &ast.UnaryExpr{Op: x.Op, X: f.substExpr(x.X, subst)}
	case *ast.BinaryExpr:
		return &ast.BinaryExpr{X: f.substExpr(x.X, subst), Op: x.Op, Y: f.substExpr(x.Y, subst)}
	case *ast.CallExpr:
		args := make([]ast.Expr, len(x.Args))
		for i, a := range x.Args {
			args[i] = f.substExpr(a, subst)
		}
		return &ast.CallExpr{Fun: x.Fun, Args: args}
	}
	return x
}

// TranslateExpr emits `def leanName (p₁ : Int) … : result := ⟦x⟧` (result = "Int" or "Bool").
// params are the Go identifiers that become parameters (after subst); subst maps squashed Go
// sub-expressions (e.g. "b.Len()", "b.Buf[0]") to parameter names.  A nil x, or anything outside the
// translatable subset, emits an ill-typed definition (fails closed).  role is printed as a comment.
func (f *Facts) TranslateExpr(leanName, dir string, x ast.Expr, result string, params []string, subst map[string]string, role string) {
	if x == nil {
		f.Raw(fmt.Sprintf("def %s : Int := missing_translation_%s -- %s: expression not found", leanName, leanName, role))
		return
	}
	orig := f.Src(x)
	t := &translator{f: f, dir: dir, fns: map[string]string{}, vars: map[string]bool{}, bools: map[string]bool{}, leanName: leanName}
	var ps []string
	for _, p := range params {
		t.vars[p] = true
		ps = append(ps, fmt.Sprintf("(%s : Int)", leanIdent(p)))
	}
	body := t.expr(f.substExpr(x, subst))
	if t.err != nil {
		f.Raw(fmt.Sprintf("/- %s: `%s` is outside the translatable subset: %v -/", role, strings.ReplaceAll(orig, "-/", "- /"), t.err))
		f.Raw(fmt.Sprintf("def %s : Int := missing_translation_%s", leanName, leanName))
		return
	}
	f.Raw(fmt.Sprintf("/-- %s — translated from `%s`. -/", role, strings.ReplaceAll(Squash(orig), "-/", "- /")))
	f.Raw(fmt.Sprintf("def %s %s : %s := %s", leanName, strings.Join(ps, " "), result, body))
}

// ConstBool emits a constant Bool function of the given parameters (used when a guard is absent).
func (f *Facts) ConstFn(leanName string, params []string, result, value, role string) {
	var ps []string
	for _, p := range params {
		ps = append(ps, fmt.Sprintf("(_%s : Int)", p))
	}
	f.Raw(fmt.Sprintf("/-- %s. -/", role))
	f.Raw(fmt.Sprintf("def %s %s : %s := %s", leanName, strings.Join(ps, " "), result, value))
}
