// Package hc is the common part of the correspondence harness: PRNG, driver pipe,
// result records, source-fact extraction.
package hc

// RNG is splitmix64; every random choice of a run derives from one VERIF_SEED.
type RNG struct{ s uint64 }

func NewRNG(seed uint64) *RNG {
	// The seed is hashed (splitmix64 finaliser) so that neighbouring seeds give unrelated streams;
	// a plain `seed*φ` start would make seed n+1 the stream of seed n shifted by one draw.
	z := seed + 0x9E3779B97F4A7C15
	z = (z ^ (z >> 30)) * 0xBF58476D1CE4E5B9
	z = (z ^ (z >> 27)) * 0x94D049BB133111EB
	z ^= z >> 31
	return &RNG{s: z ^ 0x1234567}
}

func (r *RNG) U64() uint64 {
	r.s += 0x9E3779B97F4A7C15
	z := r.s
	z = (z ^ (z >> 30)) * 0xBF58476D1CE4E5B9
	z = (z ^ (z >> 27)) * 0x94D049BB133111EB
	return z ^ (z >> 31)
}

// Intn returns a value in [0,n).
func (r *RNG) Intn(n int) int {
	if n <= 0 {
		return 0
	}
	return int(r.U64() % uint64(n))
}

// Range returns a value in [lo,hi].
func (r *RNG) Range(lo, hi int) int { return lo + r.Intn(hi-lo+1) }

func (r *RNG) Bool() bool { return r.U64()&1 == 1 }

// Chance is true with probability pct/100.
func (r *RNG) Chance(pct int) bool { return r.Intn(100) < pct }

func (r *RNG) Bytes(n int) []byte {
	b := make([]byte, n)
	for i := range b {
		b[i] = byte(r.U64())
	}
	return b
}

// Read implements io.Reader (a deterministic crypto/rand substitute).
func (r *RNG) Read(p []byte) (int, error) {
	for i := range p {
		p[i] = byte(r.U64())
	}
	return len(p), nil
}

// Pick returns one of the arguments.
func Pick[T any](r *RNG, xs ...T) T { return xs[r.Intn(len(xs))] }

// Fork derives an independent generator (for goroutines / sub-cases).
func (r *RNG) Fork() *RNG { return NewRNG(r.U64()) }
