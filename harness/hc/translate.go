package hc

// A tiny translator from a restricted subset of Go to Lean 4, used to REGENERATE parts of the
// model from the repository's current source (the "translator" tie of DESIGN.md).
//
// Subset: functions over integer and boolean parameters whose body consists of
//   - `return e, …`
//   - `x := e`, `x = e`, `x op= e`, `x++`, `x--`, `var x T [= e]`
//   - `if [init;] c { … } [else …]`, `switch { case c: … }`, `switch x { case a, b: … default: … }`
//     where a branch either returns on every path or only assigns variables
// with expressions over + - * / % << >> (constant shift), & and &^ with a 2^k−1 mask,
// comparisons, && || !, conversions between integer types (identity: overflow is NOT modelled —
// every integer is a Lean `Int`), calls to other functions translated in the same Facts file,
// package-level integer constants (folded to numerals), and `errors.New/Errorf/Wrap…` in a
// function whose result is `error` (translated to `true`; `nil` to `false`).
//
// Go's `/` and `%` truncate toward zero: they become `Int.tdiv` / `Int.tmod`.
// Anything outside the subset makes the whole definition `Missing` (fails closed).

import (
	"fmt"
	"go/ast"
	"go/constant"
	"go/token"
	"math/bits"
	"sort"
	"strconv"
	"strings"
)

type translator struct {
	f      *Facts
	dir    string
	fns    map[string]string // go func name -> lean name (callable from translated code)
	errRes []bool            // per result: is `error`
	nres   int
	vars   map[string]bool // local variables and parameters
	bools  map[string]bool // variables known to be Bool
	err    error
	leanName string
	loops  int
	aux    []string // helper definitions emitted before the function
}

func (t *translator) varType(v string) string {
	if t.bools[v] {
		return "Bool"
	}
	return "Int"
}

func hasBranch(stmts []ast.Stmt) bool {
	found := false
	for _, s := range stmts {
		ast.Inspect(s, func(n ast.Node) bool {
			if _, ok := n.(*ast.BranchStmt); ok {
				found = true
			}
			return true
		})
	}
	return found
}

var intTypes = map[string]bool{"int": true, "int8": true, "int16": true, "int32": true, "int64": true,
	"uint": true, "uint8": true, "uint16": true, "uint32": true, "uint64": true, "byte": true, "rune": true, "uintptr": true}

func (t *translator) fail(format string, a ...any) string {
	if t.err == nil {
		t.err = fmt.Errorf(format, a...)
	}
	return "unsupported"
}

// typeKind classifies a Go type expression: "int", "bool", "error" or "".
func (t *translator) typeKind(x ast.Expr) string {
	switch x := x.(type) {
	case *ast.Ident:
		if intTypes[x.Name] {
			return "int"
		}
		if x.Name == "bool" {
			return "bool"
		}
		if x.Name == "error" {
			return "error"
		}
		// named type of the same package with an integer underlying type
		for _, af := range t.f.sortedFiles(t.dir) {
			for _, d := range af.Decls {
				gd, ok := d.(*ast.GenDecl)
				if !ok || gd.Tok != token.TYPE {
					continue
				}
				for _, s := range gd.Specs {
					ts := s.(*ast.TypeSpec)
					if ts.Name.Name == x.Name {
						return t.typeKind(ts.Type)
					}
				}
			}
		}
	case *ast.SelectorExpr:
		if id, ok := x.X.(*ast.Ident); ok && id.Name == "time" && x.Sel.Name == "Duration" {
			return "int"
		}
	}
	return ""
}

func leanType(kind string) string {
	switch kind {
	case "int":
		return "Int"
	case "bool", "error":
		return "Bool"
	}
	return "Unsupported"
}

func (t *translator) constVal(name string) (string, bool) {
	if t.vars[name] {
		return "", false
	}
	return t.f.ConstInt(t.dir, name)
}

func maskBits(v string) (int, bool) { // v = decimal of 2^k-1 ?
	n, err := strconv.ParseUint(v, 10, 64)
	if err != nil || n == 0 || n&(n+1) != 0 {
		return 0, false
	}
	return bits.Len64(n), true
}

// constOf evaluates an expression if it is a compile-time integer constant.
func (t *translator) constOf(x ast.Expr) (string, bool) {
	e := &constEnv{f: t.f, dir: t.dir, memo: map[string]constant.Value{}}
	// shadowed names must not be folded
	bad := false
	ast.Inspect(x, func(n ast.Node) bool {
		if id, ok := n.(*ast.Ident); ok && t.vars[id.Name] {
			bad = true
		}
		return true
	})
	if bad {
		return "", false
	}
	v, ok := e.eval(x, 0)
	if !ok || v == nil {
		return "", false
	}
	v = constant.ToInt(v)
	if v.Kind() != constant.Int {
		return "", false
	}
	return v.ExactString(), true
}

func (t *translator) expr(x ast.Expr) string {
	switch x := x.(type) {
	case *ast.ParenExpr:
		return t.expr(x.X)
	case *ast.BasicLit:
		if x.Kind == token.INT || x.Kind == token.CHAR || x.Kind == token.FLOAT {
			if v, ok := t.constOf(x); ok {
				return lit(v)
			}
		}
		return t.fail("literal %s", x.Value)
	case *ast.Ident:
		switch x.Name {
		case "true", "false":
			return x.Name
		case "nil":
			return "false"
		}
		if t.vars[x.Name] {
			return leanIdent(x.Name)
		}
		if v, ok := t.constVal(x.Name); ok {
			return lit(v)
		}
		return t.fail("identifier %s", x.Name)
	case *ast.SelectorExpr:
		if v, ok := t.constOf(x); ok {
			return lit(v)
		}
		return t.fail("selector %s", t.f.Src(x))
	case *ast.UnaryExpr:
		switch x.Op {
		case token.SUB:
			return "(-" + t.expr(x.X) + ")"
		case token.ADD:
			return t.expr(x.X)
		case token.NOT:
			return "(!" + t.expr(x.X) + ")"
		}
		return t.fail("unary %s", x.Op)
	case *ast.BinaryExpr:
		if v, ok := t.constOf(x); ok {
			return lit(v)
		}
		a := t.expr(x.X)
		switch x.Op {
		case token.SHL, token.SHR:
			k, ok := t.constOf(x.Y)
			if !ok {
				return t.fail("non-constant shift")
			}
			if x.Op == token.SHL {
				return fmt.Sprintf("(%s * 2^%s)", a, k)
			}
			return fmt.Sprintf("(%s / 2^%s)", a, k)
		case token.AND, token.AND_NOT:
			m, ok := t.constOf(x.Y)
			var other string
			if !ok {
				if m, ok = t.constOf(x.X); ok && x.Op == token.AND {
					other = t.expr(x.Y)
				} else {
					return t.fail("& with non-constant mask")
				}
			} else {
				other = a
			}
			if strings.HasPrefix(m, "-") && x.Op == token.AND {
				// x & -(2^k)  ==  x - x mod 2^k  (two's complement, any sign; Lean `%` on Int is emod)
				if k, ok := maskBits(decPred(m[1:])); ok || m == "-1" {
					if m == "-1" {
						return other
					}
					return fmt.Sprintf("(%s - %s %% 2^%d)", other, other, k)
				}
			}
			k, isMask := maskBits(m)
			if !isMask {
				return t.fail("& mask %s is not 2^k-1", m)
			}
			if x.Op == token.AND {
				return fmt.Sprintf("(%s %% 2^%d)", other, k)
			}
			return fmt.Sprintf("(%s - %s %% 2^%d)", other, other, k)
		}
		b := t.expr(x.Y)
		switch x.Op {
		case token.ADD:
			return "(" + a + " + " + b + ")"
		case token.SUB:
			return "(" + a + " - " + b + ")"
		case token.MUL:
			return "(" + a + " * " + b + ")"
		case token.QUO:
			return "(Int.tdiv " + a + " " + b + ")"
		case token.REM:
			return "(Int.tmod " + a + " " + b + ")"
		case token.LSS:
			return "(decide (" + a + " < " + b + "))"
		case token.LEQ:
			return "(decide (" + a + " ≤ " + b + "))"
		case token.GTR:
			return "(decide (" + a + " > " + b + "))"
		case token.GEQ:
			return "(decide (" + a + " ≥ " + b + "))"
		case token.EQL:
			return "(decide (" + a + " = " + b + "))"
		case token.NEQ:
			return "(decide (" + a + " ≠ " + b + "))"
		case token.OR:
			// exact only for non-negative operands (see orNonneg in the generated prelude)
			return "(orNonneg " + a + " " + b + ")"
		case token.LAND:
			return "(" + a + " && " + b + ")"
		case token.LOR:
			return "(" + a + " || " + b + ")"
		}
		return t.fail("binary %s", x.Op)
	case *ast.CallExpr:
		// conversion?
		if len(x.Args) == 1 && t.typeKind(x.Fun) == "int" {
			return t.expr(x.Args[0])
		}
		if id, ok := x.Fun.(*ast.Ident); ok {
			if ln, ok := t.fns[id.Name]; ok {
				parts := []string{ln}
				for _, a := range x.Args {
					parts = append(parts, t.expr(a))
				}
				return "(" + strings.Join(parts, " ") + ")"
			}
		}
		if sel, ok := x.Fun.(*ast.SelectorExpr); ok {
			if id, ok := sel.X.(*ast.Ident); ok && (id.Name == "errors" || id.Name == "fmt" || id.Name == "xerrors") {
				return "true" // a non-nil error
			}
		}
		return t.fail("call %s", t.f.Src(x.Fun))
	}
	return t.fail("expression %T", x)
}

// decPred returns the decimal string of n-1 for a small positive decimal n ("" if not parseable).
func decPred(n string) string {
	v, err := strconv.ParseUint(n, 10, 64)
	if err != nil || v == 0 {
		return ""
	}
	return strconv.FormatUint(v-1, 10)
}

func lit(v string) string {
	if strings.HasPrefix(v, "-") {
		return "(" + v + ")"
	}
	return v
}

func leanIdent(n string) string {
	switch n {
	case "end", "at", "from", "to", "then", "do", "fun", "let", "in", "have", "show", "by", "open", "local", "prefix", "instance", "where", "with", "match", "def", "theorem", "structure", "class":
		return n + "_"
	}
	return n
}

// terminates reports whether every path through the statements ends in a return.
func terminates(stmts []ast.Stmt) bool {
	if len(stmts) == 0 {
		return false
	}
	switch s := stmts[len(stmts)-1].(type) {
	case *ast.ReturnStmt:
		return true
	case *ast.BlockStmt:
		return terminates(s.List)
	case *ast.IfStmt:
		if s.Else == nil {
			return false
		}
		var els []ast.Stmt
		switch e := s.Else.(type) {
		case *ast.BlockStmt:
			els = e.List
		case *ast.IfStmt:
			els = []ast.Stmt{e}
		}
		return terminates(s.Body.List) && terminates(els)
	case *ast.SwitchStmt:
		hasDefault := false
		for _, c := range s.Body.List {
			cc := c.(*ast.CaseClause)
			if cc.List == nil {
				hasDefault = true
			}
			if !terminates(cc.Body) {
				return false
			}
		}
		return hasDefault
	}
	return false
}

func containsReturn(stmts []ast.Stmt) bool {
	found := false
	for _, s := range stmts {
		ast.Inspect(s, func(n ast.Node) bool {
			if _, ok := n.(*ast.ReturnStmt); ok {
				found = true
			}
			return true
		})
	}
	return found
}

// assigned lists variables (already declared outside) assigned inside the statements.
func (t *translator) assigned(stmts []ast.Stmt, outer map[string]bool) []string {
	seen := map[string]bool{}
	var out []string
	add := func(n string) {
		if outer[n] && !seen[n] {
			seen[n] = true
			out = append(out, n)
		}
	}
	for _, s := range stmts {
		ast.Inspect(s, func(n ast.Node) bool {
			switch n := n.(type) {
			case *ast.AssignStmt:
				if n.Tok != token.DEFINE {
					for _, l := range n.Lhs {
						if id, ok := l.(*ast.Ident); ok {
							add(id.Name)
						}
					}
				}
			case *ast.IncDecStmt:
				if id, ok := n.X.(*ast.Ident); ok {
					add(id.Name)
				}
			}
			return true
		})
	}
	return out
}

func tuple(xs []string) string {
	if len(xs) == 1 {
		return xs[0]
	}
	return "(" + strings.Join(xs, ", ") + ")"
}

// desugarSwitch turns a switch into an if/else chain.
func (t *translator) desugarSwitch(s *ast.SwitchStmt) ast.Stmt {
	var clauses []*ast.CaseClause
	var def *ast.CaseClause
	for _, c := range s.Body.List {
		cc := c.(*ast.CaseClause)
		for _, b := range cc.Body {
			if br, ok := b.(*ast.BranchStmt); ok && br.Tok == token.FALLTHROUGH {
				t.fail("fallthrough")
			}
		}
		if cc.List == nil {
			def = cc
		} else {
			clauses = append(clauses, cc)
		}
	}
	var tail ast.Stmt
	if def != nil {
		tail = &ast.BlockStmt{List: def.Body}
	}
	for i := len(clauses) - 1; i >= 0; i-- {
		cc := clauses[i]
		var cond ast.Expr
		for _, e := range cc.List {
			var c ast.Expr = e
			if s.Tag != nil {
				c = &ast.BinaryExpr{X: s.Tag, Op: token.EQL, Y: e}
			}
			if cond == nil {
				cond = c
			} else {
				cond = &ast.BinaryExpr{X: cond, Op: token.LOR, Y: c}
			}
		}
		tail = &ast.IfStmt{Cond: cond, Body: &ast.BlockStmt{List: cc.Body}, Else: tail}
	}
	if tail == nil {
		return &ast.EmptyStmt{}
	}
	return tail
}

// block translates statements followed by continuation `k` (a Lean expression producing the
// function result, or "" when falling off the end is impossible/unsupported).
func (t *translator) block(stmts []ast.Stmt, k func() string, ind string) string {
	if len(stmts) == 0 {
		return k()
	}
	rest := func() string { return t.block(stmts[1:], k, ind) }
	switch s := stmts[0].(type) {
	case *ast.EmptyStmt:
		return rest()
	case *ast.BlockStmt:
		return t.block(append(append([]ast.Stmt{}, s.List...), stmts[1:]...), k, ind)
	case *ast.ReturnStmt:
		if len(s.Results) != t.nres {
			return t.fail("return arity")
		}
		var rs []string
		for _, r := range s.Results {
			rs = append(rs, t.expr(r))
		}
		return tuple(rs)
	case *ast.DeclStmt:
		gd, ok := s.Decl.(*ast.GenDecl)
		if !ok || (gd.Tok != token.VAR && gd.Tok != token.CONST) {
			return t.fail("declaration")
		}
		out := ""
		for _, sp := range gd.Specs {
			vs := sp.(*ast.ValueSpec)
			for i, n := range vs.Names {
				val := "0"
				if vs.Type != nil && t.typeKind(vs.Type) == "bool" {
					val = "false"
				} else if vs.Type != nil && t.typeKind(vs.Type) == "" {
					return t.fail("var type %s", t.f.Src(vs.Type))
				}
				if i < len(vs.Values) {
					val = t.expr(vs.Values[i])
				}
				t.vars[n.Name] = true
				out += fmt.Sprintf("let %s := %s\n%s", leanIdent(n.Name), val, ind)
			}
		}
		return out + rest()
	case *ast.IncDecStmt:
		id, ok := s.X.(*ast.Ident)
		if !ok || !t.vars[id.Name] {
			return t.fail("inc/dec target")
		}
		op := "+"
		if s.Tok == token.DEC {
			op = "-"
		}
		return fmt.Sprintf("let %s := (%s %s 1)\n%s", leanIdent(id.Name), leanIdent(id.Name), op, ind) + rest()
	case *ast.AssignStmt:
		if len(s.Lhs) != len(s.Rhs) {
			return t.fail("tuple assignment from call")
		}
		var vals []string
		for i := range s.Lhs {
			id, ok := s.Lhs[i].(*ast.Ident)
			if !ok {
				return t.fail("assignment target")
			}
			rhs := s.Rhs[i]
			switch s.Tok {
			case token.DEFINE, token.ASSIGN:
			default:
				opm := map[token.Token]token.Token{token.ADD_ASSIGN: token.ADD, token.SUB_ASSIGN: token.SUB, token.MUL_ASSIGN: token.MUL,
					token.QUO_ASSIGN: token.QUO, token.REM_ASSIGN: token.REM, token.SHL_ASSIGN: token.SHL, token.SHR_ASSIGN: token.SHR,
					token.AND_ASSIGN: token.AND, token.AND_NOT_ASSIGN: token.AND_NOT, token.OR_ASSIGN: token.OR}
				op, ok := opm[s.Tok]
				if !ok {
					return t.fail("assignment operator %s", s.Tok)
				}
				rhs = &ast.BinaryExpr{X: id, Op: op, Y: &ast.ParenExpr{X: rhs}}
			}
			if s.Tok != token.DEFINE && !t.vars[id.Name] && id.Name != "_" {
				return t.fail("assignment to unknown %s", id.Name)
			}
			vals = append(vals, t.expr(rhs))
		}
		out := ""
		if len(s.Lhs) == 1 {
			id := s.Lhs[0].(*ast.Ident)
			if id.Name == "_" {
				return rest()
			}
			t.vars[id.Name] = true
			out = fmt.Sprintf("let %s := %s\n%s", leanIdent(id.Name), vals[0], ind)
		} else { // parallel assignment: evaluate all right-hand sides first
			var names []string
			for _, l := range s.Lhs {
				names = append(names, leanIdent(l.(*ast.Ident).Name))
			}
			out = fmt.Sprintf("let (%s) := (%s)\n%s", strings.Join(names, ", "), strings.Join(vals, ", "), ind)
			for _, l := range s.Lhs {
				t.vars[l.(*ast.Ident).Name] = true
			}
		}
		return out + rest()
	case *ast.ForStmt:
		// `for [init;] cond [; post] { assignments only }` becomes a fuel-bounded recursive helper
		// (fuel = LoopFuel iterations; a theorem using the translation must show the loop ends earlier).
		if s.Init != nil {
			return t.block(append([]ast.Stmt{s.Init, &ast.ForStmt{Cond: s.Cond, Post: s.Post, Body: s.Body}}, stmts[1:]...), k, ind)
		}
		if s.Cond == nil || containsReturn(s.Body.List) || hasBranch(s.Body.List) {
			return t.fail("loop form")
		}
		body := append([]ast.Stmt{}, s.Body.List...)
		if s.Post != nil {
			body = append(body, s.Post)
		}
		saved := copyVars(t.vars)
		vs := t.assigned(body, saved)
		if len(vs) == 0 {
			return t.fail("loop without state")
		}
		var all []string
		for v := range saved {
			all = append(all, v)
		}
		sort.Strings(all)
		var params, args, names []string
		for _, v := range all {
			params = append(params, fmt.Sprintf("(%s : %s)", leanIdent(v), t.varType(v)))
			args = append(args, leanIdent(v))
		}
		for _, v := range vs {
			names = append(names, leanIdent(v))
		}
		t.loops++
		lname := fmt.Sprintf("%s.loop%d", t.leanName, t.loops)
		cond := t.expr(s.Cond)
		step := t.block(body, func() string { return fmt.Sprintf("%s fuel %s", lname, strings.Join(args, " ")) }, "      ")
		t.vars = copyVars(saved)
		var rts []string
		for _, v := range vs {
			rts = append(rts, t.varType(v))
		}
		t.aux = append(t.aux, fmt.Sprintf("def %s (fuel : Nat) %s : %s :=\n  match fuel with\n  | 0 => %s\n  | fuel + 1 =>\n    if %s then\n      %s\n    else %s\n",
			lname, strings.Join(params, " "), strings.Join(rts, " × "), tuple(names), cond, step, tuple(names)))
		return fmt.Sprintf("let %s := %s LoopFuel %s\n%s", tuple(names), lname, strings.Join(args, " "), ind) + rest()
	case *ast.SwitchStmt:
		var pre []ast.Stmt
		if s.Init != nil {
			pre = append(pre, s.Init)
		}
		pre = append(pre, t.desugarSwitch(s))
		return t.block(append(pre, stmts[1:]...), k, ind)
	case *ast.IfStmt:
		if s.Init != nil {
			return t.block(append([]ast.Stmt{s.Init, &ast.IfStmt{Cond: s.Cond, Body: s.Body, Else: s.Else}}, stmts[1:]...), k, ind)
		}
		var els []ast.Stmt
		switch e := s.Else.(type) {
		case *ast.BlockStmt:
			els = e.List
		case *ast.IfStmt:
			els = []ast.Stmt{e}
		case nil:
		default:
			return t.fail("else form")
		}
		cond := t.expr(s.Cond)
		saved := copyVars(t.vars)
		in2 := ind + "  "
		bodyT, elsT := terminates(s.Body.List), s.Else != nil && terminates(els)
		_ = elsT
		if !containsReturn(s.Body.List) && !containsReturn(els) {
			vs := t.assigned(append(append([]ast.Stmt{}, s.Body.List...), els...), saved)
			if len(vs) == 0 {
				return rest() // branch has no effect on outer variables
			}
			var names []string
			for _, v := range vs {
				names = append(names, leanIdent(v))
			}
			final := func() string { return tuple(names) }
			th := t.block(s.Body.List, final, in2)
			t.vars = copyVars(saved)
			el := t.block(els, final, in2)
			t.vars = copyVars(saved)
			pat := tuple(names)
			return fmt.Sprintf("let %s := (if %s then\n%s%s\n%selse\n%s%s)\n%s", pat, cond, in2, th, ind, in2, el, ind) + rest()
		}
		// some branch returns: each branch continues into the rest of the block (duplicated)
		th := t.block(append(append([]ast.Stmt{}, s.Body.List...), stmts[1:]...), k, in2)
		t.vars = copyVars(saved)
		el := t.block(append(append([]ast.Stmt{}, els...), stmts[1:]...), k, in2)
		_ = bodyT
		return fmt.Sprintf("if %s then\n%s%s\n%selse\n%s%s", cond, in2, th, ind, in2, el)
	}
	return t.fail("statement %T", stmts[0])
}

func copyVars(m map[string]bool) map[string]bool {
	c := make(map[string]bool, len(m))
	for k, v := range m {
		c[k] = v
	}
	return c
}

// TranslateFuncs translates Go functions of one package directory into Lean definitions, in the
// given order (later ones may call earlier ones). pairs = leanName, goName, leanName, goName, …
// The Go source of each function is emitted as a comment next to its translation.
func (f *Facts) TranslateFuncs(dir string, pairs ...string) {
	fns := map[string]string{}
	for i := 0; i+1 < len(pairs); i += 2 {
		leanName, goName := pairs[i], pairs[i+1]
		fd := f.FuncDecl(dir, goName)
		if fd == nil || fd.Body == nil {
			f.Raw(fmt.Sprintf("def %s : Int := missing_translation_%s -- %s.%s not found", leanName, leanName, dir, goName))
			continue
		}
		t := &translator{f: f, dir: dir, fns: fns, vars: map[string]bool{}, bools: map[string]bool{}, leanName: leanName}
		var params []string
		for _, fl := range fd.Type.Params.List {
			kind := t.typeKind(fl.Type)
			if kind != "int" && kind != "bool" {
				t.fail("parameter type %s", f.Src(fl.Type))
			}
			for _, n := range fl.Names {
				t.vars[n.Name] = true
				if kind == "bool" {
					t.bools[n.Name] = true
				}
				params = append(params, fmt.Sprintf("(%s : %s)", leanIdent(n.Name), leanType(kind)))
			}
		}
		var rts []string
		if fd.Type.Results != nil {
			for _, fl := range fd.Type.Results.List {
				kind := t.typeKind(fl.Type)
				if kind == "" {
					t.fail("result type %s", f.Src(fl.Type))
				}
				n := len(fl.Names)
				if n == 0 {
					n = 1
				} else {
					t.fail("named results")
				}
				for j := 0; j < n; j++ {
					rts = append(rts, leanType(kind))
				}
			}
		}
		t.nres = len(rts)
		if t.nres == 0 {
			t.fail("no result")
		}
		body := t.block(fd.Body.List, func() string { return t.fail("control reaches end of function") }, "  ")
		src := strings.ReplaceAll(f.Src(fd), "-/", "- /")
		if t.err != nil {
			f.Raw(fmt.Sprintf("/- %s.%s is outside the translatable subset: %v -/", dir, goName, t.err))
			f.Raw(fmt.Sprintf("def %s : Int := missing_translation_%s", leanName, leanName))
			continue
		}
		for _, a := range t.aux {
			f.Raw(a)
		}
		f.Raw(fmt.Sprintf("/-- Translated from %s.%s:\n```go\n%s\n```\n-/", dir, goName, src))
		f.Raw(fmt.Sprintf("def %s %s : %s :=\n  %s\n", leanName, strings.Join(params, " "), strings.Join(rts, " × "), body))
		name := goName
		if i := strings.Index(name, "."); i >= 0 {
			name = name[i+1:]
		}
		fns[name] = leanName
	}
}
