// Facts about telegram/message/entity shared by C35 and C37 (both use the builder model
// TdModel/Model/C35.lean, which reads them from TdModel/Gen/C35.lean).
package hc

import (
	"go/ast"
	"go/token"
	"strconv"
	"strings"
)

const c35PkgDir = "telegram/message/entity"

func oneLine(s string) string { return strings.Join(strings.Fields(s), " ") }

// bodyNoComments is the canonical one-line source of a function body without `//` comments.
func bodyNoComments(f *Facts, dir, name string) string {
	var out []string
	for _, l := range strings.Split(f.FuncSrc(dir, name), "\n") {
		if i := strings.Index(l, "//"); i >= 0 {
			l = l[:i]
		}
		out = append(out, l)
	}
	return oneLine(strings.Join(out, " "))
}

// C35EntityFacts are the facts shared by C35 and C37 (same builder model).
func C35EntityFacts(f *Facts) {
	// --- utf16RuneLen: the two local constants and the shape of the test
	surr, maxR, shape := "", "", false
	if fd := f.FuncDecl(c35PkgDir, "utf16RuneLen"); fd != nil && fd.Body != nil {
		var rest []string
		for _, st := range fd.Body.List {
			if ds, ok := st.(*ast.DeclStmt); ok {
				if gd, ok := ds.Decl.(*ast.GenDecl); ok && gd.Tok == token.CONST {
					for _, sp := range gd.Specs {
						vs := sp.(*ast.ValueSpec)
						for i, n := range vs.Names {
							if i >= len(vs.Values) {
								continue
							}
							lit, ok := vs.Values[i].(*ast.BasicLit)
							if !ok {
								continue
							}
							val := ""
							switch lit.Kind {
							case token.INT:
								if v, err := strconv.ParseInt(lit.Value, 0, 64); err == nil {
									val = strconv.FormatInt(v, 10)
								}
							case token.CHAR:
								if s, err := strconv.Unquote(lit.Value); err == nil {
									val = strconv.Itoa(int([]rune(s)[0]))
								}
							}
							switch n.Name {
							case "surrSelf":
								surr = val
							case "maxRune":
								maxR = val
							}
						}
					}
					continue
				}
			}
			rest = append(rest, oneLine(f.Src(st)))
		}
		shape = strings.Join(rest, " ; ") == "if surrSelf <= v && v <= maxRune { return 2 } ; return 1"
	}
	if surr == "" {
		f.Missing("surrSelf", "const surrSelf in utf16RuneLen")
	} else {
		f.Raw("def surrSelf : Nat := " + surr + " -- entity.utf16RuneLen: const surrSelf")
	}
	if maxR == "" {
		f.Missing("maxRune", "const maxRune in utf16RuneLen")
	} else {
		f.Raw("def maxRune : Nat := " + maxR + " -- entity.utf16RuneLen: const maxRune")
	}
	f.Bool("runeLenShape", shape, "utf16RuneLen is `if surrSelf <= v && v <= maxRune { return 2 }; return 1`")
	f.Bool("computeLengthShape", bodyNoComments(f, c35PkgDir, "ComputeLength") == "{ n := 0 for _, v := range s { n += utf16RuneLen(v) } return n }",
		"ComputeLength sums utf16RuneLen over the runes of s")
	// --- utf16RuneLen and one iteration of clampEntities, translated (harness/hc/c35_translate.go)
	C35RuneLenFacts(f, c35PkgDir)
	C35ClampFacts(f, c35PkgDir)
	f.Bool("computeLengthBytesShape", bodyNoComments(f, c35PkgDir, "ComputeLengthBytes") == "{ var i int for i < len(s) { v, size := utf8.DecodeRune(s[i:]) i += size n += utf16RuneLen(v) } return n }",
		"ComputeLengthBytes sums utf16RuneLen over the runes decoded from s")
	// fixEntities cuts the message and clamps to the UTF-16 length of the CUT message
	clampArg := ""
	if fd := f.FuncDecl(c35PkgDir, "Builder.fixEntities"); fd != nil && fd.Body != nil {
		ast.Inspect(fd.Body, func(n ast.Node) bool {
			bs, ok := n.(*ast.BlockStmt)
			if !ok {
				return true
			}
			for i := 0; i+1 < len(bs.List); i++ {
				if oneLine(f.Src(bs.List[i])) != "msg = msg[:offset+len(trimmed)]" {
					continue
				}
				if es, ok := bs.List[i+1].(*ast.ExprStmt); ok {
					if c, ok := es.X.(*ast.CallExpr); ok && len(c.Args) == 2 && oneLine(f.Src(c.Fun)) == "clampEntities" && oneLine(f.Src(c.Args[1])) == "entities" {
						clampArg = oneLine(f.Src(c.Args[0]))
					}
				}
			}
			return true
		})
	}
	f.Bool("clampToCutMessage", clampArg == "ComputeLength(msg)", "fixEntities: `msg = msg[:offset+len(trimmed)]` is followed by clampEntities("+clampArg+", entities)")
	// --- the comparator used by Complete's sort (translator: harness/hc/c36_less.go)
	C36LessFacts(f, c35PkgDir)
	// --- fixEntities trims with strings.TrimRightFunc(.., unicode.IsSpace); Complete = fixEntities + SortEntities
	trim := false
	if fd := f.FuncDecl(c35PkgDir, "Builder.fixEntities"); fd != nil && fd.Body != nil {
		ast.Inspect(fd.Body, func(n ast.Node) bool {
			if c, ok := n.(*ast.CallExpr); ok && len(c.Args) == 2 {
				if oneLine(f.Src(c.Fun)) == "strings.TrimRightFunc" && oneLine(f.Src(c.Args[1])) == "unicode.IsSpace" {
					trim = true
				}
			}
			return true
		})
	}
	f.Bool("trimIsTrimRightSpace", trim, "fixEntities trims with strings.TrimRightFunc(_, unicode.IsSpace)")
	sorts, fixes := false, false
	if fd := f.FuncDecl(c35PkgDir, "Builder.Complete"); fd != nil && fd.Body != nil {
		ast.Inspect(fd.Body, func(n ast.Node) bool {
			if c, ok := n.(*ast.CallExpr); ok {
				switch oneLine(f.Src(c.Fun)) {
				case "SortEntities":
					sorts = true
				case "b.fixEntities":
					fixes = true
				}
			}
			return true
		})
	}
	f.Bool("completeFixesAndSorts", sorts && fixes, "Builder.Complete calls b.fixEntities and SortEntities")
}
