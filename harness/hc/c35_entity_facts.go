// Facts about telegram/message/entity shared by C35 and C37 (both use the builder model
// TdModel/Model/C35.lean, which reads them from TdModel/Gen/C35.lean).
package hc

import (
	"go/ast"
	"go/token"
	"strconv"
	"strings"
)

const c35PkgDir = "telegram/message/entity"

func oneLine(s string) string { return strings.Join(strings.Fields(s), " ") }

// bodyNoComments is the canonical one-line source of a function body without `//` comments.
func bodyNoComments(f *Facts, dir, name string) string {
	var out []string
	for _, l := range strings.Split(f.FuncSrc(dir, name), "\n") {
		if i := strings.Index(l, "//"); i >= 0 {
			l = l[:i]
		}
		out = append(out, l)
	}
	return oneLine(strings.Join(out, " "))
}

// stmtsNoHooks is the canonical source of a function's top-level statements joined by " ; ", without
// `//` comments and without the verification hook calls (`verifC37…(…)`).
func stmtsNoHooks(f *Facts, dir, name string) string {
	fd := f.FuncDecl(dir, name)
	if fd == nil || fd.Body == nil {
		return "<missing>"
	}
	var out []string
	for _, st := range fd.Body.List {
		if es, ok := st.(*ast.ExprStmt); ok {
			if c, ok := es.X.(*ast.CallExpr); ok {
				if id, ok := c.Fun.(*ast.Ident); ok && strings.HasPrefix(id.Name, "verifC37") {
					continue
				}
			}
		}
		var lines []string
		for _, l := range strings.Split(f.Src(st), "\n") {
			if i := strings.Index(l, "//"); i >= 0 {
				l = l[:i]
			}
			lines = append(lines, l)
		}
		out = append(out, oneLine(strings.Join(lines, " ")))
	}
	return strings.Join(out, " ; ")
}

// c35Pinned: the small builder methods the model transliterates line by line, with the source text
// the transliteration was made from.  (utf16RuneLen, clampEntities and entitySorter.Less are not
// pinned: they are translated.)
var c35Pinned = [][2]string{
	{"Builder.Token", "return Token{ utf8offset: b.UTF8Len(), utf16offset: b.UTF16Len(), }"},
	{"Token.Apply", "builder.appendEntities(t.utf16offset, t.UTF16Length(builder), utf8entity{ offset: t.utf8offset, length: t.UTF8Length(builder), }, f...)"},
	{"Token.UTF16Length", "return builder.UTF16Len() - t.utf16offset"},
	{"Token.UTF8Length", "return builder.UTF8Len() - t.utf8offset"},
	{"Builder.UTF16Len", "return b.utf16length"},
	{"Builder.UTF8Len", "return b.message.Len()"},
	{"Builder.Plain", "_, _ = b.WriteString(s) ; b.lastFormatIndex = len(b.entities) ; return b"},
	{"Builder.Format", "return b.appendMessage(s, formats...)"},
	{"Builder.Reset", "b.message.Reset() ; b.entities = nil ; b.utf16length = 0"},
	{"Builder.appendEntities", "b.lastFormatIndex = len(b.entities) ; for i := range formats { b.entities = append(b.entities, formats[i](offset, length)) b.lengths = append(b.lengths, u) } ; return b"},
	{"Builder.appendMessage", "if s == \"\" { return b } ; s = validString(s) ; offset := b.utf16length ; length := ComputeLength(s) ; b.appendEntities(offset, length, utf8entity{ offset: b.message.Len(), length: len(s), }, formats...) ; _, _ = b.WriteString(s) ; return b"},
	{"Builder.WriteString", "if !utf8.ValidString(s) { _, err := b.WriteString(validString(s)) return len(s), err } ; n, err := b.message.WriteString(s) ; b.utf16length += ComputeLength(s) ; return n, err"},
	{"Builder.Write", "if !utf8.Valid(s) { _, err := b.Write(bytes.ToValidUTF8(s, []byte(replacement))) return len(s), err } ; n, err := b.message.Write(s) ; b.utf16length += ComputeLengthBytes(s) ; return n, err"},
	{"Builder.WriteRune", "n, err := b.message.WriteRune(s) ; b.utf16length += utf16RuneLen(s) ; return n, err"},
	{"Builder.WriteByte", "err := b.message.WriteByte(s) ; b.utf16length++ ; return err"},
	{"Builder.Raw", "msg := b.message.String() ; entities := b.entities ; b.Reset() ; return msg, entities"},
	{"Builder.ShrinkPreCode", "b.entities = shrinkPreCode(b.entities)"},
	{"equalRange", "return a.GetLength() == b.GetLength() && a.GetOffset() == b.GetOffset()"},
	{"shrinkPreCode", "for i, j := 0, len(entities)-1; i < j; i, j = i+1, j-1 { entities[i], entities[j] = entities[j], entities[i] } ; filter := func(keep func(prev, cur tg.MessageEntityClass) bool) []tg.MessageEntityClass { n := 0 for i, val := range entities { if i == 0 || keep(entities[i-1], val) { entities[n] = val n++ } } return entities[:n] } ; isPreCode := func(class tg.MessageEntityClass) bool { typeID := class.TypeID() return typeID == tg.MessageEntityCodeTypeID || typeID == tg.MessageEntityPreTypeID } ; hasLang := func(class tg.MessageEntityClass) bool { pre, ok := class.(*tg.MessageEntityPre) return ok && pre.Language != \"\" } ; resetLang := func(class tg.MessageEntityClass) { pre, ok := class.(*tg.MessageEntityPre) if !ok { return } pre.Language = \"\" } ; return filter(func(prev, cur tg.MessageEntityClass) bool { if !isPreCode(prev) || !isPreCode(cur) || prev.TypeID() == cur.TypeID() { return true } if !equalRange(prev, cur) { resetLang(prev) resetLang(cur) return true } return !hasLang(prev) })"},
}

// C35EntityFacts are the facts shared by C35 and C37 (same builder model).
func C35EntityFacts(f *Facts) {
	// --- utf16RuneLen: the two local constants and the shape of the test
	surr, maxR, shape := "", "", false
	if fd := f.FuncDecl(c35PkgDir, "utf16RuneLen"); fd != nil && fd.Body != nil {
		var rest []string
		for _, st := range fd.Body.List {
			if ds, ok := st.(*ast.DeclStmt); ok {
				if gd, ok := ds.Decl.(*ast.GenDecl); ok && gd.Tok == token.CONST {
					for _, sp := range gd.Specs {
						vs := sp.(*ast.ValueSpec)
						for i, n := range vs.Names {
							if i >= len(vs.Values) {
								continue
							}
							lit, ok := vs.Values[i].(*ast.BasicLit)
							if !ok {
								continue
							}
							val := ""
							switch lit.Kind {
							case token.INT:
								if v, err := strconv.ParseInt(lit.Value, 0, 64); err == nil {
									val = strconv.FormatInt(v, 10)
								}
							case token.CHAR:
								if s, err := strconv.Unquote(lit.Value); err == nil {
									val = strconv.Itoa(int([]rune(s)[0]))
								}
							}
							switch n.Name {
							case "surrSelf":
								surr = val
							case "maxRune":
								maxR = val
							}
						}
					}
					continue
				}
			}
			rest = append(rest, oneLine(f.Src(st)))
		}
		shape = strings.Join(rest, " ; ") == "if surrSelf <= v && v <= maxRune { return 2 } ; return 1"
	}
	if surr == "" {
		f.Missing("surrSelf", "const surrSelf in utf16RuneLen")
	} else {
		f.Raw("def surrSelf : Nat := " + surr + " -- entity.utf16RuneLen: const surrSelf")
	}
	if maxR == "" {
		f.Missing("maxRune", "const maxRune in utf16RuneLen")
	} else {
		f.Raw("def maxRune : Nat := " + maxR + " -- entity.utf16RuneLen: const maxRune")
	}
	f.Bool("runeLenShape", shape, "utf16RuneLen is `if surrSelf <= v && v <= maxRune { return 2 }; return 1`")
	f.Bool("computeLengthShape", bodyNoComments(f, c35PkgDir, "ComputeLength") == "{ n := 0 for _, v := range s { n += utf16RuneLen(v) } return n }",
		"ComputeLength sums utf16RuneLen over the runes of s")
	// --- utf16RuneLen and one iteration of clampEntities, translated (harness/hc/c35_translate.go)
	C35RuneLenFacts(f, c35PkgDir)
	C35ClampFacts(f, c35PkgDir)
	f.Bool("computeLengthBytesShape", bodyNoComments(f, c35PkgDir, "ComputeLengthBytes") == "{ var i int for i < len(s) { v, size := utf8.DecodeRune(s[i:]) i += size n += utf16RuneLen(v) } return n }",
		"ComputeLengthBytes sums utf16RuneLen over the runes decoded from s")
	// fixEntities cuts the message and clamps to the UTF-16 length of the CUT message
	clampArg := ""
	if fd := f.FuncDecl(c35PkgDir, "Builder.fixEntities"); fd != nil && fd.Body != nil {
		ast.Inspect(fd.Body, func(n ast.Node) bool {
			bs, ok := n.(*ast.BlockStmt)
			if !ok {
				return true
			}
			for i := 0; i+1 < len(bs.List); i++ {
				if oneLine(f.Src(bs.List[i])) != "msg = msg[:offset+len(trimmed)]" {
					continue
				}
				if es, ok := bs.List[i+1].(*ast.ExprStmt); ok {
					if c, ok := es.X.(*ast.CallExpr); ok && len(c.Args) == 2 && oneLine(f.Src(c.Fun)) == "clampEntities" && oneLine(f.Src(c.Args[1])) == "entities" {
						clampArg = oneLine(f.Src(c.Args[0]))
					}
				}
			}
			return true
		})
	}
	f.Bool("clampToCutMessage", clampArg == "ComputeLength(msg)", "fixEntities: `msg = msg[:offset+len(trimmed)]` is followed by clampEntities("+clampArg+", entities)")
	// --- the small methods the model transliterates: which of them still read as when it was written
	var changed []string
	for _, p := range c35Pinned {
		if stmtsNoHooks(f, c35PkgDir, p[0]) != p[1] {
			changed = append(changed, strconv.Quote(p[0]))
		}
	}
	f.Raw("def changedBuilderMethods : List String := [" + strings.Join(changed, ", ") + "] -- transliterated methods whose source differs from the text the model was written from")
	f.Nat("pinnedBuilderMethods", len(c35Pinned), "number of transliterated methods compared")
	// --- the comparator used by Complete's sort (translator: harness/hc/c36_less.go)
	C36LessFacts(f, c35PkgDir)
	// --- fixEntities trims with strings.TrimRightFunc(.., unicode.IsSpace); Complete = fixEntities + SortEntities
	trim := false
	if fd := f.FuncDecl(c35PkgDir, "Builder.fixEntities"); fd != nil && fd.Body != nil {
		ast.Inspect(fd.Body, func(n ast.Node) bool {
			if c, ok := n.(*ast.CallExpr); ok && len(c.Args) == 2 {
				if oneLine(f.Src(c.Fun)) == "strings.TrimRightFunc" && oneLine(f.Src(c.Args[1])) == "unicode.IsSpace" {
					trim = true
				}
			}
			return true
		})
	}
	f.Bool("trimIsTrimRightSpace", trim, "fixEntities trims with strings.TrimRightFunc(_, unicode.IsSpace)")
	sorts, fixes := false, false
	if fd := f.FuncDecl(c35PkgDir, "Builder.Complete"); fd != nil && fd.Body != nil {
		ast.Inspect(fd.Body, func(n ast.Node) bool {
			if c, ok := n.(*ast.CallExpr); ok {
				switch oneLine(f.Src(c.Fun)) {
				case "SortEntities":
					sorts = true
				case "b.fixEntities":
					fixes = true
				}
			}
			return true
		})
	}
	f.Bool("completeFixesAndSorts", sorts && fixes, "Builder.Complete calls b.fixEntities and SortEntities")
}
