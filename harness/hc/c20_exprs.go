package hc

// C20TranslateExpr: Go → Lean translation of single expressions (guard conditions, slice bounds,
// arguments, header bytes) taken out of functions that as a whole are outside the subset of
// TranslateFuncs (they work on slices, structs, readers).
//
// The expression's free *atoms* become Int parameters a0, a1, … in order of first appearance
// (left to right), so the emitted definition does not depend on how the Go variables are named:
//   - identifiers that are neither package constants, local constants (C20ExprOpt.Locals) nor
//     translated functions (C20ExprOpt.Fns),
//   - selector expressions that are not constants (m.Bytes, rpcErr.Argument),
//   - index expressions (b[1]), len(…) calls, method calls without arguments (b.Len(), reader.Total()).
// Equal source text = same parameter.  Integer conversions are identity, except byte(x)/uint8(x)
// = x mod 2^8 (operands are assumed non-negative there).  Everything else follows translate.go
// (`/`, `%` → Int.tdiv/tmod, `<<`/`>>` by constants, `|` → orNonneg, comparisons → decide).
//
// The model *calls* the emitted definitions (or a theorem proves them equal to the hand-written
// model on all arguments), so a semantic change of the Go expression changes the obligation while
// a renaming or an equivalent constant (4 vs Word, 1024*1024 vs a named constant) does not.

import (
	"fmt"
	"go/ast"
	"go/token"
	"strings"
)

// C20ExprOpt configures C20TranslateExpr.
type C20ExprOpt struct {
	Locals map[string]ast.Expr // local constants / single-assignment locals to substitute by their definition
	Fns    map[string]string   // callable translated functions: Go name → Lean name
	Atoms  *[]string           // if non-nil, shared atom table (several expressions with the same parameter list)
}

type c20ExprRewriter struct {
	f     *Facts
	dir   string
	opt   C20ExprOpt
	atoms []string
	depth int
}

func (r *c20ExprRewriter) atom(src string) ast.Expr {
	for i, a := range r.atoms {
		if a == src {
			return &ast.Ident{Name: fmt.Sprintf("a%d", i)}
		}
	}
	r.atoms = append(r.atoms, src)
	return &ast.Ident{Name: fmt.Sprintf("a%d", len(r.atoms)-1)}
}

func (r *c20ExprRewriter) isConst(x ast.Expr) bool {
	t := &translator{f: r.f, dir: r.dir, vars: map[string]bool{}}
	_, ok := t.constOf(x)
	return ok
}

func (r *c20ExprRewriter) rw(x ast.Expr) ast.Expr {
	r.depth++
	defer func() { r.depth-- }()
	if r.depth > 64 {
		return x
	}
	switch x := x.(type) {
	case *ast.ParenExpr:
		return &ast.ParenExpr{X: r.rw(x.X)}
	case *ast.BasicLit:
		return x
	case *ast.Ident:
		switch x.Name {
		case "true", "false", "nil":
			return x
		}
		if d, ok := r.opt.Locals[x.Name]; ok {
			return &ast.ParenExpr{X: r.rw(d)}
		}
		if r.isConst(x) {
			return x
		}
		return r.atom(x.Name)
	case *ast.SelectorExpr:
		if r.isConst(x) {
			return x
		}
		return r.atom(r.f.Src(x))
	case *ast.IndexExpr:
		return r.atom(r.f.Src(x))
	case *ast.UnaryExpr:
		return &ast.UnaryExpr{Op: x.Op, X: r.rw(x.X)}
	case *ast.BinaryExpr:
		return &ast.BinaryExpr{X: r.rw(x.X), Op: x.Op, Y: r.rw(x.Y)}
	case *ast.CallExpr:
		if id, ok := x.Fun.(*ast.Ident); ok {
			if id.Name == "len" && len(x.Args) == 1 {
				return r.atom(r.f.Src(x))
			}
			if (id.Name == "byte" || id.Name == "uint8") && len(x.Args) == 1 {
				return &ast.ParenExpr{X: &ast.BinaryExpr{X: r.rw(x.Args[0]), Op: token.AND, Y: &ast.BasicLit{Kind: token.INT, Value: "255"}}}
			}
			if _, ok := r.opt.Fns[id.Name]; ok {
				args := make([]ast.Expr, len(x.Args))
				for i, a := range x.Args {
					args[i] = r.rw(a)
				}
				return &ast.CallExpr{Fun: id, Args: args}
			}
		}
		t := &translator{f: r.f, dir: r.dir, vars: map[string]bool{}}
		if len(x.Args) == 1 && t.typeKind(x.Fun) == "int" { // conversion
			return r.rw(x.Args[0])
		}
		if _, ok := x.Fun.(*ast.SelectorExpr); ok && len(x.Args) == 0 { // b.Len(), reader.Total()
			return r.atom(r.f.Src(x))
		}
	}
	return x // left for the translator to reject
}

func c20IsBoolExpr(x ast.Expr) bool {
	switch x := x.(type) {
	case *ast.ParenExpr:
		return c20IsBoolExpr(x.X)
	case *ast.UnaryExpr:
		return x.Op == token.NOT
	case *ast.BinaryExpr:
		switch x.Op {
		case token.LSS, token.LEQ, token.GTR, token.GEQ, token.EQL, token.NEQ, token.LAND, token.LOR:
			return true
		}
	case *ast.Ident:
		return x.Name == "true" || x.Name == "false"
	}
	return false
}

func (f *Facts) c20TranslateExprs(leanName, dir string, xs []ast.Expr, opt C20ExprOpt, list bool) []string {
	r := &c20ExprRewriter{f: f, dir: dir, opt: opt}
	if opt.Atoms != nil {
		r.atoms = *opt.Atoms
	}
	var src []string
	for _, x := range xs {
		if x == nil {
			f.Missing(leanName, "expression not found in "+dir)
			return nil
		}
		src = append(src, f.Src(x))
	}
	rewritten := make([]ast.Expr, len(xs))
	for i, x := range xs {
		rewritten[i] = r.rw(x)
	}
	t := &translator{f: f, dir: dir, fns: opt.Fns, vars: map[string]bool{}, bools: map[string]bool{}, leanName: leanName}
	if t.fns == nil {
		t.fns = map[string]string{}
	}
	var params []string
	for i := range r.atoms {
		n := fmt.Sprintf("a%d", i)
		t.vars[n] = true
		params = append(params, n)
	}
	var outs []string
	for _, x := range rewritten {
		outs = append(outs, t.expr(x))
	}
	doc := strings.ReplaceAll(strings.Join(src, " ; "), "-/", "- /")
	if t.err != nil {
		f.Raw(fmt.Sprintf("/- `%s` (%s) is outside the translatable subset: %v -/", doc, dir, t.err))
		f.Missing(leanName, "untranslatable expression")
		return nil
	}
	sig := ""
	if len(params) > 0 {
		sig = " (" + strings.Join(params, " ") + " : Int)"
	}
	var atomDoc []string
	for i, a := range r.atoms {
		atomDoc = append(atomDoc, fmt.Sprintf("a%d = %s", i, a))
	}
	f.Raw(fmt.Sprintf("/-- Translated from `%s` in %s (%s). -/", doc, dir, strings.Join(atomDoc, ", ")))
	switch {
	case list:
		f.Raw(fmt.Sprintf("def %s%s : List Int := [%s]\n", leanName, sig, strings.Join(outs, ", ")))
	case c20IsBoolExpr(xs[0]):
		f.Raw(fmt.Sprintf("def %s%s : Bool := %s\n", leanName, sig, outs[0]))
	default:
		f.Raw(fmt.Sprintf("def %s%s : Int := %s\n", leanName, sig, outs[0]))
	}
	if opt.Atoms != nil {
		*opt.Atoms = r.atoms
	}
	return r.atoms
}

// C20TranslateExpr emits `def leanName (a0 … : Int) : Bool|Int` for one expression and returns the
// atoms' source texts (parameter i stands for atoms[i]).  A nil or untranslatable expression is
// emitted as a missing fact (fails closed).
func (f *Facts) C20TranslateExpr(leanName, dir string, x ast.Expr, opt C20ExprOpt) []string {
	return f.c20TranslateExprs(leanName, dir, []ast.Expr{x}, opt, false)
}

// C20TranslateExprList emits `def leanName (a0 … : Int) : List Int := [e1, e2, …]` (one parameter
// list for all elements), e.g. for the arguments of an append(...) that writes a header.
func (f *Facts) C20TranslateExprList(leanName, dir string, xs []ast.Expr, opt C20ExprOpt) []string {
	if len(xs) == 0 {
		f.Missing(leanName, "empty expression list in "+dir)
		return nil
	}
	return f.c20TranslateExprs(leanName, dir, xs, opt, true)
}

// C20IfConds returns the conditions of all `if` statements of a function body in source order
// (including `else if`), descending into nested blocks.
func C20IfConds(body *ast.BlockStmt) []ast.Expr {
	var out []ast.Expr
	if body == nil {
		return nil
	}
	ast.Inspect(body, func(n ast.Node) bool {
		if is, ok := n.(*ast.IfStmt); ok {
			out = append(out, is.Cond)
		}
		return true
	})
	return out
}

// C20LocalConsts collects `const x = e` declarations and `x := e` definitions of a function body whose
// variable is assigned exactly once (candidates for substitution in C20TranslateExpr).
func C20LocalConsts(body *ast.BlockStmt) map[string]ast.Expr {
	defs := map[string]ast.Expr{}
	count := map[string]int{}
	if body == nil {
		return defs
	}
	ast.Inspect(body, func(n ast.Node) bool {
		switch s := n.(type) {
		case *ast.ValueSpec:
			for i, id := range s.Names {
				if i < len(s.Values) {
					defs[id.Name] = s.Values[i]
					count[id.Name]++
				}
			}
		case *ast.AssignStmt:
			if len(s.Lhs) == 1 && len(s.Rhs) == 1 {
				if id, ok := s.Lhs[0].(*ast.Ident); ok {
					count[id.Name]++
					if s.Tok == token.DEFINE {
						defs[id.Name] = s.Rhs[0]
					}
				}
			} else {
				for _, l := range s.Lhs {
					if id, ok := l.(*ast.Ident); ok {
						count[id.Name] += 2
					}
				}
			}
		case *ast.IncDecStmt:
			if id, ok := s.X.(*ast.Ident); ok {
				count[id.Name] += 2
			}
		}
		return true
	})
	for n, c := range count {
		if c != 1 {
			delete(defs, n)
		}
	}
	return defs
}
