package hc

import (
	"errors"
	"os"
	"strings"
)

// C20Batcher collects (request line, implementation answer) pairs and compares them with the model
// driver in chunks, so that long (thorough) runs do not hold every line in memory.
// Without a driver it keeps accepting pairs (the monitor part of a harness goes on) and Done
// reports ErrNoModel.
type C20Batcher struct {
	c            *Ctx
	lines, impls []string
	size         int
	noModel      bool
	err          error
	// MaxLines / MaxBytes bound one chunk (defaults 20000 lines / 32 MiB of request text).
	MaxLines, MaxBytes int
}

func (c *Ctx) NewC20Batcher() *C20Batcher { return &C20Batcher{c: c, MaxLines: 20000, MaxBytes: 32 << 20} }

// Add queues one comparison: the driver's answer to `line` must equal `impl`.
func (b *C20Batcher) Add(line, impl string) {
	if b.noModel || b.err != nil {
		return
	}
	b.lines = append(b.lines, line)
	b.impls = append(b.impls, impl)
	b.size += len(line)
	if len(b.lines) >= b.MaxLines || b.size >= b.MaxBytes {
		b.Flush()
	}
}

// Flush sends the queued lines to the driver and records agreements / disagreements.
func (b *C20Batcher) Flush() {
	if len(b.lines) == 0 || b.noModel || b.err != nil {
		b.lines, b.impls, b.size = b.lines[:0], b.impls[:0], 0
		return
	}
	if p := os.Getenv("VERIF_DUMP_LINES"); p != "" { // debugging aid: append the request lines to a file
		if f, err := os.OpenFile(p, os.O_APPEND|os.O_CREATE|os.O_WRONLY, 0o644); err == nil {
			_, _ = f.WriteString(strings.Join(b.lines, "\n") + "\n")
			_ = f.Close()
		}
	}
	outs, err := b.c.Drv.Batch(b.lines)
	switch {
	case errors.Is(err, ErrNoModel):
		b.noModel = true
	case err != nil:
		b.err = err
	default:
		for i, o := range outs {
			if b.c.Compare(b.lines[i], b.impls[i], o) {
				b.c.Res.TracesValidated++
			}
		}
	}
	b.lines, b.impls, b.size = b.lines[:0], b.impls[:0], 0
}

// Done flushes and returns what the harness's run function should return.
func (b *C20Batcher) Done() error {
	b.Flush()
	if b.err != nil {
		return b.err
	}
	if b.noModel {
		return ErrNoModel
	}
	return nil
}
