package hc

import (
	"bufio"
	"encoding/hex"
	"errors"
	"fmt"
	"io"
	"os"
	"os/exec"
	"strings"
)

// Driver is a running Lean model driver (one answer line per request line).
type Driver struct {
	cmd *exec.Cmd
	in  *bufio.Writer
	out *bufio.Reader
	wc  io.WriteCloser
	N   int // lines exchanged
}

func StartDriver(path string) (*Driver, error) {
	cmd := exec.Command(path)
	wc, err := cmd.StdinPipe()
	if err != nil {
		return nil, err
	}
	rc, err := cmd.StdoutPipe()
	if err != nil {
		return nil, err
	}
	cmd.Stderr = os.Stderr
	if err := cmd.Start(); err != nil {
		return nil, err
	}
	return &Driver{cmd: cmd, in: bufio.NewWriterSize(wc, 1<<20), out: bufio.NewReaderSize(rc, 1<<20), wc: wc}, nil
}

// Ask sends one line and waits for the answer.
func (d *Driver) Ask(line string) (string, error) {
	r, err := d.Batch([]string{line})
	if err != nil {
		return "", err
	}
	return r[0], nil
}

// Batch sends all lines, then reads as many answers. Lines are written from a goroutine so
// that large batches cannot dead-lock on full pipes.
func (d *Driver) Batch(lines []string) ([]string, error) {
	if d == nil {
		return nil, ErrNoModel
	}
	errc := make(chan error, 1)
	go func() {
		for _, l := range lines {
			if strings.ContainsAny(l, "\n\r") {
				errc <- fmt.Errorf("line contains newline: %q", l)
				return
			}
			if _, err := d.in.WriteString(l); err != nil {
				errc <- err
				return
			}
			if err := d.in.WriteByte('\n'); err != nil {
				errc <- err
				return
			}
		}
		if _, err := d.in.WriteString("#flush\n"); err != nil {
			errc <- err
			return
		}
		errc <- d.in.Flush()
	}()
	out := make([]string, 0, len(lines))
	for range lines {
		s, err := d.out.ReadString('\n')
		if err != nil {
			return out, fmt.Errorf("driver ended after %d of %d answers: %w", len(out), len(lines), err)
		}
		out = append(out, strings.TrimRight(s, "\r\n"))
	}
	if err := <-errc; err != nil {
		return out, err
	}
	d.N += len(lines)
	return out, nil
}

func (d *Driver) Close() {
	if d == nil {
		return
	}
	d.wc.Close()
	d.cmd.Wait()
}

// ErrNoModel is returned when the model driver could not be built; harnesses then run the
// property monitor on the implementation only (search for a failing input).
var ErrNoModel = errors.New("no model driver")

// Hex writes bytes as lower-case hex; empty is "-" (a protocol field is never empty).
func Hex(b []byte) string {
	if len(b) == 0 {
		return "-"
	}
	return hex.EncodeToString(b)
}

func UnHex(s string) ([]byte, error) {
	if s == "-" {
		return nil, nil
	}
	return hex.DecodeString(s)
}
