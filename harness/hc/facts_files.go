package hc

import "go/ast"

// Files returns the parsed non-test, non-hook Go files of a package directory of the repository
// (sorted by file name), for extractors that walk declarations themselves (type declarations,
// string constants, package-level variables).
func (f *Facts) Files(dir string) []*ast.File { return f.sortedFiles(dir) }
