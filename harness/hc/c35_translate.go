// Go -> Lean translation of the two integer routines of telegram/message/entity that the builder
// model of C35/C37 interprets instead of transcribing them: utf16RuneLen and the per-entity body
// of clampEntities.  Built on the expression translator of c36_less.go.
package hc

import (
	"fmt"
	"go/ast"
	"go/token"
	"strconv"
)

// intStmts translates a statement list that returns an integer on every path:
// local const/var declarations, `x := e`, `if c { … return } [else …]`, `return e`.
func (t *tr) intStmts(list []ast.Stmt) (string, error) {
	if len(list) == 0 {
		return "", fmt.Errorf("control reaches the end without a return")
	}
	switch s := list[0].(type) {
	case *ast.DeclStmt:
		gd, ok := s.Decl.(*ast.GenDecl)
		if !ok || (gd.Tok != token.CONST && gd.Tok != token.VAR) {
			return "", fmt.Errorf("unsupported declaration")
		}
		for _, sp := range gd.Specs {
			vs, ok := sp.(*ast.ValueSpec)
			if !ok || len(vs.Values) != len(vs.Names) {
				return "", fmt.Errorf("unsupported declaration")
			}
			for i, n := range vs.Names {
				v, err := t.expr(vs.Values[i])
				if err != nil {
					return "", err
				}
				t.val[n.Name] = lv{"(" + v.s + ")", v.isBool}
			}
		}
		return t.intStmts(list[1:])
	case *ast.AssignStmt:
		if s.Tok != token.DEFINE || len(s.Lhs) != len(s.Rhs) {
			return "", fmt.Errorf("unsupported assignment")
		}
		for k := range s.Lhs {
			id, ok := s.Lhs[k].(*ast.Ident)
			if !ok {
				return "", fmt.Errorf("unsupported assignment target")
			}
			v, err := t.expr(s.Rhs[k])
			if err != nil {
				return "", err
			}
			t.val[id.Name] = lv{"(" + v.s + ")", v.isBool}
		}
		return t.intStmts(list[1:])
	case *ast.ReturnStmt:
		if len(s.Results) != 1 {
			return "", fmt.Errorf("return arity")
		}
		v, err := t.expr(s.Results[0])
		if err != nil || v.isBool {
			return "", fmt.Errorf("unsupported return expression")
		}
		return v.s, nil
	case *ast.IfStmt:
		if s.Init != nil {
			return "", fmt.Errorf("if with init")
		}
		c, err := t.expr(s.Cond)
		if err != nil || !c.isBool {
			return "", fmt.Errorf("unsupported condition")
		}
		th, err := t.intStmts(s.Body.List)
		if err != nil {
			return "", err
		}
		var el string
		switch e := s.Else.(type) {
		case nil:
			el, err = t.intStmts(list[1:])
		case *ast.BlockStmt:
			el, err = t.intStmts(e.List)
		case *ast.IfStmt:
			el, err = t.intStmts([]ast.Stmt{e})
		default:
			err = fmt.Errorf("unsupported else")
		}
		if err != nil {
			return "", err
		}
		return "(if " + c.s + " = true then " + th + " else " + el + ")", nil
	}
	return "", fmt.Errorf("unsupported statement")
}

// C35RuneLenFacts emits `def utf16RuneLen (v : Int) : Int` translated from the source.
func C35RuneLenFacts(f *Facts, dir string) {
	fd := f.FuncDecl(dir, "utf16RuneLen")
	why := "not found"
	if fd != nil && fd.Body != nil && fd.Type.Params != nil && len(fd.Type.Params.List) == 1 && len(fd.Type.Params.List[0].Names) == 1 {
		p := fd.Type.Params.List[0].Names[0].Name
		t := &tr{ent: map[string]string{}, val: map[string]lv{p: {"v", false}}}
		term, err := t.intStmts(fd.Body.List)
		if err == nil {
			f.Raw("-- `utf16RuneLen(v rune) int`, translated from: " + oneLine(f.Src(fd.Body)))
			f.Raw("def utf16RuneLen (v : Int) : Int := " + term)
			return
		}
		why = err.Error()
	}
	f.Raw("def utf16RuneLen (v : Int) : Int := missing_fact_utf16RuneLen -- utf16RuneLen: " + why)
}

// C35ClampFacts symbolically executes the body of `for idx, e := range entities` in clampEntities
// for one entity with fields (off, len) and emits its final Offset and Length as Lean terms over
// `total off len`.  Supported: `x, y := …`, `x = …`, `if c { … }` without else,
// `setOffset(idx, X, entities)`, `setLength(idx, X, entities)`; `e.GetOffset()`/`e.GetLength()`
// read the CURRENT field (the entity is a pointer).
func C35ClampFacts(f *Facts, dir string) {
	emitMissing := func(why string) {
		f.Raw("def clampOff (total off len : Int) : Int := missing_fact_clampOff -- clampEntities: " + why)
		f.Raw("def clampLen (total off len : Int) : Int := missing_fact_clampLen -- clampEntities: " + why)
	}
	fd := f.FuncDecl(dir, "clampEntities")
	if fd == nil || fd.Body == nil || len(fd.Body.List) != 1 || fd.Type.Params == nil {
		emitMissing("not found or not a single loop")
		return
	}
	var params []string
	for _, p := range fd.Type.Params.List {
		for _, n := range p.Names {
			params = append(params, n.Name)
		}
	}
	rs, ok := fd.Body.List[0].(*ast.RangeStmt)
	if !ok || len(params) != 2 {
		emitMissing("body is not `for idx, e := range entities`")
		return
	}
	totalName, sliceName := params[0], params[1]
	idx, okI := rs.Key.(*ast.Ident)
	ev, okE := rs.Value.(*ast.Ident)
	rx, okX := rs.X.(*ast.Ident)
	if !okI || !okE || !okX || rx.Name != sliceName {
		emitMissing("unsupported range clause")
		return
	}
	type state map[string]lv
	const fOff, fLen = "\x00Off", "\x00Len"
	st := state{totalName: {"total", false}, fOff: {"off", false}, fLen: {"len", false}}
	var exec func(st state, list []ast.Stmt) error
	evalIn := func(st state, x ast.Expr) (lv, error) {
		t := &tr{ent: map[string]string{}, val: map[string]lv{}}
		for k, v := range st {
			t.val[k] = v
		}
		// e.GetOffset() / e.GetLength(): current field values
		t.getters = map[string]map[string]lv{ev.Name: {"GetOffset": st[fOff], "GetLength": st[fLen]}}
		return t.expr(x)
	}
	exec = func(st state, list []ast.Stmt) error {
		for _, s := range list {
			switch s := s.(type) {
			case *ast.AssignStmt:
				if (s.Tok != token.DEFINE && s.Tok != token.ASSIGN) || len(s.Lhs) != len(s.Rhs) {
					return fmt.Errorf("unsupported assignment")
				}
				vals := make([]lv, len(s.Rhs))
				for k := range s.Rhs {
					v, err := evalIn(st, s.Rhs[k])
					if err != nil {
						return err
					}
					vals[k] = lv{"(" + v.s + ")", v.isBool}
				}
				for k := range s.Lhs {
					id, ok := s.Lhs[k].(*ast.Ident)
					if !ok {
						return fmt.Errorf("unsupported assignment target")
					}
					st[id.Name] = vals[k]
				}
			case *ast.ExprStmt:
				c, ok := s.X.(*ast.CallExpr)
				if !ok || len(c.Args) != 3 {
					return fmt.Errorf("unsupported call")
				}
				fn, ok1 := c.Fun.(*ast.Ident)
				a0, ok2 := c.Args[0].(*ast.Ident)
				a2, ok3 := c.Args[2].(*ast.Ident)
				if !ok1 || !ok2 || !ok3 || a0.Name != idx.Name || a2.Name != sliceName {
					return fmt.Errorf("unsupported call")
				}
				v, err := evalIn(st, c.Args[1])
				if err != nil || v.isBool {
					return fmt.Errorf("unsupported setter argument")
				}
				switch fn.Name {
				case "setOffset":
					st[fOff] = lv{"(" + v.s + ")", false}
				case "setLength":
					st[fLen] = lv{"(" + v.s + ")", false}
				default:
					return fmt.Errorf("unsupported call " + fn.Name)
				}
			case *ast.IfStmt:
				if s.Init != nil || s.Else != nil {
					return fmt.Errorf("unsupported if")
				}
				c, err := evalIn(st, s.Cond)
				if err != nil || !c.isBool {
					return fmt.Errorf("unsupported condition")
				}
				br := state{}
				for k, v := range st {
					br[k] = v
				}
				if err := exec(br, s.Body.List); err != nil {
					return err
				}
				for k, v := range br {
					old, had := st[k]
					if !had {
						continue // variable local to the branch
					}
					if old.s != v.s {
						st[k] = lv{"(if " + c.s + " = true then " + v.s + " else " + old.s + ")", v.isBool}
					}
				}
			default:
				return fmt.Errorf("unsupported statement")
			}
		}
		return nil
	}
	if err := exec(st, rs.Body.List); err != nil {
		emitMissing(err.Error())
		return
	}
	f.Raw("-- one iteration of `for idx, e := range entities` in clampEntities(total, entities), translated from: " + oneLine(f.Src(rs.Body)))
	f.Raw("def clampOff (total off len : Int) : Int := " + st[fOff].s)
	f.Raw("def clampLen (total off len : Int) : Int := " + st[fLen].s)
}

func charLit(x *ast.BasicLit) (string, bool) {
	if x.Kind != token.CHAR {
		return "", false
	}
	s, err := strconv.Unquote(x.Value)
	if err != nil {
		return "", false
	}
	r := []rune(s)
	if len(r) != 1 {
		return "", false
	}
	return "(" + strconv.Itoa(int(r[0])) + " : Int)", true
}
