package hc

import "go/ast"

// C20Files returns the parsed non-test, non-hook Go files of a package directory of the repository
// (sorted by file name), for extractors that walk declarations themselves (type declarations,
// string constants, package-level variables).
func (f *Facts) C20Files(dir string) []*ast.File { return f.sortedFiles(dir) }
