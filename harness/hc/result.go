package hc

import (
	"encoding/json"
	"errors"
	"flag"
	"fmt"
	"os"
	"sort"
	"strconv"
	"sync"
	"time"
)

// Disagreement is one input on which model and implementation differ.
type Disagreement struct {
	Input string `json:"input"`
	Impl  string `json:"impl"`
	Model string `json:"model"`
	Note  string `json:"note,omitempty"`
}

// Failure is one input on which the implementation itself violates the property
// (decided by the property monitor, independent of the model).
type Failure struct {
	Key    string `json:"key"`    // stable class of the failure (matched against KNOWN_FINDINGS.json)
	Input  string `json:"input"`  // concrete replayable input / history / schedule
	Detail string `json:"detail"` // what was observed
}

// Result is what a property harness reports to ./check.
type Result struct {
	Property           string         `json:"property"`
	Tier               string         `json:"tier"`
	Seed               uint64         `json:"seed"`
	Evaluations        int            `json:"evaluations"`
	DistinctNontrivial int            `json:"distinct_nontrivial"`
	Rule               string         `json:"rule"`
	Samples            []string       `json:"samples"`
	TracesValidated    int            `json:"traces_validated_against_impl"`
	Exhaustive         bool           `json:"exhaustive,omitempty"`
	Dist               map[string]int `json:"distribution"`
	Disagreements      []Disagreement `json:"disagreements"`
	DisagreementCount  int            `json:"disagreement_count"`
	Failures           []Failure      `json:"failures"`
	FailureCount       int            `json:"failure_count"`
	Notes              []string       `json:"notes"`
	Partial            []string       `json:"partial,omitempty"`
	HarnessError       string         `json:"harness_error,omitempty"`
	WallS              float64        `json:"wall_s"`
}

// Ctx is handed to a property's run function.
type Ctx struct {
	Prop   string
	Tier   string
	Seed   uint64
	Rng    *RNG
	Drv    *Driver
	Repo   string
	Replay string // non-empty: replay this input only
	Res    *Result

	mu       sync.Mutex
	distinct map[string]struct{}
	perKey   map[string]int
}

func (c *Ctx) Thorough() bool { return c.Tier == "thorough" }

// N picks the case count for the tier.
func (c *Ctx) N(quick, thorough int) int {
	if c.Thorough() {
		return thorough
	}
	return quick
}

// Count bumps a distribution counter.
func (c *Ctx) Count(key string) {
	c.mu.Lock()
	c.Res.Dist[key]++
	c.mu.Unlock()
}

// Eval records one evaluated case; `sig` identifies it for distinctness and nontrivial says
// whether it is non-trivial by the property's stated rule.
func (c *Ctx) Eval(sig string, nontrivial bool) {
	c.mu.Lock()
	c.Res.Evaluations++
	if nontrivial {
		if _, ok := c.distinct[sig]; !ok {
			if len(c.distinct) < 2_000_000 {
				c.distinct[sig] = struct{}{}
			}
			c.Res.DistinctNontrivial++
		}
	}
	if len(c.Res.Samples) < 8 && (nontrivial || c.Res.Evaluations < 3) {
		s := sig
		if len(s) > 400 {
			s = s[:400] + "…"
		}
		c.Res.Samples = append(c.Res.Samples, s)
	}
	c.mu.Unlock()
}

// Differ records a model/implementation disagreement.
func (c *Ctx) Differ(input, impl, model, note string) {
	c.mu.Lock()
	c.Res.DisagreementCount++
	if len(c.Res.Disagreements) < 10 {
		c.Res.Disagreements = append(c.Res.Disagreements, Disagreement{clip(input), clip(impl), clip(model), note})
	}
	c.mu.Unlock()
}

// Compare records a disagreement when impl != model; returns whether they agree.
func (c *Ctx) Compare(input, impl, model string) bool {
	if impl == model {
		return true
	}
	c.Differ(input, impl, model, "")
	return false
}

// Fail records a property violation observed on the implementation.
func (c *Ctx) Fail(key, input, detail string) {
	c.mu.Lock()
	c.Res.FailureCount++
	// keep the first 3 failures of every key (at most 60 in all), so that a frequent failure
	// class (e.g. a known finding) cannot crowd a different one out of the report
	if c.perKey == nil {
		c.perKey = map[string]int{}
	}
	if c.perKey[key] < 3 && len(c.Res.Failures) < 60 {
		c.perKey[key]++
		c.Res.Failures = append(c.Res.Failures, Failure{key, clip(input), clip(detail)})
	}
	c.mu.Unlock()
}

func (c *Ctx) Note(format string, a ...any) {
	c.mu.Lock()
	c.Res.Notes = append(c.Res.Notes, fmt.Sprintf(format, a...))
	c.mu.Unlock()
}

func (c *Ctx) PartialNote(s string) { c.Res.Partial = append(c.Res.Partial, s) }

func clip(s string) string {
	if len(s) > 20000 {
		return s[:20000] + "…(clipped)"
	}
	return s
}

// Spec describes one property harness.
type Spec struct {
	Prop  string
	Facts func(f *Facts) // may be nil
	Run   func(c *Ctx) error
}

// Main is the entry point of every harness binary:
//
//	cXX facts -out FILE            regenerate Lean facts from $VERIF_REPO (default /repo)
//	cXX run -tier T -seed N -driver PATH -out FILE [-replay INPUT]
func Main(spec Spec) {
	if len(os.Args) < 2 {
		fmt.Fprintln(os.Stderr, "usage: facts|run ...")
		os.Exit(2)
	}
	repo := os.Getenv("VERIF_REPO")
	if repo == "" {
		repo = "/repo"
	}
	switch os.Args[1] {
	case "facts":
		fs := flag.NewFlagSet("facts", flag.ExitOnError)
		out := fs.String("out", "", "output .lean file")
		fs.Parse(os.Args[2:])
		f := NewFacts(spec.Prop, repo)
		if spec.Facts != nil {
			spec.Facts(f)
		}
		if err := f.Write(*out); err != nil {
			fmt.Fprintln(os.Stderr, "facts:", err)
			os.Exit(2)
		}
	case "run":
		fs := flag.NewFlagSet("run", flag.ExitOnError)
		tier := fs.String("tier", "quick", "")
		seed := fs.String("seed", "1", "")
		drv := fs.String("driver", "", "")
		out := fs.String("out", "", "")
		replay := fs.String("replay", "", "")
		fs.Parse(os.Args[2:])
		sd, _ := strconv.ParseUint(*seed, 10, 64)
		res := &Result{Property: spec.Prop, Tier: *tier, Seed: sd, Dist: map[string]int{},
			Samples: []string{}, Disagreements: []Disagreement{}, Failures: []Failure{}, Notes: []string{}}
		c := &Ctx{Prop: spec.Prop, Tier: *tier, Seed: sd, Rng: NewRNG(sd), Repo: repo, Replay: *replay, Res: res,
			distinct: map[string]struct{}{}}
		start := time.Now()
		if *drv != "" {
			d, err := StartDriver(*drv)
			if err != nil {
				res.HarnessError = "start driver: " + err.Error()
			}
			c.Drv = d
		}
		if res.HarnessError == "" {
			func() {
				defer func() {
					if r := recover(); r != nil {
						res.HarnessError = fmt.Sprintf("harness panic: %v", r)
					}
				}()
				if err := spec.Run(c); err != nil {
					if errors.Is(err, ErrNoModel) {
						c.Note("model driver unavailable: implementation-only monitor run")
					} else {
						res.HarnessError = err.Error()
					}
				}
			}()
		}
		c.Drv.Close()
		res.WallS = time.Since(start).Seconds()
		sort.Strings(res.Notes)
		b, _ := json.MarshalIndent(res, "", " ")
		if *out == "" {
			os.Stdout.Write(b)
		} else if err := os.WriteFile(*out, b, 0o644); err != nil {
			fmt.Fprintln(os.Stderr, err)
			os.Exit(2)
		}
	default:
		fmt.Fprintln(os.Stderr, "unknown subcommand")
		os.Exit(2)
	}
}
