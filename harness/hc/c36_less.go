// Translator of the body of entity.entitySorter.Less into a Lean term (used by the C36 facts,
// and by C35/C37 whose builder models sort with the same regenerated comparator).
package hc

import (
	"fmt"
	"go/ast"
	"go/token"
	"strings"
)

type tr struct {
	recv, i, j string
	ent        map[string]string        // Go variable -> "a" | "b"
	val        map[string]lv            // Go variable -> translated expression
	getters    map[string]map[string]lv // Go variable -> zero-argument method -> value (c35_translate.go)
}

type lv struct {
	s      string
	isBool bool
}

func (t *tr) expr(x ast.Expr) (lv, error) {
	switch x := x.(type) {
	case *ast.ParenExpr:
		v, err := t.expr(x.X)
		return lv{"(" + v.s + ")", v.isBool}, err
	case *ast.BasicLit:
		if x.Kind == token.INT {
			return lv{"(" + x.Value + " : Int)", false}, nil
		}
		if s, ok := charLit(x); ok {
			return lv{s, false}, nil
		}
	case *ast.Ident:
		if v, ok := t.val[x.Name]; ok {
			return v, nil
		}
		switch x.Name {
		case "true":
			return lv{"true", true}, nil
		case "false":
			return lv{"false", true}, nil
		}
	case *ast.UnaryExpr:
		v, err := t.expr(x.X)
		if err != nil {
			return lv{}, err
		}
		switch {
		case x.Op == token.NOT && v.isBool:
			return lv{"(!" + v.s + ")", true}, nil
		case x.Op == token.SUB && !v.isBool:
			return lv{"(-" + v.s + ")", false}, nil
		}
	case *ast.CallExpr:
		// a.GetOffset() / a.GetLength() on one of the two compared entities
		sel, ok := x.Fun.(*ast.SelectorExpr)
		if ok && len(x.Args) == 0 {
			if id, ok := sel.X.(*ast.Ident); ok {
				if g, ok := t.getters[id.Name]; ok {
					if v, ok := g[sel.Sel.Name]; ok {
						return v, nil
					}
				}
				if who, ok := t.ent[id.Name]; ok {
					switch sel.Sel.Name {
					case "GetOffset":
						return lv{who + "Off", false}, nil
					case "GetLength":
						return lv{who + "Len", false}, nil
					}
				}
			}
		}
	case *ast.BinaryExpr:
		a, err := t.expr(x.X)
		if err != nil {
			return lv{}, err
		}
		b, err := t.expr(x.Y)
		if err != nil {
			return lv{}, err
		}
		switch x.Op {
		case token.LOR, token.LAND:
			if a.isBool && b.isBool {
				op := "||"
				if x.Op == token.LAND {
					op = "&&"
				}
				return lv{"(" + a.s + " " + op + " " + b.s + ")", true}, nil
			}
		case token.LSS, token.GTR, token.LEQ, token.GEQ, token.EQL, token.NEQ:
			if !a.isBool && !b.isBool {
				op := map[token.Token]string{token.LSS: "<", token.GTR: ">", token.LEQ: "≤", token.GEQ: "≥", token.EQL: "=", token.NEQ: "≠"}[x.Op]
				return lv{"decide (" + a.s + " " + op + " " + b.s + ")", true}, nil
			}
			if a.isBool && b.isBool && (x.Op == token.EQL || x.Op == token.NEQ) {
				op := "=="
				if x.Op == token.NEQ {
					op = "!="
				}
				return lv{"(" + a.s + " " + op + " " + b.s + ")", true}, nil
			}
		case token.ADD, token.SUB:
			if !a.isBool && !b.isBool {
				return lv{"(" + a.s + " " + x.Op.String() + " " + b.s + ")", false}, nil
			}
		}
	}
	return lv{}, fmt.Errorf("unsupported expression")
}

func (t *tr) stmts(list []ast.Stmt) (string, error) {
	if len(list) == 0 {
		return "", fmt.Errorf("control reaches the end without a return")
	}
	switch s := list[0].(type) {
	case *ast.ReturnStmt:
		if len(s.Results) != 1 {
			return "", fmt.Errorf("return arity")
		}
		v, err := t.expr(s.Results[0])
		if err != nil || !v.isBool {
			return "", fmt.Errorf("unsupported return expression")
		}
		return v.s, nil
	case *ast.AssignStmt:
		if s.Tok != token.DEFINE || len(s.Lhs) != len(s.Rhs) {
			return "", fmt.Errorf("unsupported assignment")
		}
		for k := range s.Lhs {
			id, ok := s.Lhs[k].(*ast.Ident)
			if !ok {
				return "", fmt.Errorf("unsupported assignment target")
			}
			if ix, ok := s.Rhs[k].(*ast.IndexExpr); ok {
				base, ok1 := ix.X.(*ast.Ident)
				idx, ok2 := ix.Index.(*ast.Ident)
				if ok1 && ok2 && base.Name == t.recv && (idx.Name == t.i || idx.Name == t.j) {
					if idx.Name == t.i {
						t.ent[id.Name] = "a"
					} else {
						t.ent[id.Name] = "b"
					}
					continue
				}
				return "", fmt.Errorf("unsupported index expression")
			}
			v, err := t.expr(s.Rhs[k])
			if err != nil {
				return "", err
			}
			t.val[id.Name] = lv{"(" + v.s + ")", v.isBool}
		}
		return t.stmts(list[1:])
	case *ast.IfStmt:
		if s.Init != nil {
			return "", fmt.Errorf("if with init")
		}
		c, err := t.expr(s.Cond)
		if err != nil || !c.isBool {
			return "", fmt.Errorf("unsupported condition")
		}
		th, err := t.stmts(s.Body.List)
		if err != nil {
			return "", err
		}
		var el string
		switch e := s.Else.(type) {
		case nil:
			el, err = t.stmts(list[1:])
		case *ast.BlockStmt:
			el, err = t.stmts(e.List)
		case *ast.IfStmt:
			el, err = t.stmts([]ast.Stmt{e})
		default:
			err = fmt.Errorf("unsupported else")
		}
		if err != nil {
			return "", err
		}
		return "(if " + c.s + " = true then " + th + " else " + el + ")", nil
	}
	return "", fmt.Errorf("unsupported statement")
}

// C36LessTerm translates `entitySorter.Less` of package directory dir into a Lean Bool term over
// `aOff aLen bOff bLen : Int` (a = e[i], b = e[j]).  ok is false when the function is missing or
// uses a construct outside if / return / := / && || ! / integer comparisons / + - / GetOffset() /
// GetLength(); src is the canonical one-line source of the body.
func C36LessTerm(f *Facts, dir string) (term, src string, ok bool) {
	fd := f.FuncDecl(dir, "entitySorter.Less")
	if fd == nil || fd.Body == nil || fd.Recv == nil || len(fd.Recv.List) != 1 || len(fd.Recv.List[0].Names) != 1 {
		return "", "", false
	}
	src = strings.Join(strings.Fields(f.Src(fd.Body)), " ")
	var params []string
	for _, p := range fd.Type.Params.List {
		for _, n := range p.Names {
			params = append(params, n.Name)
		}
	}
	if len(params) != 2 {
		return "", src, false
	}
	t := &tr{recv: fd.Recv.List[0].Names[0].Name, i: params[0], j: params[1], ent: map[string]string{}, val: map[string]lv{}}
	term, err := t.stmts(fd.Body.List)
	if err != nil {
		return err.Error(), src, false
	}
	return term, src, true
}

// C36PinnedLessSrc is the body of entitySorter.Less on the pinned tree (defect D8).
const C36PinnedLessSrc = "{ a, b := e[i], e[j] return a.GetOffset() < b.GetOffset() || a.GetLength() > b.GetLength() }"

// C36LessFacts emits `def less (aOff aLen bOff bLen : Int) : Bool` (ill-typed when untranslatable).
func C36LessFacts(f *Facts, dir string) {
	term, src, ok := C36LessTerm(f, dir)
	if ok {
		f.Raw("-- `entitySorter.Less(i, j)` with a = e[i], b = e[j]; translated from: " + src)
		f.Raw("def less (aOff aLen bOff bLen : Int) : Bool := " + term)
	} else {
		f.Raw("-- entitySorter.Less could not be translated: " + term)
		f.Raw("def less (aOff aLen bOff bLen : Int) : Bool := missing_fact_less -- entitySorter.Less not found or not translatable")
	}
	f.Str("lessSrc", src, "source of the comparator")
	f.Bool("lessIsPinned", src == C36PinnedLessSrc, "the comparator is the pinned tree's expression (defect D8, known finding)")
}
