// C01 — sequenced updates reach the handler in order and at most once.
//
// Correspondence: the real updates.sequenceBox (hook H1, /repo/telegram/updates/verif_export_c01.go)
// against TdModel.C01 on random and enumerated op histories; state, gaps, pending, timer flag and
// apply events are compared after EVERY op.  Monitor: the property (`holds`, at-most-once) decided
// in Go on the implementation's own observations.
package main

import (
	"fmt"
	"go/ast"
	"go/parser"
	"go/token"
	"os"
	"path/filepath"
	"sort"
	"strconv"
	"strings"
	"time"

	"github.com/gotd/td/telegram/updates"

	"verif/harness/c02/mgr"
	"verif/harness/hc"
)

func main() {
	hc.Main(hc.Spec{Prop: "C01", Facts: facts, Run: run})
}

const pkgDir = "telegram/updates"

// ---------------------------------------------------------------------------------------------
// facts

// parseDir parses the non-test, non-hook Go files of a package directory (sorted by name).
func parseDir(repo, dir string) []*ast.File {
	ents, _ := os.ReadDir(filepath.Join(repo, dir))
	var out []*ast.File
	fset := token.NewFileSet()
	for _, e := range ents {
		n := e.Name()
		if e.IsDir() || !strings.HasSuffix(n, ".go") || strings.HasSuffix(n, "_test.go") || strings.HasPrefix(n, "verif_") {
			continue
		}
		if af, err := parser.ParseFile(fset, filepath.Join(repo, dir, n), nil, 0); err == nil {
			out = append(out, af)
		}
	}
	return out
}

func recvName(fd *ast.FuncDecl) string {
	if fd.Recv == nil || len(fd.Recv.List) == 0 {
		return ""
	}
	t := fd.Recv.List[0].Type
	if s, ok := t.(*ast.StarExpr); ok {
		t = s.X
	}
	if id, ok := t.(*ast.Ident); ok {
		return id.Name
	}
	return ""
}

func leanStrList(xs []string) string {
	q := make([]string, len(xs))
	for i, x := range xs {
		q[i] = strconv.Quote(x)
	}
	return "[" + strings.Join(q, ", ") + "]"
}

func facts(f *hc.Facts) {
	f.Const("gapApply", pkgDir, "gapApply")
	f.Const("gapIgnore", pkgDir, "gapIgnore")
	f.Const("gapRefetch", pkgDir, "gapRefetch")
	f.Const("fastgapTimeoutNs", pkgDir, "fastgapTimeout")
	// updates.checkGap, translated from its Go source by the shared Go→Lean translator.
	f.TranslateFuncs(pkgDir, "checkGapCode", "checkGap")
	// The control structure of Handle / applyPending / Consume as programs the model interprets.
	progFacts(f)

	// Ownership: which functions outside the methods of sequenceBox/gapBuffer touch the box's
	// fields (state, gaps, pending, gapTimeout) through a `.pts/.qts/.seq` box, and which functions
	// that are not methods of internalState/channelState mention a `.pts/.qts/.seq` selector at all.
	boxFields := map[string]bool{"state": true, "gaps": true, "pending": true, "gapTimeout": true, "apply": true}
	boxNames := map[string]bool{"pts": true, "qts": true, "seq": true}
	var foreignBoxField, foreignBoxRef []string
	files := parseDir(f.Repo, pkgDir)
	for _, af := range files {
		for _, d := range af.Decls {
			fd, ok := d.(*ast.FuncDecl)
			if !ok || fd.Body == nil {
				continue
			}
			rn := recvName(fd)
			fn := fd.Name.Name
			if rn != "" {
				fn = rn + "." + fn
			}
			ast.Inspect(fd.Body, func(n ast.Node) bool {
				sel, ok := n.(*ast.SelectorExpr)
				if !ok {
					return true
				}
				// X.<box>.<field>  (X.pts.gaps, X.pts.pending, …)
				if inner, ok := sel.X.(*ast.SelectorExpr); ok && boxNames[inner.Sel.Name] && boxFields[sel.Sel.Name] {
					foreignBoxField = append(foreignBoxField, fn+":"+inner.Sel.Name+"."+sel.Sel.Name)
				}
				// <recv>.<box> used outside the owning structs' methods
				if boxNames[sel.Sel.Name] && rn != "internalState" && rn != "channelState" {
					if _, isSel := sel.X.(*ast.Ident); isSel {
						foreignBoxRef = append(foreignBoxRef, fn+":"+sel.Sel.Name)
					}
				}
				return true
			})
		}
	}
	sort.Strings(foreignBoxField)
	sort.Strings(foreignBoxRef)
	f.Raw("/-- accesses to fields of a pts/qts/seq sequenceBox from outside sequenceBox's own methods -/")
	f.Raw("def boxFieldAccesses : List String := " + leanStrList(foreignBoxField))
	f.Raw("/-- `.pts/.qts/.seq` selectors in functions that are not methods of internalState/channelState -/")
	f.Raw("def boxRefsOutsideOwners : List String := " + leanStrList(foreignBoxRef))

	// The marker skip in the conversion loops of the two applyPts callbacks (0 = continue).
	mgr.SkipFacts(f)

	// The apply callbacks of the pts/qts/channel boxes never return a non-nil error.
	for _, fn := range []struct{ lean, name string }{
		{"applyPtsReturnsNilOnly", "internalState.applyPts"},
		{"applyQtsReturnsNilOnly", "internalState.applyQts"},
		{"channelApplyPtsReturnsNilOnly", "channelState.applyPts"},
	} {
		fd := f.FuncDecl(pkgDir, fn.name)
		if fd == nil {
			f.Missing(fn.lean, fn.name+" not found")
			continue
		}
		only := true
		n := 0
		ast.Inspect(fd.Body, func(nd ast.Node) bool {
			if _, ok := nd.(*ast.FuncLit); ok {
				return false
			}
			if r, ok := nd.(*ast.ReturnStmt); ok {
				n++
				if len(r.Results) != 1 {
					only = false
				} else if id, ok := r.Results[0].(*ast.Ident); !ok || id.Name != "nil" {
					only = false
				}
			}
			return true
		})
		f.Bool(fn.lean, only && n > 0, fmt.Sprintf("%s: %d return statements", fn.name, n))
	}
}

// ---------------------------------------------------------------------------------------------
// histories

type upd = updates.VerifC01Update

type op struct {
	kind byte // 'h' handle, 's' setState, 'c' clearGaps, 'a' applyPending
	u    upd
	ok   bool
	x    int
}

func (o op) String() string {
	b := 0
	if o.ok {
		b = 1
	}
	switch o.kind {
	case 'h':
		return fmt.Sprintf("h:%d:%d:%d:%d", o.u.State, o.u.Count, o.u.Tag, b)
	case 's':
		return fmt.Sprintf("s:%d", o.x)
	case 'a':
		return fmt.Sprintf("a:%d", b)
	}
	return "c"
}

type history struct {
	s0      int
	gaps    [][2]int
	pending []upd
	ops     []op
}

func fmtUpds(us []upd) string {
	if len(us) == 0 {
		return "_"
	}
	p := make([]string, len(us))
	for i, u := range us {
		p[i] = fmt.Sprintf("%d:%d:%d", u.State, u.Count, u.Tag)
	}
	return strings.Join(p, ",")
}

func fmtGaps(gs [][2]int) string {
	if len(gs) == 0 {
		return "_"
	}
	p := make([]string, len(gs))
	for i, g := range gs {
		p[i] = fmt.Sprintf("%d:%d", g[0], g[1])
	}
	return strings.Join(p, ",")
}

func (h history) line() string {
	w := []string{"box", strconv.Itoa(h.s0), fmtGaps(h.gaps), fmtUpds(h.pending)}
	for _, o := range h.ops {
		w = append(w, o.String())
	}
	return strings.Join(w, " ")
}

type event struct {
	apply bool
	ns    int
	us    []upd
	ok    bool
	x     int
}

func fmtEvents(es []event) string {
	if len(es) == 0 {
		return "_"
	}
	p := make([]string, len(es))
	for i, e := range es {
		if e.apply {
			b := 0
			if e.ok {
				b = 1
			}
			p[i] = fmt.Sprintf("A%d;%d;%s", e.ns, b, fmtUpds(e.us))
		} else {
			p[i] = fmt.Sprintf("S%d", e.x)
		}
	}
	return strings.Join(p, "+")
}

type opObs struct {
	state   int
	gaps    [][2]int
	pending []upd
	armed   bool
	events  []event
	err     bool
	panicV  any
}

// runImpl drives the real sequenceBox.
func runImpl(h history) (obs []opObs, dur time.Duration) {
	var cur []event
	okNow := true
	box := updates.VerifC01NewBox(h.s0, h.gaps, h.pending, func(state int, us []upd) error {
		cur = append(cur, event{apply: true, ns: state, us: append([]upd(nil), us...), ok: okNow})
		if !okNow {
			return fmt.Errorf("apply failed")
		}
		return nil
	})
	t0 := time.Now()
	for _, o := range h.ops {
		cur = nil
		okNow = o.ok
		var o1 opObs
		func() {
			defer func() {
				if r := recover(); r != nil {
					o1.panicV = r
				}
			}()
			switch o.kind {
			case 'h':
				o1.err = box.Handle(o.u) != nil
			case 's':
				box.SetState(o.x)
				cur = append(cur, event{x: o.x})
			case 'c':
				box.ClearGaps()
			case 'a':
				o1.err = box.ApplyPending() != nil
			}
		}()
		o1.state, o1.gaps, o1.pending, o1.armed = box.Snapshot()
		if o1.state != box.State() {
			o1.panicV = "State() differs from the state field"
		}
		o1.events = cur
		obs = append(obs, o1)
	}
	return obs, time.Since(t0)
}

func implLine(obs []opObs, withTimer bool) string {
	segs := make([]string, len(obs))
	for i, o := range obs {
		t := "?"
		if withTimer {
			t = "0"
			if o.armed {
				t = "1"
			}
		}
		segs[i] = fmt.Sprintf("%d|%s|%s|%s|%s", o.state, fmtGaps(o.gaps), fmtUpds(o.pending), t, fmtEvents(o.events))
	}
	return strings.Join(segs, " ")
}

func obsLine(s0 int, obs []opObs) string {
	w := []string{"holds", strconv.Itoa(s0)}
	for _, o := range obs {
		w = append(w, fmt.Sprintf("%d|%s", o.state, fmtEvents(o.events)))
	}
	return strings.Join(w, " ")
}

// monitor decides the property on the implementation's observation (no model involved).
// It returns (holds, monotone-diffs, ordered-ranges, detail).
func monitor(s0 int, obs []opObs) (holds, mono, ordered bool, detail string) {
	holds, mono, ordered = true, true, true
	cur := s0
	var delivered []upd
	for i, o := range obs {
		for _, e := range o.events {
			if !e.apply {
				if e.x < cur {
					mono = false
				}
				cur = e.x
				continue
			}
			c := cur
			if len(e.us) == 0 {
				holds, detail = false, fmt.Sprintf("op %d: apply callback with an empty batch", i)
			}
			for _, u := range e.us {
				if u.State != 0 && c+u.Count != u.State {
					holds = false
					if detail == "" {
						detail = fmt.Sprintf("op %d: update (state %d, count %d) applied at cursor %d", i, u.State, u.Count, c)
					}
				}
				c = u.State
			}
			if c != e.ns && detail == "" {
				holds, detail = false, fmt.Sprintf("op %d: callback state %d but batch ends at %d", i, e.ns, c)
			}
			if e.ok {
				cur = c
				delivered = append(delivered, e.us...)
			}
		}
		if o.state != cur {
			holds = false
			if detail == "" {
				detail = fmt.Sprintf("op %d: State() = %d but the cursor of delivered updates/differences is %d", i, o.state, cur)
			}
		}
	}
	for i := range delivered {
		for j := i + 1; j < len(delivered); j++ {
			if delivered[i].State > delivered[j].State-delivered[j].Count {
				ordered = false
				if detail == "" {
					detail = fmt.Sprintf("update tag %d (..%d] delivered before tag %d (%d..%d]: overlap or out of order",
						delivered[i].Tag, delivered[i].State, delivered[j].Tag, delivered[j].State-delivered[j].Count, delivered[j].State)
				}
			}
		}
	}
	return
}

func b2s(b bool) string {
	if b {
		return "1"
	}
	return "0"
}

// genHistory builds a delivery history of a contiguous server log with loss, duplication,
// reordering, overlapping multi-count updates, State=0, differences and direct applyPending.
func genHistory(r *hc.RNG, tag *int) history {
	var h history
	h.s0 = hc.Pick(r, 0, 1, 3, 5, 10, r.Range(0, 12))
	next := func() int { *tag++; return *tag }
	if r.Chance(8) { // arbitrary (possibly unreachable) starting box
		for i, n := 0, r.Range(0, 3); i < n; i++ {
			a := r.Range(h.s0-2, h.s0+10)
			h.gaps = append(h.gaps, [2]int{a, a + r.Range(0, 4)})
		}
		for i, n := 0, r.Range(0, 4); i < n; i++ {
			h.pending = append(h.pending, upd{State: r.Range(h.s0-2, h.s0+12), Count: r.Range(0, 3), Tag: next()})
		}
	}
	// server log: contiguous updates above s0
	type lu struct{ state, count int }
	var log []lu
	pos := h.s0
	for i, n := 0, r.Range(3, 14); i < n; i++ {
		c := hc.Pick(r, 1, 1, 1, 1, 2, 3, 4, 0)
		pos += c
		log = append(log, lu{pos, c})
	}
	inOrder := r.Range(10, 70) // percentage of in-order deliveries for this history
	idx := 0
	failPct := hc.Pick(r, 0, 0, 0, 0, 5)
	n := r.Range(1, 16)
	for len(h.ops) < n {
		ok := !r.Chance(failPct)
		switch {
		case r.Chance(inOrder) && idx < len(log):
			h.ops = append(h.ops, op{kind: 'h', u: upd{log[idx].state, log[idx].count, next()}, ok: ok})
			idx++
		case r.Chance(35) && idx < len(log): // loss: skip 1..3 log entries, deliver a later one
			j := idx + r.Range(1, 3)
			if j >= len(log) {
				j = len(log) - 1
			}
			h.ops = append(h.ops, op{kind: 'h', u: upd{log[j].state, log[j].count, next()}, ok: ok})
			if r.Chance(40) {
				idx = j + 1
			}
		case r.Chance(40) && len(log) > 0: // duplicate / late arrival of any log entry
			j := r.Intn(len(log))
			h.ops = append(h.ops, op{kind: 'h', u: upd{log[j].state, log[j].count, next()}, ok: ok})
		case r.Chance(30): // overlapping / arbitrary update
			st := r.Range(h.s0-3, pos+3)
			h.ops = append(h.ops, op{kind: 'h', u: upd{st, hc.Pick(r, 0, 1, 2, 3, 4, 7, -1), next()}, ok: ok})
		case r.Chance(10): // "no position" update
			h.ops = append(h.ops, op{kind: 'h', u: upd{0, hc.Pick(r, 0, 1, 2), next()}, ok: ok})
		case r.Chance(40): // a fetched difference: clear gaps, (other updates), set state
			h.ops = append(h.ops, op{kind: 'c'})
			x := pos
			if idx < len(log) {
				x = log[r.Range(idx, len(log)-1)].state
			}
			if r.Chance(10) {
				x = r.Range(h.s0-2, pos)
			}
			if r.Chance(30) && len(log) > 0 {
				j := r.Intn(len(log))
				h.ops = append(h.ops, op{kind: 'h', u: upd{log[j].state, log[j].count, next()}, ok: ok})
			}
			h.ops = append(h.ops, op{kind: 's', x: x})
			for idx < len(log) && log[idx].state <= x {
				idx++
			}
		case r.Chance(15):
			h.ops = append(h.ops, op{kind: 'c'})
		case r.Chance(10):
			h.ops = append(h.ops, op{kind: 'a', ok: ok})
		}
	}
	return h
}

type pendingCase struct {
	h        history
	obs      []opObs
	timed    bool
	boxLine  string
	holdLine string
	holds    bool
	mono     bool
	ordered  bool
}

func evaluate(c *hc.Ctx, h history, cases *[]pendingCase) {
	obs, dur := runImpl(h)
	line := h.line()
	for i, o := range obs {
		if o.panicV != nil {
			c.Fail("c01-panic", line, fmt.Sprintf("op %d (%s): %v", i, h.ops[i], o.panicV))
		}
	}
	holds, mono, ordered, detail := monitor(h.s0, obs)
	allOK, positive := true, true
	for _, o := range h.ops {
		if o.kind == 'h' && (!o.ok || o.u.State <= 0 || o.u.Count < 0) {
			positive = positive && o.u.State > 0 && o.u.Count >= 0
			allOK = allOK && o.ok
		}
		if o.kind == 'a' && !o.ok {
			allOK = false
		}
	}
	for _, p := range h.pending {
		if p.State <= 0 || p.Count < 0 {
			positive = false
		}
	}
	if !holds {
		c.Fail("c01-order", line, detail)
	} else if mono && allOK && positive && !ordered {
		c.Fail("c01-at-most-once", line, detail)
	}
	gapOpened := false
	for _, o := range obs {
		if len(o.gaps) > 0 {
			gapOpened = true
		}
	}
	c.Eval(line, gapOpened)
	*cases = append(*cases, pendingCase{h: h, obs: obs, timed: dur < 300*time.Millisecond, boxLine: line,
		holdLine: obsLine(h.s0, obs), holds: holds, mono: mono, ordered: ordered})
}

func flush(c *hc.Ctx, cases *[]pendingCase) error {
	if len(*cases) == 0 {
		return nil
	}
	lines := make([]string, 0, 2*len(*cases))
	for _, pc := range *cases {
		lines = append(lines, pc.boxLine, pc.holdLine)
	}
	outs, err := c.Drv.Batch(lines)
	if err != nil {
		return err
	}
	for i, pc := range *cases {
		model := outs[2*i]
		// model answer: per-op segments, then " H=<holds>"
		impl := implLine(pc.obs, pc.timed)
		m := model
		if k := strings.LastIndex(m, " H="); k >= 0 {
			if m[k+3:] != "1" {
				c.Differ(pc.boxLine, "holds", m[k:], "the model's own observation does not satisfy holds (contradicts run_holds)")
			}
			m = m[:k]
		}
		if !pc.timed {
			c.Count("timer.flag-not-compared(slow)")
			m = maskTimer(m)
		}
		if impl != m {
			// locate the first differing op
			a, b := strings.Split(impl, " "), strings.Split(m, " ")
			k := 0
			for k < len(a) && k < len(b) && a[k] == b[k] {
				k++
			}
			note := fmt.Sprintf("first difference after op %d", k)
			if k < len(pc.h.ops) {
				note += " (" + pc.h.ops[k].String() + ")"
			}
			c.Differ(pc.boxLine, impl, m, note)
		} else {
			c.Res.TracesValidated += len(pc.obs)
		}
		// the Lean `holds`, `monoDiffs`, `orderedRanges` evaluated on the implementation's observation
		want := fmt.Sprintf("holds=%s mono=%s ordered=%s", b2s(pc.holds), b2s(pc.mono), b2s(pc.ordered))
		if c.Compare(pc.holdLine, want, outs[2*i+1]) {
			c.Res.TracesValidated++
		}
	}
	*cases = (*cases)[:0]
	return nil
}

func maskTimer(m string) string {
	segs := strings.Split(m, " ")
	for i, s := range segs {
		p := strings.Split(s, "|")
		if len(p) == 5 {
			p[3] = "?"
			segs[i] = strings.Join(p, "|")
		}
	}
	return strings.Join(segs, " ")
}

func run(c *hc.Ctx) error {
	r := c.Rng
	var cases []pendingCase
	tag := 0
	var firstErr error
	doFlush := func() {
		if err := flush(c, &cases); err != nil && firstErr == nil {
			firstErr = err
		}
		cases = cases[:0]
	}

	// 0. fixed histories: TestSequenceBox's and an overlapping multi-count one
	fixed := []history{
		{s0: 3, ops: []op{{kind: 'h', u: upd{2, 1, 1}, ok: true}, {kind: 'h', u: upd{3, 1, 2}, ok: true}, {kind: 'h', u: upd{4, 1, 3}, ok: true},
			{kind: 'h', u: upd{6, 1, 4}, ok: true}, {kind: 'h', u: upd{5, 1, 5}, ok: true}, {kind: 'h', u: upd{8, 1, 6}, ok: true}, {kind: 'c'}, {kind: 's', x: 8}}},
		{s0: 10, ops: []op{{kind: 'h', u: upd{15, 2, 1}, ok: true}, {kind: 'h', u: upd{13, 3, 2}, ok: true}, {kind: 'h', u: upd{12, 2, 3}, ok: true},
			{kind: 'h', u: upd{13, 1, 4}, ok: true}, {kind: 'h', u: upd{13, 3, 5}, ok: true}}},
		// D11's box-level shape: other@12 arrives during a difference at local 10, then setState(12)
		{s0: 10, ops: []op{{kind: 'c'}, {kind: 'h', u: upd{12, 1, 1}, ok: true}, {kind: 's', x: 12}, {kind: 'h', u: upd{13, 1, 2}, ok: true}}},
	}
	for _, h := range fixed {
		evaluate(c, h, &cases)
	}

	// 1. checkGap and Consume on their own
	var lines, impls []string
	for i, n := 0, c.N(3000, 100000); i < n; i++ {
		l, rr, cnt := r.Range(-3, 20), r.Range(-3, 22), r.Range(-2, 5)
		if r.Chance(10) {
			rr = 0
		}
		lines = append(lines, fmt.Sprintf("gap %d %d %d", l, rr, cnt))
		impls = append(impls, strconv.Itoa(updates.VerifC01CheckGap(l, rr, cnt)))
		var gs [][2]int
		for j, m := 0, r.Range(0, 4); j < m; j++ {
			a := r.Range(0, 20)
			gs = append(gs, [2]int{a, a + r.Range(0, 6)})
		}
		u := upd{State: r.Range(0, 24), Count: r.Range(0, 5), Tag: 1}
		out, ok := updates.VerifC01Consume(gs, u)
		lines = append(lines, fmt.Sprintf("consume %s %d:%d:%d", fmtGaps(gs), u.State, u.Count, u.Tag))
		if ok {
			impls = append(impls, fmtGaps(out))
			c.Count("consume.accepted")
		} else {
			impls = append(impls, "none")
			c.Count("consume.rejected")
		}
	}

	// 2. random histories
	for i, n := 0, c.N(2500, 150000); i < n; i++ {
		h := genHistory(r, &tag)
		for _, o := range h.ops {
			c.Count("op." + string(o.kind))
		}
		c.Count(fmt.Sprintf("len.%02d-%02d", len(h.ops)/4*4, len(h.ops)/4*4+3))
		evaluate(c, h, &cases)
		if len(cases) >= 5000 {
			doFlush()
		}
	}

	// 3. exhaustive: every history of length ≤ L over 4 positions (correspondence, not the verdict)
	alphabet := []op{}
	for s := 1; s <= 4; s++ {
		for cnt := 1; cnt <= 2; cnt++ {
			if s-cnt >= 0 {
				alphabet = append(alphabet, op{kind: 'h', u: upd{State: s, Count: cnt}, ok: true})
			}
		}
	}
	alphabet = append(alphabet, op{kind: 'c'}, op{kind: 's', x: 3})
	maxLen := c.N(4, 6)
	var rec func(prefix []op)
	rec = func(prefix []op) {
		if len(prefix) > 0 {
			h := history{s0: 0, ops: make([]op, len(prefix))}
			copy(h.ops, prefix)
			for i := range h.ops {
				h.ops[i].u.Tag = i + 1
			}
			c.Count("exhaustive.histories")
			evaluate(c, h, &cases)
			if len(cases) >= 5000 {
				doFlush()
			}
		}
		if len(prefix) == maxLen {
			return
		}
		for _, a := range alphabet {
			rec(append(prefix, a))
		}
	}
	rec(nil)
	doFlush()

	if firstErr != nil {
		return firstErr
	}
	outs, err := c.Drv.Batch(lines)
	if err != nil {
		return err
	}
	for i := range outs {
		if c.Compare(lines[i], impls[i], outs[i]) {
			c.Res.TracesValidated++
		}
	}
	// 4. the same property observed at UpdateHandler.Handle of the public updates.Manager (fake API,
	// storage and handler; see harness/c02/mgr): every positioned update is dispatched at most once,
	// and never before everything that ends at or before its start. Monitor only; the model
	// comparison of manager traces belongs to the C02/C03 checks.
	mr := &mgr.Runner{C: c, Opt: mgr.Options{Prop: "C01", FailC01: true, MonitorOnly: true}}
	for _, sc := range mgr.Fixed() {
		mr.Evaluate(sc, nil)
	}
	for i, n := 0, c.N(400, 8000); i < n; i++ {
		sc, plain := mgr.Gen(r, mgr.GenOptions{Channels: hc.Pick(r, 0, 1, 2), TooLong: r.Chance(20), MaxEntries: hc.Pick(r, 4, 8, 12), Affected: r.Chance(50), Foreign: r.Chance(40), Faults: r.Chance(30), Fresh: r.Chance(50), Seq: r.Chance(40), Users: r.Chance(35), Private: r.Chance(35), First: r.Chance(20)})
		c.Count("manager.scenarios")
		mr.Evaluate(sc, plain)
	}

	c.Res.Exhaustive = true
	c.Res.Rule = fmt.Sprintf("histories = delivery of a contiguous server log with loss, duplication, late arrival, overlapping multi-count updates, State=0, negative counts, fetched differences (clearGaps+setState), direct applyPending, failing apply callbacks, 8%% from arbitrary (gaps,pending) start states; plus every history of length ≤ %d over the alphabet {handle(s,c): s∈1..4,c∈1..2, clearGaps, setState 3} (exhaustive part); non-trivial = the history opened at least one gap; distinct = distinct op list", maxLen)
	c.PartialNote("at the level of updates.Manager (routing of containers into the boxes, goroutines of the main loop and the channel workers) C01 is monitored on sampled scenarios, not proved; the proofs are about each sequence box and their independence")
	c.PartialNote("the real time.Timer is not modelled: only the armed/stopped flag is compared (skipped for a history that took ≥300 ms); the timer firing is an input of the manager model (C02), not of the box")
	c.PartialNote("apply callbacks returning an error are modelled (ok flag) but applyPts/applyQts/channel applyPts never return one (regenerated fact); applySeq can (a failed getDifference), which the at-most-once theorem excludes by hypothesis")
	return nil
}
