package main

// Structure facts for sequenceBox.Handle, sequenceBox.applyPending and gapBuffer.Consume.
//
// The control structure of the three methods (if / switch / return / the loops with their
// continue / break, nesting and statement order) is regenerated from the Go AST as a program in a
// tiny language that lean/TdModel/Model/C01Prog.lean interprets; the leaves (single statements and
// conditions) are recognised by their exact source text. Anything unrecognised becomes the code
// `unknown`, so the regenerated program differs from the one the theorems are about.
//
// Encoding (prefix order, a list of naturals):
//   0                      return nil / fall off the end
//   1 a <prog>             statement a, then the rest
//   2 c <prog> <prog>      if c then … else …   (both branches carry their own continuation)
//   3                      return err
//   4                      panic("unreachable")
//   5 / 6                  (Consume) return true / return false
//   7 / 8                  (loops) continue / break out of the loop

import (
	"fmt"
	"go/ast"
	"go/token"
	"strings"

	"verif/harness/hc"
)

const (
	pRet, pAct, pIte, pRetErr, pPanic, pTrue, pFalse, pContinue, pBreak = 0, 1, 2, 3, 4, 5, 6, 7, 8
	unknownCode                                                          = 99
)

type progGen struct {
	f     *hc.Facts
	acts  map[string]int // squashed statement text -> act code
	conds map[string]int // squashed condition text -> cond code
	notes []string       // what was not recognised
}

func sq(s string) string { return strings.Join(strings.Fields(s), "") }

// skippable: tracing and logging statements (they read, they do not change the box).
func (g *progGen) skippable(st ast.Stmt) bool {
	src := sq(g.f.Src(st))
	if strings.HasPrefix(src, "ctx,span:=s.tracer.Start(ctx,") || src == "deferspan.End()" {
		return true
	}
	var call *ast.CallExpr
	switch x := st.(type) {
	case *ast.ExprStmt:
		call, _ = x.X.(*ast.CallExpr)
	case *ast.AssignStmt:
		if len(x.Lhs) == 1 && len(x.Rhs) == 1 && sq(g.f.Src(x.Lhs[0])) == "logger" {
			call, _ = x.Rhs[0].(*ast.CallExpr)
		}
	}
	if call == nil {
		return false
	}
	fun := sq(g.f.Src(call.Fun))
	if !(strings.HasPrefix(fun, "logger.") || strings.HasPrefix(fun, "s.log.")) {
		return false
	}
	// the arguments may only build log fields from values
	pure := true
	for _, a := range call.Args {
		ast.Inspect(a, func(n ast.Node) bool {
			c, ok := n.(*ast.CallExpr)
			if !ok {
				return true
			}
			fn := sq(g.f.Src(c.Fun))
			if !(strings.HasPrefix(fn, "log.") || fn == "u.start" || fn == "u.end" || fn == "len") {
				pure = false
			}
			return true
		})
	}
	return pure
}

func (g *progGen) act(st ast.Node) []int {
	src := sq(g.f.Src(st))
	if c, ok := g.acts[src]; ok {
		return []int{pAct, c}
	}
	g.notes = append(g.notes, "statement: "+strings.Join(strings.Fields(g.f.Src(st)), " "))
	return []int{pAct, unknownCode}
}

func (g *progGen) cond(x ast.Expr) int {
	src := sq(g.f.Src(x))
	if c, ok := g.conds[src]; ok {
		return c
	}
	g.notes = append(g.notes, "condition: "+strings.Join(strings.Fields(g.f.Src(x)), " "))
	return unknownCode
}

// terminates: every path through the statements ends in return / panic / continue / break.
func terminates(stmts []ast.Stmt) bool {
	if len(stmts) == 0 {
		return false
	}
	switch s := stmts[len(stmts)-1].(type) {
	case *ast.ReturnStmt:
		return true
	case *ast.BranchStmt:
		return true
	case *ast.ExprStmt:
		if c, ok := s.X.(*ast.CallExpr); ok {
			if id, ok := c.Fun.(*ast.Ident); ok && id.Name == "panic" {
				return true
			}
		}
	case *ast.IfStmt:
		if s.Else == nil {
			return false
		}
		eb, ok := s.Else.(*ast.BlockStmt)
		return ok && terminates(s.Body.List) && terminates(eb.List)
	case *ast.SwitchStmt:
		hasDefault := false
		for _, c := range s.Body.List {
			cc := c.(*ast.CaseClause)
			if cc.List == nil {
				hasDefault = true
			}
			if !terminates(cc.Body) {
				return false
			}
		}
		return hasDefault
	}
	return false
}

// block translates the statements followed by the continuation k.
func (g *progGen) block(stmts []ast.Stmt, k []int) []int {
	if len(stmts) == 0 {
		return append([]int{}, k...)
	}
	st, rest := stmts[0], stmts[1:]
	if g.skippable(st) {
		return g.block(rest, k)
	}
	switch s := st.(type) {
	case *ast.ReturnStmt:
		src := sq(g.f.Src(s))
		switch src {
		case "returnnil", "return":
			return []int{pRet}
		case "returnerr":
			return []int{pRetErr}
		case "returntrue":
			return []int{pTrue}
		case "returnfalse":
			return []int{pFalse}
		}
		// `return f(…)`: the call as a statement, then return
		if len(s.Results) == 1 {
			if _, ok := s.Results[0].(*ast.CallExpr); ok {
				return append(g.act(s.Results[0]), pRet)
			}
		}
		g.notes = append(g.notes, "return: "+src)
		return []int{pAct, unknownCode, pRet}
	case *ast.BranchStmt:
		switch {
		case s.Tok == token.CONTINUE && s.Label == nil:
			return []int{pContinue}
		case s.Tok == token.BREAK && s.Label != nil:
			return []int{pBreak} // `break loop`: the only label is the loop itself
		}
		g.notes = append(g.notes, "branch: "+g.f.Src(s))
		return []int{pAct, unknownCode, pRet}
	case *ast.IfStmt:
		var out []int
		if s.Init != nil {
			out = append(out, g.act(s.Init)...)
		}
		restK := g.block(rest, k)
		out = append(out, pIte, g.cond(s.Cond))
		if terminates(s.Body.List) {
			out = append(out, g.block(s.Body.List, nil)...)
		} else {
			out = append(out, g.block(s.Body.List, restK)...)
		}
		switch e := s.Else.(type) {
		case nil:
			out = append(out, restK...)
		case *ast.BlockStmt:
			if terminates(e.List) {
				out = append(out, g.block(e.List, nil)...)
			} else {
				out = append(out, g.block(e.List, restK)...)
			}
		default:
			g.notes = append(g.notes, "else-if")
			out = append(out, pAct, unknownCode, pRet)
		}
		return out
	case *ast.SwitchStmt:
		// switch <tag> { case a: … case b: … default: … } -> nested if tag == a …
		if s.Init != nil || s.Tag == nil {
			g.notes = append(g.notes, "switch without tag")
			return []int{pAct, unknownCode, pRet}
		}
		restK := g.block(rest, k)
		var deflt []ast.Stmt
		hasDefault := false
		type arm struct {
			c    int
			body []ast.Stmt
		}
		var arms []arm
		for _, c := range s.Body.List {
			cc := c.(*ast.CaseClause)
			if cc.List == nil {
				deflt, hasDefault = cc.Body, true
				continue
			}
			if len(cc.List) != 1 {
				g.notes = append(g.notes, "case with several values")
				return []int{pAct, unknownCode, pRet}
			}
			arms = append(arms, arm{g.cond(&ast.BinaryExpr{X: s.Tag, Op: token.EQL, Y: cc.List[0]}), cc.Body})
		}
		tail := restK
		if hasDefault {
			if terminates(deflt) {
				tail = g.block(deflt, nil)
			} else {
				tail = g.block(deflt, restK)
			}
		}
		for i := len(arms) - 1; i >= 0; i-- {
			var body []int
			if terminates(arms[i].body) {
				body = g.block(arms[i].body, nil)
			} else {
				body = g.block(arms[i].body, restK)
			}
			tail = append(append([]int{pIte, arms[i].c}, body...), tail...)
		}
		return tail
	case *ast.ExprStmt:
		if c, ok := s.X.(*ast.CallExpr); ok {
			if id, ok := c.Fun.(*ast.Ident); ok && id.Name == "panic" {
				return []int{pPanic}
			}
		}
	}
	// any other statement (assignments, calls, a whole loop recognised by its text): a leaf
	return append(g.act(st), g.block(rest, k)...)
}

func natList(xs []int) string {
	p := make([]string, len(xs))
	for i, x := range xs {
		p[i] = fmt.Sprint(x)
	}
	return "[" + strings.Join(p, ", ") + "]"
}

func (g *progGen) emit(lean, what string, body []ast.Stmt, fallOff int) {
	prog := g.block(body, []int{fallOff})
	note := ""
	if len(g.notes) > 0 {
		note = " -- NOT RECOGNISED: " + strings.Join(g.notes, " | ")
	}
	g.f.Raw(fmt.Sprintf("/-- %s, as a program (harness/c01/prog.go) -/", what))
	g.f.Raw(fmt.Sprintf("def %s : List Nat := %s%s", lean, natList(prog), strings.ReplaceAll(note, "\n", " ")))
	g.notes = nil
}

// progFacts emits the three programs.
func progFacts(f *hc.Facts) {
	gap := "checkGap(s.state,u.State,u.Count)"
	// --- sequenceBox.Handle
	h := &progGen{f: f,
		acts: map[string]int{
			"s.pending=append(s.pending,u)":        10,
			"accepted:=s.gaps.Consume(u)":          11,
			"_=s.gapTimeout.Stop()":                12,
			"s.applyPending(ctx)":                  13,
			"err:=s.apply(ctx,u.State,[]update{u})": 14,
			`s.setState(u.State,"update")`:          15,
			"s.gaps.Enable(s.state,u.start())":      16,
			"for_,u:=ranges.pending{_=s.gaps.Consume(u)}": 17,
			"_=s.gapTimeout.Reset(fastgapTimeout)":       18,
		},
		conds: map[string]int{
			gap + "==gapIgnore":  20,
			"s.gaps.Has()":       21,
			"!accepted":          22,
			"!s.gaps.Has()":      23,
			gap + "==gapApply":   24,
			gap + "==gapRefetch": 25,
			"len(s.pending)>0":   26,
			"err!=nil":           27,
		}}
	if fd := f.FuncDecl(pkgDir, "sequenceBox.Handle"); fd != nil && fd.Body != nil {
		h.emit("handleProg", "sequenceBox.Handle", fd.Body.List, pRet)
	} else {
		f.Missing("handleProg", "sequenceBox.Handle not found")
	}

	// --- sequenceBox.applyPending: the statements around the loop, and the loop's cases
	lgap := "checkGap(state,update.State,update.Count)"
	a := &progGen{f: f,
		acts: map[string]int{
			"sort.SliceStable(s.pending,func(i,jint)bool{returns.pending[i].start()<s.pending[j].start()})": 30,
			"var(cursor=0state=s.stateaccepted[]update)":                                                      31,
			"end:=len(s.pending)":              33,
			"trim:=end-cursor":                 34,
			"copy(s.pending,s.pending[cursor:])": 35,
			"fori:=trim;i<end;i++{s.pending[i]=update{}}": 36,
			"s.pending=s.pending[:trim]":                    37,
			"err:=s.apply(ctx,state,accepted)":              38,
			`s.setState(state,"pendingupdates")`:            39,
		},
		conds: map[string]int{
			"len(accepted)==0": 40,
			"err!=nil":         27,
		}}
	if fd := f.FuncDecl(pkgDir, "sequenceBox.applyPending"); fd != nil && fd.Body != nil {
		// the labelled loop is one statement of the outer program (code 32); its body is emitted separately
		var outer []ast.Stmt
		var loop *ast.RangeStmt
		for _, st := range fd.Body.List {
			if ls, ok := st.(*ast.LabeledStmt); ok {
				if rs, ok := ls.Stmt.(*ast.RangeStmt); ok && loop == nil {
					loop = rs
					a.acts[sq(f.Src(st))] = 32
				}
			}
			outer = append(outer, st)
		}
		a.emit("applyPendingProg", "sequenceBox.applyPending (the loop is statement 32)", outer, pRet)
		l := &progGen{f: f,
			acts: map[string]int{
				"accepted=append(accepted,update)": 50,
				"state=update.State":               51,
				"cursor=i+1":                       52,
			},
			conds: map[string]int{
				lgap + "==gapApply":   24,
				lgap + "==gapIgnore":  20,
				lgap + "==gapRefetch": 25,
			}}
		if loop != nil && sq(f.Src(loop.Key)) == "i" && sq(f.Src(loop.Value)) == "update" && sq(f.Src(loop.X)) == "s.pending" {
			l.emit("applyLoopProg", "the body of applyPending's `for i, update := range s.pending` (falling off the end = continue)", loop.Body.List, pContinue)
		} else {
			f.Missing("applyLoopProg", "applyPending: no `loop: for i, update := range s.pending`")
		}
	} else {
		f.Missing("applyPendingProg", "sequenceBox.applyPending not found")
		f.Missing("applyLoopProg", "sequenceBox.applyPending not found")
	}

	// --- gapBuffer.Consume: `for i, g := range b.gaps { <body> }; return false`
	c := &progGen{f: f,
		acts: map[string]int{
			"b.gaps=append(b.gaps,gap{from:g.from,to:u.start()})": 60,
			"b.gaps=append(b.gaps,gap{from:u.end(),to:g.to})":     61,
			"b.gaps=append(b.gaps[:i],b.gaps[i+1:]...)":           62,
		},
		conds: map[string]int{
			"g.from<=u.start()&&g.to>=u.end()": 70,
			"g.from<u.start()":                 71,
			"g.to>u.end()":                     72,
		}}
	if fd := f.FuncDecl(pkgDir, "gapBuffer.Consume"); fd != nil && fd.Body != nil && len(fd.Body.List) == 2 {
		rs, ok := fd.Body.List[0].(*ast.RangeStmt)
		if ok && sq(f.Src(rs.Key)) == "i" && sq(f.Src(rs.Value)) == "g" && sq(f.Src(rs.X)) == "b.gaps" {
			c.emit("consumeLoopProg", "the body of gapBuffer.Consume's `for i, g := range b.gaps` (falling off the end = continue)", rs.Body.List, pContinue)
			c.emit("consumeTailProg", "gapBuffer.Consume after the loop", fd.Body.List[1:], pRet)
		} else {
			f.Missing("consumeLoopProg", "gapBuffer.Consume: no `for i, g := range b.gaps` as the first statement")
			f.Missing("consumeTailProg", "gapBuffer.Consume: no `for i, g := range b.gaps` as the first statement")
		}
	} else {
		f.Missing("consumeLoopProg", "gapBuffer.Consume not found or not `loop; return`")
		f.Missing("consumeTailProg", "gapBuffer.Consume not found or not `loop; return`")
	}
	// start/end of an update and Enable/Has/Clear, pinned by text
	for _, fn := range []struct{ lean, name string }{{"updStartSrc", "update.start"}, {"updEndSrc", "update.end"}, {"gapsEnableSrc", "gapBuffer.Enable"},
		{"gapsHasSrc", "gapBuffer.Has"}, {"gapsClearSrc", "gapBuffer.Clear"}, {"setStateSrc", "sequenceBox.setState"}} {
		f.Str(fn.lean, strings.Join(strings.Fields(f.FuncSrc(pkgDir, fn.name)), " "), "body of "+fn.name)
	}
}
