//go:build !c21table

package main

import "github.com/gotd/td/bin"

// Without the build tag c21table (the way ./check builds the harness) the table of generated
// interface decoders is empty: `run` regenerates decoders_gen.go from the current source, rebuilds
// itself with the tag and re-executes (reexecWithTable), so the table can never be stale and a TL
// type added to or removed from /repo needs no manual step.
const haveTable = false

var ifaceDecoders = map[string]func(*bin.Buffer) (bin.Object, error){}
