// Crash search in a sub-process: fatal runtime errors (stack overflow, out of memory) cannot be
// recovered, so the deep-nesting inputs are decoded by a re-exec of this binary under a timeout.
package main

import (
	"bytes"
	"context"
	"encoding/binary"
	"fmt"
	"os"
	"os/exec"
	"strconv"
	"strings"
	"time"

	"github.com/gotd/td/bin"
	"github.com/gotd/td/mt"
	"github.com/gotd/td/tg"
	"github.com/gotd/td/tg/e2e"

	"verif/harness/hc"
)

// crashChild: c21 crash-child <pkg> <outerID hex> <innerID hex> <depth>
// decodes outerID repeated depth times followed by innerID through the generated Decode.
func crashChild(args []string) {
	if len(args) != 4 {
		fmt.Println("usage")
		os.Exit(2)
	}
	outer, _ := strconv.ParseUint(args[1], 16, 32)
	inner, _ := strconv.ParseUint(args[2], 16, 32)
	depth, _ := strconv.Atoi(args[3])
	var tm map[uint32]func() bin.Object
	switch args[0] {
	case "tg":
		tm = tg.TypesConstructorMap()
	case "mt":
		tm = mt.TypesConstructorMap()
	default:
		tm = e2e.TypesConstructorMap()
	}
	buf := make([]byte, 4*depth+4)
	for i := 0; i < depth; i++ {
		binary.LittleEndian.PutUint32(buf[4*i:], uint32(outer))
	}
	binary.LittleEndian.PutUint32(buf[4*depth:], uint32(inner))
	obj := tm[uint32(outer)]()
	if depth == 0 {
		obj = tm[uint32(inner)]()
	}
	err := func() (err error) {
		defer func() {
			if r := recover(); r != nil {
				err = fmt.Errorf("panic: %v", r)
			}
		}()
		return obj.Decode(&bin.Buffer{Buf: buf})
	}()
	res := "<nil>"
	if err != nil {
		res = errClass(err)
		if res == "other" {
			if msg := err.Error(); len(msg) > 80 {
				res = "other: …" + msg[len(msg)-80:]
			} else {
				res = "other: " + msg
			}
		}
	}
	fmt.Printf("survived depth=%d bytes=%d err=%s\n", depth, len(buf), res)
}

type nestCand struct {
	outer, inner *Ctor
}

// nestCandidates: constructors whose only field is an (unconditional) interface that contains
// the constructor itself — 4 bytes per nesting level — with a field-less terminator.
func nestCandidates(w *world) []nestCand {
	var out []nestCand
	for _, c := range w.inMap {
		if len(c.Fields) != 1 || c.Fields[0].Cond || c.Fields[0].Ty.K != "iface" {
			continue
		}
		ifc := w.s.Ifaces[c.Fields[0].Ty.Ref]
		self := false
		var term *Ctor
		for _, r := range ifc.Refs {
			if r == c.Idx {
				self = true
			}
			if len(w.s.Ctors[r].Fields) == 0 && term == nil {
				if _, ok := w.newObj[r]; ok {
					term = w.s.Ctors[r]
				}
			}
		}
		if self && term != nil {
			out = append(out, nestCand{c, term})
		}
	}
	return out
}

// crashSearch decodes `depth` nested constructors in a sub-process.
func crashSearch(c *hc.Ctx, nc nestCand, depth int, timeout time.Duration) {
	ctx, cancel := context.WithTimeout(context.Background(), timeout)
	defer cancel()
	cmd := exec.CommandContext(ctx, os.Args[0], "crash-child", nc.outer.Pkg,
		fmt.Sprintf("%08x", nc.outer.ID), fmt.Sprintf("%08x", nc.inner.ID), strconv.Itoa(depth))
	var out, errb bytes.Buffer
	cmd.Stdout = &out
	cmd.Stderr = &limitedWriter{buf: &errb, max: 4096}
	start := time.Now()
	err := cmd.Run()
	input := fmt.Sprintf("nested %s.%s#%08x x %d + %s#%08x (%d bytes)", nc.outer.Pkg, nc.outer.GoName, nc.outer.ID, depth, nc.inner.GoName, nc.inner.ID, 4*depth+4)
	c.Eval("crash "+input, true)
	switch {
	case ctx.Err() != nil:
		c.Note("crash search %s: no verdict within %s", input, timeout)
		c.Count("crash.timeout")
	case err == nil && strings.HasPrefix(out.String(), "survived"):
		c.Count("crash.survived")
		c.Note("crash search %s: %s (%.1fs)", input, strings.TrimSpace(out.String()), time.Since(start).Seconds())
	default:
		msg := errb.String()
		key := "process-crash"
		if strings.Contains(msg, "stack overflow") || strings.Contains(msg, "goroutine stack exceeds") {
			key = "stack-overflow-nested-ctor"
		}
		first := msg
		if i := strings.Index(first, "\n\n"); i > 0 {
			first = first[:i]
		}
		c.Count("crash." + key)
		c.Fail(key, input, fmt.Sprintf("decoding kills the process (not recoverable): %v: %s", err, strings.ReplaceAll(first, "\n", " | ")))
	}
}

type limitedWriter struct {
	buf *bytes.Buffer
	max int
}

func (l *limitedWriter) Write(p []byte) (int, error) {
	if room := l.max - l.buf.Len(); room > 0 {
		if len(p) > room {
			l.buf.Write(p[:room])
		} else {
			l.buf.Write(p)
		}
	}
	return len(p), nil
}
