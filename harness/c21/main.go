// C21 — every generated TL type round-trips and decodes any bytes safely.
package main

import (
	"bytes"
	"crypto/sha256"
	"encoding/hex"
	"fmt"
	"os"
	"os/exec"
	"path/filepath"
	"reflect"
	"sort"
	"strings"
	"syscall"
	"time"

	"github.com/gotd/td/bin"

	"verif/harness/hc"
)

func repoDir() string {
	if r := os.Getenv("VERIF_REPO"); r != "" {
		return r
	}
	return "/repo"
}

// schemaPath is where `facts` writes the schema data file and where the Lean driver reads it
// (the driver resolves the same path relative to its own executable).
func schemaPath() string {
	if p := os.Getenv("VERIF_C21_SCHEMA"); p != "" {
		return p
	}
	exe, err := os.Executable()
	if err != nil {
		return "/verif/.build/C21.schema"
	}
	return filepath.Join(filepath.Dir(exe), "C21.schema") // /verif/.build (git-ignored)
}

func main() {
	if len(os.Args) > 1 && os.Args[1] == "schema-stats" {
		s, err := buildSchema(repoDir())
		if err != nil {
			fmt.Println(err)
			os.Exit(1)
		}
		bad := map[string]int{}
		nb := 0
		for _, c := range s.Ctors {
			if c.Bad != "" {
				nb++
				bad[c.Bad]++
				if nb < 15 {
					fmt.Println("BAD", c.Pkg, c.GoName, c.Bad)
				}
			}
		}
		var ks []string
		for k := range bad {
			ks = append(ks, k)
		}
		sort.Strings(ks)
		for _, k := range ks {
			fmt.Println(bad[k], k)
		}
		fmt.Println("ctors", len(s.Ctors), "bad", nb, "ifaces", len(s.Ifaces), "double", s.DoubleVectors, "limit", s.PreallocLimit)
		if len(os.Args) > 2 {
			os.WriteFile(os.Args[2], []byte(s.Text()), 0o644)
		}
		return
	}
	if len(os.Args) > 1 && os.Args[1] == "gen-decoders" {
		out := "decoders_gen.go"
		if len(os.Args) > 2 {
			out = os.Args[2]
		}
		if err := writeDecoderTable(out); err != nil {
			fmt.Println(err)
			os.Exit(1)
		}
		return
	}
	if len(os.Args) > 1 && os.Args[1] == "crash-child" {
		crashChild(os.Args[2:])
		return
	}
	if len(os.Args) > 1 && os.Args[1] == "run" && !haveTable && os.Getenv("VERIF_C21_TABLE") == "" {
		reexecWithTable()
	}
	os.Setenv("VERIF_C21_SCHEMA", schemaPath())
	hc.Main(hc.Spec{Prop: "C21", Facts: facts, Run: run})
}

// factsOut is the `-out` argument of the facts sub-command.
func factsOut() string {
	for i, a := range os.Args {
		if (a == "-out" || a == "--out") && i+1 < len(os.Args) {
			return os.Args[i+1]
		}
		if strings.HasPrefix(a, "-out=") {
			return strings.TrimPrefix(a, "-out=")
		}
	}
	return ""
}

func facts(f *hc.Facts) {
	f.Const("preallocateLimit", "bin", "PreallocateLimit")
	f.Const("maxNestingDepth", "bin", "MaxNestingDepth")
	s, err := buildSchema(f.Repo)
	if err != nil {
		f.Missing("schemaCtors", "translator failed: "+err.Error())
		return
	}
	nBad, nGeneric, makes, capped, withID, unchecked := 0, 0, 0, 0, 0, 0
	var badNames []string
	for _, c := range s.Ctors {
		if c.Bad != "" {
			nBad++
			badNames = append(badNames, c.Pkg+"."+c.GoName+": "+c.Bad)
		}
		if c.Generic {
			nGeneric++
		}
		if c.HasID {
			withID++
		}
		makes += c.Makes
		capped += c.MakesCap
		unchecked += c.GenericUnchecked
	}
	f.Nat("schemaCtors", len(s.Ctors), "generated structs with Encode/Decode/EncodeBare/DecodeBare in mt, tg/e2e, tg")
	f.Nat("schemaCtorsWithID", withID, "... that have a XxxTypeID constant")
	f.Nat("schemaIfaces", len(s.Ifaces), "generated DecodeXxx functions (interfaces)")
	f.Nat("untranslated", nBad, "constructors whose generated code the translator did not understand / found inconsistent: "+strings.Join(badNames, "; "))
	f.Nat("genericCtors", nGeneric, "constructors with a generic bin.Object field")
	f.Nat("genericUnchecked", unchecked, "bin.Object fields that Encode/Decode dereference without a nil check")
	unguarded := 0
	for _, i := range s.Ifaces {
		if !i.Guarded {
			unguarded++
		}
	}
	f.Nat("ifacesUnguarded", unguarded, "generated DecodeXxx without `buf.EnterObject()` before the switch and a deferred `buf.LeaveObject()`")
	f.Nat("doubleVectors", s.DoubleVectors, "fields decoded by the generator's double-vector loop")
	f.Nat("vectorMakes", makes, "make( calls in DecodeBare bodies")
	f.Nat("vectorMakesCapped", capped, "... of the form `if headerLen > 0 { x = make(T, 0, headerLen % bin.PreallocateLimit) }`")
	// The MTProto (mt) and end-to-end (e2e) schemas as Lean data: they come first in the schema, refer
	// only to themselves, and are small enough for `Schema.wf` to be checked by the kernel (`decide`).
	nc, ni := 0, 0
	for _, c := range s.Ctors {
		if c.Pkg == "tg" {
			break
		}
		nc++
	}
	for _, i := range s.Ifaces {
		if i.Pkg == "tg" {
			break
		}
		ni++
	}
	closed := true
	var check func(t *Ty)
	check = func(t *Ty) {
		switch t.K {
		case "iface":
			closed = closed && t.Ref < ni
		case "ctor", "bare":
			closed = closed && t.Ref < nc
		case "vec":
			check(t.Elem)
		}
	}
	var rows []string
	for _, c := range s.Ctors[:nc] {
		var fs []string
		for _, fl := range c.Fields {
			check(fl.Ty)
			cond := "none"
			if fl.Cond {
				cond = fmt.Sprintf("some (%d, %d)", fl.FlagIdx, fl.Bit)
			}
			fs = append(fs, fmt.Sprintf("(%s, %s)", tyCodes(fl.Ty), cond))
		}
		id := "none"
		if c.HasID {
			id = fmt.Sprintf("some 0x%08x", c.ID)
		}
		rows = append(rows, fmt.Sprintf("  (%s, %v, [%s])", id, c.Bad != "", strings.Join(fs, ", ")))
	}
	var irows []string
	for _, i := range s.Ifaces[:ni] {
		for _, r := range i.Refs {
			closed = closed && r < nc
		}
		irows = append(irows, strings.ReplaceAll(fmt.Sprint(i.Refs), " ", ", "))
	}
	if !closed {
		f.Missing("coreCtors", "the mt/e2e schemas refer to tg types")
	} else {
		f.Raw("/-- mt and tg/e2e constructors (id, bad, fields as (type codes, condition)); see `TdModel.C21.tyOfCodes`. -/")
		f.Raw("def coreCtors : List (Option Nat × Bool × List (List Nat × Option (Nat × Nat))) := [\n" + strings.Join(rows, ",\n") + "]")
		f.Raw("def coreIfaces : List (List Nat) := [" + strings.Join(irows, ", ") + "]")
	}
	f.Raw(fmt.Sprintf("def schemaDigest : Nat := %d -- Schema.digest of the translated schema (harness/c21/schema.go Digest)", s.Digest()))
	if out := factsOut(); out != "" {
		if err := writeFullSchema(s, filepath.Dir(out)); err != nil {
			f.Missing("fullSchemaFiles", err.Error())
		}
	}
	text := s.Text()
	sum := sha256.Sum256([]byte(text))
	f.Str("schemaSha256", hex.EncodeToString(sum[:]), "sha256 of Gen/C21.schema")
	if out := factsOut(); out != "" {
		p := schemaPath()
		old, err := os.ReadFile(p)
		if err != nil || string(old) != text {
			if err := os.WriteFile(p, []byte(text), 0o644); err != nil {
				f.Missing("schemaFile", err.Error())
			}
		}
	}
}

type pending struct {
	line, input, want string
}

func mutate(r *hc.RNG, data []byte) []byte {
	out := append([]byte{}, data...)
	switch r.Intn(8) {
	case 0: // truncate
		out = out[:r.Intn(len(out)+1)]
	case 1: // truncate at a word boundary
		out = out[:4*r.Intn(len(out)/4+1)]
	case 2: // flip one bit
		if len(out) > 4 {
			out[4+r.Intn(len(out)-4)] ^= 1 << uint(r.Intn(8))
		}
	case 3: // overwrite a word with an interesting value
		if len(out) >= 8 {
			w := 4 * (1 + r.Intn(len(out)/4-1))
			v := hc.Pick[uint32](r, 0, 1, 0xffffffff, 0x7fffffff, 0x80000000, 0x1cb5c415, 0x997275b5, 0xbc799737, 1024, 1023, 0x00fffffe, 0xfe, 0xff)
			out[w], out[w+1], out[w+2], out[w+3] = byte(v), byte(v>>8), byte(v>>16), byte(v>>24)
		}
	case 4: // random tail
		out = append(out[:4+r.Intn(len(out)-3)], r.Bytes(r.Range(0, 24))...)
	case 5: // set many flag bits (second word)
		if len(out) >= 8 {
			out[4+r.Intn(4)] |= byte(r.U64())
		}
	case 6: // append garbage (must be left unread)
		out = append(out, r.Bytes(r.Range(1, 9))...)
	case 7: // id followed by pure noise
		out = append(out[:4], r.Bytes(r.Range(0, 40))...)
	}
	return out
}

func run(c *hc.Ctx) error {
	r := c.Rng
	s, err := buildSchema(c.Repo)
	if err != nil {
		return err
	}
	w := newWorld(s)
	for _, e := range w.extra {
		c.Differ("schema-vs-go-types", e, "", "the translated schema disagrees with the Go types")
	}
	var q []pending
	q = append(q, pending{"wf", "Schema.wf on the regenerated schema", fmt.Sprintf("ok %d %d core=%d/%d digest=%d", len(s.Ctors), len(s.Ifaces), coreN(s, true), coreN(s, false), s.Digest())})
	for _, ct := range s.Ctors {
		if ct.Bad != "" {
			c.Note("translator: %s.%s: %s", ct.Pkg, ct.GoName, ct.Bad)
		}
	}

	// --- crash search (sub-process), started first so that it overlaps with the rest
	cands := nestCandidates(w)
	c.Note("self-nesting constructors (4 bytes per level): %d, e.g. %s", len(cands), candNames(cands, 6))
	crashDone := make(chan struct{})
	go func() {
		defer close(crashDone)
		if len(cands) == 0 {
			return
		}
		// a depth that is harmless everywhere, then the depth of a full 10 MiB decompressed payload
		crashSearch(c, cands[0], 10_000, 2*time.Minute)
		// (10 MiB - 4) / 4 levels: the largest nesting a gzip-decompressed payload can carry
		crashSearch(c, cands[0], (10<<20)/4-1, 5*time.Minute)
		if c.Thorough() {
			if len(cands) > 1 {
				crashSearch(c, cands[1], (10<<20)/4-1, 10*time.Minute)
			}
			crashSearch(c, cands[len(cands)-1], (16<<20)/4-8, 10*time.Minute) // a full 16 MiB frame
		}
	}()
	defer func() { <-crashDone }()

	reps := c.N(2, 60)
	junkPer := c.N(4, 40)
	bigLeft := c.N(6, 200)
	for _, ct := range w.inMap {
		if w.ctorD[ct.Idx] >= inf {
			// the translator gave up inside this constructor: no values can be built for it; its
			// decoder still gets noise (panic / preallocation monitor)
			c.Count("untranslated(noise only)")
			for j := 0; j < junkPer*4; j++ {
				data := append([]byte{byte(ct.ID), byte(ct.ID >> 8), byte(ct.ID >> 16), byte(ct.ID >> 24)}, r.Bytes(r.Range(0, 48))...)
				obj := w.newObj[ct.Idx]()
				_, _, p := decodeSafe(obj, data)
				c.Eval("noise "+hc.Hex(data), true)
				if p != nil {
					c.Fail("decode-panic", ct.Pkg+"."+ct.GoName+" "+hc.Hex(data), fmt.Sprint(p))
				}
				if waste := maxSliceWaste(reflect.ValueOf(obj), 0); waste > 1024 {
					c.Fail("prealloc", ct.Pkg+"."+ct.GoName+" "+hc.Hex(data), fmt.Sprintf("a decoded slice has capacity %d", waste))
				}
			}
			continue
		}
		nrep := reps
		if ct.Bad != "" {
			nrep = 400 // the translator found an inconsistency here: search harder for a failing input
		}
		for rep := 0; rep < nrep; rep++ {
			g := &gen{w: w, r: r, budget: hc.Pick(r, 5, 40, 150, 400), maxD: hc.Pick(r, 1, 2, 3, 3, 4)}
			if bigLeft > 0 && r.Chance(2) {
				g.big = true
				bigLeft--
			}
			obj := w.newObj[ct.Idx]()
			g.fillCtor(ct, reflect.ValueOf(obj).Elem(), 0)
			var pre strings.Builder
			w.showPre(&pre, ct, reflect.ValueOf(obj).Elem()) // as built: no SetFlags has run yet
			setFlagsDeep(reflect.ValueOf(obj))
			data, eerr, p := encodeSafe(obj)
			name := ct.Pkg + "." + ct.GoName
			if p != nil {
				c.Fail("encode-panic", name+" "+w.showObj(ct, obj), fmt.Sprint(p))
				continue
			}
			if eerr != nil {
				c.Fail("encode-error", name+" "+w.showObj(ct, obj), eerr.Error())
				continue
			}
			sx := w.showObj(ct, obj) // after Encode: SetFlags has run
			gtag := w.genericTag(ct, obj)
			in := fmt.Sprintf("dec C%d%s %s", ct.Idx, gtag, hc.Hex(data))
			c.Count("pkg." + ct.Pkg)
			c.Count(fmt.Sprintf("value.bytes<%d", bucket(len(data))))
			c.Eval(in, len(ct.Fields) > 0)
			// --- property monitor on the implementation alone
			back := w.newObj[ct.Idx]()
			if ct.Generic {
				presetGeneric(ct, obj, back)
			}
			rest, derr, p := decodeSafe(back, data)
			switch {
			case p != nil:
				c.Fail("decode-panic", name+" "+hc.Hex(data), fmt.Sprint(p))
			case derr != nil:
				c.Fail("roundtrip-decode-error", name+" "+sx+" "+hc.Hex(data), derr.Error())
			case rest != 0:
				c.Fail("roundtrip-leftover", name+" "+sx+" "+hc.Hex(data), fmt.Sprintf("%d bytes left", rest))
			default:
				if got := w.showObj(ct, back); got != sx {
					c.Fail("roundtrip-value", name+" "+sx+" "+hc.Hex(data), "decoded "+got)
				}
				again, eerr, p := encodeSafe(back)
				if p != nil || eerr != nil || !bytes.Equal(again, data) {
					c.Fail("roundtrip-bytes", name+" "+sx+" "+hc.Hex(data), fmt.Sprintf("re-encoded %s err=%v panic=%v", hc.Hex(again), eerr, p))
				}
			}
			if ct.Generic {
				c.Count("generic")
			}
			q = append(q, pending{in, name + " " + in, "ok " + sx + " 0 same"})
			// SetFlags + Encode of the model on the value as built must give the same bytes
			if len(pre.String()) < 1<<20 {
				el := fmt.Sprintf("enc C%d%s %s", ct.Idx, gtag, pre.String())
				q = append(q, pending{el, name + " " + el, hc.Hex(data)})
			}
		}
		// --- arbitrary / mutated bytes
		var base []byte
		var baseObj bin.Object
		{
			g := &gen{w: w, r: r, budget: 60, maxD: 2}
			obj := w.newObj[ct.Idx]()
			g.fillCtor(ct, reflect.ValueOf(obj).Elem(), 0)
			baseObj = obj
			base, _, _ = encodeSafe(obj)
			if len(base) < 4 {
				base = []byte{byte(ct.ID), byte(ct.ID >> 8), byte(ct.ID >> 16), byte(ct.ID >> 24)}
			}
		}
		for j := 0; j < junkPer; j++ {
			data := mutate(r, base)
			name := ct.Pkg + "." + ct.GoName
			obj := w.newObj[ct.Idx]()
			gtag := ""
			if ct.Generic && r.Chance(70) { // otherwise the generic field stays nil: an error, not a panic
				presetGeneric(ct, baseObj, obj)
				gtag = w.genericTag(ct, obj)
			}
			in := fmt.Sprintf("dec C%d%s %s", ct.Idx, gtag, hc.Hex(data))
			rest, derr, p := decodeSafe(obj, data)
			c.Eval(in, true)
			if waste := maxSliceWaste(reflect.ValueOf(obj), 0); waste > 1024 {
				c.Fail("prealloc", name+" "+hc.Hex(data), fmt.Sprintf("a decoded slice has capacity %d", waste))
			}
			want := ""
			switch {
			case p != nil:
				key := "decode-panic"
				if ct.Generic && strings.Contains(fmt.Sprint(p), "nil pointer") {
					key = "decode-panic-nil-generic"
				}
				c.Fail(key, name+" "+hc.Hex(data), fmt.Sprint(p))
				c.Count("junk.panic")
				continue
			case derr != nil:
				want = "err " + errClass(derr)
				c.Count("junk." + want)
			default:
				consumed := data[:len(data)-rest]
				again, eerr, p := encodeSafe(obj)
				re := "same"
				if p != nil || eerr != nil {
					re = "unencodable"
				} else if !bytes.Equal(again, consumed) {
					re = "diff:" + hc.Hex(again)
				}
				want = fmt.Sprintf("ok %s %d %s", w.showObj(ct, obj), rest, re)
				c.Count("junk.ok." + strings.SplitN(re, ":", 2)[0])
			}
			q = append(q, pending{in, name + " " + in, want})
		}
	}
	// --- bounds near the end of input: values with long strings / bytes (253/254 switch and beyond,
	// every residue mod 4), every strict prefix within the last 16 bytes, every cut within ±9 bytes of
	// the end of each long string, some random prefixes; decoded from an exact-size buffer through the
	// constructor's Decode and through the interface decoder DecodeXxx.
	missingDec := 0
	ifaceOf := map[int]*Iface{}
	c.Note("interface decoder table: %d of %d DecodeXxx (%s)", len(ifaceDecoders), len(s.Ifaces), os.Getenv("VERIF_C21_TABLE"))
	for _, ifc := range s.Ifaces {
		if _, ok := ifaceDecoders[ifc.Pkg+"."+ifc.Func]; !ok {
			missingDec++
			continue
		}
		for _, r := range ifc.Refs {
			if _, ok := ifaceOf[r]; !ok {
				ifaceOf[r] = ifc
			}
		}
	}
	if missingDec > 0 {
		c.PartialNote(fmt.Sprintf("%d interface decoders could not be called directly in this run (table %s); they are exercised through nested fields only", missingDec, os.Getenv("VERIF_C21_TABLE")))
	}
	tailReps := c.N(1, 5)
	for _, ct := range w.inMap {
		if w.ctorD[ct.Idx] >= inf {
			continue
		}
		name := ct.Pkg + "." + ct.GoName
		for rep := 0; rep < tailReps; rep++ {
			g := &gen{w: w, r: r, budget: hc.Pick(r, 8, 30, 60), maxD: hc.Pick(r, 1, 2, 2, 3), longStr: true}
			obj := w.newObj[ct.Idx]()
			g.fillCtor(ct, reflect.ValueOf(obj).Elem(), 0)
			setFlagsDeep(reflect.ValueOf(obj))
			data, eerr, p := encodeSafe(obj)
			if p != nil || eerr != nil {
				c.Fail("encode-error", name+" "+w.showObj(ct, obj), fmt.Sprint(eerr, p))
				continue
			}
			n := len(data)
			cuts := map[int]bool{}
			for k := 1; k <= 16 && k <= n; k++ {
				cuts[n-k] = true
			}
			for _, l := range g.longs {
				if idx := bytes.Index(data, l); idx >= 0 {
					end := idx + len(l)
					for d := -9; d <= 4; d++ {
						if x := end + d; x >= 0 && x < n {
							cuts[x] = true
						}
					}
					if idx-1 >= 0 {
						cuts[idx-1], cuts[idx] = true, true // inside / right after the length header
					}
				}
			}
			for k := 0; k < 3 && n > 0; k++ {
				cuts[r.Intn(n)] = true
			}
			cuts[n] = true // the complete message must decode
			order := make([]int, 0, len(cuts))
			for x := range cuts {
				order = append(order, x)
			}
			sort.Ints(order)
			if len(g.longs) > 0 {
				c.Count("tail.with-long-string")
			} else {
				c.Count("tail.no-long-string")
			}
			ifc := ifaceOf[ct.Idx]
			for _, cut := range order {
				in := data[:cut]
				// constructor Decode
				back := w.newObj[ct.Idx]()
				if ct.Generic {
					presetGeneric(ct, obj, back)
				}
				rest, derr, p := decodeSafe(back, in)
				line := fmt.Sprintf("dec C%d%s %s", ct.Idx, w.genericTag(ct, obj), hc.Hex(in))
				c.Eval(line, true)
				c.Count("tail.cut")
				want := ""
				switch {
				case p != nil:
					c.Fail("decode-panic", fmt.Sprintf("%s prefix %d/%d %s", name, cut, n, hc.Hex(in)), fmt.Sprint(p))
				case derr != nil:
					want = "err " + errClass(derr)
				default:
					if cut < n && rest == 0 {
						// a strict prefix decoded completely: only possible when the cut removed nothing the
						// decoder reads (never the case for canonical encodings)
						c.Count("tail.prefix-decoded")
					}
					again, eerr, p2 := encodeSafe(back)
					re := "same"
					if p2 != nil || eerr != nil {
						re = "unencodable"
					} else if !bytes.Equal(again, in[:len(in)-rest]) {
						re = "diff:" + hc.Hex(again)
					}
					want = fmt.Sprintf("ok %s %d %s", w.showObj(ct, back), rest, re)
				}
				if want != "" {
					q = append(q, pending{line, name + " " + line, want})
				}
				// interface decoder
				if ifc == nil {
					continue
				}
				fn := ifaceDecoders[ifc.Pkg+"."+ifc.Func]
				got, rest2, derr2, p3 := decodeIfaceSafe(fn, in)
				c.Count("tail.iface-cut")
				iline := fmt.Sprintf("dec B%d %s", ifc.Idx, hc.Hex(in))
				switch {
				case p3 != nil:
					c.Fail("decode-panic", fmt.Sprintf("%s.Decode%s prefix %d/%d %s", ifc.Pkg, ifc.Func, cut, n, hc.Hex(in)), fmt.Sprint(p3))
					continue
				case derr2 != nil:
					want = "err " + errClass(derr2)
				default:
					gc := w.byType[reflect.TypeOf(got).Elem()]
					if gc == nil {
						c.Fail("decode-unknown-type", iline, fmt.Sprintf("%T", got))
						continue
					}
					again, eerr, p2 := encodeSafe(got)
					re := "same"
					if p2 != nil || eerr != nil {
						re = "unencodable"
					} else if !bytes.Equal(again, in[:len(in)-rest2]) {
						re = "diff:" + hc.Hex(again)
					}
					want = fmt.Sprintf("ok %s %d %s", w.showObj(gc, got), rest2, re)
				}
				if !ct.Generic && (cut >= n-4 || r.Chance(25)) { // DecodeXxx creates the object itself: its generic field is nil
					c.Eval(iline, true)
					q = append(q, pending{iline, ifc.Pkg + ".Decode" + ifc.Func + " " + iline, want})
				}
			}
		}
	}
	// --- nesting budget (bin.MaxNestingDepth): self-nesting constructors just below / at / above the limit
	for k, nc := range cands {
		if k >= c.N(2, 6) {
			break
		}
		for _, depth := range []int{1, 2, 998, 999, 1000, 1001, 1002, 1500} {
			data := make([]byte, 0, 4*depth+4)
			for i := 0; i < depth; i++ {
				data = append(data, byte(nc.outer.ID), byte(nc.outer.ID>>8), byte(nc.outer.ID>>16), byte(nc.outer.ID>>24))
			}
			data = append(data, byte(nc.inner.ID), byte(nc.inner.ID>>8), byte(nc.inner.ID>>16), byte(nc.inner.ID>>24))
			name := fmt.Sprintf("%s.%s x %d", nc.outer.Pkg, nc.outer.GoName, depth)
			obj := w.newObj[nc.outer.Idx]()
			rest, derr, p := decodeSafe(obj, data)
			line := fmt.Sprintf("dec C%d %s", nc.outer.Idx, hc.Hex(data))
			c.Eval(line, true)
			c.Count("nesting.case")
			want := ""
			switch {
			case p != nil:
				c.Fail("decode-panic", name, fmt.Sprint(p))
				continue
			case derr != nil:
				want = "err " + errClass(derr)
				c.Count("nesting." + want)
			default:
				want = fmt.Sprintf("ok %s %d same", w.showObj(nc.outer, obj), rest)
				c.Count("nesting.ok")
			}
			q = append(q, pending{line, name + " " + line, want})
			if ifc := ifaceOf[nc.outer.Idx]; ifc != nil {
				got, rest2, derr2, p3 := decodeIfaceSafe(ifaceDecoders[ifc.Pkg+"."+ifc.Func], data)
				iline := fmt.Sprintf("dec B%d %s", ifc.Idx, hc.Hex(data))
				switch {
				case p3 != nil:
					c.Fail("decode-panic", name+" via Decode"+ifc.Func, fmt.Sprint(p3))
					continue
				case derr2 != nil:
					want = "err " + errClass(derr2)
				default:
					want = fmt.Sprintf("ok %s %d same", w.showObj(w.byType[reflect.TypeOf(got).Elem()], got), rest2)
				}
				c.Eval(iline, true)
				q = append(q, pending{iline, name + " via Decode" + ifc.Func + " " + iline, want})
			}
		}
	}
	c.Res.Rule = "per constructor reachable from the three TypesConstructorMaps: random TL-consistent values built by reflection (nesting depth ≤ 4, node budget 5..400, optional groups on/off, vectors 0..3 and 1023..2050, strings at 0/253/254/255/65536/2^20 boundaries, int32/int64 boundaries, NaN patterns); non-trivial = constructor has at least one field; then mutated encodings (truncation, bit flips, interesting words, noise; all non-trivial); then the end-of-input stream: values whose strings/bytes are 253..1025 bytes long (all residues mod 4) and vectors of 253..256 elements, cut at every strict prefix within the last 16 bytes, within -9..+4 bytes of the end of each long string, at its length header and at random points, decoded from buffers with cap == len through the constructor's Decode and the interface's DecodeXxx; distinct = distinct request line"
	c.PartialNote("Go stack consumption cannot be exhibited by the model; the model has the nesting budget of bin.Buffer (tl_nesting_bounded), and the sub-process crash search decodes the deepest nesting a payload can carry")
	c.PartialNote("values are TL values: Go structs that are not the image of one (int outside int32, a true-flag bool that disagrees with its flag bit) are outside the quantifier")
	lines := make([]string, len(q))
	for i := range q {
		lines[i] = q[i].line
	}
	outs, err := c.Drv.Batch(lines)
	if err != nil {
		return err
	}
	for i, o := range outs {
		if o == "err other:depth" {
			o = "err depth"
		} else if strings.HasPrefix(o, "err other:") {
			o = "err other"
		}
		if c.Compare(q[i].input, q[i].want, o) {
			c.Res.TracesValidated++
		}
	}
	return nil
}

func candNames(cs []nestCand, n int) string {
	var out []string
	for i, x := range cs {
		if i >= n {
			break
		}
		out = append(out, x.outer.Pkg+"."+x.outer.GoName)
	}
	return strings.Join(out, ", ")
}

func bucket(n int) int {
	b := 16
	for b < n {
		b *= 4
	}
	return b
}

// presetGeneric gives `back` a Query object of the same dynamic type as obj's (the generated
// Decode of a bin.Object field decodes into whatever the field already holds).
func presetGeneric(ct *Ctor, obj, back bin.Object) {
	for i, f := range ct.Fields {
		if f.Ty.K == "generic" {
			src := reflect.ValueOf(obj).Elem().Field(i)
			if !src.IsNil() {
				reflect.ValueOf(back).Elem().Field(i).Set(reflect.New(src.Elem().Type().Elem()))
			}
		}
	}
}

// tyCodes is the numeric encoding of a type read by TdModel.C21.tyOfCodes.
func tyCodes(t *Ty) string {
	var out []string
	for {
		switch t.K {
		case "int":
			out = append(out, "0")
		case "long":
			out = append(out, "1")
		case "double":
			out = append(out, "2")
		case "i128":
			out = append(out, "3")
		case "i256":
			out = append(out, "4")
		case "str", "bytes":
			out = append(out, "5")
		case "bool":
			out = append(out, "6")
		case "true":
			out = append(out, "7")
		case "flags":
			out = append(out, "8")
		case "generic":
			out = append(out, "9")
		case "iface":
			out = append(out, "10", fmt.Sprint(t.Ref))
		case "ctor":
			out = append(out, "11", fmt.Sprint(t.Ref))
		case "bare":
			out = append(out, "12", fmt.Sprint(t.Ref))
		case "vec":
			if t.BareHdr {
				out = append(out, "14")
			} else {
				out = append(out, "13")
			}
			t = t.Elem
			continue
		default:
			out = append(out, "99")
		}
		return "[" + strings.Join(out, ", ") + "]"
	}
}

func coreN(s *Schema, ctors bool) int {
	n := 0
	if ctors {
		for _, c := range s.Ctors {
			if c.Pkg == "tg" {
				break
			}
			n++
		}
		return n
	}
	for _, i := range s.Ifaces {
		if i.Pkg == "tg" {
			break
		}
		n++
	}
	return n
}

// writeDecoderTable regenerates the table of generated interface decoders (DecodeXxx) from the
// interfaces the translator finds in the current source. The file carries the build tag c21table.
func writeDecoderTable(out string) error {
	s, err := buildSchema(repoDir())
	if err != nil {
		return err
	}
	var b strings.Builder
	b.WriteString("//go:build c21table\n\n// Code generated by the C21 harness (writeDecoderTable); DO NOT EDIT.\n\npackage main\n\nimport (\n\t\"github.com/gotd/td/bin\"\n")
	pk := map[string]bool{}
	for _, i := range s.Ifaces {
		pk[i.Pkg] = true
	}
	for _, p := range [][2]string{{"mt", "github.com/gotd/td/mt"}, {"tg", "github.com/gotd/td/tg"}, {"e2e", "github.com/gotd/td/tg/e2e"}} {
		if pk[p[0]] {
			fmt.Fprintf(&b, "\t%q\n", p[1])
		}
	}
	b.WriteString(")\n\nconst haveTable = true\n\nfunc wrap[T bin.Object](f func(*bin.Buffer) (T, error)) func(*bin.Buffer) (bin.Object, error) {\n\treturn func(b *bin.Buffer) (bin.Object, error) {\n\t\tv, err := f(b)\n\t\tif err != nil {\n\t\t\treturn nil, err\n\t\t}\n\t\treturn v, nil\n\t}\n}\n\nvar ifaceDecoders = map[string]func(*bin.Buffer) (bin.Object, error){\n")
	for _, i := range s.Ifaces {
		fmt.Fprintf(&b, "\t%q: wrap(%s.Decode%s),\n", i.Pkg+"."+i.Func, i.Pkg, i.Func)
	}
	b.WriteString("}\n")
	if old, err := os.ReadFile(out); err == nil && string(old) == b.String() {
		return nil
	}
	tmp := fmt.Sprintf("%s.%d.tmp", out, os.Getpid())
	if err := os.WriteFile(tmp, []byte(b.String()), 0o644); err != nil {
		return err
	}
	return os.Rename(tmp, out)
}

// reexecWithTable regenerates decoders_gen.go, rebuilds this harness with the build tag c21table
// and replaces the process with the result. On any failure the run continues without the table
// (the interface decoders are then exercised only through nested fields) and says so in a note.
func reexecWithTable() {
	fail := func(why string) { os.Setenv("VERIF_C21_TABLE", "unavailable: "+why) }
	exe, err := os.Executable()
	if err != nil {
		fail(err.Error())
		return
	}
	hdir := filepath.Join(filepath.Dir(filepath.Dir(exe)), "harness")
	if _, err := os.Stat(filepath.Join(hdir, "c21", "main.go")); err != nil {
		fail("harness sources not found next to the binary")
		return
	}
	if err := writeDecoderTable(filepath.Join(hdir, "c21", "decoders_gen.go")); err != nil {
		fail(err.Error())
		return
	}
	full := exe + "-full"
	cmd := exec.Command("go", "build", "-tags", "verif c21table", "-o", full, "./c21")
	cmd.Dir = hdir
	env := []string{}
	for _, e := range os.Environ() {
		if strings.HasPrefix(e, "GOSUMDB=") || strings.HasPrefix(e, "GOFLAGS=") || strings.HasPrefix(e, "GOPROXY=") {
			continue
		}
		env = append(env, e)
	}
	cmd.Env = append(env, "GOFLAGS=-mod=mod", "GOPROXY=off")
	if out, err := cmd.CombinedOutput(); err != nil {
		msg := string(out)
		if len(msg) > 600 {
			msg = msg[len(msg)-600:]
		}
		fail("go build -tags c21table: " + strings.ReplaceAll(msg, "\n", " | "))
		return
	}
	os.Setenv("VERIF_C21_TABLE", "built")
	if err := syscall.Exec(full, append([]string{full}, os.Args[1:]...), os.Environ()); err != nil {
		fail("exec: " + err.Error())
	}
}

// writeFullSchema writes the whole translated schema as Lean terms (for the kernel) next to the facts
// file: Gen/C21FullA..C.lean (constructor rows, built in parallel) and Gen/C21Full.lean (interfaces,
// the per-interface (constructor, id) certificate, the ids in chunks, `fullSchema`).
func writeFullSchema(s *Schema, dir string) error {
	row := func(c *Ctor) string {
		var fs []string
		for _, fl := range c.Fields {
			cond := "none"
			if fl.Cond {
				cond = fmt.Sprintf("some (%d, %d)", fl.FlagIdx, fl.Bit)
			}
			fs = append(fs, fmt.Sprintf("(%s, %s)", tyCodes(fl.Ty), cond))
		}
		id := "none"
		if c.HasID {
			id = fmt.Sprintf("some 0x%08x", c.ID)
		}
		return fmt.Sprintf("  (%s, %v, [%s])", id, c.Bad != "", strings.Join(fs, ", "))
	}
	const perPart = 100
	nParts := (len(s.Ctors) + perPart - 1) / perPart
	files := []string{"A", "B", "C"}
	per := (nParts + len(files) - 1) / len(files)
	write := func(name, body string) error {
		p := filepath.Join(dir, name)
		if old, err := os.ReadFile(p); err == nil && string(old) == body {
			return nil
		}
		return os.WriteFile(p, []byte(body), 0o644)
	}
	var partNames []string
	for fi, fn := range files {
		var b strings.Builder
		b.WriteString("/- GENERATED by harness/c21 facts. Do not edit. -/\nimport TdModel.Model.C21\nnamespace TdModel.Facts.C21Full\n")
		for p := fi * per; p < (fi+1)*per && p < nParts; p++ {
			lo, hi := p*perPart, (p+1)*perPart
			if hi > len(s.Ctors) {
				hi = len(s.Ctors)
			}
			var rows []string
			for _, c := range s.Ctors[lo:hi] {
				rows = append(rows, row(c))
			}
			fmt.Fprintf(&b, "def part%d : List (Option Nat × Bool × List (List Nat × Option (Nat × Nat))) := [\n%s]\n", p, strings.Join(rows, ",\n"))
			partNames = append(partNames, fmt.Sprintf("part%d", p))
		}
		b.WriteString("end TdModel.Facts.C21Full\n")
		if err := write("C21Full"+fn+".lean", b.String()); err != nil {
			return err
		}
	}
	var b strings.Builder
	b.WriteString("/- GENERATED by harness/c21 facts. Do not edit. -/\nimport TdModel.Gen.C21FullA\nimport TdModel.Gen.C21FullB\nimport TdModel.Gen.C21FullC\nnamespace TdModel.Facts.C21Full\nopen TdModel.C21\n")
	fmt.Fprintf(&b, "def allCtors := List.flatten [%s]\n", strings.Join(partNames, ", "))
	chunked := func(name, typ string, items []string, per int) {
		var names []string
		for i := 0; i < len(items); i += per {
			j := i + per
			if j > len(items) {
				j = len(items)
			}
			n := fmt.Sprintf("%s_%d", name, i/per)
			fmt.Fprintf(&b, "def %s : %s := [%s]\n", n, typ, strings.Join(items[i:j], ", "))
			names = append(names, n)
		}
		fmt.Fprintf(&b, "def %s : %s := List.flatten [%s]\n", name, typ, strings.Join(names, ", "))
	}
	var ifItems, certItems []string
	for _, i := range s.Ifaces {
		var rs, ps []string
		for _, r := range i.Refs {
			rs = append(rs, fmt.Sprint(r))
			ps = append(ps, fmt.Sprintf("(%d, 0x%08x)", r, s.Ctors[r].ID))
		}
		ifItems = append(ifItems, "["+strings.Join(rs, ", ")+"]")
		certItems = append(certItems, "["+strings.Join(ps, ", ")+"]")
	}
	chunked("allIfaces", "List (List Nat)", ifItems, 40)
	chunked("cert", "List (List (Nat × Nat))", certItems, 40)
	const idsPer = 52
	var chunkNames []string
	for i := 0; i < len(s.Ctors); i += idsPer {
		j := i + idsPer
		if j > len(s.Ctors) {
			j = len(s.Ctors)
		}
		var ids []string
		for _, c := range s.Ctors[i:j] {
			if c.HasID {
				ids = append(ids, fmt.Sprintf("some 0x%08x", c.ID))
			} else {
				ids = append(ids, "none")
			}
		}
		n := fmt.Sprintf("ids_%d", i/idsPer)
		fmt.Fprintf(&b, "def %s : Nat × List (Option Nat) := (%d, [%s])\n", n, j-i, strings.Join(ids, ", "))
		chunkNames = append(chunkNames, n)
	}
	fmt.Fprintf(&b, "def idChunks : List (Nat × List (Option Nat)) := [%s]\n", strings.Join(chunkNames, ", "))
	b.WriteString("/-- the whole translated schema (mt, e2e, tg) as a Lean term -/\ndef fullSchema : Schema := { ctors := (allCtors.map ctorOfCodes).toArray, ifaces := allIfaces.toArray }\n")
	b.WriteString("end TdModel.Facts.C21Full\n")
	return write("C21Full.lean", b.String())
}
