garbage
