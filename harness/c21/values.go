// Value generation by reflection, canonical S-expressions, and the Go side of encode/decode.
package main

import (
	"errors"
	"fmt"
	"io"
	"math"
	"reflect"
	"sort"
	"strconv"
	"strings"

	"github.com/gotd/td/bin"
	"github.com/gotd/td/mt"
	"github.com/gotd/td/tg"
	"github.com/gotd/td/tg/e2e"

	"verif/harness/hc"
)

// world ties the translated schema to the Go types reachable from the three TypesConstructorMaps.
type world struct {
	s      *Schema
	newObj map[int]func() bin.Object // ctor idx -> constructor from the type map
	byType map[reflect.Type]*Ctor    // struct type -> ctor
	inMap  []*Ctor                   // constructors reachable from TypesConstructorMap, by idx
	ctorD  []int                     // minimal nesting depth needed to build a value
	ifD    []int
	ifBest []int         // ctor with minimal depth per interface
	ifImpl map[int][]int // interface -> constructors whose Go type implements it
	extra  []string
}

const inf = 1 << 20

func newWorld(s *Schema) *world {
	w := &world{s: s, newObj: map[int]func() bin.Object{}, byType: map[reflect.Type]*Ctor{}}
	for _, m := range []struct {
		pkg string
		tm  map[uint32]func() bin.Object
	}{{"mt", mt.TypesConstructorMap()}, {"e2e", e2e.TypesConstructorMap()}, {"tg", tg.TypesConstructorMap()}} {
		ids := make([]uint32, 0, len(m.tm))
		for id := range m.tm {
			ids = append(ids, id)
		}
		sort.Slice(ids, func(i, j int) bool { return ids[i] < ids[j] })
		for _, id := range ids {
			fn := m.tm[id]
			t := reflect.TypeOf(fn()).Elem()
			c := s.byName[m.pkg+"."+t.Name()]
			if c == nil || !c.HasID || c.ID != id {
				w.extra = append(w.extra, fmt.Sprintf("%s.%s#%08x is in TypesConstructorMap but not in the translated schema", m.pkg, t.Name(), id))
				continue
			}
			w.newObj[c.Idx] = fn
			w.byType[t] = c
			w.inMap = append(w.inMap, c)
		}
	}
	sort.Slice(w.inMap, func(i, j int) bool { return w.inMap[i].Idx < w.inMap[j].Idx })
	// Members of every interface according to the Go type system (which *T implement XClass),
	// independent of the switch in DecodeX that the translator read.
	w.ifImpl = map[int][]int{}
	ifType := map[int]reflect.Type{}
	var findIf func(t *Ty, rt reflect.Type)
	findIf = func(t *Ty, rt reflect.Type) {
		switch t.K {
		case "iface":
			if rt.Kind() == reflect.Interface {
				ifType[t.Ref] = rt
			}
		case "vec":
			if rt.Kind() == reflect.Slice {
				findIf(t.Elem, rt.Elem())
			}
		}
	}
	for _, c := range w.inMap {
		rt := reflect.TypeOf(w.newObj[c.Idx]()).Elem()
		if rt.NumField() != len(c.Fields) {
			continue
		}
		for i, f := range c.Fields {
			findIf(f.Ty, rt.Field(i).Type)
		}
	}
	for idx, it := range ifType {
		for _, c := range w.inMap {
			if c.Pkg != s.Ifaces[idx].Pkg {
				continue
			}
			if reflect.PointerTo(reflect.TypeOf(w.newObj[c.Idx]()).Elem()).Implements(it) {
				w.ifImpl[idx] = append(w.ifImpl[idx], c.Idx)
			}
		}
		a := append([]int{}, s.Ifaces[idx].Refs...)
		sort.Ints(a)
		if fmt.Sprint(a) != fmt.Sprint(w.ifImpl[idx]) {
			w.extra = append(w.extra, fmt.Sprintf("interface %s.%s: Decode%s switches over constructors %v, the Go types implementing it are %v",
				s.Ifaces[idx].Pkg, s.Ifaces[idx].GoName, s.Ifaces[idx].Func, a, w.ifImpl[idx]))
		}
	}
	// minimal depths (least fixpoint)
	w.ctorD = make([]int, len(s.Ctors))
	w.ifD = make([]int, len(s.Ifaces))
	w.ifBest = make([]int, len(s.Ifaces))
	for i := range w.ctorD {
		w.ctorD[i] = inf
	}
	for i := range w.ifD {
		w.ifD[i] = inf
		w.ifBest[i] = -1
	}
	var tyD func(t *Ty) int
	tyD = func(t *Ty) int {
		switch t.K {
		case "iface":
			return w.ifD[t.Ref]
		case "ctor", "bare":
			return w.ctorD[t.Ref]
		case "generic":
			return 1
		}
		return 0
	}
	for changed := true; changed; {
		changed = false
		for _, c := range s.Ctors {
			if fn, ok := w.newObj[c.Idx]; ok && reflect.TypeOf(fn()).Elem().NumField() != len(c.Fields) {
				continue // translation stopped inside this constructor: no value can be built
			}
			d := 0
			for _, f := range c.Fields {
				if !f.Cond {
					if x := tyD(f.Ty); x > d {
						d = x
					}
				}
			}
			if d < inf && d+1 < w.ctorD[c.Idx] {
				w.ctorD[c.Idx] = d + 1
				changed = true
			}
		}
		for _, ifc := range s.Ifaces {
			for _, r := range ifc.Refs {
				if _, ok := w.newObj[r]; !ok {
					continue
				}
				if w.ctorD[r] < w.ifD[ifc.Idx] {
					w.ifD[ifc.Idx] = w.ctorD[r]
					w.ifBest[ifc.Idx] = r
					changed = true
				}
			}
		}
	}
	return w
}

// gen builds one random TL-consistent value.
type gen struct {
	w      *world
	r      *hc.RNG
	budget int // remaining nodes
	maxD   int
	big    bool // allow long strings / long vectors

	longStr bool     // draw string/bytes lengths at and beyond the 253/254 switch
	longs   [][]byte // the long contents generated (to locate their ends in the encoding)
}

func (g *gen) str() []byte {
	r := g.r
	n := 0
	if g.longStr && r.Chance(40) {
		// long form (>= 254) at and beyond the short/long switch, lengths of every residue mod 4
		n = hc.Pick(r, 253, 254, 255, 256, 257, 258, 259, 260, 261, 300, 301, 302, 303, 1021, 1022, 1023, 1024, 1025, r.Range(254, 700))
		b := r.Bytes(n)
		for i := range b {
			b[i] = 'a' + b[i]%26
		}
		g.longs = append(g.longs, b)
		return b
	}
	switch r.Intn(10) {
	case 0:
		n = 0
	case 1, 2, 3, 4, 5:
		n = r.Range(1, 12)
	case 6:
		n = hc.Pick(r, 1, 2, 3, 4, 5, 7, 8)
	case 7:
		n = hc.Pick(r, 252, 253, 254, 255, 256, 257)
	case 8:
		n = r.Range(13, 300)
	case 9:
		if g.big {
			n = hc.Pick(r, 65535, 65536, 70000, 1<<20+3)
			g.big = false
		} else {
			n = r.Range(1, 40)
		}
	}
	b := r.Bytes(n)
	if r.Chance(60) { // mostly printable
		for i := range b {
			b[i] = 'a' + b[i]%26
		}
	}
	return b
}

func (g *gen) i64() int64 {
	r := g.r
	switch r.Intn(6) {
	case 0:
		return 0
	case 1:
		return int64(r.Intn(1000))
	case 2:
		return hc.Pick[int64](r, -1, 1, math.MaxInt64, math.MinInt64, math.MaxInt32, math.MinInt32, 1<<32, 0x997275b5, 0x1cb5c415)
	}
	return int64(r.U64())
}

func (g *gen) i32() int64 {
	r := g.r
	switch r.Intn(6) {
	case 0:
		return 0
	case 1:
		return int64(r.Intn(1000))
	case 2:
		return hc.Pick[int64](r, -1, 1, math.MaxInt32, math.MinInt32, 1024, 1023, 0x1cb5c415)
	}
	return int64(int32(r.U64()))
}

func (g *gen) fillTy(t *Ty, fv reflect.Value, depth int) {
	r := g.r
	g.budget--
	switch t.K {
	case "int":
		fv.SetInt(g.i32())
	case "long":
		fv.SetInt(g.i64())
	case "double":
		var bits uint64
		switch r.Intn(5) {
		case 0:
			bits = math.Float64bits(float64(r.Intn(100)) / 4)
		case 1:
			bits = hc.Pick[uint64](r, 0, 1<<63, 0x7ff0000000000000, 0xfff0000000000000, 0x7ff8000000000001, 1)
		default:
			bits = r.U64()
		}
		fv.SetFloat(math.Float64frombits(bits))
	case "i128", "i256":
		reflect.Copy(fv, reflect.ValueOf(r.Bytes(fv.Len())))
	case "str":
		fv.SetString(string(g.str()))
	case "bytes":
		// an empty value is left nil, as for vectors: SetFlags tests `== nil`, so a non-nil empty
		// []byte counts as present; that Go-only distinction has no TL counterpart
		if p := g.str(); len(p) > 0 {
			fv.SetBytes(p)
		}
	case "bool":
		fv.SetBool(r.Bool())
	case "iface":
		ifc := g.w.s.Ifaces[t.Ref]
		var pick int
		if depth >= g.maxD || g.budget <= 0 {
			pick = g.w.ifBest[t.Ref]
		} else {
			// any constructor that can still be completed
			for tries := 0; ; tries++ {
				members := ifc.Refs
				if m := g.w.ifImpl[t.Ref]; len(m) > 0 {
					members = m
				}
				pick = members[r.Intn(len(members))]
				if _, ok := g.w.newObj[pick]; ok && g.w.ctorD[pick] < inf {
					break
				}
				if tries > 50 {
					pick = g.w.ifBest[t.Ref]
					break
				}
			}
		}
		obj := g.w.newObj[pick]()
		g.fillCtor(g.w.s.Ctors[pick], reflect.ValueOf(obj).Elem(), depth+1)
		fv.Set(reflect.ValueOf(obj))
	case "ctor", "bare":
		g.fillCtor(g.w.s.Ctors[t.Ref], fv, depth+1)
	case "generic":
		// any non-generic constructor of the same package may be the object held
		var pick *Ctor
		for tries := 0; tries < 200; tries++ {
			c := g.w.inMap[r.Intn(len(g.w.inMap))]
			if c.Pkg == "tg" && !c.Generic && g.w.ctorD[c.Idx] < inf && (depth < g.maxD || len(c.Fields) == 0 || tries > 100) {
				pick = c
				break
			}
		}
		if pick == nil {
			fv.Set(reflect.ValueOf(&tg.HelpGetNearestDCRequest{}))
			return
		}
		obj := g.w.newObj[pick.Idx]()
		g.fillCtor(pick, reflect.ValueOf(obj).Elem(), depth+1)
		fv.Set(reflect.ValueOf(obj))
	case "vec":
		n := 0
		if depth < g.maxD && g.budget > 0 {
			n = hc.Pick(r, 0, 1, 1, 2, 3)
			if g.longStr && r.Chance(4) && (t.Elem.K == "int" || t.Elem.K == "long" || t.Elem.K == "str") {
				n = hc.Pick(r, 253, 254, 255, 256)
			}
			if g.big && r.Chance(3) && (t.Elem.K == "int" || t.Elem.K == "long") {
				n = hc.Pick(r, 1023, 1024, 1025, 2050)
				g.big = false
			}
		}
		if n == 0 {
			return
		}
		sl := reflect.MakeSlice(fv.Type(), n, n)
		for i := 0; i < n; i++ {
			g.fillTy(t.Elem, sl.Index(i), depth)
		}
		fv.Set(sl)
	default:
		panic("fill: unknown type " + t.K)
	}
}

// fillCtor fills the struct sv (type = c's Go struct) with a TL-consistent value: fields that
// share a flag bit are present together, true-flags equal their bit.
func (g *gen) fillCtor(c *Ctor, sv reflect.Value, depth int) {
	r := g.r
	if sv.NumField() != len(c.Fields) {
		panic(fmt.Sprintf("%s.%s: struct has %d fields, schema %d", c.Pkg, c.GoName, sv.NumField(), len(c.Fields)))
	}
	type key struct{ k, bit int }
	present := map[key]bool{}
	allow := depth < g.maxD && g.budget > 0
	for _, f := range c.Fields {
		if f.Cond {
			k := key{f.FlagIdx, f.Bit}
			if _, ok := present[k]; !ok {
				present[k] = allow && r.Chance(45)
			}
		}
	}
	var flagFields []int
	used := map[int]uint32{}
	for i, f := range c.Fields {
		fv := sv.Field(i)
		switch {
		case f.Ty.K == "flags":
			flagFields = append(flagFields, i)
		case f.Ty.K == "true":
			used[f.FlagIdx] |= 1 << uint(f.Bit)
			fv.SetBool(present[key{f.FlagIdx, f.Bit}])
		case f.Cond && !present[key{f.FlagIdx, f.Bit}]:
			used[f.FlagIdx] |= 1 << uint(f.Bit)
		default:
			if f.Cond {
				used[f.FlagIdx] |= 1 << uint(f.Bit)
			}
			g.fillTy(f.Ty, fv, depth)
		}
	}
	// Half of the time set the bits explicitly (a present field may then hold its zero value),
	// otherwise leave them to SetFlags (a field holding its zero value is then absent).
	for ord, i := range flagFields {
		var w uint32
		if r.Bool() {
			for k, p := range present {
				if p && k.k == ord {
					w |= 1 << uint(k.bit)
				}
			}
		}
		if r.Chance(8) { // bits no field reads are carried through unchanged
			w |= uint32(r.U64()) &^ used[ord]
		}
		sv.Field(i).SetUint(uint64(w))
	}
}

// show prints the canonical S-expression of a Go value (after Encode, i.e. after SetFlags).
func (w *world) show(b *strings.Builder, c *Ctor, sv reflect.Value) {
	b.WriteByte('(')
	b.WriteString(strconv.Itoa(c.Idx))
	b.WriteByte(':')
	var words []uint32
	for i, f := range c.Fields {
		if i > 0 {
			b.WriteByte(',')
		}
		fv := sv.Field(i)
		if f.Ty.K == "flags" {
			words = append(words, uint32(fv.Uint()))
			b.WriteString(strconv.FormatUint(fv.Uint(), 10))
			continue
		}
		if f.Cond {
			has := f.FlagIdx < len(words) && words[f.FlagIdx]&(1<<uint(f.Bit)) != 0
			if f.Ty.K == "true" {
				// the Go field itself is printed: a struct whose bool disagrees with its bit is visible
				if fv.Bool() {
					b.WriteByte('T')
				} else {
					b.WriteByte('F')
				}
				continue
			}
			if !has {
				b.WriteByte('_')
				continue
			}
		}
		w.showTy(b, f.Ty, fv)
	}
	b.WriteByte(')')
}

func hexs(p []byte) string {
	const d = "0123456789abcdef"
	out := make([]byte, 0, 1+2*len(p))
	out = append(out, 'x')
	for _, x := range p {
		out = append(out, d[x>>4], d[x&15])
	}
	return string(out)
}

func (w *world) showTy(b *strings.Builder, t *Ty, fv reflect.Value) {
	switch t.K {
	case "int":
		b.WriteString(strconv.FormatUint(uint64(uint32(int32(fv.Int()))), 10))
	case "long":
		b.WriteString(strconv.FormatUint(uint64(fv.Int()), 10))
	case "double":
		b.WriteString(strconv.FormatUint(math.Float64bits(fv.Float()), 10))
	case "i128", "i256":
		p := make([]byte, fv.Len())
		reflect.Copy(reflect.ValueOf(p), fv)
		b.WriteString(hexs(p))
	case "str":
		b.WriteString(hexs([]byte(fv.String())))
	case "bytes":
		b.WriteString(hexs(fv.Bytes()))
	case "bool":
		if fv.Bool() {
			b.WriteByte('T')
		} else {
			b.WriteByte('F')
		}
	case "iface":
		if fv.IsNil() {
			b.WriteString("nil")
			return
		}
		el := fv.Elem() // pointer
		c := w.byType[el.Type().Elem()]
		if c == nil {
			b.WriteString("unknown:" + el.Type().String())
			return
		}
		w.show(b, c, el.Elem())
	case "ctor", "bare":
		w.show(b, w.s.Ctors[t.Ref], fv)
	case "generic":
		if fv.IsNil() {
			b.WriteByte('_')
			return
		}
		el := fv.Elem()
		c := w.byType[el.Type().Elem()]
		if c == nil {
			b.WriteString("unknown:" + el.Type().String())
			return
		}
		w.show(b, c, el.Elem())
	case "vec":
		b.WriteByte('[')
		for i := 0; i < fv.Len(); i++ {
			if i > 0 {
				b.WriteByte(',')
			}
			w.showTy(b, t.Elem, fv.Index(i))
		}
		b.WriteByte(']')
	}
}

func (w *world) showObj(c *Ctor, obj bin.Object) string {
	var b strings.Builder
	w.show(&b, c, reflect.ValueOf(obj).Elem())
	return b.String()
}

func errClass(err error) string {
	var il *bin.InvalidLengthError
	var ui *bin.UnexpectedIDErr
	var nd *bin.NestingDepthError
	switch {
	case errors.As(err, &nd):
		return "depth"
	case errors.Is(err, io.ErrUnexpectedEOF):
		return "eof"
	case errors.As(err, &il):
		return "invalid-length"
	case errors.As(err, &ui):
		return "unexpected-id"
	}
	return "other"
}

func encodeSafe(obj bin.Object) (data []byte, err error, panicked any) {
	defer func() {
		if r := recover(); r != nil {
			panicked = r
		}
	}()
	var b bin.Buffer
	err = obj.Encode(&b)
	return b.Buf, err, nil
}

// exact returns a copy of data whose capacity equals its length, like a freshly read message:
// Go's slice expressions are checked against cap, so an over-read inside spare capacity would not
// panic (it would silently read stale bytes).
func exact(data []byte) []byte {
	buf := make([]byte, len(data))
	copy(buf, data)
	return buf[:len(data):len(data)]
}

func decodeSafe(obj bin.Object, data []byte) (rest int, err error, panicked any) {
	b := &bin.Buffer{Buf: exact(data)}
	defer func() {
		if r := recover(); r != nil {
			panicked = r
		}
	}()
	err = obj.Decode(b)
	return len(b.Buf), err, nil
}

// maxSliceWaste walks a (possibly partially decoded) value and returns the largest capacity of
// a slice whose capacity cannot be explained by appends (cap > 2*len+16).
func maxSliceWaste(v reflect.Value, depth int) int {
	if depth > 12 {
		return 0
	}
	m := 0
	switch v.Kind() {
	case reflect.Ptr, reflect.Interface:
		if !v.IsNil() {
			return maxSliceWaste(v.Elem(), depth+1)
		}
	case reflect.Struct:
		for i := 0; i < v.NumField(); i++ {
			if x := maxSliceWaste(v.Field(i), depth+1); x > m {
				m = x
			}
		}
	case reflect.Slice:
		if v.Cap() > 2*v.Len()+16 {
			m = v.Cap()
		}
		if v.Type().Elem().Kind() != reflect.Uint8 {
			for i := 0; i < v.Len(); i++ {
				if x := maxSliceWaste(v.Index(i), depth+1); x > m {
					m = x
				}
			}
		}
	}
	return m
}

// setFlagsDeep calls the generated SetFlags on every struct of the value tree. Encode does this
// itself for the receiver and for pointer/interface children, but struct-typed vector elements
// are encoded through a copy (`for _, v := range x.F { v.Encode(b) }`), so the caller's copy
// keeps Flags == 0; the canonical form of the *value* is the one after SetFlags everywhere.
func setFlagsDeep(v reflect.Value) {
	switch v.Kind() {
	case reflect.Ptr, reflect.Interface:
		if !v.IsNil() {
			setFlagsDeep(v.Elem())
		}
	case reflect.Struct:
		if v.CanAddr() {
			if m := v.Addr().MethodByName("SetFlags"); m.IsValid() {
				m.Call(nil)
			}
		}
		for i := 0; i < v.NumField(); i++ {
			setFlagsDeep(v.Field(i))
		}
	case reflect.Slice:
		if v.Type().Elem().Kind() == reflect.Uint8 {
			return
		}
		for i := 0; i < v.Len(); i++ {
			setFlagsDeep(v.Index(i))
		}
	}
}

// showPre prints the value as the caller built it, *before* any SetFlags, as a plain view of the
// Go struct: the stored flags word, and every conditional field with its Go value (zero values
// included; a nil interface or an all-zero struct prints `_`). The model applies its own `normVal`
// (SetFlags + presence) to this before encoding.
func (w *world) showPre(b *strings.Builder, c *Ctor, sv reflect.Value) {
	b.WriteByte('(')
	b.WriteString(strconv.Itoa(c.Idx))
	b.WriteByte(':')
	var words []uint32
	for i, f := range c.Fields {
		if i > 0 {
			b.WriteByte(',')
		}
		fv := sv.Field(i)
		switch {
		case f.Ty.K == "flags":
			words = append(words, uint32(fv.Uint()))
			b.WriteString(strconv.FormatUint(fv.Uint(), 10))
		case f.Cond && f.Ty.K == "iface" && fv.IsNil():
			b.WriteByte('_')
		default:
			w.showTyPre(b, f.Ty, fv)
		}
	}
	b.WriteByte(')')
}

func (w *world) showTyPre(b *strings.Builder, t *Ty, fv reflect.Value) {
	switch t.K {
	case "true":
		if fv.Bool() {
			b.WriteByte('T')
		} else {
			b.WriteByte('F')
		}
	case "iface":
		if fv.IsNil() {
			b.WriteByte('_')
			return
		}
		el := fv.Elem()
		c := w.byType[el.Type().Elem()]
		if c == nil {
			b.WriteString("unknown")
			return
		}
		w.showPre(b, c, el.Elem())
	case "ctor", "bare":
		w.showPre(b, w.s.Ctors[t.Ref], fv)
	case "vec":
		b.WriteByte('[')
		for i := 0; i < fv.Len(); i++ {
			if i > 0 {
				b.WriteByte(',')
			}
			w.showTyPre(b, t.Elem, fv.Index(i))
		}
		b.WriteByte(']')
	case "generic":
		if fv.IsNil() {
			b.WriteByte('_')
			return
		}
		el := fv.Elem()
		if c := w.byType[el.Type().Elem()]; c != nil {
			w.showPre(b, c, el.Elem())
		} else {
			b.WriteString("unknown")
		}
	default:
		w.showTy(b, t, fv)
	}
}

// decodeIfaceSafe runs a generated DecodeXxx on an exact-size copy of data.
func decodeIfaceSafe(fn func(*bin.Buffer) (bin.Object, error), data []byte) (obj bin.Object, rest int, err error, panicked any) {
	b := &bin.Buffer{Buf: exact(data)}
	defer func() {
		if r := recover(); r != nil {
			panicked = r
		}
	}()
	obj, err = fn(b)
	return obj, len(b.Buf), err, nil
}

// genericTag returns "@<ctor>" naming the constructor of the object a generic field of obj holds
// (the decode parameter of the model), or "" when there is none.
func (w *world) genericTag(ct *Ctor, obj bin.Object) string {
	for i, f := range ct.Fields {
		if f.Ty.K == "generic" {
			fv := reflect.ValueOf(obj).Elem().Field(i)
			if fv.IsNil() {
				return ""
			}
			if c := w.byType[fv.Elem().Type().Elem()]; c != nil {
				return "@" + strconv.Itoa(c.Idx)
			}
		}
	}
	return ""
}
