// Translator: derives the TL schema (constructors, field order, field types, flag conditions,
// interfaces) from the *generated Go code itself* — the bodies of DecodeBare / EncodeBare /
// SetFlags / DecodeXxx and the XxxTypeID constants in tg/, mt/, tg/e2e/ — with go/ast.
// It fails closed: a statement form it does not know marks the constructor `Bad`, which makes
// `Schema.wf` false in the Lean driver.
package main

import (
	"fmt"
	"go/ast"
	"go/constant"
	"go/parser"
	"go/printer"
	"go/token"
	"math/bits"
	"os"
	"path/filepath"
	"sort"
	"strconv"
	"strings"
)

// Ty is a field type of the generic model (TdModel.C21.Ty).
type Ty struct {
	K       string // int long double i128 i256 str bytes bool true flags iface ctor bare vec generic
	Name    string // Go name of the interface (iface) or struct (ctor/bare)
	Ref     int    // resolved index (iface index or ctor index)
	Elem    *Ty    // vec
	BareHdr bool   // vec: length written with PutInt instead of PutVectorHeader
}

func (t *Ty) String() string {
	switch t.K {
	case "iface":
		return "B" + strconv.Itoa(t.Ref)
	case "ctor":
		return "C" + strconv.Itoa(t.Ref)
	case "bare":
		return "c" + strconv.Itoa(t.Ref)
	case "vec":
		if t.BareHdr {
			return "v" + t.Elem.String()
		}
		return "V" + t.Elem.String()
	}
	return t.K
}

func (t *Ty) key() string {
	switch t.K {
	case "iface", "ctor", "bare":
		return t.K + ":" + t.Name
	case "vec":
		return fmt.Sprintf("vec%v(%s)", t.BareHdr, t.Elem.key())
	}
	return t.K
}

// Field of a constructor, in wire order.
type Field struct {
	GoName  string
	Ty      *Ty
	Cond    bool
	FlagFld string // Go name of the bin.Fields field the condition reads
	FlagIdx int    // its ordinal among the constructor's flags fields
	Bit     int
}

func (f *Field) condString() string {
	if !f.Cond {
		return "-"
	}
	return fmt.Sprintf("%d.%d", f.FlagIdx, f.Bit)
}

// Ctor is one generated struct with Encode/Decode.
type Ctor struct {
	Idx      int
	Pkg      string // tg, mt, e2e
	GoName   string
	ID       uint32
	HasID    bool // false for the generated `Vector<T>` wrapper types (no constructor id on the wire)
	Fields   []*Field
	Bad      string // non-empty: translator could not understand the code
	Generic  bool   // has a bin.Object field (invokeWithLayer & co.)
	Makes    int    // make( calls in DecodeBare
	MakesCap int    // ... whose capacity is `headerLen % bin.PreallocateLimit` under `if headerLen > 0`
	// bin.Object fields that Encode/Decode dereference without a nil check
	GenericUnchecked int
}

// Iface is one generated DecodeXxx function.
type Iface struct {
	Idx    int
	Pkg    string
	GoName string // e.g. InputMediaClass
	Func   string // e.g. InputMedia (DecodeInputMedia)
	Ctors  []string
	Refs   []int
	// the body spends the nesting budget: PeekID, `if err := buf.EnterObject(); …`, `defer buf.LeaveObject()`, switch
	Guarded bool
}

type Schema struct {
	Ctors  []*Ctor
	Ifaces []*Iface
	byName map[string]*Ctor  // pkg.GoName
	ifName map[string]*Iface // pkg.GoName(Class)
	ifFunc map[string]*Iface // pkg.Func
	// facts
	DoubleVectors int
	PreallocLimit int64
}

type pkgSrc struct {
	name    string
	dir     string
	fset    *token.FileSet
	consts  map[string]uint32
	structs map[string]map[string]string // struct -> field -> type source
	order   map[string][]string          // struct -> field names in declaration order
	methods map[string]map[string]*ast.FuncDecl
	funcs   map[string]*ast.FuncDecl
}

func src(fset *token.FileSet, n ast.Node) string {
	var b strings.Builder
	printer.Fprint(&b, fset, n)
	return b.String()
}

func loadPkg(repo, dir, name string) (*pkgSrc, error) {
	p := &pkgSrc{name: name, dir: dir, fset: token.NewFileSet(), consts: map[string]uint32{},
		structs: map[string]map[string]string{}, order: map[string][]string{},
		methods: map[string]map[string]*ast.FuncDecl{}, funcs: map[string]*ast.FuncDecl{}}
	ents, err := os.ReadDir(filepath.Join(repo, dir))
	if err != nil {
		return nil, err
	}
	var names []string
	for _, e := range ents {
		n := e.Name()
		if e.IsDir() || !strings.HasPrefix(n, "tl_") || !strings.HasSuffix(n, "_gen.go") {
			continue
		}
		if strings.HasSuffix(n, "_slices_gen.go") || n == "tl_client_gen.go" || n == "tl_server_gen.go" ||
			n == "tl_handlers_gen.go" || n == "tl_registry_gen.go" || n == "tl_errors_gen.go" {
			continue
		}
		names = append(names, n)
	}
	sort.Strings(names)
	type res struct {
		f   *ast.File
		err error
	}
	out := make([]res, len(names))
	sem := make(chan struct{}, 8)
	done := make(chan int, len(names))
	for i, n := range names {
		go func(i int, n string) {
			sem <- struct{}{}
			f, err := parser.ParseFile(p.fset, filepath.Join(repo, dir, n), nil, parser.SkipObjectResolution)
			out[i] = res{f, err}
			<-sem
			done <- i
		}(i, n)
	}
	for range names {
		<-done
	}
	for i := range names {
		if out[i].err != nil {
			return nil, out[i].err
		}
		af := out[i].f
		for _, d := range af.Decls {
			switch d := d.(type) {
			case *ast.GenDecl:
				for _, s := range d.Specs {
					switch s := s.(type) {
					case *ast.ValueSpec:
						if d.Tok != token.CONST {
							continue
						}
						for j, id := range s.Names {
							if !strings.HasSuffix(id.Name, "TypeID") || j >= len(s.Values) {
								continue
							}
							if bl, ok := s.Values[j].(*ast.BasicLit); ok {
								v := constant.MakeFromLiteral(bl.Value, bl.Kind, 0)
								if u, ok := constant.Uint64Val(v); ok && u < 1<<32 {
									p.consts[id.Name] = uint32(u)
								}
							}
						}
					case *ast.TypeSpec:
						st, ok := s.Type.(*ast.StructType)
						if !ok {
							continue
						}
						m := map[string]string{}
						var ord []string
						for _, f := range st.Fields.List {
							for _, n := range f.Names {
								m[n.Name] = src(p.fset, f.Type)
								ord = append(ord, n.Name)
							}
						}
						p.structs[s.Name.Name] = m
						p.order[s.Name.Name] = ord
					}
				}
			case *ast.FuncDecl:
				if d.Recv == nil {
					p.funcs[d.Name.Name] = d
					continue
				}
				t := d.Recv.List[0].Type
				if s, ok := t.(*ast.StarExpr); ok {
					t = s.X
				}
				id, ok := t.(*ast.Ident)
				if !ok {
					continue
				}
				if p.methods[id.Name] == nil {
					p.methods[id.Name] = map[string]*ast.FuncDecl{}
				}
				p.methods[id.Name][d.Name.Name] = d
			}
		}
	}
	return p, nil
}

var primFuncs = map[string]string{
	"Int": "int", "Long": "long", "Double": "double", "Int128": "i128", "Int256": "i256",
	"String": "str", "Bytes": "bytes", "Bool": "bool",
}

type translator struct {
	p    *pkgSrc
	recv string // receiver identifier of the method being read
	st   string // struct name
	buf  string // buffer argument name
	s    *Schema

	encUnchecked int    // bin.Object fields encoded without a nil check
	soft         string // a defect that does not stop the translation of the field list
}

func (t *translator) sel(e ast.Expr) (string, bool) { // recv.Field
	se, ok := e.(*ast.SelectorExpr)
	if !ok {
		return "", false
	}
	id, ok := se.X.(*ast.Ident)
	if !ok || id.Name != t.recv {
		return "", false
	}
	return se.Sel.Name, true
}

// hasCall matches `recv.FlagsField.Has(N)`.
func (t *translator) hasCall(e ast.Expr) (fld string, bit int, ok bool) {
	ce, ok := e.(*ast.CallExpr)
	if !ok || len(ce.Args) != 1 {
		return
	}
	se, ok2 := ce.Fun.(*ast.SelectorExpr)
	if !ok2 || (se.Sel.Name != "Has" && se.Sel.Name != "Set") {
		return "", 0, false
	}
	fld, ok = t.sel(se.X)
	if !ok {
		return
	}
	bl, ok2 := ce.Args[0].(*ast.BasicLit)
	if !ok2 {
		return "", 0, false
	}
	n, err := strconv.Atoi(bl.Value)
	if err != nil || n < 0 || n > 31 {
		return "", 0, false
	}
	return fld, n, true
}

// bufCall matches `b.Name(args…)`.
func (t *translator) bufCall(e ast.Expr) (name string, args []ast.Expr, ok bool) {
	ce, ok := e.(*ast.CallExpr)
	if !ok {
		return
	}
	se, ok := ce.Fun.(*ast.SelectorExpr)
	if !ok {
		return "", nil, false
	}
	id, ok := se.X.(*ast.Ident)
	if !ok || id.Name != t.buf {
		return "", nil, false
	}
	return se.Sel.Name, ce.Args, true
}

func (t *translator) structTy(goType string) *Ty {
	goType = strings.TrimPrefix(goType, "*")
	switch goType {
	case "bin.Fields":
		return &Ty{K: "flags"}
	case "bin.Object":
		return &Ty{K: "generic"}
	}
	if _, ok := t.p.structs[goType]; ok {
		return &Ty{K: "ctor", Name: goType}
	}
	return nil
}

// valueSource reads the statements that produce one value into `value` (or into recv.F when
// direct is non-empty) and returns its type. Forms:
//
//	value, err := b.Prim()            value, err := DecodeIface(b)
//	var value X ; if err := value.Decode[Bare](b); err != nil
//	if err := recv.F.Decode(b); err != nil
func (t *translator) valueSource(stmts []ast.Stmt) (*Ty, int, string) {
	if len(stmts) == 0 {
		return nil, 0, "empty value source"
	}
	switch s := stmts[0].(type) {
	case *ast.AssignStmt:
		if len(s.Lhs) == 2 && len(s.Rhs) == 1 && s.Tok == token.DEFINE {
			if id, ok := s.Lhs[0].(*ast.Ident); !ok || id.Name != "value" {
				return nil, 0, "assignment target " + src(t.p.fset, s.Lhs[0])
			}
			if len(stmts) < 2 || !isErrReturn(stmts[1]) {
				return nil, 0, "no error check after " + src(t.p.fset, s)
			}
			if name, args, ok := t.bufCall(s.Rhs[0]); ok && len(args) == 0 {
				if k, ok := primFuncs[name]; ok {
					return &Ty{K: k}, 2, ""
				}
				return nil, 0, "unknown buffer method " + name
			}
			if ce, ok := s.Rhs[0].(*ast.CallExpr); ok && len(ce.Args) == 1 {
				if id, ok := ce.Fun.(*ast.Ident); ok && strings.HasPrefix(id.Name, "Decode") {
					if a, ok := ce.Args[0].(*ast.Ident); ok && a.Name == t.buf {
						return &Ty{K: "iface", Name: strings.TrimPrefix(id.Name, "Decode")}, 2, ""
					}
				}
			}
			return nil, 0, "unknown value source " + src(t.p.fset, s)
		}
	case *ast.DeclStmt: // var value X
		gd, ok := s.Decl.(*ast.GenDecl)
		if !ok || len(gd.Specs) != 1 || len(stmts) < 2 {
			break
		}
		vs, ok := gd.Specs[0].(*ast.ValueSpec)
		if !ok || len(vs.Names) != 1 || vs.Names[0].Name != "value" || vs.Type == nil {
			break
		}
		ty := t.structTy(src(t.p.fset, vs.Type))
		if ty == nil || ty.K != "ctor" {
			return nil, 0, "var value of unknown type " + src(t.p.fset, vs.Type)
		}
		is, ok := stmts[1].(*ast.IfStmt)
		if !ok || is.Init == nil || !isErrReturnBody(is) {
			break
		}
		as, ok := is.Init.(*ast.AssignStmt)
		if !ok || len(as.Rhs) != 1 {
			break
		}
		ce, ok := as.Rhs[0].(*ast.CallExpr)
		if !ok || len(ce.Args) != 1 {
			break
		}
		se, ok := ce.Fun.(*ast.SelectorExpr)
		if !ok {
			break
		}
		if id, ok := se.X.(*ast.Ident); !ok || id.Name != "value" {
			break
		}
		switch se.Sel.Name {
		case "Decode":
			return ty, 2, ""
		case "DecodeBare":
			ty.K = "bare"
			return ty, 2, ""
		}
	}
	return nil, 0, "unknown value source " + src(t.p.fset, stmts[0])
}

func isErrReturnBody(is *ast.IfStmt) bool {
	be, ok := is.Cond.(*ast.BinaryExpr)
	if !ok || be.Op != token.NEQ {
		return false
	}
	if id, ok := be.X.(*ast.Ident); !ok || id.Name != "err" {
		return false
	}
	if len(is.Body.List) != 1 || is.Else != nil {
		return false
	}
	_, ok = is.Body.List[0].(*ast.ReturnStmt)
	return ok
}

func isErrReturn(s ast.Stmt) bool {
	is, ok := s.(*ast.IfStmt)
	return ok && is.Init == nil && isErrReturnBody(is)
}

// decodeField reads the body of one field block of DecodeBare.
func (t *translator) decodeField(c *Ctor, body []ast.Stmt) (*Field, string) {
	if len(body) == 0 {
		return nil, "empty field block"
	}
	// generic (bin.Object) field: if recv.F == nil { return error } before decoding into it
	nilChecked := false
	if is, ok := body[0].(*ast.IfStmt); ok && is.Init == nil && len(body) == 2 && len(is.Body.List) == 1 {
		if be, ok := is.Cond.(*ast.BinaryExpr); ok && be.Op == token.EQL && src(t.p.fset, be.Y) == "nil" {
			if f, ok := t.sel(be.X); ok && t.p.structs[t.st][f] == "bin.Object" {
				if _, ok := is.Body.List[0].(*ast.ReturnStmt); ok {
					nilChecked = true
					body = body[1:]
				}
			}
		}
	}
	// direct: if err := recv.F.Decode(b); err != nil { return }
	if is, ok := body[0].(*ast.IfStmt); ok && is.Init != nil && len(body) == 1 && isErrReturnBody(is) {
		as, ok := is.Init.(*ast.AssignStmt)
		if ok && len(as.Rhs) == 1 {
			if ce, ok := as.Rhs[0].(*ast.CallExpr); ok && len(ce.Args) == 1 {
				if se, ok := ce.Fun.(*ast.SelectorExpr); ok && se.Sel.Name == "Decode" {
					if f, ok := t.sel(se.X); ok {
						ty := t.structTy(t.p.structs[t.st][f])
						if ty == nil {
							return nil, "field " + f + " has unknown encoder type " + t.p.structs[t.st][f]
						}
						if ty.K == "generic" && !nilChecked {
							c.GenericUnchecked++
						}
						return &Field{GoName: f, Ty: ty}, ""
					}
				}
			}
		}
		return nil, "unknown direct decode " + src(t.p.fset, is.Init)
	}
	// vector
	if as, ok := body[0].(*ast.AssignStmt); ok && len(as.Lhs) == 2 {
		if id, ok := as.Lhs[0].(*ast.Ident); ok && id.Name == "headerLen" {
			name, args, ok := t.bufCall(as.Rhs[0])
			if !ok || len(args) != 0 || (name != "VectorHeader" && name != "Int") {
				return nil, "unknown vector header " + src(t.p.fset, as)
			}
			if len(body) != 4 || !isErrReturn(body[1]) {
				return nil, "unknown vector layout"
			}
			// if headerLen > 0 { recv.F = make(T, 0, headerLen % bin.PreallocateLimit) }
			c.Makes++
			pre, ok := body[2].(*ast.IfStmt)
			if !ok || src(t.p.fset, pre.Cond) != "headerLen > 0" || len(pre.Body.List) != 1 {
				return nil, "vector preallocation is not guarded by headerLen > 0"
			}
			mk, ok := pre.Body.List[0].(*ast.AssignStmt)
			if !ok || len(mk.Lhs) != 1 || len(mk.Rhs) != 1 {
				return nil, "unknown preallocation"
			}
			fname, ok := t.sel(mk.Lhs[0])
			if !ok {
				return nil, "unknown preallocation target"
			}
			mc, ok := mk.Rhs[0].(*ast.CallExpr)
			if !ok || len(mc.Args) != 3 || src(t.p.fset, mc.Fun) != "make" || src(t.p.fset, mc.Args[1]) != "0" ||
				src(t.p.fset, mc.Args[2]) != "headerLen % bin.PreallocateLimit" {
				// keep reading the field (the monitor still needs its type), but the constructor is bad
				t.soft = "preallocation is not make(T, 0, headerLen % bin.PreallocateLimit): " + src(t.p.fset, mk)
			} else {
				c.MakesCap++
			}
			loop, ok := body[3].(*ast.ForStmt)
			if !ok || src(t.p.fset, loop.Init) != "idx := 0" || src(t.p.fset, loop.Cond) != "idx < headerLen" ||
				src(t.p.fset, loop.Post) != "idx++" {
				return nil, "unknown vector loop header"
			}
			lb := loop.Body.List
			for _, s := range lb {
				if strings.Contains(src(t.p.fset, s), "innerLen") {
					t.s.DoubleVectors++
					return nil, "double vector (generator's inner loop increments the wrong variable)"
				}
			}
			ety, n, why := t.valueSource(lb)
			if why != "" {
				return nil, why
			}
			if len(lb) != n+1 || src(t.p.fset, lb[n]) != fmt.Sprintf("%s.%s = append(%s.%s, value)", t.recv, fname, t.recv, fname) {
				return nil, "unknown vector loop tail"
			}
			return &Field{GoName: fname, Ty: &Ty{K: "vec", Elem: ety, BareHdr: name == "Int"}}, ""
		}
	}
	ty, n, why := t.valueSource(body)
	if why != "" {
		return nil, why
	}
	if len(body) != n+1 {
		return nil, "unknown field tail"
	}
	as, ok := body[n].(*ast.AssignStmt)
	if !ok || len(as.Lhs) != 1 || src(t.p.fset, as.Rhs[0]) != "value" {
		return nil, "unknown field assignment"
	}
	f, ok := t.sel(as.Lhs[0])
	if !ok {
		return nil, "unknown field assignment target"
	}
	return &Field{GoName: f, Ty: ty}, ""
}

func (t *translator) setCond(c *Ctor, f *Field, fld string, bit int) string {
	f.Cond, f.FlagFld, f.Bit = true, fld, bit
	idx := 0
	for _, g := range c.Fields {
		if g.Ty.K == "flags" {
			if g.GoName == fld {
				f.FlagIdx = idx
				return ""
			}
			idx++
		}
	}
	return "condition reads flags field " + fld + " that was not decoded before"
}

func nilCheck(s ast.Stmt, fset *token.FileSet, recv string) bool {
	is, ok := s.(*ast.IfStmt)
	return ok && src(fset, is.Cond) == recv+" == nil"
}

// readDecodeBare derives the field list from DecodeBare.
func (t *translator) readDecodeBare(c *Ctor, fd *ast.FuncDecl) {
	t.recv = fd.Recv.List[0].Names[0].Name
	t.buf = fd.Type.Params.List[0].Names[0].Name
	body := fd.Body.List
	if len(body) < 2 || !nilCheck(body[0], t.p.fset, t.recv) {
		c.Bad = "DecodeBare: no nil receiver check"
		return
	}
	for i, s := range body[1:] {
		switch s := s.(type) {
		case *ast.ReturnStmt:
			if i != len(body)-2 || src(t.p.fset, s) != "return nil" {
				c.Bad = "DecodeBare: early return"
			}
			return
		case *ast.AssignStmt: // recv.F = recv.Flags.Has(N)
			f, ok := t.sel(s.Lhs[0])
			fld, bit, ok2 := t.hasCall(s.Rhs[0])
			if !ok || !ok2 || len(s.Lhs) != 1 {
				c.Bad = "DecodeBare: unknown assignment " + src(t.p.fset, s)
				return
			}
			fl := &Field{GoName: f, Ty: &Ty{K: "true"}}
			if why := t.setCond(c, fl, fld, bit); why != "" {
				c.Bad = "DecodeBare: " + why
				return
			}
			c.Fields = append(c.Fields, fl)
		case *ast.BlockStmt:
			fl, why := t.decodeField(c, s.List)
			if why != "" {
				c.Bad = "DecodeBare: " + why
				return
			}
			c.Fields = append(c.Fields, fl)
		case *ast.IfStmt:
			fld, bit, ok := t.hasCall(s.Cond)
			if !ok || s.Else != nil || s.Init != nil {
				c.Bad = "DecodeBare: unknown condition " + src(t.p.fset, s.Cond)
				return
			}
			fl, why := t.decodeField(c, s.Body.List)
			if why != "" {
				c.Bad = "DecodeBare: " + why
				return
			}
			if why := t.setCond(c, fl, fld, bit); why != "" {
				c.Bad = "DecodeBare: " + why
				return
			}
			c.Fields = append(c.Fields, fl)
		default:
			c.Bad = "DecodeBare: unknown statement " + src(t.p.fset, s)
			return
		}
	}
	c.Bad = "DecodeBare: no final return"
}

var putFuncs = map[string]string{
	"PutInt": "int", "PutLong": "long", "PutDouble": "double", "PutInt128": "i128", "PutInt256": "i256",
	"PutString": "str", "PutBytes": "bytes", "PutBool": "bool",
}

// encodeValue reads the statements that write one value expression `x`.
func (t *translator) encodeValue(stmts []ast.Stmt, x string, goType string) (*Ty, string) {
	if len(stmts) == 0 {
		return nil, "nothing written for " + x
	}
	if es, ok := stmts[0].(*ast.ExprStmt); ok && len(stmts) == 1 {
		name, args, ok := t.bufCall(es.X)
		if ok && len(args) == 1 && src(t.p.fset, args[0]) == x {
			if k, ok := putFuncs[name]; ok {
				return &Ty{K: k}, ""
			}
		}
		return nil, "unknown write " + src(t.p.fset, es)
	}
	i := 0
	nilChecked := false
	if is, ok := stmts[0].(*ast.IfStmt); ok && is.Init == nil && src(t.p.fset, is.Cond) == x+" == nil" {
		nilChecked = true
		i = 1
	}
	if len(stmts) != i+1 {
		return nil, "unknown write sequence for " + x
	}
	is, ok := stmts[i].(*ast.IfStmt)
	if !ok || is.Init == nil || !isErrReturnBody(is) {
		return nil, "unknown write " + src(t.p.fset, stmts[i])
	}
	call := src(t.p.fset, is.Init)
	switch call {
	case fmt.Sprintf("err := %s.Encode(%s)", x, t.buf):
		if nilChecked && goType == "bin.Object" {
			return &Ty{K: "generic"}, ""
		}
		if nilChecked {
			name := strings.TrimSuffix(goType, "Class")
			if goType == name {
				return nil, "nil-checked non-interface " + goType
			}
			return &Ty{K: "iface", Name: goType}, ""
		}
		ty := t.structTy(goType)
		if ty == nil {
			return nil, "Encode on unknown type " + goType
		}
		if ty.K == "generic" {
			t.encUnchecked++
		}
		return ty, ""
	case fmt.Sprintf("err := %s.EncodeBare(%s)", x, t.buf):
		if nilChecked && strings.HasSuffix(goType, "Class") {
			// an interface element written without its constructor id (DecodeXxx always expects the id)
			return &Ty{K: "ifacebare", Name: goType}, ""
		}
		ty := t.structTy(goType)
		if ty == nil || ty.K != "ctor" || nilChecked {
			return nil, "EncodeBare on unknown type " + goType
		}
		ty.K = "bare"
		return ty, ""
	}
	return nil, "unknown write " + call
}

func (t *translator) encodeField(stmts []ast.Stmt) (*Field, string) {
	if len(stmts) == 0 {
		return nil, "empty"
	}
	// vector?
	if es, ok := stmts[0].(*ast.ExprStmt); ok {
		if name, args, ok := t.bufCall(es.X); ok && len(args) == 1 && (name == "PutVectorHeader" || name == "PutInt") {
			if ce, ok := args[0].(*ast.CallExpr); ok && src(t.p.fset, ce.Fun) == "len" && len(ce.Args) == 1 {
				f, ok := t.sel(ce.Args[0])
				if !ok || len(stmts) != 2 {
					return nil, "unknown vector write"
				}
				rs, ok := stmts[1].(*ast.RangeStmt)
				if !ok || src(t.p.fset, rs.X) != t.recv+"."+f || rs.Value == nil || src(t.p.fset, rs.Value) != "v" {
					return nil, "unknown vector loop"
				}
				gt := t.p.structs[t.st][f]
				if !strings.HasPrefix(gt, "[]") {
					return nil, "vector over non-slice " + gt
				}
				ety, why := t.encodeValue(rs.Body.List, "v", gt[2:])
				if why != "" {
					return nil, why
				}
				return &Field{GoName: f, Ty: &Ty{K: "vec", Elem: ety, BareHdr: name == "PutInt"}}, ""
			}
		}
		// primitive
		if _, args, ok := t.bufCall(es.X); ok && len(args) == 1 && len(stmts) == 1 {
			if f, ok := t.sel(args[0]); ok {
				ty, why := t.encodeValue(stmts, t.recv+"."+f, t.p.structs[t.st][f])
				return &Field{GoName: f, Ty: ty}, why
			}
		}
		return nil, "unknown write " + src(t.p.fset, es)
	}
	// encoder field: [if recv.F == nil {…}] if err := recv.F.Encode(b) …
	last, ok := stmts[len(stmts)-1].(*ast.IfStmt)
	if !ok || last.Init == nil {
		return nil, "unknown write " + src(t.p.fset, stmts[0])
	}
	as, ok := last.Init.(*ast.AssignStmt)
	if !ok || len(as.Rhs) != 1 {
		return nil, "unknown write"
	}
	ce, ok := as.Rhs[0].(*ast.CallExpr)
	if !ok {
		return nil, "unknown write"
	}
	se, ok := ce.Fun.(*ast.SelectorExpr)
	if !ok {
		return nil, "unknown write"
	}
	f, ok := t.sel(se.X)
	if !ok {
		return nil, "unknown write target " + src(t.p.fset, se.X)
	}
	ty, why := t.encodeValue(stmts, t.recv+"."+f, t.p.structs[t.st][f])
	return &Field{GoName: f, Ty: ty}, why
}

// readEncodeBare derives the written fields (everything except true-flags) from EncodeBare.
func (t *translator) readEncodeBare(fd *ast.FuncDecl) (fields []*Field, setFlags bool, bad string) {
	t.recv = fd.Recv.List[0].Names[0].Name
	t.buf = fd.Type.Params.List[0].Names[0].Name
	body := fd.Body.List
	if len(body) < 2 || !nilCheck(body[0], t.p.fset, t.recv) {
		return nil, false, "EncodeBare: no nil receiver check"
	}
	body = body[1:]
	if es, ok := body[0].(*ast.ExprStmt); ok && src(t.p.fset, es.X) == t.recv+".SetFlags()" {
		setFlags = true
		body = body[1:]
	}
	// group statements into fields: a field is either one conditional `if recv.Flags.Has(N) {…}`
	// or a maximal run [nil-check] write
	i := 0
	for i < len(body) {
		s := body[i]
		if rs, ok := s.(*ast.ReturnStmt); ok {
			if i != len(body)-1 || src(t.p.fset, rs) != "return nil" {
				return nil, setFlags, "EncodeBare: early return"
			}
			return fields, setFlags, ""
		}
		if is, ok := s.(*ast.IfStmt); ok && is.Init == nil {
			if fld, bit, ok := t.hasCall(is.Cond); ok {
				f, why := t.encodeField(is.Body.List)
				if why != "" {
					return nil, setFlags, "EncodeBare: " + why
				}
				f.Cond, f.FlagFld, f.Bit = true, fld, bit
				fields = append(fields, f)
				i++
				continue
			}
		}
		// unconditional: take 1 statement, or 2 if the first is a nil check or a vector header
		n := 1
		if is, ok := s.(*ast.IfStmt); ok && is.Init == nil && strings.HasSuffix(src(t.p.fset, is.Cond), " == nil") {
			n = 2
		}
		if es, ok := s.(*ast.ExprStmt); ok {
			if name, args, ok := t.bufCall(es.X); ok && len(args) == 1 && (name == "PutVectorHeader" || name == "PutInt") {
				if strings.HasPrefix(src(t.p.fset, args[0]), "len(") {
					n = 2
				}
			}
		}
		if i+n > len(body) {
			return nil, setFlags, "EncodeBare: truncated field"
		}
		f, why := t.encodeField(body[i : i+n])
		if why != "" {
			return nil, setFlags, "EncodeBare: " + why
		}
		fields = append(fields, f)
		i += n
	}
	return nil, setFlags, "EncodeBare: no final return"
}

// readSetFlags returns the (field, flagsField, bit) triples of SetFlags in order.
func (t *translator) readSetFlags(fd *ast.FuncDecl) (out [][3]string, bad string) {
	t.recv = fd.Recv.List[0].Names[0].Name
	for _, s := range fd.Body.List {
		is, ok := s.(*ast.IfStmt)
		if !ok || len(is.Body.List) != 1 {
			return nil, "SetFlags: unknown statement"
		}
		// !(recv.F == zero)
		ue, ok := is.Cond.(*ast.UnaryExpr)
		if !ok || ue.Op != token.NOT {
			return nil, "SetFlags: unknown condition " + src(t.p.fset, is.Cond)
		}
		inner := ue.X
		if pe, ok := inner.(*ast.ParenExpr); ok {
			inner = pe.X
		}
		var fname string
		switch e := inner.(type) {
		case *ast.BinaryExpr:
			f, ok := t.sel(e.X)
			if !ok || e.Op != token.EQL {
				return nil, "SetFlags: unknown comparison " + src(t.p.fset, inner)
			}
			fname = f
		case *ast.CallExpr: // recv.F.Zero()
			se, ok := e.Fun.(*ast.SelectorExpr)
			if !ok || se.Sel.Name != "Zero" {
				return nil, "SetFlags: unknown zero test " + src(t.p.fset, inner)
			}
			f, ok := t.sel(se.X)
			if !ok {
				return nil, "SetFlags: unknown zero test " + src(t.p.fset, inner)
			}
			fname = f
		default:
			return nil, "SetFlags: unknown zero test " + src(t.p.fset, inner)
		}
		es, ok := is.Body.List[0].(*ast.ExprStmt)
		if !ok {
			return nil, "SetFlags: unknown body"
		}
		fld, bit, ok := t.hasCall(es.X)
		if !ok {
			return nil, "SetFlags: unknown body " + src(t.p.fset, es)
		}
		out = append(out, [3]string{fname, fld, strconv.Itoa(bit)})
	}
	return out, ""
}

// readBoxed checks Encode/Decode: PutID(XTypeID)/ConsumeID(XTypeID) then the bare variant.
func (t *translator) readBoxed(c *Ctor, enc, dec *ast.FuncDecl) string {
	want := c.GoName + "TypeID"
	e := src(t.p.fset, enc.Body)
	d := src(t.p.fset, dec.Body)
	if c.HasID {
		if !strings.Contains(e, ".PutID("+want+")") || !strings.Contains(d, ".ConsumeID("+want+")") {
			return "Encode/Decode do not write/consume " + want
		}
	} else if strings.Contains(e, "PutID(") || strings.Contains(d, "ConsumeID(") {
		return "id-less type writes an id"
	}
	if !strings.Contains(e, ".EncodeBare(") || !strings.Contains(d, ".DecodeBare(") {
		return "Encode/Decode do not delegate to the bare variant"
	}
	return ""
}

func buildSchema(repo string) (*Schema, error) {
	s := &Schema{byName: map[string]*Ctor{}, ifName: map[string]*Iface{}, ifFunc: map[string]*Iface{}}
	for _, pd := range [][2]string{{"mt", "mt"}, {"tg/e2e", "e2e"}, {"tg", "tg"}} {
		p, err := loadPkg(repo, pd[0], pd[1])
		if err != nil {
			return nil, err
		}
		var names []string
		for n, ms := range p.methods {
			if ms["DecodeBare"] != nil && ms["EncodeBare"] != nil && ms["Decode"] != nil && ms["Encode"] != nil {
				if _, ok := p.structs[n]; ok {
					names = append(names, n)
				}
			}
		}
		sort.Strings(names)
		for _, n := range names {
			c := &Ctor{Idx: len(s.Ctors), Pkg: p.name, GoName: n}
			c.ID, c.HasID = p.consts[n+"TypeID"]
			s.Ctors = append(s.Ctors, c)
			s.byName[p.name+"."+n] = c
			t := &translator{p: p, st: n, s: s}
			t.readDecodeBare(c, p.methods[n]["DecodeBare"])
			if c.Bad != "" {
				continue
			}
			if t.soft != "" {
				defer func(c *Ctor, why string) {
					if c.Bad == "" {
						c.Bad = "DecodeBare: " + why
					}
				}(c, t.soft)
			}
			if why := t.readBoxed(c, p.methods[n]["Encode"], p.methods[n]["Decode"]); why != "" {
				c.Bad = why
				continue
			}
			ef, setFlags, why := t.readEncodeBare(p.methods[n]["EncodeBare"])
			if why != "" {
				c.Bad = why
				continue
			}
			c.GenericUnchecked += t.encUnchecked
			// cross-check decode-derived and encode-derived field lists
			var df []*Field
			nFlags := 0
			for _, f := range c.Fields {
				if f.Ty.K != "true" {
					df = append(df, f)
				}
				if f.Ty.K == "flags" {
					nFlags++
				}
				if f.Ty.K == "generic" {
					c.Generic = true
				}
			}
			if len(df) != len(ef) {
				c.Bad = fmt.Sprintf("EncodeBare writes %d fields, DecodeBare reads %d", len(ef), len(df))
				continue
			}
			for i := range df {
				a, b := df[i], ef[i]
				ak, bk := a.Ty.key(), b.Ty.key()
				// the decode side names interfaces by their Decode function, the encode side by Go type
				if a.GoName != b.GoName || a.Cond != b.Cond || (a.Cond && (a.FlagFld != b.FlagFld || a.Bit != b.Bit)) {
					c.Bad = fmt.Sprintf("field %d: decode %s/%s vs encode %s/%s", i, a.GoName, a.condString(), b.GoName, b.condString())
					break
				}
				if normIface(ak) != normIface(bk) {
					c.Bad = fmt.Sprintf("field %s: decode type %s vs encode type %s", a.GoName, ak, bk)
					break
				}
			}
			if c.Bad != "" {
				continue
			}
			// SetFlags must set exactly the bits the conditional fields read, in field order
			if nFlags > 0 != setFlags {
				c.Bad = "SetFlags call does not match presence of a flags field"
				continue
			}
			if setFlags {
				sf := p.methods[n]["SetFlags"]
				if sf == nil {
					c.Bad = "SetFlags missing"
					continue
				}
				trip, why := t.readSetFlags(sf)
				if why != "" {
					c.Bad = why
					continue
				}
				j := 0
				for _, f := range c.Fields {
					if !f.Cond {
						continue
					}
					if j >= len(trip) || trip[j][0] != f.GoName || trip[j][1] != f.FlagFld || trip[j][2] != strconv.Itoa(f.Bit) {
						c.Bad = "SetFlags does not match conditional field " + f.GoName
						break
					}
					j++
				}
				if c.Bad == "" && j != len(trip) {
					c.Bad = "SetFlags sets extra bits"
				}
			}
			// struct declaration order = wire order
			if c.Bad == "" {
				ord := p.order[n]
				if len(ord) != len(c.Fields) {
					c.Bad = fmt.Sprintf("struct has %d fields, DecodeBare reads %d", len(ord), len(c.Fields))
				} else {
					for i, f := range c.Fields {
						if ord[i] != f.GoName {
							c.Bad = "struct field order differs from wire order at " + f.GoName
							break
						}
					}
				}
			}
		}
		// interfaces: func DecodeX(buf) (XClass, error) { switch id { case YTypeID: … } }
		var fnames []string
		for n := range p.funcs {
			if strings.HasPrefix(n, "Decode") {
				fnames = append(fnames, n)
			}
		}
		sort.Strings(fnames)
		for _, fn := range fnames {
			fd := p.funcs[fn]
			if fd.Type.Results == nil || len(fd.Type.Results.List) != 2 || len(fd.Type.Params.List) != 1 {
				continue
			}
			if src(p.fset, fd.Type.Params.List[0].Type) != "*bin.Buffer" {
				continue
			}
			ifc := &Iface{Idx: len(s.Ifaces), Pkg: p.name, GoName: src(p.fset, fd.Type.Results.List[0].Type), Func: strings.TrimPrefix(fn, "Decode")}
			ok := false
			entered, deferred := false, false
			for _, st := range fd.Body.List {
				if is, isIf := st.(*ast.IfStmt); isIf && is.Init != nil && src(p.fset, is.Init) == "err := buf.EnterObject()" && isErrReturnBody(is) {
					entered = true
				}
				if ds, isDefer := st.(*ast.DeferStmt); isDefer && src(p.fset, ds.Call) == "buf.LeaveObject()" {
					deferred = entered
				}
				sw, isSw := st.(*ast.SwitchStmt)
				if !isSw {
					continue
				}
				ifc.Guarded = entered && deferred
				ok = true
				for _, cc := range sw.Body.List {
					cl := cc.(*ast.CaseClause)
					if cl.List == nil {
						continue
					}
					if len(cl.List) != 1 {
						ok = false
						continue
					}
					name := strings.TrimSuffix(src(p.fset, cl.List[0]), "TypeID")
					body := src(p.fset, &ast.BlockStmt{List: cl.Body})
					if !strings.Contains(body, "v := "+name+"{}") || !strings.Contains(body, "v.Decode(buf)") {
						ok = false
					}
					ifc.Ctors = append(ifc.Ctors, name)
				}
			}
			if !ok {
				ifc.Ctors = nil // unusable: wf fails on an empty interface
			}
			s.Ifaces = append(s.Ifaces, ifc)
			s.ifName[p.name+"."+ifc.GoName] = ifc
			s.ifFunc[p.name+"."+ifc.Func] = ifc
		}
	}
	// resolve references
	for _, c := range s.Ctors {
		for _, f := range c.Fields {
			if why := s.resolve(c.Pkg, f.Ty); why != "" && c.Bad == "" {
				c.Bad = why
			}
		}
	}
	for _, ifc := range s.Ifaces {
		for _, n := range ifc.Ctors {
			c := s.byName[ifc.Pkg+"."+n]
			if c == nil {
				ifc.Refs = nil
				break
			}
			ifc.Refs = append(ifc.Refs, c.Idx)
		}
	}
	if v, ok := readPreallocLimit(repo); ok {
		s.PreallocLimit = v
	}
	return s, nil
}

func normIface(k string) string {
	// decode side: iface:InputFile (function name); encode side: iface:InputFileClass (Go type)
	return strings.ReplaceAll(k, "Class", "")
}

func (s *Schema) resolve(pkg string, t *Ty) string {
	switch t.K {
	case "iface":
		ifc := s.ifFunc[pkg+"."+t.Name]
		if ifc == nil {
			ifc = s.ifName[pkg+"."+t.Name]
		}
		if ifc == nil {
			return "unknown interface " + t.Name
		}
		t.Ref = ifc.Idx
	case "ctor", "bare":
		c := s.byName[pkg+"."+t.Name]
		if c == nil {
			return "unknown struct " + t.Name
		}
		t.Ref = c.Idx
	case "vec":
		return s.resolve(pkg, t.Elem)
	}
	return ""
}

func readPreallocLimit(repo string) (int64, bool) {
	fset := token.NewFileSet()
	af, err := parser.ParseFile(fset, filepath.Join(repo, "bin", "const.go"), nil, 0)
	if err != nil {
		return 0, false
	}
	for _, d := range af.Decls {
		gd, ok := d.(*ast.GenDecl)
		if !ok || gd.Tok != token.CONST {
			continue
		}
		for _, sp := range gd.Specs {
			vs := sp.(*ast.ValueSpec)
			for i, n := range vs.Names {
				if n.Name == "PreallocateLimit" && i < len(vs.Values) {
					if bl, ok := vs.Values[i].(*ast.BasicLit); ok {
						v, err := strconv.ParseInt(bl.Value, 0, 64)
						return v, err == nil
					}
				}
			}
		}
	}
	return 0, false
}

// Text renders the schema data file read by the Lean driver.
//
//	ctor <idx> <idhex|-> <nfields> <bad:0|1> <pkg.GoName>
//	f <ty> <cond>
//	iface <idx> <pkg.GoName> <ctor idx>…
func (s *Schema) Text() string {
	var b strings.Builder
	fmt.Fprintf(&b, "schema %d %d\n", len(s.Ctors), len(s.Ifaces))
	for _, c := range s.Ctors {
		id := "-"
		if c.HasID {
			id = fmt.Sprintf("%08x", c.ID)
		}
		bad := 0
		if c.Bad != "" {
			bad = 1
		}
		fmt.Fprintf(&b, "ctor %d %s %d %d %s.%s\n", c.Idx, id, len(c.Fields), bad, c.Pkg, c.GoName)
		for _, f := range c.Fields {
			fmt.Fprintf(&b, "f %s %s\n", f.Ty.String(), f.condString())
		}
	}
	for _, i := range s.Ifaces {
		fmt.Fprintf(&b, "iface %d %s.%s", i.Idx, i.Pkg, i.GoName)
		for _, r := range i.Refs {
			fmt.Fprintf(&b, " %d", r)
		}
		b.WriteString("\n")
	}
	return b.String()
}

const digestMod = 2305843009213693951 // 2^61 - 1

func mix(h, x uint64) uint64 {
	hi, lo := bits.Mul64(h, 1000003)
	var c uint64
	lo, c = bits.Add64(lo, x+1, 0)
	hi += c
	_, r := bits.Div64(hi, lo, digestMod)
	return r
}

func (t *Ty) digest() uint64 {
	switch t.K {
	case "int":
		return 1
	case "long":
		return 2
	case "double":
		return 3
	case "i128":
		return 4
	case "i256":
		return 5
	case "str", "bytes":
		return 6
	case "bool":
		return 7
	case "true":
		return 8
	case "flags":
		return 9
	case "generic":
		return 10
	case "iface":
		return mix(11, uint64(t.Ref))
	case "ctor":
		return mix(12, uint64(t.Ref))
	case "bare":
		return mix(13, uint64(t.Ref))
	case "vec":
		if t.BareHdr {
			return mix(15, t.Elem.digest())
		}
		return mix(14, t.Elem.digest())
	}
	return 0
}

// Digest mirrors TdModel.C21.Schema.digest.
func (s *Schema) Digest() uint64 {
	var h uint64
	for _, c := range s.Ctors {
		var id, bad uint64
		if c.HasID {
			id = uint64(c.ID) + 1
		}
		if c.Bad != "" {
			bad = 1
		}
		ch := mix(id, bad)
		for _, f := range c.Fields {
			var cond uint64
			if f.Cond {
				cond = 1 + uint64(f.FlagIdx)*64 + uint64(f.Bit)
			}
			ch = mix(ch, mix(f.Ty.digest(), cond))
		}
		h = mix(h, ch)
	}
	for _, i := range s.Ifaces {
		h = mix(h, 77)
		for _, r := range i.Refs {
			h = mix(h, uint64(r))
		}
	}
	return h
}
