package c16c17

// Semantic facts: the integer decisions and arithmetic of the codecs, located in the AST by their
// role and translated to Lean functions (hc.TranslateExpr) that the model calls.  A refactor that
// keeps the meaning (e.g. `encodeLength <= 126`, `n*4`, a renamed constant) regenerates an
// equivalent function and the proofs (`cfg_is_spec`, by arithmetic) still go through; a change of
// meaning changes the function the model and the theorems are about.

import (
	"go/ast"
	"go/token"
	"strings"

	"verif/harness/hc"
)

func walkFn(fd *ast.FuncDecl, fn func(ast.Node) bool) {
	if fd != nil && fd.Body != nil {
		ast.Inspect(fd.Body, fn)
	}
}

// assignRHS: right-hand side of the first `name := e` / `name = e`.
func assignRHS(fd *ast.FuncDecl, name string) ast.Expr {
	var out ast.Expr
	walkFn(fd, func(n ast.Node) bool {
		as, ok := n.(*ast.AssignStmt)
		if ok && out == nil && len(as.Lhs) == 1 && len(as.Rhs) == 1 {
			if id, ok := as.Lhs[0].(*ast.Ident); ok && id.Name == name {
				out = as.Rhs[0]
			}
		}
		return true
	})
	return out
}

// callArg: i-th argument of the first call whose function prints as fun and for which ok(arg) holds.
func callArg(f *hc.Facts, fd *ast.FuncDecl, fun string, i int, ok func(string) bool) ast.Expr {
	var out ast.Expr
	walkFn(fd, func(n ast.Node) bool {
		c, isc := n.(*ast.CallExpr)
		if isc && out == nil && hc.Squash(f.Src(c.Fun)) == fun && len(c.Args) > i {
			if ok == nil || ok(hc.Squash(f.Src(c.Args[i]))) {
				out = c.Args[i]
			}
		}
		return true
	})
	return out
}

func returnsLenErr(f *hc.Facts, is *ast.IfStmt) bool {
	if len(is.Body.List) == 0 {
		return false
	}
	rs, ok := is.Body.List[len(is.Body.List)-1].(*ast.ReturnStmt)
	return ok && strings.Contains(f.Src(rs), "invalidMsgLenErr{")
}

// lenGuards: the disjunction of the conditions of all top-level `if c { return invalidMsgLenErr{…} }`
// that precede the first top-level statement containing a call printed with prefix `before`
// (all of them when before == ""); nil when there is none.
func lenGuards(f *hc.Facts, fd *ast.FuncDecl, before string) ast.Expr {
	if fd == nil || fd.Body == nil {
		return nil
	}
	lim := len(fd.Body.List)
	if before != "" {
		lim = topIndex(fd, func(s ast.Stmt) bool { return containsCall(f, s, before) })
		if lim < 0 {
			return nil
		}
	}
	var out ast.Expr
	for _, s := range fd.Body.List[:lim] {
		is, ok := s.(*ast.IfStmt)
		if !ok || is.Init != nil || !returnsLenErr(f, is) {
			continue
		}
		if out == nil {
			out = is.Cond
		} else {
			out = &ast.BinaryExpr{X: &ast.ParenExpr{X: out}, Op: token.LOR, Y: &ast.ParenExpr{X: is.Cond}}
		}
	}
	return out
}

// ifCond: condition of the first if statement (anywhere) whose condition mentions `mention` and,
// if needElse, has an else branch.
func ifCond(f *hc.Facts, fd *ast.FuncDecl, mention string, needElse bool) ast.Expr {
	var out ast.Expr
	walkFn(fd, func(n ast.Node) bool {
		is, ok := n.(*ast.IfStmt)
		if ok && out == nil && strings.Contains(hc.Squash(f.Src(is.Cond)), mention) && (!needElse || is.Else != nil) {
			out = is.Cond
		}
		return true
	})
	return out
}

type sliceBounds struct{ lo, hi ast.Expr }

// sliceIn: bounds of the first slice expression of `b.Buf` found inside the node selected by sel.
func sliceIn(f *hc.Facts, fd *ast.FuncDecl, sel func(ast.Node) bool) *sliceBounds {
	var out *sliceBounds
	walkFn(fd, func(n ast.Node) bool {
		if out != nil || n == nil || !sel(n) {
			return true
		}
		ast.Inspect(n, func(m ast.Node) bool {
			se, ok := m.(*ast.SliceExpr)
			if ok && out == nil && hc.Squash(f.Src(se.X)) == "b.Buf" {
				out = &sliceBounds{se.Low, se.High}
			}
			return true
		})
		return true
	})
	return out
}

func zeroLit() ast.Expr { return &ast.BasicLit{Kind: token.INT, Value: "0"} }

func boundsFact(f *hc.Facts, lean string, sb *sliceBounds, params []string, subst map[string]string, role string) {
	if sb == nil || sb.hi == nil {
		f.Missing(lean+"Lo", role+": slice expression not found")
		f.Missing(lean+"Hi", role+": slice expression not found")
		return
	}
	lo := sb.lo
	if lo == nil {
		lo = zeroLit()
	}
	f.TranslateExpr(lean+"Lo", dir, lo, "Int", params, subst, role+", low bound")
	f.TranslateExpr(lean+"Hi", dir, sb.hi, "Int", params, subst, role+", high bound")
}

// SemanticFacts emits the translated decisions and arithmetic of proto/codec.
func SemanticFacts(f *hc.Facts) {
	n := []string{"n"}
	// ---- codec.go / errors.go
	rl := f.FuncDecl(dir, "readLen")
	f.TranslateExpr("lenRejects", dir, lenGuards(f, rl, ""), "Bool", []string{"n", "envelope"}, nil, "readLen: the length word is rejected")
	co := f.FuncDecl(dir, "checkOutgoingMessage")
	f.TranslateExpr("outRejects", dir, lenGuards(f, co, ""), "Bool", []string{"length"}, nil, "checkOutgoingMessage: the payload length is rejected")
	ca := f.FuncDecl(dir, "checkAlign")
	f.TranslateExpr("misaligned", dir, ifCond(f, ca, "length", false), "Bool", []string{"length", "n"}, nil, "checkAlign: not aligned")
	cp := f.FuncDecl(dir, "checkProtocolError")
	f.TranslateExpr("notCode", dir, ifCond(f, cp, "b.Len()", false), "Bool", []string{"len"}, map[string]string{"b.Len()": "len"}, "checkProtocolError: the frame is not an error code")

	// ---- abridged.go
	wa := f.FuncDecl(dir, "writeAbridged")
	f.TranslateExpr("abrWords", dir, assignRHS(wa, "encodeLength"), "Int", []string{"len"}, map[string]string{"b.Len()": "len"}, "writeAbridged: encodeLength")
	f.TranslateExpr("abrShort", dir, ifCond(f, wa, "encodeLength", true), "Bool", []string{"encodeLength"}, nil, "writeAbridged: one-byte length prefix")
	ra := f.FuncDecl(dir, "readAbridged")
	f.TranslateExpr("abrLong", dir, ifCond(f, ra, "b.Buf[0]", false), "Bool", []string{"b0"}, map[string]string{"b.Buf[0]": "b0"}, "readAbridged: three more length bytes follow")
	if g := lenGuards(f, ra, "b.ResetN(n"); g != nil {
		f.TranslateExpr("abrRejects", dir, g, "Bool", n, nil, "readAbridged: length rejected before allocating")
	} else {
		f.ConstFn("abrRejects", n, "Bool", "false", "readAbridged: no length guard before b.ResetN(n…)")
	}
	f.TranslateExpr("abrBytes", dir, callArg(f, ra, "b.ResetN", 0, func(a string) bool { return strings.Contains(a, "n") && a != "bin.Word" }), "Int", n, nil, "readAbridged: argument of b.ResetN")

	// ---- full.go
	rf := f.FuncDecl(dir, "readFull")
	if g := lenGuards(f, rf, "b.Expand("); g != nil {
		f.TranslateExpr("fullRejects", dir, g, "Bool", n, nil, "readFull: length rejected before b.Expand")
	} else {
		f.ConstFn("fullRejects", n, "Bool", "false", "readFull: no length guard before b.Expand")
	}
	f.TranslateExpr("fullExpand", dir, callArg(f, rf, "b.Expand", 0, nil), "Int", n, nil, "readFull: argument of b.Expand")
	f.TranslateExpr("fullPayload", dir, assignRHS(rf, "payloadLength"), "Int", n, nil, "readFull: payloadLength")
	boundsFact(f, "fullInner", sliceIn(f, rf, func(m ast.Node) bool {
		cl, ok := m.(*ast.CompositeLit)
		return ok && strings.Contains(f.Src(cl.Type), "bin.Buffer")
	}), n, nil, "readFull: inner := b.Buf[…]")
	boundsFact(f, "fullCrc", sliceIn(f, rf, func(m ast.Node) bool {
		c, ok := m.(*ast.CallExpr)
		return ok && strings.Contains(f.Src(c.Fun), "ChecksumIEEE")
	}), n, nil, "readFull: crc input b.Buf[…]")
	boundsFact(f, "fullCopy", sliceIn(f, rf, func(m ast.Node) bool {
		c, ok := m.(*ast.CallExpr)
		return ok && f.Src(c.Fun) == "copy"
	}), n, nil, "readFull: copy source b.Buf[…]")
	wf := f.FuncDecl(dir, "writeFull")
	f.TranslateExpr("fullWire", dir, callArg(f, wf, "write.PutInt", 0, func(a string) bool { return strings.Contains(a, "b.Len()") }), "Int", []string{"len"}, map[string]string{"b.Len()": "len"}, "writeFull: the length word")

	// Full.Write: validate → take the counter → write (statement order, interpreted by the model:
	// when the counter is taken first, a rejected write consumes a sequence number)
	after := false
	if fw := f.FuncDecl(dir, "Full.Write"); fw != nil && fw.Body != nil {
		chk := topIndex(fw, func(s ast.Stmt) bool { return containsCall(f, s, "checkOutgoingMessage(") })
		seq := topIndex(fw, func(s ast.Stmt) bool { return strings.Contains(hc.Squash(f.Src(s)), "atomic.AddInt64(&i.wSeqNo") })
		after = chk >= 0 && seq >= 0 && chk < seq
	}
	f.Bool("fullSeqAfterCheck", after, "Full.Write: atomic.AddInt64(&i.wSeqNo, …) comes in a later top-level statement than checkOutgoingMessage")

	// ---- padded_intermediate.go / intermediate.go
	wp := f.FuncDecl(dir, "writePaddedIntermediate")
	f.TranslateExpr("padOf", dir, assignRHS(wp, "n"), "Int", []string{"last"}, map[string]string{"b.Buf[length-1]": "last"}, "writePaddedIntermediate: number of padding bytes from the last payload byte")
	ri := f.FuncDecl(dir, "readIntermediate")
	f.TranslateExpr("padStrip", dir, assignRHS(ri, "paddingLength"), "Int", n, nil, "readIntermediate: paddingLength")
}
