package c16c17

import (
	"fmt"
	"hash/crc32"
	"io"

	"github.com/gotd/td/bin"
	"github.com/gotd/td/proto/codec"

	"verif/harness/hc"
)

// Kinds are the protocol names shared with the Lean driver.
var Kinds = []string{"abridged", "intermediate", "padded", "full"}

// Chunked delivers a byte stream in PRNG-chosen chunks (never more than the caller asked for,
// at least one byte while data remains; sometimes returns io.EOF together with the last bytes).
type Chunked struct {
	Data []byte
	Rng  *hc.RNG
	Mode int // 0: random small chunks, 1: one byte at a time, 2: as much as asked
	Pos  int
}

func (c *Chunked) Read(p []byte) (int, error) {
	if len(p) == 0 {
		return 0, nil
	}
	if c.Pos >= len(c.Data) {
		return 0, io.EOF
	}
	n := len(p)
	switch c.Mode {
	case 0:
		n = 1 + c.Rng.Intn(hc.Pick(c.Rng, 1, 2, 3, 4, 5, 7, 16, 64, 1024, 70000))
	case 1:
		n = 1
	}
	if n > len(p) {
		n = len(p)
	}
	if n > len(c.Data)-c.Pos {
		n = len(c.Data) - c.Pos
	}
	copy(p, c.Data[c.Pos:c.Pos+n])
	c.Pos += n
	if c.Pos == len(c.Data) && c.Mode == 0 && c.Rng.Bool() {
		return n, io.EOF
	}
	return n, nil
}

// NewCodec builds the real codec for a protocol name; Full's counters start at seq.
func NewCodec(kind string, seq int64) codec.Codec {
	switch kind {
	case "abridged":
		return codec.Abridged{}
	case "intermediate":
		return codec.Intermediate{}
	case "padded":
		return codec.PaddedIntermediate{}
	case "full":
		return codec.VerifC17NewFull(seq, seq)
	}
	panic("unknown codec " + kind)
}

// ReadResult is one Codec.Read on the implementation.
type ReadResult struct {
	Outcome string // "ok <hex>" | "err <class>" | "panic"
	Panic   string
	Frame   []byte
	Cap     int // cap(b.Buf) afterwards (the buffer starts nil, so this is what Read allocated)
}

// ReadOne runs Codec.Read once under recover().
func ReadOne(c codec.Codec, r io.Reader) (res ReadResult) {
	var b bin.Buffer
	defer func() {
		res.Cap = cap(b.Buf)
		if p := recover(); p != nil {
			res.Outcome = "panic"
			res.Panic = fmt.Sprint(p)
		}
	}()
	err := c.Read(r, &b)
	if err != nil {
		res.Outcome = "err " + codec.VerifC17ErrClass(err)
		return res
	}
	res.Frame = append([]byte{}, b.Buf...)
	res.Outcome = "ok " + hc.Hex(res.Frame)
	return res
}

// CRC is the primitive the model takes as a parameter.
func CRC(b []byte) uint32 { return crc32.ChecksumIEEE(b) }

// CheckDriverCRC validates the driver's CRC-32 (a primitive of the model) against hash/crc32; a
// mismatch is a harness error, not a violation.
func CheckDriverCRC(c *hc.Ctx) error {
	var lines []string
	var want []string
	for _, n := range []int{0, 1, 9, 64, 1000} {
		b := c.Rng.Bytes(n)
		lines = append(lines, "crc "+hc.Hex(b))
		want = append(want, fmt.Sprint(CRC(b)))
	}
	outs, err := c.Drv.Batch(lines)
	if err != nil {
		return err
	}
	for i := range outs {
		if outs[i] != want[i] {
			return fmt.Errorf("driver crc32 differs from hash/crc32 on %s: %s vs %s", lines[i], outs[i], want[i])
		}
	}
	return nil
}
