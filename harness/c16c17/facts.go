// Package c16c17 is the part of the C16 and C17 harnesses that both need: the facts read from
// /repo/proto/codec (+ transport) that make up the Lean `Codec.Cfg`, a reader that splits a stream
// into PRNG-chosen chunks, and adapters that run the real codecs under recover().
package c16c17

import (
	"fmt"
	"go/ast"
	"go/parser"
	"go/token"
	"os"
	"path/filepath"
	"strconv"
	"strings"

	"verif/harness/hc"
)

const dir = "proto/codec"

// constExpr evaluates the few constant expressions the codec guards use.
func constExpr(f *hc.Facts, x ast.Expr) (int, bool) {
	switch x := x.(type) {
	case *ast.BasicLit:
		if x.Kind != token.INT {
			return 0, false
		}
		v, err := strconv.ParseInt(x.Value, 0, 64)
		return int(v), err == nil
	case *ast.ParenExpr:
		return constExpr(f, x.X)
	case *ast.Ident:
		s, ok := f.ConstInt(dir, x.Name)
		if !ok {
			return 0, false
		}
		v, err := strconv.ParseInt(s, 10, 64)
		return int(v), err == nil
	case *ast.SelectorExpr:
		if id, ok := x.X.(*ast.Ident); ok && id.Name == "bin" && x.Sel.Name == "Word" {
			return 4, true
		}
	case *ast.BinaryExpr:
		a, ok1 := constExpr(f, x.X)
		b, ok2 := constExpr(f, x.Y)
		if !ok1 || !ok2 {
			return 0, false
		}
		switch x.Op {
		case token.ADD:
			return a + b, true
		case token.SUB:
			return a - b, true
		case token.MUL:
			return a * b, true
		case token.SHL:
			return a << uint(b), true
		}
	}
	return 0, false
}

// topIndex returns the index of the first top-level statement of fd for which pred holds, or -1.
func topIndex(fd *ast.FuncDecl, pred func(ast.Stmt) bool) int {
	if fd == nil || fd.Body == nil {
		return -1
	}
	for i, s := range fd.Body.List {
		if pred(s) {
			return i
		}
	}
	return -1
}

func containsCall(f *hc.Facts, n ast.Node, prefix string) bool {
	found := false
	ast.Inspect(n, func(m ast.Node) bool {
		if c, ok := m.(*ast.CallExpr); ok && strings.HasPrefix(f.Src(c), prefix) {
			found = true
		}
		return !found
	})
	return found
}

// guard looks for a top-level `if <lhs> <op> <const> { return … }` in fd that precedes the first
// top-level statement containing the call `before`; it returns the constant.
func guard(f *hc.Facts, fd *ast.FuncDecl, lhs string, op token.Token, before string) (int, bool) {
	lim := topIndex(fd, func(s ast.Stmt) bool { return containsCall(f, s, before) })
	if lim < 0 {
		return 0, false
	}
	for _, s := range fd.Body.List[:lim] {
		is, ok := s.(*ast.IfStmt)
		if !ok || is.Init != nil || len(is.Body.List) == 0 {
			continue
		}
		if _, ok := is.Body.List[len(is.Body.List)-1].(*ast.ReturnStmt); !ok {
			continue
		}
		be, ok := is.Cond.(*ast.BinaryExpr)
		if !ok || be.Op != op || strings.ReplaceAll(f.Src(be.X), " ", "") != lhs {
			continue
		}
		if v, ok := constExpr(f, be.Y); ok {
			return v, true
		}
	}
	return 0, false
}

// cmpConst finds `<lhs> <op> <const>` anywhere in fd.
func cmpConst(f *hc.Facts, fd *ast.FuncDecl, lhs string, op token.Token) (int, bool) {
	if fd == nil {
		return 0, false
	}
	v, ok := 0, false
	ast.Inspect(fd, func(n ast.Node) bool {
		be, isb := n.(*ast.BinaryExpr)
		if !isb || be.Op != op || strings.ReplaceAll(f.Src(be.X), " ", "") != lhs {
			return true
		}
		if c, okc := constExpr(f, be.Y); okc && !ok {
			v, ok = c, true
		}
		return true
	})
	return v, ok
}

// byteArrayVar reads a package-level `var name = [N]byte{…}` of proto/codec.
func byteArrayVar(f *hc.Facts, name string) (string, bool) {
	var out []string
	found := false
	for _, decl := range declsOf(f) {
		gd, ok := decl.(*ast.GenDecl)
		if !ok || gd.Tok != token.VAR {
			continue
		}
		for _, s := range gd.Specs {
			vs := s.(*ast.ValueSpec)
			for i, id := range vs.Names {
				if id.Name != name || i >= len(vs.Values) {
					continue
				}
				cl, ok := vs.Values[i].(*ast.CompositeLit)
				if !ok {
					return "", false
				}
				for _, e := range cl.Elts {
					v, ok := constExpr(f, e)
					if !ok || v < 0 || v > 255 {
						return "", false
					}
					out = append(out, fmt.Sprintf("0x%02x", v))
				}
				found = true
			}
		}
	}
	return "[" + strings.Join(out, ", ") + "]", found
}

// declsOf returns all top-level declarations of proto/codec (non-test, non-hook files).
func declsOf(f *hc.Facts) []ast.Decl {
	var out []ast.Decl
	ents, _ := os.ReadDir(filepath.Join(f.Repo, dir))
	fset := token.NewFileSet()
	for _, e := range ents {
		n := e.Name()
		if e.IsDir() || !strings.HasSuffix(n, ".go") || strings.HasSuffix(n, "_test.go") || strings.HasPrefix(n, "verif_") {
			continue
		}
		af, err := parser.ParseFile(fset, filepath.Join(f.Repo, dir, n), nil, 0)
		if err == nil {
			out = append(out, af.Decls...)
		}
	}
	return out
}

// onlyViaReadFull: every use of the reader parameter `r` in the codec's read functions is the
// first argument of io.ReadFull or of another of these read functions.
func onlyViaReadFull(f *hc.Facts) (bool, string) {
	funcs := []string{"readLen", "readAbridged", "readIntermediate", "readPaddedIntermediate", "readFull"}
	allowed := map[string]bool{"io.ReadFull": true}
	for _, n := range funcs {
		allowed[n] = true
	}
	for _, n := range funcs {
		fd := f.FuncDecl(dir, n)
		if fd == nil || fd.Body == nil {
			return false, n + " not found"
		}
		okUses := map[*ast.Ident]bool{}
		total := 0
		ast.Inspect(fd.Body, func(m ast.Node) bool {
			if c, ok := m.(*ast.CallExpr); ok && allowed[f.Src(c.Fun)] && len(c.Args) > 0 {
				if id, ok := c.Args[0].(*ast.Ident); ok && id.Name == "r" {
					okUses[id] = true
				}
			}
			if id, ok := m.(*ast.Ident); ok && id.Name == "r" {
				total++
			}
			return true
		})
		if total == 0 || total != len(okUses) {
			return false, fmt.Sprintf("%s uses r %d times, %d through io.ReadFull", n, total, len(okUses))
		}
	}
	return true, "readLen, readAbridged, readIntermediate, readPaddedIntermediate, readFull reach r only through io.ReadFull"
}

// Facts emits the definitions from which TdModel.C16.cfg / TdModel.C17.cfg are built.
func Facts(f *hc.Facts) {
	f.Const("maxMessageSize", dir, "maxMessageSize")

	wa := f.FuncDecl(dir, "writeAbridged")
	mark, okm := 0, false
	if wa != nil {
		ast.Inspect(wa, func(n ast.Node) bool {
			as, ok := n.(*ast.AssignStmt)
			if ok && len(as.Lhs) == 1 && len(as.Rhs) == 1 && f.Src(as.Lhs[0]) == "buf[0]" {
				mark, okm = constExpr(f, as.Rhs[0])
			}
			return true
		})
	}
	if okm {
		f.Nat("abrMark", mark, "writeAbridged: buf[0] = …")
	} else {
		f.Missing("abrMark", "writeAbridged: buf[0] = const not found")
	}
	rf := f.FuncDecl(dir, "readFull")

	// envelope allowances: third argument of readLen
	f.Nat("fullOver", readLenExtra(f, rf), "readFull: envelope argument of readLen (0 when absent)")
	ri := f.FuncDecl(dir, "readIntermediate")
	pad := 0
	if ri != nil && readLenExtraIsIdent(f, ri) != "" {
		name := readLenExtraIsIdent(f, ri)
		// `if padding { <name> = K }`
		ast.Inspect(ri, func(n ast.Node) bool {
			is, ok := n.(*ast.IfStmt)
			if !ok || f.Src(is.Cond) != "padding" {
				return true
			}
			for _, s := range is.Body.List {
				if as, ok := s.(*ast.AssignStmt); ok && len(as.Lhs) == 1 && f.Src(as.Lhs[0]) == name {
					if v, ok := constExpr(f, as.Rhs[0]); ok {
						pad = v
					}
				}
			}
			return true
		})
	}
	f.Nat("padOver", pad, "readIntermediate: envelope passed to readLen when padding (0 when absent)")

	for _, t := range [][2]string{{"tagAbridged", "AbridgedClientStart"}, {"tagIntermediate", "IntermediateClientStart"}, {"tagPadded", "PaddedIntermediateClientStart"}} {
		if v, ok := byteArrayVar(f, t[1]); ok {
			f.Raw(fmt.Sprintf("def %s : List UInt8 := %s -- codec.%s", t[0], v, t[1]))
		} else {
			f.Missing(t[0], "codec."+t[1]+" byte array literal not found")
		}
	}

	okr, why := onlyViaReadFull(f)
	f.Bool("readsOnlyViaReadFull", okr, why)
	SemanticFacts(f)
}

func constExprName(f *hc.Facts, name string) (int, bool) {
	return constExpr(f, &ast.Ident{Name: name})
}

func readLenCall(f *hc.Facts, fd *ast.FuncDecl) *ast.CallExpr {
	var call *ast.CallExpr
	if fd == nil {
		return nil
	}
	ast.Inspect(fd, func(n ast.Node) bool {
		if c, ok := n.(*ast.CallExpr); ok && f.Src(c.Fun) == "readLen" && call == nil {
			call = c
		}
		return true
	})
	return call
}

func readLenExtra(f *hc.Facts, fd *ast.FuncDecl) int {
	c := readLenCall(f, fd)
	if c == nil || len(c.Args) < 3 {
		return 0
	}
	v, ok := constExpr(f, c.Args[2])
	if !ok {
		return 0
	}
	return v
}

func readLenExtraIsIdent(f *hc.Facts, fd *ast.FuncDecl) string {
	c := readLenCall(f, fd)
	if c == nil || len(c.Args) < 3 {
		return ""
	}
	if id, ok := c.Args[2].(*ast.Ident); ok {
		return id.Name
	}
	return ""
}
