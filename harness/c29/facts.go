package main

import (
	"go/ast"
	"strings"

	"verif/harness/hc"
)

func clauseBody(f *hc.Facts, c *ast.CommClause) string {
	var b strings.Builder
	for _, st := range c.Body {
		b.WriteString(f.Src(st))
		b.WriteString("\n")
	}
	return b.String()
}

func facts(f *hc.Facts) {
	// telegram/invoke.go
	ret := false
	if fd := f.FuncDecl("telegram", "errRetryableOnNewConn"); fd != nil && fd.Body != nil && len(fd.Body.List) == 1 {
		ret = f.Src(fd.Body.List[0]) == "return errors.Is(err, pool.ErrConnDead) || errors.Is(err, rpc.ErrEngineClosed)"
	}
	f.Bool("retryableIsDeadOrEngineClosed", ret, "telegram.errRetryableOnNewConn = Is(ErrConnDead) || Is(ErrEngineClosed)")
	waitsChanged, waitsDone, snapshot, retryOnly := false, false, false, false
	if fd := f.FuncDecl("telegram", "Client.invokeConn"); fd != nil && fd.Body != nil {
		src := f.Src(fd.Body)
		snapshot = strings.Contains(src, "c.connMux.Lock()\n\t\tconn := c.conn\n\t\tconnChanged := c.connChanged\n\t\tc.connMux.Unlock()")
		retryOnly = strings.Contains(src, "if err == nil || !errRetryableOnNewConn(err) {\n\t\t\treturn err\n\t\t}")
		clientDoneFromCtx := strings.Contains(src, "clientDone = c.ctx.Done()")
		ast.Inspect(fd.Body, func(n ast.Node) bool {
			c, ok := n.(*ast.CommClause)
			if !ok || c.Comm == nil {
				return true
			}
			switch f.Src(c.Comm) {
			case "<-connChanged":
				waitsChanged = !strings.Contains(clauseBody(f, c), "return")
			case "<-clientDone":
				waitsDone = clientDoneFromCtx && strings.Contains(clauseBody(f, c), "return errors.Wrap(c.ctx.Err(), \"client closed\")")
			}
			return true
		})
	}
	// structured: the order of the operations in the body of invokeConn's loop, interpreted by the model
	// (codes: 1 connMux.Lock, 2 conn := c.conn, 3 connChanged := c.connChanged, 4 connMux.Unlock,
	//  5 conn.Invoke, 6 return unless retryable, 7 select on ctx/clientDone/connChanged, 0 anything else)
	var ops []string
	if fd := f.FuncDecl("telegram", "Client.invokeConn"); fd != nil && fd.Body != nil {
		ast.Inspect(fd.Body, func(n ast.Node) bool {
			fs, ok := n.(*ast.ForStmt)
			if !ok {
				return true
			}
			for _, st := range fs.Body.List {
				src := f.Src(st)
				switch {
				case src == "c.connMux.Lock()":
					ops = append(ops, "1")
				case src == "conn := c.conn":
					ops = append(ops, "2")
				case src == "connChanged := c.connChanged":
					ops = append(ops, "3")
				case src == "c.connMux.Unlock()":
					ops = append(ops, "4")
				case strings.HasPrefix(src, "err := conn.Invoke("):
					ops = append(ops, "5")
				case strings.HasPrefix(src, "if err == nil || !errRetryableOnNewConn(err)"):
					ops = append(ops, "6")
				case strings.HasPrefix(src, "select {") && strings.Contains(src, "<-connChanged"):
					ops = append(ops, "7")
				case strings.HasPrefix(src, "verifC29Point("):
					// observation point, not an operation
				default:
					ops = append(ops, "0")
				}
			}
			return false
		})
	}
	f.Raw("def invokeLoopOps : List Nat := [" + strings.Join(ops, ", ") + "] -- invokeConn loop body: 1 Lock 2 conn:=c.conn 3 connChanged:=c.connChanged 4 Unlock 5 conn.Invoke 6 return-unless-retryable 7 select(connChanged) 0 other")
	// manager.Conn.Run: the deferred statements in order (1 = defer c.dead.Signal(), 2 = other defer, 3 = return c.proto.Run(...))
	var runOps []string
	if fd := f.FuncDecl("telegram/internal/manager", "Conn.Run"); fd != nil && fd.Body != nil {
		for _, st := range fd.Body.List {
			src := f.Src(st)
			switch {
			case src == "defer c.dead.Signal()":
				runOps = append(runOps, "1")
			case strings.HasPrefix(src, "defer "):
				runOps = append(runOps, "2")
			case strings.HasPrefix(src, "return c.proto.Run("):
				runOps = append(runOps, "3")
			default:
				runOps = append(runOps, "0")
			}
		}
	}
	f.Raw("def connRunOps : List Nat := [" + strings.Join(runOps, ", ") + "] -- manager.Conn.Run body: 1 defer c.dead.Signal() 2 other defer 3 return c.proto.Run(…) 0 other")
	// manager.Conn.waitSession: the cases of its blocking select (1 gotConfig, 2 dead -> ErrConnDead, 3 ctx, 0 other)
	var wsOps []string
	if fd := f.FuncDecl("telegram/internal/manager", "Conn.waitSession"); fd != nil && fd.Body != nil {
		var last *ast.SelectStmt
		ast.Inspect(fd.Body, func(n ast.Node) bool {
			if sel, ok := n.(*ast.SelectStmt); ok {
				last = sel
			}
			return true
		})
		if last != nil {
			for _, cc := range last.Body.List {
				c := cc.(*ast.CommClause)
				switch {
				case c.Comm == nil:
					wsOps = append(wsOps, "0")
				case f.Src(c.Comm) == "<-c.gotConfig.Ready()":
					wsOps = append(wsOps, "1")
				case f.Src(c.Comm) == "<-c.dead.Ready()" && strings.Contains(clauseBody(f, c), "return pool.ErrConnDead"):
					wsOps = append(wsOps, "2")
				case f.Src(c.Comm) == "<-ctx.Done()":
					wsOps = append(wsOps, "3")
				default:
					wsOps = append(wsOps, "0")
				}
			}
		}
	}
	f.Raw("def waitSessionCases : List Nat := [" + strings.Join(wsOps, ", ") + "] -- manager.Conn.waitSession select: 1 gotConfig 2 dead→ErrConnDead 3 ctx 0 other")
	_ = snapshot
	f.Bool("waitsConnChanged", waitsChanged && retryOnly, "invokeConn: only retryable errors loop; case <-connChanged continues the loop")
	f.Bool("waitsClientDone", waitsDone, "invokeConn: case <-clientDone (c.ctx.Done()) returns \"client closed\"")
	rep := false
	if fd := f.FuncDecl("telegram", "Client.replaceConn"); fd != nil && fd.Body != nil {
		src := f.Src(fd.Body)
		rep = strings.Contains(src, "close(c.connChanged)") && strings.Contains(src, "c.connChanged = make(chan struct{})") && strings.Contains(src, "c.conn = conn")
	}
	f.Bool("replaceConnSignals", rep, "replaceConn: c.conn = conn; close(c.connChanged); c.connChanged = make(chan struct{})")
	// rpc/engine.go
	cause, plain := false, false
	if fd := f.FuncDecl("rpc", "Engine.retryUntilAck"); fd != nil && fd.Body != nil {
		ast.Inspect(fd.Body, func(n ast.Node) bool {
			switch x := n.(type) {
			case *ast.CommClause:
				if x.Comm != nil && f.Src(x.Comm) == "<-e.reqCtx.Done()" {
					cause = strings.Contains(clauseBody(f, x), "return errors.Wrap(context.Cause(e.reqCtx), \"engine forcibly closed\")")
				}
			case *ast.IfStmt:
				if x.Init != nil && f.Src(x.Init) == "err := e.send(ctx, req.MsgID, req.SeqNo, req.Input)" &&
					strings.Contains(f.Src(x.Body), "return false, errors.Wrap(err, \"send\")") {
					plain = true
				}
			}
			return true
		})
	}
	f.Bool("unackedCloseReportsCause", cause, "retryUntilAck: case <-e.reqCtx.Done(): … return Wrap(context.Cause(e.reqCtx)) (= ErrEngineClosed)")
	f.Bool("sendErrorPlain", plain, "retryUntilAck: first send error is returned as Wrap(err, \"send\") (not a retryable sentinel)")
	// manager.Conn.Invoke maps a transport-level send failure to pool.ErrConnDead
	mapped := false
	if fd := f.FuncDecl("telegram/internal/manager", "Conn.Invoke"); fd != nil && fd.Body != nil && len(fd.Body.List) >= 2 {
		n := len(fd.Body.List)
		if f.Src(fd.Body.List[n-2]) == "err := c.proto.Invoke(ctx, req, output)" && f.Src(fd.Body.List[n-1]) == "return connDeadOnSendError(ctx, err)" {
			if h := f.FuncDecl("telegram/internal/manager", "connDeadOnSendError"); h != nil && h.Body != nil {
				src := f.Src(h.Body)
				mapped = strings.Contains(src, "ctx.Err() != nil") && strings.Contains(src, "errors.As(err, &netErr)") &&
					strings.Contains(src, "pool.ErrConnDead, err")
			}
		}
	}
	f.Bool("sendErrorMapped", mapped, "manager.Conn.Invoke: return connDeadOnSendError(ctx, err) — net errors of the write become pool.ErrConnDead unless the caller's ctx is done")
	ackedErr := false
	if fd := f.FuncDecl("rpc", "Engine.Do"); fd != nil && fd.Body != nil {
		ast.Inspect(fd.Body, func(n ast.Node) bool {
			if c, ok := n.(*ast.CommClause); ok && c.Comm != nil && f.Src(c.Comm) == "<-e.reqCtx.Done()" {
				b := clauseBody(f, c)
				if strings.Contains(b, "return errors.Wrap(e.reqCtx.Err(), \"engine forcibly closed\")") && !strings.Contains(b, "context.Cause") {
					ackedErr = true
				}
			}
			return true
		})
	}
	f.Bool("ackedCloseReportsCtxErr", ackedErr, "Do: after the ack, case <-e.reqCtx.Done() returns Wrap(e.reqCtx.Err()) (context.Canceled, not retryable)")
	fc := false
	if fd := f.FuncDecl("rpc", "Engine.ForceClose"); fd != nil && fd.Body != nil && len(fd.Body.List) >= 1 {
		fc = f.Src(fd.Body.List[0]) == "e.reqCancel(ErrEngineClosed)"
	}
	f.Bool("forceCloseCause", fc, "ForceClose: e.reqCancel(ErrEngineClosed)")
	// mtproto/read.go readLoop: the top-level statements, the body of the read loop spliced in
	// (1 defer handlers.Wait(), 2 handlers.Add(1), 3 go func() { defer handlers.Done(); … c.consumeMessage(…) … }(),
	//  4 a go statement that handles a message without that, 0 anything else)
	var rl []string
	if fd := f.FuncDecl("mtproto", "Conn.readLoop"); fd != nil && fd.Body != nil {
		var walk func(list []ast.Stmt)
		walk = func(list []ast.Stmt) {
			for _, st := range list {
				src := f.Src(st)
				switch x := st.(type) {
				case *ast.ForStmt:
					walk(x.Body.List)
					continue
				case *ast.GoStmt:
					code := "4"
					if fl, ok := x.Call.Fun.(*ast.FuncLit); ok && len(fl.Body.List) >= 2 &&
						f.Src(fl.Body.List[0]) == "defer handlers.Done()" && strings.Contains(f.Src(fl.Body), "c.consumeMessage(ctx, buf)") {
						code = "3"
					}
					rl = append(rl, code)
					continue
				}
				switch {
				case src == "defer handlers.Wait()":
					rl = append(rl, "1")
				case src == "handlers.Add(1)":
					rl = append(rl, "2")
				default:
					rl = append(rl, "0")
				}
			}
		}
		walk(fd.Body.List)
	}
	f.Raw("def readLoopOps : List Nat := [" + strings.Join(rl, ", ") + "] -- mtproto readLoop (loop body spliced in): 1 defer handlers.Wait() 2 handlers.Add(1) 3 go func(){ defer handlers.Done(); …consumeMessage… }() 4 other go statement 0 other")
	// rpc/ack.go NotifyAcks: the body of the loop over the ids of one msgs_ack
	// (1 ch, ok := e.ack[id]; 2 if !ok { …; continue }; 9 an if !ok branch that ends otherwise; 3 close(ch); 4 delete(e.ack, id); 0 other)
	var na []string
	if fd := f.FuncDecl("rpc", "Engine.NotifyAcks"); fd != nil && fd.Body != nil {
		for _, st := range fd.Body.List {
			rs, ok := st.(*ast.RangeStmt)
			if !ok || f.Src(rs.X) != "ids" {
				continue
			}
			for _, b := range rs.Body.List {
				src := f.Src(b)
				switch {
				case src == "ch, ok := e.ack[id]":
					na = append(na, "1")
				case strings.HasPrefix(src, "if !ok {"):
					code := "9"
					if is, ok := b.(*ast.IfStmt); ok && is.Else == nil && len(is.Body.List) > 0 && f.Src(is.Body.List[len(is.Body.List)-1]) == "continue" {
						code = "2"
					}
					na = append(na, code)
				case src == "close(ch)":
					na = append(na, "3")
				case src == "delete(e.ack, id)":
					na = append(na, "4")
				default:
					na = append(na, "0")
				}
			}
		}
	}
	f.Raw("def notifyAcksOps : List Nat := [" + strings.Join(na, ", ") + "] -- NotifyAcks, body of `for _, id := range ids`: 1 ch, ok := e.ack[id] 2 if !ok {…continue} 9 if !ok ending otherwise 3 close(ch) 4 delete(e.ack, id) 0 other")
}
