// C29 — requests survive primary connection loss without duplicate execution.
//
// End-to-end scenario correspondence: a real telegram.Client against the in-process tgtest cluster
// over real sockets (through a proxy that can kill the primary connection locally or remotely), the
// server logs every messages.sendMessage it receives; the observed event history is replayed through
// the Lean model (TdModel.C29) and the property monitor is evaluated on the implementation alone.
package main

import (
	"context"
	"fmt"
	"os"
	"sort"
	"strings"
	"sync"

	"verif/harness/hc"
)

func main() { hc.Main(hc.Spec{Prop: "C29", Facts: facts, Run: run}) }

func parseScenario(line string) (scenario, bool) {
	var sc scenario
	for _, w := range strings.Fields(line) {
		switch {
		case strings.HasPrefix(w, "first="):
			sc.first = strings.Split(strings.TrimPrefix(w, "first="), ",")
		case strings.HasPrefix(w, "kill="):
			sc.kill = strings.TrimPrefix(w, "kill=")
		case strings.HasPrefix(w, "mode="):
			sc.mode = strings.TrimPrefix(w, "mode=")
		case strings.HasPrefix(w, "end="):
			sc.end = strings.TrimPrefix(w, "end=")
		case strings.HasPrefix(w, "flaky="):
			fmt.Sscanf(w, "flaky=%d", &sc.flaky)
		case strings.HasPrefix(w, "fkind="):
			sc.fkind = strings.TrimPrefix(w, "fkind=")
		case w == "late=1":
			sc.late = true
		}
	}
	return sc, len(sc.first) > 0 && sc.kill != "" && sc.end != ""
}

func baseScenarios() []scenario {
	var out []scenario
	for _, mode := range []string{"remote", "local"} {
		for _, end := range []string{"reconnect", "close"} {
			// kill before the request is issued
			out = append(out, scenario{first: []string{"res"}, kill: "before", mode: mode, end: end})
			// kill after the server received it, not acknowledged
			out = append(out, scenario{first: []string{"drop"}, kill: "arrived", mode: mode, end: end})
			// kill after the client processed the acknowledgement
			out = append(out, scenario{first: []string{"ack"}, kill: "acked", mode: mode, end: end})
			// kill after the result was returned
			out = append(out, scenario{first: []string{"res"}, kill: "returned", mode: mode, end: end})
			out = append(out, scenario{first: []string{"ackres"}, kill: "returned", mode: mode, end: end})
		}
	}
	out = append(out,
		scenario{first: []string{"res"}, kill: "none", mode: "remote", end: "reconnect"},
		scenario{first: []string{"drop"}, kill: "none", mode: "remote", end: "close"},
		scenario{first: []string{"ack"}, kill: "none", mode: "remote", end: "close"},
		scenario{first: []string{"drop", "ack"}, kill: "acked", mode: "remote", end: "reconnect"},
		scenario{first: []string{"drop", "ack", "res"}, kill: "acked", mode: "remote", end: "reconnect"},
		scenario{first: []string{"drop", "drop", "drop"}, kill: "arrived", mode: "local", end: "reconnect"},
		scenario{first: []string{"ack", "ack"}, kill: "acked", mode: "local", end: "close"},
		scenario{first: []string{"res", "res", "res"}, kill: "before", mode: "remote", end: "reconnect"},
		// the replacement connection dies while it connects (the invocation waits for its session)
		scenario{first: []string{"drop"}, kill: "arrived", mode: "remote", end: "reconnect", flaky: 1},
		scenario{first: []string{"drop"}, kill: "arrived", mode: "local", end: "reconnect", flaky: 2},
		scenario{first: []string{"drop"}, kill: "arrived", mode: "remote", end: "reconnect", flaky: 1, fkind: "refuse"},
		scenario{first: []string{"drop", "drop"}, kill: "arrived", mode: "local", end: "reconnect", flaky: 3, fkind: "refuse"},
		scenario{first: []string{"res"}, kill: "before", mode: "remote", end: "reconnect", flaky: 2, fkind: "refuse"},
		scenario{first: []string{"drop"}, kill: "arrived", mode: "remote", end: "close", flaky: 1, fkind: "refuse"},
		scenario{first: []string{"drop", "ack"}, kill: "acked", mode: "remote", end: "reconnect", flaky: 1},
		scenario{first: []string{"res"}, kill: "before", mode: "remote", end: "reconnect", flaky: 1},
		scenario{first: []string{"drop"}, kill: "arrived", mode: "remote", end: "close", flaky: 1},
		// the failed invocation is held until the connection has been replaced
		scenario{first: []string{"drop"}, kill: "arrived", mode: "remote", end: "reconnect", late: true},
		scenario{first: []string{"drop", "drop"}, kill: "arrived", mode: "local", end: "reconnect", late: true},
		scenario{first: []string{"drop", "ack"}, kill: "acked", mode: "remote", end: "reconnect", late: true},
		scenario{first: []string{"drop"}, kill: "arrived", mode: "remote", end: "reconnect", flaky: 1, late: true},
		scenario{first: []string{"res"}, kill: "before", mode: "local", end: "reconnect", late: true},
		// a batched msgs_ack whose first id is unknown to the client's engine
		scenario{first: []string{"ackb"}, kill: "acked", mode: "remote", end: "reconnect"},
		scenario{first: []string{"drop", "ackb"}, kill: "acked", mode: "local", end: "reconnect"},
		scenario{first: []string{"ackb"}, kill: "acked", mode: "remote", end: "close"},
		// the connection dies at the moment the client has read the acknowledgement / the result
		scenario{first: []string{"ack"}, kill: "ackread", mode: "remote", end: "reconnect"},
		scenario{first: []string{"ack"}, kill: "ackread", mode: "local", end: "reconnect"},
		scenario{first: []string{"drop", "ackb"}, kill: "ackread", mode: "remote", end: "reconnect"},
		scenario{first: []string{"ack"}, kill: "ackread", mode: "remote", end: "close"},
		scenario{first: []string{"res"}, kill: "resread", mode: "remote", end: "reconnect"},
		scenario{first: []string{"drop", "ackres"}, kill: "resread", mode: "local", end: "reconnect"},
	)
	return out
}

func randomScenario(r *hc.RNG) scenario {
	n := hc.Pick(r, 1, 2, 2, 3, 3)
	sc := scenario{mode: hc.Pick(r, "remote", "local"), end: hc.Pick(r, "reconnect", "reconnect", "close")}
	sc.kill = hc.Pick(r, "before", "arrived", "arrived", "acked", "acked", "returned", "none", "ackread", "resread")
	for i := 0; i < n; i++ {
		switch sc.kill {
		case "before":
			// the requests are issued after the kill: their first copy travels on the replacement connection,
			// nothing else will make the invocation return unless it is answered (or the client is closed)
			if sc.end == "reconnect" {
				sc.first = append(sc.first, hc.Pick(r, "res", "ackres"))
			} else {
				sc.first = append(sc.first, hc.Pick(r, "drop", "ack", "res", "ackres"))
			}
		case "returned", "none":
			if sc.end == "reconnect" || sc.kill == "returned" {
				sc.first = append(sc.first, hc.Pick(r, "res", "ackres"))
			} else {
				sc.first = append(sc.first, hc.Pick(r, "drop", "ack", "res", "ackres"))
			}
		case "acked", "ackread":
			sc.first = append(sc.first, hc.Pick(r, "ack", "ackb", "drop", "res", "ackres"))
		case "resread":
			sc.first = append(sc.first, hc.Pick(r, "res", "ackres", "drop", "ack", "ackb"))
		default:
			sc.first = append(sc.first, hc.Pick(r, "drop", "drop", "ack", "res", "ackres"))
		}
	}
	if sc.kill == "acked" || sc.kill == "ackread" {
		sc.first[r.Intn(n)] = hc.Pick(r, "ack", "ackb")
	}
	if sc.kill == "resread" {
		sc.first[r.Intn(n)] = hc.Pick(r, "res", "ackres")
	}
	if sc.kill != "none" {
		sc.flaky = hc.Pick(r, 0, 0, 0, 1, 1, 2, 3)
		sc.fkind = hc.Pick(r, "eof", "refuse")
		sc.late = r.Chance(40)
	}
	return sc
}

// ---------------------------------------------------------------------------------------------
// implementation-only monitor

type verdict struct {
	fails   [][2]string // key, detail
	anomaly bool        // watchdog / ambiguous history: re-run before believing it
	recheck bool        // a failure that rests on the order of two concurrent goroutines: only believed when it persists
}

func monitor(sc scenario, o outcome) verdict {
	var v verdict
	fail := func(k, d string) { v.fails = append(v.fails, [2]string{k, d}) }
	if len(o.bad) > 0 {
		v.anomaly = true
		fail("stuck", strings.Join(o.bad, "; "))
	}
	n := len(sc.first)
	type st struct {
		acked      map[int]bool // epochs on which the server acknowledged
		answered   map[int]bool
		ackSeenEp  int // epoch of the acknowledgement the client has processed (-1 none)
		readEp     int // epoch of the acknowledgement / result the client has read from the wire (-1 none)
		arrivals   map[int]int
		lastArr    int
		returned   bool
		invoked    bool
	}
	rs := map[int]*st{}
	get := func(r int) *st {
		if rs[r] == nil {
			rs[r] = &st{acked: map[int]bool{}, answered: map[int]bool{}, ackSeenEp: -1, readEp: -1, arrivals: map[int]int{}, lastArr: -1}
		}
		return rs[r]
	}
	// wake-up rule: an invocation that failed over on epoch k binds next to epoch k+1, unless the epochs
	// it skipped were replacement connections that the scenario made fail while they connected
	curEpoch := 0
	doomedEp := map[int]bool{}
	lastFail := map[int]int{}
	dialed := map[int]bool{0: true} // connection epochs for which the client got a socket (dial order = epoch order)
	endedEp := map[int]bool{}       // … whose socket ended without the harness killing it
	closed, alive := false, true
	deadBy := map[int]string{} // connection epoch -> the task that noticed its death first (read | other)
	for _, e := range o.log {
		if e.kind == "dead" {
			if _, ok := deadBy[e.epoch]; !ok {
				deadBy[e.epoch] = e.note
			}
		}
	}
	laterDial := func(from int) bool {
		for _, e := range o.log[from:] {
			if e.kind == "rep" {
				return true
			}
		}
		return false
	}
	for idx, e := range o.log {
		switch e.kind {
		case "inv":
			get(e.req).invoked = true
		case "rep":
			alive = true
			curEpoch = e.epoch
		case "kill":
			alive = false
			for j := 1; j <= sc.flaky; j++ {
				doomedEp[curEpoch+j] = true
			}
		case "dial":
			dialed[e.epoch] = true
		case "end":
			endedEp[e.epoch] = true
		case "back":
			if k, ok := lastFail[e.req]; ok {
				for j := k + 1; j < e.epoch; j++ {
					// only a connection that demonstrably was in place and stayed up counts as skipped
					if !doomedEp[j] && dialed[j] && !endedEp[j] {
						fail("missed-wakeup", fmt.Sprintf("request %d failed over on connection %d and was next tried on connection %d although connection %d in between was healthy: the replacement did not wake it", e.req, k, e.epoch, j))
						break
					}
				}
				delete(lastFail, e.req)
			}
			if e.note == "retry" {
				lastFail[e.req] = e.epoch
			}
		case "close":
			closed = true
		case "arr":
			q := get(e.req)
			q.arrivals[e.epoch]++
			if q.arrivals[e.epoch] > 1 {
				fail("duplicate-on-connection", fmt.Sprintf("request %d received twice on connection %d", e.req, e.epoch))
			}
			if q.ackSeenEp >= 0 && e.epoch > q.ackSeenEp {
				fail("acked-request-resent", fmt.Sprintf("request %d was acknowledged on connection %d (and the client had processed the acknowledgement) but was sent again on connection %d", e.req, q.ackSeenEp, e.epoch))
			} else if q.readEp >= 0 && e.epoch > q.readEp && deadBy[q.readEp] == "read" && !closed {
				v.recheck = true
				fail("acked-request-resent", fmt.Sprintf("request %d was acknowledged / answered on connection %d and the client had read that message from the wire before the connection died (its read loop noticed the death, which closes the rpc engine only after the messages already read are handled), but the request was sent again on connection %d", e.req, q.readEp, e.epoch))
			}
			q.lastArr = e.epoch
		case "ack":
			get(e.req).acked[e.epoch] = true
		case "res":
			get(e.req).answered[e.epoch] = true
		case "rd":
			q := get(e.req)
			if (q.acked[e.epoch] || q.answered[e.epoch]) && q.readEp < 0 {
				q.readEp = e.epoch
			}
		case "seen":
			q := get(e.req)
			if q.lastArr >= 0 && (q.acked[q.lastArr] || q.answered[q.lastArr]) && q.ackSeenEp < 0 {
				q.ackSeenEp = q.lastArr
			}
		case "ret":
			q := get(e.req)
			q.returned = true
			switch {
			case e.ok:
				if len(q.answered) == 0 {
					fail("ok-without-result", fmt.Sprintf("request %d returned success although the server never answered it", e.req))
				}
			case closed:
				// a closed client returns errors: fine
			case q.ackSeenEp < 0 && q.readEp >= 0 && (!alive || q.readEp < curEpoch || laterDial(idx)):
				// the acknowledgement was read just before the connection died
			case q.ackSeenEp >= 0 && (!alive || q.ackSeenEp < curEpoch || laterDial(idx)):
				// acknowledged request whose connection was lost (killed by the scenario, or died on its own:
				// the client dials a replacement afterwards): the caller gets an error, by design
			case q.ackSeenEp >= 0:
				fail("acked-request-error-without-loss", fmt.Sprintf("request %d returned an error although its connection was not lost: %s", e.req, o.errs[e.req]))
			case len(q.arrivals) == 0:
				fail("unsent-request-error", fmt.Sprintf("request %d never reached the server (the connection died before it was written) and the caller got an error instead of a transparent re-send: %s", e.req, o.errs[e.req]))
			default:
				fail("unacked-request-error", fmt.Sprintf("request %d was sent but not acknowledged when the connection died, and the caller got an error instead of a re-send: %s", e.req, o.errs[e.req]))
			}
		}
	}
	for r := 0; r < n; r++ {
		if q := rs[r]; q == nil || !q.returned {
			v.anomaly = true
			fail("invocation-never-returned", fmt.Sprintf("request %d did not return", r))
		}
	}
	if sc.end == "close" && o.after != "err" {
		if o.after == "blocked" {
			v.anomaly = true
		}
		fail("invoke-after-close", "an invocation on the closed client returned "+o.after+" instead of an error")
	}
	return v
}

// ---------------------------------------------------------------------------------------------
// model trace

func modelTrace(sc scenario, o outcome) (acts []string, summary string) {
	n := len(sc.first) + 1
	log := o.log
	// pass 1: every return of conn.Invoke ("back") belongs to one binding of the invocation to a
	// connection epoch; the binding happened after the invocation became eligible (inv / previous
	// retryable back) and after that epoch began, and before the epoch ended: place it at the later of
	// the two (a point where the model's guard holds)
	elig := map[int]int{}
	repIdx := map[int]int{0: -1}
	bindsAfter := map[int][]int{} // log index -> requests bound right after it
	for i, e := range log {
		switch e.kind {
		case "inv":
			elig[e.req] = i
		case "rep":
			repIdx[e.epoch] = i
		case "back":
			pos, ok := elig[e.req]
			if !ok {
				pos = i - 1
			}
			if ri, ok := repIdx[e.epoch]; ok && ri > pos {
				pos = ri
			}
			bindsAfter[pos] = append(bindsAfter[pos], e.req)
			if e.note == "retry" {
				elig[e.req] = i
			}
		}
	}
	type ph struct {
		kind string // idle ready bound sent acked parked done
		k    int
	}
	p := make([]ph, n+100)
	for i := range p {
		p[i].kind = "idle"
	}
	acked := map[[2]int]bool{}
	inited := map[int]bool{}
	epoch, alive, closed := 0, true, false
	res := make([]string, n)
	emit := func(f string, a ...any) { acts = append(acts, fmt.Sprintf(f, a...)) }
	deadBy := map[int]string{}
	for _, e := range log {
		if e.kind == "dead" {
			if _, ok := deadBy[e.epoch]; !ok {
				deadBy[e.epoch] = e.note
			}
		}
	}
	// the death of the current connection: noticed by its read loop (kill) or by another task first (killw)
	emitKill := func() {
		if deadBy[epoch] == "other" {
			emit("killw")
		} else {
			emit("kill")
		}
	}
	laterRep := func(from int) bool {
		for _, e := range log[from:] {
			if e.kind == "rep" {
				return true
			}
		}
		return false
	}
	doBinds := func(i int) {
		for _, r := range bindsAfter[i] {
			emit("bind:%d", r)
			p[r].kind, p[r].k = "bound", epoch
		}
	}
	doBinds(-1)
	for idx, e := range log {
		switch e.kind {
		case "inv":
			emit("inv:%d", e.req)
			p[e.req].kind = "ready"
		case "rep":
			if alive && !closed {
				emitKill() // the client replaced its primary connection: the old one had died
				alive = false
			}
			if !closed {
				emit("reconnect")
				epoch++
				alive = true
			}
		case "kill":
			if alive {
				emitKill()
				alive = false
			}
		case "close":
			if !closed {
				emit("close")
				closed, alive = true, false
			}
		case "arr":
			k := e.epoch
			if !inited[k] {
				emit("init")
				inited[k] = true
			}
			emit("arr:%d:%d", e.req, k)
			q := &p[e.req]
			if k == epoch && q.kind == "bound" && q.k == k {
				q.kind = "sent"
			}
		case "ack":
			emit("ack:%d:%d", e.req, e.epoch)
			acked[[2]int{e.req, e.epoch}] = true
		case "res":
			emit("res:%d:%d", e.req, e.epoch)
			acked[[2]int{e.req, e.epoch}] = true
		case "rd":
			emit("rd:%d:%d", e.req, e.epoch)
		case "seen":
			q := &p[e.req]
			if q.kind == "idle" {
				break
			}
			emit("seen:%d", e.req)
			if q.kind == "sent" && acked[[2]int{e.req, q.k}] {
				q.kind = "acked"
			}
		case "back":
			if e.note == "retry" {
				if e.epoch == epoch && alive && !closed {
					// conn.Invoke failed with "connection dead" on the current connection: it has died
					// (killed while it was connecting, or on its own); the replacement follows
					emitKill()
					alive = false
				}
				emit("fail:%d", e.req)
				p[e.req].kind = "parked"
			}
		case "ret":
			q := &p[e.req]
			switch {
			case e.ok:
				emit("retOk:%d", e.req)
				if e.req < n {
					res[e.req] = "K"
				}
			case !closed && q.kind == "bound":
				emit("sendFail:%d", e.req)
				if e.req < n {
					res[e.req] = "E"
				}
			default:
				if !closed && alive && q.kind == "acked" && laterRep(idx) {
					emitKill() // the connection died on its own (the client replaces it right after)
					alive = false
				}
				emit("retErr:%d", e.req)
				if e.req < n {
					res[e.req] = "E"
				}
			}
			q.kind = "done"
		}
		doBinds(idx)
	}
	var arr []string
	for _, a := range acts {
		if strings.HasPrefix(a, "arr:") {
			arr = append(arr, strings.TrimPrefix(a, "arr:"))
		}
	}
	sort.Strings(arr)
	for i := range res {
		if res[i] == "" {
			res[i] = "-"
		}
	}
	return acts, "res=" + strings.Join(res, "") + " arr=" + strings.Join(arr, ",")
}

// ---------------------------------------------------------------------------------------------

type result struct {
	sc   scenario
	o    outcome
	v    verdict
	acts []string
	sum  string
	runs int
}

func run(c *hc.Ctx) error {
	ctx := context.Background()
	w, err := newWorld(ctx)
	if err != nil {
		return err
	}
	defer w.cancel()
	var scs []scenario
	if c.Replay != "" {
		sc, ok := parseScenario(c.Replay)
		if !ok {
			return fmt.Errorf("bad replay input %q", c.Replay)
		}
		for i := 0; i < 5; i++ {
			scs = append(scs, sc)
		}
	} else {
		scs = baseScenarios()
		for i, n := 0, c.N(12, 270); i < n; i++ {
			scs = append(scs, randomScenario(c.Rng))
		}
	}
	results := make([]result, len(scs))
	var wg sync.WaitGroup
	idx := make(chan int, len(scs))
	for i := range scs {
		idx <- i
	}
	close(idx)
	for wk := 0; wk < 4; wk++ {
		wg.Add(1)
		go func(wk int) {
			defer wg.Done()
			for i := range idx {
				var r result
				for try := 0; try < 3; try++ {
					o := w.run(ctx, fmt.Sprintf("s%dt%d", i, try), scs[i])
					r = result{sc: scs[i], o: o, v: monitor(scs[i], o), runs: try + 1}
					r.acts, r.sum = modelTrace(scs[i], o)
					if !(r.v.anomaly || r.v.recheck) || genuineTimeouts.Load() >= 3 {
						break
					}
					if os.Getenv("VERIF_DEBUG") != "" {
						fmt.Fprintf(os.Stderr, "c29 debug: re-run of %s: %v | %s\n", scs[i].String(), r.v.fails, showLog(o.log))
					}
				}
				if r.v.anomaly {
					genuineTimeouts.Add(1) // persisted over the re-runs (or the verdict is already settled)
				}
				results[i] = r
			}
		}(wk)
	}
	wg.Wait()

	var lines, inputs, wants []string
	for _, r := range results {
		in := r.sc.String()
		seen := map[string]bool{}
		for _, f := range r.v.fails {
			if seen[f[0]] {
				continue
			}
			seen[f[0]] = true
			c.Fail(f[0], in, f[1]+" | history "+showLog(r.o.log))
		}
		if r.runs > 1 {
			c.Note("scenario re-run %d times because of a watchdog / ambiguous history (machine load): %s", r.runs, in)
		}
		c.Count("kill=" + r.sc.kill)
		c.Count("mode=" + r.sc.mode)
		c.Count("end=" + r.sc.end)
		c.Count(fmt.Sprintf("in-flight=%d", len(r.sc.first)))
		for _, f := range r.sc.first {
			c.Count("first=" + f)
		}
		resent := false
		for _, a := range r.acts {
			if strings.HasPrefix(a, "fail:") {
				resent = true
			}
			if strings.HasPrefix(a, "sendFail:") {
				c.Count("observed.send-error-surfaced")
			}
		}
		if resent {
			c.Count("observed.unacked-resent-on-new-connection")
		}
		if strings.Contains(r.sum, "E") {
			c.Count("observed.error-returned")
		}
		c.Eval(in, r.sc.kill != "none" || r.sc.end == "close")
		lines = append(lines, fmt.Sprintf("c29 %d %s", len(r.sc.first)+1, strings.Join(r.acts, " ")))
		inputs = append(inputs, in+" | "+showLog(r.o.log))
		wants = append(wants, "ok "+r.sum)
	}
	c.Res.Rule = "a case is one end-to-end scenario: a fresh telegram.Client against the in-process tgtest cluster over real sockets, 1..3 concurrent messages.sendMessage invocations whose first copy the server drops / acknowledges / acknowledges and answers / answers; the primary connection is killed (locally: client socket closed; remotely: both proxy legs closed) before the requests are issued / after the server received them / after the client processed the acknowledgements (also a batched msgs_ack whose first id is unknown to the client) / at the very moment the client has read the acknowledgement or the result from the wire (the handler goroutine of that message is held meanwhile) / after the results were returned / never; then the client reconnects (and must serve one more request) or is closed (pending and new invocations must return); non-trivial = a kill or a close happens; distinct = distinct scenario"
	c.PartialNote("real network and goroutine timing decide the interleaving inside a scenario; the model admits every order of the observed events and the history is re-run up to 3 times when a watchdog fires or the history is ambiguous (machine load)")
	c.PartialNote("the moment the client has read an acknowledgement from the wire is observed through mtproto's debug log line \"Received ack\" (the client's Logger), the moment it has read a result through the rpc verif point notify.invoke; a re-send after such a read is reported only when it persists over 3 runs of the scenario (it rests on the order of two goroutines)")
	c.PartialNote("the moment the client has processed an acknowledgement is observed through the rpc engine's verif point do.wait (VerifC24SetHook); duplicate execution is judged by the server-side log of received copies (the test server does not de-duplicate), acknowledgement = an explicit msgs_ack or the result")
	ans, err := c.Drv.Batch(lines)
	if err != nil {
		return err
	}
	for i, a := range ans {
		// observables must agree exactly and the model's monitor must hold on the final state
		want := wants[i] + " holds=1"
		got := a
		if results[i].v.anomaly {
			continue // persistent watchdog: reported through the monitor, nothing to compare
		}
		if want == got {
			c.Res.TracesValidated++
			continue
		}
		// the history comes from real sockets and goroutines: re-run the scenario before believing it
		agreed := false
		for try := 0; try < 2 && !agreed; try++ {
			o2 := w.run(ctx, fmt.Sprintf("r%dt%d", i, try), results[i].sc)
			v2 := monitor(results[i].sc, o2)
			if v2.anomaly || len(v2.fails) > 0 {
				continue
			}
			acts2, sum2 := modelTrace(results[i].sc, o2)
			a2, err := c.Drv.Ask(fmt.Sprintf("c29 %d %s", len(results[i].sc.first)+1, strings.Join(acts2, " ")))
			if err != nil {
				return err
			}
			if a2 == "ok "+sum2+" holds=1" {
				agreed = true
				c.Note("mismatch not reproduced when the scenario was re-run (timing artefact): %s | model said %s for the history %s", results[i].sc.String(), got, showLog(results[i].o.log))
				c.Res.TracesValidated++
			}
		}
		if !agreed {
			c.Differ(inputs[i], want, got, "persisted over 2 re-runs")
		}
	}
	return nil
}
