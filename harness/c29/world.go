package main

import (
	"context"
	"fmt"
	"net"
	"os"
	"sort"
	"strings"
	"sync"
	"sync/atomic"
	"time"

	"github.com/cenkalti/backoff/v4"
	"github.com/go-faster/errors"
	"github.com/gotd/log"

	"github.com/gotd/td/pool"

	"github.com/gotd/td/rpc"
	"github.com/gotd/td/session"
	"github.com/gotd/td/telegram"
	"github.com/gotd/td/telegram/dcs"
	"github.com/gotd/td/tg"
	"github.com/gotd/td/tgtest"
	"github.com/gotd/td/tgtest/cluster"
	"github.com/gotd/td/transport"
)

// patience() is the watchdog for "this must eventually happen"; everything else is event driven.  After
// three scenarios have genuinely timed out (also when re-run) the verdict is settled and the rest of the
// run only has to terminate.
var genuineTimeouts atomic.Int64

func patience() time.Duration {
	if genuineTimeouts.Load() >= 3 {
		return 3 * time.Second
	}
	return 60 * time.Second
}

// world is one in-process cluster shared by all scenarios; scenarios are distinguished by the
// request body prefix, each scenario owns its client and its client-side connections.
type world struct {
	cl     *cluster.Cluster
	cancel context.CancelFunc
	px     *proxy
	base   context.Context
	clMu   sync.Mutex
	upMu   sync.Mutex
	down   chan struct{}
	restarts atomic.Int64

	mu      sync.Mutex
	scen     map[string]*scen // by scenario id (prefix of the message body)
	byMsgID  map[int64]*scen
	byClient map[any]*scen
}

type event struct {
	kind  string // arr ack res seen kill ret close late
	req   int
	epoch int
	ok    bool
	note  string
}

func (e event) String() string {
	switch e.kind {
	case "arr", "ack", "res":
		return fmt.Sprintf("%s:%d:%d", e.kind, e.req, e.epoch)
	case "seen":
		return fmt.Sprintf("seen:%d", e.req)
	case "ret":
		if e.ok {
			return fmt.Sprintf("ret:%d:ok", e.req)
		}
		return fmt.Sprintf("ret:%d:err", e.req)
	case "inv":
		return fmt.Sprintf("inv:%d", e.req)
	case "dial":
		return fmt.Sprintf("dial:%d", e.epoch)
	case "rep":
		return fmt.Sprintf("rep:%d", e.epoch)
	case "end":
		return fmt.Sprintf("end:%d", e.epoch)
	case "back":
		return fmt.Sprintf("back:%d:%d:%s", e.req, e.epoch, e.note)
	case "rd":
		return fmt.Sprintf("rd:%d:%d:%s", e.req, e.epoch, e.note)
	case "grace":
		return fmt.Sprintf("grace:%d", e.req)
	case "dead":
		return fmt.Sprintf("dead:%d:%s", e.epoch, e.note)
	}
	return e.kind
}

// scen is the state of one running scenario.
type scen struct {
	id    string
	plan  scenario
	w     *world
	mu    sync.Mutex
	cond  *sync.Cond
	log   []event
	conns []*killConn       // client-side connections in dial order (epoch = index)
	sess  map[int64]int     // server-side session id -> epoch (order of first appearance)
	arr   map[int]int       // request -> number of arrivals
	msgOf map[int64]int     // msg id -> request
	msgEp map[int64]int     // msg id -> connection epoch on which the server received it
	errs  map[int]string    // request -> error text
	bad   []string

	started   bool        // the scenario proper has begun (Run's callback is running)
	epochs    int         // number of replaceConn calls since then = current connection epoch
	connEpoch map[any]int // primary connection object -> epoch
	lastConn  any
	doom      int // number of upcoming dials that are killed while they connect
	closedEv  bool
	readKilled bool // kill=ackread / resread: the kill at the moment of the read has happened
}

// kill kills the primary connection in place now, the way the scenario says.
func (s *scen) kill() {
	s.mu.Lock()
	k := s.conns[len(s.conns)-1]
	s.log = append(s.log, event{kind: "kill"})
	s.doom = s.plan.flaky
	s.cond.Broadcast()
	s.mu.Unlock()
	k.kill(s.plan.mode)
}

// read: the client has read from the wire an acknowledgement (what = "ack") or the result ("res") that the
// server sent for the message msgID, and is about to hand it to its rpc engine (the calling goroutine
// is the connection's handler of that message).  With kill=ackread / kill=resread the connection is
// killed at exactly this moment and the handler is held for a while (until the invocation came back
// from the dead connection, at most a second): an implementation that closes the engine of a dead
// connection without waiting for the messages it has already read would now fail the invocation over
// and send the acknowledged request again.
func (s *scen) read(what string, ids []int64) {
	n := len(s.plan.first)
	s.mu.Lock()
	var mine []int
	for _, id := range ids {
		if r, ok := s.msgOf[id]; ok {
			s.log = append(s.log, event{kind: "rd", req: r, epoch: s.msgEp[id], note: what})
			if r < n {
				mine = append(mine, r)
			}
		}
	}
	s.cond.Broadcast()
	trigger := len(mine) > 0 && !s.readKilled &&
		((what == "ack" && s.plan.kill == "ackread") || (what == "res" && s.plan.kill == "resread"))
	if trigger {
		s.readKilled = true
	}
	s.mu.Unlock()
	if what == "ack" && s.plan.kill == "acked" {
		// kill=acked waits until the client's engine has registered the acknowledgement ("seen"); if the
		// engine never does although the client has read it, go on after a grace period
		for _, r := range mine {
			r := r
			time.AfterFunc(2*time.Second, func() { s.add(event{kind: "grace", req: r}) })
		}
	}
	if !trigger {
		return
	}
	s.kill()
	s.waitQuietFor(time.Second, func() bool {
		if s.closedEv {
			return true
		}
		for _, e := range s.log {
			if e.kind == "back" && e.note == "retry" {
				for _, r := range mine {
					if e.req == r {
						return true
					}
				}
			}
		}
		return false
	})
}

// scenLogger is the client's logger: the debug line that mtproto writes when it has decoded a msgs_ack
// ("Received ack", before rpc.Engine.NotifyAcks) is the observation point "the client has read the
// acknowledgement", without a call site in the source.
type scenLogger struct{ s *scen }

func (scenLogger) Enabled(_ context.Context, l log.Level) bool { return l == log.LevelDebug }

func (l scenLogger) Log(_ context.Context, _ log.Level, msg string, attrs ...log.Attr) {
	if msg != "Received ack" {
		return
	}
	for _, a := range attrs {
		if a.Key == "msg_ids" {
			if ids, ok := a.Value.Any().([]int64); ok {
				l.s.read("ack", append([]int64(nil), ids...))
			}
		}
	}
}

func (s *scen) add(e event) {
	s.mu.Lock()
	s.log = append(s.log, e)
	s.cond.Broadcast()
	s.mu.Unlock()
}

// waitFor blocks until pred holds on the log (checked under the lock) or the watchdog fires.
func (s *scen) waitFor(what string, pred func(log []event) bool) bool {
	deadline := time.Now().Add(patience())
	timer := time.AfterFunc(patience(), func() { s.mu.Lock(); s.cond.Broadcast(); s.mu.Unlock() })
	defer timer.Stop()
	s.mu.Lock()
	defer s.mu.Unlock()
	for !pred(s.log) {
		if time.Now().After(deadline) {
			s.bad = append(s.bad, "watchdog: "+what)
			return false
		}
		s.cond.Wait()
	}
	return true
}

func count(log []event, f func(e event) bool) int {
	n := 0
	for _, e := range log {
		if f(e) {
			n++
		}
	}
	return n
}

// killConn is the client's socket; it reaches the server through the harness's proxy so that the
// connection can be killed either locally (the client's own socket is closed: reads and writes fail at
// once) or remotely (both legs of the proxy are closed: the client sees EOF / reset like after a peer
// or network failure, a write that was already accepted by the kernel is lost).
type killConn struct {
	net.Conn
	once  sync.Once
	mu    sync.Mutex
	legs  []net.Conn // proxy side sockets
	killed atomic.Bool // closed by the harness
	ready chan struct{}
}

func (k *killConn) kill(mode string) {
	k.killed.Store(true)
	k.once.Do(func() {
		if mode == "local" {
			_ = k.Conn.Close()
			return
		}
		select {
		case <-k.ready:
		case <-time.After(patience()):
		}
		k.mu.Lock()
		for _, l := range k.legs {
			_ = l.Close()
		}
		k.mu.Unlock()
	})
}

// proxy accepts the clients' connections and forwards them to the server of DC 2.
type proxy struct {
	l      net.Listener
	target string
	mu     sync.Mutex
	wait   map[string]*killConn // by the client's local address
}

func newProxy(target string) (*proxy, error) {
	l, err := net.Listen("tcp4", "127.0.0.1:0")
	if err != nil {
		return nil, err
	}
	p := &proxy{l: l, target: target, wait: map[string]*killConn{}}
	go func() {
		for {
			c, err := l.Accept()
			if err != nil {
				return
			}
			go p.serve(c)
		}
	}()
	return p, nil
}

// relay copies both directions until one side ends, then closes both.
func relay(c, up net.Conn) {
	done := make(chan struct{}, 2)
	cp := func(dst, src net.Conn) {
		buf := make([]byte, 32*1024)
		for {
			n, err := src.Read(buf)
			if n > 0 {
				if _, werr := dst.Write(buf[:n]); werr != nil {
					break
				}
			}
			if err != nil {
				break
			}
		}
		done <- struct{}{}
	}
	go cp(up, c)
	go cp(c, up)
	<-done
	_ = c.Close()
	_ = up.Close()
}

func (p *proxy) serve(c net.Conn) {
	up, err := net.Dial("tcp4", p.target)
	if err != nil {
		_ = c.Close()
		return
	}
	// find the killConn of this client socket (registered right after the dial returned)
	var k *killConn
	deadline := time.Now().Add(patience())
	for k == nil && time.Now().Before(deadline) {
		p.mu.Lock()
		k = p.wait[c.RemoteAddr().String()]
		if k != nil {
			delete(p.wait, c.RemoteAddr().String())
		}
		p.mu.Unlock()
		if k == nil {
			time.Sleep(50 * time.Microsecond)
		}
	}
	if k != nil {
		k.mu.Lock()
		k.legs = []net.Conn{c, up}
		k.mu.Unlock()
		close(k.ready)
	}
	done := make(chan struct{}, 2)
	cp := func(dst, src net.Conn) {
		buf := make([]byte, 32*1024)
		for {
			n, err := src.Read(buf)
			if n > 0 {
				if _, werr := dst.Write(buf[:n]); werr != nil {
					break
				}
			}
			if err != nil {
				break
			}
		}
		done <- struct{}{}
	}
	go cp(up, c)
	go cp(c, up)
	<-done
	_ = c.Close()
	_ = up.Close()
}

// startCluster brings up a fresh in-process cluster (the previous one, if any, is abandoned).
func (w *world) startCluster() error {
	cl := cluster.NewCluster(cluster.Options{Protocol: transport.Intermediate})
	cl.Dispatch(2, "server").HandleFunc(tg.MessagesSendMessageRequestTypeID, w.onSend)
	down := make(chan struct{})
	go func() {
		err := cl.Up(w.base)
		if os.Getenv("VERIF_DEBUG") != "" {
			fmt.Fprintln(os.Stderr, "c29 debug: cluster ended:", err)
		}
		close(down)
	}()
	select {
	case <-cl.Ready():
	case <-time.After(patience()):
		return fmt.Errorf("cluster did not come up")
	}
	target := ""
	for _, o := range cl.List().Options {
		if o.ID == 2 {
			target = net.JoinHostPort(o.IPAddress, fmt.Sprint(o.Port))
		}
	}
	w.clMu.Lock()
	w.cl = cl
	w.px = &proxy{target: target}
	w.down = down
	w.clMu.Unlock()
	return nil
}

// ensureUp: the tgtest cluster shuts down as a whole when one of its connections ends with an
// unexpected error (e.g. a frame cut in half by a kill); that is a property of the test server, not of
// the client.  Probe it before every scenario and start a new one if it is gone.
func (w *world) ensureUp() (*cluster.Cluster, string, error) {
	w.upMu.Lock()
	defer w.upMu.Unlock()
	w.clMu.Lock()
	cl, target, down := w.cl, w.px.target, w.down
	w.clMu.Unlock()
	// (a probe connection would itself take the cluster down: a connection closed before its first byte
	// makes the listener's codec detection fail and the cluster's accept loop end)
	select {
	case <-down:
	default:
		return cl, target, nil
	}
	w.restarts.Add(1)
	if err := w.startCluster(); err != nil {
		return nil, "", err
	}
	w.clMu.Lock()
	defer w.clMu.Unlock()
	return w.cl, w.px.target, nil
}

func newWorld(ctx context.Context) (*world, error) {
	ctx, cancel := context.WithCancel(ctx)
	w := &world{cancel: cancel, scen: map[string]*scen{}, byMsgID: map[int64]*scen{}, byClient: map[any]*scen{}, base: ctx}
	if err := w.startCluster(); err != nil {
		cancel()
		return nil, err
	}
	rpc.VerifC24SetHook(func(name string, id int64) {
		if name != "do.wait" && name != "notify.invoke" {
			return
		}
		w.mu.Lock()
		s := w.byMsgID[id]
		w.mu.Unlock()
		if s == nil {
			return
		}
		if name == "notify.invoke" {
			// the connection's handler goroutine is about to deliver the result it has read from the wire
			s.read("res", []int64{id})
			return
		}
		s.mu.Lock()
		r, ok := s.msgOf[id]
		s.mu.Unlock()
		if ok {
			s.add(event{kind: "seen", req: r})
		}
	})
	telegram.VerifC29SetHook(w.clientHook)
	return w, nil
}

type reqKeyT struct{}

type reqTag struct {
	s *scen
	r int
}

// clientHook receives the observation points of telegram.Client (build tag verif).
func (w *world) clientHook(ctx context.Context, point string, args ...any) {
	switch point {
	case "conn.replaced":
		w.mu.Lock()
		s := w.byClient[args[0]]
		w.mu.Unlock()
		if s == nil {
			return
		}
		s.mu.Lock()
		s.lastConn = args[1]
		if s.started {
			s.epochs++
			s.connEpoch[args[1]] = s.epochs
			s.log = append(s.log, event{kind: "rep", epoch: s.epochs})
			s.cond.Broadcast()
		}
		s.mu.Unlock()
	case "invoke.returned":
		if ctx == nil {
			return
		}
		tag, ok := ctx.Value(reqKeyT{}).(reqTag)
		if !ok {
			return
		}
		s := tag.s
		err, _ := args[2].(error)
		kind := "ok"
		retry := false
		switch {
		case err == nil:
		case errors.Is(err, pool.ErrConnDead) || errors.Is(err, rpc.ErrEngineClosed):
			kind, retry = "retry", true
		default:
			kind = "err"
		}
		s.mu.Lock()
		ep, known := s.connEpoch[args[1]]
		if !known {
			// a connection object never seen in a replacement since the scenario began: the one that was in
			// place at the start (every later one is registered by "conn.replaced" before it can be used)
			ep = 0
			s.connEpoch[args[1]] = ep
		}
		s.log = append(s.log, event{kind: "back", req: tag.r, epoch: ep, note: kind})
		s.cond.Broadcast()
		s.mu.Unlock()
		if retry && s.plan.late {
			// hold the invocation between the failure of conn.Invoke and whatever it does next until the
			// connection has been replaced (or the client closed): the order in which a late subscriber
			// to connChanged would miss the wake-up
			s.waitQuiet(func() bool { return s.epochs > ep || s.closedEv })
		}
	}
}

// waitQuiet waits (bounded, without recording a watchdog failure) until pred holds.
func (s *scen) waitQuiet(pred func() bool) { s.waitQuietFor(10*time.Second, pred) }

func (s *scen) waitQuietFor(d time.Duration, pred func() bool) {
	deadline := time.Now().Add(d)
	timer := time.AfterFunc(d, func() { s.mu.Lock(); s.cond.Broadcast(); s.mu.Unlock() })
	defer timer.Stop()
	s.mu.Lock()
	defer s.mu.Unlock()
	for !pred() && time.Now().Before(deadline) {
		s.cond.Wait()
	}
}

// onSend is the server-side handler of messages.sendMessage: the message text is "<scenario>/<request>".
func (w *world) onSend(server *tgtest.Server, req *tgtest.Request) error {
	m := &tg.MessagesSendMessageRequest{}
	if err := m.Decode(req.Buf); err != nil {
		return err
	}
	i := strings.IndexByte(m.Message, '/')
	if i < 0 {
		return server.SendGZIP(req, &tg.Updates{})
	}
	w.mu.Lock()
	s := w.scen[m.Message[:i]]
	if s != nil {
		w.byMsgID[req.MsgID] = s
	}
	w.mu.Unlock()
	if s == nil {
		return server.SendGZIP(req, &tg.Updates{})
	}
	var r int
	fmt.Sscanf(m.Message[i+1:], "%d", &r)
	s.mu.Lock()
	ep, ok := s.sess[req.Session.ID]
	if !ok {
		ep = s.epochs // the session belongs to the primary connection in place now
		s.sess[req.Session.ID] = ep
	}
	s.arr[r]++
	n := s.arr[r]
	s.msgOf[req.MsgID] = r
	s.msgEp[req.MsgID] = ep
	s.log = append(s.log, event{kind: "arr", req: r, epoch: ep})
	s.cond.Broadcast()
	s.mu.Unlock()
	beh := "res"
	if r < len(s.plan.first) && n == 1 {
		beh = s.plan.first[r]
	}
	switch beh {
	case "drop":
		return nil
	case "ack", "ackres", "ackb":
		s.add(event{kind: "ack", req: r, epoch: ep})
		ids := []int64{req.MsgID}
		if beh == "ackb" {
			// a batched msgs_ack: an id the client's engine does not wait for (a message of an hour ago)
			// comes before the id of the pending request
			ids = []int64{req.MsgID - 3600<<32, req.MsgID}
		}
		if err := server.SendAck(req.RequestCtx, req.Session, ids...); err != nil {
			return nil
		}
		if beh != "ackres" {
			return nil
		}
	}
	s.add(event{kind: "res", req: r, epoch: ep})
	_ = server.SendGZIP(req, &tg.Updates{})
	return nil
}

// scenario: n requests in flight; first[i] is what the server does on the first arrival of request i;
// kill says when the primary connection is killed; end says what follows.
type scenario struct {
	first []string // drop | ack | ackb (batched msgs_ack, a stale id first) | ackres | res
	kill  string   // none | before | arrived | acked | returned | ackread | resread (at the moment the client has read the acknowledgement / the result from the wire)
	mode  string   // local | remote (how the connection is killed)
	end   string   // reconnect | close
	flaky int      // after the kill, this many replacement connections fail while they connect
	fkind string   // how they fail: eof (closed right after the TCP connect) | refuse (the dial itself fails)
	late  bool     // hold a failed invocation until the connection has been replaced
}

func (sc scenario) String() string {
	l := 0
	if sc.late {
		l = 1
	}
	fk := sc.fkind
	if fk == "" {
		fk = "eof"
	}
	return fmt.Sprintf("first=%s kill=%s mode=%s end=%s flaky=%d fkind=%s late=%d", strings.Join(sc.first, ","), sc.kill, sc.mode, sc.end, sc.flaky, fk, l)
}

type outcome struct {
	log   []event
	bad   []string
	errs  map[int]string
	after string // result of an invocation issued after the end of the scenario
}

func (w *world) run(ctx context.Context, id string, sc scenario) outcome {
	s := &scen{id: id, plan: sc, w: w, sess: map[int64]int{}, arr: map[int]int{}, msgOf: map[int64]int{}, errs: map[int]string{}, connEpoch: map[any]int{}, msgEp: map[int64]int{}}
	s.cond = sync.NewCond(&s.mu)
	w.mu.Lock()
	w.scen[id] = s
	w.mu.Unlock()
	defer func() {
		w.mu.Lock()
		delete(w.scen, id)
		w.mu.Unlock()
	}()

	cl, target, err := w.ensureUp()
	if err != nil {
		s.bad = append(s.bad, "watchdog: test cluster could not be started: "+err.Error())
		return outcome{bad: s.bad, errs: s.errs}
	}
	var d net.Dialer
	resolver := dcs.Plain(dcs.PlainOptions{
		Protocol: transport.Intermediate,
		Dial: func(ctx context.Context, network, addr string) (net.Conn, error) {
			// a private relay per dial: client socket <-> relay <-> server, so that the harness can kill the
			// connection from the remote side as well
			l, err := net.Listen("tcp4", "127.0.0.1:0")
			if err != nil {
				return nil, err
			}
			acc := make(chan net.Conn, 1)
			go func() {
				pc, err := l.Accept()
				_ = l.Close()
				if err != nil {
					close(acc)
					return
				}
				acc <- pc
			}()
			c, err := d.DialContext(ctx, network, l.Addr().String())
			if err != nil {
				_ = l.Close()
				return nil, err
			}
			pc, ok := <-acc
			if !ok {
				_ = c.Close()
				return nil, fmt.Errorf("relay accept failed")
			}
			s.mu.Lock()
			doomed := false
			if s.doom > 0 {
				s.doom--
				doomed = true
			}
			s.mu.Unlock()
			if doomed && sc.fkind == "refuse" {
				// the replacement connection cannot even be dialed (the client fails before its connection's
				// init callback runs)
				_ = pc.Close()
				_ = c.Close()
				s.mu.Lock()
				s.conns = append(s.conns, &killConn{Conn: c, ready: make(chan struct{})})
				s.log = append(s.log, event{kind: "dial", epoch: len(s.conns) - 1})
				s.cond.Broadcast()
				s.mu.Unlock()
				return nil, fmt.Errorf("fake: connection refused")
			}
			if doomed {
				// this replacement connection dies while the client connects on it, before anything reaches
				// the server: the relay end is closed at once
				_ = pc.Close()
				k := &killConn{Conn: c, ready: make(chan struct{})}
				close(k.ready)
				s.mu.Lock()
				s.conns = append(s.conns, k)
				s.log = append(s.log, event{kind: "dial", epoch: len(s.conns) - 1})
				s.cond.Broadcast()
				s.mu.Unlock()
				return k, nil
			}
			up, err := d.DialContext(ctx, "tcp4", target)
			if err != nil {
				_ = c.Close()
				_ = pc.Close()
				return nil, err
			}
			k := &killConn{Conn: c, ready: make(chan struct{}), legs: []net.Conn{pc, up}}
			close(k.ready)
			s.mu.Lock()
			s.conns = append(s.conns, k)
			di := len(s.conns) - 1
			s.log = append(s.log, event{kind: "dial", epoch: di})
			s.cond.Broadcast()
			s.mu.Unlock()
			go func() {
				relay(pc, up)
				if !k.killed.Load() {
					// the connection ended without the harness killing it (server or client closed it)
					s.add(event{kind: "end", epoch: di})
				}
			}()
			return k, nil
		},
	})
	client := telegram.NewClient(1, "hash", telegram.Options{
		PublicKeys:     cl.Keys(),
		Resolver:       resolver,
		SessionStorage: &session.StorageMemory{},
		DCList:         cl.List(),
		Logger:         scenLogger{s},
		NoUpdates:      true,
		OnDead: func(err error) {
			// which task of the connection noticed the death first: the read loop (it returns only after the
			// handlers of the messages already read have finished) or another one (the engine is closed at once)
			who := "other"
			if strings.Contains(err.Error(), "task readLoop:") {
				who = "read"
			}
			s.mu.Lock()
			s.log = append(s.log, event{kind: "dead", epoch: s.epochs, note: who})
			s.cond.Broadcast()
			s.mu.Unlock()
			if os.Getenv("VERIF_DEBUG") != "" {
				fmt.Fprintln(os.Stderr, "c29 debug: connection dead:", err)
			}
		},
		RetryInterval:  time.Hour, // no retransmission on the same connection: every arrival is a (re)send by invokeConn
		ReconnectionBackoff: func() backoff.BackOff {
			return backoff.NewConstantBackOff(5 * time.Millisecond)
		},
	})
	w.mu.Lock()
	w.byClient[client] = s
	w.mu.Unlock()
	defer func() {
		w.mu.Lock()
		delete(w.byClient, client)
		w.mu.Unlock()
	}()
	cctx, ccancel := context.WithCancel(ctx)
	defer ccancel()
	n := len(sc.first)
	kill := s.kill
	invoke := func(ictx context.Context, r int) {
		s.add(event{kind: "inv", req: r})
		ictx = context.WithValue(ictx, reqKeyT{}, reqTag{s, r})
		err := client.SendMessage(ictx, &tg.MessagesSendMessageRequest{Peer: &tg.InputPeerUser{}, Message: fmt.Sprintf("%s/%d", id, r)})
		if err != nil {
			s.mu.Lock()
			s.errs[r] = err.Error()
			s.mu.Unlock()
		}
		s.add(event{kind: "ret", req: r, ok: err == nil})
	}
	returned := func(k int) func([]event) bool {
		return func(l []event) bool { return count(l, func(e event) bool { return e.kind == "ret" && e.req < n }) >= k }
	}
	runErr := make(chan error, 1)
	started := make(chan struct{})
	go func() {
		runErr <- client.Run(cctx, func(ictx context.Context) error {
			s.mu.Lock()
			s.started = true
			if s.lastConn != nil {
				s.connEpoch[s.lastConn] = 0
			}
			s.mu.Unlock()
			close(started)
			if sc.kill == "before" {
				kill()
			}
			for r := 0; r < n; r++ {
				go invoke(ictx, r)
			}
			switch sc.kill {
			case "arrived":
				s.waitFor("all requests arrive once", func(l []event) bool {
					return count(l, func(e event) bool { return e.kind == "arr" }) >= n
				})
				kill()
			case "acked":
				// every request whose first arrival is acknowledged has been seen acknowledged by the client
				want := 0
				for _, f := range sc.first {
					if f == "ack" || f == "ackres" || f == "ackb" {
						want++
					}
				}
				s.waitFor("all requests arrive once", func(l []event) bool {
					return count(l, func(e event) bool { return e.kind == "arr" }) >= n
				})
				s.waitFor("client saw the acknowledgements", func(l []event) bool {
					acked, seen := map[int]bool{}, map[int]bool{}
					for _, e := range l {
						if e.kind == "ack" {
							acked[e.req] = true
						}
						if (e.kind == "seen" || e.kind == "grace") && acked[e.req] {
							seen[e.req] = true
						}
					}
					return len(seen) >= want
				})
				kill()
			case "returned":
				s.waitFor("all invocations return", returned(n))
				kill()
			case "ackread", "resread":
				// the kill happens in the connection's handler goroutine (scen.read)
				s.waitFor("the connection is killed when the client reads the acknowledgement / result", func(l []event) bool {
					return count(l, func(e event) bool { return e.kind == "kill" }) >= 1
				})
			}
			if sc.kill != "none" && sc.end == "reconnect" {
				// keep the replacement connection busy: the test server drops idle connections after 30 s,
				// which would hide an invocation that missed its wake-up (it would be woken by the next,
				// spontaneous replacement)
				kctx, kcancel := context.WithCancel(ictx)
				defer kcancel()
				go func() {
					for {
						select {
						case <-kctx.Done():
							return
						case <-time.After(2 * time.Second):
						}
						cctx2, c2 := context.WithTimeout(kctx, 20*time.Second)
						_ = client.SendMessage(cctx2, &tg.MessagesSendMessageRequest{Peer: &tg.InputPeerUser{}, Message: "keepalive"})
						c2()
					}
				}()
			}
			if sc.end == "close" {
				if sc.kill == "none" {
					s.waitFor("all requests arrive once", func(l []event) bool {
						return count(l, func(e event) bool { return e.kind == "arr" }) >= n
					})
				}
				s.mu.Lock()
				s.closedEv = true
				s.log = append(s.log, event{kind: "close"})
				s.cond.Broadcast()
				s.mu.Unlock()
				return nil // returning from the callback closes the client
			}
			s.waitFor("all invocations return", returned(n))
			// the connection in place now must serve a fresh request
			invoke(ictx, n)
			return nil
		})
	}()
	select {
	case <-started:
	case err := <-runErr:
		s.bad = append(s.bad, fmt.Sprintf("client did not start: %v", err))
		return outcome{log: s.log, bad: s.bad, errs: s.errs}
	case <-time.After(patience()):
		s.bad = append(s.bad, "watchdog: client start")
		return outcome{log: s.log, bad: s.bad, errs: s.errs}
	}
	select {
	case <-runErr:
	case <-time.After(2 * patience()):
		s.bad = append(s.bad, "watchdog: client.Run did not return")
	}
	// pending invocations must have returned once the client is closed
	s.waitFor("all invocations return after close", returned(n))
	var out outcome
	if sc.end == "close" {
		// a new invocation on the closed client must return instead of waiting for a reconnect
		done := make(chan error, 1)
		go func() {
			done <- client.SendMessage(context.Background(), &tg.MessagesSendMessageRequest{Peer: &tg.InputPeerUser{}, Message: id + "/99"})
		}()
		select {
		case err := <-done:
			if err == nil {
				out.after = "ok"
			} else {
				out.after = "err"
			}
		case <-time.After(patience()):
			out.after = "blocked"
		}
	}
	s.mu.Lock()
	out.log = append([]event(nil), s.log...)
	out.bad = append([]string(nil), s.bad...)
	out.errs = map[int]string{}
	for k, v := range s.errs {
		out.errs[k] = v
	}
	s.mu.Unlock()
	return out
}

func showLog(l []event) string {
	var ss []string
	for _, e := range l {
		ss = append(ss, e.String())
	}
	return strings.Join(ss, " ")
}

func sortedKeys(m map[int]string) []int {
	var ks []int
	for k := range m {
		ks = append(ks, k)
	}
	sort.Ints(ks)
	return ks
}
